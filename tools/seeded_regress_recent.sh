#!/bin/bash
# regression of the seeded changes of batches 12-17 against the check of the property each breaks (snapshot run)
sed -i "s#path = \"/repo\"#path = \"$VP_RUN_REPO\"#" harness/Cargo.toml harness-loom/Cargo.toml
export VERIF_REPO=$VP_RUN_REPO
python3 tools/extract.py && RS2LEAN_NO_ELAB=1 python3 tools/rs2lean.py && (cd lean && lake build 2>&1 | tail -2) && (cd harness && CARGO_NET_OFFLINE=true cargo build --release --offline 2>&1 | tail -1)
for n in $(cat tools/recent_seeded.txt); do
  id=$(python3 -c "import json;print(json.load(open('seeded/$n/meta.json'))['property'])")
  s=$(date +%s); out=$(nice -n 5 python3 tools/seedtest.py run $n $id 2>&1 | grep -E "^$n|WARNING|refusing|does not apply" | cut -c1-230); e=$(date +%s)
  echo "REGRESS $n [$id] $((e-s))s :: $out"
done
echo REGRESS-DONE
