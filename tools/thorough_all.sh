#!/bin/bash
# runs in a snapshot of /verif; $VP_RUN_REPO is a snapshot of /repo's HEAD
set -x
sed -i "s#path = \"/repo\"#path = \"$VP_RUN_REPO\"#" harness/Cargo.toml harness-loom/Cargo.toml
export VERIF_REPO=$VP_RUN_REPO
python3 tools/extract.py && RS2LEAN_NO_ELAB=1 python3 tools/rs2lean.py && (cd lean && lake build 2>&1 | tail -2) && (cd harness && CARGO_NET_OFFLINE=true cargo build --release --offline 2>&1 | tail -1) && (cd harness-loom && CARGO_NET_OFFLINE=true cargo build --release --offline 2>&1 | tail -1)
for i in 01 02 03 04 05 06 07 08 09 10 11 12 13 16 17 18 19 20 14 15; do
  s=$(date +%s); ./check C$i --tier thorough > thorough_C$i.log 2>&1; rc=$?; e=$(date +%s)
  echo "THOROUGH C$i rc=$rc $((e-s))s $(tail -1 thorough_C$i.log | cut -c1-200)"
done
