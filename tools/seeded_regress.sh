#!/bin/bash
# regression of every seeded change against the checks that are recorded as catching it.
# runs in a snapshot of /verif (vp run --with-repo); $VP_RUN_REPO is a snapshot of /repo's HEAD. Results go to the log only.
sed -i "s#path = \"/repo\"#path = \"$VP_RUN_REPO\"#" harness/Cargo.toml harness-loom/Cargo.toml
export VERIF_REPO=$VP_RUN_REPO
python3 tools/extract.py && RS2LEAN_NO_ELAB=1 python3 tools/rs2lean.py && (cd lean && lake build 2>&1 | tail -2) && (cd harness && CARGO_NET_OFFLINE=true cargo build --release --offline 2>&1 | tail -1) && (cd harness-loom && CARGO_NET_OFFLINE=true cargo build --release --offline 2>&1 | tail -1)
order=$(ls seeded | grep -E '^(C08|C12|C13)'; ls seeded | grep -vE '^(C08|C12|C13)')
for n in $order; do
  ids=$(python3 -c "
import json,sys,os
p='seeded/$n/detection.json'
d=json.load(open(p)) if os.path.exists(p) else {}
ids=[k for k,v in d.items() if v.get('exit')==1] or ['$n'.split('-')[0]]
print(' '.join(ids[:2]))")
  s=$(date +%s); out=$(nice -n 10 python3 tools/seedtest.py run $n $ids 2>&1 | grep -E "^$n|WARNING|refusing|does not apply" | cut -c1-260); e=$(date +%s)
  echo "REGRESS $n [$ids] $((e-s))s :: $out"
done
echo REGRESS-DONE
