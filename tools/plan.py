"""Per-property plan: which theorem modules are the property's obligations, which translated items
they consume, which observation fields the correspondence constrains for it, which script
families run in each tier, and which families the search uses when an obligation breaks."""

TRUSTED_BASE = [
    "Lean 4.33.0 kernel (lake build; thorough tier: leanchecker re-check of the Props modules)",
    "axioms admitted: propext, Classical.choice, Quot.sound (audited with #print axioms on every run)",
    "tools/extract.py (translator of constants, tables, growth rule, guards, delegating bodies, atomic orderings)",
    "tools/rs2lean.py (translator of the control flow of repr.rs into LSModel/GenRepr.lean) and LSModel/Rt.lean (the meaning of the primitives the translated code calls: HeapBuffer/InlineBuffer/StaticBuffer methods, atomics, transmutes)",
    "hand-written Lean model of the pointer code (LSModel/Handle.lean, Api.lean), tied to /repo by the correspondence run of this check",
    "harness/ (shadow heap, script executor, String/std oracles) and the verif-hooks feature of /repo",
]

DEFAULT_RULE = (
    "script families (seeded state-aware random, bounded-exhaustive from 14 pre-states, directed templates) "
    "run on the real crate and on the Lean model; a case is non-trivial when it contains a storage transition, "
    "an operation on a shared buffer or a non-ok outcome; distinct = distinct script hash"
)

RANDOM_Q = {"name": "random", "n": 4000}
RANDOM_T = {"name": "random", "n": 60000}
ENUM_Q = {"name": "enum", "depth": 2}
ENUM_T = {"name": "enum", "depth": 3}

CORE = ["LSProofs.Props.%s"]


def fam(name, **kw):
    d = {"name": name}
    d.update(kw)
    return d


def P(pid, modules, fields, quick, thorough, consumes=(), search=None, **kw):
    d = {
        "modules": modules,
        "fields": fields,
        "families": {"quick": quick, "thorough": thorough},
        "consumes": list(consumes),
        "search": search if search is not None else [fam("random", n=30000), fam("enum", depth=3)],
    }
    d.update(kw)
    return d


CONSTS = ["maxInlineSize", "heapMaxLen", "staticMaxLen", "headerSize", "mask1100", "heapTag", "staticTag"]
GUARDS = CONSTS
G09 = CONSTS + ["guardFromStr", "guardFromStaticStr", "guardWithCapacity", "guardReserveStatic", "guardReserveInline", "guardInlineSetLen"]
G10 = CONSTS + ["guardFromStaticStr", "guardStaticNew"]
G11 = CONSTS + ["guardReserveUnique", "guardWithCapacity", "guardReserveInline"]
G13 = CONSTS + ["guardShrinkInline", "guardShrinkNoop"]
G06 = CONSTS + ["guardTextLenNew", "guardCapacityNew", "guardStaticNew", "amortizedGrowth"]
G20 = CONSTS + ["lastByteDiscriminants"]

# Tie 1b: modules of LSProofs/Gen (translated repr.rs = hand model), the translated functions each consumes,
# and which properties have them among their obligations (the functions their anchors name).
def T(*names):
    return [f"LSProofs.Gen.{n}" for n in names]

TIE_FUNCS = {
    "LSProofs.Gen.Ctor": ["Repr.new", "Repr.from_str", "Repr.with_capacity", "Repr.from_static_str"],
    "LSProofs.Gen.Readers": ["Repr.capacity", "Repr.is_unique"],
    "LSProofs.Gen.Release": ["Repr.replace_inner"],
    "LSProofs.Gen.SetLen": ["Repr.set_len", "Repr.truncate_unchecked", "Repr.truncate"],
    "LSProofs.Gen.Reserve": ["Repr.reserve", "Repr.replace_inner"],
    "LSProofs.Gen.Ensure": ["Repr.ensure_modifiable", "Repr.replace_inner", "Repr.from_str"],
    "LSProofs.Gen.Shrink": ["Repr.shrink_to", "Repr.replace_inner"],
    "LSProofs.Gen.Clone": ["Repr.make_shallow_clone"],
    "LSProofs.Gen.Clear": ["LeanString.clear", "Repr.is_unique", "Repr.set_len", "Repr.replace_inner", "Repr.new"],
    "LSProofs.Gen.Kind": ["Repr.is_heap_buffer_body", "Repr.is_static_buffer_body"],
    "LSProofs.Gen.PushStr": ["Repr.push_str", "Repr.reserve", "Repr.set_len", "Repr.replace_inner"],
    "LSProofs.Gen.InsertStr": ["Repr.insert_str", "Repr.reserve", "Repr.set_len", "Repr.replace_inner"],
    "LSProofs.Gen.PopRemove": ["Repr.pop", "Repr.remove", "Repr.ensure_modifiable", "Repr.set_len", "Repr.truncate_unchecked",
                               "Repr.replace_inner", "Repr.from_str"],
    "LSProofs.Gen.Wrappers": ["LeanString.try_reserve", "LeanString.try_shrink_to_fit", "LeanString.try_shrink_to", "LeanString.try_push",
                              "LeanString.try_pop", "LeanString.try_push_str", "LeanString.try_remove", "LeanString.try_insert",
                              "LeanString.try_insert_str", "LeanString.try_truncate", "LeanString.capacity", "LeanString.len",
                              "LeanString.is_heap_allocated"],
    "LSProofs.Gen.Panicking": ["LeanString.push", "LeanString.pop", "LeanString.push_str", "LeanString.remove", "LeanString.insert",
                               "LeanString.insert_str", "LeanString.truncate", "LeanString.reserve", "LeanString.shrink_to",
                               "LeanString.shrink_to_fit", "LeanString.with_capacity", "LeanString.try_with_capacity",
                               "LeanString.add_assign", "LeanString.write_str", "LeanString.add", "LeanString.from_str_ref"],
    "LSProofs.Gen.Extend": ["LeanString.extend_char", "LeanString.extend_str", "LeanString.extend_string", "LeanString.extend_box",
                            "LeanString.push", "LeanString.push_str", "LeanString.try_push", "LeanString.try_push_str",
                            "LeanString.try_reserve", "Repr.push_str", "Repr.reserve"],
    "LSProofs.Gen.Collect": ["LeanString.from_iter_char", "LeanString.from_iter_str", "LeanString.from_iter_string", "LeanString.new",
                             "LeanString.drop", "LeanString.extend_str", "LeanString.push", "Repr.with_capacity", "Repr.new"],
    "LSProofs.Gen.Decode": ["LeanString.from_utf8", "LeanString.from_utf8_lossy", "LeanString.from_utf16", "LeanString.with_capacity",
                            "LeanString.try_with_capacity", "LeanString.push", "LeanString.push_str", "LeanString.drop",
                            "LeanString.from_str_ref", "Repr.from_str", "Repr.with_capacity"],
    "LSProofs.Gen.CloneDrop": ["LeanString.clone", "LeanString.clone_from", "LeanString.drop", "Repr.make_shallow_clone",
                               "Repr.replace_inner", "Repr.new"],
    "LSProofs.Gen.StepG": ["Repr.new", "Repr.from_str", "Repr.with_capacity", "Repr.replace_inner", "Repr.set_len", "Repr.truncate_unchecked",
                           "Repr.truncate", "Repr.make_shallow_clone", "Repr.reserve", "Repr.shrink_to", "Repr.ensure_modifiable",
                           "Repr.push_str", "Repr.insert_str", "Repr.remove", "Repr.pop", "Repr.retain", "Repr.from_char", "Repr.from_bool", "Repr.is_unique", "LeanString.clear",
                           "LeanString.clone", "LeanString.clone_from", "LeanString.drop"],
    "LSProofs.Gen.HeapBuf": ["TextLen.new_body", "Capacity.new_body", "HeapBuffer.allocate_ptr_body", "HeapBuffer.new_body",
                             "HeapBuffer.with_capacity_body", "HeapBuffer.with_additional_body", "HeapBuffer.allocation_body",
                             "HeapBuffer.capacity_body", "HeapBuffer.is_unique_body", "HeapBuffer.dealloc_body",
                             "HeapBuffer.realloc_body"],
    "LSProofs.Gen.Bytes": ["InlineBuffer.new_body", "InlineBuffer.empty_body", "InlineBuffer.set_len_body", "StaticBuffer.new_body",
                           "StaticBuffer.len_body", "StaticBuffer.set_len_body", "Repr.last_byte_body", "Repr.len_body",
                           "Repr.is_empty_body", "Repr.as_bytes_body", "Repr.as_str_body", "Repr.as_slice_mut_body",
                           "Repr.as_str_mut_body", "Repr.from_char", "Repr.from_bool"],
    "LSProofs.Gen.Retain": ["Repr.retain", "Repr.ensure_modifiable", "Repr.set_len"],
    "LSProofs.Gen.IterGlue": ["LeanString.extend_string", "LeanString.extend_box", "LeanString.extend_cow", "LeanString.extend_ls",
                              "LeanString.extend_char_ref", "LeanString.from_iter_string", "LeanString.from_iter_box",
                              "LeanString.from_iter_cow", "LeanString.from_iter_ls", "LeanString.from_iter_char_ref",
                              "LeanString.from_utf16_lossy", "LeanString.from_iter_char", "LeanString.extend_char",
                              "LeanString.from_char_conv", "LeanString.from_string", "LeanString.from_string_ref", "LeanString.from_box",
                              "LeanString.from_ls_ref", "LeanString.from_str_trait", "LeanString.from_str_ref", "LeanString.clone",
                              "LeanString.from_utf8_unchecked", "LeanString.default", "LeanString.is_empty", "LeanString.as_str", "LeanString.as_bytes", "LeanString.try_retain", "LeanString.retain",
                              "LeanString.push_str", "LeanString.new", "LeanString.drop"],
    "LSProofs.Props.C01G": [],
    "LSProofs.Gen.Good": ["Repr.push_str", "Repr.insert_str", "Repr.pop", "Repr.remove", "Repr.reserve", "Repr.ensure_modifiable",
                          "Repr.shrink_to", "Repr.set_len", "Repr.truncate_unchecked", "Repr.replace_inner", "Repr.from_str",
                          "Repr.make_shallow_clone"],
}
TIES = {
    "C01": T("Ctor", "Readers", "Release", "SetLen", "Reserve", "Ensure", "Shrink", "Clone", "Clear", "PushStr", "InsertStr", "PopRemove", "Good", "Wrappers", "Panicking", "Extend", "Collect", "Decode", "CloneDrop", "StepG", "HeapBuf", "Bytes", "Retain", "IterGlue") + ["LSProofs.Props.C01G"],
    "C02": T("Reserve", "Ensure", "Shrink", "Clear", "SetLen", "StepG", "HeapBuf"),
    "C03": T("Release", "Clone", "CloneDrop", "Collect", "Reserve", "Ensure", "Shrink", "StepG", "HeapBuf"),
    "C05": T("Reserve", "Ensure", "Shrink", "SetLen", "Ctor", "PushStr", "InsertStr", "PopRemove", "Wrappers", "Panicking", "Extend", "Collect", "HeapBuf"),
    "C06": T("Reserve", "Shrink", "Ctor", "Extend", "Collect", "HeapBuf"),
    "C07": T("SetLen", "InsertStr", "PopRemove"),
    "C08": T("Clone", "CloneDrop", "IterGlue"),
    "C09": T("Ctor", "Reserve", "PushStr", "InsertStr", "PopRemove", "Wrappers", "Bytes", "Retain", "IterGlue"),
    "C10": T("Ctor", "Reserve", "Ensure", "Clear", "SetLen", "Bytes"),
    "C11": T("Readers", "Ctor", "Reserve", "PushStr", "InsertStr", "Wrappers", "HeapBuf"),
    "C12": T("Reserve", "HeapBuf"),
    "C13": T("Shrink", "HeapBuf"),
    "C16": T("Decode", "IterGlue"),
    "C18": T("Extend", "Collect", "Retain", "IterGlue"),
    "C20": T("Kind", "Bytes"),
}

PROPS = {
    "C01": P("C01", ["LSProofs.Props.C01"], ["out", "text", "len", "handles"],
             [RANDOM_Q, ENUM_Q, fam("tour", n=300), fam("iterglue", n=2, scripted=False)],
             [RANDOM_T, ENUM_T, fam("tour", n=3000), fam("iterglue", n=40, scripted=False)], GUARDS),
    "C02": P("C02", ["LSProofs.Props.C02"], ["text", "len", "ptr", "kind", "handles"],
             [fam("ladder", n=400), fam("iterglue", n=2, scripted=False), RANDOM_Q, ENUM_Q],
             [fam("ladder", n=4000), fam("iterglue", n=40, scripted=False), RANDOM_T, ENUM_T], GUARDS),
    "C03": P("C03", ["LSProofs.Props.C03"], ["ev", "rc", "handles"],
             [RANDOM_Q, ENUM_Q, fam("ladder", n=300), fam("threads", n=100, scripted=False)],
             [RANDOM_T, ENUM_T, fam("ladder", n=3000), fam("threads", n=1500, scripted=False)], GUARDS, loom=True),
    "C04": P("C04", ["LSProofs.Props.C04", "LSProofs.Props.C04L"], None,
             [fam("threads", n=200, scripted=False)], [fam("threads", n=3000, scripted=False)], ["atomicSites", "callOrder", "atomicOrdCodes"],
             search=[fam("threads", n=2000, scripted=False)], scripted=False, loom=True),
    "C05": P("C05", ["LSProofs.Props.C05"], ["out", "text", "rc", "ev", "handles"],
             [fam("faultsweep", n=250), ENUM_Q], [fam("faultsweep", n=2500), ENUM_T, RANDOM_T], GUARDS,
             search=[fam("faultsweep", n=3000), fam("random", n=30000)]),
    "C06": P("C06", ["LSProofs.Props.C06"], ["out", "text", "len", "kind", "rc"],
             [fam("sizes", n=1), RANDOM_Q], [fam("sizes", n=4), RANDOM_T], G06,
             search=[fam("sizes", n=4), fam("random", n=30000)]),
    "C07": P("C07", ["LSProofs.Props.C07"], ["out", "text", "len", "handles"],
             [fam("indexgrid", n=1), ENUM_Q], [fam("indexgrid", n=3), ENUM_T, RANDOM_T], GUARDS,
             search=[fam("indexgrid", n=3), fam("random", n=30000)]),
    "C08": P("C08", ["LSProofs.Props.C08"], ["ev", "ptr", "kind"],
             [fam("clones", n=300), ENUM_Q], [fam("clones", n=3000), ENUM_T, RANDOM_T], ["matchTypeArms", "libGlue"],
             search=[fam("clones", n=3000), fam("random", n=30000)], loom=True),
    "C09": P("C09", ["LSProofs.Props.C09"], ["kind", "ev", "cap", "ptr"],
             [fam("inline", n=1), RANDOM_Q], [fam("inline", n=3), RANDOM_T, ENUM_T], G09,
             search=[fam("inline", n=3), fam("random", n=30000)]),
    "C10": P("C10", ["LSProofs.Props.C10"], ["kind", "ptr", "ev"],
             [fam("statics", n=300), ENUM_Q], [fam("statics", n=3000), ENUM_T, RANDOM_T], G10,
             search=[fam("statics", n=3000), fam("random", n=30000)]),
    "C11": P("C11", ["LSProofs.Props.C11", "LSProofs.Resource"], ["cap", "len", "ptr", "ev", "rc"],
             [fam("capacity", n=300), RANDOM_Q, fam("faultsweep", n=120)], [fam("capacity", n=3000), RANDOM_T, ENUM_T, fam("faultsweep", n=1500)], G11,
             search=[fam("capacity", n=3000), fam("faultsweep", n=1500), fam("random", n=30000)]),
    "C12": P("C12", ["LSProofs.Props.C12", "LSProofs.Amortized"], ["cap"],
             [fam("growth", n=1), RANDOM_Q], [fam("growth", n=4), RANDOM_T], ["amortizedGrowth", "heapMaxLen", "growthCallArgs"],
             search=[fam("growth", n=4), fam("random", n=30000)]),
    "C13": P("C13", ["LSProofs.Props.C13"], ["cap", "kind", "text"],
             [fam("shrink", n=1), RANDOM_Q], [fam("shrink", n=4), RANDOM_T, ENUM_T], G13,
             search=[fam("shrink", n=4), fam("random", n=30000)]),
    "C14": P("C14", ["LSProofs.Props.C14", "LSProofs.Props.C14W"], ["out", "text", "kind", "cap", "ev"],
             [fam("ints", n=20000)], [fam("ints", n=400000), fam("ints_exhaustive32", n=1, scripted=False)],
             ["decDigitsLut"] + [f"digitTable_{t}" for t in ["u8", "i8", "u16", "i16", "u32", "i32", "u64", "i64"]]
             + ["digitDelegate_usize", "digitDelegate_isize", "nonzeroDelegation"]
             + [f"writer_{k}" for k in ["loopBound", "loopMod", "loopDiv", "remDiv", "remMod", "loopStep", "tailBound", "tailMod", "tailDiv", "lastBound"]],
             search=[fam("ints", n=400000)]),
    "C15": P("C15", ["LSProofs.Props.C15", "LSProofs.Props.C15W"], ["out", "text", "ev"],
             [fam("display", n=2000), fam("floats", n=400000, scripted=False), fam("chars", n=1, scripted=False)],
             [fam("display", n=20000), fam("floats", n=20000000, scripted=False), fam("floats_f32_all", n=1, scripted=False), fam("chars", n=1, scripted=False)],
             ["matchTypeArms"], search=[fam("display", n=20000)]),
    "C16": P("C16", ["LSProofs.Props.C16", "LSProofs.Props.C16W"], ["out", "text"],
             [fam("decode", n=4)], [fam("decode", n=5), fam("decode_oracle", n=6, scripted=False)], ["libGlue"],
             search=[fam("decode", n=5)]),
    "C17": P("C17", ["LSProofs.Props.C17"], None,
             [fam("traits", n=60, scripted=False)], [fam("traits", n=300, scripted=False)], ["traitBodies"],
             search=[fam("traits", n=300, scripted=False)], scripted=False),
    "C18": P("C18", ["LSProofs.Props.C18"], ["out", "text", "rc", "ev", "handles"],
             [fam("callbacks", n=1), fam("iterglue", n=3, scripted=False), RANDOM_Q],
             [fam("callbacks", n=3), fam("iterglue", n=40, scripted=False), RANDOM_T], GUARDS,
             search=[fam("callbacks", n=3), fam("iterglue", n=40, scripted=False), fam("random", n=30000)]),
    "C19": P("C19", ["LSProofs.Props.C19"], None,
             [fam("serde", n=3, scripted=False)], [fam("serde", n=5, scripted=False)], ["serdeBodies", "arbitraryBodies"],
             search=[fam("serde", n=5, scripted=False)], scripted=False, ext=True),
    "C20": P("C20", ["LSProofs.Props.C20", "LSProofs.Props.C20W"], ["out", "text", "len", "kind", "handles"],
             [fam("niche", n=1), RANDOM_Q], [fam("niche", n=1), RANDOM_T, ENUM_T], G20,
             search=[fam("random", n=30000)], configs=True),
}

for _pid, _mods in TIES.items():
    PROPS[_pid]["modules"] = PROPS[_pid]["modules"] + _mods
    PROPS[_pid]["ties"] = _mods
    PROPS[_pid]["consumes"] = PROPS[_pid]["consumes"] + sorted({f for m in _mods for f in TIE_FUNCS[m]})

# which calls a property's statement quantifies over (a model/crate divergence that first shows at another
# call is counted under model_disagreements_other_fields, not charged to the property)
SHRINK_OPS = ["shrink_to", "shrink_to_fit"]
PROPS["C13"]["op_scope"] = {"include": True, "ops": SHRINK_OPS}
PROPS["C12"]["op_scope"] = {"include": False, "ops": SHRINK_OPS}
PROPS["C08"]["op_scope"] = {"include": True, "ops": ["clone", "clone_from", "from_ref", "to_ls", "drop"]}

# unusual histories (exact lengths / capacities, degenerate arguments, every storage history): part of every property whose
# check compares scripts with the model
for _pid in ["C01", "C02", "C03", "C05", "C06", "C07", "C09", "C10", "C11", "C13"]:
    PROPS[_pid]["families"]["quick"] = PROPS[_pid]["families"]["quick"] + [fam("edges", n=1)]
    PROPS[_pid]["families"]["thorough"] = PROPS[_pid]["families"]["thorough"] + [fam("edges", n=2)]

