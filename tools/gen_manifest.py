#!/usr/bin/env python3
"""Writes MANIFEST.json from tools/manifest_notes.json (per-property level text) — keeps it valid."""
import json, os
ROOT = os.path.dirname(os.path.dirname(os.path.abspath(__file__)))
notes = json.load(open(os.path.join(ROOT, "tools", "manifest_notes.json")))
props = [json.loads(l) for l in open(os.path.join(ROOT, "properties.jsonl"))]
checks = []
for p in props:
    pid = p["id"]
    n = notes[pid]
    checks.append({
        "property_id": pid,
        "quick_cmd": f"./check {pid} --tier quick",
        "thorough_cmd": f"./check {pid} --tier thorough",
        "evidence_file": f"/verif/evidence/{pid}.json",
        "replay_cmd_template": f"./check {pid} --replay {{path}}",
        "engine": "lean4-proof+correspondence",
        "level_claimed": {"category": "proof", "text": n["text"], "design_ref": f"DESIGN.md section 6 ({pid})"},
        "level_note": n["note"],
        "technique": n["technique"],
    })
man = {
    "version": 1,
    "setup_cmd": "cd /verif && python3 tools/extract.py && RS2LEAN_NO_ELAB=1 python3 tools/rs2lean.py && (cd lean && lake build) && (cd harness && CARGO_NET_OFFLINE=true cargo build --release --offline) && (cd harness-loom && CARGO_NET_OFFLINE=true cargo build --release --offline)",
    "hooks": {
        "guard": "verif-hooks",
        "enable": "cargo feature: the harness depends on lean_string with features = [\"verif-hooks\"] (path dependency on /repo); harness-loom additionally builds it with RUSTFLAGS=--cfg loom and the crate's loom feature",
        "baseline_off_cmd": "cd /repo && cargo test --workspace --no-fail-fast --offline",
        "source_commits": notes["_hooks"]["source_commits"],
        "add_only": True,
    },
    "engines": [
        {"name": "lean4-proof+correspondence", "path": "/verif/check", "serves_properties": [p["id"] for p in props],
         "kind_free_text": "Lean 4 theorems over a hand-written executable model plus translated constants/tables/delegations (tools/extract.py -> lean/LSModel/Generated.lean) and the mechanically translated control flow of repr.rs (tools/rs2lean.py -> lean/LSModel/GenRepr.lean, proved equal to the hand model in lean/LSProofs/Gen/*.lean), every fn of every impl block of src/ compared with a registry (tools/surface.py); model tied to /repo by differential scripts run on the real crate (harness/, shadow heap, String oracles) and on the compiled model driver (lean/Driver.lean)"},
    ],
    "checks": checks,
    "not_applicable": [],
    "notes": notes["_notes"],
}
json.dump(man, open(os.path.join(ROOT, "MANIFEST.json"), "w"), indent=1)
print("MANIFEST.json written:", len(checks), "checks")
