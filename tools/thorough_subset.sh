#!/bin/bash
# thorough tier for the properties given as arguments; runs in a snapshot of /verif ($VP_RUN_REPO = snapshot of /repo's HEAD)
sed -i "s#path = \"/repo\"#path = \"$VP_RUN_REPO\"#" harness/Cargo.toml harness-loom/Cargo.toml
export VERIF_REPO=$VP_RUN_REPO
python3 tools/extract.py && RS2LEAN_NO_ELAB=1 python3 tools/rs2lean.py && (cd lean && lake build 2>&1 | tail -2) && (cd harness && CARGO_NET_OFFLINE=true cargo build --release --offline 2>&1 | tail -1) && (cd harness-loom && CARGO_NET_OFFLINE=true cargo build --release --offline 2>&1 | tail -1)
for i in "$@"; do
  s=$(date +%s); ./check C$i --tier thorough > thorough_C$i.log 2>&1; rc=$?; e=$(date +%s)
  echo "THOROUGH C$i rc=$rc $((e-s))s $(tail -1 thorough_C$i.log | cut -c1-200)"
done
echo THOROUGH-DONE
