#!/usr/bin/env python3
"""tools/seedtest.py confirm <id> <srcdir>   : confirm a candidate mutant in its scratch worktree /tmp/mut/<id>
   tools/seedtest.py run <seeded-dir> [ids…] : apply seeded/<dir>/patch.diff to /repo, run the given checks, undo."""
import json, os, subprocess, sys, re
ROOT = os.path.dirname(os.path.dirname(os.path.abspath(__file__)))

def sh(cmd, cwd=None, timeout=3000):
    p = subprocess.run(cmd, cwd=cwd, shell=True, stdout=subprocess.PIPE, stderr=subprocess.STDOUT, text=True, timeout=timeout,
                       env=dict(os.environ, CARGO_NET_OFFLINE="true"))
    return p.returncode, p.stdout

def confirm(mid, name, flags=""):
    wt, out = f"/tmp/mut/{mid}", f"/tmp/mut/{mid}.out"
    res = {}
    sh("git checkout -q -- . && rm -f tests/demo.rs", wt)
    rc, o = sh(f"git apply {out}/patch.diff", wt); res["patch_applies"] = rc == 0
    rc, o = sh("cargo build --offline 2>&1 | tail -3", wt); res["builds"] = "error" not in o
    rc, o = sh("cargo build --offline --features verif-hooks 2>&1 | tail -3", wt); res["builds_hooks"] = "error" not in o
    rc, o = sh("cargo test --offline 2>&1 | grep -E '^test result|FAILED'", wt)
    res["existing_tests_pass"] = "FAILED" not in o and "failed; " in o and all(" 0 failed" in l for l in o.splitlines() if l.startswith("test result"))
    sh(f"cp {out}/demo.rs tests/demo.rs", wt)
    rc, o = sh(f"cargo test --offline {flags} --test demo 2>&1", wt); res["demo_fails_with_patch"] = rc != 0
    res["demo_output_with_patch"] = o[-600:]
    sh("git checkout -q -- src", wt)
    rc, o = sh(f"cargo test --offline {flags} --test demo 2>&1", wt); res["demo_passes_without_patch"] = rc == 0
    sh("rm -f tests/demo.rs", wt)
    ok = all(res[k] for k in ["patch_applies", "builds", "builds_hooks", "existing_tests_pass", "demo_fails_with_patch", "demo_passes_without_patch"])
    print(mid, name, "CONFIRMED" if ok else "REJECTED", {k: v for k, v in res.items() if k != "demo_output_with_patch"})
    if ok:
        d = os.path.join(ROOT, "seeded", name)
        os.makedirs(d, exist_ok=True)
        sh(f"cp {out}/patch.diff {out}/demo.rs {d}/")
        meta = json.load(open(f"{out}/meta.json"))
        meta["confirmed"] = {k: v for k, v in res.items()}
        meta["demo_flags"] = flags
        meta["confirmed_cmds"] = "in a scratch worktree: git apply patch.diff; cargo build --offline [--features verif-hooks]; cargo test --offline (existing tests, unedited); cp demo.rs tests/; cargo test --offline --test demo (fails); git checkout -- src; cargo test --offline --test demo (passes)"
        json.dump(meta, open(f"{d}/meta.json", "w"), indent=1)
    return ok

def run(name, ids):
    d = os.path.join(ROOT, "seeded", name)
    REPO = os.environ.get("VERIF_REPO", "/repo")
    rc, o = sh(f"git -C {REPO} status --porcelain")
    if o.strip():
        print(f"refusing: {REPO} is dirty"); return
    rc, o = sh(f"git apply {d}/patch.diff", REPO)
    if rc != 0:
        print(f"patch does not apply to {REPO}:", o); return
    results = {}
    import shutil, tempfile
    keep = tempfile.mkdtemp(prefix="evidence-keep-")
    shutil.copytree(os.path.join(ROOT, "evidence"), os.path.join(keep, "evidence"))
    try:
        for pid in ids:
            rc, o = sh(f"./check {pid} --tier quick", ROOT)
            lines = [l for l in o.splitlines() if l.startswith(("VIOLATION", "KNOWN-FINDING", "OK "))]
            results[pid] = {"exit": rc, "lines": lines}
            print(name, pid, rc, lines[:2])
            for l in lines:
                m = re.search(r"replay=(\S+)", l)
                if m and os.path.exists(m.group(1)):
                    results[pid]["replay_head"] = open(m.group(1)).read()[:1500]
    finally:
        sh(f"git apply -R {d}/patch.diff", REPO)
        rc, o = sh(f"git -C {REPO} status --porcelain")
        if o.strip():
            print(f"WARNING: {REPO} not clean after undoing {name}:", o)
        # the evidence files describe runs on the unchanged tree only: put them back
        shutil.rmtree(os.path.join(ROOT, "evidence"), ignore_errors=True)
        shutil.copytree(os.path.join(keep, "evidence"), os.path.join(ROOT, "evidence"))
        shutil.rmtree(keep, ignore_errors=True)
    p = os.path.join(d, "detection.json")
    old = json.load(open(p)) if os.path.exists(p) else {}
    old.update(results)
    json.dump(old, open(p, "w"), indent=1)

if __name__ == "__main__":
    if sys.argv[1] == "confirm":
        confirm(sys.argv[2], sys.argv[3], sys.argv[4] if len(sys.argv) > 4 else "")
    else:
        run(sys.argv[2], sys.argv[3:])
