#!/usr/bin/env python3
"""tools/rs2lean.py — translate the control flow of /repo/src/repr.rs (and a few bodies of lib.rs)
into Lean 4, mechanically, on every run.

Rust function body  -->  term of the monad `LS.Rt.M ρ α` (lean/LSModel/Rt.lean), in A-normal form:
  every call is bound (`bind (f a b) fun t =>`), `e?` is `try_`, `return e` is `ret`, `*self = e` is
  `Repr.assign`, `if`/`match` stay, `assert!(c, ..)` is `assert_ c`, `debug_assert*!` and statements under
  `#[cfg(feature = "verif-hooks")]` are dropped, `unsafe {}`/`&`/`&mut`/`as T` are transparent.
The translator does not know what a call means: `heap.is_unique()` becomes `heap.rs_is_unique`,
`HeapBuffer::new(s)` becomes `HeapBuffer.new s`, `self.len()` becomes `Repr.len`; Rt.lean gives the
primitives their meaning.  A call of a function that is itself translated becomes `call (Repr.f args)`.

Output: lean/LSModel/GenRepr.lean.  A function that cannot be parsed/lowered (or whose Lean does not
elaborate) is emitted *poisoned* (`poisoned`), listed in tools/rs2lean.status.json, and the tie theorem
that consumes it (LSProofs/GenTie.lean) stops checking: only the properties that consume that tie
take the "obligation broken" branch of ./check.
"""
import json, os, re, subprocess, sys

ROOT = os.path.dirname(os.path.dirname(os.path.abspath(__file__)))
REPO = os.environ.get("VERIF_REPO_SRC") or os.path.join(os.environ.get("VERIF_REPO", "/repo"), "src")
LEAN_DIR = os.environ.get("RS2LEAN_LEAN_DIR") or os.path.join(ROOT, "lean")   # a scratch copy of the Lean project may be named
OUT = os.path.join(LEAN_DIR, "LSModel", "GenRepr.lean")
STATUS = os.environ.get("RS2LEAN_STATUS") or os.path.join(ROOT, "tools", "rs2lean.status.json")

# ------------------------------------------------------------------------------------------- tokens
TOK = re.compile(r"""
   (?P<ws>\s+)
 | (?P<lc>//[^\n]*)
 | (?P<bc>/\*.*?\*/)
 | (?P<str>b?"(?:\\.|[^"\\])*")
 | (?P<chr>b?'(?:\\.|[^'\\])')
 | (?P<life>'[A-Za-z_][A-Za-z0-9_]*)
 | (?P<num>0x[0-9A-Fa-f_]+(?:[iu](?:8|16|32|64|128|size))?|[0-9][0-9_]*(?:[iu](?:8|16|32|64|128|size))?)
 | (?P<id>[A-Za-z_][A-Za-z0-9_]*)
 | (?P<op>::|->|=>|==|!=|<=|>=|&&|\|\||\.\.=|\.\.|\+=|-=|\*=|/=|<<|>>|[-+*/%^!&|=<>@.,;:#$?~(){}\[\]])
""", re.X | re.S)

FUEL_FNS = set()                       # translated functions that take a `fuel` argument (they contain a `while` loop)
LOCAL_STRUCTS, LOCAL_DROPS = {}, {}    # structs / Drop impls declared inside the body being translated

class Bad(Exception):
    pass

def cfg_false(attr):
    """a `#[cfg(...)]` attribute that is false on the modelled target (x86-64, release, not loom)"""
    a = attr.replace(" ", "")
    return ('cfg(target_pointer_width="32")' in a or "cfg(loom)" in a or "cfg(debug_assertions)" in a
            or "cfg(not(target_pointer_width=\"64\"))" in a)

def tokenize(src):
    out, i = [], 0
    while i < len(src):
        m = TOK.match(src, i)
        if not m:
            raise Bad(f"cannot tokenize at {src[i:i+30]!r}")
        i = m.end()
        k = m.lastgroup
        if k in ("ws", "lc", "bc"):
            continue
        out.append((k, m.group(k)))
    return out

# ------------------------------------------------------------------------------------------- parser
BINPREC = {"||": 1, "&&": 2, "==": 3, "!=": 3, "<": 3, ">": 3, "<=": 3, ">=": 3, "|": 4, "^": 5, "&": 6,
           "<<": 7, ">>": 7, "+": 8, "-": 8, "*": 9, "/": 9, "%": 9}

class P:
    def __init__(self, toks):
        self.t, self.i = toks, 0

    def peek(self, k=0):
        return self.t[self.i + k] if self.i + k < len(self.t) else ("eof", "")

    def at(self, v, k=0):
        return self.peek(k)[1] == v and self.peek(k)[0] in ("op", "id")

    def eat(self, v=None):
        tok = self.peek()
        if v is not None and tok[1] != v:
            raise Bad(f"expected {v!r}, found {tok[1]!r} at token {self.i}")
        self.i += 1
        return tok

    def skip_balanced(self, open_, close):
        depth = 0
        while True:
            tok = self.eat()
            if tok[0] == "eof":
                raise Bad("unbalanced")
            if tok[1] == open_ and tok[0] == "op":
                depth += 1
            elif tok[1] == close and tok[0] == "op":
                depth -= 1
                if depth == 0:
                    return

    def skip_angles(self):
        depth = 0
        while True:
            tok = self.eat()
            if tok[0] == "eof":
                raise Bad("unbalanced <>")
            if tok[1] == "<":
                depth += 1
            elif tok[1] == ">":
                depth -= 1
            elif tok[1] == ">>":
                depth -= 2
            if depth <= 0:
                return

    # ---- attributes: returns list of attribute texts
    def attrs(self):
        out = []
        while self.at("#"):
            start = self.i
            self.eat("#")
            if self.at("!"):
                self.eat()
            self.skip_balanced("[", "]")
            out.append("".join(x[1] for x in self.t[start:self.i]))
        return out

    # ---- types (skipped, returned as text)
    def ty(self):
        start = self.i
        depth = 0
        while True:
            k, v = self.peek()
            if k == "eof":
                break
            if v in ("<",):
                depth += 1
            elif v == ">":
                if depth == 0:
                    break
                depth -= 1
            elif v == ">>":
                if depth < 2:
                    break
                depth -= 2
            elif v in ("(", "["):
                self.skip_balanced(v, ")" if v == "(" else "]")
                continue
            elif depth == 0 and v in (",", ";", "=", "{", ")", "]", "|"):
                break
            self.eat()
        return " ".join(x[1] for x in self.t[start:self.i])

    def cast_ty(self):
        k, v = self.peek()
        if v in ("*", "&"):
            self.eat()
            if self.peek()[1] in ("const", "mut"):
                self.eat()
            return self.cast_ty()
        if v == "[":
            self.skip_balanced("[", "]")
            return
        if v == "(":
            self.skip_balanced("(", ")")
            return
        self.eat()
        while self.at("::"):
            self.eat()
            if self.at("<"):
                self.skip_angles()
            else:
                self.eat()
        if self.at("<"):
            self.skip_angles()

    # ---- blocks / statements
    def block(self):
        self.eat("{")
        stmts, tail = [], None
        pending_tail = None
        while not self.at("}"):
            at = self.attrs()
            hooks = any("verif-hooks" in a for a in at) or any(cfg_false(a) for a in at)
            k, v = self.peek()
            if v == "const" and k == "id" and self.peek(1)[0] == "id" and self.peek(2)[1] == ":":
                # `const NAME: T = expr;` inside a body: evaluated where it is used -- a `let`
                self.eat("const")
                name = self.eat()[1]
                self.eat(":")
                self.ty()
                self.eat("=")
                e = self.expr()
                self.eat(";")
                if not hooks:
                    stmts.append(("let", name, e))
                continue
            if v == "struct" and k == "id":
                # a struct declared inside the body (a drop guard): its field names
                self.eat("struct")
                sname = self.eat()[1]
                if self.at("<"):
                    self.skip_angles()
                if not self.at("{"):
                    raise Bad("local tuple struct")
                start = self.i
                self.skip_balanced("{", "}")
                ftoks, fields, depth = self.t[start + 1:self.i - 1], [], 0
                expect = True
                for kk, vv in ftoks:
                    if vv in ("<", "(", "["):
                        depth += 1
                    elif vv in (">", ")", "]"):
                        depth -= 1
                    elif vv == "," and depth == 0:
                        expect = True
                    elif expect and kk == "id" and vv not in ("pub",):
                        fields.append(vv)
                        expect = False
                LOCAL_STRUCTS[sname] = fields
                continue
            if v == "impl" and k == "id" and self.peek(1)[1] == "Drop" and self.peek(2)[1] == "for":
                self.eat(); self.eat(); self.eat()
                sname = self.eat()[1]
                if self.at("<"):
                    self.skip_angles()
                self.eat("{")
                self.attrs()
                self.eat("fn")
                if self.eat()[1] != "drop":
                    raise Bad("impl Drop without fn drop")
                self.skip_balanced("(", ")")
                LOCAL_DROPS[sname] = self.block()
                self.eat("}")
                continue
            if v in ("fn", "struct", "impl", "const", "use", "enum", "static") and k == "id" and not (v == "const" and self.peek(1)[1] == "{"):
                self.item()
                continue
            if v == "let":
                s = self.let()
                if not hooks:
                    stmts.append(s)
                continue
            if v == ";":
                self.eat()
                continue
            e = self.expr(stmt=True)
            if self.at(";"):
                self.eat()
                if not hooks:
                    stmts.append(("expr", e))
            elif self.at("}"):
                if not hooks:
                    tail = e
            elif e[0] in ("if", "block", "match", "while", "loop", "for"):
                # block-like expression statement without a semicolon
                if not hooks:
                    stmts.append(("expr", e))
                    pending_tail = len(stmts)
            elif self.at("="):
                self.eat()
                rhs = self.expr()
                if not self.at("}"):
                    self.eat(";")
                if not hooks:
                    stmts.append(("assign", e, rhs))
            elif self.peek()[1] in ("+=", "-="):
                op = self.eat()[1]
                rhs = self.expr()
                self.eat(";")
                if not hooks:
                    stmts.append(("assign", e, ("bin", op[0], e, rhs)))
            else:
                raise Bad(f"statement: unexpected {self.peek()[1]!r} after expression")
        self.eat("}")
        if tail is None and pending_tail is not None and pending_tail == len(stmts) and stmts[-1][1][0] == "block":
            # `{ #[cfg(a)] { x } #[cfg(not a)] { y } }`: the block that survives the cfg is the value
            tail = stmts.pop()[1]
        return ("block", stmts, tail)

    def item(self):
        # nested item: skip to the end of its body or `;`
        while True:
            k, v = self.peek()
            if k == "eof":
                raise Bad("item")
            if v == ";":
                self.eat()
                return
            if v == "{":
                self.skip_balanced("{", "}")
                return
            if v in ("(", "["):
                self.skip_balanced(v, ")" if v == "(" else "]")
                continue
            self.eat()

    def let(self):
        self.eat("let")
        if self.at("mut"):
            self.eat()
        if self.at("("):
            # `let (a, _) = e;`
            self.eat("(")
            names = []
            while not self.at(")"):
                names.append(self.eat()[1])
                if self.at(","):
                    self.eat()
            self.eat(")")
            self.eat("=")
            e = self.expr()
            self.eat(";")
            return ("lettuple", names, e)
        name = self.eat()[1]
        if self.at(":"):
            self.eat()
            self.ty()
        self.eat("=")
        e = self.expr()
        self.eat(";")
        return ("let", name, e)

    # ---- expressions
    def expr(self, prec=0, stmt=False, nostruct=False):
        blocklike = stmt and (self.peek()[1] in ("if", "match", "unsafe", "{", "while") )
        lhs = self.unary(nostruct)
        if blocklike and lhs[0] in ("if", "match", "block", "while") and self.peek()[1] not in (".", "?"):
            return lhs
        while True:
            k, v = self.peek()
            if v == "as" and k == "id":
                self.eat()
                start = self.i
                self.cast_ty()
                ty = " ".join(x[1] for x in self.t[start:self.i])
                lhs = ("cast", lhs, ty)
                continue
            if k == "op" and v in BINPREC and BINPREC[v] > prec:
                # `&` / `*` / `-` at statement start are unary, but here we are after an operand
                if v == "<" and False:
                    pass
                self.eat()
                rhs = self.expr(BINPREC[v], nostruct=nostruct)
                lhs = ("bin", v, lhs, rhs)
                continue
            if v in ("..", "..=") and prec == 0 and not stmt:
                self.eat()
                if self.peek()[1] in ("]", ")", ";", ","):
                    lhs = ("range", lhs, None)
                else:
                    lhs = ("range", lhs, self.expr(0.5, nostruct=nostruct))
                continue
            return lhs

    def unary(self, nostruct):
        k, v = self.peek()
        if k == "op" and v == "!":
            self.eat()
            return ("not", self.unary(nostruct))
        if k == "op" and v == "-":
            self.eat()
            return ("neg", self.unary(nostruct))
        if k == "op" and v == "*":
            self.eat()
            return ("deref", self.unary(nostruct))
        if k == "op" and v in ("&", "&&"):
            self.eat()
            if self.at("mut"):
                self.eat()
            return self.unary(nostruct)
        if k == "op" and v == "..":
            self.eat()
            return ("range", None, self.expr(0.5, nostruct=nostruct))
        return self.postfix(self.primary(nostruct), nostruct)

    def args(self):
        self.eat("(")
        out = []
        while not self.at(")"):
            out.append(self.expr())
            if self.at(","):
                self.eat()
        self.eat(")")
        return out

    def postfix(self, e, nostruct):
        while True:
            k, v = self.peek()
            if v == "?" and k == "op":
                self.eat()
                e = ("try", e)
            elif v == "." and k == "op":
                self.eat()
                k2, name = self.eat()
                if k2 == "num":
                    e = ("field", e, name)
                    continue
                if self.at("::"):
                    self.eat()
                    self.skip_angles()
                if self.at("("):
                    e = ("mcall", e, name, self.args())
                else:
                    e = ("field", e, name)
            elif v == "(" and k == "op":
                e = ("call", e, self.args())
            elif v == "[" and k == "op":
                self.eat()
                idx = self.expr()
                self.eat("]")
                e = ("index", e, idx)
            else:
                return e

    def primary(self, nostruct):
        k, v = self.peek()
        if k == "num":
            self.eat()
            txt = re.sub(r"(?<=[0-9A-Fa-f_])[iu](8|16|32|64|128|size)$", "", v).replace("_", "")
            return ("lit", int(txt, 16) if txt.startswith("0x") else int(txt))
        if k == "str":
            self.eat()
            return ("str", v)
        if k == "chr":
            self.eat()
            return ("chr", v)
        if v == "(" and k == "op":
            self.eat()
            if self.at(")"):
                self.eat()
                return ("unit",)
            e = self.expr()
            if self.at(","):
                items = [e]
                while self.at(","):
                    self.eat()
                    if self.at(")"):
                        break
                    items.append(self.expr())
                self.eat(")")
                return ("tuple", items)
            self.eat(")")
            return e
        if v == "[" and k == "op":
            # `[x; n]` (array repeat) -- the only array literal the translated functions use
            self.eat("[")
            x = self.expr()
            if not self.at(";"):
                raise Bad("array literal")
            self.eat(";")
            n = self.expr()
            self.eat("]")
            return ("call", ("path", ["array_repeat"]), [x, n])
        if v == "{" and k == "op":
            return self.block()
        if k == "id" and v == "unsafe":
            self.eat()
            return self.block()
        if k == "id" and v == "if":
            return self.if_()
        if k == "id" and v == "match":
            return self.match_()
        if k == "id" and v == "return":
            self.eat()
            if self.peek()[1] in (";", "}", ","):
                return ("return", None)
            return ("return", self.expr())
        if k == "id" and v == "for":
            self.eat("for")
            var = self.eat()[1]
            self.eat("in")
            it = self.expr(nostruct=True)
            body = self.block()
            return ("for", var, it, body)
        if k == "id" and v == "while":
            self.eat("while")
            if self.at("let"):
                raise Bad("while let")
            c = self.expr(nostruct=True)
            body = self.block()
            return ("while", c, body)
        if k == "id" and v == "loop":
            raise Bad("loop construct `loop`")
        if (k == "id" and v == "move") or (k == "op" and v == "|"):
            if v == "move":
                self.eat()
            self.eat("|")
            var = self.eat()[1]
            if self.at(":"):
                self.eat()
                self.ty()
            self.eat("|")
            body = self.expr()
            return ("closure", var, body)
        if k == "op" and v == "||":
            raise Bad("closure without parameters")
        if k == "id":
            path = [self.eat()[1]]
            while self.at("::"):
                self.eat()
                if self.at("<"):
                    start = self.i
                    self.skip_angles()
                    if path == ["size_of"]:
                        path = ["size_of_" + "".join(v for _, v in self.t[start + 1:self.i - 1])]
                    continue
                path.append(self.eat()[1])
            if self.at("!") and self.peek(1)[1] in ("(", "[", "{") and self.peek(1)[0] == "op":
                self.eat("!")
                start = self.i
                o = self.peek()[1]
                self.skip_balanced(o, {"(": ")", "[": "]", "{": "}"}[o])
                return ("macro", path[-1], self.t[start + 1:self.i - 1])
            if self.at("{") and not nostruct and path[-1][:1].isupper() and self.peek(1)[0] == "id" and self.peek(2)[1] in (":", ",", "}"):
                self.eat("{")
                fields = []
                while not self.at("}"):
                    fname = self.eat()[1]
                    if self.at(":"):
                        self.eat()
                        fval = self.expr()
                    else:
                        fval = ("path", [fname])
                    fields.append((fname, fval))
                    if self.at(","):
                        self.eat()
                self.eat("}")
                return ("struct", path, fields)
            return ("path", path)
        raise Bad(f"primary: unexpected {v!r}")

    def if_(self):
        self.eat("if")
        if self.at("let"):
            # `if let Ctor(x) = e { a } else { b }`  ==  `match e { Ctor(x) => a, _ => b }`
            self.eat("let")
            pk, pv = self.eat()
            pat = [pv]
            if self.at("("):
                self.eat()
                pat.append(self.eat()[1])
                self.eat(")")
            self.eat("=")
            scrut = self.expr(nostruct=True)
            a = self.block()
            b = ("block", [], None)
            if self.at("else"):
                self.eat()
                b = self.if_() if self.at("if") else self.block()
            return ("match", scrut, [(pat, a), (["_"], b)])
        c = self.expr(nostruct=True)
        a = self.block()
        b = None
        if self.at("else"):
            self.eat()
            b = self.if_() if self.at("if") else self.block()
        return ("if", c, a, b)

    def match_(self):
        self.eat("match")
        scrut = self.expr(nostruct=True)
        self.eat("{")
        arms = []
        while not self.at("}"):
            self.attrs()
            # pattern: Ctor(name) | Ctor | _ | name | (lit, lit) [| (lit, lit)]*
            if self.at("("):
                alts = []
                while True:
                    self.eat("(")
                    tup = []
                    while not self.at(")"):
                        tup.append(self.eat()[1])
                        if self.at(","):
                            self.eat()
                    self.eat(")")
                    alts.append(tup)
                    if self.at("|"):
                        self.eat()
                        continue
                    break
                pat = ["$tuple", alts]
            else:
                pk, pv = self.eat()
                pat = [pv]
                if self.at("("):
                    self.eat()
                    pat.append(self.eat()[1])
                    self.eat(")")
            if self.at("|") or self.at("if"):
                raise Bad("complex match pattern")
            self.eat("=>")
            body = self.expr()
            if self.at(","):
                self.eat()
            arms.append((pat, body))
        self.eat("}")
        return ("match", scrut, arms)

# ------------------------------------------------------------------------ locating functions in a file
def find_fns(src, impl_header):
    """all `fn` items directly inside `impl_header { … }` blocks: name -> list of (attrs, params, ret, body_tokens)"""
    out = {}
    for m in re.finditer(re.escape(impl_header) + r"\s*\{", src):
        # brace-match on the raw text, ignoring comments/strings through the tokenizer
        start = m.end() - 1
        toks = tokenize(src[start:])
        p = P(toks)
        p.eat("{")
        depth = 1
        while depth > 0:
            at = p.attrs()
            k, v = p.peek()
            if k == "eof":
                break
            if v == "}":
                p.eat(); depth -= 1
                continue
            # item prefix
            j = p.i
            while p.peek()[1] in ("pub", "const", "unsafe", "async", "extern") or (p.peek()[1] == "(" and p.t[p.i - 1][1] == "pub"):
                if p.peek()[1] == "(":
                    p.skip_balanced("(", ")")
                else:
                    p.eat()
            if p.at("fn"):
                p.eat()
                name = p.eat()[1]
                if p.at("<"):
                    p.skip_angles()
                pstart = p.i
                p.skip_balanced("(", ")")
                params = p.t[pstart + 1:p.i - 1]
                ret = ""
                if p.at("->"):
                    p.eat()
                    ret = p.ty()
                if p.at("where"):
                    while not p.at("{"):
                        p.eat()
                bstart = p.i
                p.skip_balanced("{", "}")
                out.setdefault(name, []).append((at, params, ret, p.t[bstart:p.i]))
            else:
                p.i = j
                p.item() if p.peek()[1] not in ("}",) else None
        # only the first matching impl block per header occurrence
    return out

def split_params(toks):
    """[(name, type-text)] without the self parameter"""
    out, cur, depth = [], [], 0
    for k, v in toks + [("op", ",")]:
        if v in ("(", "[", "<"):
            depth += 1
        elif v in (")", "]", ">"):
            depth -= 1
        if v == "," and depth == 0:
            if cur:
                out.append(cur)
            cur = []
        else:
            cur.append((k, v))
    res = []
    for c in out:
        words = [v for _, v in c]
        if "self" in words and ":" not in words:
            continue
        if words[0] == "mut":
            words = words[1:]
        name = words[0]
        ty = " ".join(words[2:])
        res.append((name, ty))
    return res

TYMAP = [
    (r"^Result < \( \) , ReserveError >$", "Rs Unit"), (r"^fmt :: Result$", "Rs Unit"), (r"^Self :: Output$", "Handle"),
    (r"^Option < char >$", "Option Chr"), (r"^& \[ u8 \]$", "ByteSlice"), (r"^& \[ u16 \]$", "U16Slice"),
    (r"^Result < Self , str :: Utf8Error >$", "Rs Handle"), (r"^Result < Self , FromUtf16Error >$", "Rs Handle"),
    (r"^Result < Self , ReserveError >$", "Rs Handle"),
    (r"^Result < Option < char > , ReserveError >$", "Rs (Option Chr)"),
    (r"^Result < char , ReserveError >$", "Rs Chr"),
    (r"^Self$", "Handle"), (r"^& Self$", "Handle"), (r"^Repr$", "Handle"), (r"^bool$", "Bool"), (r"^usize$", "Nat"), (r"^u8$", "Nat"),
    (r"^& 'static str$", "SStr"), (r"^& str$", "Str"), (r"^$", "Unit"), (r"^char$", "Chr"),
    (r"^impl FnMut \( char \) -> bool$", "Pred"),
    (r"^String$", "Str"), (r"^& String$", "Str"), (r"^Box < str >$", "Str"), (r"^& LeanString$", "Handle"),
    (r"^Result < Self , Self :: Err >$", "Rs Handle"),
    (r"^impl NumToRepr$", None),
]

def lean_ty(t):
    for pat, l in TYMAP:
        if re.match(pat, t):
            return l
    return None

# ------------------------------------------------------------------------------------------ lowering
KEYWORDS = {"end", "at", "from", "do", "then", "fun", "show", "have", "by", "in", "open", "let", "match", "with", "if", "else",
            "Type", "Prop", "where", "namespace", "section", "import", "def", "theorem", "instance", "class", "structure", "next",
            "ptr"}   # `ptr`: a local of that name would capture the module path `ptr::write`

def ident(n):
    return n + "_" if n in KEYWORDS else n

def mentions(e, name):
    """does the expression tree mention the local `name`?"""
    if isinstance(e, tuple):
        if e[:1] == ("path",) and e[1] == [name]:
            return True
        return any(mentions(x, name) for x in e[1:])
    if isinstance(e, list):
        return any(mentions(x, name) for x in e)
    return False

class Lower:
    def __init__(self, generated, self_field=False, static_fn=False, rename=None):
        self.n = 0
        self.generated = generated      # names of Repr functions that are translated (callers wrap them in `call`)
        self.self_field = self_field    # lib.rs: the Repr is `self.0`
        self.static_fn = static_fn      # no `self` receiver: an owned local `LeanString` becomes the state's `self`
        self.owned = None               # name of that local
        self.rename = rename or {}      # method names resolved by type in Rust (`extend` on different item types)
        self.field_ok = False           # heap_buffer.rs: plain field reads / writes are translated
        self.self_ns = "Repr"           # namespace of `self.method(..)` (Repr / HeapBuffer)
        self.arrays = set()             # locals that hold a `[u8; N]` value
        self.ls_params = set()          # parameters that are (references to) other LeanStrings
        self.closures = set()           # parameters of closure type (`impl FnMut(char) -> bool`): calls rebind them
        self.guard = None               # a live drop guard: {"var", "type", "fields", "alias"}
        self.in_guard_drop = False      # lowering the guard's `fn drop(&mut self)` body
        self.uses_fuel = False          # the function contains a `while` loop

    def fresh(self):
        self.n += 1
        return f"t{self.n}"

    def guard_drop(self, ind):
        """the live guard's `fn drop(&mut self)` body, over the current values of its fields"""
        g = self.guard
        blk = LOCAL_DROPS.get(g["type"])
        if blk is None:
            raise Bad("guard without Drop")
        save = self.in_guard_drop
        self.in_guard_drop = True
        try:
            return self.block(blk, lambda a: "Rt.pure ()", ind)
        finally:
            self.in_guard_drop = save

    def assigned_deep(self, node, lets=None):
        """locals of the enclosing scope that a statement / block / expression assigns (closure calls rebind the closure)"""
        out = []
        lets = set() if lets is None else lets
        def add(n):
            if n not in lets and n not in out:
                out.append(n)
        def target(lhs):
            if lhs[0] == "path" and len(lhs[1]) == 1:
                return lhs[1][0]
            if self.guard and lhs[0] == "field" and lhs[1] == ("path", [self.guard["var"]]) and lhs[2] != self.guard["alias"]:
                return f"{self.guard['var']}_{lhs[2]}"
            if lhs[0] == "index" and lhs[1][0] == "path" and len(lhs[1][1]) == 1 and lhs[1][1][0] in self.arrays:
                return lhs[1][1][0]
            return None
        def walk(x):
            if isinstance(x, tuple):
                if x[:1] == ("let",):
                    walk(x[2]); lets.add(x[1]); return
                if x[:1] == ("lettuple",):
                    walk(x[2]); [lets.add(n) for n in x[1]]; return
                if x[:1] == ("assign",):
                    walk(x[2])
                    tn = target(x[1])
                    if tn:
                        add(tn)
                    return
                if x[:1] == ("call",) and x[1][0] == "path" and len(x[1][1]) == 1 and x[1][1][0] in self.closures:
                    add(x[1][1][0])
                for y in x[1:]:
                    walk(y)
            elif isinstance(x, list):
                for y in x:
                    walk(y)
        walk(node)
        return out

    def is_array_value(self, e):
        """`[x; n]`, or a block / deref / cast whose value is a `[u8; N]` read through a pointer"""
        if e[0] == "call" and e[1] == ("path", ["array_repeat"]):
            return True
        if e[0] == "block" and e[2] is not None:
            return self.is_array_value(e[2])
        if e[0] == "deref":
            return self.is_array_value(e[1])
        if e[0] == "cast" and re.match(r"^\* (const|mut) \[ u8 ; \d+ \]$", e[2]):
            return True
        return False

    def is_self(self, e):
        if self.guard and e == ("field", ("path", [self.guard["var"]]), self.guard["alias"]):
            return True
        if self.in_guard_drop and self.guard and e == ("field", ("path", ["self"]), self.guard["alias"]):
            return True
        if e == ("path", ["self"]):
            return not self.self_field and not self.in_guard_drop
        if self.self_field and e == ("field", ("path", ["self"]), "0"):
            return True
        return False

    # lower `e`, pass an atom (Lean term without effects) to k, return Lean text
    def ex(self, e, k, ind):
        t = e[0]
        pad = "  " * ind
        if t == "lit":
            return k(str(e[1]))
        if t == "unit":
            return k("()")
        if t == "path":
            p = e[1]
            if len(p) == 1:
                if p[0] == "None":
                    return k("none")
                if p[0] == "self" or (self.owned and p[0] == self.owned):
                    return self.bindc("Repr.read_self", k, ind)
                if p[0] == "Self":
                    return k(getattr(self, "self_ty", "Repr"))     # the tuple-struct constructor as a function (`.map(Self)`)
                return k(ident(p[0]))
            if p == ["isize", "MAX"]:
                return k("isize_MAX")
            return k(".".join(getattr(self, "self_ty", "Repr") if x == "Self" else x for x in p))
        if t == "str":
            # a string literal, as its bytes
            lit = eval(e[1]) if e[1].startswith('"') else None
            if not isinstance(lit, str):
                raise Bad("string literal")
            return k("(Str.lit [" + ", ".join(str(b) for b in lit.encode("utf-8")) + "])")
        if t == "deref":
            return self.ex(e[1], k, ind)
        if t == "cast":
            ty = e[2]
            if ty.startswith("*") and e[1] == ("path", ["self"]) and not self.self_field:
                # `self as *const _` / `self as *mut _`: a pointer to the value's own bytes
                if ty not in ("* const _", "* mut _"):
                    raise Bad(f"cast of self to {ty}")
                return self.bindc(f"{self.self_ns}.self_ptr", k, ind)
            if ty.startswith("*"):
                pointee = re.sub(r"^\* (const|mut) ", "", ty)
                if pointee in ("_", "u8", "( )"):
                    return self.ex(e[1], k, ind)      # the address is unchanged and so is the unit of `add`/`sub`
                name = {"usize": "usize", "[ u8 ; 8 ]": "bytes8"}.get(pointee)
                if name is None:
                    if not self.field_ok or not re.match(r"^[A-Z]\w*$", pointee):
                        raise Bad(f"pointer cast to {pointee}")
                    return self.ex(e[1], k, ind)      # heap_buffer.rs: `as *mut Header` etc., sized by the runtime's primitives
                return self.ex(e[1], lambda a: self.bindc(f"{a}.rs_cast_{name}", k, ind), ind)
            if ty in ("usize", "u64", "u128") or ty.startswith("&"):
                return self.ex(e[1], k, ind)          # widening casts: the value is unchanged
            bits = {"u8": 8, "u16": 16, "u32": 32}.get(ty)
            if bits is None:
                raise Bad(f"cast to {ty}")
            return self.ex(e[1], lambda a: self.bindc(f"cast_to {bits} {a}", k, ind), ind)
        if t == "field":
            if self.guard and e[1] == ("path", [self.guard["var"]]) and e[2] in self.guard["fields"] and e[2] != self.guard["alias"]:
                return k(ident(f"{self.guard['var']}_{e[2]}"))
            if self.in_guard_drop and self.guard and e[1] == ("path", ["self"]) and e[2] in self.guard["fields"] and e[2] != self.guard["alias"]:
                return k(ident(f"{self.guard['var']}_{e[2]}"))
            if self.is_self(e[1]) and e[2] == "0":
                return self.bindc("Repr.field_0", k, ind)
            if self.is_self(e[1]) and e[2] == "2" and not self.self_field and self.self_ns == "Repr":
                return self.bindc("Repr.field_2", k, ind)
            if self.field_ok:
                # heap_buffer.rs: `self.ptr`, `self.len`, `buf.ptr`, `x.capacity` are reads of plain fields
                if e[1] == ("path", ["self"]):
                    return self.bindc(f"{self.self_ns}.get_{e[2]}", k, ind)
                return self.ex(e[1], lambda r: self.bindc(f"{r}.rs_get_{e[2]}", k, ind), ind)
            raise Bad(f"field access .{e[2]}")
        if t == "try":
            return self.ex(e[1], lambda a: self.bindc(f"try_ {a}", k, ind), ind)
        if t == "not":
            return self.ex(e[1], lambda a: k(f"(!{a})"), ind)
        if t == "bin":
            op = e[1]
            if op in ("&&", "||"):
                # short-circuit: the right operand may have effects
                def after(a):
                    rhs = self.ex(e[3], lambda b: f"Rt.pure {b}", ind + 2)
                    if op == "&&":
                        body = f"(ifM {a} (\n{pad}    {rhs}) (Rt.pure false))"
                    else:
                        body = f"(ifM {a} (Rt.pure true) (\n{pad}    {rhs}))"
                    return self.bindc(body, k, ind)
                return self.ex(e[2], after, ind)
            cmp_ = {"==": "=", "!=": "≠", "<": "<", ">": ">", "<=": "≤", ">=": "≥"}
            def after(a):
                def after2(b):
                    if op in cmp_:
                        return k(f"(decide ({a} {cmp_[op]} {b}))")
                    if op in ("+", "-", "*", "/"):
                        fn = {"+": "arith_add", "-": "arith_sub", "*": "arith_mul", "/": "arith_div"}[op]
                        return self.bindc(f"{fn} {a} {b}", k, ind)
                    if op == "%":
                        return k(f"({a} % {b})")
                    if op == "|":
                        return k(f"({a} ||| {b})")
                    if op == "&":
                        return k(f"({a} &&& {b})")
                    if op == "^":
                        return k(f"({a} ^^^ {b})")
                    raise Bad(f"operator {op}")
                return self.ex(e[3], after2, ind)
            return self.ex(e[2], after, ind)
        if t == "call":
            f = e[1]
            if f[0] != "path":
                raise Bad("call of a non-path")
            p = [getattr(self, "self_ty", "Repr") if x == "Self" else x for x in f[1]]
            if p == ["ptr", "read"] and len(e[2]) == 1 and self.is_self(e[2][0]):
                return self.bindc("Repr.read_self", k, ind)
            if len(p) == 1 and p[0] in self.closures:
                # a call of the caller's `FnMut`: it may panic, and its state advances (the closure is rebound)
                c = ident(p[0])
                def callc(as_):
                    comp = f"{c}.rs_call_mut" + "".join(" " + a for a in as_)
                    if self.guard:
                        comp = f"dropOnUnwind (\n{'  ' * (ind + 2)}{self.guard_drop(ind + 2)}) ({comp})"
                    t_ = self.fresh()
                    return f"Rt.bind ({comp}) fun ({t_}, {c}) =>\n{'  ' * ind}{k(t_)}"
                return self.args(e[2], callc, ind)
            if p in (["drop"], ["mem", "drop"]):
                if self.guard and e[2] == [("path", [self.guard["var"]])]:
                    # `drop(g)`: the guard's destructor runs here, with the current values of its fields
                    txt = self.guard_drop(ind)
                    self.guard = None
                    return f"Rt.bind (\n{'  ' * (ind + 1)}{txt}) fun _ =>\n{'  ' * ind}{k('()')}"
                raise Bad("explicit drop")
            if len(p) == 1 and p[0].startswith("size_of_") and not e[2]:
                return k(p[0])
            name = {"Ok": "rs_Ok", "Err": "rs_Err", "Some": "rs_Some"}.get(p[0], None) if len(p) == 1 else None
            if len(p) == 2 and p[0] == "LeanString" and p[1] in self.rename:
                p = ["LeanString", self.rename[p[1]]]
            head = name or ".".join(p)
            wrap = head in self.generated
            return self.args(e[2], lambda as_: self.bindc(self.app(head, as_, wrap), k, ind), ind)
        if t == "mcall":
            recv, name, args = e[1], e[2], e[3]
            if name == "for_each" and len(args) == 1 and args[0][0] == "closure":
                cl = args[0]
                cb = cl[2] if cl[2][0] == "block" else ("block", [("expr", cl[2])], None)
                body = self.block(cb, lambda a: "Rt.pure ()", ind + 2)
                return self.ex(recv, lambda it: self.bindc(f"{it}.rs_for_each (fun {ident(cl[1])} =>\n{'  ' * (ind + 2)}{body})", k, ind), ind)
            if name == "collect" and not args and "collect" in self.rename:
                # `iter.collect()`: which `FromIterator` impl is meant is resolved by type in Rust (RENAMES)
                head = f"LeanString.{self.rename['collect']}"
                wrap = head in self.generated
                return self.ex(recv, lambda r: self.bindc(self.app(head, [r], wrap), k, ind), ind)
            if name == "map" and len(args) == 1 and args[0][0] == "closure":
                # `.map(|c| expr)` with a closure that captures nothing (checked: its body may only mention its parameter)
                cl = args[0]
                cb = cl[2] if cl[2][0] == "block" else ("block", [], cl[2])
                if mentions(cl[2], "self") or (self.owned and mentions(cl[2], self.owned)):
                    raise Bad("map closure that captures self")
                body = self.block(cb, lambda a: f"Rt.pure {a}", ind + 2)
                return self.ex(recv, lambda it: self.bindc(f"{it}.rs_map (fun {ident(cl[1])} =>\n{'  ' * (ind + 2)}{body})", k, ind), ind)
            if len(args) == 1 and args[0][0] == "range":
                a, b = args[0][1], args[0][2]
                if a is None and b is not None:
                    return self.ex(("mcall", recv, name + "_to", [b]), k, ind)
                if a is not None and b is None:
                    return self.ex(("mcall", recv, name + "_from", [a]), k, ind)
                if a is not None and b is not None:
                    return self.ex(("mcall", recv, name + "_range", [a, b]), k, ind)
                raise Bad("full range argument")
            if self.is_self(recv):
                head = f"{self.self_ns}.{self.rename.get(name, name)}"
                wrap = head in self.generated
                return self.args(args, lambda as_: self.bindc(self.app(head, as_, wrap), k, ind), ind)
            if self.self_field and (recv == ("path", ["self"]) or (self.owned and recv == ("path", [self.owned]))):
                # a method of `LeanString` itself (`self.try_push(ch)`, or of the owned local of a static function)
                head = f"LeanString.{self.rename.get(name, name)}"
                wrap = head in self.generated
                return self.args(args, lambda as_: self.bindc(self.app(head, as_, wrap), k, ind), ind)
            if self.self_field and recv[0] == "path" and len(recv[1]) == 1 and recv[1][0] in self.ls_params:
                # a method of `LeanString` on another LeanString (a `&LeanString` parameter): run on that value
                other = ident(recv[1][0])
                head = f"LeanString.{self.rename.get(name, name)}"
                wrap = head in self.generated
                return self.args(args, lambda as_: self.bindc(f"onRepr {other} ({self.app(head, as_, wrap)})", k, ind), ind)
            if self.self_field and recv[0] == "field" and recv[2] == "0" and recv[1][0] == "path" and len(recv[1][1]) == 1:
                # `other.0.method(args)` on another LeanString (a `&Self` parameter)
                other = ident(recv[1][1][0])
                head = f"Repr.{name}"
                wrap = head in self.generated
                return self.args(args, lambda as_: self.bindc(f"onRepr {other} ({self.app(head, as_, wrap)})", k, ind), ind)
            return self.ex(recv, lambda r: self.args(args, lambda as_: self.bindc(self.app(f"{r}.rs_{name}", as_, False), k, ind), ind), ind)
        if t == "index":
            recv, idx = e[1], e[2]
            if idx[0] == "range":
                a, b = idx[1], idx[2]
                if a is not None and b is not None:
                    name, args = "index_range", [a, b]
                elif a is not None:
                    name, args = "index_from", [a]
                elif b is not None:
                    name, args = "index_to", [b]
                else:
                    raise Bad("full range index")
            else:
                name, args = "index", [idx]
            return self.ex(("mcall", recv, name, args), k, ind)
        if t == "struct":
            name = ".".join(getattr(self, "self_ty", "Repr") if x == "Self" else x for x in e[1]) + ".mk"
            return self.args([fv for _, fv in e[2]], lambda as_: self.bindc(self.app(name, as_, False), k, ind), ind)
        if t == "tuple":
            return self.args(e[1], lambda as_: k("(" + ", ".join(as_) + ")"), ind)
        if t == "for":
            # `for x in it { body }`  ==  `it.for_each(|x| body)`
            body = self.block(e[3], lambda a: "Rt.pure ()", ind + 2)
            return self.ex(e[2], lambda it: self.bindc(f"{it}.rs_for_each (fun {ident(e[1])} =>\n{'  ' * (ind + 2)}{body})", k, ind), ind)
        if t == "while":
            raise Bad("while loop in expression position")
        if t == "closure":
            raise Bad("closure outside for_each")
        if t == "block":
            return self.block(e, k, ind)
        if t == "if":
            return self.ex(e[1], lambda c: self.bindc(self.ifexpr(c, e[2], e[3], ind), k, ind), ind)
        if t == "match":
            return self.ex(e[1], lambda s: self.bindc(self.matchexpr(s, e[2], ind), k, ind), ind)
        if t == "return":
            if e[1] is None:
                return "ret ()"
            if self.owned and not mentions(e[1], self.owned):
                # the owned local is not moved into the returned value: Rust drops it on the way out
                return self.ex(e[1], lambda a: f"Rt.bind (call (LeanString.drop)) fun _ =>\n{'  ' * ind}ret {a}", ind)
            return self.ex(e[1], lambda a: f"ret {a}", ind)
        if t == "macro":
            if e[1] in ("debug_assert", "debug_assert_eq", "debug_assert_ne"):
                return k("()")
            if e[1] == "cfg":
                txt = "".join(v for _, v in e[2])
                if txt in ("debug_assertions",):
                    return k("false")            # release semantics
                raise Bad(f"cfg!({txt})")
            if e[1] in ("panic", "unreachable"):
                return "alarm UB.oob"
            if e[1] == "assert":
                toks, depth, cut = e[2], 0, None
                for j, (kk, vv) in enumerate(toks):
                    if vv in ("(", "[", "{"):
                        depth += 1
                    elif vv in (")", "]", "}"):
                        depth -= 1
                    elif vv == "," and depth == 0:
                        cut = j
                        break
                cond = P(toks[:cut] if cut is not None else toks).expr()
                return self.ex(cond, lambda c: self.bindc(f"assert_ {c}", k, ind), ind)
            raise Bad(f"macro {e[1]}!")
        raise Bad(f"expression kind {t}")

    def app(self, head, args, wrap):
        if head in FUEL_FNS:
            # the callee contains a `while` loop: it takes fuel, and so does the caller
            args = list(args) + ["fuel"]
            self.uses_fuel = True
        s = head + "".join(" " + a for a in args)
        return f"call ({s})" if wrap else s

    def args(self, es, k, ind):
        def go(i, acc):
            if i == len(es):
                return k(acc)
            e = es[i]
            # a path in argument position that names a function is passed as is (`.map(Repr::from_heap)`)
            return self.ex(e, lambda a: go(i + 1, acc + [a if re.match(r"^[\w.()!]+$|^\(.*\)$", a) else f"({a})"]), ind)
        return go(0, [])

    def bindc(self, comp, k, ind, name=None):
        v = name or self.fresh()
        pad = "  " * ind
        return f"Rt.bind ({comp}) fun {v} =>\n{pad}{k(v)}"

    def flatten(self, stmts):
        out = []
        for st in stmts:
            if st[0] == "expr" and st[1][0] == "block" and st[1][2] is None:
                out.extend(self.flatten(st[1][1]))      # `unsafe { a; b; }` as a statement: same scope for our purposes
            else:
                out.append(st)
        return out

    def assigned_locals(self, blk):
        """names assigned in a block that consists only of assignments to plain locals (else None)"""
        names = []
        for st in self.flatten(blk[1]):
            if st[0] == "assign" and st[1][0] == "path" and len(st[1][1]) == 1:
                names.append(st[1][1][0])
            else:
                return None
        return names if names and blk[2] is None else None

    def block(self, b, k, ind):
        _, stmts, tail = b
        stmts = self.flatten(stmts)
        def go(i):
            if i == len(stmts):
                if tail is None:
                    return k("()")
                return self.ex(tail, k, ind)
            s = stmts[i]
            if s[0] == "let":
                v = ident(s[1])
                rhs = s[2]
                if (self.static_fn and self.owned is None and rhs[0] == "call" and rhs[1][0] == "path"
                        and rhs[1][1] in (["LeanString"], ["LeanString", "new"], ["LeanString", "with_capacity"])):
                    # `let mut buf = LeanString(repr)` in a function without receiver: `buf` is the value under
                    # construction -- the state's `self`; Rust drops it when a later call unwinds
                    def own(a):
                        self.owned = s[1]
                        rest = go(i + 1)
                        pad = "  " * ind
                        return (f"Rt.bind (Repr.assign {a}) fun _ =>\n{pad}dropOnUnwind (LeanString.drop) (\n{pad}  {rest})")
                    return self.ex(rhs, own, ind)
                if rhs[0] == "struct" and len(rhs[1]) == 1 and rhs[1][0] in LOCAL_STRUCTS and rhs[1][0] in LOCAL_DROPS:
                    # `let mut g = Guard { self_: self, a: e1, b: e2 }`: the fields become locals `g_a`, `g_b`; the
                    # guard's destructor runs at `drop(g)` and when a call made while it is alive unwinds
                    if self.guard:
                        raise Bad("two live guards")
                    fields = LOCAL_STRUCTS[rhs[1][0]]
                    given = dict(rhs[2])
                    if sorted(given) != sorted(fields):
                        raise Bad("guard literal does not name every field")
                    alias = [f for f in fields if given[f] == ("path", ["self"])]
                    if len(alias) != 1:
                        raise Bad("guard without exactly one `self` field")
                    others = [f for f in fields if f != alias[0]]
                    def bind_fields(j):
                        if j == len(others):
                            self.guard = {"var": s[1], "type": rhs[1][0], "fields": fields, "alias": alias[0]}
                            return go(i + 1)
                        f = others[j]
                        return self.ex(given[f], lambda a: (f"Rt.bind (Rt.pure {a}) fun {ident(s[1] + '_' + f)} =>\n{'  ' * ind}{bind_fields(j + 1)}"), ind)
                    return bind_fields(0)
                if self.is_array_value(rhs):
                    self.arrays.add(s[1])
                return self.ex(s[2], lambda a: (f"Rt.bind (Rt.pure {a}) fun {v} =>\n{'  ' * ind}{go(i + 1)}"), ind)
            if s[0] == "lettuple":
                pat = "(" + ", ".join(ident(n) for n in s[1]) + ")"
                return self.ex(s[2], lambda a: (f"Rt.bind (Rt.pure {a}) fun {pat} =>\n{'  ' * ind}{go(i + 1)}"), ind)
            if s[0] == "expr" and s[1][0] == "while":
                # `while c { body }`: a fuelled loop over the locals the body (or the condition) assigns
                self.uses_fuel = True
                carried = self.assigned_deep([s[1][1], s[1][2]])
                if not carried:
                    raise Bad("while loop that assigns no local")
                tup = "(" + ", ".join(ident(n) for n in carried) + ")" if len(carried) > 1 else ident(carried[0])
                pad = "  " * ind
                cond = self.ex(s[1][1], lambda c: f"Rt.pure {c}", ind + 2)
                body = self.block(s[1][2], lambda _: f"Rt.pure {tup}", ind + 2)
                return (f"Rt.bind (whileLoop (fun {tup} =>\n{pad}    {cond})\n{pad}  (fun {tup} =>\n{pad}    {body})\n{pad}  fuel {tup}) fun {tup} =>\n{pad}{go(i + 1)}")
            if (s[0] == "expr" and s[1][0] == "if" and not self.assigned_locals(s[1][2])
                    and self.assigned_deep([s[1][1], s[1][2], s[1][3]]) and (s[1][3] is None or s[1][3][0] == "block")):
                # `if c { …; x = e; … }`: the branches rebind locals of the enclosing scope (among other statements)
                names = self.assigned_deep([s[1][2], s[1][3]])
                cnames = self.assigned_deep([s[1][1]])
                if names:
                    tup = "(" + ", ".join(ident(n) for n in names) + ")" if len(names) > 1 else ident(names[0])
                    pad = "  " * ind
                    def after_c(c):
                        thenb = self.block(("block", s[1][2][1], None), lambda _: f"Rt.pure {tup}", ind + 2)
                        elseb = f"Rt.pure {tup}" if s[1][3] is None else self.block(("block", s[1][3][1], None), lambda _: f"Rt.pure {tup}", ind + 2)
                        return (f"Rt.bind (ifM {c} (\n{pad}    {thenb})\n{pad}  (\n{pad}    {elseb})) fun {tup} =>\n{pad}{go(i + 1)}")
                    return self.ex(s[1][1], after_c, ind)
            if s[0] == "expr" and s[1][0] == "if" and s[1][3] is None and self.assigned_locals(s[1][2]):
                # `if c { x = e; }`: the branch rebinds locals of the enclosing scope
                names = self.assigned_locals(s[1][2])
                tup = "(" + ", ".join(ident(n) for n in dict.fromkeys(names)) + ")" if len(set(names)) > 1 else ident(names[0])
                pad = "  " * ind
                def after(c):
                    thenb = self.block(("block", s[1][2][1], None), lambda _: f"Rt.pure {tup}", ind + 2)
                    return (f"Rt.bind (ifM {c} (\n{pad}    {thenb})\n{pad}  (Rt.pure {tup})) fun {tup} =>\n{pad}{go(i + 1)}")
                return self.ex(s[1][1], after, ind)
            if (s[0] == "expr" and s[1][0] == "call" and s[1][1] == ("path", ["ptr", "copy_nonoverlapping"]) and len(s[1][2]) == 3
                    and s[1][2][1][0] == "mcall" and s[1][2][1][2] == "as_mut_ptr" and s[1][2][1][1][0] == "path"
                    and len(s[1][2][1][1][1]) == 1 and s[1][2][1][1][1][0] in self.arrays):
                # `ptr::copy_nonoverlapping(src, buffer.as_mut_ptr(), n)` into a local array: rebinds it
                arr = s[1][2][1][1][1][0]
                return self.args([s[1][2][0], s[1][2][2]], lambda as_: (
                    f"Rt.bind (ptr.copy_nonoverlapping_local {as_[0]} {ident(arr)} {as_[1]}) fun {ident(arr)} =>\n{'  ' * ind}{go(i + 1)}"), ind)
            if s[0] == "expr":
                return self.ex(s[1], lambda a: go(i + 1), ind)
            if s[0] == "assign":
                lhs = s[1]
                if lhs[0] == "index" and lhs[1][0] == "path" and len(lhs[1][1]) == 1 and lhs[1][1][0] in self.arrays and lhs[2][0] != "range":
                    # `buffer[i] = v` on a local array: rebind
                    arr = ident(lhs[1][1][0])
                    return self.args([lhs[2], s[2]], lambda as_: (
                        f"Rt.bind ({arr}.rs_index_set {as_[0]} {as_[1]}) fun {arr} =>\n{'  ' * ind}{go(i + 1)}"), ind)
                if self.field_ok and lhs[0] == "index" and lhs[1] == ("field", ("path", ["self"]), "0") and lhs[2][0] != "range":
                    return self.args([lhs[2], s[2]], lambda as_: self.bindc(f"{self.self_ns}.set_byte {as_[0]} {as_[1]}", lambda _: go(i + 1), ind), ind)
                if lhs[0] == "deref" and self.is_self(lhs[1]):
                    return self.ex(s[2], lambda a: self.bindc(f"{self.self_ns}.assign {a}", lambda _: go(i + 1), ind), ind)
                if self.field_ok and lhs[0] == "field" and lhs[1] == ("path", ["self"]):
                    return self.ex(s[2], lambda a: self.bindc(f"{self.self_ns}.set_{lhs[2]} {a}", lambda _: go(i + 1), ind), ind)
                if self.field_ok and lhs[0] == "deref" and lhs[1] == ("path", ["self"]):
                    return self.ex(s[2], lambda a: self.bindc(f"{self.self_ns}.assign {a}", lambda _: go(i + 1), ind), ind)
                if self.guard and lhs[0] == "field" and lhs[1] == ("path", [self.guard["var"]]) and lhs[2] in self.guard["fields"] and lhs[2] != self.guard["alias"]:
                    v = ident(f"{self.guard['var']}_{lhs[2]}")
                    return self.ex(s[2], lambda a: (f"Rt.bind (Rt.pure {a}) fun {v} =>\n{'  ' * ind}{go(i + 1)}"), ind)
                if lhs[0] == "path" and len(lhs[1]) == 1:
                    # `x = e` / `x += e` on a `let mut` local: rebind
                    v = ident(lhs[1][0])
                    return self.ex(s[2], lambda a: (f"Rt.bind (Rt.pure {a}) fun {v} =>\n{'  ' * ind}{go(i + 1)}"), ind)
                raise Bad("assignment to a place other than `*self` or a local")
            raise Bad(f"statement {s[0]}")
        return go(0)

    def branch(self, b, ind):
        pad = "  " * ind
        if b is None:
            return "Rt.pure ()"
        if b[0] == "if":
            return self.ex(b[1], lambda c: self.ifexpr(c, b[2], b[3], ind), ind)
        return self.block(b, lambda a: f"Rt.pure {a}", ind)

    def ifexpr(self, c, a, b, ind):
        pad = "  " * ind
        return (f"ifM {c} (\n{pad}  {self.branch(a, ind + 1)})\n{pad}(\n{pad}  {self.branch(b, ind + 1)})")

    def matchexpr(self, s, arms, ind):
        pad = "  " * ind
        out = [f"match {s} with"]
        for pat, body in arms:
            if pat[0] == "$tuple":
                if body[0] != "block":
                    body = ("block", [], body)
                txt = self.block(body, lambda a: f"Rt.pure {a}", ind + 2)
                for tup in pat[1]:
                    out.append(f"{pad}  | (" + ", ".join(tup) + f") => (\n{pad}    {txt})")
                continue
            ctor = {"Some": "some", "None": "none", "Ok": "Rs.ok", "Err": "Rs.err", "_": "_"}.get(pat[0])
            if ctor is None:
                raise Bad(f"match pattern {pat[0]}")
            var = ""
            if len(pat) > 1 and ctor != "Rs.err":
                var = " " + ident(pat[1])
            elif len(pat) > 1 and ctor == "Rs.err":
                var = ""
            bound_err = len(pat) > 1 and ctor == "Rs.err"
            if body[0] != "block":
                body = ("block", [], body)
            txt = self.block(body, lambda a: f"Rt.pure {a}", ind + 2)
            if bound_err:
                txt = f"Rt.bind (Rt.pure ReserveError) fun {ident(pat[1])} =>\n{pad}    {txt}"
            out.append(f"{pad}  | {ctor}{var} => (\n{pad}    {txt})")
        return "\n".join(out)

# -------------------------------------------------------------------------------------------- driver
# (file, impl header, function, emitted name, self is `self.0`)
TARGETS = [
    ("repr/heap_buffer.rs", "impl TextLen", "new", "TextLen.new_body", False, {"ns": "TextLen", "trust_sig": True, "self_ty": "TextLen"}),
    ("repr/heap_buffer.rs", "impl Capacity", "new", "Capacity.new_body", False, {"ns": "Capacity", "trust_sig": True, "self_ty": "Capacity"}),
    ("repr/heap_buffer.rs", "impl HeapBuffer", "allocate_ptr", "HeapBuffer.allocate_ptr_body", False, {"ns": "HeapBuffer", "trust_sig": True, "self_ty": "HeapBuffer"}),
    ("repr/heap_buffer.rs", "impl HeapBuffer", "new", "HeapBuffer.new_body", False, {"ns": "HeapBuffer", "trust_sig": True, "self_ty": "HeapBuffer"}),
    ("repr/heap_buffer.rs", "impl HeapBuffer", "with_capacity", "HeapBuffer.with_capacity_body", False, {"ns": "HeapBuffer", "trust_sig": True, "self_ty": "HeapBuffer"}),
    ("repr/heap_buffer.rs", "impl HeapBuffer", "with_additional", "HeapBuffer.with_additional_body", False, {"ns": "HeapBuffer", "trust_sig": True, "self_ty": "HeapBuffer"}),
    ("repr/heap_buffer.rs", "impl HeapBuffer", "allocation", "HeapBuffer.allocation_body", False, {"ns": "HeapBuffer", "trust_sig": True, "self_ty": "HeapBuffer"}),
    ("repr/heap_buffer.rs", "impl HeapBuffer", "capacity", "HeapBuffer.capacity_body", False, {"ns": "HeapBuffer", "trust_sig": True, "self_ty": "HeapBuffer"}),
    ("repr/heap_buffer.rs", "impl HeapBuffer", "is_unique", "HeapBuffer.is_unique_body", False, {"ns": "HeapBuffer", "trust_sig": True, "self_ty": "HeapBuffer"}),
    ("repr/heap_buffer.rs", "impl HeapBuffer", "dealloc", "HeapBuffer.dealloc_body", False, {"ns": "HeapBuffer", "trust_sig": True, "self_ty": "HeapBuffer"}),
    ("repr/heap_buffer.rs", "impl HeapBuffer", "realloc", "HeapBuffer.realloc_body", False, {"ns": "HeapBuffer", "trust_sig": True, "self_ty": "HeapBuffer"}),
    ("repr/inline_buffer.rs", "impl InlineBuffer", "new", "InlineBuffer.new_body", False, {"ns": "InlineBuffer", "trust_sig": True, "self_ty": "InlineBuffer"}),
    ("repr/inline_buffer.rs", "impl InlineBuffer", "empty", "InlineBuffer.empty_body", False, {"ns": "InlineBuffer", "trust_sig": True, "self_ty": "InlineBuffer"}),
    ("repr/inline_buffer.rs", "impl InlineBuffer", "set_len", "InlineBuffer.set_len_body", False, {"ns": "InlineBuffer", "trust_sig": True, "self_ty": "InlineBuffer"}),
    ("repr/static_buffer.rs", "impl StaticBuffer", "new", "StaticBuffer.new_body", False, {"ns": "StaticBuffer", "trust_sig": True, "self_ty": "StaticBuffer"}),
    ("repr/static_buffer.rs", "impl StaticBuffer", "len", "StaticBuffer.len_body", False, {"ns": "StaticBuffer", "trust_sig": True, "self_ty": "StaticBuffer"}),
    ("repr/static_buffer.rs", "impl StaticBuffer", "set_len", "StaticBuffer.set_len_body", False, {"ns": "StaticBuffer", "trust_sig": True, "self_ty": "StaticBuffer"}),
    ("repr.rs", "impl Repr", "last_byte", "Repr.last_byte_body", False),
    ("repr.rs", "impl Repr", "len", "Repr.len_body", False),
    ("repr.rs", "impl Repr", "is_empty", "Repr.is_empty_body", False),
    ("repr.rs", "impl Repr", "as_bytes", "Repr.as_bytes_body", False, {"trust_sig": True}),
    ("repr.rs", "impl Repr", "as_str", "Repr.as_str_body", False),
    ("repr.rs", "impl Repr", "as_slice_mut", "Repr.as_slice_mut_body", False, {"trust_sig": True}),
    ("repr.rs", "impl Repr", "as_str_mut", "Repr.as_str_mut_body", False, {"trust_sig": True}),
    ("repr.rs", "impl Repr", "from_char", "Repr.from_char", False),
    ("repr.rs", "impl Repr", "from_bool", "Repr.from_bool", False),
    ("repr.rs", "impl Repr", "new", "Repr.new", False),
    ("repr.rs", "impl Repr", "from_str", "Repr.from_str", False),
    ("repr.rs", "impl Repr", "with_capacity", "Repr.with_capacity", False),
    ("repr.rs", "impl Repr", "from_static_str", "Repr.from_static_str", False),
    ("repr.rs", "impl Repr", "capacity", "Repr.capacity", False),
    ("repr.rs", "impl Repr", "is_unique", "Repr.is_unique", False),
    ("repr.rs", "impl Repr", "replace_inner", "Repr.replace_inner", False),
    ("repr.rs", "impl Repr", "set_len", "Repr.set_len", False),
    ("repr.rs", "impl Repr", "truncate_unchecked", "Repr.truncate_unchecked", False),
    ("repr.rs", "impl Repr", "truncate", "Repr.truncate", False),
    ("repr.rs", "impl Repr", "make_shallow_clone", "Repr.make_shallow_clone", False),
    ("repr.rs", "impl Repr", "reserve", "Repr.reserve", False),
    ("repr.rs", "impl Repr", "shrink_to", "Repr.shrink_to", False),
    ("repr.rs", "impl Repr", "ensure_modifiable", "Repr.ensure_modifiable", False),
    ("repr.rs", "impl Repr", "push_str", "Repr.push_str", False),
    ("repr.rs", "impl Repr", "insert_str", "Repr.insert_str", False),
    ("repr.rs", "impl Repr", "remove", "Repr.remove", False),
    ("repr.rs", "impl Repr", "pop", "Repr.pop", False),
    ("repr.rs", "impl Repr", "retain", "Repr.retain", False),
    ("repr.rs", "impl Repr", "is_heap_buffer", "Repr.is_heap_buffer_body", False),
    ("repr.rs", "impl Repr", "is_static_buffer", "Repr.is_static_buffer_body", False),
    ("lib.rs", "impl LeanString", "clear", "LeanString.clear", True),
    ("lib.rs", "impl Clone for LeanString", "clone", "LeanString.clone", True),
    ("lib.rs", "impl Clone for LeanString", "clone_from", "LeanString.clone_from", True),
    ("lib.rs", "impl Drop for LeanString", "drop", "LeanString.drop", True),
    ("lib.rs", "impl LeanString", "try_reserve", "LeanString.try_reserve", True),
    ("lib.rs", "impl LeanString", "try_shrink_to_fit", "LeanString.try_shrink_to_fit", True),
    ("lib.rs", "impl LeanString", "try_shrink_to", "LeanString.try_shrink_to", True),
    ("lib.rs", "impl LeanString", "try_push", "LeanString.try_push", True),
    ("lib.rs", "impl LeanString", "try_pop", "LeanString.try_pop", True),
    ("lib.rs", "impl LeanString", "try_push_str", "LeanString.try_push_str", True),
    ("lib.rs", "impl LeanString", "try_remove", "LeanString.try_remove", True),
    ("lib.rs", "impl LeanString", "try_insert", "LeanString.try_insert", True),
    ("lib.rs", "impl LeanString", "try_insert_str", "LeanString.try_insert_str", True),
    ("lib.rs", "impl LeanString", "try_truncate", "LeanString.try_truncate", True),
    ("lib.rs", "impl LeanString", "capacity", "LeanString.capacity", True),
    ("lib.rs", "impl LeanString", "len", "LeanString.len", True),
    ("lib.rs", "impl LeanString", "is_heap_allocated", "LeanString.is_heap_allocated", True),
    ("lib.rs", "impl LeanString", "try_with_capacity", "LeanString.try_with_capacity", True),
    ("lib.rs", "impl LeanString", "is_empty", "LeanString.is_empty", True),
    ("lib.rs", "impl LeanString", "as_str", "LeanString.as_str", True),
    ("lib.rs", "impl LeanString", "as_bytes", "LeanString.as_bytes", True, {"trust_sig": True}),
    ("lib.rs", "impl LeanString", "try_retain", "LeanString.try_retain", True),
    ("lib.rs", "impl LeanString", "retain", "LeanString.retain", True),
    ("lib.rs", "impl LeanString", "with_capacity", "LeanString.with_capacity", True),
    ("lib.rs", "impl LeanString", "reserve", "LeanString.reserve", True),
    ("lib.rs", "impl LeanString", "shrink_to_fit", "LeanString.shrink_to_fit", True),
    ("lib.rs", "impl LeanString", "shrink_to", "LeanString.shrink_to", True),
    ("lib.rs", "impl LeanString", "push", "LeanString.push", True),
    ("lib.rs", "impl LeanString", "pop", "LeanString.pop", True),
    ("lib.rs", "impl LeanString", "push_str", "LeanString.push_str", True),
    ("lib.rs", "impl LeanString", "remove", "LeanString.remove", True),
    ("lib.rs", "impl LeanString", "insert", "LeanString.insert", True),
    ("lib.rs", "impl LeanString", "insert_str", "LeanString.insert_str", True),
    ("lib.rs", "impl LeanString", "truncate", "LeanString.truncate", True),
    ("lib.rs", "impl AddAssign<&str> for LeanString", "add_assign", "LeanString.add_assign", True),
    ("lib.rs", "impl fmt::Write for LeanString", "write_str", "LeanString.write_str", True),
    ("lib.rs", "impl Add<&str> for LeanString", "add", "LeanString.add", True),
    ("lib.rs", "impl From<&str> for LeanString", "from", "LeanString.from_str_ref", True),
    ("lib.rs", "impl Extend<char> for LeanString", "extend", "LeanString.extend_char", True),
    ("lib.rs", "impl<'a> Extend<&'a str> for LeanString", "extend", "LeanString.extend_str", True),
    ("lib.rs", "impl Extend<String> for LeanString", "extend", "LeanString.extend_string", True),
    ("lib.rs", "impl Extend<Box<str>> for LeanString", "extend", "LeanString.extend_box", True),
    ("lib.rs", "impl LeanString", "new", "LeanString.new", True),
    ("lib.rs", "impl FromIterator<char> for LeanString", "from_iter", "LeanString.from_iter_char", True),
    ("lib.rs", "impl<'a> FromIterator<&'a str> for LeanString", "from_iter", "LeanString.from_iter_str", True),
    ("lib.rs", "impl FromIterator<String> for LeanString", "from_iter", "LeanString.from_iter_string", True),
    ("lib.rs", "impl LeanString", "from_utf8", "LeanString.from_utf8", True),
    ("lib.rs", "impl LeanString", "from_utf8_lossy", "LeanString.from_utf8_lossy", True),
    ("lib.rs", "impl LeanString", "from_utf16", "LeanString.from_utf16", True),
    ("lib.rs", "impl LeanString", "from_utf16_lossy", "LeanString.from_utf16_lossy", True),
    ("lib.rs", "impl LeanString", "from_utf8_unchecked", "LeanString.from_utf8_unchecked", True),
    ("lib.rs", "impl Default for LeanString", "default", "LeanString.default", True),
    ("lib.rs", "impl From<char> for LeanString", "from", "LeanString.from_char_conv", True),
    ("lib.rs", "impl From<String> for LeanString", "from", "LeanString.from_string", True),
    ("lib.rs", "impl From<&String> for LeanString", "from", "LeanString.from_string_ref", True),
    ("lib.rs", "impl From<Box<str>> for LeanString", "from", "LeanString.from_box", True),
    ("lib.rs", "impl From<&LeanString> for LeanString", "from", "LeanString.from_ls_ref", True),
    ("lib.rs", "impl FromStr for LeanString", "from_str", "LeanString.from_str_trait", True),
    ("lib.rs", "impl<'a> Extend<&'a char> for LeanString", "extend", "LeanString.extend_char_ref", True),
    ("lib.rs", "impl<'a> Extend<Cow<'a, str>> for LeanString", "extend", "LeanString.extend_cow", True),
    ("lib.rs", "impl Extend<LeanString> for LeanString", "extend", "LeanString.extend_ls", True),
    ("lib.rs", "impl<'a> FromIterator<&'a char> for LeanString", "from_iter", "LeanString.from_iter_char_ref", True),
    ("lib.rs", "impl FromIterator<Box<str>> for LeanString", "from_iter", "LeanString.from_iter_box", True),
    ("lib.rs", "impl<'a> FromIterator<Cow<'a, str>> for LeanString", "from_iter", "LeanString.from_iter_cow", True),
    ("lib.rs", "impl FromIterator<LeanString> for LeanString", "from_iter", "LeanString.from_iter_ls", True),
]
# expected Lean signatures (used for the stub of a poisoned function, and checked against the source)
SIGS = {
    "TextLen.new_body": ([("size", "Nat")], "Rs TextLenV"), "Capacity.new_body": ([("capacity", "Nat")], "Rs CapV"),
    "HeapBuffer.allocate_ptr_body": ([("capacity", "CapV")], "Rs NonNullV"), "HeapBuffer.new_body": ([("text", "Str")], "Rs HeapBuf"),
    "HeapBuffer.with_capacity_body": ([("capacity", "Nat")], "Rs HeapBuf"),
    "HeapBuffer.with_additional_body": ([("text", "Str"), ("additional", "Nat")], "Rs HeapBuf"),
    "HeapBuffer.allocation_body": ([], "RawPtrV"), "HeapBuffer.capacity_body": ([], "Nat"), "HeapBuffer.is_unique_body": ([], "Bool"),
    "HeapBuffer.dealloc_body": ([], "Unit"), "HeapBuffer.realloc_body": ([("new_capacity", "Nat")], "Rs Unit"),
    "InlineBuffer.new_body": ([("text", "Str")], "InlineBuf"), "InlineBuffer.empty_body": ([], "InlineBuf"),
    "InlineBuffer.set_len_body": ([("len", "Nat")], "Unit"),
    "StaticBuffer.new_body": ([("text", "SStr")], "Rs StaticBuf"), "StaticBuffer.len_body": ([], "Nat"),
    "StaticBuffer.set_len_body": ([("len", "Nat")], "Unit"),
    "Repr.last_byte_body": ([], "Nat"), "Repr.len_body": ([], "Nat"), "Repr.is_empty_body": ([], "Bool"),
    "Repr.as_bytes_body": ([], "RawSlice"), "Repr.as_str_body": ([], "Str"), "Repr.as_slice_mut_body": ([], "SliceMut"),
    "Repr.as_str_mut_body": ([], "SliceMut"), "Repr.from_char": ([("ch", "Chr")], "Handle"), "Repr.from_bool": ([("b", "Bool")], "Handle"),
    "Repr.new": ([], "Handle"), "Repr.from_str": ([("text", "Str")], "Rs Handle"),
    "Repr.with_capacity": ([("capacity", "Nat")], "Rs Handle"), "Repr.from_static_str": ([("text", "SStr")], "Rs Handle"), "Repr.capacity": ([], "Nat"), "Repr.is_unique": ([], "Bool"),
    "Repr.replace_inner": ([("other", "Handle")], "Unit"), "Repr.set_len": ([("new_len", "Nat")], "Unit"),
    "Repr.truncate_unchecked": ([("new_len", "Nat")], "Rs Unit"), "Repr.truncate": ([("new_len", "Nat")], "Rs Unit"),
    "Repr.make_shallow_clone": ([], "Handle"), "Repr.reserve": ([("additional", "Nat")], "Rs Unit"),
    "Repr.shrink_to": ([("min_capacity", "Nat")], "Rs Unit"), "Repr.ensure_modifiable": ([], "Rs Unit"),
    "Repr.push_str": ([("string", "Str")], "Rs Unit"), "Repr.insert_str": ([("idx", "Nat"), ("string", "Str")], "Rs Unit"),
    "Repr.remove": ([("idx", "Nat")], "Rs Chr"), "Repr.pop": ([], "Rs (Option Chr)"),
    "Repr.retain": ([("predicate", "Pred"), ("fuel", "Nat")], "Rs Unit"),
    "Repr.is_heap_buffer_body": ([], "Bool"), "Repr.is_static_buffer_body": ([], "Bool"),
    "LeanString.clear": ([], "Unit"),
    "LeanString.clone": ([], "Handle"), "LeanString.clone_from": ([("source", "Handle")], "Unit"), "LeanString.drop": ([], "Unit"),
    "LeanString.try_reserve": ([("additional", "Nat")], "Rs Unit"), "LeanString.try_shrink_to_fit": ([], "Rs Unit"),
    "LeanString.try_shrink_to": ([("min_capacity", "Nat")], "Rs Unit"), "LeanString.try_push": ([("ch", "Chr")], "Rs Unit"),
    "LeanString.try_pop": ([], "Rs (Option Chr)"), "LeanString.try_push_str": ([("string", "Str")], "Rs Unit"),
    "LeanString.try_remove": ([("idx", "Nat")], "Rs Chr"), "LeanString.try_insert": ([("idx", "Nat"), ("ch", "Chr")], "Rs Unit"),
    "LeanString.try_insert_str": ([("idx", "Nat"), ("string", "Str")], "Rs Unit"),
    "LeanString.try_truncate": ([("new_len", "Nat")], "Rs Unit"), "LeanString.capacity": ([], "Nat"), "LeanString.len": ([], "Nat"),
    "LeanString.is_heap_allocated": ([], "Bool"),
    "LeanString.is_empty": ([], "Bool"), "LeanString.as_str": ([], "Str"), "LeanString.as_bytes": ([], "RawSlice"),
    "LeanString.try_retain": ([("predicate", "Pred"), ("fuel", "Nat")], "Rs Unit"),
    "LeanString.retain": ([("predicate", "Pred"), ("fuel", "Nat")], "Unit"),
    "LeanString.try_with_capacity": ([("capacity", "Nat")], "Rs Handle"), "LeanString.with_capacity": ([("capacity", "Nat")], "Handle"),
    "LeanString.reserve": ([("additional", "Nat")], "Unit"), "LeanString.shrink_to_fit": ([], "Unit"),
    "LeanString.shrink_to": ([("min_capacity", "Nat")], "Unit"), "LeanString.push": ([("ch", "Chr")], "Unit"),
    "LeanString.pop": ([], "Option Chr"), "LeanString.push_str": ([("string", "Str")], "Unit"),
    "LeanString.remove": ([("idx", "Nat")], "Chr"), "LeanString.insert": ([("idx", "Nat"), ("ch", "Chr")], "Unit"),
    "LeanString.insert_str": ([("idx", "Nat"), ("string", "Str")], "Unit"), "LeanString.truncate": ([("new_len", "Nat")], "Unit"),
    "LeanString.add_assign": ([("rhs", "Str")], "Unit"), "LeanString.write_str": ([("s", "Str")], "Rs Unit"),
    "LeanString.add": ([("rhs", "Str")], "Handle"), "LeanString.from_str_ref": ([("value", "Str")], "Handle"),
    "LeanString.extend_char": ([("iter", "CharIter")], "Unit"), "LeanString.extend_str": ([("iter", "StrIter")], "Unit"),
    "LeanString.extend_string": ([("iter", "StrIter")], "Unit"), "LeanString.extend_box": ([("iter", "StrIter")], "Unit"),
    "LeanString.new": ([], "Handle"), "LeanString.from_iter_char": ([("iter", "CharIter")], "Handle"),
    "LeanString.from_iter_str": ([("iter", "StrIter")], "Handle"), "LeanString.from_iter_string": ([("iter", "StrIter")], "Handle"),
    "LeanString.from_utf8": ([("buf", "ByteSlice")], "Rs Handle"), "LeanString.from_utf8_lossy": ([("buf", "ByteSlice")], "Handle"),
    "LeanString.from_utf16": ([("buf", "U16Slice")], "Rs Handle"),
    "LeanString.from_utf16_lossy": ([("buf", "U16Slice")], "Handle"),
    "LeanString.from_utf8_unchecked": ([("buf", "ByteSlice")], "Handle"), "LeanString.default": ([], "Handle"),
    "LeanString.from_char_conv": ([("value", "Chr")], "Handle"), "LeanString.from_string": ([("value", "Str")], "Handle"),
    "LeanString.from_string_ref": ([("value", "Str")], "Handle"), "LeanString.from_box": ([("value", "Str")], "Handle"),
    "LeanString.from_ls_ref": ([("value", "Handle")], "Handle"), "LeanString.from_str_trait": ([("s", "Str")], "Rs Handle"),
    "LeanString.extend_char_ref": ([("iter", "CharIter")], "Unit"), "LeanString.extend_cow": ([("iter", "StrIter")], "Unit"),
    "LeanString.extend_ls": ([("iter", "StrIter")], "Unit"),
    "LeanString.from_iter_char_ref": ([("iter", "CharIter")], "Handle"), "LeanString.from_iter_box": ([("iter", "StrIter")], "Handle"),
    "LeanString.from_iter_cow": ([("iter", "StrIter")], "Handle"), "LeanString.from_iter_ls": ([("iter", "StrIter")], "Handle"),
}

# method names that Rust resolves by the argument's type
RENAMES = {
    "LeanString.from_iter_char": {"push": "push"},
    "LeanString.from_iter_str": {"extend": "extend_str"},
    "LeanString.from_iter_string": {"extend": "extend_string"},
    "LeanString.from_utf8": {"from": "from_str_ref"},
    "LeanString.from_utf16_lossy": {"collect": "from_iter_char"},
    "LeanString.from_utf8_unchecked": {"from": "from_str_ref"},
    "LeanString.extend_char_ref": {"extend": "extend_char"},
    "LeanString.from_iter_char_ref": {"collect": "from_iter_char"},
    "LeanString.from_iter_box": {"extend": "extend_box"},
    "LeanString.from_iter_cow": {"extend": "extend_cow"},
    "LeanString.from_iter_ls": {"extend": "extend_ls"},
}

def pick64(variants):
    """the variant that is compiled on a 64-bit target"""
    ok = [v for v in variants if not any('target_pointer_width = "32"' in a.replace("\n", " ") or 'target_pointer_width="32"' in a for a in v[0])]
    if len(ok) != 1:
        raise Bad(f"{len(ok)} candidate definitions")
    return ok[0]

def translate_one(srcs, cache, file, header, fn, lname, self_field, generated, opts=None):
    opts = opts or {}
    if (file, header) not in cache:
        cache[(file, header)] = find_fns(srcs[file], header)
    fns = cache[(file, header)]
    if fn not in fns:
        raise Bad("function not found")
    at, params, ret, body = pick64(fns[fn])
    ps = split_params(params)
    lps = []
    for idx_, (n, t) in enumerate(ps):
        lt = lean_ty(t) or ("?" if opts.get("trust_sig") else None)
        if lt is None and re.match(r"^[A-Z]$", t) and idx_ < len(SIGS[lname][0]):
            lt = SIGS[lname][0][idx_][1]      # a generic `T: IntoIterator<Item = …>`: the iterator as data
        if lt is None:
            raise Bad(f"parameter type {t!r}")
        lps.append((ident(n), lt))
    rt = lean_ty(ret) or ("?" if opts.get("trust_sig") else None)
    if rt is None:
        raise Bad(f"return type {ret!r}")
    exp = SIGS[lname]
    if opts.get("trust_sig"):
        # heap_buffer.rs: `Self`, `Capacity`, … mean other Lean types here; only the arity is compared
        if len(ps) != len(exp[0]):
            raise Bad(f"signature changed: {len(ps)} parameters")
        lps = [(ident(n), t) for (n, _), (_, t) in zip(ps, exp[0])]
        rt = exp[1]
    elif [t for _, t in lps] != [t for n, t in exp[0] if n != "fuel"] or rt != exp[1]:
        raise Bad(f"signature changed: ({lps}) -> {rt}")
    LOCAL_STRUCTS.clear(); LOCAL_DROPS.clear()
    p = P(body)
    blk = p.block()
    static_fn = not any(v == "self" for _, v in params)
    lo = Lower(generated, self_field, static_fn, RENAMES.get(lname))
    lo.closures = {ident(n) for n, t in lps if t == "Pred"}
    if self_field:
        lo.ls_params = {n for (n, t), (_, rt_) in zip(lps, ps) if t == "Handle" and "LeanString" in rt_}
    if opts.get("ns"):
        lo.self_ns = opts["ns"]
        lo.field_ok = True
    lo.self_ty = opts.get("self_ty", "LeanString" if self_field else "Repr")
    text = lo.block(blk, lambda a: f"Rt.pure {a}", 1)
    if lo.guard:
        raise Bad("a drop guard is still alive at the end of the function (only an explicit `drop(g)` is translated)")
    if lo.uses_fuel:
        lps = lps + [("fuel", "Nat")]
        FUEL_FNS.add(lname)
    if [t for _, t in lps] != [t for _, t in exp[0]] and not opts.get("trust_sig"):
        raise Bad(f"signature changed: ({lps}) -> {rt}")
    sig = "".join(f" ({n} : {t})" for n, t in lps)
    return f"def {lname}{sig} : M ({rt}) ({rt}) :=\n  {text}\n"

def stub(lname, why):
    ps, rt = SIGS[lname]
    sig = "".join(f" ({n} : {t})" for n, t in ps)
    return f"/-- POISONED: {why} -/\ndef {lname}{sig} : M ({rt}) ({rt}) :=\n  poisoned\n"

def emit(defs):
    hdr = ("import LSModel.Rt\n"
           "/-! GENERATED by /verif/tools/rs2lean.py from the current /repo/src — do not edit.\n"
           "Each definition is the body of the Rust function of the same name, in A-normal form over `LS.Rt.M`. -/\n"
           "namespace LS.GenRepr\nopen LS LS.Rt\n\n")
    return hdr + "\n".join(defs) + "\nend LS.GenRepr\n"

def main():
    srcs = {f: open(os.path.join(REPO, f)).read() for f in ("repr.rs", "lib.rs", "repr/heap_buffer.rs", "repr/inline_buffer.rs", "repr/static_buffer.rs")}
    generated = {t[3] for t in TARGETS if not t[3].endswith("_body")}
    cache, defs, status = {}, {}, {}
    for tgt in TARGETS:
        file, header, fn, lname, sf = tgt[:5]
        opts = tgt[5] if len(tgt) > 5 else None
        try:
            defs[lname] = translate_one(srcs, cache, file, header, fn, lname, sf, generated, opts)
            status[lname] = "ok"
        except Bad as e:
            defs[lname] = stub(lname, str(e))
            status[lname] = f"poisoned: {e}"
        except Exception as e:  # a bug of the translator must not take the check down
            defs[lname] = stub(lname, f"translator error {type(e).__name__}: {e}")
            status[lname] = f"poisoned: translator error {type(e).__name__}: {e}"
    order = [t[3] for t in TARGETS]
    # elaborate; poison what does not elaborate (a source change the runtime library has no meaning for)
    lean_dir = LEAN_DIR
    for round_ in range(4):
        text = emit([defs[n] for n in order])
        open(OUT, "w").write(text)
        if os.environ.get("RS2LEAN_NO_ELAB"):
            break
        subprocess.run(["lake", "build", "LSModel.Rt"], cwd=lean_dir, stdout=subprocess.PIPE, stderr=subprocess.STDOUT)
        r = subprocess.run(["lake", "env", "lean", "LSModel/GenRepr.lean"], cwd=lean_dir, stdout=subprocess.PIPE, stderr=subprocess.STDOUT, text=True)
        errs = [m for m in re.finditer(r"GenRepr\.lean:(\d+):\d+: error", r.stdout)]
        if not errs:
            break
        lines = text.split("\n")
        starts = [(i + 1, l.split()[1]) for i, l in enumerate(lines) if l.startswith("def ")]
        bad = set()
        for m in errs:
            ln = int(m.group(1))
            owner = None
            for s, n in starts:
                if s <= ln:
                    owner = n
            if owner:
                bad.add(owner)
            else:
                bad.update(n for _, n in starts)   # an error outside every definition: nothing can be trusted
        bad = {n for n in bad if status.get(n) == "ok"}
        if not bad:
            break
        first = r.stdout.strip().split("\n")
        for n in bad:
            msg = next((l for l in first if "error" in l), "does not elaborate")
            defs[n] = stub(n, "the translated body does not elaborate: " + msg[:160].replace("-/", "- /"))
            status[n] = "poisoned: the translated body does not elaborate against Rt.lean"
    json.dump(status, open(STATUS, "w"), indent=1)
    npo = sum(1 for v in status.values() if v != "ok")
    print(f"rs2lean: {len(status) - npo} functions translated, {npo} poisoned")
    for k, v in status.items():
        if v != "ok":
            print("  ", k, v)

if __name__ == "__main__":
    main()
