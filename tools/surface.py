#!/usr/bin/env python3
"""tools/surface.py — the crate's entry points, item by item.

Lists every `fn` of every `impl` block of /repo/src (inherent and trait impls, nested ones such as a serde visitor
included) and compares the list with the registry tools/surface.json, which was written from the tree the checks were
built for.  An item that is in the source but not in the registry is an entry point — or an override of a provided trait
method: `write_char`, `clone_from`, `hash_slice`, `deserialize_in_place`, `lt`, … — that no tie theorem and no harness
sweep was written for.  `./check` turns each such item into a failing obligation of the properties its impl block
belongs to (three rounds of seeded changes hid defects exactly there).

    python3 tools/surface.py            compare, write tools/surface.status.json
    python3 tools/surface.py --write    (re)write the registry from the current tree
"""
import json, os, re, sys
ROOT = os.path.dirname(os.path.dirname(os.path.abspath(__file__)))
REPO = os.environ.get("VERIF_REPO_SRC") or os.path.join(os.environ.get("VERIF_REPO", "/repo"), "src")
REG = os.path.join(ROOT, "tools", "surface.json")
STATUS = os.path.join(ROOT, "tools", "surface.status.json")
FILES = ["lib.rs", "traits.rs", "errors.rs", "features/serde.rs", "features/arbitrary.rs", "repr.rs", "repr/heap_buffer.rs",
         "repr/inline_buffer.rs", "repr/static_buffer.rs", "repr/num_to_repr.rs", "repr/last_byte.rs"]
ALL = [f"C{i:02d}" for i in range(1, 21)]

def props_of(file, header):
    h = header
    def has(*ks): return any(k in h for k in ks)
    if file.startswith("features/"):
        return ["C19"]
    if file.startswith("repr"):
        if "num_to_repr" in file or has("NumToRepr", "DigitCount"):
            return ["C14", "C15", "C09"]
        return ["C01", "C02", "C03", "C04", "C05", "C06", "C07", "C08", "C09", "C10", "C11", "C12", "C13", "C18", "C20"]
    if has("ToLeanString"):
        return ["C14", "C15", "C08", "C09"]
    if has("Serialize", "Deserialize", "Visitor", "Arbitrary"):
        return ["C19"]
    if has("fmt::Write"):
        return ["C01", "C05", "C11", "C12", "C15", "C18"]
    if has("Extend<", "FromIterator<"):
        return ["C01", "C02", "C03", "C05", "C06", "C18"]
    if has("Clone for", "Drop for", "From<&LeanString>"):
        return ["C01", "C03", "C04", "C08", "C05", "C10"]
    if has("PartialEq", "Eq for", "Ord for", "PartialOrd", "Hash for", "Debug for", "Display for", "Borrow<", "AsRef<", "Deref for"):
        return ["C17", "C01"]
    if has("Add<", "AddAssign<"):
        return ["C01", "C02", "C05", "C11", "C12", "C20"]
    if has("From<", "FromStr", "Default for"):
        return ["C01", "C05", "C09", "C16"]
    if has("impl LeanString"):
        return ["C01", "C02", "C03", "C05", "C06", "C07", "C09", "C10", "C11", "C12", "C13", "C16", "C18"]
    return ALL

def strip(src):
    """comments and string/char literals blanked out (length preserved where it matters: line structure)"""
    out, i, n = [], 0, len(src)
    while i < n:
        c = src[i]
        if src.startswith("//", i):
            j = src.find("\n", i)
            j = n if j < 0 else j
            i = j
            continue
        if src.startswith("/*", i):
            j = src.find("*/", i + 2)
            j = n if j < 0 else j + 2
            out.append("\n" * src.count("\n", i, j))
            i = j
            continue
        if c == '"':
            j = i + 1
            while j < n and src[j] != '"':
                j += 2 if src[j] == "\\" else 1
            out.append('""')
            i = j + 1
            continue
        if c == "'" and i + 2 < n and (src[i + 2] == "'" or (src[i + 1] == "\\" and "'" in src[i + 2:i + 8])):
            j = src.find("'", i + 2 if src[i + 1] != "\\" else i + 3)
            out.append("' '")
            i = j + 1
            continue
        out.append(c)
        i += 1
    return "".join(out)

def items(file):
    path = os.path.join(REPO, file)
    if not os.path.exists(path):
        return {}
    src = strip(open(path).read())
    res = {}
    # every `impl … {` (any depth); its direct `fn`s are those at brace depth +1; macro bodies (`macro_rules!`) are scanned too
    for m in re.finditer(r"(?m)^[ \t]*(?:unsafe\s+)?impl\b([^{;]*)\{", src):
        header = "impl " + re.sub(r"\s+", " ", m.group(1)).strip()
        depth, i, fns = 1, m.end(), []
        while i < len(src) and depth > 0:
            c = src[i]
            if c == "{":
                depth += 1
            elif c == "}":
                depth -= 1
            elif depth == 1:
                f = re.match(r"fn\s+([A-Za-z_]\w*)", src[i:])
                if f and (i == 0 or not (src[i - 1].isalnum() or src[i - 1] == "_")):
                    fns.append(f.group(1))
                    i += f.end()
                    continue
            i += 1
        key = f"{file}::{header}"
        res.setdefault(key, [])
        res[key] += fns
    return res

def main():
    cur = {}
    for f in FILES:
        for k, v in items(f).items():
            cur.setdefault(k, [])
            cur[k] += v
    if "--write" in sys.argv:
        reg = {k: {"fns": sorted(set(v)), "props": props_of(k.split("::", 1)[0], k.split("::", 1)[1])} for k, v in sorted(cur.items())}
        json.dump(reg, open(REG, "w"), indent=1)
        print(f"surface: registry written: {len(reg)} impl blocks, {sum(len(v['fns']) for v in reg.values())} functions")
        return
    reg = json.load(open(REG))
    new = []
    for k, fns in sorted(cur.items()):
        file, header = k.split("::", 1)
        if k not in reg:
            for fn in sorted(set(fns)) or ["(no functions)"]:
                new.append({"item": f"{k}::{fn}", "why": "an impl block the registry does not know", "props": props_of(file, header)})
        else:
            for fn in sorted(set(fns) - set(reg[k]["fns"])):
                new.append({"item": f"{k}::{fn}", "why": "a function (or an override of a provided trait method) the registry does not know", "props": reg[k]["props"]})
    gone = [k for k in reg if k not in cur]
    json.dump({"new_items": new, "missing_blocks": gone}, open(STATUS, "w"), indent=1)
    print(f"surface: {sum(len(set(v)) for v in cur.values())} functions in {len(cur)} impl blocks; {len(new)} not in the registry")
    for it in new:
        print("   ", it["item"])

if __name__ == "__main__":
    main()
