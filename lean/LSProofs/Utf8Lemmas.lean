import LSModel
/-! UTF-8 facts the crate relies on, proved from core's encoder. -/
namespace LS

theorem u8_toNat_ofNat (n : Nat) : (UInt8.ofNat n).toNat = n % 256 := by
  simp [UInt8.toNat_ofNat']

/-- core's encoder as a function of the scalar value -/
def encNat (v : Nat) : Bytes :=
  if v ≤ 127 then [UInt8.ofNat v]
  else if v ≤ 2047 then [UInt8.ofNat (v / 64 % 32 + 192), UInt8.ofNat (v % 64 + 128)]
  else if v ≤ 65535 then [UInt8.ofNat (v / 4096 % 16 + 224), UInt8.ofNat (v / 64 % 64 + 128), UInt8.ofNat (v % 64 + 128)]
  else [UInt8.ofNat (v / 262144 % 8 + 240), UInt8.ofNat (v / 4096 % 64 + 128), UInt8.ofNat (v / 64 % 64 + 128),
        UInt8.ofNat (v % 64 + 128)]

theorem encChar_eq (c : Char) : String.utf8EncodeChar c = encNat c.val.toNat := rfl

theorem isCont_ofNat (n : Nat) : isCont (UInt8.ofNat n) = (decide (0x80 ≤ n % 256) && decide (n % 256 < 0xC0)) := by
  simp only [isCont, u8_toNat_ofNat]

theorem charWidth_ofNat (n : Nat) : charWidth (UInt8.ofNat n) =
    if n % 256 < 0x80 then 1 else if n % 256 < 0xE0 then 2 else if n % 256 < 0xF0 then 3 else 4 := by
  simp only [charWidth, u8_toNat_ofNat]

theorem encNat_shape (v : Nat) (hv : v < 0x110000) :
    ∃ b0 rest, encNat v = b0 :: rest ∧ isCont b0 = false ∧
      rest.all isCont = true ∧ charWidth b0 = rest.length + 1 := by
  unfold encNat
  split
  · refine ⟨_, [], rfl, ?_, rfl, ?_⟩
    · rw [isCont_ofNat]; simp; omega
    · rw [charWidth_ofNat]; (repeat' split) <;> simp <;> omega
  · split
    · refine ⟨_, _, rfl, ?_, ?_, ?_⟩
      · rw [isCont_ofNat]; simp; omega
      · simp only [List.all_cons, List.all_nil, isCont_ofNat]; simp; omega
      · rw [charWidth_ofNat]; (repeat' split) <;> simp <;> omega
    · split
      · refine ⟨_, _, rfl, ?_, ?_, ?_⟩
        · rw [isCont_ofNat]; simp; omega
        · simp only [List.all_cons, List.all_nil, isCont_ofNat]; simp; omega
        · rw [charWidth_ofNat]; (repeat' split) <;> simp <;> omega
      · refine ⟨_, _, rfl, ?_, ?_, ?_⟩
        · rw [isCont_ofNat]; simp; omega
        · simp only [List.all_cons, List.all_nil, isCont_ofNat]; simp; omega
        · rw [charWidth_ofNat]; (repeat' split) <;> simp <;> omega

theorem char_val_lt (c : Char) : c.val.toNat < 0x110000 := by
  have := c.valid
  rcases this with h | ⟨_, h⟩
  · have : c.val.toNat < 0xD800 := h; omega
  · exact h

/-- shape of one encoded character: a non-continuation lead byte whose `charWidth` is the length,
followed by continuation bytes only -/
theorem encChar_shape (c : Char) :
    ∃ b0 rest, String.utf8EncodeChar c = b0 :: rest ∧ isCont b0 = false ∧
      rest.all isCont = true ∧ charWidth b0 = rest.length + 1 := by
  rw [encChar_eq]; exact encNat_shape _ (char_val_lt c)

end LS

namespace LS

theorem enc_nil : enc [] = [] := rfl
theorem enc_cons (c : Char) (cs : List Char) : enc (c :: cs) = String.utf8EncodeChar c ++ enc cs := by
  simp [enc]
theorem enc_append (a b : List Char) : enc (a ++ b) = enc a ++ enc b := by
  simp [enc]

theorem valid_nil : Valid [] := ⟨[], rfl⟩
theorem valid_append {a b : Bytes} (ha : Valid a) (hb : Valid b) : Valid (a ++ b) := by
  obtain ⟨ca, rfl⟩ := ha; obtain ⟨cb, rfl⟩ := hb
  exact ⟨ca ++ cb, (enc_append ca cb).symm⟩

theorem isCont_lt {x : UInt8} (h : isCont x = true) : x.toNat < 0xC0 := by
  simp [isCont] at h; omega

theorem isCont_false_of_lt {x : UInt8} (h : x.toNat < 0x80) : isCont x = false := by
  simp [isCont]; omega

/-- the last byte of an encoded character is never `11xxxxxx` -/
theorem encChar_getLast_lt (c : Char) : ∀ x, (String.utf8EncodeChar c).getLast? = some x → x.toNat < 0xC0 := by
  intro x hx
  obtain ⟨b0, rest, he, hb0, hrest, hw⟩ := encChar_shape c
  rw [he] at hx
  cases rest with
  | nil =>
    simp at hx; subst hx
    have : charWidth b0 = 1 := by simpa using hw
    unfold charWidth at this
    (repeat' split at this) <;> omega
  | cons y ys =>
    have hmem : x ∈ y :: ys := by
      have := List.mem_of_getLast? (l := b0 :: y :: ys) hx
      rw [List.getLast?_cons_cons] at hx
      exact List.mem_of_getLast? hx
    exact isCont_lt (List.all_eq_true.1 hrest x hmem)

theorem enc_eq_nil {cs : List Char} : enc cs = [] → cs = [] := by
  intro h
  cases cs with
  | nil => rfl
  | cons c cs =>
    rw [enc_cons] at h
    have := String.utf8EncodeChar_ne_nil (c := c)
    exact absurd (List.append_eq_nil_iff.1 h).1 this

/-- **the last byte of a non-empty valid UTF-8 text is below `0xC0`** (basis of the inline trick) -/
theorem valid_getLast_lt {b : Bytes} (hv : Valid b) : ∀ x, b.getLast? = some x → x.toNat < 0xC0 := by
  obtain ⟨cs, rfl⟩ := hv
  induction cs with
  | nil => intro x hx; simp [enc] at hx
  | cons c cs ih =>
    intro x hx
    rw [enc_cons] at hx
    by_cases hnil : enc cs = []
    · rw [hnil, List.append_nil] at hx
      exact encChar_getLast_lt c x hx
    · rw [List.getLast?_append] at hx
      cases hl : (enc cs).getLast? with
      | none => exact absurd (List.getLast?_eq_none_iff.1 hl) hnil
      | some y =>
        rw [hl] at hx; simp at hx; subst hx
        exact ih y hl

end LS
