import LSProofs.StepPre
import LSProofs.Props.C14
import LSProofs.DecodeLemmas
/-!
# `step_post`: every public operation preserves `Wf`, raises no model alarm, and leaves every other
handle's two words and text untouched (the lemmas it needs are in `StepPre.lean`)
-/
namespace LS

theorem boolText_valid (b : Bool) : Valid (boolText b) := by
  apply valid_ascii
  cases b <;> simp [boolText] <;> decide

theorem decodeUtf16_valid (u : List Nat) : ∀ s, some s ∈ decodeUtf16 u → Valid s := by
  induction u using decodeUtf16.induct with
  | case1 => intro s hs; simp [decodeUtf16] at hs
  | case2 u rest hns ih =>
    intro s hs
    rw [decodeUtf16_bmp _ _ hns] at hs
    rcases List.mem_cons.1 hs with h | h
    · have h' := Option.some.inj h; rw [h']; exact valid_encChar _
    · exact ih s h
  | case3 u rest h1 h2 ih =>
    intro s hs
    rw [decodeUtf16.eq_def] at hs; simp only [] at hs; rw [if_neg h1, if_pos h2] at hs
    rcases List.mem_cons.1 hs with h | h
    · cases h
    · exact ih s h
  | case4 u h1 h2 =>
    intro s hs
    rw [decodeUtf16.eq_def] at hs; simp only [] at hs; rw [if_neg h1, if_neg h2] at hs
    rcases List.mem_cons.1 hs with h | h
    · cases h
    · cases h
  | case5 u h1 h2 u2 rest2 h3 ih =>
    intro s hs
    rw [decodeUtf16_pair _ _ _ (by omega) h3] at hs
    rcases List.mem_cons.1 hs with h | h
    · have h' := Option.some.inj h; rw [h']; exact valid_encChar _
    · exact ih s h
  | case6 u h1 h2 u2 rest2 h3 ih =>
    intro s hs
    rw [decodeUtf16.eq_def] at hs; simp only [] at hs; rw [if_neg h1, if_neg h2, if_neg h3] at hs
    rcases List.mem_cons.1 hs with h | h
    · cases h
    · exact ih s h

theorem lossy16_valid (u : List Nat) : ∀ s, some s ∈ lossy16 u → Valid s := by
  intro s hs
  unfold lossy16 at hs
  obtain ⟨o, ho, he⟩ := List.mem_map.1 hs
  cases o with
  | none => simp at he; subst he; exact valid_replacement
  | some c => simp at he; subst he; exact decodeUtf16_valid u c ho

/-- `from_utf16`: stored on success, released on an unpaired surrogate or a refusal -/
theorem post_finishUtf16 {w : World} {d : Nat} (hw : Wf w) (res : Res Unit) (hs : res.AllGood w d) :
    Post w (finishUtf16 w d res).1 (finishUtf16 w d res).2 d := by
  cases res with
  | pcb hp r =>
    obtain ⟨t, g⟩ := hs
    obtain ⟨hp', hrel, hl, _⟩ := good_release_none g
    simp only [finishUtf16, hrel]
    exact post_put_none hw hl _ (by simp)
  | ok v hp r => exact post_finishTemp hw (.ok v hp r) hs
  | err hp r => exact post_finishTemp hw (.err hp r) hs
  | pidx hp r => exact post_finishTemp hw (.pidx hp r) hs
  | ub u => exact hs.elim


theorem isGood_self {w : World} {h : Nat} {r : Handle} {t : Bytes} (g : Good (oc w h) w.heap w.statics w.heap r t) :
    IsGood w h w.heap r := ⟨t, g⟩

/-- **every public operation preserves well-formedness, never raises a model alarm, and leaves
every other handle's two words and text untouched** -/
theorem step_post (rf : Refuse) {w : World} (hw : Wf w) (op : Op) (hv : op.ArgsValid) :
    Post w (step rf w op).1 (step rf w op).2 op.target := by
  cases op with
  | new d =>
    simp only [step, Op.target]
    cases hd : w.get d with
    | some r => simp only [Option.isSome_some, if_true]; exact post_same hw _ _ (by simp)
    | none =>
      simp only [Option.isSome_none, Bool.false_eq_true, if_false]
      exact post_put_good hw (good_inline_fresh (linv_empty hw hd) [] valid_nil (by simp)) _ (by simp)
  | fromStr d t plain =>
    simp only [step, Op.target]
    cases hd : w.get d with
    | some r => simp only [Option.isSome_some, if_true]; exact post_same hw _ _ (by simp)
    | none =>
      simp only [Option.isSome_none, Bool.false_eq_true, if_false]
      rcases fromStr_fresh (st := w.statics) (linv_empty hw hd) rf t hv with ⟨hp1, he, hs⟩ | ⟨hp1, r, he, g⟩
      · rw [he]; exact post_heap_congr hw hs _ _ (by cases plain <;> simp [failOut])
      · rw [he]; exact post_put_good hw g _ (by simp)
  | fromStatic d sid =>
    simp only [step, Op.target]
    cases hd : w.get d with
    | some r => simp only [Option.isSome_some, if_true]; exact post_same hw _ _ (by simp)
    | none =>
      simp only [Option.isSome_none, Bool.false_eq_true, if_false]
      cases hs : w.statics[sid]? with
      | none => exact post_same hw _ _ (by simp)
      | some t =>
        have hmem : t ∈ w.statics := List.mem_of_getElem? hs
        obtain ⟨hvt, hmax⟩ := hw.statics t hmem
        have h16 := Tie.maxInline_eq
        simp only []
        by_cases hn : t.length ≤ MAX_INLINE
        · rw [if_pos hn]
          exact post_put_good hw (good_inline_fresh (linv_empty hw hd) t hvt (by omega)) _ (by simp)
        · rw [if_neg hn, if_neg (by omega)]
          refine post_put_good (t' := t) hw ⟨linv_own_congr (fun x => rfl) (linv_empty hw hd), ?_, ?_, hvt⟩ _ (by simp)
          · exact ⟨t, hs, Nat.le_refl _, by rw [List.take_length]; exact hvt, hmax⟩
          · simp [textOf, hs]
  | withCapacity d n plain =>
    simp only [step, Op.target]
    cases hd : w.get d with
    | some r => simp only [Option.isSome_some, if_true]; exact post_same hw _ _ (by simp)
    | none =>
      simp only [Option.isSome_none, Bool.false_eq_true, if_false]
      rcases withCapacity_fresh (st := w.statics) (linv_empty hw hd) rf n with ⟨hp1, he, hs⟩ | ⟨hp1, r, he, g, _⟩
      · rw [he]; exact post_heap_congr hw hs _ _ (by cases plain <;> simp [failOut])
      · rw [he]; exact post_put_good hw g _ (by simp)
  | fromChar d c =>
    simp only [step, Op.target]
    cases hd : w.get d with
    | some r => simp only [Option.isSome_some, if_true]; exact post_same hw _ _ (by simp)
    | none =>
      simp only [Option.isSome_none, Bool.false_eq_true, if_false]
      exact post_put_good hw (good_inline_fresh (linv_empty hw hd) c hv.1 hv.2) _ (by simp)
  | clone d s =>
    simp only [step, Op.target]
    cases hd : w.get d with
    | some r => simp only [Option.isSome_some, if_true]; exact post_same hw _ _ (by simp)
    | none =>
      simp only [Option.isSome_none, Bool.false_eq_true, if_false]
      cases hs : w.get s with
      | none => exact post_same hw _ _ (by simp)
      | some r =>
        have hk := hw.handles s r hs
        obtain ⟨t, ht, hvt⟩ := handleOk_text hk
        have hl0 := linv_empty hw hd
        cases r with
        | inl raw =>
          simp only [shallowClone]
          exact post_put_good hw ⟨linv_own_congr (fun x => rfl) hl0, hk, ht, hvt⟩ _ (by simp)
        | stat sid l =>
          simp only [shallowClone]
          exact post_put_good hw ⟨linv_own_congr (fun x => rfl) hl0, hk, ht, hvt⟩ _ (by simp)
        | heap a l =>
          obtain ⟨b, hb, hlc, hvb⟩ := hk
          simp only [shallowClone, Heap.retain, hb]
          have hl1 := linv_retain hl0 hb
          have hg1 : (w.heap.setBlock a { b with rc := b.rc + 1 }).get? a = some { b with rc := b.rc + 1 } :=
            get?_setBlock_same (get?_lt hb)
          have gnew : Good (oc w d) w.heap w.statics (w.heap.setBlock a { b with rc := b.rc + 1 }) (.heap a l) t := by
            refine ⟨linv_own_congr (fun x => ?_) hl1, ⟨_, hg1, hlc, hvb⟩, ?_, hvt⟩
            · show onBlock x (some (.heap a l)) = 0 + delta a x; rw [onBlock_heap]; omega
            · simp only [textOf, hb, hlc, if_true] at ht
              simp only [textOf, hg1, hlc, if_true]; exact ht
          exact post_put_good hw gnew (.ok .unit) (by simp)
  | cloneFrom d s =>
    simp only [step, Op.target]
    by_cases hds : d = s
    · rw [if_pos hds]; exact post_same hw _ _ (by simp)
    · rw [if_neg hds]
      cases hd : w.get d with
      | none => exact post_same hw _ _ (by simp)
      | some old =>
        cases hs : w.get s with
        | none => exact post_same hw _ _ (by simp)
        | some r =>
          simp only []
          obtain ⟨told, gold, _⟩ := good_of_wf hw hd
          have hk := hw.handles s r hs
          obtain ⟨t, ht, hvt⟩ := handleOk_text hk
          -- text and validity of the source survive the release of `old`
          cases r with
          | inl raw =>
            simp only [shallowClone]
            obtain ⟨hp', hrel, hl, _⟩ := good_release_none gold
            rw [hrel]
            have gnew : Good (oc w d) w.heap w.statics hp' (.inl raw) t := ⟨linv_own_congr (own := ownOf none) (fun x => rfl) hl, hk, ht, hvt⟩
            exact post_put_good hw gnew (.ok .unit) (by simp)
          | stat sid l =>
            simp only [shallowClone]
            obtain ⟨hp', hrel, hl, _⟩ := good_release_none gold
            rw [hrel]
            have gnew : Good (oc w d) w.heap w.statics hp' (.stat sid l) t := ⟨linv_own_congr (own := ownOf none) (fun x => rfl) hl, hk, ht, hvt⟩
            exact post_put_good hw gnew (.ok .unit) (by simp)
          | heap a l =>
            obtain ⟨b, hb, hlc, hvb⟩ := hk
            simp only [shallowClone, Heap.retain, hb]
            have hl1 := linv_retain gold.inv hb
            have hg1 : (w.heap.setBlock a { b with rc := b.rc + 1 }).get? a = some { b with rc := b.rc + 1 } :=
              get?_setBlock_same (get?_lt hb)
            have hocpos : 0 < oc w d a := oc_pos_of_other w d s a l (Ne.symm hds) hs
            cases old with
            | inl raw =>
              simp only [releaseRepr]
              have gnew : Good (oc w d) w.heap w.statics (w.heap.setBlock a { b with rc := b.rc + 1 }) (.heap a l) t := by
                refine ⟨linv_own_congr (fun x => ?_) hl1, ⟨_, hg1, hlc, hvb⟩, ?_, hvt⟩
                · show onBlock x (some (.heap a l)) = 0 + delta a x; rw [onBlock_heap]; omega
                · simp only [textOf, hb, hlc, if_true] at ht
                  simp only [textOf, hg1, hlc, if_true]; exact ht
              exact post_put_good hw gnew (.ok .unit) (by simp)
            | stat sid2 l2 =>
              simp only [releaseRepr]
              have gnew : Good (oc w d) w.heap w.statics (w.heap.setBlock a { b with rc := b.rc + 1 }) (.heap a l) t := by
                refine ⟨linv_own_congr (fun x => ?_) hl1, ⟨_, hg1, hlc, hvb⟩, ?_, hvt⟩
                · show onBlock x (some (.heap a l)) = 0 + delta a x; rw [onBlock_heap]; omega
                · simp only [textOf, hb, hlc, if_true] at ht
                  simp only [textOf, hg1, hlc, if_true]; exact ht
              exact post_put_good hw gnew (.ok .unit) (by simp)
            | heap a2 l2 =>
              obtain ⟨b2, hb2, _, _⟩ := gold.ok
              -- block of `old` in the heap after the increment
              have hb2' : ∃ b2', (w.heap.setBlock a { b with rc := b.rc + 1 }).get? a2 = some b2' := by
                by_cases he : a2 = a
                · subst he; exact ⟨_, hg1⟩
                · rw [get?_setBlock_other he]; exact ⟨b2, hb2⟩
              obtain ⟨b2', hb2'⟩ := hb2'
              obtain ⟨hp', hrel, hl2, _, _, hoth, hdec, hfree⟩ := linv_release hl1 hb2'
                (by show 1 ≤ onBlock a2 (some (.heap a2 l2)) + delta a a2; simp [onBlock])
              simp only [releaseRepr, hrel]
              -- the source block is still there with the same bytes
              have hsrc : ∃ b3, hp'.get? a = some b3 ∧ b3.cap = b.cap ∧ b3.data = b.data := by
                obtain ⟨b3, h1, h2, h3⟩ := hl2.others a hocpos b hb
                exact ⟨b3, h1, h2, h3⟩
              obtain ⟨b3, hb3, hc3, hd3⟩ := hsrc
              have gnew : Good (oc w d) w.heap w.statics hp' (.heap a l) t := by
                refine ⟨linv_own_congr (fun x => ?_) hl2, ⟨b3, hb3, by omega, by rw [hd3]; exact hvb⟩, ?_, hvt⟩
                · show onBlock x (some (.heap a l)) = onBlock x (some (.heap a2 l2)) + delta a x - delta a2 x
                  rw [onBlock_heap, onBlock_heap]; omega
                · simp only [textOf, hb, hlc, if_true] at ht
                  simp only [textOf, hb3]; rw [if_pos (by omega), hd3]; exact ht
              exact post_put_good hw gnew (.ok .unit) (by simp)
  | drop h =>
    simp only [step, Op.target]
    cases hg : w.get h with
    | none => exact post_same hw _ _ (by simp)
    | some r =>
      obtain ⟨t, g, _⟩ := good_of_wf hw hg
      obtain ⟨hp', hrel, hl, _⟩ := good_release_none g
      simp only [hrel]
      exact post_put_none hw hl _ (by simp)
  | pushStr h s plain =>
    simp only [step, Op.target]
    cases hg : w.get h with
    | none => exact post_same hw _ _ (by simp)
    | some r =>
      obtain ⟨t, g, _⟩ := good_of_wf hw hg
      exact post_finish hw _ _ _ (allGood_of_sat (pushStr_sat g rf s hv) (fun _ _ _ g' => ⟨_, g'⟩)
        (fun _ _ hu => ⟨_, unchanged_good g hu⟩) (fun _ _ hf => hf.elim) (fun _ _ hf => hf.elim))
  | pop h plain =>
    simp only [step, Op.target]
    cases hg : w.get h with
    | none => exact post_same hw _ _ (by simp)
    | some r =>
      obtain ⟨t, g, _⟩ := good_of_wf hw hg
      exact post_finish hw _ _ _ (allGood_of_sat (pop_sat g) (fun _ _ _ g' => ⟨_, g'.2.1⟩)
        (fun _ _ hf => hf.elim) (fun _ _ hf => hf.elim) (fun _ _ hf => hf.elim))
  | remove h i plain =>
    simp only [step, Op.target]
    cases hg : w.get h with
    | none => exact post_same hw _ _ (by simp)
    | some r =>
      obtain ⟨t, g, _⟩ := good_of_wf hw hg
      refine post_finish hw _ _ _ ?_
      have := remove_sat g rf i
      cases hsp : Spec.remove t i with
      | panic => rw [hsp] at this; rw [this]; exact isGood_self g
      | ok c t' =>
        rw [hsp] at this
        exact allGood_of_sat this (fun _ _ _ g' => ⟨_, g'.2⟩) (fun _ _ hu => ⟨_, unchanged_good g hu⟩)
          (fun _ _ hf => hf.elim) (fun _ _ hf => hf.elim)
  | insertStr h i s plain =>
    simp only [step, Op.target]
    cases hg : w.get h with
    | none => exact post_same hw _ _ (by simp)
    | some r =>
      obtain ⟨t, g, _⟩ := good_of_wf hw hg
      refine post_finish hw _ _ _ ?_
      have := insertStr_sat g rf i s hv
      cases hsp : Spec.insert_str t i s with
      | panic => rw [hsp] at this; rw [this]; exact isGood_self g
      | ok c t' =>
        rw [hsp] at this
        exact allGood_of_sat this (fun _ _ _ g' => ⟨_, g'⟩) (fun _ _ hu => ⟨_, unchanged_good g hu⟩)
          (fun _ _ hf => hf.elim) (fun _ _ hf => hf.elim)
  | truncate h n plain =>
    simp only [step, Op.target]
    cases hg : w.get h with
    | none => exact post_same hw _ _ (by simp)
    | some r =>
      obtain ⟨t, g, _⟩ := good_of_wf hw hg
      refine post_finish hw _ _ _ ?_
      have := truncate_sat g n
      cases hsp : Spec.truncate t n with
      | panic => rw [hsp] at this; rw [this]; exact isGood_self g
      | ok c t' =>
        rw [hsp] at this
        exact allGood_of_sat this (fun _ _ _ g' => ⟨_, g'.1⟩) (fun _ _ hf => hf.elim)
          (fun _ _ hf => hf.elim) (fun _ _ hf => hf.elim)
  | clear h =>
    simp only [step, Op.target]
    cases hg : w.get h with
    | none => exact post_same hw _ _ (by simp)
    | some r =>
      obtain ⟨t, g, _⟩ := good_of_wf hw hg
      exact post_finish hw _ _ _ (allGood_of_sat (clear_sat g) (fun _ _ _ g' => ⟨_, g'⟩)
        (fun _ _ hf => hf.elim) (fun _ _ hf => hf.elim) (fun _ _ hf => hf.elim))
  | retain h answers plain =>
    simp only [step, Op.target]
    cases hg : w.get h with
    | none => exact post_same hw _ _ (by simp)
    | some r =>
      obtain ⟨t, g, _⟩ := good_of_wf hw hg
      exact post_finish hw _ _ _ (allGood_of_sat (retain_sat g rf answers) (fun _ _ _ g' => ⟨_, g'.1⟩)
        (fun _ _ hu => ⟨_, unchanged_good g hu⟩) (fun _ _ hf => hf.elim) (fun _ _ g' => ⟨_, g'.1⟩))
  | reserve h n plain =>
    simp only [step, Op.target]
    cases hg : w.get h with
    | none => exact post_same hw _ _ (by simp)
    | some r =>
      obtain ⟨t, g, _⟩ := good_of_wf hw hg
      exact post_finish hw _ _ _ (allGood_of_sat (reserve_sat g rf n) (fun _ _ _ g' => ⟨_, g'.1⟩)
        (fun _ _ hu => ⟨_, unchanged_good g hu⟩) (fun _ _ hf => hf.elim) (fun _ _ hf => hf.elim))
  | shrinkTo h n plain =>
    simp only [step, Op.target]
    cases hg : w.get h with
    | none => exact post_same hw _ _ (by simp)
    | some r =>
      obtain ⟨t, g, _⟩ := good_of_wf hw hg
      exact post_finish hw _ _ _ (allGood_of_sat (shrinkTo_sat g rf n) (fun _ _ _ g' => ⟨_, g'.1⟩)
        (fun _ _ hu => ⟨_, unchanged_good g hu⟩) (fun _ _ hf => hf.elim) (fun _ _ hf => hf.elim))
  | extendChars h hint items =>
    simp only [step, Op.target]
    cases hg : w.get h with
    | none => exact post_same hw _ _ (by simp)
    | some r =>
      obtain ⟨t, g, _⟩ := good_of_wf hw hg
      have hr := reserve_sat g rf hint
      simp only []
      revert hr
      cases reserve rf w.statics w.heap r hint with
      | ok v hp1 r1 => intro ⟨g1, _, _⟩; exact post_finish hw _ _ _ (pushLoop_allGood rf items hp1 r1 ⟨_, g1⟩ hv)
      | err hp1 r1 => intro hu; exact post_finish hw _ _ _ (pushLoop_allGood rf items hp1 r1 ⟨_, unchanged_good g hu⟩ hv)
      | pidx hp1 r1 => intro hf; exact hf.elim
      | pcb hp1 r1 => intro hf; exact hf.elim
      | ub u => intro hf; exact hf.elim
  | extendStrs h items =>
    simp only [step, Op.target]
    cases hg : w.get h with
    | none => exact post_same hw _ _ (by simp)
    | some r =>
      obtain ⟨t, g, _⟩ := good_of_wf hw hg
      exact post_finish hw _ _ _ (pushLoop_allGood rf items w.heap r ⟨_, g⟩ hv)
  | collectChars d hint items =>
    simp only [step, Op.target]
    cases hd : w.get d with
    | some r => simp only [Option.isSome_some, if_true]; exact post_same hw _ _ (by simp)
    | none =>
      simp only [Option.isSome_none, Bool.false_eq_true, if_false]
      rcases withCapacity_fresh (st := w.statics) (linv_empty hw hd) rf hint with ⟨hp1, he, hs⟩ | ⟨hp1, r, he, g, _⟩
      · rw [he]
        simp only []
        have hl1 : LInv (oc w d) w.heap hp1 (fun _ => 0) := linv_congr hs (linv_empty hw hd)
        exact post_finishTemp hw _ (pushLoop_allGood rf items hp1 _ ⟨_, good_inline_fresh hl1 [] valid_nil (by simp)⟩ hv)
      · rw [he]
        exact post_finishTemp hw _ (pushLoop_allGood rf items hp1 r ⟨_, g⟩ hv)
  | collectStrs d items =>
    simp only [step, Op.target]
    cases hd : w.get d with
    | some r => simp only [Option.isSome_some, if_true]; exact post_same hw _ _ (by simp)
    | none =>
      simp only [Option.isSome_none, Bool.false_eq_true, if_false]
      exact post_finishTemp hw _ (pushLoop_allGood rf items w.heap _
        ⟨_, good_inline_fresh (linv_empty hw hd) [] valid_nil (by simp)⟩ hv)
  | display d pieces =>
    simp only [step, Op.target]
    cases hd : w.get d with
    | some r => simp only [Option.isSome_some, if_true]; exact post_same hw _ _ (by simp)
    | none =>
      simp only [Option.isSome_none, Bool.false_eq_true, if_false]
      have hall := displayLoop_allGood rf pieces w.heap (.inl inlEmpty)
        ⟨_, good_inline_fresh (linv_empty hw hd) [] valid_nil (by simp)⟩ hv
      revert hall
      cases displayLoop rf w.statics w.heap (.inl inlEmpty) pieces with
      | ok v hp r =>
        intro ⟨t, g⟩
        cases v with
        | true => exact post_put_good hw g _ (by simp)
        | false =>
          obtain ⟨hp', hrel, hl, _⟩ := good_release_none g
          simp only [hrel]
          exact post_put_none hw hl _ (by simp)
      | err hp r => intro hg; exact post_finishTemp hw (.err hp r) hg
      | pcb hp r => intro hg; exact post_finishTemp hw (.pcb hp r) hg
      | pidx hp r => intro hg; exact post_finishTemp hw (.pidx hp r) hg
      | ub u => intro hf; exact hf.elim
  | fromInt d ty v =>
    simp only [step, Op.target]
    cases hd : w.get d with
    | some r => simp only [Option.isSome_some, if_true]; exact post_same hw _ _ (by simp)
    | none =>
      simp only [Option.isSome_none, Bool.false_eq_true, if_false]
      rcases C14.intToReprTy_text (st := w.statics) (linv_empty hw hd) rf ty v hv.1 hv.2 with ⟨hp1, he, hs⟩ | ⟨hp1, r, he, g⟩
      · rw [he]; exact post_heap_congr hw hs _ _ (by simp)
      · rw [he]; exact post_put_good hw g _ (by simp)
  | fromBool d b =>
    simp only [step, Op.target]
    cases hd : w.get d with
    | some r => simp only [Option.isSome_some, if_true]; exact post_same hw _ _ (by simp)
    | none =>
      simp only [Option.isSome_none, Bool.false_eq_true, if_false]
      exact post_put_good hw (good_inline_fresh (linv_empty hw hd) (boolText b) (boolText_valid b)
        (by cases b <;> simp [boolText])) _ (by simp)
  | fromUtf8 d b =>
    simp only [step, Op.target]
    cases hd : w.get d with
    | some r => simp only [Option.isSome_some, if_true]; exact post_same hw _ _ (by simp)
    | none =>
      simp only [Option.isSome_none, Bool.false_eq_true, if_false]
      by_cases hvb : validUtf8 b = true
      · rw [if_pos hvb]
        rcases fromStr_fresh (st := w.statics) (linv_empty hw hd) rf b ((validUtf8_iff b).1 hvb) with ⟨hp1, he, hs⟩ | ⟨hp1, r, he, g⟩
        · rw [he]; exact post_heap_congr hw hs _ _ (by simp)
        · rw [he]; exact post_put_good hw g _ (by simp)
      · rw [if_neg hvb]; exact post_same hw _ _ (by simp)
  | fromUtf8Lossy d b =>
    simp only [step, Op.target]
    cases hd : w.get d with
    | some r => simp only [Option.isSome_some, if_true]; exact post_same hw _ _ (by simp)
    | none =>
      simp only [Option.isSome_none, Bool.false_eq_true, if_false]
      rcases withCapacity_fresh (st := w.statics) (linv_empty hw hd) rf b.length with ⟨hp1, he, hs⟩ | ⟨hp1, r, he, g, _⟩
      · rw [he]; exact post_heap_congr hw hs _ _ (by simp)
      · rw [he]
        exact post_finishTemp hw _ (pushLoop_allGood rf _ hp1 r ⟨_, g⟩ (lossyPushes_valid b))
  | fromUtf16 d u =>
    simp only [step, Op.target]
    cases hd : w.get d with
    | some r => simp only [Option.isSome_some, if_true]; exact post_same hw _ _ (by simp)
    | none =>
      simp only [Option.isSome_none, Bool.false_eq_true, if_false]
      rcases withCapacity_fresh (st := w.statics) (linv_empty hw hd) rf u.length with ⟨hp1, he, hs⟩ | ⟨hp1, r, he, g, _⟩
      · rw [he]; exact post_heap_congr hw hs _ _ (by simp)
      · rw [he]
        exact post_finishUtf16 hw _ (pushLoop_allGood rf _ hp1 r ⟨_, g⟩ (decodeUtf16_valid u))
  | fromUtf16Lossy d u =>
    simp only [step, Op.target]
    cases hd : w.get d with
    | some r => simp only [Option.isSome_some, if_true]; exact post_same hw _ _ (by simp)
    | none =>
      simp only [Option.isSome_none, Bool.false_eq_true, if_false]
      rcases withCapacity_fresh (st := w.statics) (linv_empty hw hd) rf (utf16Hint u) with ⟨hp1, he, hs⟩ | ⟨hp1, r, he, g, _⟩
      · rw [he]
        simp only []
        have hl1 : LInv (oc w d) w.heap hp1 (fun _ => 0) := linv_congr hs (linv_empty hw hd)
        exact post_finishTemp hw _ (pushLoop_allGood rf _ hp1 _ ⟨_, good_inline_fresh hl1 [] valid_nil (by simp)⟩ (lossy16_valid u))
      · rw [he]
        exact post_finishTemp hw _ (pushLoop_allGood rf _ hp1 r ⟨_, g⟩ (lossy16_valid u))

end LS
