import LSProofs.Wf
/-!
# The local invariant: one handle against the rest of the world

An operation acts on the heap and on *one* handle `r`; all other handles are summarised by
`oc a` = how many of them point at block `a`. `LInv oc base hp r` says that `hp` is consistent with
`r` plus those others, and that every block the others point at still holds the capacity and the
bytes it held in `base` (the heap before the operation). `wf_put` turns it back into `Wf`.
-/
namespace LS

def onBlock (a : Nat) : Option Handle → Nat
  | some (.heap a' _) => if a' = a then 1 else 0
  | _ => 0

theorem pointsTo_ite (a : Nat) (v : Option Handle) : (if pointsTo a v = true then 1 else 0) = onBlock a v := by
  cases v with
  | none => rfl
  | some r =>
    cases r with
    | heap a' l => simp only [pointsTo, onBlock]; by_cases h : a' = a <;> simp [h]
    | inl _ => rfl
    | stat _ _ => rfl

theorem countP_set_split {α} (P : α → Bool) (l : List α) (i : Nat) (v z : α) (hz : P z = false) (hi : i < l.length) :
    (l.set i v).countP P = (l.set i z).countP P + (if P v then 1 else 0) := by
  induction l generalizing i with
  | nil => simp at hi
  | cons x xs ih =>
    cases i with
    | zero => simp only [List.set, List.countP_cons, hz]; simp
    | succ i =>
      simp only [List.set, List.countP_cons]
      rw [ih i (by simpa using hi)]; omega

theorem countP_poolSet (p : List (Option Handle)) (h a : Nat) (v : Option Handle) :
    (poolSet p h v).countP (pointsTo a) = (poolSet p h none).countP (pointsTo a) + onBlock a v := by
  unfold poolSet
  rw [countP_set_split (pointsTo a) _ h v none rfl (length_pad p h), pointsTo_ite]

/-- number of *other* handles (all but slot `h`) pointing at block `a` -/
def oc (w : World) (h : Nat) (a : Nat) : Nat := (poolSet w.pool h none).countP (pointsTo a)

structure LInv (ocf : Nat → Nat) (base hp : Heap) (own : Nat → Nat) : Prop where
  blocks : ∀ a b, hp.get? a = some b → BlockOk (ocf a + own a) b
  others : ∀ a, 0 < ocf a → ∀ b, base.get? a = some b →
    ∃ b', hp.get? a = some b' ∧ b'.cap = b.cap ∧ b'.data = b.data
  fresh : ∀ a, hp.slots.length ≤ a → ocf a = 0 ∧ own a = 0
  grow : base.slots.length ≤ hp.slots.length

/-- the references held by a single (optional) handle -/
def ownOf (r : Option Handle) : Nat → Nat := fun a => onBlock a r

theorem linv_own_congr {ocf base hp own own'} (h : ∀ a, own' a = own a) (hl : LInv ocf base hp own) :
    LInv ocf base hp own' :=
  ⟨fun a b hb => by rw [h a]; exact hl.blocks a b hb, hl.others,
   fun a ha => by rw [h a]; exact hl.fresh a ha, hl.grow⟩

theorem mem_of_getH {p : List (Option Handle)} {h : Nat} {r : Handle} (hg : getH p h = some r) : some r ∈ p := by
  unfold getH at hg
  split at hg
  · rename_i r' heq; injection hg with hg; subst hg
    exact List.mem_iff_getElem?.2 ⟨h, heq⟩
  · cases hg

theorem getH_of_mem {p : List (Option Handle)} {r : Handle} (hm : some r ∈ p) : ∃ i, getH p i = some r := by
  obtain ⟨i, hi⟩ := List.mem_iff_getElem?.1 hm
  exact ⟨i, by simp [getH, hi]⟩

/-- a handle of the pool other than slot `h` is counted in `oc` -/
theorem oc_pos_of_other (w : World) (h h' a l : Nat) (hne : h' ≠ h) (hg : w.get h' = some (.heap a l)) :
    0 < oc w h a := by
  unfold oc
  apply List.countP_pos_iff.2
  refine ⟨some (.heap a l), ?_, by simp [pointsTo]⟩
  apply mem_of_getH (h := h')
  rw [getH_poolSet_other _ _ _ _ hne]; exact hg

/-- back from the local invariant to `Wf` -/
theorem wf_put {w : World} {h : Nat} {hp' : Heap} {r' : Option Handle} (hw : Wf w)
    (hl : LInv (oc w h) w.heap hp' (ownOf r'))
    (hok : ∀ r'', r' = some r'' → HandleOk hp' w.statics r'') : Wf (w.put hp' h r') := by
  refine ⟨?_, ?_, hw.statics⟩
  · intro h' r2 hg
    by_cases he : h' = h
    · subst he
      rw [World.get_put_self] at hg
      exact hok r2 hg
    · rw [World.get_put_other w hp' h h' r' he] at hg
      have hk := hw.handles h' r2 hg
      cases r2 with
      | inl raw => exact hk
      | stat s l => exact hk
      | heap a l =>
        obtain ⟨b, hb, hlc, hv⟩ := hk
        obtain ⟨b', hb', hc, hd⟩ := hl.others a (oc_pos_of_other w h h' a l he hg) b hb
        exact ⟨b', hb', by omega, by rw [hd]; exact hv⟩
  · intro a b hb
    have := hl.blocks a b hb
    simp only [World.put]
    rw [countP_poolSet]
    exact this

theorem count_split (w : World) (h a : Nat) :
    w.pool.countP (pointsTo a) = oc w h a + onBlock a (w.get h) := by
  unfold oc
  have e : poolSet w.pool h (w.get h) = poolPad w.pool (h + 1) := by
    unfold poolSet
    apply List.ext_getElem?
    intro i
    rw [List.getElem?_set]
    by_cases he : h = i
    · subst he
      simp only [length_pad, if_true]
      have := getH_pad w.pool (h + 1) h
      rw [World.get_eq, ← this]
      unfold getH
      have hlt := length_pad w.pool h
      rw [List.getElem?_eq_getElem hlt]
      cases (poolPad w.pool (h + 1))[h] <;> rfl
    · simp [he]
  rw [← countP_poolSet, e, countP_pad _ rfl]

/-- from `Wf` to the local invariant of the handle in slot `h` (or of an empty slot) -/
theorem linv_of_wf {w : World} (h : Nat) (hw : Wf w) : LInv (oc w h) w.heap w.heap (ownOf (w.get h)) := by
  refine ⟨?_, ?_, ?_, Nat.le_refl _⟩
  · intro a b hb
    show BlockOk (oc w h a + onBlock a (w.get h)) b
    rw [← count_split w h a]; exact hw.blocks a b hb
  · intro a _ b hb; exact ⟨b, hb, rfl, rfl⟩
  · intro a ha
    -- no handle points beyond the heap: every heap handle has a live block
    have key : ∀ i r, getH w.pool i = some r → onBlock a (some r) = 0 := by
      intro i r hi
      cases r with
      | inl raw => rfl
      | stat s l => rfl
      | heap a' l =>
        obtain ⟨b, hb, _⟩ := hw.handles i _ hi
        have := get?_lt hb
        simp only [onBlock]; rw [if_neg (by omega)]
    constructor
    · unfold oc
      apply Nat.eq_zero_of_not_pos
      intro hpos
      obtain ⟨v, hv, hp⟩ := List.countP_pos_iff.1 hpos
      cases v with
      | none => simp [pointsTo] at hp
      | some r =>
        obtain ⟨i, hi⟩ := getH_of_mem hv
        by_cases hih : i = h
        · subst hih; rw [getH_poolSet_self] at hi; cases hi
        · rw [getH_poolSet_other _ _ _ _ hih] at hi
          have h0 := key i r hi
          have := pointsTo_ite a (some r)
          rw [hp, h0] at this; simp at this
    · unfold ownOf
      cases hg : w.get h with
      | none => rfl
      | some r => exact key h r hg

end LS
