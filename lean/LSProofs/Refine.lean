import LSProofs.LoopSpec
import LSProofs.Props.C16
/-!
# One refinement theorem: every history of public calls behaves like `String`s in named slots

The abstract state is `Texts`: what each live handle reads. `Spec.Target st T op v out` says what
`std::string::String` (plus ownership of slots) allows operation `op` to do when the handles read
`T`: leave its target handle reading `v` and return `out`. It is non-deterministic only where the
allocator is: an operation that may allocate may also fail, and then its target is as before (or,
for a constructor, absent). `step_refines` relates one call of the model to it, for every
well-formed world and every allocator; `run_refines` lifts it to every history.
-/
namespace LS

/-- the abstract state: the text each live handle reads (`none` = no such handle) -/
abbrev Texts := Nat → Option Bytes

namespace Spec

/-- the pieces a `Display` impl writes before it fails or panics -/
def shown : List Piece → List Bytes
  | [] => []
  | .text s :: rest => s :: shown rest
  | _ :: _ => []

/-- how a `Display` impl ends -/
def ending : List Piece → Out
  | [] => .ok .unit
  | .text _ :: rest => ending rest
  | .fail :: _ => .errFmt
  | .panic :: _ => .panicCb

/-- a constructor into slot `d`: refused when the slot is taken -/
def fresh (T : Texts) (d : Nat) (v : Option Bytes) (out : Out) (body : Prop) : Prop :=
  if (T d).isSome then v = T d ∧ out = .bad else body

/-- a method on the live handle `h` reading `t` -/
def onLive (T : Texts) (h : Nat) (v : Option Bytes) (out : Out) (body : Bytes → Prop) : Prop :=
  match T h with
  | none => v = none ∧ out = .bad
  | some t => body t

/-- `extend`-like loops: everything consumed before an iterator panic is appended; a refused
allocation stops between two items -/
def extended (t : Bytes) (items : List (Option Bytes)) (v : Option Bytes) (out : Out) : Prop :=
  (v = some (t ++ (consumed items).flatten) ∧ out = (if panics items then .panicCb else .ok .unit)) ∨
  (out = .panicAlloc ∧ ∃ k, k < (consumed items).length ∧ v = some (t ++ ((consumed items).take k).flatten))

/-- `collect`: the whole concatenation, or no string at all -/
def collected (items : List (Option Bytes)) (v : Option Bytes) (out : Out) : Prop :=
  (v = some (consumed items).flatten ∧ out = .ok .unit ∧ panics items = false) ∨
  (v = none ∧ out = .panicAlloc) ∨ (v = none ∧ out = .panicCb ∧ panics items = true)

/-- what `String` allows `op` to do to its target handle -/
def Target (st : List Bytes) (T : Texts) : Op → Option Bytes → Out → Prop
  | .new d, v, out => fresh T d v out (v = some [] ∧ out = .ok .unit)
  | .fromStr d t plain, v, out => fresh T d v out ((v = some t ∧ out = .ok .unit) ∨ (v = none ∧ out = failOut plain))
  | .fromStatic d sid, v, out => fresh T d v out
      (match st[sid]? with
       | some t => v = some t ∧ out = .ok .unit
       | none => v = none ∧ out = .bad)
  | .withCapacity d _ plain, v, out => fresh T d v out ((v = some [] ∧ out = .ok .unit) ∨ (v = none ∧ out = failOut plain))
  | .fromChar d c, v, out => fresh T d v out (v = some c ∧ out = .ok .unit)
  | .clone d s, v, out => fresh T d v out
      (match T s with
       | some t => v = some t ∧ out = .ok .unit
       | none => v = none ∧ out = .bad)
  | .cloneFrom d s, v, out =>
      if d = s then v = T d ∧ out = .bad else
      match T d, T s with
      | some _, some t => v = some t ∧ out = .ok .unit
      | _, _ => v = T d ∧ out = .bad
  | .drop h, v, out => onLive T h v out (fun _ => v = none ∧ out = .ok .unit)
  | .pushStr h s plain, v, out => onLive T h v out (fun t =>
      (v = some (t ++ s) ∧ out = .ok .unit) ∨ (v = some t ∧ out = failOut plain))
  | .pop h _, v, out => onLive T h v out (fun t =>
      v = some (Spec.pop t).2 ∧ out = .ok (match (Spec.pop t).1 with | none => Val.none | some c => Val.some c))
  | .remove h i plain, v, out => onLive T h v out (fun t =>
      match Spec.remove t i with
      | .ok c t' => (v = some t' ∧ out = .ok (.char c)) ∨ (v = some t ∧ out = failOut plain)
      | .panic => v = some t ∧ out = .panicIdx)
  | .insertStr h i s plain, v, out => onLive T h v out (fun t =>
      match Spec.insert_str t i s with
      | .ok _ t' => (v = some t' ∧ out = .ok .unit) ∨ (v = some t ∧ out = failOut plain)
      | .panic => v = some t ∧ out = .panicIdx)
  | .truncate h n _, v, out => onLive T h v out (fun t =>
      match Spec.truncate t n with
      | .ok _ t' => v = some t' ∧ out = .ok .unit
      | .panic => v = some t ∧ out = .panicIdx)
  | .clear h, v, out => onLive T h v out (fun _ => v = some [] ∧ out = .ok .unit)
  | .retain h answers plain, v, out => onLive T h v out (fun t =>
      (v = some (Spec.retain t answers).1 ∧ out = (if (Spec.retain t answers).2 then .panicCb else .ok .unit)) ∨
      (v = some t ∧ out = failOut plain))
  | .reserve h _ plain, v, out => onLive T h v out (fun t => v = some t ∧ (out = .ok .unit ∨ out = failOut plain))
  | .shrinkTo h _ plain, v, out => onLive T h v out (fun t => v = some t ∧ (out = .ok .unit ∨ out = failOut plain))
  | .extendChars h _ items, v, out => onLive T h v out (fun t => extended t items v out)
  | .extendStrs h items, v, out => onLive T h v out (fun t => extended t items v out)
  | .collectChars d _ items, v, out => fresh T d v out (collected items v out)
  | .collectStrs d items, v, out => fresh T d v out (collected items v out)
  | .display d pieces, v, out => fresh T d v out
      ((v = some (shown pieces).flatten ∧ out = .ok .unit ∧ ending pieces = .ok .unit) ∨
       (v = none ∧ out = ending pieces ∧ ending pieces ≠ .ok .unit) ∨ (v = none ∧ out = .panicAlloc))
  -- `n.try_to_lean_string()`: exactly what `Display` prints, or the single allocation was refused
  | .fromInt d _ n, v, out => fresh T d v out ((v = some (decimal n) ∧ out = .ok .unit) ∨ (v = none ∧ out = .err))
  | .fromBool d b, v, out => fresh T d v out (v = some (boolText b) ∧ out = .ok .unit)
  -- `from_utf8`: accepts exactly the encodings of sequences of Unicode scalar values
  | .fromUtf8 d b, v, out => fresh T d v out
      ((Valid b → (v = some b ∧ out = .ok .unit) ∨ (v = none ∧ out = .panicAlloc)) ∧
       (¬ Valid b → v = none ∧ out = .errUtf8))
  | .fromUtf8Lossy d b, v, out => fresh T d v out
      ((v = some (lossyText b) ∧ out = .ok .unit) ∨ (v = none ∧ out = .panicAlloc))
  -- `from_utf16`: accepts exactly the UTF-16 encodings of texts, and yields that text
  | .fromUtf16 d u, v, out => fresh T d v out
      ((∀ cs, u = encodeUtf16 cs → (v = some (enc cs) ∧ out = .ok .unit) ∨ (v = none ∧ out = .panicAlloc)) ∧
       ((¬ ∃ cs, u = encodeUtf16 cs) → v = none ∧ (out = .errUtf16 ∨ out = .panicAlloc)))
  | .fromUtf16Lossy d u, v, out => fresh T d v out
      ((v = some (lossy16Text u) ∧ out = .ok .unit) ∨ (v = none ∧ out = .panicAlloc))

/-- one abstract step: the target changes as `Target` allows, every other handle reads what it read -/
def Step (st : List Bytes) (T : Texts) (op : Op) (T' : Texts) (out : Out) : Prop :=
  Target st T op (T' op.target) out ∧ ∀ h', h' ≠ op.target → T' h' = T h'

end Spec

/-! ### the concrete side -/

theorem text_eq_none {w : World} {h : Nat} (hg : w.get h = none) : w.text h = none := by
  simp [World.text, hg]

theorem text_isSome {w : World} (hw : Wf w) (h : Nat) : (w.text h).isSome = (w.get h).isSome := by
  cases hg : w.get h with
  | none => simp [text_eq_none hg]
  | some r => obtain ⟨t, _, ht⟩ := good_of_wf hw hg; simp [ht]

theorem text_put_none (w : World) (hp : Heap) (d : Nat) : (w.put hp d none).text d = none := by
  simp [World.text, World.get_put_self]

theorem text_heap_only {w : World} {hp' : Heap} (h : Nat) (hg : w.get h = none) :
    ({ w with heap := hp' } : World).text h = none := by
  have : ({ w with heap := hp' } : World).get h = none := hg
  simp [World.text, this]


theorem text_congr_get {w : World} {a b : Nat} (h : w.get a = w.get b) : w.text a = w.text b := by
  unfold World.text; rw [h]

theorem shallowClone_same {hp hp' : Heap} {r r' : Handle} (h : shallowClone hp r = .ok (hp', r')) : r' = r := by
  cases r with
  | inl raw => simp only [shallowClone, Except.ok.injEq, Prod.mk.injEq] at h; exact h.2.symm
  | stat s l => simp only [shallowClone, Except.ok.injEq, Prod.mk.injEq] at h; exact h.2.symm
  | heap a l =>
    simp only [shallowClone] at h
    split at h
    · simp only [Except.ok.injEq, Prod.mk.injEq] at h; exact h.2.symm
    · cases h

theorem fresh_taken {T : Texts} {d : Nat} {v : Option Bytes} {out : Out} {body : Prop}
    (h : (T d).isSome = true) (hv : v = T d) (ho : out = .bad) : Spec.fresh T d v out body := by
  unfold Spec.fresh; rw [if_pos h]; exact ⟨hv, ho⟩

theorem fresh_free {T : Texts} {d : Nat} {v : Option Bytes} {out : Out} {body : Prop}
    (h : T d = none) (hb : body) : Spec.fresh T d v out body := by
  unfold Spec.fresh; rw [h]; simpa using hb

/-- constructors and ownership operations -/
theorem target_ctor (rf : Refuse) {w : World} (hw : Wf w) (op : Op) (hv : op.ArgsValid)
    (hop : match op with
      | .new _ | .fromStr _ _ _ | .fromStatic _ _ | .withCapacity _ _ _ | .fromChar _ _ | .clone _ _ | .cloneFrom _ _ | .drop _ => True
      | _ => False) :
    Spec.Target w.statics w.text op ((step rf w op).1.text op.target) (step rf w op).2 := by
  have hpost := step_post rf hw op hv
  cases op with
  | new d =>
    simp only [Spec.Target, Op.target]
    cases hd : w.get d with
    | some r =>
      have : (step rf w (.new d)) = (w, .bad) := by simp [step, hd]
      rw [this]; exact fresh_taken (by rw [text_isSome hw, hd]; rfl) rfl rfl
    | none =>
      have : (step rf w (.new d)) = (w.put w.heap d (some (.inl inlEmpty)), .ok .unit) := by simp [step, hd]
      rw [this]
      exact fresh_free (text_eq_none hd)
        ⟨text_put_self (good_inline_fresh (linv_empty hw hd) [] valid_nil (by simp)), rfl⟩
  | fromStr d t plain =>
    simp only [Spec.Target, Op.target]
    cases hd : w.get d with
    | some r =>
      have : (step rf w (.fromStr d t plain)) = (w, .bad) := by simp [step, hd]
      rw [this]; exact fresh_taken (by rw [text_isSome hw, hd]; rfl) rfl rfl
    | none =>
      apply fresh_free (text_eq_none hd)
      simp only [step, hd, Option.isSome_none, Bool.false_eq_true, if_false]
      rcases fromStr_fresh (st := w.statics) (linv_empty hw hd) rf t hv with ⟨hp1, he, hs⟩ | ⟨hp1, r, he, g⟩
      · rw [he]; right; exact ⟨text_heap_only d hd, rfl⟩
      · rw [he]; left; exact ⟨text_put_self g, rfl⟩
  | fromStatic d sid =>
    simp only [Spec.Target, Op.target]
    cases hd : w.get d with
    | some r =>
      have : (step rf w (.fromStatic d sid)) = (w, .bad) := by simp [step, hd]
      rw [this]; exact fresh_taken (by rw [text_isSome hw, hd]; rfl) rfl rfl
    | none =>
      apply fresh_free (text_eq_none hd)
      simp only [step, hd, Option.isSome_none, Bool.false_eq_true, if_false]
      cases hs : w.statics[sid]? with
      | none => exact ⟨text_eq_none hd, rfl⟩
      | some t =>
        have hmem : t ∈ w.statics := List.mem_of_getElem? hs
        obtain ⟨hvt, hmax⟩ := hw.statics t hmem
        have h16 := Tie.maxInline_eq
        simp only []
        by_cases hn : t.length ≤ MAX_INLINE
        · rw [if_pos hn]
          exact ⟨text_put_self (good_inline_fresh (linv_empty hw hd) t hvt (by omega)), rfl⟩
        · rw [if_neg hn, if_neg (by omega)]
          have g : Good (oc w d) w.heap w.statics w.heap (.stat sid t.length) t := by
            refine ⟨linv_own_congr (fun x => rfl) (linv_empty hw hd), ?_, ?_, hvt⟩
            · exact ⟨t, hs, Nat.le_refl _, by rw [List.take_length]; exact hvt, hmax⟩
            · simp [textOf, hs]
          exact ⟨text_put_self g, rfl⟩
  | withCapacity d n plain =>
    simp only [Spec.Target, Op.target]
    cases hd : w.get d with
    | some r =>
      have : (step rf w (.withCapacity d n plain)) = (w, .bad) := by simp [step, hd]
      rw [this]; exact fresh_taken (by rw [text_isSome hw, hd]; rfl) rfl rfl
    | none =>
      apply fresh_free (text_eq_none hd)
      simp only [step, hd, Option.isSome_none, Bool.false_eq_true, if_false]
      rcases withCapacity_fresh (st := w.statics) (linv_empty hw hd) rf n with ⟨hp1, he, hs⟩ | ⟨hp1, r, he, g, _⟩
      · rw [he]; right; exact ⟨text_heap_only d hd, rfl⟩
      · rw [he]; left; exact ⟨text_put_self g, rfl⟩
  | fromChar d c =>
    simp only [Spec.Target, Op.target]
    cases hd : w.get d with
    | some r =>
      have : (step rf w (.fromChar d c)) = (w, .bad) := by simp [step, hd]
      rw [this]; exact fresh_taken (by rw [text_isSome hw, hd]; rfl) rfl rfl
    | none =>
      have : (step rf w (.fromChar d c)) = (w.put w.heap d (some (.inl (inlNew c))), .ok .unit) := by simp [step, hd]
      rw [this]
      exact fresh_free (text_eq_none hd) ⟨text_put_self (good_inline_fresh (linv_empty hw hd) c hv.1 hv.2), rfl⟩
  | clone d s =>
    simp only [Spec.Target, Op.target]
    cases hd : w.get d with
    | some r =>
      have : (step rf w (.clone d s)) = (w, .bad) := by simp [step, hd]
      rw [this]; exact fresh_taken (by rw [text_isSome hw, hd]; rfl) rfl rfl
    | none =>
      apply fresh_free (text_eq_none hd)
      cases hs : w.get s with
      | none =>
        have : (step rf w (.clone d s)) = (w, .bad) := by simp [step, hd, hs]
        rw [this, text_eq_none hs]; exact ⟨text_eq_none hd, rfl⟩
      | some r =>
        obtain ⟨t, _, hts⟩ := good_of_wf hw hs
        rw [hts]
        have hsd : s ≠ d := by intro e; rw [e, hd] at hs; cases hs
        obtain ⟨_, hnub, hframe⟩ := hpost
        simp only [Op.target] at hframe
        have hfs := hframe s hsd
        revert hnub hfs
        simp only [step, hd, hs, Option.isSome_none, Bool.false_eq_true, if_false]
        cases hc : shallowClone w.heap r with
        | error u => intro hnub _; exact absurd rfl (hnub u)
        | ok p =>
          obtain ⟨hp1, r1⟩ := p
          have := shallowClone_same hc; subst this
          intro _ hfs
          refine ⟨?_, rfl⟩
          rw [← hts, ← hfs.2]
          apply text_congr_get
          rw [World.get_put_self, hfs.1]
  | cloneFrom d s =>
    simp only [Spec.Target, Op.target]
    by_cases hds : d = s
    · rw [if_pos hds]
      have : (step rf w (.cloneFrom d s)) = (w, .bad) := by simp [step, hds]
      rw [this]; exact ⟨rfl, rfl⟩
    · rw [if_neg hds]
      cases hd : w.get d with
      | none =>
        have : (step rf w (.cloneFrom d s)) = (w, .bad) := by simp [step, hds, hd]
        rw [this, text_eq_none hd]; exact ⟨rfl, rfl⟩
      | some old =>
        obtain ⟨told, _, htd⟩ := good_of_wf hw hd
        rw [htd]
        cases hs : w.get s with
        | none =>
          have : (step rf w (.cloneFrom d s)) = (w, .bad) := by simp [step, hds, hd, hs]
          rw [this, text_eq_none hs]; exact ⟨htd, rfl⟩
        | some r =>
          obtain ⟨t, _, hts⟩ := good_of_wf hw hs
          rw [hts]
          obtain ⟨_, hnub, hframe⟩ := hpost
          simp only [Op.target] at hframe
          have hfs := hframe s (Ne.symm hds)
          revert hnub hfs
          simp only [step, hds, if_false, hd, hs]
          cases hc : shallowClone w.heap r with
          | error u => intro hnub _; exact absurd rfl (hnub u)
          | ok p =>
            obtain ⟨hp1, r1⟩ := p
            have := shallowClone_same hc; subst this
            simp only []
            cases hr : releaseRepr hp1 old with
            | error u => intro hnub _; exact absurd rfl (hnub u)
            | ok hp2 =>
              intro _ hfs
              refine ⟨?_, rfl⟩
              rw [← hts, ← hfs.2]
              apply text_congr_get
              rw [World.get_put_self, hfs.1]
  | drop h =>
    simp only [Spec.Target, Op.target, Spec.onLive]
    cases hg : w.get h with
    | none =>
      have : (step rf w (.drop h)) = (w, .bad) := by simp [step, hg]
      rw [this, text_eq_none hg]; exact ⟨rfl, rfl⟩
    | some r =>
      obtain ⟨t, _, ht⟩ := good_of_wf hw hg
      rw [ht]
      obtain ⟨_, hnub, _⟩ := hpost
      revert hnub
      simp only [step, hg]
      cases hr : releaseRepr w.heap r with
      | error u => intro hnub; exact absurd rfl (hnub u)
      | ok hp1 => intro _; exact ⟨text_put_none w hp1 h, rfl⟩
  | _ => exact hop.elim


/-- methods on a live handle -/
theorem target_method (rf : Refuse) {w : World} (hw : Wf w) (op : Op) (hv : op.ArgsValid)
    (hop : match op with
      | .pushStr _ _ _ | .pop _ _ | .remove _ _ _ | .insertStr _ _ _ _ | .truncate _ _ _ | .clear _ | .retain _ _ _
      | .reserve _ _ _ | .shrinkTo _ _ _ | .extendChars _ _ _ | .extendStrs _ _ => True
      | _ => False) :
    Spec.Target w.statics w.text op ((step rf w op).1.text op.target) (step rf w op).2 := by
  -- a dead handle: the script line is rejected
  have dead : ∀ (h : Nat) (op' : Op) (body : Bytes → Prop), w.get h = none → step rf w op' = (w, .bad) →
      Spec.onLive w.text h ((step rf w op').1.text h) (step rf w op').2 body := by
    intro h op' body hg hst
    rw [hst]; simp [Spec.onLive, text_eq_none hg]
  cases op with
  | pushStr h s plain =>
    simp only [Spec.Target, Op.target]
    cases hg : w.get h with
    | none => exact dead h _ _ hg (by simp [step, hg])
    | some r =>
      obtain ⟨t, _, ht⟩ := good_of_wf hw hg
      simp only [Spec.onLive, ht]
      rcases pushStr_refines (rf := rf) hw ht s hv plain with ⟨ho, htx⟩ | ⟨ho, hsame⟩
      · left; exact ⟨htx, ho⟩
      · right; exact ⟨by rw [hsame.2.1, ht], ho⟩
  | pop h plain =>
    simp only [Spec.Target, Op.target]
    cases hg : w.get h with
    | none => exact dead h _ _ hg (by simp [step, hg])
    | some r =>
      obtain ⟨t, _, ht⟩ := good_of_wf hw hg
      simp only [Spec.onLive, ht]
      obtain ⟨ho, htx, _⟩ := pop_refines (rf := rf) hw ht plain
      exact ⟨htx, ho⟩
  | remove h i plain =>
    simp only [Spec.Target, Op.target]
    cases hg : w.get h with
    | none => exact dead h _ _ hg (by simp [step, hg])
    | some r =>
      obtain ⟨t, _, ht⟩ := good_of_wf hw hg
      simp only [Spec.onLive, ht]
      have hr := remove_refines (rf := rf) hw ht i plain
      revert hr
      cases Spec.remove t i with
      | ok c t' =>
        intro hr
        rcases hr with ⟨ho, htx⟩ | ⟨ho, hsame⟩
        · left; exact ⟨htx, ho⟩
        · right; exact ⟨by rw [hsame.2.1, ht], ho⟩
      | panic => intro hr; simp only [] at hr ⊢; rw [hr]; exact ⟨ht, rfl⟩
  | insertStr h i s plain =>
    simp only [Spec.Target, Op.target]
    cases hg : w.get h with
    | none => exact dead h _ _ hg (by simp [step, hg])
    | some r =>
      obtain ⟨t, _, ht⟩ := good_of_wf hw hg
      simp only [Spec.onLive, ht]
      have hr := insertStr_refines (rf := rf) hw ht i s hv plain
      revert hr
      cases Spec.insert_str t i s with
      | ok c t' =>
        intro hr
        rcases hr with ⟨ho, htx⟩ | ⟨ho, hsame⟩
        · left; exact ⟨htx, ho⟩
        · right; exact ⟨by rw [hsame.2.1, ht], ho⟩
      | panic => intro hr; simp only [] at hr ⊢; rw [hr]; exact ⟨ht, rfl⟩
  | truncate h n plain =>
    simp only [Spec.Target, Op.target]
    cases hg : w.get h with
    | none => exact dead h _ _ hg (by simp [step, hg])
    | some r =>
      obtain ⟨t, _, ht⟩ := good_of_wf hw hg
      simp only [Spec.onLive, ht]
      have hr := truncate_refines (rf := rf) hw ht n plain
      revert hr
      cases Spec.truncate t n with
      | ok c t' => intro hr; exact ⟨hr.2.1, hr.1⟩
      | panic => intro hr; simp only [] at hr ⊢; rw [hr]; exact ⟨ht, rfl⟩
  | clear h =>
    simp only [Spec.Target, Op.target]
    cases hg : w.get h with
    | none => exact dead h _ _ hg (by simp [step, hg])
    | some r =>
      obtain ⟨t, _, ht⟩ := good_of_wf hw hg
      simp only [Spec.onLive, ht]
      obtain ⟨ho, htx⟩ := clear_refines (rf := rf) hw ht
      exact ⟨htx, ho⟩
  | retain h answers plain =>
    simp only [Spec.Target, Op.target]
    cases hg : w.get h with
    | none => exact dead h _ _ hg (by simp [step, hg])
    | some r =>
      obtain ⟨t, g, ht⟩ := good_of_wf hw hg
      simp only [Spec.onLive, ht]
      rw [← retain_is_string_retain t g.valid answers]
      rcases retain_refines (rf := rf) hw ht answers plain with ⟨ho, htx⟩ | ⟨ho, hsame⟩
      · left; exact ⟨htx, ho⟩
      · right; exact ⟨by rw [hsame.2.1, ht], ho⟩
  | reserve h n plain =>
    simp only [Spec.Target, Op.target]
    cases hg : w.get h with
    | none => exact dead h _ _ hg (by simp [step, hg])
    | some r =>
      obtain ⟨t, _, ht⟩ := good_of_wf hw hg
      simp only [Spec.onLive, ht]
      rcases reserve_refines (rf := rf) hw ht n plain with ⟨ho, htx, _⟩ | ⟨ho, hsame⟩
      · exact ⟨htx, Or.inl ho⟩
      · exact ⟨by rw [hsame.2.1, ht], Or.inr ho⟩
  | shrinkTo h n plain =>
    simp only [Spec.Target, Op.target]
    cases hg : w.get h with
    | none => exact dead h _ _ hg (by simp [step, hg])
    | some r =>
      obtain ⟨t, _, ht⟩ := good_of_wf hw hg
      simp only [Spec.onLive, ht]
      rcases shrinkTo_refines (rf := rf) hw ht n plain with ⟨ho, htx⟩ | ⟨ho, hsame⟩
      · exact ⟨htx, Or.inl ho⟩
      · exact ⟨by rw [hsame.2.1, ht], Or.inr ho⟩
  | extendChars h hint items =>
    simp only [Spec.Target, Op.target]
    cases hg : w.get h with
    | none => exact dead h _ _ hg (by simp [step, hg])
    | some r =>
      obtain ⟨t, _, ht⟩ := good_of_wf hw hg
      simp only [Spec.onLive, ht, Spec.extended]
      rcases extendChars_refines (rf := rf) hw ht hint items hv with ⟨ho, htx⟩ | ⟨ho, k, hk, htx⟩
      · left; exact ⟨htx, ho⟩
      · right; exact ⟨ho, k, hk, htx⟩
  | extendStrs h items =>
    simp only [Spec.Target, Op.target]
    cases hg : w.get h with
    | none => exact dead h _ _ hg (by simp [step, hg])
    | some r =>
      obtain ⟨t, _, ht⟩ := good_of_wf hw hg
      simp only [Spec.onLive, ht, Spec.extended]
      rcases extendStrs_refines (rf := rf) hw ht items hv with ⟨ho, htx⟩ | ⟨ho, k, hk, htx⟩
      · left; exact ⟨htx, ho⟩
      · right; exact ⟨ho, k, hk, htx⟩
  | _ => exact hop.elim


/-- `write!(buf, "{}", x)`: the pieces written before the impl ends, and how it ends -/
theorem displayLoop_text {ocf base st} (rf : Refuse) : ∀ (pieces : List Piece) (hp : Heap) (r : Handle) (t : Bytes),
    Good ocf base st hp r t → (∀ s, Piece.text s ∈ pieces → Valid s) →
    (displayLoop rf st hp r pieces).Sat
      (fun b hp' r' => (b = true ∧ Good ocf base st hp' r' (t ++ (Spec.shown pieces).flatten) ∧ Spec.ending pieces = .ok .unit) ∨
                       (b = false ∧ (∃ t', Good ocf base st hp' r' t') ∧ Spec.ending pieces = .errFmt))
      (fun hp' r' => ∃ t', Good ocf base st hp' r' t')
      Never
      (fun hp' r' => (∃ t', Good ocf base st hp' r' t') ∧ Spec.ending pieces = .panicCb) := by
  intro pieces
  induction pieces with
  | nil => intro hp r t g _; dsimp only [displayLoop, Res.Sat, Spec.shown, Spec.ending]; left; exact ⟨rfl, by simpa using g, rfl⟩
  | cons it rest ih =>
    intro hp r t g hv
    cases it with
    | fail => dsimp only [displayLoop, Res.Sat, Spec.ending]; right; exact ⟨rfl, ⟨t, g⟩, rfl⟩
    | panic => dsimp only [displayLoop, Res.Sat, Spec.ending]; exact ⟨⟨t, g⟩, rfl⟩
    | text s =>
      have hs := pushStr_sat g rf s (hv s (List.mem_cons_self ..))
      simp only [displayLoop]
      revert hs
      cases pushStr rf st hp r s with
      | ok v hp1 r1 =>
        intro g1
        have := ih hp1 r1 (Spec.push_str t s) g1 (fun s' hs' => hv s' (List.mem_cons_of_mem _ hs'))
        revert this
        simp only [Spec.push_str, Spec.shown, Spec.ending, List.flatten_cons]
        cases displayLoop rf st hp1 r1 rest with
        | ok v2 hp2 r2 =>
          intro h2
          rcases h2 with ⟨hb, g2, he⟩ | ⟨hb, g2, he⟩
          · left; exact ⟨hb, by simpa [List.append_assoc] using g2, he⟩
          · right; exact ⟨hb, g2, he⟩
        | err hp2 r2 => intro h2; exact h2
        | pidx hp2 r2 => intro hf; exact hf.elim
        | pcb hp2 r2 => intro h2; exact h2
        | ub u => intro hf; exact hf.elim
      | err hp1 r1 => intro hu; exact ⟨t, unchanged_good g hu⟩
      | pidx hp1 r1 => intro hf; exact hf.elim
      | pcb hp1 r1 => intro hf; exact hf.elim
      | ub u => intro hf; exact hf.elim

/-- a temporary that is not kept: its storage is released and the slot stays empty -/
theorem finishTemp_dropped {w : World} {d : Nat} {hp : Heap} {r : Handle} {t : Bytes}
    (g : Good (oc w d) w.heap w.statics hp r t) :
    ∃ hp', releaseRepr hp r = .ok hp' ∧ (w.put hp' d none).text d = none :=
  let ⟨hp', hrel, _, _⟩ := good_release_none g
  ⟨hp', hrel, text_put_none w hp' d⟩

/-- `collect` into the empty slot `d` from a fresh empty handle -/
theorem collected_of_loop (rf : Refuse) {w : World} {d : Nat} (items : List (Option Bytes))
    (hv : ∀ s, some s ∈ items → Valid s) (hp0 : Heap) (r0 : Handle)
    (g0 : Good (oc w d) w.heap w.statics hp0 r0 []) :
    Spec.collected items ((finishTemp w d (pushLoop rf w.statics hp0 r0 items)).1.text d)
      (finishTemp w d (pushLoop rf w.statics hp0 r0 items)).2 := by
  have hs := pushLoop_text rf items hp0 r0 [] g0 hv
  revert hs
  unfold Spec.collected
  cases pushLoop rf w.statics hp0 r0 items with
  | ok v hp1 r1 =>
    intro ⟨g1, hp⟩; left
    simp only [List.nil_append] at g1
    exact ⟨text_put_self g1, rfl, hp⟩
  | err hp1 r1 =>
    intro ⟨k, _, g1⟩; right; left
    obtain ⟨hp', hrel, htx⟩ := finishTemp_dropped g1
    dsimp only [finishTemp]; rw [hrel]; exact ⟨htx, rfl⟩
  | pidx hp1 r1 => intro hf; exact hf.elim
  | pcb hp1 r1 =>
    intro ⟨g1, hp⟩; right; right
    obtain ⟨hp', hrel, htx⟩ := finishTemp_dropped g1
    dsimp only [finishTemp]; rw [hrel]; exact ⟨htx, rfl, hp⟩
  | ub u => intro hf; exact hf.elim

/-- `collect` and `to_lean_string` through `Display` -/
theorem target_build (rf : Refuse) {w : World} (hw : Wf w) (op : Op) (hv : op.ArgsValid)
    (hop : match op with
      | .collectChars _ _ _ | .collectStrs _ _ | .display _ _ => True
      | _ => False) :
    Spec.Target w.statics w.text op ((step rf w op).1.text op.target) (step rf w op).2 := by
  cases op with
  | collectStrs d items =>
    simp only [Spec.Target, Op.target]
    cases hd : w.get d with
    | some r =>
      have : (step rf w (.collectStrs d items)) = (w, .bad) := by simp [step, hd]
      rw [this]; exact fresh_taken (by rw [text_isSome hw, hd]; rfl) rfl rfl
    | none =>
      apply fresh_free (text_eq_none hd)
      simp only [step, hd, Option.isSome_none, Bool.false_eq_true, if_false]
      exact collected_of_loop rf items hv w.heap _ (good_inline_fresh (linv_empty hw hd) [] valid_nil (by simp))
  | collectChars d hint items =>
    simp only [Spec.Target, Op.target]
    cases hd : w.get d with
    | some r =>
      have : (step rf w (.collectChars d hint items)) = (w, .bad) := by simp [step, hd]
      rw [this]; exact fresh_taken (by rw [text_isSome hw, hd]; rfl) rfl rfl
    | none =>
      apply fresh_free (text_eq_none hd)
      simp only [step, hd, Option.isSome_none, Bool.false_eq_true, if_false]
      rcases withCapacity_fresh (st := w.statics) (linv_empty hw hd) rf hint with ⟨hp1, he, hs⟩ | ⟨hp1, r, he, g, _⟩
      · rw [he]
        simp only []
        have hl1 : LInv (oc w d) w.heap hp1 (fun _ => 0) := linv_congr hs (linv_empty hw hd)
        exact collected_of_loop rf items hv hp1 _ (good_inline_fresh hl1 [] valid_nil (by simp))
      · rw [he]
        exact collected_of_loop rf items hv hp1 r g
  | display d pieces =>
    simp only [Spec.Target, Op.target]
    cases hd : w.get d with
    | some r =>
      have : (step rf w (.display d pieces)) = (w, .bad) := by simp [step, hd]
      rw [this]; exact fresh_taken (by rw [text_isSome hw, hd]; rfl) rfl rfl
    | none =>
      apply fresh_free (text_eq_none hd)
      simp only [step, hd, Option.isSome_none, Bool.false_eq_true, if_false]
      have hs := displayLoop_text (st := w.statics) rf pieces w.heap (.inl inlEmpty) []
        (good_inline_fresh (linv_empty hw hd) [] valid_nil (by simp)) hv
      revert hs
      cases displayLoop rf w.statics w.heap (.inl inlEmpty) pieces with
      | ok v hp r =>
        intro h2
        rcases h2 with ⟨hb, g2, he⟩ | ⟨hb, ⟨t', g2⟩, he⟩
        · subst hb; left
          simp only [List.nil_append] at g2
          exact ⟨text_put_self g2, rfl, he⟩
        · subst hb; right; left
          obtain ⟨hp', hrel, htx⟩ := finishTemp_dropped g2
          dsimp only; rw [hrel, he]; exact ⟨htx, rfl, by simp⟩
      | err hp r =>
        intro ⟨t', g2⟩; right; right
        obtain ⟨hp', hrel, htx⟩ := finishTemp_dropped g2
        dsimp only [finishTemp]; rw [hrel]; exact ⟨htx, rfl⟩
      | pcb hp r =>
        intro ⟨⟨t', g2⟩, he⟩; right; left
        obtain ⟨hp', hrel, htx⟩ := finishTemp_dropped g2
        dsimp only [finishTemp]; rw [hrel, he]; exact ⟨htx, rfl, by simp⟩
      | pidx hp r => intro hf; exact hf.elim
      | ub u => intro hf; exact hf.elim
  | _ => exact hop.elim


theorem lossyPushes_consumed (b : Bytes) :
    (consumed (lossyPushes b)).flatten = lossyText b ∧ panics (lossyPushes b) = false := by
  have hn := C16.lossyPushes_no_panic b
  exact ⟨by rw [consumed_of_no_none _ hn]; exact C16.lossyPushes_concat b, panics_false_of_no_none _ hn⟩

theorem lossy16_consumed (u : List Nat) :
    (consumed (lossy16 u)).flatten = lossy16Text u ∧ panics (lossy16 u) = false := by
  have hmap : lossy16 u = ((decodeUtf16 u).map fun o => o.getD replacement).map some := by
    unfold lossy16
    rw [List.map_map]
    apply List.map_congr_left
    intro o _
    cases o <;> rfl
  rw [hmap, consumed_map_some, panics_map_some]
  exact ⟨rfl, rfl⟩

theorem enc_eq_flatten_map (cs : List Char) : (cs.map String.utf8EncodeChar).flatten = enc cs := by
  simp [enc, List.flatMap]

theorem decode_encode_consumed (cs : List Char) :
    (consumed (decodeUtf16 (encodeUtf16 cs))).flatten = enc cs ∧ panics (decodeUtf16 (encodeUtf16 cs)) = false := by
  have : decodeUtf16 (encodeUtf16 cs) = (cs.map String.utf8EncodeChar).map some := by
    rw [decodeUtf16_encode, List.map_map]; rfl
  rw [this, consumed_map_some, panics_map_some]
  exact ⟨enc_eq_flatten_map cs, rfl⟩

/-- `to_lean_string` on integers and `bool`, and the decoding constructors -/
theorem target_decode (rf : Refuse) {w : World} (hw : Wf w) (op : Op) (hv : op.ArgsValid)
    (hop : match op with
      | .fromInt _ _ _ | .fromBool _ _ | .fromUtf8 _ _ | .fromUtf8Lossy _ _ | .fromUtf16 _ _ | .fromUtf16Lossy _ _ => True
      | _ => False) :
    Spec.Target w.statics w.text op ((step rf w op).1.text op.target) (step rf w op).2 := by
  cases op with
  | fromInt d ty n =>
    simp only [Spec.Target, Op.target]
    cases hd : w.get d with
    | some r =>
      have : (step rf w (.fromInt d ty n)) = (w, .bad) := by simp [step, hd]
      rw [this]; exact fresh_taken (by rw [text_isSome hw, hd]; rfl) rfl rfl
    | none =>
      apply fresh_free (text_eq_none hd)
      simp only [step, hd, Option.isSome_none, Bool.false_eq_true, if_false]
      rcases C14.intToReprTy_text (st := w.statics) (linv_empty hw hd) rf ty n hv.1 hv.2 with ⟨hp1, he, hs⟩ | ⟨hp1, r, he, g⟩
      · rw [he]; right; exact ⟨text_heap_only d hd, rfl⟩
      · rw [he]; left; exact ⟨text_put_self g, rfl⟩
  | fromBool d b =>
    simp only [Spec.Target, Op.target]
    cases hd : w.get d with
    | some r =>
      have : (step rf w (.fromBool d b)) = (w, .bad) := by simp [step, hd]
      rw [this]; exact fresh_taken (by rw [text_isSome hw, hd]; rfl) rfl rfl
    | none =>
      apply fresh_free (text_eq_none hd)
      simp only [step, hd, Option.isSome_none, Bool.false_eq_true, if_false]
      exact ⟨text_put_self (good_inline_fresh (linv_empty hw hd) (boolText b) (boolText_valid b)
        (by cases b <;> simp [boolText])), by first | rfl | trivial⟩
  | fromUtf8 d b =>
    simp only [Spec.Target, Op.target]
    cases hd : w.get d with
    | some r =>
      have : (step rf w (.fromUtf8 d b)) = (w, .bad) := by simp [step, hd]
      rw [this]; exact fresh_taken (by rw [text_isSome hw, hd]; rfl) rfl rfl
    | none =>
      apply fresh_free (text_eq_none hd)
      simp only [step, hd, Option.isSome_none, Bool.false_eq_true, if_false]
      by_cases hvb : validUtf8 b = true
      · have hval := (validUtf8_iff b).1 hvb
        rw [if_pos hvb]
        refine ⟨fun _ => ?_, fun hn => absurd hval hn⟩
        rcases fromStr_fresh (st := w.statics) (linv_empty hw hd) rf b hval with ⟨hp1, he, hs⟩ | ⟨hp1, r, he, g⟩
        · rw [he]; right; exact ⟨text_heap_only d hd, rfl⟩
        · rw [he]; left; exact ⟨text_put_self g, rfl⟩
      · rw [if_neg hvb]
        exact ⟨fun hval => absurd ((validUtf8_iff b).2 hval) hvb, fun _ => ⟨text_eq_none hd, rfl⟩⟩
  | fromUtf8Lossy d b =>
    simp only [Spec.Target, Op.target]
    cases hd : w.get d with
    | some r =>
      have : (step rf w (.fromUtf8Lossy d b)) = (w, .bad) := by simp [step, hd]
      rw [this]; exact fresh_taken (by rw [text_isSome hw, hd]; rfl) rfl rfl
    | none =>
      apply fresh_free (text_eq_none hd)
      simp only [step, hd, Option.isSome_none, Bool.false_eq_true, if_false]
      rcases withCapacity_fresh (st := w.statics) (linv_empty hw hd) rf b.length with ⟨hp1, he, hs⟩ | ⟨hp1, r, he, g, _⟩
      · rw [he]; right; exact ⟨text_heap_only d hd, rfl⟩
      · rw [he]
        have hc := collected_of_loop rf (lossyPushes b) (lossyPushes_valid b) hp1 r g
        obtain ⟨hfl, hnp⟩ := lossyPushes_consumed b
        rcases hc with ⟨h1, h2, _⟩ | ⟨h1, h2⟩ | ⟨_, _, h3⟩
        · left; exact ⟨by rw [h1, hfl], h2⟩
        · right; exact ⟨h1, h2⟩
        · rw [hnp] at h3; cases h3
  | fromUtf16 d u =>
    simp only [Spec.Target, Op.target]
    cases hd : w.get d with
    | some r =>
      have : (step rf w (.fromUtf16 d u)) = (w, .bad) := by simp [step, hd]
      rw [this]; exact fresh_taken (by rw [text_isSome hw, hd]; rfl) rfl rfl
    | none =>
      apply fresh_free (text_eq_none hd)
      simp only [step, hd, Option.isSome_none, Bool.false_eq_true, if_false]
      rcases withCapacity_fresh (st := w.statics) (linv_empty hw hd) rf u.length with ⟨hp1, he, hs⟩ | ⟨hp1, r, he, g, _⟩
      · rw [he]
        exact ⟨fun _ _ => .inr ⟨text_heap_only d hd, rfl⟩, fun _ => ⟨text_heap_only d hd, .inr rfl⟩⟩
      · rw [he]
        dsimp only
        have hs := pushLoop_text rf (decodeUtf16 u) hp1 r [] g (decodeUtf16_valid u)
        revert hs
        cases pushLoop rf w.statics hp1 r (decodeUtf16 u) with
        | ok v2 hp2 r2 =>
          intro ⟨g2, hnp⟩
          simp only [List.nil_append] at g2
          refine ⟨fun cs hcs => .inl ⟨?_, rfl⟩, fun hno => ?_⟩
          · subst hcs
            have := (decode_encode_consumed cs).1
            show (w.put hp2 d (some r2)).text d = _
            rw [text_put_self g2, this]
          · exfalso
            apply hno
            apply decodeUtf16_accepts u hv
            intro x hx hxn
            subst hxn
            rw [panics_true_of_none _ hx] at hnp
            cases hnp
        | err hp2 r2 =>
          intro ⟨k, _, g2⟩
          obtain ⟨hp', hrel, htx⟩ := finishTemp_dropped g2
          have : finishUtf16 w d (.err hp2 r2) = (w.put hp' d none, .panicAlloc) := by
            simp only [finishUtf16, finishTemp, hrel]
          rw [this]
          exact ⟨fun _ _ => .inr ⟨htx, rfl⟩, fun _ => ⟨htx, .inr rfl⟩⟩
        | pidx hp2 r2 => intro hf; exact hf.elim
        | pcb hp2 r2 =>
          intro ⟨g2, hpn⟩
          obtain ⟨hp', hrel, htx⟩ := finishTemp_dropped g2
          have : finishUtf16 w d (.pcb hp2 r2) = (w.put hp' d none, .errUtf16) := by
            simp only [finishUtf16, hrel]
          rw [this]
          refine ⟨fun cs hcs => ?_, fun _ => ⟨htx, .inl rfl⟩⟩
          subst hcs
          rw [(decode_encode_consumed cs).2] at hpn
          cases hpn
        | ub e => intro hf; exact hf.elim
  | fromUtf16Lossy d u =>
    simp only [Spec.Target, Op.target]
    cases hd : w.get d with
    | some r =>
      have : (step rf w (.fromUtf16Lossy d u)) = (w, .bad) := by simp [step, hd]
      rw [this]; exact fresh_taken (by rw [text_isSome hw, hd]; rfl) rfl rfl
    | none =>
      apply fresh_free (text_eq_none hd)
      simp only [step, hd, Option.isSome_none, Bool.false_eq_true, if_false]
      obtain ⟨hfl, hnp⟩ := lossy16_consumed u
      have fin : ∀ hp0 r0, Good (oc w d) w.heap w.statics hp0 r0 [] →
          (((finishTemp w d (pushLoop rf w.statics hp0 r0 (lossy16 u))).1.text d = some (lossy16Text u) ∧
            (finishTemp w d (pushLoop rf w.statics hp0 r0 (lossy16 u))).2 = .ok .unit) ∨
           ((finishTemp w d (pushLoop rf w.statics hp0 r0 (lossy16 u))).1.text d = none ∧
            (finishTemp w d (pushLoop rf w.statics hp0 r0 (lossy16 u))).2 = .panicAlloc)) := by
        intro hp0 r0 g0
        rcases collected_of_loop rf (lossy16 u) (lossy16_valid u) hp0 r0 g0 with ⟨h1, h2, _⟩ | ⟨h1, h2⟩ | ⟨_, _, h3⟩
        · left; exact ⟨by rw [h1, hfl], h2⟩
        · right; exact ⟨h1, h2⟩
        · rw [hnp] at h3; cases h3
      rcases withCapacity_fresh (st := w.statics) (linv_empty hw hd) rf (utf16Hint u) with ⟨hp1, he, hs⟩ | ⟨hp1, r, he, g, _⟩
      · rw [he]
        simp only []
        have hl1 : LInv (oc w d) w.heap hp1 (fun _ => 0) := linv_congr hs (linv_empty hw hd)
        exact fin hp1 _ (good_inline_fresh hl1 [] valid_nil (by simp))
      · rw [he]
        exact fin hp1 r g
  | _ => exact hop.elim


theorem step_target (rf : Refuse) {w : World} (hw : Wf w) (op : Op) (hv : op.ArgsValid) :
    Spec.Target w.statics w.text op ((step rf w op).1.text op.target) (step rf w op).2 := by
  cases op with
  | new d => exact target_ctor rf hw _ hv trivial
  | fromStr d t plain => exact target_ctor rf hw _ hv trivial
  | fromStatic d sid => exact target_ctor rf hw _ hv trivial
  | withCapacity d n plain => exact target_ctor rf hw _ hv trivial
  | fromChar d c => exact target_ctor rf hw _ hv trivial
  | clone d s => exact target_ctor rf hw _ hv trivial
  | cloneFrom d s => exact target_ctor rf hw _ hv trivial
  | drop h => exact target_ctor rf hw _ hv trivial
  | pushStr h s plain => exact target_method rf hw _ hv trivial
  | pop h plain => exact target_method rf hw _ hv trivial
  | remove h i plain => exact target_method rf hw _ hv trivial
  | insertStr h i s plain => exact target_method rf hw _ hv trivial
  | truncate h n plain => exact target_method rf hw _ hv trivial
  | clear h => exact target_method rf hw _ hv trivial
  | retain h answers plain => exact target_method rf hw _ hv trivial
  | reserve h n plain => exact target_method rf hw _ hv trivial
  | shrinkTo h n plain => exact target_method rf hw _ hv trivial
  | extendChars h hint items => exact target_method rf hw _ hv trivial
  | extendStrs h items => exact target_method rf hw _ hv trivial
  | collectChars d hint items => exact target_build rf hw _ hv trivial
  | collectStrs d items => exact target_build rf hw _ hv trivial
  | display d pieces => exact target_build rf hw _ hv trivial
  | fromInt d ty n => exact target_decode rf hw _ hv trivial
  | fromBool d b => exact target_decode rf hw _ hv trivial
  | fromUtf8 d b => exact target_decode rf hw _ hv trivial
  | fromUtf8Lossy d b => exact target_decode rf hw _ hv trivial
  | fromUtf16 d u => exact target_decode rf hw _ hv trivial
  | fromUtf16Lossy d u => exact target_decode rf hw _ hv trivial

/-- **one call refines one `String`-level step**: for every well-formed world, every operation with
valid arguments and every allocator, the target handle changes as `String` allows and every other
handle reads what it read; the world stays well-formed and no model alarm is raised -/
theorem step_refines (rf : Refuse) {w : World} (hw : Wf w) (op : Op) (hv : op.ArgsValid) :
    Spec.Step w.statics w.text op (step rf w op).1.text (step rf w op).2 ∧ Wf (step rf w op).1 ∧
    ∀ u, (step rf w op).2 ≠ .ub u :=
  let hp := step_post rf hw op hv
  ⟨⟨step_target rf hw op hv, fun h' hne => (hp.2.2 h' hne).2⟩, hp.1, hp.2.1⟩

theorem step_statics (rf : Refuse) (w : World) (op : Op) : (step rf w op).1.statics = w.statics := by
  have put_st : ∀ (hp : Heap) (h : Nat) (v : Option Handle), (w.put hp h v).statics = w.statics := fun _ _ _ => rfl
  have fin : ∀ {α : Type} (h : Nat) (plain : Bool) (val : α → Val) (res : Res α), (finish w h plain val res).1.statics = w.statics := by
    intro α h plain val res; cases res <;> rfl
  have fint : ∀ (d : Nat) (res : Res Unit), (finishTemp w d res).1.statics = w.statics := by
    intro d res
    cases res with
    | ok v hp r => rfl
    | err hp r => simp only [finishTemp]; cases releaseRepr hp r <;> rfl
    | pidx hp r => simp only [finishTemp]; cases releaseRepr hp r <;> rfl
    | pcb hp r => simp only [finishTemp]; cases releaseRepr hp r <;> rfl
    | ub u => rfl
  have finu : ∀ (d : Nat) (res : Res Unit), (finishUtf16 w d res).1.statics = w.statics := by
    intro d res
    cases res with
    | pcb hp r => simp only [finishUtf16]; cases releaseRepr hp r <;> rfl
    | ok v hp r => exact fint d _
    | err hp r => exact fint d _
    | pidx hp r => exact fint d _
    | ub u => exact fint d _
  cases op <;> simp only [step] <;> repeat' (first | rfl | exact fin _ _ _ _ | exact fint _ _ | exact finu _ _ | split)

/-- the outputs of a history -/
def outs (rf : Refuse) (w : World) : List Op → List Out
  | [] => []
  | op :: ops => (step rf w op).2 :: outs rf (step rf w op).1 ops

namespace Spec
/-- a history of abstract steps from `T` to `T'` producing `os` -/
inductive Run (st : List Bytes) : Texts → List Op → Texts → List Out → Prop
  | nil (T : Texts) : Run st T [] T []
  | cons {T T1 T2 : Texts} {op : Op} {ops : List Op} {out : Out} {os : List Out} :
      Step st T op T1 out → Run st T1 ops T2 os → Run st T (op :: ops) T2 (out :: os)
end Spec

/-- **every history refines `String`**: from any well-formed world (in particular the empty one),
for every finite sequence of public calls with valid arguments, on any number of handles, under
every allocator, the texts read through the handles and the values returned are those of a run of
the `String`-level specification; no model alarm (use after free, double free, out-of-bounds,
invalid UTF-8 exposure) is raised anywhere along it -/
theorem run_refines (rf : Refuse) (ops : List Op) : ∀ (w : World), Wf w → (∀ op ∈ ops, op.ArgsValid) →
    Spec.Run w.statics w.text ops (run rf w ops).text (outs rf w ops) ∧ Wf (run rf w ops) ∧
    ∀ u, Out.ub u ∉ outs rf w ops := by
  induction ops with
  | nil => intro w hw _; exact ⟨Spec.Run.nil _, hw, fun u h => by cases h⟩
  | cons op ops ih =>
    intro w hw hv
    obtain ⟨hstep, hw1, hnub⟩ := step_refines rf hw op (hv op (List.mem_cons_self ..))
    obtain ⟨hrun, hw2, hno⟩ := ih (step rf w op).1 hw1 (fun o ho => hv o (List.mem_cons_of_mem _ ho))
    rw [step_statics] at hrun
    refine ⟨Spec.Run.cons hstep hrun, hw2, ?_⟩
    intro u hm
    simp only [outs, List.mem_cons] at hm
    rcases hm with h | h
    · exact hnub u h.symm
    · exact hno u h

end LS
