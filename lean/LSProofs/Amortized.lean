import LSProofs.Growth
import LSProofs.Props.C11
import LSProofs.IntText
/-!
# C12 at the level of operations: every growth event lands on the amortised size, and single-byte
pushes cost logarithmically many reallocations
-/
namespace LS.C12
open LS

/-- the allocator that never refuses -/
def never : Refuse := fun _ _ => false

/-- **growth events** (`push`, `push_str`, `insert`, `insert_str`, `reserve`, `extend` all grow through
`reserve`): see `reserve_growth_exact` — shared copy, static→heap, inline→heap and in-place
reallocation all end on `amortized_growth(len, additional)`, and that value is at least
`len + len/2` and at most `max(len + len/2, len + additional)` -/
theorem growth_event {ocf base st hp r t} (g : Good ocf base st hp r t) (rf : Refuse) (add : Nat)
    (hp' : Heap) (r' : Handle) (h : reserve rf st hp r add = .ok () hp' r') (hbig : 16 < t.length + add)
    (hgrow : ¬ (Unique hp r ∧ t.length + add ≤ capOf hp r)) (hl : t.length ≤ MAX_LEN) (ha : t.length + add < 2 ^ 64) :
    t.length + t.length / 2 ≤ capOf hp' r' ∧ t.length + add ≤ capOf hp' r' ∧
    capOf hp' r' ≤ max (t.length + t.length / 2) (t.length + add) := by
  obtain ⟨a', _, hc⟩ := reserve_growth_exact g rf add hp' r' h hbig hgrow
  rw [hc]
  exact ⟨growth_ge_one_and_a_half _ _ hl, growth_ge_need _ _ ha, growth_le_max _ _ hl ha⟩

/-- one `push_str` on an exclusively owned heap string, allocator willing: either it fits (no
request, same capacity) or it costs exactly one request and the capacity becomes the amortised size -/
theorem push_unique_heap {ocf base st hp r t} (g : Good ocf base st hp r t) (hu : Unique hp r) (hcap : 16 < capOf hp r)
    (s : Bytes) (hs : Valid s) (hne : s ≠ []) (hsmall : 2 * (t.length + s.length) ≤ MAX_LEN) :
    ∃ hp1 r1, pushStr never st hp r s = .ok () hp1 r1 ∧ Good ocf base st hp1 r1 (t ++ s) ∧ Unique hp1 r1 ∧
      ((t.length + s.length ≤ capOf hp r ∧ hp1.reqs = hp.reqs ∧ capOf hp1 r1 = capOf hp r) ∨
       (capOf hp r < t.length + s.length ∧ hp1.reqs = hp.reqs + 1 ∧
        capOf hp1 r1 = Gen.amortizedGrowth t.length s.length)) := by
  have hML := Tie.maxLen_eq
  have hlen := good_len g
  have hemp : s.isEmpty = false := by cases s <;> simp at hne ⊢
  have hvalid : Valid (t.take t.length ++ s) := by rw [List.take_length]; exact valid_append g.valid hs
  by_cases hfit : t.length + s.length ≤ capOf hp r
  · have hres := C11.reserve_within_capacity never st hp r s.length hu (by rw [hlen]; exact hfit) (by rw [hlen]; omega)
    obtain ⟨hp2, r2, hwr, g2, hu2, hcap2, hq, _, _, _⟩ := good_write g hu t.length s (Nat.le_refl _) hfit hvalid
    rw [List.take_length] at g2
    refine ⟨hp2, r2, ?_, g2, hu2, Or.inl ⟨hfit, hq, hcap2⟩⟩
    unfold pushStr
    simp only [hemp, Bool.false_eq_true, if_false, hres, hlen]
    exact hwr
  · cases r with
    | inl raw => simp [capOf] at hcap
    | stat s' l => exact absurd hu (by simp [Unique])
    | heap a l =>
      obtain ⟨b, hb, hlc, htk, htl, hdl, hrc, hcm⟩ := good_text_heap g
      obtain ⟨b', hb', hrc1⟩ := hu
      rw [hb] at hb'; injection hb' with hb'; subst hb'
      have hcapb : capOf hp (.heap a l) = b.cap := by simp [capOf, hb]
      rw [hcapb] at hfit
      have hadd : t.length + s.length < 2 ^ 64 := by omega
      have ⟨hg1, hg2⟩ := growth_bounds t.length s.length hadd
      have hgm := growth_le_max t.length s.length (by omega) hadd
      have hnew : Gen.amortizedGrowth t.length s.length ≤ MAX_LEN := by omega
      rcases good_realloc g b hb hrc1 never (Gen.amortizedGrowth t.length s.length) (by omega) with
        ⟨hp1, her, _, hq⟩ | ⟨hp2, he, g2, hg, _, hq2, _, _⟩
      · -- the never-refusing allocator does not refuse
        exfalso
        have hre : hp.realloc never a (Gen.amortizedGrowth t.length s.length) ≠ .refused hp1 := by
          obtain ⟨_, _, _, _, k5⟩ := g.inv.blocks a b hb
          unfold Heap.realloc
          simp only [hb, hrc1]
          have hck : capOk (Gen.amortizedGrowth t.length s.length) = true := (capOk_iff _).2 hnew
          simp [hck, k5, never]
        exact hre her
      · have hres : reserve never st hp (.heap a l) s.length = .ok () hp2 (.heap hp.slots.length l) := by
          have hca : checkedAdd t.length s.length = some (t.length + s.length) := by
            unfold checkedAdd USIZE; rw [if_pos (by omega)]
          unfold reserve
          simp only [hlen, hca, hb, hrc1, if_true]
          rw [if_neg (by omega), he]
        have hu2 : Unique hp2 (.heap hp.slots.length l) := ⟨_, hg, rfl⟩
        have hc2 : capOf hp2 (.heap hp.slots.length l) = Gen.amortizedGrowth t.length s.length := by simp [capOf, hg]
        obtain ⟨hp3, r3, hwr, g3, hu3, hcap3, hq3, _, _, _⟩ :=
          good_write g2 hu2 t.length s (Nat.le_refl _) (by rw [hc2]; omega) hvalid
        rw [List.take_length] at g3
        refine ⟨hp3, r3, ?_, g3, hu3, Or.inr ⟨by rw [hcapb]; omega, by rw [hq3, hq2], by rw [hcap3, hc2]⟩⟩
        unfold pushStr
        simp only [hemp, Bool.false_eq_true, if_false, hres, hlen]
        exact hwr

/-- one ASCII byte is a valid text -/
theorem valid_byte (b : UInt8) (hb : b.toNat < 0x80) : Valid [b] :=
  valid_ascii [b] (fun x hx => by simp only [List.mem_singleton] at hx; subst hx; exact hb)

/-- **n single-character pushes cost O(log n) reallocations.** Pushing the ASCII bytes `bs` one by
one onto an exclusively owned heap string of capacity `c₀` (allocator willing, sizes far from the
56-bit limit) succeeds, the text is `t ++ bs`, and the number `q` of allocator requests made and
the final capacity `c` satisfy `3^q · (c₀ − 1) ≤ 2^q · (c − 1)` and `c ≤ max c₀ (3·len/2)` — the
capacity grows by at least 3/2 per request and never beyond 3/2 of the final length, hence
`q ≤ log_{3/2} (max c₀ (3·len/2) / (c₀ − 1))` -/
theorem ascii_pushes_log {ocf base st} : ∀ (bs : List UInt8) (hp : Heap) (r : Handle) (t : Bytes),
    Good ocf base st hp r t → Unique hp r → 16 < capOf hp r → (∀ b ∈ bs, b.toNat < 0x80) →
    2 * (t.length + bs.length) ≤ MAX_LEN →
    ∃ hp' r', pushLoop never st hp r (bs.map (fun b => some [b])) = .ok () hp' r' ∧
      Good ocf base st hp' r' (t ++ bs) ∧ Unique hp' r' ∧ hp.reqs ≤ hp'.reqs ∧ capOf hp r ≤ capOf hp' r' ∧
      3 ^ (hp'.reqs - hp.reqs) * (capOf hp r - 1) ≤ 2 ^ (hp'.reqs - hp.reqs) * (capOf hp' r' - 1) ∧
      capOf hp' r' ≤ max (capOf hp r) (3 * (t.length + bs.length) / 2) := by
  intro bs
  induction bs with
  | nil =>
    intro hp r t g hu hcap _ _
    refine ⟨hp, r, rfl, by simpa using g, hu, Nat.le_refl _, Nat.le_refl _, by simp, by omega⟩
  | cons b bs ih =>
    intro hp r t g hu hcap hasc hsmall
    have hML := Tie.maxLen_eq
    simp only [List.length_cons] at hsmall
    obtain ⟨hp1, r1, hpush, g1, hu1, hcase⟩ := push_unique_heap g hu hcap [b]
      (valid_byte b (hasc b (List.mem_cons_self ..))) (by simp) (by simp only [List.length_singleton]; omega)
    have hlen_le : t.length ≤ capOf hp r := good_len_le_cap g
    -- the capacity after the first push, and what it cost
    have hstep : hp.reqs ≤ hp1.reqs ∧ capOf hp r ≤ capOf hp1 r1 ∧ 16 < capOf hp1 r1 ∧
        ((hp1.reqs = hp.reqs ∧ capOf hp1 r1 = capOf hp r) ∨
         (hp1.reqs = hp.reqs + 1 ∧ 3 * (capOf hp r - 1) ≤ 2 * (capOf hp1 r1 - 1) ∧
          capOf hp1 r1 ≤ 3 * (t.length + 1) / 2)) := by
      rcases hcase with ⟨_, hq, hc⟩ | ⟨hlt, hq, hc⟩
      · exact ⟨by omega, by omega, by omega, Or.inl ⟨hq, hc⟩⟩
      · simp only [List.length_singleton] at hlt hc
        have hfull : t.length = capOf hp r := by omega
        have hge := growth_ge_one_and_a_half t.length 1 (by omega)
        have heq := growth_eq t.length 1 (by omega) (by omega)
        refine ⟨by omega, by omega, by omega, Or.inr ⟨hq, by omega, by omega⟩⟩
    obtain ⟨hq1, hc1, hcap1, hcost⟩ := hstep
    have hsmall1 : 2 * ((t ++ [b]).length + bs.length) ≤ MAX_LEN := by simp; omega
    obtain ⟨hp', r', hloop, g', hu', hq', hc', hpow, hupper⟩ :=
      ih hp1 r1 (t ++ [b]) g1 hu1 hcap1 (fun x hx => hasc x (List.mem_cons_of_mem _ hx)) hsmall1
    refine ⟨hp', r', ?_, by simpa using g', hu', by omega, by omega, ?_, ?_⟩
    · simp only [List.map_cons, pushLoop, hpush]; exact hloop
    · rcases hcost with ⟨hq0, hc0⟩ | ⟨hq0, h32, _⟩
      · rw [hq0, hc0] at hpow; exact hpow
      · -- one request more: 3^(q+1)·(c₀−1) = 3^q·3(c₀−1) ≤ 3^q·2(c₁−1) ≤ 2·2^q·(c−1)
        have hqq : hp'.reqs - hp.reqs = (hp'.reqs - hp1.reqs) + 1 := by omega
        rw [hqq, Nat.pow_succ, Nat.pow_succ]
        calc 3 ^ (hp'.reqs - hp1.reqs) * 3 * (capOf hp r - 1)
            = 3 ^ (hp'.reqs - hp1.reqs) * (3 * (capOf hp r - 1)) := by rw [Nat.mul_assoc]
          _ ≤ 3 ^ (hp'.reqs - hp1.reqs) * (2 * (capOf hp1 r1 - 1)) := Nat.mul_le_mul_left _ h32
          _ = 2 * (3 ^ (hp'.reqs - hp1.reqs) * (capOf hp1 r1 - 1)) := by
                rw [← Nat.mul_assoc, Nat.mul_comm _ 2, Nat.mul_assoc]
          _ ≤ 2 * (2 ^ (hp'.reqs - hp1.reqs) * (capOf hp' r' - 1)) := Nat.mul_le_mul_left _ hpow
          _ = 2 ^ (hp'.reqs - hp1.reqs) * 2 * (capOf hp' r' - 1) := by
                rw [← Nat.mul_assoc, Nat.mul_comm 2 _]
    · simp only [List.length_append, List.length_cons, List.length_nil] at hupper ⊢
      rcases hcost with ⟨_, hc0⟩ | ⟨_, _, hup⟩ <;> omega

-- non-vacuity: pushing 40 bytes one by one onto a 17-byte heap string: 17 → 25 → 37 → 55 → 82, four requests
example :
    (match fromStr never {} (List.replicate 17 0x61) with
     | (some r, hp) => (match pushLoop never [] hp r ((List.replicate 40 (0x62 : UInt8)).map (fun b => some [b])) with
        | .ok _ hp' r' => some (hp'.reqs - hp.reqs, capOf hp' r')
        | _ => none)
     | _ => none) = some (4, 82) := by decide


/-- **n pushes of characters of any width (1–4 bytes) cost O(log n) reallocations.** Pushing the
characters `cs` (each a valid text of 1 to 4 bytes) one by one onto an exclusively owned heap string
of capacity `c₀ > 16` (allocator willing, sizes far from the 56-bit limit) succeeds, the text is
`t ++ cs.flatten`, and the number `q` of allocator requests and the final capacity `c` satisfy
`3^q · (c₀ − 10) ≤ 2^q · (c − 10)` and `c ≤ max c₀ (3·len/2)`: the capacity (less ten) grows by at
least 3/2 per request — a request happens only when fewer than four bytes are free — and never
exceeds 3/2 of the final length -/
theorem char_pushes_log {ocf base st} : ∀ (cs : List Bytes) (hp : Heap) (r : Handle) (t : Bytes),
    Good ocf base st hp r t → Unique hp r → 16 < capOf hp r →
    (∀ s ∈ cs, Valid s ∧ 1 ≤ s.length ∧ s.length ≤ 4) →
    2 * (t.length + cs.flatten.length) ≤ MAX_LEN →
    ∃ hp' r', pushLoop never st hp r (cs.map some) = .ok () hp' r' ∧
      Good ocf base st hp' r' (t ++ cs.flatten) ∧ Unique hp' r' ∧ hp.reqs ≤ hp'.reqs ∧ capOf hp r ≤ capOf hp' r' ∧
      3 ^ (hp'.reqs - hp.reqs) * (capOf hp r - 10) ≤ 2 ^ (hp'.reqs - hp.reqs) * (capOf hp' r' - 10) ∧
      capOf hp' r' ≤ max (capOf hp r) (3 * (t.length + cs.flatten.length) / 2) := by
  intro cs
  induction cs with
  | nil =>
    intro hp r t g hu hcap _ _
    refine ⟨hp, r, rfl, by simpa using g, hu, Nat.le_refl _, Nat.le_refl _, by simp, by omega⟩
  | cons s cs ih =>
    intro hp r t g hu hcap hch hsmall
    have hML := Tie.maxLen_eq
    obtain ⟨hsv, hs1, hs4⟩ := hch s (List.mem_cons_self ..)
    simp only [List.flatten_cons, List.length_append] at hsmall
    have hne : s ≠ [] := by intro h; rw [h] at hs1; simp at hs1
    obtain ⟨hp1, r1, hpush, g1, hu1, hcase⟩ := push_unique_heap g hu hcap s hsv hne (by omega)
    have hlen_le : t.length ≤ capOf hp r := good_len_le_cap g
    have hstep : hp.reqs ≤ hp1.reqs ∧ capOf hp r ≤ capOf hp1 r1 ∧ 16 < capOf hp1 r1 ∧
        ((hp1.reqs = hp.reqs ∧ capOf hp1 r1 = capOf hp r) ∨
         (hp1.reqs = hp.reqs + 1 ∧ 3 * (capOf hp r - 10) ≤ 2 * (capOf hp1 r1 - 10) ∧
          capOf hp1 r1 ≤ 3 * (t.length + s.length) / 2)) := by
      rcases hcase with ⟨_, hq, hc⟩ | ⟨hlt, hq, hc⟩
      · exact ⟨by omega, by omega, by omega, Or.inl ⟨hq, hc⟩⟩
      · have hge := growth_ge_one_and_a_half t.length s.length (by omega)
        have hnd := growth_ge_need t.length s.length (by omega)
        have heq := growth_eq t.length s.length (by omega) (by omega)
        refine ⟨by omega, by omega, by omega, Or.inr ⟨hq, by omega, by omega⟩⟩
    obtain ⟨hq1, hc1, hcap1, hcost⟩ := hstep
    have hsmall1 : 2 * ((t ++ s).length + cs.flatten.length) ≤ MAX_LEN := by simp only [List.length_append]; omega
    obtain ⟨hp', r', hloop, g', hu', hq', hc', hpow, hupper⟩ :=
      ih hp1 r1 (t ++ s) g1 hu1 hcap1 (fun x hx => hch x (List.mem_cons_of_mem _ hx)) hsmall1
    refine ⟨hp', r', ?_, by simpa [List.append_assoc] using g', hu', by omega, by omega, ?_, ?_⟩
    · simp only [List.map_cons, pushLoop, hpush]; exact hloop
    · rcases hcost with ⟨hq0, hc0⟩ | ⟨hq0, h32, _⟩
      · rw [hq0, hc0] at hpow; exact hpow
      · have hqq : hp'.reqs - hp.reqs = (hp'.reqs - hp1.reqs) + 1 := by omega
        rw [hqq, Nat.pow_succ, Nat.pow_succ]
        calc 3 ^ (hp'.reqs - hp1.reqs) * 3 * (capOf hp r - 10)
            = 3 ^ (hp'.reqs - hp1.reqs) * (3 * (capOf hp r - 10)) := by rw [Nat.mul_assoc]
          _ ≤ 3 ^ (hp'.reqs - hp1.reqs) * (2 * (capOf hp1 r1 - 10)) := Nat.mul_le_mul_left _ h32
          _ = 2 * (3 ^ (hp'.reqs - hp1.reqs) * (capOf hp1 r1 - 10)) := by
                rw [← Nat.mul_assoc, Nat.mul_comm _ 2, Nat.mul_assoc]
          _ ≤ 2 * (2 ^ (hp'.reqs - hp1.reqs) * (capOf hp' r' - 10)) := Nat.mul_le_mul_left _ hpow
          _ = 2 ^ (hp'.reqs - hp1.reqs) * 2 * (capOf hp' r' - 10) := by
                rw [← Nat.mul_assoc, Nat.mul_comm 2 _]
    · simp only [List.length_append, List.flatten_cons] at hupper ⊢
      rcases hcost with ⟨_, hc0⟩ | ⟨_, _, hup⟩ <;> omega

-- non-vacuity: 3-byte characters pushed onto a 17-byte heap string
example :
    (match fromStr never {} (List.replicate 17 0x61) with
     | (some r, hp) => (match pushLoop never [] hp r ((List.replicate 12 [0xE2, 0x82, 0xAC]).map some) with
        | .ok _ hp' r' => some (hp'.reqs - hp.reqs, capOf hp' r')
        | _ => none)
     | _ => none) = some (4, 70) := by decide


/-! ## O(n) copying -/

/-- bytes the allocator may have to move: the size of the old allocation at every successful `realloc` -/
def copied : List Ev → Nat
  | [] => 0
  | .realloc old _ :: rest => old + copied rest
  | _ :: rest => copied rest

/-- `push_unique_heap` with the event log: a push that fits leaves the log alone, a push that grows
appends exactly one `realloc` of the old allocation (`HEADER + capacity` bytes) -/
theorem push_unique_heap_log {ocf base st hp r t} (g : Good ocf base st hp r t) (hu : Unique hp r) (hcap : 16 < capOf hp r)
    (s : Bytes) (hs : Valid s) (hne : s ≠ []) (hsmall : 2 * (t.length + s.length) ≤ MAX_LEN) :
    ∃ hp1 r1, pushStr never st hp r s = .ok () hp1 r1 ∧ Good ocf base st hp1 r1 (t ++ s) ∧ Unique hp1 r1 ∧
      ((t.length + s.length ≤ capOf hp r ∧ hp1.reqs = hp.reqs ∧ capOf hp1 r1 = capOf hp r ∧ hp1.log = hp.log) ∨
       (capOf hp r < t.length + s.length ∧ hp1.reqs = hp.reqs + 1 ∧
        capOf hp1 r1 = Gen.amortizedGrowth t.length s.length ∧
        copied hp1.log = HEADER + capOf hp r + copied hp.log)) := by
  have hML := Tie.maxLen_eq
  have hlen := good_len g
  have hemp : s.isEmpty = false := by cases s <;> simp at hne ⊢
  have hvalid : Valid (t.take t.length ++ s) := by rw [List.take_length]; exact valid_append g.valid hs
  by_cases hfit : t.length + s.length ≤ capOf hp r
  · have hres := C11.reserve_within_capacity never st hp r s.length hu (by rw [hlen]; exact hfit) (by rw [hlen]; omega)
    obtain ⟨hp2, r2, hwr, g2, hu2, hcap2, hq, hlg, _, _⟩ := good_write g hu t.length s (Nat.le_refl _) hfit hvalid
    rw [List.take_length] at g2
    refine ⟨hp2, r2, ?_, g2, hu2, Or.inl ⟨hfit, hq, hcap2, hlg⟩⟩
    unfold pushStr
    simp only [hemp, Bool.false_eq_true, if_false, hres, hlen]
    exact hwr
  · cases r with
    | inl raw => simp [capOf] at hcap
    | stat s' l => exact absurd hu (by simp [Unique])
    | heap a l =>
      obtain ⟨b, hb, hlc, htk, htl, hdl, hrc, hcm⟩ := good_text_heap g
      obtain ⟨b', hb', hrc1⟩ := hu
      rw [hb] at hb'; injection hb' with hb'; subst hb'
      have hcapb : capOf hp (.heap a l) = b.cap := by simp [capOf, hb]
      rw [hcapb] at hfit
      have hadd : t.length + s.length < 2 ^ 64 := by omega
      have ⟨hg1, hg2⟩ := growth_bounds t.length s.length hadd
      have hgm := growth_le_max t.length s.length (by omega) hadd
      have hnew : Gen.amortizedGrowth t.length s.length ≤ MAX_LEN := by omega
      have hsize : b.size = HEADER + b.cap := (g.inv.blocks a b hb).2.2.2.2
      rcases good_realloc g b hb hrc1 never (Gen.amortizedGrowth t.length s.length) (by omega) with
        ⟨hp1, her, _, hq⟩ | ⟨hp2, he, g2, hg, _, hq2, _, hlog2⟩
      · exfalso
        have hre : hp.realloc never a (Gen.amortizedGrowth t.length s.length) ≠ .refused hp1 := by
          unfold Heap.realloc
          simp only [hb, hrc1]
          have hck : capOk (Gen.amortizedGrowth t.length s.length) = true := (capOk_iff _).2 hnew
          simp [hck, hsize, never]
        exact hre her
      · have hres : reserve never st hp (.heap a l) s.length = .ok () hp2 (.heap hp.slots.length l) := by
          have hca : checkedAdd t.length s.length = some (t.length + s.length) := by
            unfold checkedAdd USIZE; rw [if_pos (by omega)]
          unfold reserve
          simp only [hlen, hca, hb, hrc1, if_true]
          rw [if_neg (by omega), he]
        have hu2 : Unique hp2 (.heap hp.slots.length l) := ⟨_, hg, rfl⟩
        have hc2 : capOf hp2 (.heap hp.slots.length l) = Gen.amortizedGrowth t.length s.length := by simp [capOf, hg]
        obtain ⟨hp3, r3, hwr, g3, hu3, hcap3, hq3, hlg3, _, _⟩ :=
          good_write g2 hu2 t.length s (Nat.le_refl _) (by rw [hc2]; omega) hvalid
        rw [List.take_length] at g3
        refine ⟨hp3, r3, ?_, g3, hu3, Or.inr ⟨by rw [hcapb]; omega, by rw [hq3, hq2], by rw [hcap3, hc2], ?_⟩⟩
        · unfold pushStr
          simp only [hemp, Bool.false_eq_true, if_false, hres, hlen]
          exact hwr
        · rw [hlg3, hlog2, hcapb, hsize]; simp only [copied]


/-- **n single-character pushes cost O(n) copying.** Pushing the ASCII bytes `bs` one by one onto an exclusively
owned heap string (allocator willing): the bytes the allocator may have had to move — the sizes of the old
allocations at all the reallocations on the way — are at most `2·(c − c₀) + 17·q`, where `c₀`, `c` are the capacity
before and after and `q` the number of requests.  With `c ≤ max c₀ (3·len/2)` and `q` logarithmic
(`ascii_pushes_log`) that is at most about `3·len`: linear in the number of pushes. -/
theorem ascii_pushes_copy_linear {ocf base st} : ∀ (bs : List UInt8) (hp : Heap) (r : Handle) (t : Bytes),
    Good ocf base st hp r t → Unique hp r → 16 < capOf hp r → (∀ b ∈ bs, b.toNat < 0x80) →
    2 * (t.length + bs.length) ≤ MAX_LEN →
    ∃ hp' r', pushLoop never st hp r (bs.map (fun b => some [b])) = .ok () hp' r' ∧
      Good ocf base st hp' r' (t ++ bs) ∧ Unique hp' r' ∧ capOf hp r ≤ capOf hp' r' ∧ hp.reqs ≤ hp'.reqs ∧
      copied hp'.log + 2 * capOf hp r ≤ copied hp.log + 2 * capOf hp' r' + 17 * (hp'.reqs - hp.reqs) := by
  intro bs
  induction bs with
  | nil =>
    intro hp r t g hu hcap _ _
    exact ⟨hp, r, rfl, by simpa using g, hu, Nat.le_refl _, Nat.le_refl _, by omega⟩
  | cons b bs ih =>
    intro hp r t g hu hcap hasc hsmall
    have hML := Tie.maxLen_eq
    have hH := Tie.header_eq
    simp only [List.length_cons] at hsmall
    obtain ⟨hp1, r1, hpush, g1, hu1, hcase⟩ := push_unique_heap_log g hu hcap [b]
      (valid_byte b (hasc b (List.mem_cons_self ..))) (by simp) (by simp only [List.length_singleton]; omega)
    have hlen_le : t.length ≤ capOf hp r := good_len_le_cap g
    have hstep : hp.reqs ≤ hp1.reqs ∧ capOf hp r ≤ capOf hp1 r1 ∧ 16 < capOf hp1 r1 ∧
        copied hp1.log + 2 * capOf hp r ≤ copied hp.log + 2 * capOf hp1 r1 + 17 * (hp1.reqs - hp.reqs) := by
      rcases hcase with ⟨_, hq, hc, hl⟩ | ⟨hlt, hq, hc, hl⟩
      · rw [hl, hc, hq]; exact ⟨Nat.le_refl _, Nat.le_refl _, by omega, by omega⟩
      · simp only [List.length_singleton] at hlt hc
        have hfull : t.length = capOf hp r := by omega
        have hge := growth_ge_one_and_a_half t.length 1 (by omega)
        refine ⟨by omega, by omega, by omega, ?_⟩
        rw [hl, hq, hc, hH]; omega
    obtain ⟨hq1, hc1, hcap1, hcost⟩ := hstep
    have hsmall1 : 2 * ((t ++ [b]).length + bs.length) ≤ MAX_LEN := by simp; omega
    obtain ⟨hp', r', hloop, g', hu', hc', hq', hcost'⟩ :=
      ih hp1 r1 (t ++ [b]) g1 hu1 hcap1 (fun x hx => hasc x (List.mem_cons_of_mem _ hx)) hsmall1
    refine ⟨hp', r', ?_, by simpa using g', hu', by omega, by omega, by omega⟩
    simp only [List.map_cons, pushLoop, hpush]; exact hloop

-- non-vacuity: 40 pushes onto a 17-byte heap string: 17 → 25 → 37 → 55 → 82; the four old allocations
-- (16 + 17, 16 + 25, 16 + 37, 16 + 55 bytes) add up to 198 ≤ 2·(82 − 17) + 17·4 = 198
example :
    (match fromStr never {} (List.replicate 17 0x61) with
     | (some r, hp) => (match pushLoop never [] hp r ((List.replicate 40 (0x62 : UInt8)).map (fun b => some [b])) with
        | .ok _ hp' r' => some (copied hp'.log - copied hp.log, capOf hp' r', hp'.reqs - hp.reqs)
        | _ => none)
     | _ => none) = some (198, 82, 4) := by decide

end LS.C12
