import LSModel.ConcRAL
/-!
# The invariant of the reference-count protocol on the release/acquire view machine, with lending
-/
namespace LS.ConcRAL

def cnt (ts : List Thread) (a : Nat) : Nat := (ts.map (fun t => t.owned.count a)).sum

/-- phases that go through a handle the thread still owns -/
def Phase.needsHandle (p : Phase) (a : Nat) : Prop :=
  p = .unique a ∨ p = .copying a ∨ p = .copied a ∨ p = .reading a ∨ p = .lending a

structure Inv (c : Cfg) : Prop where
  nobad : c.bad = false
  count : ∀ a b, c.blocks[a]? = some b → b.live = true → b.top.val = cnt c.threads a
  owned_live : ∀ (i : Nat) (t : Thread), c.threads[i]? = some t → ∀ a ∈ t.owned, ∃ b, c.blocks[a]? = some b ∧ b.live = true
  phase_owned : ∀ (i : Nat) (t : Thread) (a : Nat), c.threads[i]? = some t → t.phase.needsHandle a → a ∈ t.owned
  /-- a thread that read 1 read the newest message, and everything ever done to the block happens before it -/
  uniq : ∀ (i : Nat) (t : Thread) (a : Nat), c.threads[i]? = some t → t.phase = .unique a →
    ∀ b, c.blocks[a]? = some b → b.top.val = 1 ∧ ∀ e ∈ b.evs, e ∈ t.view
  /-- the thread whose decrement read 1: after its acquire fence everything happens before it -/
  dying : ∀ (i : Nat) (t : Thread) (a : Nat), c.threads[i]? = some t → t.phase = .dying a →
    ∃ b, c.blocks[a]? = some b ∧ b.live = true ∧ b.top.val = 0 ∧ (∀ e ∈ b.evs, e ∈ t.view ∨ e ∈ t.pend) ∧
      ∀ (j : Nat) (u : Thread), j ≠ i → c.threads[j]? = some u → u.phase ≠ .dying a
  /-- every access is either published in the newest message's view or known to a current owner -/
  pub : ∀ a b, c.blocks[a]? = some b → b.live = true → ∀ e ∈ b.evs,
    e ∈ b.top.view ∨ ∃ (j : Nat) (u : Thread), c.threads[j]? = some u ∧ a ∈ u.owned ∧ (e ∈ u.view ∨ e ∈ u.inbox)
  /-- every owner knows every exclusive access -/
  xseen : ∀ (i : Nat) (t : Thread), c.threads[i]? = some t → ∀ a ∈ t.owned, ∀ b, c.blocks[a]? = some b → ∀ x ∈ b.xevs, x ∈ t.view
  /-- no owner can still read a stale 1: it knows a message newer than it -/
  coh : ∀ (i : Nat) (t : Thread), c.threads[i]? = some t → ∀ a ∈ t.owned, ∀ b, c.blocks[a]? = some b →
    ∀ k m, (mo b)[k + 1]? = some m → m.val = 1 → ∃ k' m', k' ≤ k ∧ (mo b)[k']? = some m' ∧ (m'.id ∈ t.view ∨ m'.id ∈ t.inbox)
  /-- only a lending thread has a non-empty inbox -/
  inboxL : ∀ (i : Nat) (t : Thread), c.threads[i]? = some t → (∀ a, t.phase ≠ .lending a) → t.inbox = []
  /-- a borrowed read has a lender, distinct from the reader, and the reader knows every exclusive access -/
  rbl : ∀ (i : Nat) (t : Thread) (a l : Nat), c.threads[i]? = some t → t.phase = .readingB a l →
    l ≠ i ∧ ∃ u b, c.threads[l]? = some u ∧ u.phase = .lending a ∧ c.blocks[a]? = some b ∧ ∀ x ∈ b.xevs, x ∈ t.view
  /-- what the borrowers synchronise with contains every exclusive access of the lent block -/
  lentx : ∀ (i : Nat) (t : Thread) (a : Nat), c.threads[i]? = some t → t.phase = .lending a →
    ∀ b, c.blocks[a]? = some b → ∀ x ∈ b.xevs, x ∈ t.lentView

/-! ### lists -/

theorem sum_map_set {α} (f : α → Nat) : ∀ (l : List α) (i : Nat) (x y : α), l[i]? = some x →
    ((l.set i y).map f).sum + f x = (l.map f).sum + f y := by
  intro l
  induction l with
  | nil => intro i x y h; simp at h
  | cons z zs ih =>
    intro i x y h
    cases i with
    | zero => simp at h; subst h; simp [List.set]; omega
    | succ i =>
      simp only [List.getElem?_cons_succ] at h
      have := ih i x y h
      simp only [List.set, List.map_cons, List.sum_cons]; omega

theorem cnt_set (ts : List Thread) (i : Nat) (t t' : Thread) (a : Nat) (h : ts[i]? = some t) :
    cnt (ts.set i t') a + t.owned.count a = cnt ts a + t'.owned.count a :=
  sum_map_set (fun t => t.owned.count a) ts i t t' h

theorem cnt_ge (ts : List Thread) (i : Nat) (t : Thread) (a : Nat) (h : ts[i]? = some t) :
    t.owned.count a ≤ cnt ts a := by
  unfold cnt
  induction ts generalizing i with
  | nil => simp at h
  | cons z zs ih =>
    cases i with
    | zero => simp at h; subst h; simp
    | succ i => simp only [List.getElem?_cons_succ] at h; have := ih i h; simp only [List.map_cons, List.sum_cons]; omega

theorem lt_of_get {α} {l : List α} {a : Nat} {b : α} (h : l[a]? = some b) : a < l.length := by
  rcases Nat.lt_or_ge a l.length with x | x
  · exact x
  · rw [List.getElem?_eq_none x] at h; cases h

theorem set_cases {α} {l : List α} {i j : Nat} {t t' u : α} (hi : l[i]? = some t)
    (h : (l.set i t')[j]? = some u) : (j = i ∧ u = t') ∨ (j ≠ i ∧ l[j]? = some u) := by
  by_cases he : j = i
  · subst he
    rw [List.getElem?_set_self (lt_of_get hi)] at h; injection h with h; exact Or.inl ⟨rfl, h.symm⟩
  · rw [List.getElem?_set_ne (Ne.symm he)] at h; exact Or.inr ⟨he, h⟩

theorem set_self {α} {l : List α} {i : Nat} {t t' : α} (hi : l[i]? = some t) : (l.set i t')[i]? = some t' :=
  List.getElem?_set_self (lt_of_get hi)

theorem set_other {α} {l : List α} {i j : Nat} {t' : α} (h : j ≠ i) : (l.set i t')[j]? = l[j]? :=
  List.getElem?_set_ne (Ne.symm h)

theorem cnt_two (ts : List Thread) (i j : Nat) (t u : Thread) (a : Nat) (hne : i ≠ j)
    (hi : ts[i]? = some t) (hj : ts[j]? = some u) : t.owned.count a + u.owned.count a ≤ cnt ts a := by
  have h1 := cnt_set ts i t { t with owned := [] } a hi
  have hj' : (ts.set i { t with owned := [] })[j]? = some u := by
    rw [set_other (Ne.symm hne)]; exact hj
  have h2 := cnt_ge _ j u a hj'
  simp at h1; omega

theorem count_erase_same (l : List Nat) (a : Nat) (h : a ∈ l) : (l.erase a).count a + 1 = l.count a := by
  have := List.count_erase_self (a := a) (l := l)
  have hp := List.count_pos_iff.2 h
  omega

theorem count_erase_other (l : List Nat) (a x : Nat) (h : x ≠ a) : (l.erase a).count x = l.count x :=
  List.count_erase_of_ne h

theorem sum_map_zero {α} (f : α → Nat) (l : List α) (h : ∀ x ∈ l, f x = 0) : (l.map f).sum = 0 := by
  induction l with
  | nil => rfl
  | cons x xs ih =>
    simp only [List.map_cons, List.sum_cons, h x (List.mem_cons_self ..), Nat.zero_add]
    exact ih (fun y hy => h y (List.mem_cons_of_mem _ hy))

theorem cnt_fresh {c : Cfg} (inv : Inv c) (n : Nat) (hn : c.blocks.length ≤ n) : cnt c.threads n = 0 := by
  unfold cnt
  apply sum_map_zero
  intro t ht
  obtain ⟨i, hi⟩ := List.mem_iff_getElem?.1 ht
  apply List.count_eq_zero.2
  intro hm
  obtain ⟨b, hb, _⟩ := inv.owned_live i t hi n hm
  have := lt_of_get hb; omega

/-- the count of a live block is the number of handles on it -/
theorem Inv.top_cnt {c : Cfg} (inv : Inv c) {i : Nat} {t : Thread} {a : Nat} {b : Blk} (ht : c.threads[i]? = some t)
    (ha : a ∈ t.owned) (hb : c.blocks[a]? = some b) : b.live = true ∧ b.top.val = cnt c.threads a := by
  obtain ⟨b', hb', hl⟩ := inv.owned_live i t ht a ha
  rw [hb] at hb'; injection hb' with hb'; subst hb'
  exact ⟨hl, inv.count a b hb hl⟩

theorem no_unique_if_owned {c : Cfg} (inv : Inv c) {i j : Nat} {t u : Thread} {a : Nat} (hne : j ≠ i)
    (ht : c.threads[i]? = some t) (hu : c.threads[j]? = some u) (ha : a ∈ t.owned) : u.phase ≠ .unique a := by
  intro hp
  have hown := inv.phase_owned j u a hu (Or.inl hp)
  obtain ⟨b, hb, _⟩ := inv.owned_live i t ht a ha
  have hrc := (inv.uniq j u a hu hp b hb).1
  rw [(inv.top_cnt ht ha hb).2] at hrc
  have := cnt_two c.threads i j t u a (Ne.symm hne) ht hu
  have h1 := List.count_pos_iff.2 ha
  have h2 := List.count_pos_iff.2 hown
  omega

theorem no_dying_if_owned {c : Cfg} (inv : Inv c) {i j : Nat} {t u : Thread} {a : Nat}
    (ht : c.threads[i]? = some t) (hu : c.threads[j]? = some u) (ha : a ∈ t.owned) : u.phase ≠ .dying a := by
  intro hp
  obtain ⟨b, hb, _, hrc, _⟩ := inv.dying j u a hu hp
  rw [(inv.top_cnt ht ha hb).2] at hrc
  have := cnt_ge c.threads i t a ht
  have h1 := List.count_pos_iff.2 ha
  omega

/-- with count 1, the one owner is the only owner -/
theorem sole_owner {c : Cfg} (inv : Inv c) {i j : Nat} {t u : Thread} {a : Nat} {b : Blk}
    (ht : c.threads[i]? = some t) (ha : a ∈ t.owned) (hb : c.blocks[a]? = some b) (h1 : b.top.val = 1)
    (hu : c.threads[j]? = some u) (hau : a ∈ u.owned) : j = i := by
  apply Classical.byContradiction
  intro hne
  have hc := (inv.top_cnt ht ha hb).2
  have := cnt_two c.threads i j t u a (fun e => hne e.symm) ht hu
  have p1 := List.count_pos_iff.2 ha
  have p2 := List.count_pos_iff.2 hau
  omega


theorem mem_of_all {l v : List Nat} (h : ∀ e ∈ l, e ∈ v) : l.all (fun x => decide (x ∈ v)) = true := by
  rw [List.all_eq_true]; intro x hx; exact decide_eq_true (h x hx)


/-- a step of thread `i`, owner of `a`, that records one access of `a` and changes neither counts
nor ownership (`probe`, `copyRead`, `readStart`, `readEnd`, `write`) -/
theorem inv_event {c : Cfg} {i a : Nat} {t : Thread} {b : Blk} (inv : Inv c)
    (ht : c.threads[i]? = some t) (hb : c.blocks[a]? = some b) (ha : a ∈ t.owned)
    (p' : Phase) (v' pd' : List Nat) (x ok : Bool)
    (hv : ∀ e ∈ t.view, e ∈ v') (he : c.clock ∈ v')
    (h1 : ∀ y, p'.needsHandle y → y ∈ t.owned)
    (h2 : ∀ y, p' = .unique y → y = a ∧ b.top.val = 1 ∧ ∀ e ∈ b.evs, e ∈ v')
    (h3 : ∀ y, p' ≠ .dying y)
    (hx : x = true → ∀ (j : Nat) (u : Thread), j ≠ i → c.threads[j]? = some u → a ∉ u.owned)
    (hok : ok = true) (hin : t.inbox = []) (hnl : ∀ y, t.phase ≠ .lending y)
    (h4 : ∀ y, p' ≠ .lending y) (h5 : ∀ y l, p' ≠ .readingB y l) :
    Inv (c.upd i { t with phase := p', view := v', pend := pd' } a (b.event c.clock x) ok) := by
  have hbl := (inv.top_cnt ht ha hb).1
  refine ⟨?_, ?_, ?_, ?_, ?_, ?_, ?_, ?_, ?_, ?_, ?_, ?_⟩
  · simp [Cfg.upd, inv.nobad, hok]
  · intro y by' hby hl
    dsimp only [Cfg.upd] at hby ⊢
    have hc := cnt_set c.threads i t { t with phase := p', view := v', pend := pd' } y ht
    dsimp only at hc
    rcases set_cases hb hby with ⟨rfl, rfl⟩ | ⟨_, hby'⟩
    · have := inv.count y b hb hbl
      show b.top.val = _; omega
    · have := inv.count y by' hby' hl; omega
  · intro j u hu y hy
    dsimp only [Cfg.upd] at hu ⊢
    have hyo : ∃ b0, c.blocks[y]? = some b0 ∧ b0.live = true := by
      rcases set_cases ht hu with ⟨_, rfl⟩ | ⟨_, hu'⟩
      · exact inv.owned_live i t ht y hy
      · exact inv.owned_live j u hu' y hy
    obtain ⟨b0, hb0, hl0⟩ := hyo
    by_cases hya : y = a
    · subst hya; exact ⟨_, set_self hb, hbl⟩
    · exact ⟨b0, by rw [set_other hya]; exact hb0, hl0⟩
  · intro j u y hu hp
    dsimp only [Cfg.upd] at hu
    rcases set_cases ht hu with ⟨_, rfl⟩ | ⟨_, hu'⟩
    · exact h1 y hp
    · exact inv.phase_owned j u y hu' hp
  · intro j u y hu hp by' hby
    dsimp only [Cfg.upd] at hu hby
    rcases set_cases ht hu with ⟨_, rfl⟩ | ⟨hne, hu'⟩
    · obtain ⟨rfl, hv1, hev⟩ := h2 y hp
      rw [set_self hb] at hby; injection hby with hby; subst hby
      refine ⟨hv1, ?_⟩
      intro e hem
      rcases List.mem_cons.1 hem with rfl | hem'
      · exact he
      · exact hev e hem'
    · have hya : y ≠ a := fun e => no_unique_if_owned inv hne ht hu' ha (e ▸ hp)
      rw [set_other hya] at hby
      exact inv.uniq j u y hu' hp by' hby
  · intro j u y hu hp
    dsimp only [Cfg.upd] at hu ⊢
    rcases set_cases ht hu with ⟨_, rfl⟩ | ⟨hne, hu'⟩
    · exact absurd hp (h3 y)
    · have hya : y ≠ a := fun e => no_dying_if_owned inv ht hu' ha (e ▸ hp)
      obtain ⟨b0, hb0, d1, d2, d3, d4⟩ := inv.dying j u y hu' hp
      refine ⟨b0, by rw [set_other hya]; exact hb0, d1, d2, d3, ?_⟩
      intro k w hk hw
      rcases set_cases ht hw with ⟨_, rfl⟩ | ⟨_, hw'⟩
      · exact h3 y
      · exact d4 k w hk hw'
  · intro y by' hby hl e hem
    dsimp only [Cfg.upd] at hby ⊢
    -- a witness of the old configuration is a witness of the new one
    have wit : ∀ (j : Nat) (u : Thread), c.threads[j]? = some u → y ∈ u.owned → (e ∈ u.view ∨ e ∈ u.inbox) →
        ∃ (j : Nat) (u : Thread), (c.threads.set i { t with phase := p', view := v', pend := pd' })[j]? = some u ∧ y ∈ u.owned ∧ (e ∈ u.view ∨ e ∈ u.inbox) := by
      intro j u hu hyo hev
      by_cases hji : j = i
      · subst hji; rw [ht] at hu; injection hu with hu; subst hu
        rcases hev with hev | hev
        · exact ⟨j, _, set_self ht, hyo, Or.inl (hv e hev)⟩
        · rw [hin] at hev; cases hev
      · exact ⟨j, u, by rw [set_other hji]; exact hu, hyo, hev⟩
    rcases set_cases hb hby with ⟨rfl, rfl⟩ | ⟨_, hby'⟩
    · rcases List.mem_cons.1 hem with rfl | hem'
      · exact Or.inr ⟨i, _, set_self ht, ha, Or.inl he⟩
      · rcases inv.pub y b hb hbl e hem' with h | ⟨j, u, hu, hyo, hev⟩
        · exact Or.inl h
        · exact Or.inr (wit j u hu hyo hev)
    · rcases inv.pub y by' hby' hl e hem with h | ⟨j, u, hu, hyo, hev⟩
      · exact Or.inl h
      · exact Or.inr (wit j u hu hyo hev)
  · intro j u hu y hy by' hby z hz
    dsimp only [Cfg.upd] at hu hby
    rcases set_cases ht hu with ⟨_, rfl⟩ | ⟨hne, hu'⟩
    · rcases set_cases hb hby with ⟨rfl, rfl⟩ | ⟨_, hby'⟩
      · dsimp only [Blk.event] at hz
        split at hz
        · rcases List.mem_cons.1 hz with rfl | hz'
          · exact he
          · exact hv z (inv.xseen i t ht y hy b hb z hz')
        · exact hv z (inv.xseen i t ht y hy b hb z hz)
      · exact hv z (inv.xseen i t ht y hy by' hby' z hz)
    · rcases set_cases hb hby with ⟨rfl, rfl⟩ | ⟨_, hby'⟩
      · dsimp only [Blk.event] at hz
        split at hz
        · rename_i hxt
          exact absurd hy (hx hxt j u hne hu')
        · exact inv.xseen j u hu' y hy b hb z hz
      · exact inv.xseen j u hu' y hy by' hby' z hz
  · intro j u hu y hy by' hby k m hm hm1
    dsimp only [Cfg.upd] at hu hby
    have key : ∀ b0, c.blocks[y]? = some b0 → mo by' = mo b0 → ∃ k' m', k' ≤ k ∧ (mo by')[k']? = some m' ∧ (m'.id ∈ u.view ∨ m'.id ∈ u.inbox) := by
      intro b0 hb0 hmo
      rw [hmo] at hm ⊢
      rcases set_cases ht hu with ⟨_, rfl⟩ | ⟨_, hu'⟩
      · obtain ⟨k', m', hk', h1', h2'⟩ := inv.coh i t ht y hy b0 hb0 k m hm hm1
        rcases h2' with h2' | h2'
        · exact ⟨k', m', hk', h1', Or.inl (hv _ h2')⟩
        · rw [hin] at h2'; cases h2'
      · exact inv.coh j u hu' y hy b0 hb0 k m hm hm1
    rcases set_cases hb hby with ⟨rfl, rfl⟩ | ⟨_, hby'⟩
    · exact key b hb rfl
    · exact key by' hby' rfl
  · -- inboxL
    intro j u hu hnl'
    dsimp only [Cfg.upd] at hu
    rcases set_cases ht hu with ⟨_, rfl⟩ | ⟨_, hu'⟩
    · exact hin
    · exact inv.inboxL j u hu' hnl'
  · -- rbl
    intro j u y l hu hp
    dsimp only [Cfg.upd] at hu ⊢
    rcases set_cases ht hu with ⟨_, rfl⟩ | ⟨hne, hu'⟩
    · exact absurd hp (h5 y l)
    · obtain ⟨hlj, w, by0, hw, hwl, hby0, hxs⟩ := inv.rbl j u y l hu' hp
      have hli : l ≠ i := by
        intro e; subst e; rw [ht] at hw; injection hw with hw; subst hw; exact hnl y hwl
      refine ⟨hlj, w, ?_⟩
      by_cases hya : y = a
      · subst hya
        rw [hb] at hby0; injection hby0 with hby0; subst hby0
        refine ⟨_, by rw [set_other hli]; exact hw, hwl, set_self hb, ?_⟩
        intro z hz
        dsimp only [Blk.event] at hz
        split at hz
        · rename_i hxt
          exact absurd (inv.phase_owned l w y hw (Or.inr (Or.inr (Or.inr (Or.inr hwl))))) (hx hxt l w hli hw)
        · exact hxs z hz
      · exact ⟨by0, by rw [set_other hli]; exact hw, hwl, by rw [set_other hya]; exact hby0, hxs⟩
  · -- lentx
    intro j u y hu hp by' hby z hz
    dsimp only [Cfg.upd] at hu hby
    rcases set_cases ht hu with ⟨_, rfl⟩ | ⟨hne, hu'⟩
    · exact absurd hp (h4 y)
    · rcases set_cases hb hby with ⟨rfl, rfl⟩ | ⟨_, hby'⟩
      · dsimp only [Blk.event] at hz
        split at hz
        · rename_i hxt
          exact absurd (inv.phase_owned j u y hu' (Or.inr (Or.inr (Or.inr (Or.inr hp))))) (hx hxt j u hne hu')
        · exact inv.lentx j u y hu' hp b hb z hz
      · exact inv.lentx j u y hu' hp by' hby' z hz


theorem mo_rmw (b : Blk) (f : Nat → Nat) (rel : Bool) (v : List Nat) (e : Nat) :
    mo (b.rmw f rel v e) = { val := f b.top.val, view := if rel then v ++ b.top.view else b.top.view, id := e } :: mo b := rfl

theorem top_view_rmw (b : Blk) (f : Nat → Nat) (rel : Bool) (v : List Nat) (e : Nat) (z : Nat) (h : z ∈ b.top.view) :
    z ∈ (b.rmw f rel v e).top.view := by
  dsimp only [Blk.rmw]; split
  · exact List.mem_append_right _ h
  · exact h

/-- `clone`: `fetch_add` with any ordering -/
theorem inv_clone {c : Cfg} {i a : Nat} {t : Thread} {b : Blk} (inv : Inv c)
    (ht : c.threads[i]? = some t) (hb : c.blocks[a]? = some b) (ha : a ∈ t.owned)
    (v' pd' : List Nat) (rel ok : Bool)
    (hv : ∀ e ∈ t.view, e ∈ v') (he : c.clock ∈ v') (hok : ok = true)
    (hin : t.inbox = []) (hnl : ∀ y, t.phase ≠ .lending y) :
    Inv (c.upd i { owned := a :: t.owned, phase := .idle, view := v', pend := pd' } a
          (b.rmw (· + 1) rel (c.clock :: t.view) c.clock) ok) := by
  obtain ⟨hbl, hcnt⟩ := inv.top_cnt ht ha hb
  refine ⟨?_, ?_, ?_, ?_, ?_, ?_, ?_, ?_, ?_, ?_, ?_, ?_⟩
  · simp [Cfg.upd, inv.nobad, hok]
  · intro y by' hby hl
    dsimp only [Cfg.upd] at hby ⊢
    have hc := cnt_set c.threads i t { owned := a :: t.owned, phase := .idle, view := v', pend := pd' } y ht
    dsimp only at hc
    rcases set_cases hb hby with ⟨rfl, rfl⟩ | ⟨hya, hby'⟩
    · simp only [List.count_cons_self] at hc
      show b.top.val + 1 = _; omega
    · have := inv.count y by' hby' hl
      simp only [List.count_cons_of_ne (Ne.symm hya)] at hc
      omega
  · intro j u hu y hy
    dsimp only [Cfg.upd] at hu ⊢
    have hyo : ∃ b0, c.blocks[y]? = some b0 ∧ b0.live = true := by
      rcases set_cases ht hu with ⟨_, rfl⟩ | ⟨_, hu'⟩
      · rcases List.mem_cons.1 hy with rfl | hy'
        · exact ⟨b, hb, hbl⟩
        · exact inv.owned_live i t ht y hy'
      · exact inv.owned_live j u hu' y hy
    obtain ⟨b0, hb0, hl0⟩ := hyo
    by_cases hya : y = a
    · subst hya; exact ⟨_, set_self hb, hbl⟩
    · exact ⟨b0, by rw [set_other hya]; exact hb0, hl0⟩
  · intro j u y hu hp
    dsimp only [Cfg.upd] at hu
    rcases set_cases ht hu with ⟨_, rfl⟩ | ⟨_, hu'⟩
    · rcases hp with h | h | h | h | h <;> cases h
    · exact inv.phase_owned j u y hu' hp
  · intro j u y hu hp by' hby
    dsimp only [Cfg.upd] at hu hby
    rcases set_cases ht hu with ⟨_, rfl⟩ | ⟨hne, hu'⟩
    · cases hp
    · have hya : y ≠ a := fun e => no_unique_if_owned inv hne ht hu' ha (e ▸ hp)
      rw [set_other hya] at hby
      exact inv.uniq j u y hu' hp by' hby
  · intro j u y hu hp
    dsimp only [Cfg.upd] at hu ⊢
    rcases set_cases ht hu with ⟨_, rfl⟩ | ⟨hne, hu'⟩
    · cases hp
    · have hya : y ≠ a := fun e => no_dying_if_owned inv ht hu' ha (e ▸ hp)
      obtain ⟨b0, hb0, d1, d2, d3, d4⟩ := inv.dying j u y hu' hp
      refine ⟨b0, by rw [set_other hya]; exact hb0, d1, d2, d3, ?_⟩
      intro k w hk hw
      rcases set_cases ht hw with ⟨_, rfl⟩ | ⟨_, hw'⟩
      · intro h; cases h
      · exact d4 k w hk hw'
  · intro y by' hby hl e hem
    dsimp only [Cfg.upd] at hby ⊢
    have wit : ∀ (j : Nat) (u : Thread), c.threads[j]? = some u → y ∈ u.owned → (e ∈ u.view ∨ e ∈ u.inbox) →
        ∃ (j : Nat) (u : Thread), (c.threads.set i { owned := a :: t.owned, phase := .idle, view := v', pend := pd' })[j]? = some u ∧ y ∈ u.owned ∧ (e ∈ u.view ∨ e ∈ u.inbox) := by
      intro j u hu hyo hev
      by_cases hji : j = i
      · subst hji; rw [ht] at hu; injection hu with hu; subst hu
        rcases hev with hev | hev
        · exact ⟨j, _, set_self ht, List.mem_cons_of_mem _ hyo, Or.inl (hv e hev)⟩
        · rw [hin] at hev; cases hev
      · exact ⟨j, u, by rw [set_other hji]; exact hu, hyo, hev⟩
    rcases set_cases hb hby with ⟨rfl, rfl⟩ | ⟨_, hby'⟩
    · have hem2 : e ∈ c.clock :: b.evs := hem
      rcases List.mem_cons.1 hem2 with rfl | hem'
      · exact Or.inr ⟨i, _, set_self ht, List.mem_cons_self .., Or.inl he⟩
      · rcases inv.pub y b hb hbl e hem' with h | ⟨j, u, hu, hyo, hev⟩
        · exact Or.inl (top_view_rmw b _ _ _ _ e h)
        · exact Or.inr (wit j u hu hyo hev)
    · rcases inv.pub y by' hby' hl e hem with h | ⟨j, u, hu, hyo, hev⟩
      · exact Or.inl h
      · exact Or.inr (wit j u hu hyo hev)
  · intro j u hu y hy by' hby z hz
    dsimp only [Cfg.upd] at hu hby
    have hxe : ∀ b0, c.blocks[y]? = some b0 → by'.xevs = b0.xevs → z ∈ u.view := by
      intro b0 hb0 hxs
      rw [hxs] at hz
      rcases set_cases ht hu with ⟨_, rfl⟩ | ⟨_, hu'⟩
      · rcases List.mem_cons.1 hy with rfl | hy'
        · rw [hb] at hb0; injection hb0 with hb0; subst hb0
          exact hv z (inv.xseen i t ht y ha b hb z hz)
        · exact hv z (inv.xseen i t ht y hy' b0 hb0 z hz)
      · exact inv.xseen j u hu' y hy b0 hb0 z hz
    rcases set_cases hb hby with ⟨rfl, rfl⟩ | ⟨_, hby'⟩
    · exact hxe b hb rfl
    · exact hxe by' hby' rfl
  · intro j u hu y hy by' hby k m hm hm1
    dsimp only [Cfg.upd] at hu hby
    -- the owner's old knowledge
    have old : ∀ b0, c.blocks[y]? = some b0 → ∀ k, (mo b0)[k + 1]? = some m → ∃ k' m', k' ≤ k ∧ (mo b0)[k']? = some m' ∧ (m'.id ∈ u.view ∨ m'.id ∈ u.inbox) := by
      intro b0 hb0 k hm
      rcases set_cases ht hu with ⟨_, rfl⟩ | ⟨_, hu'⟩
      · have hy' : y ∈ t.owned := by
          rcases List.mem_cons.1 hy with rfl | hy'
          · exact ha
          · exact hy'
        obtain ⟨k', m', hk', h1', h2'⟩ := inv.coh i t ht y hy' b0 hb0 k m hm hm1
        rcases h2' with h2' | h2'
        · exact ⟨k', m', hk', h1', Or.inl (hv _ h2')⟩
        · rw [hin] at h2'; cases h2'
      · exact inv.coh j u hu' y hy b0 hb0 k m hm hm1
    rcases set_cases hb hby with ⟨rfl, rfl⟩ | ⟨_, hby'⟩
    · rw [mo_rmw] at hm ⊢
      cases k with
      | zero =>
        -- the message overwritten just now
        simp only [List.getElem?_cons_succ, Nat.zero_add] at hm
        have hmt : m = b.top := by simp [mo] at hm; exact hm.symm
        subst hmt
        refine ⟨0, _, Nat.le_refl _, rfl, Or.inl ?_⟩
        show c.clock ∈ u.view
        rcases set_cases ht hu with ⟨_, rfl⟩ | ⟨hne, hu'⟩
        · exact he
        · have hyu : y ∈ u.owned := hy
          exact absurd (sole_owner inv ht ha hb hm1 hu' hyu) hne
      | succ k =>
        simp only [List.getElem?_cons_succ] at hm
        obtain ⟨k', m', hk', h1', h2'⟩ := old b hb k hm
        exact ⟨k' + 1, m', by omega, by simpa using h1', h2'⟩
    · exact old by' hby' k hm
  · -- inboxL
    intro j u hu hnl'
    dsimp only [Cfg.upd] at hu
    rcases set_cases ht hu with ⟨_, rfl⟩ | ⟨_, hu'⟩
    · rfl
    · exact inv.inboxL j u hu' hnl'
  · -- rbl
    intro j u y l hu hp
    dsimp only [Cfg.upd] at hu ⊢
    rcases set_cases ht hu with ⟨_, rfl⟩ | ⟨hne, hu'⟩
    · cases hp
    · obtain ⟨hlj, w, by0, hw, hwl, hby0, hxs⟩ := inv.rbl j u y l hu' hp
      have hli : l ≠ i := by
        intro e; subst e; rw [ht] at hw; injection hw with hw; subst hw; exact hnl y hwl
      refine ⟨hlj, w, ?_⟩
      by_cases hya : y = a
      · subst hya
        rw [hb] at hby0; injection hby0 with hby0; subst hby0
        exact ⟨_, by rw [set_other hli]; exact hw, hwl, set_self hb, hxs⟩
      · exact ⟨by0, by rw [set_other hli]; exact hw, hwl, by rw [set_other hya]; exact hby0, hxs⟩
  · -- lentx
    intro j u y hu hp by' hby z hz
    dsimp only [Cfg.upd] at hu hby
    rcases set_cases ht hu with ⟨_, rfl⟩ | ⟨hne, hu'⟩
    · cases hp
    · rcases set_cases hb hby with ⟨rfl, rfl⟩ | ⟨_, hby'⟩
      · exact inv.lentx j u y hu' hp b hb z hz
      · exact inv.lentx j u y hu' hp by' hby' z hz


/-- giving up a reference with a **release** `fetch_sub` (`drop`, and the end of a copy-out) -/
theorem inv_release {c : Cfg} {i a : Nat} {t : Thread} {b : Blk} (inv : Inv c)
    (ht : c.threads[i]? = some t) (hb : c.blocks[a]? = some b) (ha : a ∈ t.owned)
    (v' : List Nat) (ok : Bool)
    (hv : ∀ e ∈ t.view, e ∈ v') (he : c.clock ∈ v') (hok : ok = true)
    (hin : t.inbox = []) (hnl : ∀ y, t.phase ≠ .lending y) :
    Inv (c.upd i { owned := t.owned.erase a, phase := if b.top.val = 1 then .dying a else .idle,
                   view := v', pend := b.top.view ++ t.pend } a
          (b.rmw (· - 1) true (c.clock :: t.view) c.clock) ok) := by
  obtain ⟨hbl, hcnt⟩ := inv.top_cnt ht ha hb
  have hge := cnt_ge c.threads i t a ht
  have hpos := List.count_pos_iff.2 ha
  -- when the count was 1 nobody owns the block afterwards
  have none_left : b.top.val = 1 → ∀ (j : Nat) (u : Thread),
      (c.threads.set i { owned := t.owned.erase a, phase := if b.top.val = 1 then .dying a else .idle,
                         view := v', pend := b.top.view ++ t.pend })[j]? = some u → a ∉ u.owned := by
    intro h1 j u hu hau
    rcases set_cases ht hu with ⟨_, rfl⟩ | ⟨hne, hu'⟩
    · have := count_erase_same t.owned a ha
      have p2 := List.count_pos_iff.2 hau
      dsimp only at p2
      omega
    · exact hne (sole_owner inv ht ha hb h1 hu' hau)
  refine ⟨?_, ?_, ?_, ?_, ?_, ?_, ?_, ?_, ?_, ?_, ?_, ?_⟩
  · simp [Cfg.upd, inv.nobad, hok]
  · intro y by' hby hl
    dsimp only [Cfg.upd] at hby ⊢
    have hc := cnt_set c.threads i t { owned := t.owned.erase a, phase := if b.top.val = 1 then .dying a else .idle,
                                       view := v', pend := b.top.view ++ t.pend } y ht
    dsimp only at hc
    rcases set_cases hb hby with ⟨rfl, rfl⟩ | ⟨hya, hby'⟩
    · have := count_erase_same t.owned y ha
      show b.top.val - 1 = _; omega
    · have := inv.count y by' hby' hl
      rw [count_erase_other _ _ _ hya] at hc
      omega
  · intro j u hu y hy
    dsimp only [Cfg.upd] at hu ⊢
    have hyo : ∃ b0, c.blocks[y]? = some b0 ∧ b0.live = true := by
      rcases set_cases ht hu with ⟨_, rfl⟩ | ⟨_, hu'⟩
      · exact inv.owned_live i t ht y (List.mem_of_mem_erase hy)
      · exact inv.owned_live j u hu' y hy
    obtain ⟨b0, hb0, hl0⟩ := hyo
    by_cases hya : y = a
    · subst hya; exact ⟨_, set_self hb, hbl⟩
    · exact ⟨b0, by rw [set_other hya]; exact hb0, hl0⟩
  · intro j u y hu hp
    dsimp only [Cfg.upd] at hu
    rcases set_cases ht hu with ⟨_, rfl⟩ | ⟨_, hu'⟩
    · simp only [Phase.needsHandle] at hp
      split at hp <;> (rcases hp with h | h | h | h | h <;> cases h)
    · exact inv.phase_owned j u y hu' hp
  · intro j u y hu hp by' hby
    dsimp only [Cfg.upd] at hu hby
    rcases set_cases ht hu with ⟨_, rfl⟩ | ⟨hne, hu'⟩
    · simp only [] at hp; split at hp <;> cases hp
    · have hya : y ≠ a := fun e => no_unique_if_owned inv hne ht hu' ha (e ▸ hp)
      rw [set_other hya] at hby
      exact inv.uniq j u y hu' hp by' hby
  · intro j u y hu hp
    dsimp only [Cfg.upd] at hu ⊢
    rcases set_cases ht hu with ⟨hji, rfl⟩ | ⟨hne, hu'⟩
    · simp only [] at hp
      split at hp
      · rename_i h1
        injection hp with hp; subst hp
        refine ⟨_, set_self hb, hbl, ?_, ?_, ?_⟩
        · show b.top.val - 1 = 0; omega
        · intro e hem
          have hem2 : e ∈ c.clock :: b.evs := hem
          rcases List.mem_cons.1 hem2 with rfl | hem'
          · exact Or.inl he
          · rcases inv.pub a b hb hbl e hem' with h | ⟨k, w, hw, hyo, hev⟩
            · exact Or.inr (List.mem_append_left _ h)
            · have := sole_owner inv ht ha hb h1 hw hyo
              subst this; rw [ht] at hw; injection hw with hw; subst hw
              rcases hev with hev | hev
              · exact Or.inl (hv e hev)
              · rw [hin] at hev; cases hev
        · intro k w hk hw
          rcases set_cases ht hw with ⟨hki, _⟩ | ⟨_, hw'⟩
          · exact absurd (hki.trans hji.symm) hk
          · exact no_dying_if_owned inv ht hw' ha
      · cases hp
    · have hya : y ≠ a := fun e => no_dying_if_owned inv ht hu' ha (e ▸ hp)
      obtain ⟨b0, hb0, d1, d2, d3, d4⟩ := inv.dying j u y hu' hp
      refine ⟨b0, by rw [set_other hya]; exact hb0, d1, d2, d3, ?_⟩
      intro k w hk hw
      rcases set_cases ht hw with ⟨_, rfl⟩ | ⟨_, hw'⟩
      · simp only []; split
        · intro h; injection h with h; exact hya h.symm
        · intro h; cases h
      · exact d4 k w hk hw'
  · intro y by' hby hl e hem
    dsimp only [Cfg.upd] at hby ⊢
    rcases set_cases hb hby with ⟨rfl, rfl⟩ | ⟨hya, hby'⟩
    · -- everything this thread knew is published by the release
      have hpubl : ∀ z, z ∈ c.clock :: t.view → z ∈ (b.rmw (· - 1) true (c.clock :: t.view) c.clock).top.view := by
        intro z hz; dsimp only [Blk.rmw]; simp only [if_true]; exact List.mem_append_left _ hz
      have hem2 : e ∈ c.clock :: b.evs := hem
      rcases List.mem_cons.1 hem2 with rfl | hem'
      · exact Or.inl (hpubl _ (List.mem_cons_self ..))
      · rcases inv.pub y b hb hbl e hem' with h | ⟨j, u, hu, hyo, hev⟩
        · exact Or.inl (top_view_rmw b _ _ _ _ e h)
        · by_cases hji : j = i
          · subst hji; rw [ht] at hu; injection hu with hu; subst hu
            rcases hev with hev | hev
            · exact Or.inl (hpubl _ (List.mem_cons_of_mem _ hev))
            · rw [hin] at hev; cases hev
          · exact Or.inr ⟨j, u, by rw [set_other hji]; exact hu, hyo, hev⟩
    · rcases inv.pub y by' hby' hl e hem with h | ⟨j, u, hu, hyo, hev⟩
      · exact Or.inl h
      · by_cases hji : j = i
        · subst hji; rw [ht] at hu; injection hu with hu; subst hu
          rcases hev with hev | hev
          · exact Or.inr ⟨j, _, set_self ht, (List.mem_erase_of_ne hya).2 hyo, Or.inl (hv e hev)⟩
          · rw [hin] at hev; cases hev
        · exact Or.inr ⟨j, u, by rw [set_other hji]; exact hu, hyo, hev⟩
  · intro j u hu y hy by' hby z hz
    dsimp only [Cfg.upd] at hu hby
    have hxe : ∀ b0, c.blocks[y]? = some b0 → by'.xevs = b0.xevs → z ∈ u.view := by
      intro b0 hb0 hxs
      rw [hxs] at hz
      rcases set_cases ht hu with ⟨_, rfl⟩ | ⟨_, hu'⟩
      · exact hv z (inv.xseen i t ht y (List.mem_of_mem_erase hy) b0 hb0 z hz)
      · exact inv.xseen j u hu' y hy b0 hb0 z hz
    rcases set_cases hb hby with ⟨rfl, rfl⟩ | ⟨_, hby'⟩
    · exact hxe b hb rfl
    · exact hxe by' hby' rfl
  · intro j u hu y hy by' hby k m hm hm1
    dsimp only [Cfg.upd] at hu hby
    have old : ∀ b0, c.blocks[y]? = some b0 → ∀ k, (mo b0)[k + 1]? = some m → ∃ k' m', k' ≤ k ∧ (mo b0)[k']? = some m' ∧ (m'.id ∈ u.view ∨ m'.id ∈ u.inbox) := by
      intro b0 hb0 k hm
      rcases set_cases ht hu with ⟨_, rfl⟩ | ⟨_, hu'⟩
      · obtain ⟨k', m', hk', h1', h2'⟩ := inv.coh i t ht y (List.mem_of_mem_erase hy) b0 hb0 k m hm hm1
        rcases h2' with h2' | h2'
        · exact ⟨k', m', hk', h1', Or.inl (hv _ h2')⟩
        · rw [hin] at h2'; cases h2'
      · exact inv.coh j u hu' y hy b0 hb0 k m hm hm1
    rcases set_cases hb hby with ⟨rfl, rfl⟩ | ⟨_, hby'⟩
    · rw [mo_rmw] at hm ⊢
      cases k with
      | zero =>
        simp only [List.getElem?_cons_succ, Nat.zero_add] at hm
        have hmt : m = b.top := by simp [mo] at hm; exact hm.symm
        subst hmt
        exact absurd hy (none_left hm1 j u hu)
      | succ k =>
        simp only [List.getElem?_cons_succ] at hm
        obtain ⟨k', m', hk', h1', h2'⟩ := old b hb k hm
        exact ⟨k' + 1, m', by omega, by simpa using h1', h2'⟩
    · exact old by' hby' k hm
  · -- inboxL
    intro j u hu hnl'
    dsimp only [Cfg.upd] at hu
    rcases set_cases ht hu with ⟨_, rfl⟩ | ⟨_, hu'⟩
    · rfl
    · exact inv.inboxL j u hu' hnl'
  · -- rbl
    intro j u y l hu hp
    dsimp only [Cfg.upd] at hu ⊢
    rcases set_cases ht hu with ⟨_, rfl⟩ | ⟨hne, hu'⟩
    · simp only [] at hp; split at hp <;> cases hp
    · obtain ⟨hlj, w, by0, hw, hwl, hby0, hxs⟩ := inv.rbl j u y l hu' hp
      have hli : l ≠ i := by
        intro e; subst e; rw [ht] at hw; injection hw with hw; subst hw; exact hnl y hwl
      refine ⟨hlj, w, ?_⟩
      by_cases hya : y = a
      · subst hya
        rw [hb] at hby0; injection hby0 with hby0; subst hby0
        exact ⟨_, by rw [set_other hli]; exact hw, hwl, set_self hb, hxs⟩
      · exact ⟨by0, by rw [set_other hli]; exact hw, hwl, by rw [set_other hya]; exact hby0, hxs⟩
  · -- lentx
    intro j u y hu hp by' hby z hz
    dsimp only [Cfg.upd] at hu hby
    rcases set_cases ht hu with ⟨_, rfl⟩ | ⟨hne, hu'⟩
    · simp only [] at hp; split at hp <;> cases hp
    · rcases set_cases hb hby with ⟨rfl, rfl⟩ | ⟨_, hby'⟩
      · exact inv.lentx j u y hu' hp b hb z hz
      · exact inv.lentx j u y hu' hp by' hby' z hz


/-- a thread allocates a fresh block and holds the only handle on it -/
theorem inv_alloc {c : Cfg} {i : Nat} {t : Thread} (inv : Inv c) (ht : c.threads[i]? = some t) :
    Inv (alloc c i t) := by
  have hfresh := cnt_fresh inv c.blocks.length (Nat.le_refl _)
  have htn : t.owned.count c.blocks.length = 0 := by have := cnt_ge c.threads i t c.blocks.length ht; omega
  -- a block of the new configuration is an old one or the fresh one
  have blk : ∀ (y : Nat) (by' : Blk), (alloc c i t).blocks[y]? = some by' →
      (y < c.blocks.length ∧ c.blocks[y]? = some by') ∨
      (y = c.blocks.length ∧ by' = { live := true, top := { val := 1, view := [], id := c.clock }, older := [], evs := [c.clock], xevs := [c.clock] }) := by
    intro y by' h
    dsimp only [alloc] at h
    rcases Nat.lt_trichotomy y c.blocks.length with hlt | heq | hgt
    · rw [List.getElem?_append_left hlt] at h; exact Or.inl ⟨hlt, h⟩
    · subst heq; rw [List.getElem?_append_right (Nat.le_refl _)] at h; simp at h; exact Or.inr ⟨rfl, h.symm⟩
    · rw [List.getElem?_eq_none (by simp; omega)] at h; cases h
  have old_blk : ∀ (y : Nat) (b0 : Blk), c.blocks[y]? = some b0 → (alloc c i t).blocks[y]? = some b0 := by
    intro y b0 h; dsimp only [alloc]; rw [List.getElem?_append_left (lt_of_get h)]; exact h
  have nobody : ∀ (j : Nat) (u : Thread), j ≠ i → c.threads[j]? = some u → c.blocks.length ∉ u.owned := by
    intro j u _ hu hm
    have := cnt_ge c.threads j u c.blocks.length hu
    have := List.count_pos_iff.2 hm
    omega
  refine ⟨?_, ?_, ?_, ?_, ?_, ?_, ?_, ?_, ?_, ?_, ?_, ?_⟩
  · exact inv.nobad
  · intro y by' hby hl
    have hc := cnt_set c.threads i t { t with owned := c.blocks.length :: t.owned, view := c.clock :: t.view } y ht
    dsimp only at hc
    show by'.top.val = cnt (c.threads.set i { t with owned := c.blocks.length :: t.owned, view := c.clock :: t.view }) y
    rcases blk y by' hby with ⟨hlt, hby'⟩ | ⟨rfl, rfl⟩
    · have := inv.count y by' hby' hl
      rw [List.count_cons_of_ne (by omega)] at hc; omega
    · simp only [List.count_cons_self] at hc; show 1 = _; omega
  · intro j u hu y hy
    dsimp only [alloc] at hu
    rcases set_cases ht hu with ⟨_, rfl⟩ | ⟨_, hu'⟩
    · rcases List.mem_cons.1 hy with rfl | hy'
      · exact ⟨{ live := true, top := { val := 1, view := [], id := c.clock }, older := [], evs := [c.clock], xevs := [c.clock] },
          by dsimp only [alloc]; rw [List.getElem?_append_right (Nat.le_refl _)]; simp, rfl⟩
      · obtain ⟨b0, hb0, hl0⟩ := inv.owned_live i t ht y hy'
        exact ⟨b0, old_blk y b0 hb0, hl0⟩
    · obtain ⟨b0, hb0, hl0⟩ := inv.owned_live j u hu' y hy
      exact ⟨b0, old_blk y b0 hb0, hl0⟩
  · intro j u y hu hp
    dsimp only [alloc] at hu
    rcases set_cases ht hu with ⟨_, rfl⟩ | ⟨_, hu'⟩
    · exact List.mem_cons_of_mem _ (inv.phase_owned i t y ht hp)
    · exact inv.phase_owned j u y hu' hp
  · intro j u y hu hp by' hby
    dsimp only [alloc] at hu
    have hyo : ∃ w, c.threads[j]? = some w ∧ w.phase = .unique y ∧ ∀ e ∈ w.view, e ∈ u.view := by
      rcases set_cases ht hu with ⟨hji, rfl⟩ | ⟨_, hu'⟩
      · exact ⟨t, hji ▸ ht, hp, fun e he => List.mem_cons_of_mem _ he⟩
      · exact ⟨u, hu', hp, fun e he => he⟩
    obtain ⟨w, hw, hwp, hwv⟩ := hyo
    obtain ⟨b0, hb0, _⟩ := inv.owned_live j w hw y (inv.phase_owned j w y hw (Or.inl hwp))
    rw [old_blk y b0 hb0] at hby; injection hby with hby; subst hby
    obtain ⟨q1, q2⟩ := inv.uniq j w y hw hwp b0 hb0
    exact ⟨q1, fun e he => hwv e (q2 e he)⟩
  · intro j u y hu hp
    dsimp only [alloc] at hu
    have hyo : ∃ w, c.threads[j]? = some w ∧ w.phase = .dying y ∧ (∀ e ∈ w.view, e ∈ u.view) ∧ w.pend = u.pend := by
      rcases set_cases ht hu with ⟨hji, rfl⟩ | ⟨_, hu'⟩
      · exact ⟨t, hji ▸ ht, hp, fun e he => List.mem_cons_of_mem _ he, rfl⟩
      · exact ⟨u, hu', hp, fun e he => he, rfl⟩
    obtain ⟨w, hw, hwp, hwv, hwpd⟩ := hyo
    obtain ⟨b0, hb0, d1, d2, d3, d4⟩ := inv.dying j w y hw hwp
    refine ⟨b0, old_blk y b0 hb0, d1, d2, ?_, ?_⟩
    · intro e he
      rcases d3 e he with h | h
      · exact Or.inl (hwv e h)
      · exact Or.inr (hwpd ▸ h)
    · intro k z hk hz
      dsimp only [alloc] at hz
      rcases set_cases ht hz with ⟨hki, rfl⟩ | ⟨_, hz'⟩
      · exact d4 k t hk (hki ▸ ht)
      · exact d4 k z hk hz'
  · intro y by' hby hl e hem
    have wit : ∀ (j : Nat) (u : Thread), c.threads[j]? = some u → y ∈ u.owned → (e ∈ u.view ∨ e ∈ u.inbox) →
        ∃ (j : Nat) (u : Thread), (alloc c i t).threads[j]? = some u ∧ y ∈ u.owned ∧ (e ∈ u.view ∨ e ∈ u.inbox) := by
      intro j u hu hyo hev
      dsimp only [alloc]
      by_cases hji : j = i
      · subst hji; rw [ht] at hu; injection hu with hu; subst hu
        rcases hev with hev | hev
        · exact ⟨j, _, set_self ht, List.mem_cons_of_mem _ hyo, Or.inl (List.mem_cons_of_mem _ hev)⟩
        · exact ⟨j, _, set_self ht, List.mem_cons_of_mem _ hyo, Or.inr hev⟩
      · exact ⟨j, u, by rw [set_other hji]; exact hu, hyo, hev⟩
    rcases blk y by' hby with ⟨hlt, hby'⟩ | ⟨rfl, rfl⟩
    · rcases inv.pub y by' hby' hl e hem with h | ⟨j, u, hu, hyo, hev⟩
      · exact Or.inl h
      · exact Or.inr (wit j u hu hyo hev)
    · simp only [List.mem_singleton] at hem; subst hem
      exact Or.inr ⟨i, _, by dsimp only [alloc]; exact set_self ht, List.mem_cons_self .., Or.inl (List.mem_cons_self ..)⟩
  · intro j u hu y hy by' hby z hz
    dsimp only [alloc] at hu
    rcases blk y by' hby with ⟨hlt, hby'⟩ | ⟨rfl, rfl⟩
    · rcases set_cases ht hu with ⟨_, rfl⟩ | ⟨_, hu'⟩
      · have hy' : y ∈ t.owned := by
          rcases List.mem_cons.1 hy with rfl | hy'
          · omega
          · exact hy'
        exact List.mem_cons_of_mem _ (inv.xseen i t ht y hy' by' hby' z hz)
      · exact inv.xseen j u hu' y hy by' hby' z hz
    · simp only [List.mem_singleton] at hz; subst hz
      rcases set_cases ht hu with ⟨_, rfl⟩ | ⟨hne, hu'⟩
      · exact List.mem_cons_self ..
      · exact absurd hy (nobody j u hne hu')
  · intro j u hu y hy by' hby k m hm hm1
    dsimp only [alloc] at hu
    rcases blk y by' hby with ⟨hlt, hby'⟩ | ⟨rfl, rfl⟩
    · rcases set_cases ht hu with ⟨_, rfl⟩ | ⟨_, hu'⟩
      · have hy' : y ∈ t.owned := by
          rcases List.mem_cons.1 hy with rfl | hy'
          · omega
          · exact hy'
        obtain ⟨k', m', hk', h1', h2'⟩ := inv.coh i t ht y hy' by' hby' k m hm hm1
        rcases h2' with h2' | h2'
        · exact ⟨k', m', hk', h1', Or.inl (List.mem_cons_of_mem _ h2')⟩
        · exact ⟨k', m', hk', h1', Or.inr h2'⟩
      · exact inv.coh j u hu' y hy by' hby' k m hm hm1
    · simp [mo] at hm
  · -- inboxL
    intro j u hu hnl'
    dsimp only [alloc] at hu
    rcases set_cases ht hu with ⟨_, rfl⟩ | ⟨_, hu'⟩
    · exact inv.inboxL i t ht hnl'
    · exact inv.inboxL j u hu' hnl'
  · -- rbl
    intro j u y l hu hp
    dsimp only [alloc] at hu
    have hold : ∃ w0, c.threads[j]? = some w0 ∧ w0.phase = .readingB y l ∧ ∀ e ∈ w0.view, e ∈ u.view := by
      rcases set_cases ht hu with ⟨hji, rfl⟩ | ⟨_, hu'⟩
      · exact ⟨t, hji ▸ ht, hp, fun e he => List.mem_cons_of_mem _ he⟩
      · exact ⟨u, hu', hp, fun e he => he⟩
    obtain ⟨w0, hw0, hph0, hv0⟩ := hold
    obtain ⟨hlj, w, by0, hw, hwl, hby0, hxs⟩ := inv.rbl j w0 y l hw0 hph0
    refine ⟨hlj, ?_⟩
    by_cases hli : l = i
    · subst hli; rw [ht] at hw; injection hw with hw; subst hw
      exact ⟨{ t with owned := c.blocks.length :: t.owned, view := c.clock :: t.view }, by0,
        by dsimp only [alloc]; exact set_self ht, hwl, old_blk y by0 hby0, fun x hx => hv0 x (hxs x hx)⟩
    · exact ⟨w, by0, by dsimp only [alloc]; rw [set_other hli]; exact hw, hwl, old_blk y by0 hby0, fun x hx => hv0 x (hxs x hx)⟩
  · -- lentx
    intro j u y hu hp by' hby z hz
    dsimp only [alloc] at hu
    have hold : ∃ w0, c.threads[j]? = some w0 ∧ w0.phase = .lending y ∧ w0.lentView = u.lentView := by
      rcases set_cases ht hu with ⟨hji, rfl⟩ | ⟨_, hu'⟩
      · exact ⟨t, hji ▸ ht, hp, rfl⟩
      · exact ⟨u, hu', hp, rfl⟩
    obtain ⟨w0, hw0, hph0, hlv⟩ := hold
    rcases blk y by' hby with ⟨hlt, hby'⟩ | ⟨rfl, rfl⟩
    · rw [← hlv]; exact inv.lentx j w0 y hw0 hph0 by' hby' z hz
    · exfalso
      have hown := inv.phase_owned j w0 _ hw0 (Or.inr (Or.inr (Or.inr (Or.inr hph0))))
      have := cnt_ge c.threads j w0 c.blocks.length hw0
      have := List.count_pos_iff.2 hown
      omega


/-- `fence(Acquire)`, `dealloc` by the thread whose decrement read 1 -/
theorem inv_free {c : Cfg} {i a : Nat} {t : Thread} {b : Blk} (inv : Inv c)
    (ht : c.threads[i]? = some t) (hb : c.blocks[a]? = some b) (hph : t.phase = .dying a)
    (v' : List Nat) (ok : Bool) (hv : ∀ e ∈ t.view, e ∈ v') (hok : ok = true) :
    Inv (c.upd i { t with phase := .idle, view := v' } a { (b.event c.clock true) with live := false } ok) := by
  obtain ⟨b0, hb0, dl, dv, _, dn⟩ := inv.dying i t a ht hph
  rw [hb] at hb0; injection hb0 with hb0; subst hb0
  have hzero : cnt c.threads a = 0 := by rw [← inv.count a b hb dl]; exact dv
  have notowned : ∀ (j : Nat) (u : Thread), c.threads[j]? = some u → a ∉ u.owned := by
    intro j u hu hm
    have := cnt_ge c.threads j u a hu
    have := List.count_pos_iff.2 hm
    omega
  -- what a thread of the new configuration was before
  have thr : ∀ (j : Nat) (u : Thread), (c.threads.set i { t with phase := .idle, view := v' })[j]? = some u →
      ∃ w, c.threads[j]? = some w ∧ u.owned = w.owned ∧ u.pend = w.pend ∧ (∀ e ∈ w.view, e ∈ u.view) ∧
        ((j = i ∧ u.phase = .idle) ∨ (j ≠ i ∧ u = w)) ∧ u.inbox = w.inbox := by
    intro j u hu
    rcases set_cases ht hu with ⟨hji, rfl⟩ | ⟨hne, hu'⟩
    · exact ⟨t, hji ▸ ht, rfl, rfl, hv, Or.inl ⟨hji, rfl⟩, rfl⟩
    · exact ⟨u, hu', rfl, rfl, fun e he => he, Or.inr ⟨hne, rfl⟩, rfl⟩
  refine ⟨?_, ?_, ?_, ?_, ?_, ?_, ?_, ?_, ?_, ?_, ?_, ?_⟩
  · simp [Cfg.upd, inv.nobad, hok]
  · intro y by' hby hl
    dsimp only [Cfg.upd] at hby ⊢
    have hc := cnt_set c.threads i t { t with phase := .idle, view := v' } y ht
    dsimp only at hc
    rcases set_cases hb hby with ⟨rfl, rfl⟩ | ⟨_, hby'⟩
    · cases hl
    · have := inv.count y by' hby' hl; omega
  · intro j u hu y hy
    dsimp only [Cfg.upd] at hu ⊢
    obtain ⟨w, hw, ho, _, _, _⟩ := thr j u hu
    rw [ho] at hy
    have hya : y ≠ a := fun e => notowned j w hw (e ▸ hy)
    obtain ⟨b0, hb0, hl0⟩ := inv.owned_live j w hw y hy
    exact ⟨b0, by rw [set_other hya]; exact hb0, hl0⟩
  · intro j u y hu hp
    dsimp only [Cfg.upd] at hu
    rcases set_cases ht hu with ⟨_, rfl⟩ | ⟨_, hu'⟩
    · rcases hp with h | h | h | h | h <;> cases h
    · exact inv.phase_owned j u y hu' hp
  · intro j u y hu hp by' hby
    dsimp only [Cfg.upd] at hu hby
    rcases set_cases ht hu with ⟨_, rfl⟩ | ⟨hne, hu'⟩
    · cases hp
    · have hya : y ≠ a := fun e => notowned j u hu' (e ▸ inv.phase_owned j u y hu' (Or.inl hp))
      rw [set_other hya] at hby
      exact inv.uniq j u y hu' hp by' hby
  · intro j u y hu hp
    dsimp only [Cfg.upd] at hu ⊢
    rcases set_cases ht hu with ⟨_, rfl⟩ | ⟨hne, hu'⟩
    · cases hp
    · have hya : y ≠ a := fun e => dn j u hne hu' (e ▸ hp)
      obtain ⟨b0, hb0, d1, d2, d3, d4⟩ := inv.dying j u y hu' hp
      refine ⟨b0, by rw [set_other hya]; exact hb0, d1, d2, d3, ?_⟩
      intro k w hk hw
      rcases set_cases ht hw with ⟨_, rfl⟩ | ⟨_, hw'⟩
      · intro h; cases h
      · exact d4 k w hk hw'
  · intro y by' hby hl e hem
    dsimp only [Cfg.upd] at hby ⊢
    rcases set_cases hb hby with ⟨rfl, rfl⟩ | ⟨_, hby'⟩
    · cases hl
    · rcases inv.pub y by' hby' hl e hem with h | ⟨j, u, hu, hyo, hev⟩
      · exact Or.inl h
      · by_cases hji : j = i
        · subst hji; rw [ht] at hu; injection hu with hu; subst hu
          rcases hev with hev | hev
          · exact Or.inr ⟨j, _, set_self ht, hyo, Or.inl (hv e hev)⟩
          · exact Or.inr ⟨j, _, set_self ht, hyo, Or.inr hev⟩
        · exact Or.inr ⟨j, u, by rw [set_other hji]; exact hu, hyo, hev⟩
  · intro j u hu y hy by' hby z hz
    dsimp only [Cfg.upd] at hu hby
    obtain ⟨w, hw, ho, _, hwv, _⟩ := thr j u hu
    rw [ho] at hy
    have hya : y ≠ a := fun e => notowned j w hw (e ▸ hy)
    rw [set_other hya] at hby
    exact hwv z (inv.xseen j w hw y hy by' hby z hz)
  · intro j u hu y hy by' hby k m hm hm1
    dsimp only [Cfg.upd] at hu hby
    obtain ⟨w, hw, ho, _, hwv, _, hib⟩ := thr j u hu
    rw [ho] at hy
    have hya : y ≠ a := fun e => notowned j w hw (e ▸ hy)
    rw [set_other hya] at hby
    obtain ⟨k', m', hk', h1', h2'⟩ := inv.coh j w hw y hy by' hby k m hm hm1
    rcases h2' with h2' | h2'
    · exact ⟨k', m', hk', h1', Or.inl (hwv _ h2')⟩
    · exact ⟨k', m', hk', h1', Or.inr (hib ▸ h2')⟩
  · -- inboxL
    intro j u hu hnl'
    dsimp only [Cfg.upd] at hu
    rcases set_cases ht hu with ⟨_, rfl⟩ | ⟨_, hu'⟩
    · exact inv.inboxL i t ht (fun y h => by rw [hph] at h; cases h)
    · exact inv.inboxL j u hu' hnl'
  · -- rbl
    intro j u y l hu hp
    dsimp only [Cfg.upd] at hu ⊢
    rcases set_cases ht hu with ⟨_, rfl⟩ | ⟨hne, hu'⟩
    · cases hp
    · obtain ⟨hlj, w, by0, hw, hwl, hby0, hxs⟩ := inv.rbl j u y l hu' hp
      have hli : l ≠ i := by
        intro e; subst e; rw [ht] at hw; injection hw with hw; subst hw; rw [hph] at hwl; cases hwl
      have hya : y ≠ a := fun e => notowned l w hw (e ▸ inv.phase_owned l w y hw (Or.inr (Or.inr (Or.inr (Or.inr hwl)))))
      exact ⟨hlj, w, by0, by rw [set_other hli]; exact hw, hwl, by rw [set_other hya]; exact hby0, hxs⟩
  · -- lentx
    intro j u y hu hp by' hby z hz
    dsimp only [Cfg.upd] at hu hby
    rcases set_cases ht hu with ⟨_, rfl⟩ | ⟨hne, hu'⟩
    · cases hp
    · have hya : y ≠ a := fun e => notowned j u hu' (e ▸ inv.phase_owned j u y hu' (Or.inr (Or.inr (Or.inr (Or.inr hp)))))
      rw [set_other hya] at hby
      exact inv.lentx j u y hu' hp by' hby z hz


/-- a thread learns more (any synchronisation): nothing in the invariant is lost -/
theorem inv_learn {c : Cfg} {j : Nat} {u : Thread} (inv : Inv c) (hu : c.threads[j]? = some u)
    (v' : List Nat) (hv : ∀ e ∈ u.view, e ∈ v') (n : Nat) :
    Inv { c with threads := c.threads.set j { u with view := v' }, clock := n } := by
  have thr : ∀ (k : Nat) (w : Thread), (c.threads.set j { u with view := v' })[k]? = some w →
      ∃ w0, c.threads[k]? = some w0 ∧ w.owned = w0.owned ∧ w.pend = w0.pend ∧ w.phase = w0.phase ∧ (∀ e ∈ w0.view, e ∈ w.view) ∧
        w.inbox = w0.inbox ∧ w.lentView = w0.lentView := by
    intro k w hw
    rcases set_cases hu hw with ⟨hkj, rfl⟩ | ⟨_, hw'⟩
    · exact ⟨u, hkj ▸ hu, rfl, rfl, rfl, hv, rfl, rfl⟩
    · exact ⟨w, hw', rfl, rfl, rfl, fun e he => he, rfl, rfl⟩
  refine ⟨inv.nobad, ?_, ?_, ?_, ?_, ?_, ?_, ?_, ?_, ?_, ?_, ?_⟩
  · intro y by' hby hl
    have hc := cnt_set c.threads j u { u with view := v' } y hu
    dsimp only at hc hby ⊢
    have := inv.count y by' hby hl; omega
  · intro k w hw y hy
    obtain ⟨w0, hw0, ho, _, _, _⟩ := thr k w hw
    exact inv.owned_live k w0 hw0 y (ho ▸ hy)
  · intro k w y hw hp
    obtain ⟨w0, hw0, ho, _, hph, _⟩ := thr k w hw
    rw [ho]; exact inv.phase_owned k w0 y hw0 (hph ▸ hp)
  · intro k w y hw hp by' hby
    obtain ⟨w0, hw0, _, _, hph, hwv, _⟩ := thr k w hw
    obtain ⟨q1, q2⟩ := inv.uniq k w0 y hw0 (hph ▸ hp) by' hby
    exact ⟨q1, fun e he => hwv e (q2 e he)⟩
  · intro k w y hw hp
    obtain ⟨w0, hw0, _, hpd, hph, hwv, _⟩ := thr k w hw
    obtain ⟨b0, hb0, d1, d2, d3, d4⟩ := inv.dying k w0 y hw0 (hph ▸ hp)
    refine ⟨b0, hb0, d1, d2, ?_, ?_⟩
    · intro e he
      rcases d3 e he with h | h
      · exact Or.inl (hwv e h)
      · exact Or.inr (hpd ▸ h)
    · intro k2 z hk hz
      obtain ⟨z0, hz0, _, _, hph2, _, _⟩ := thr k2 z hz
      rw [hph2]; exact d4 k2 z0 hk hz0
  · intro y by' hby hl e hem
    rcases inv.pub y by' hby hl e hem with h | ⟨k, w, hw, hyo, hev⟩
    · exact Or.inl h
    · by_cases hkj : k = j
      · subst hkj; rw [hu] at hw; injection hw with hw; subst hw
        rcases hev with hev | hev
        · exact Or.inr ⟨k, _, set_self hu, hyo, Or.inl (hv e hev)⟩
        · exact Or.inr ⟨k, _, set_self hu, hyo, Or.inr hev⟩
      · exact Or.inr ⟨k, w, by dsimp only; rw [set_other hkj]; exact hw, hyo, hev⟩
  · intro k w hw y hy by' hby z hz
    obtain ⟨w0, hw0, ho, _, _, hwv, _⟩ := thr k w hw
    exact hwv z (inv.xseen k w0 hw0 y (ho ▸ hy) by' hby z hz)
  · intro k w hw y hy by' hby k2 m hm hm1
    obtain ⟨w0, hw0, ho, _, _, hwv, hib, _⟩ := thr k w hw
    obtain ⟨k', m', hk', h1', h2'⟩ := inv.coh k w0 hw0 y (ho ▸ hy) by' hby k2 m hm hm1
    rcases h2' with h2' | h2'
    · exact ⟨k', m', hk', h1', Or.inl (hwv _ h2')⟩
    · exact ⟨k', m', hk', h1', Or.inr (hib ▸ h2')⟩
  · -- inboxL
    intro k w hw hnl'
    obtain ⟨w0, hw0, _, _, hph, _, hib, _⟩ := thr k w hw
    rw [hib]; exact inv.inboxL k w0 hw0 (fun y h => hnl' y (hph ▸ h))
  · -- rbl
    intro k w y l hw hp
    obtain ⟨w0, hw0, _, _, hph, hwv, _, _⟩ := thr k w hw
    obtain ⟨hlk, z, by0, hz, hzl, hby0, hxs⟩ := inv.rbl k w0 y l hw0 (hph ▸ hp)
    refine ⟨hlk, ?_⟩
    by_cases hlj : l = j
    · subst hlj; rw [hu] at hz; injection hz with hz; subst hz
      exact ⟨{ u with view := v' }, by0, set_self hu, hzl, hby0, fun x hx => hwv x (hxs x hx)⟩
    · exact ⟨z, by0, by dsimp only; rw [set_other hlj]; exact hz, hzl, hby0, fun x hx => hwv x (hxs x hx)⟩
  · -- lentx
    intro k w y hw hp by' hby z hz
    obtain ⟨w0, hw0, _, _, hph, _, _, hlv⟩ := thr k w hw
    rw [hlv]; exact inv.lentx k w0 y hw0 (hph ▸ hp) by' hby z hz


/-- a handle moves from idle thread `i` to thread `j`, which knows everything `i` knows -/
theorem inv_move {c : Cfg} {i j a : Nat} {t u : Thread} (inv : Inv c) (hne : j ≠ i)
    (ht : c.threads[i]? = some t) (hu : c.threads[j]? = some u) (ha : a ∈ t.owned) (hph : t.phase = .idle)
    (hsub : ∀ e ∈ t.view, e ∈ u.view) :
    Inv { c with threads := (c.threads.set i { t with owned := t.owned.erase a }).set j { u with owned := a :: u.owned } } := by
  have hu1 : (c.threads.set i { t with owned := t.owned.erase a })[j]? = some u := by rw [set_other hne]; exact hu
  have thr : ∀ (k : Nat) (w : Thread),
      ((c.threads.set i { t with owned := t.owned.erase a }).set j { u with owned := a :: u.owned })[k]? = some w →
      (k = i ∧ w = { t with owned := t.owned.erase a }) ∨ (k = j ∧ w = { u with owned := a :: u.owned }) ∨
      (k ≠ i ∧ k ≠ j ∧ c.threads[k]? = some w) := by
    intro k w hw
    rcases set_cases hu1 hw with ⟨hkj, rfl⟩ | ⟨hkj, hw'⟩
    · exact Or.inr (Or.inl ⟨hkj, rfl⟩)
    · rcases set_cases ht hw' with ⟨hki, rfl⟩ | ⟨hki, hw''⟩
      · exact Or.inl ⟨hki, rfl⟩
      · exact Or.inr (Or.inr ⟨hki, hkj, hw''⟩)
  have geti : ((c.threads.set i { t with owned := t.owned.erase a }).set j { u with owned := a :: u.owned })[i]? =
      some { t with owned := t.owned.erase a } := by
    rw [set_other (Ne.symm hne)]; exact set_self ht
  have getj : ((c.threads.set i { t with owned := t.owned.erase a }).set j { u with owned := a :: u.owned })[j]? =
      some { u with owned := a :: u.owned } := set_self hu1
  have geto : ∀ (k : Nat), k ≠ i → k ≠ j →
      ((c.threads.set i { t with owned := t.owned.erase a }).set j { u with owned := a :: u.owned })[k]? = c.threads[k]? := by
    intro k h1 h2; rw [set_other h2, set_other h1]
  -- every thread keeps phase, view and pend
  have same : ∀ (k : Nat) (w : Thread),
      ((c.threads.set i { t with owned := t.owned.erase a }).set j { u with owned := a :: u.owned })[k]? = some w →
      ∃ w0, c.threads[k]? = some w0 ∧ w.phase = w0.phase ∧ w.view = w0.view ∧ w.pend = w0.pend ∧
        (∀ y, y ∈ w0.owned → y ≠ a → y ∈ w.owned) ∧ (∀ y, y ∈ w.owned → y ∈ w0.owned ∨ (y = a ∧ k = j)) ∧
        w.inbox = w0.inbox ∧ w.lentView = w0.lentView := by
    intro k w hw
    rcases thr k w hw with ⟨hk, rfl⟩ | ⟨hk, rfl⟩ | ⟨_, _, hw'⟩
    · exact ⟨t, hk ▸ ht, rfl, rfl, rfl, fun y hy hya => (List.mem_erase_of_ne hya).2 hy, fun y hy => Or.inl (List.mem_of_mem_erase hy), rfl, rfl⟩
    · refine ⟨u, hk ▸ hu, rfl, rfl, rfl, fun y hy _ => List.mem_cons_of_mem _ hy, fun y hy => ?_, rfl, rfl⟩
      rcases List.mem_cons.1 hy with rfl | hy'
      · exact Or.inr ⟨rfl, hk⟩
      · exact Or.inl hy'
    · exact ⟨w, hw', rfl, rfl, rfl, fun y hy _ => hy, fun y hy => Or.inl hy, rfl, rfl⟩
  refine ⟨inv.nobad, ?_, ?_, ?_, ?_, ?_, ?_, ?_, ?_, ?_, ?_, ?_⟩
  · intro y by' hby hl
    dsimp only at hby ⊢
    have c1 := cnt_set c.threads i t { t with owned := t.owned.erase a } y ht
    have c2 := cnt_set (c.threads.set i { t with owned := t.owned.erase a }) j u { u with owned := a :: u.owned } y hu1
    dsimp only at c1 c2
    have := inv.count y by' hby hl
    by_cases hya : y = a
    · subst hya
      have := count_erase_same t.owned y ha
      simp only [List.count_cons_self] at c2
      omega
    · rw [count_erase_other _ _ _ hya] at c1
      rw [List.count_cons_of_ne (Ne.symm hya)] at c2
      omega
  · intro k w hw y hy
    obtain ⟨w0, hw0, _, _, _, _, hback, _, _⟩ := same k w hw
    rcases hback y hy with h | ⟨rfl, _⟩
    · exact inv.owned_live k w0 hw0 y h
    · exact inv.owned_live i t ht y ha
  · intro k w y hw hp
    rcases thr k w hw with ⟨_, rfl⟩ | ⟨hk, rfl⟩ | ⟨_, _, hw'⟩
    · rw [show ({ t with owned := t.owned.erase a } : Thread).phase = t.phase from rfl, hph] at hp
      rcases hp with h | h | h | h | h <;> cases h
    · exact List.mem_cons_of_mem _ (inv.phase_owned j u y hu hp)
    · exact inv.phase_owned k w y hw' hp
  · intro k w y hw hp by' hby
    obtain ⟨w0, hw0, hph0, hv0, _, _, _, _, _⟩ := same k w hw
    rw [hv0]; exact inv.uniq k w0 y hw0 (hph0 ▸ hp) by' hby
  · intro k w y hw hp
    obtain ⟨w0, hw0, hph0, hv0, hpd0, _, _, _, _⟩ := same k w hw
    obtain ⟨b0, hb0, d1, d2, d3, d4⟩ := inv.dying k w0 y hw0 (hph0 ▸ hp)
    refine ⟨b0, hb0, d1, d2, by rw [hv0, hpd0]; exact d3, ?_⟩
    intro k2 z hk hz
    obtain ⟨z0, hz0, hphz, _, _, _, _, _, _⟩ := same k2 z hz
    rw [hphz]; exact d4 k2 z0 hk hz0
  · intro y by' hby hl e hem
    rcases inv.pub y by' hby hl e hem with h | ⟨k, w, hw, hyo, hev⟩
    · exact Or.inl h
    · refine Or.inr ?_
      by_cases hki : k = i
      · subst hki; rw [ht] at hw; injection hw with hw; subst hw
        have hev : e ∈ t.view := by
          rcases hev with hev | hev
          · exact hev
          · rw [inv.inboxL k t ht (fun y h => by rw [hph] at h; cases h)] at hev; cases hev
        by_cases hya : y = a
        · subst hya; exact ⟨j, _, getj, List.mem_cons_self .., Or.inl (hsub e hev)⟩
        · exact ⟨k, _, geti, (List.mem_erase_of_ne hya).2 hyo, Or.inl hev⟩
      · by_cases hkj : k = j
        · subst hkj; rw [hu] at hw; injection hw with hw; subst hw
          exact ⟨k, _, getj, List.mem_cons_of_mem _ hyo, hev⟩
        · exact ⟨k, w, by rw [geto k hki hkj]; exact hw, hyo, hev⟩
  · intro k w hw y hy by' hby z hz
    obtain ⟨w0, hw0, _, hv0, _, _, hback, hib0, _⟩ := same k w hw
    rw [hv0]
    rcases hback y hy with h | ⟨rfl, rfl⟩
    · exact inv.xseen k w0 hw0 y h by' hby z hz
    · rw [hu] at hw0; injection hw0 with hw0; subst hw0
      exact hsub z (inv.xseen i t ht y ha by' hby z hz)
  · intro k w hw y hy by' hby k2 m hm hm1
    obtain ⟨w0, hw0, _, hv0, _, _, hback, hib0, _⟩ := same k w hw
    rw [hv0]
    rw [hib0]
    rcases hback y hy with h | ⟨rfl, rfl⟩
    · exact inv.coh k w0 hw0 y h by' hby k2 m hm hm1
    · rw [hu] at hw0; injection hw0 with hw0; subst hw0
      obtain ⟨k', m', hk', h1', h2'⟩ := inv.coh i t ht y ha by' hby k2 m hm hm1
      rcases h2' with h2' | h2'
      · exact ⟨k', m', hk', h1', Or.inl (hsub _ h2')⟩
      · rw [inv.inboxL i t ht (fun y h => by rw [hph] at h; cases h)] at h2'; cases h2'
  · -- inboxL
    intro k w hw hnl'
    obtain ⟨w0, hw0, hph0, _, _, _, _, hib0, _⟩ := same k w hw
    rw [hib0]; exact inv.inboxL k w0 hw0 (fun y h => hnl' y (hph0 ▸ h))
  · -- rbl
    intro k w y l hw hp
    obtain ⟨w0, hw0, hph0, hv0, _, _, _, _, _⟩ := same k w hw
    obtain ⟨hlk, z, by0, hz, hzl, hby0, hxs⟩ := inv.rbl k w0 y l hw0 (hph0 ▸ hp)
    refine ⟨hlk, ?_⟩
    rw [hv0]
    by_cases hli : l = i
    · subst hli; rw [ht] at hz; injection hz with hz; subst hz
      exact ⟨{ t with owned := t.owned.erase a }, by0, geti, hzl, hby0, hxs⟩
    · by_cases hlj : l = j
      · subst hlj; rw [hu] at hz; injection hz with hz; subst hz
        exact ⟨{ u with owned := a :: u.owned }, by0, getj, hzl, hby0, hxs⟩
      · exact ⟨z, by0, by rw [geto l hli hlj]; exact hz, hzl, hby0, hxs⟩
  · -- lentx
    intro k w y hw hp by' hby z hz
    obtain ⟨w0, hw0, hph0, _, _, _, _, _, hlv0⟩ := same k w hw
    rw [hlv0]; exact inv.lentx k w0 y hw0 (hph0 ▸ hp) by' hby z hz


/-! ### lending -/

/-- a step that changes only thread `i`, keeping what it owns: bookkeeping shared by `lend` and `reclaim` -/
theorem cnt_same_owned (ts : List Thread) (i : Nat) (t t' : Thread) (y : Nat) (h : ts[i]? = some t)
    (ho : t'.owned = t.owned) : cnt (ts.set i t') y = cnt ts y := by
  have := cnt_set ts i t t' y h
  rw [ho] at this; omega

/-- `lend`: the idle owner freezes its handle; borrowers will synchronise with its present view -/
theorem inv_lend {c : Cfg} {i a : Nat} {t : Thread} (inv : Inv c) (ht : c.threads[i]? = some t)
    (hph : t.phase = .idle) (ha : a ∈ t.owned) :
    Inv { c with threads := c.threads.set i { t with phase := .lending a, lentView := t.view } } := by
  have hin : t.inbox = [] := inv.inboxL i t ht (fun y h => by rw [hph] at h; cases h)
  have thr : ∀ (k : Nat) (w : Thread), (c.threads.set i { t with phase := .lending a, lentView := t.view })[k]? = some w →
      (k = i ∧ w = { t with phase := .lending a, lentView := t.view }) ∨ (k ≠ i ∧ c.threads[k]? = some w) := by
    intro k w hw
    rcases set_cases ht hw with ⟨hk, rfl⟩ | ⟨hk, hw'⟩
    · exact Or.inl ⟨hk, rfl⟩
    · exact Or.inr ⟨hk, hw'⟩
  refine ⟨inv.nobad, ?_, ?_, ?_, ?_, ?_, ?_, ?_, ?_, ?_, ?_, ?_⟩
  · intro y by' hby hl
    dsimp only at hby ⊢
    rw [cnt_same_owned c.threads i t { t with phase := .lending a, lentView := t.view } y ht rfl]; exact inv.count y by' hby hl
  · intro k w hw y hy
    rcases thr k w hw with ⟨_, rfl⟩ | ⟨_, hw'⟩
    · exact inv.owned_live i t ht y hy
    · exact inv.owned_live k w hw' y hy
  · intro k w y hw hp
    rcases thr k w hw with ⟨_, rfl⟩ | ⟨_, hw'⟩
    · rcases hp with h | h | h | h | h <;> (try cases h)
      exact ha
    · exact inv.phase_owned k w y hw' hp
  · intro k w y hw hp by' hby
    rcases thr k w hw with ⟨_, rfl⟩ | ⟨_, hw'⟩
    · cases hp
    · exact inv.uniq k w y hw' hp by' hby
  · intro k w y hw hp
    rcases thr k w hw with ⟨_, rfl⟩ | ⟨hk, hw'⟩
    · cases hp
    · obtain ⟨b0, hb0, d1, d2, d3, d4⟩ := inv.dying k w y hw' hp
      refine ⟨b0, hb0, d1, d2, d3, ?_⟩
      intro k2 z hk2 hz
      rcases thr k2 z hz with ⟨_, rfl⟩ | ⟨_, hz'⟩
      · intro h; cases h
      · exact d4 k2 z hk2 hz'
  · intro y by' hby hl e hem
    rcases inv.pub y by' hby hl e hem with h | ⟨k, w, hw, hyo, hev⟩
    · exact Or.inl h
    · by_cases hki : k = i
      · subst hki; rw [ht] at hw; injection hw with hw; subst hw
        exact Or.inr ⟨k, _, set_self ht, hyo, hev⟩
      · exact Or.inr ⟨k, w, by dsimp only; rw [set_other hki]; exact hw, hyo, hev⟩
  · intro k w hw y hy by' hby z hz
    rcases thr k w hw with ⟨_, rfl⟩ | ⟨_, hw'⟩
    · exact inv.xseen i t ht y hy by' hby z hz
    · exact inv.xseen k w hw' y hy by' hby z hz
  · intro k w hw y hy by' hby k2 m hm hm1
    rcases thr k w hw with ⟨_, rfl⟩ | ⟨_, hw'⟩
    · exact inv.coh i t ht y hy by' hby k2 m hm hm1
    · exact inv.coh k w hw' y hy by' hby k2 m hm hm1
  · intro k w hw hnl'
    rcases thr k w hw with ⟨_, rfl⟩ | ⟨_, hw'⟩
    · exact absurd rfl (hnl' a)
    · exact inv.inboxL k w hw' hnl'
  · intro k w y l hw hp
    rcases thr k w hw with ⟨_, rfl⟩ | ⟨hk, hw'⟩
    · cases hp
    · obtain ⟨hlk, z, by0, hz, hzl, hby0, hxs⟩ := inv.rbl k w y l hw' hp
      have hli : l ≠ i := by
        intro e; subst e; rw [ht] at hz; injection hz with hz; subst hz; rw [hph] at hzl; cases hzl
      exact ⟨hlk, z, by0, by dsimp only; rw [set_other hli]; exact hz, hzl, hby0, hxs⟩
  · intro k w y hw hp by' hby z hz
    rcases thr k w hw with ⟨_, rfl⟩ | ⟨_, hw'⟩
    · injection hp with hp; subst hp
      exact inv.xseen i t ht _ ha by' hby z hz
    · exact inv.lentx k w y hw' hp by' hby z hz

/-- `reclaim`: no borrowed read through this handle is in progress; what the borrowers did now
happens before the owner's continuation -/
theorem inv_reclaim {c : Cfg} {i a : Nat} {t : Thread} (inv : Inv c) (ht : c.threads[i]? = some t)
    (hph : t.phase = .lending a)
    (hno : ∀ (k : Nat) (w : Thread), c.threads[k]? = some w → w.phase ≠ .readingB a i) :
    Inv { c with threads := c.threads.set i { owned := t.owned, phase := .idle, view := t.view ++ t.inbox, pend := t.pend } } := by
  have thr : ∀ (k : Nat) (w : Thread),
      (c.threads.set i { owned := t.owned, phase := .idle, view := t.view ++ t.inbox, pend := t.pend })[k]? = some w →
      (k = i ∧ w = { owned := t.owned, phase := .idle, view := t.view ++ t.inbox, pend := t.pend }) ∨ (k ≠ i ∧ c.threads[k]? = some w) := by
    intro k w hw
    rcases set_cases ht hw with ⟨hk, rfl⟩ | ⟨hk, hw'⟩
    · exact Or.inl ⟨hk, rfl⟩
    · exact Or.inr ⟨hk, hw'⟩
  refine ⟨inv.nobad, ?_, ?_, ?_, ?_, ?_, ?_, ?_, ?_, ?_, ?_, ?_⟩
  · intro y by' hby hl
    dsimp only at hby ⊢
    rw [cnt_same_owned c.threads i t { owned := t.owned, phase := .idle, view := t.view ++ t.inbox, pend := t.pend } y ht rfl]
    exact inv.count y by' hby hl
  · intro k w hw y hy
    rcases thr k w hw with ⟨_, rfl⟩ | ⟨_, hw'⟩
    · exact inv.owned_live i t ht y hy
    · exact inv.owned_live k w hw' y hy
  · intro k w y hw hp
    rcases thr k w hw with ⟨_, rfl⟩ | ⟨_, hw'⟩
    · rcases hp with h | h | h | h | h <;> cases h
    · exact inv.phase_owned k w y hw' hp
  · intro k w y hw hp by' hby
    rcases thr k w hw with ⟨_, rfl⟩ | ⟨_, hw'⟩
    · cases hp
    · exact inv.uniq k w y hw' hp by' hby
  · intro k w y hw hp
    rcases thr k w hw with ⟨_, rfl⟩ | ⟨hk, hw'⟩
    · cases hp
    · obtain ⟨b0, hb0, d1, d2, d3, d4⟩ := inv.dying k w y hw' hp
      refine ⟨b0, hb0, d1, d2, d3, ?_⟩
      intro k2 z hk2 hz
      rcases thr k2 z hz with ⟨_, rfl⟩ | ⟨_, hz'⟩
      · intro h; cases h
      · exact d4 k2 z hk2 hz'
  · intro y by' hby hl e hem
    rcases inv.pub y by' hby hl e hem with h | ⟨k, w, hw, hyo, hev⟩
    · exact Or.inl h
    · by_cases hki : k = i
      · subst hki; rw [ht] at hw; injection hw with hw; subst hw
        refine Or.inr ⟨k, _, set_self ht, hyo, Or.inl ?_⟩
        rcases hev with hev | hev
        · exact List.mem_append_left _ hev
        · exact List.mem_append_right _ hev
      · exact Or.inr ⟨k, w, by dsimp only; rw [set_other hki]; exact hw, hyo, hev⟩
  · intro k w hw y hy by' hby z hz
    rcases thr k w hw with ⟨_, rfl⟩ | ⟨_, hw'⟩
    · exact List.mem_append_left _ (inv.xseen i t ht y hy by' hby z hz)
    · exact inv.xseen k w hw' y hy by' hby z hz
  · intro k w hw y hy by' hby k2 m hm hm1
    rcases thr k w hw with ⟨_, rfl⟩ | ⟨_, hw'⟩
    · obtain ⟨k', m', hk', h1', h2'⟩ := inv.coh i t ht y hy by' hby k2 m hm hm1
      refine ⟨k', m', hk', h1', Or.inl ?_⟩
      rcases h2' with h2' | h2'
      · exact List.mem_append_left _ h2'
      · exact List.mem_append_right _ h2'
    · exact inv.coh k w hw' y hy by' hby k2 m hm hm1
  · intro k w hw hnl'
    rcases thr k w hw with ⟨_, rfl⟩ | ⟨_, hw'⟩
    · rfl
    · exact inv.inboxL k w hw' hnl'
  · intro k w y l hw hp
    rcases thr k w hw with ⟨_, rfl⟩ | ⟨hk, hw'⟩
    · cases hp
    · obtain ⟨hlk, z, by0, hz, hzl, hby0, hxs⟩ := inv.rbl k w y l hw' hp
      have hli : l ≠ i := by
        intro e; subst e; rw [ht] at hz; injection hz with hz; subst hz
        rw [hph] at hzl; injection hzl with hzl; subst hzl
        exact hno k w hw' hp
      exact ⟨hlk, z, by0, by dsimp only; rw [set_other hli]; exact hz, hzl, hby0, hxs⟩
  · intro k w y hw hp by' hby z hz
    rcases thr k w hw with ⟨_, rfl⟩ | ⟨_, hw'⟩
    · cases hp
    · exact inv.lentx k w y hw' hp by' hby z hz


/-- two threads change: `i` (the borrower) and `l` (the lender, whose inbox grows) -/
theorem thr2 {ts : List Thread} {i l : Nat} {t u T' U' : Thread} (hli : l ≠ i) (ht : ts[i]? = some t) (hu : ts[l]? = some u) :
    ((ts.set i T').set l U')[l]? = some U' ∧ ((ts.set i T').set l U')[i]? = some T' ∧
    (∀ k, k ≠ i → k ≠ l → ((ts.set i T').set l U')[k]? = ts[k]?) ∧
    (∀ (k : Nat) (w : Thread), ((ts.set i T').set l U')[k]? = some w →
      (k = l ∧ w = U') ∨ (k = i ∧ w = T') ∨ (k ≠ i ∧ k ≠ l ∧ ts[k]? = some w)) := by
  have hu1 : (ts.set i T')[l]? = some u := by rw [set_other hli]; exact hu
  refine ⟨set_self hu1, by rw [set_other (Ne.symm hli)]; exact set_self ht, fun k h1 h2 => by rw [set_other h2, set_other h1], ?_⟩
  intro k w hw
  rcases set_cases hu1 hw with ⟨hk, rfl⟩ | ⟨hk, hw'⟩
  · exact Or.inl ⟨hk, rfl⟩
  · rcases set_cases ht hw' with ⟨hk2, rfl⟩ | ⟨hk2, hw''⟩
    · exact Or.inr (Or.inl ⟨hk2, rfl⟩)
    · exact Or.inr (Or.inr ⟨hk2, hk, hw''⟩)

theorem cnt_two_set (ts : List Thread) (i l : Nat) (t u T' U' : Thread) (y : Nat) (hli : l ≠ i)
    (ht : ts[i]? = some t) (hu : ts[l]? = some u) (hU : U'.owned = u.owned) :
    cnt ((ts.set i T').set l U') y + t.owned.count y = cnt ts y + T'.owned.count y := by
  have hu1 : (ts.set i T')[l]? = some u := by rw [set_other hli]; exact hu
  have c1 := cnt_set ts i t T' y ht
  have c2 := cnt_set (ts.set i T') l u U' y hu1
  rw [hU] at c2; omega

/-- a read through a borrowed reference (`readBStart`, `readBEnd`): a shared access of `a` by a thread
that need not own it; the lender's inbox records it -/
theorem inv_bevent {c : Cfg} {i l a : Nat} {t u : Thread} {b : Blk} (inv : Inv c) (hli : l ≠ i)
    (ht : c.threads[i]? = some t) (hu : c.threads[l]? = some u) (hul : u.phase = .lending a)
    (hb : c.blocks[a]? = some b) (p' : Phase) (v' : List Nat) (ok : Bool)
    (hv : ∀ e ∈ t.view, e ∈ v') (he : c.clock ∈ v') (hxs : ∀ x ∈ b.xevs, x ∈ v')
    (hp' : p' = .idle ∨ p' = .readingB a l) (htp : t.phase = .idle ∨ t.phase = .readingB a l) (hok : ok = true) :
    Inv { blocks := c.blocks.set a (b.event c.clock false),
          threads := (c.threads.set i { t with phase := p', view := v' }).set l { u with inbox := v' ++ u.inbox },
          clock := c.clock + 1, bad := c.bad || !ok } := by
  have hnlt : ∀ y, t.phase ≠ .lending y := by intro y h; rcases htp with h' | h' <;> (rw [h'] at h; cases h)
  have hin : t.inbox = [] := inv.inboxL i t ht hnlt
  have hau : a ∈ u.owned := inv.phase_owned l u a hu (Or.inr (Or.inr (Or.inr (Or.inr hul))))
  obtain ⟨hbl, _⟩ := inv.top_cnt hu hau hb
  obtain ⟨getl, geti, geto, thr⟩ := thr2 (T' := { t with phase := p', view := v' }) (U' := { u with inbox := v' ++ u.inbox }) hli ht hu
  -- what a thread of the new configuration was, and what it still knows
  have back : ∀ (k : Nat) (w : Thread),
      ((c.threads.set i { t with phase := p', view := v' }).set l { u with inbox := v' ++ u.inbox })[k]? = some w →
      ∃ w0, c.threads[k]? = some w0 ∧ w.owned = w0.owned ∧ w.pend = w0.pend ∧ w.lentView = w0.lentView ∧
        (∀ e, e ∈ w0.view → e ∈ w.view) ∧ (∀ e, e ∈ w0.inbox → e ∈ w.inbox) ∧
        ((k = l ∧ w.phase = w0.phase ∧ w.view = w0.view) ∨ (k = i ∧ w.phase = p' ∧ w.view = v') ∨ (k ≠ i ∧ k ≠ l ∧ w = w0)) := by
    intro k w hw
    rcases thr k w hw with ⟨hk, rfl⟩ | ⟨hk, rfl⟩ | ⟨h1, h2, hw'⟩
    · exact ⟨u, hk ▸ hu, rfl, rfl, rfl, fun e h => h, fun e h => List.mem_append_right _ h, Or.inl ⟨hk, rfl, rfl⟩⟩
    · exact ⟨t, hk ▸ ht, rfl, rfl, rfl, hv, fun e h => h, Or.inr (Or.inl ⟨hk, rfl, rfl⟩)⟩
    · exact ⟨w, hw', rfl, rfl, rfl, fun e h => h, fun e h => h, Or.inr (Or.inr ⟨h1, h2, rfl⟩)⟩
  have fwd : ∀ (k : Nat) (w0 : Thread), c.threads[k]? = some w0 →
      ∃ w, ((c.threads.set i { t with phase := p', view := v' }).set l { u with inbox := v' ++ u.inbox })[k]? = some w ∧
        w.owned = w0.owned ∧ (∀ e, e ∈ w0.view → e ∈ w.view) ∧ (∀ e, e ∈ w0.inbox → e ∈ w.inbox) := by
    intro k w0 hw0
    by_cases hkl : k = l
    · subst hkl; rw [hu] at hw0; injection hw0 with hw0; subst hw0
      exact ⟨_, getl, rfl, fun e h => h, fun e h => List.mem_append_right _ h⟩
    · by_cases hki : k = i
      · subst hki; rw [ht] at hw0; injection hw0 with hw0; subst hw0
        exact ⟨_, geti, rfl, hv, fun e h => h⟩
      · exact ⟨w0, by rw [geto k hki hkl]; exact hw0, rfl, fun e h => h, fun e h => h⟩
  -- a block of the new configuration
  have blk : ∀ (y : Nat) (by' : Blk), (c.blocks.set a (b.event c.clock false))[y]? = some by' →
      (y = a ∧ by' = b.event c.clock false) ∨ (y ≠ a ∧ c.blocks[y]? = some by') := by
    intro y by' h
    rcases set_cases hb h with ⟨h1, h2⟩ | ⟨h1, h2⟩
    · exact Or.inl ⟨h1, h2⟩
    · exact Or.inr ⟨h1, h2⟩
  have pnot : (∀ y, p' ≠ .unique y) ∧ (∀ y, p' ≠ .dying y) ∧ (∀ y, p' ≠ .lending y) ∧ (∀ y, ¬ p'.needsHandle y) := by
    rcases hp' with rfl | rfl
    · refine ⟨?_, ?_, ?_, ?_⟩
      · intro _ h; cases h
      · intro _ h; cases h
      · intro _ h; cases h
      · intro _ h; rcases h with h | h | h | h | h <;> cases h
    · refine ⟨?_, ?_, ?_, ?_⟩
      · intro _ h; cases h
      · intro _ h; cases h
      · intro _ h; cases h
      · intro _ h; rcases h with h | h | h | h | h <;> cases h
  refine ⟨?_, ?_, ?_, ?_, ?_, ?_, ?_, ?_, ?_, ?_, ?_, ?_⟩
  · simp [inv.nobad, hok]
  · intro y by' hby hl
    dsimp only at hby ⊢
    have hc := cnt_two_set c.threads i l t u { t with phase := p', view := v' } { u with inbox := v' ++ u.inbox } y hli ht hu rfl
    dsimp only at hc
    rcases blk y by' hby with ⟨rfl, rfl⟩ | ⟨_, hby'⟩
    · have := inv.count y b hb hbl; show b.top.val = _; omega
    · have := inv.count y by' hby' hl; omega
  · intro k w hw y hy
    dsimp only at hw ⊢
    obtain ⟨w0, hw0, ho, _⟩ := back k w hw
    obtain ⟨b0, hb0, hl0⟩ := inv.owned_live k w0 hw0 y (ho ▸ hy)
    by_cases hya : y = a
    · subst hya; exact ⟨_, set_self hb, hbl⟩
    · exact ⟨b0, by rw [set_other hya]; exact hb0, hl0⟩
  · intro k w y hw hp
    dsimp only at hw
    obtain ⟨w0, hw0, ho, _, _, _, _, hcase⟩ := back k w hw
    rcases hcase with ⟨_, hph, _⟩ | ⟨_, hph, _⟩ | ⟨_, _, rfl⟩
    · rw [ho]; exact inv.phase_owned k w0 y hw0 (hph ▸ hp)
    · exact absurd (hph ▸ hp) (pnot.2.2.2 y)
    · exact inv.phase_owned k w y hw0 hp
  · intro k w y hw hp by' hby
    dsimp only at hw hby
    obtain ⟨w0, hw0, _, _, _, _, _, hcase⟩ := back k w hw
    rcases hcase with ⟨hk, hph, _⟩ | ⟨_, hph, _⟩ | ⟨_, hkl, rfl⟩
    · subst hk; rw [hph] at hp; rw [hu] at hw0; injection hw0 with hw0; subst hw0; rw [hul] at hp; cases hp
    · exact absurd (hph ▸ hp) (pnot.1 y)
    · have hya : y ≠ a := fun e => no_unique_if_owned inv hkl hu hw0 hau (e ▸ hp)
      rw [set_other hya] at hby
      exact inv.uniq k w y hw0 hp by' hby
  · intro k w y hw hp
    dsimp only at hw ⊢
    obtain ⟨w0, hw0, _, _, _, _, _, hcase⟩ := back k w hw
    rcases hcase with ⟨hk, hph, _⟩ | ⟨_, hph, _⟩ | ⟨_, hkl, rfl⟩
    · subst hk; rw [hph] at hp; rw [hu] at hw0; injection hw0 with hw0; subst hw0; rw [hul] at hp; cases hp
    · exact absurd (hph ▸ hp) (pnot.2.1 y)
    · have hya : y ≠ a := fun e => no_dying_if_owned inv hu hw0 hau (e ▸ hp)
      obtain ⟨b0, hb0, d1, d2, d3, d4⟩ := inv.dying k w y hw0 hp
      refine ⟨b0, by rw [set_other hya]; exact hb0, d1, d2, d3, ?_⟩
      intro k2 z hk2 hz
      obtain ⟨z0, hz0, _, _, _, _, _, hcz⟩ := back k2 z hz
      rcases hcz with ⟨_, hph, _⟩ | ⟨_, hph, _⟩ | ⟨_, _, rfl⟩
      · rw [hph]; exact d4 k2 z0 hk2 hz0
      · rw [hph]; exact pnot.2.1 y
      · exact d4 k2 z hk2 hz0
  · intro y by' hby hl e hem
    dsimp only at hby ⊢
    have wit : ∀ (k : Nat) (w0 : Thread), c.threads[k]? = some w0 → y ∈ w0.owned → (e ∈ w0.view ∨ e ∈ w0.inbox) →
        ∃ (k : Nat) (w : Thread), ((c.threads.set i { t with phase := p', view := v' }).set l { u with inbox := v' ++ u.inbox })[k]? = some w ∧
          y ∈ w.owned ∧ (e ∈ w.view ∨ e ∈ w.inbox) := by
      intro k w0 hw0 hyo hev
      obtain ⟨w, hw, ho, h1, h2⟩ := fwd k w0 hw0
      exact ⟨k, w, hw, ho ▸ hyo, hev.elim (fun h => Or.inl (h1 e h)) (fun h => Or.inr (h2 e h))⟩
    rcases blk y by' hby with ⟨rfl, rfl⟩ | ⟨_, hby'⟩
    · rcases List.mem_cons.1 hem with rfl | hem'
      · exact Or.inr ⟨l, _, getl, hau, Or.inr (List.mem_append_left _ he)⟩
      · rcases inv.pub y b hb hbl e hem' with h | ⟨k, w0, hw0, hyo, hev⟩
        · exact Or.inl h
        · exact Or.inr (wit k w0 hw0 hyo hev)
    · rcases inv.pub y by' hby' hl e hem with h | ⟨k, w0, hw0, hyo, hev⟩
      · exact Or.inl h
      · exact Or.inr (wit k w0 hw0 hyo hev)
  · intro k w hw y hy by' hby z hz
    dsimp only at hw hby
    obtain ⟨w0, hw0, ho, _, _, hvw, _, _⟩ := back k w hw
    rcases blk y by' hby with ⟨rfl, rfl⟩ | ⟨_, hby'⟩
    · exact hvw z (inv.xseen k w0 hw0 y (ho ▸ hy) b hb z hz)
    · exact hvw z (inv.xseen k w0 hw0 y (ho ▸ hy) by' hby' z hz)
  · intro k w hw y hy by' hby k2 m hm hm1
    dsimp only at hw hby
    obtain ⟨w0, hw0, ho, _, _, hvw, hiw, _⟩ := back k w hw
    have key : ∀ b0, c.blocks[y]? = some b0 → mo by' = mo b0 →
        ∃ k' m', k' ≤ k2 ∧ (mo by')[k']? = some m' ∧ (m'.id ∈ w.view ∨ m'.id ∈ w.inbox) := by
      intro b0 hb0 hmo
      rw [hmo] at hm ⊢
      obtain ⟨k', m', hk', h1', h2'⟩ := inv.coh k w0 hw0 y (ho ▸ hy) b0 hb0 k2 m hm hm1
      exact ⟨k', m', hk', h1', h2'.elim (fun h => Or.inl (hvw _ h)) (fun h => Or.inr (hiw _ h))⟩
    rcases blk y by' hby with ⟨rfl, rfl⟩ | ⟨_, hby'⟩
    · exact key b hb rfl
    · exact key by' hby' rfl
  · -- inboxL
    intro k w hw hnl'
    dsimp only at hw
    obtain ⟨w0, hw0, _, _, _, _, _, hcase⟩ := back k w hw
    rcases thr k w hw with ⟨_, rfl⟩ | ⟨_, rfl⟩ | ⟨_, _, hw'⟩
    · exact absurd hul (hnl' a)
    · exact hin
    · exact inv.inboxL k w hw' hnl'
  · -- rbl
    intro k w y l2 hw hp
    dsimp only at hw ⊢
    -- the lender of a borrowed read is still lending
    have lender : ∀ (z : Thread), c.threads[l2]? = some z → z.phase = .lending y →
        ∃ z', ((c.threads.set i { t with phase := p', view := v' }).set l { u with inbox := v' ++ u.inbox })[l2]? = some z' ∧ z'.phase = .lending y := by
      intro z hz hzl
      by_cases h2l : l2 = l
      · subst h2l; rw [hu] at hz; injection hz with hz; subst hz; exact ⟨_, getl, hzl⟩
      · have h2i : l2 ≠ i := by
          intro e; subst e; rw [ht] at hz; injection hz with hz; subst hz; exact hnlt y hzl
        exact ⟨z, by rw [geto l2 h2i h2l]; exact hz, hzl⟩
    rcases thr k w hw with ⟨_, rfl⟩ | ⟨hki, rfl⟩ | ⟨hk1, hk2, hw'⟩
    · rw [show ({ u with inbox := v' ++ u.inbox } : Thread).phase = u.phase from rfl, hul] at hp; cases hp
    · rcases hp' with rfl | rfl
      · cases hp
      · injection hp with h1 h2; subst h1; subst h2
        exact ⟨hki ▸ hli, _, _, getl, hul, set_self hb, hxs⟩
    · obtain ⟨hlk, z, by0, hz, hzl, hby0, hxs0⟩ := inv.rbl k w y l2 hw' hp
      obtain ⟨z', hz', hzl'⟩ := lender z hz hzl
      refine ⟨hlk, z', ?_⟩
      by_cases hya : y = a
      · subst hya; rw [hb] at hby0; injection hby0 with hby0; subst hby0
        exact ⟨_, hz', hzl', set_self hb, hxs0⟩
      · exact ⟨by0, hz', hzl', by rw [set_other hya]; exact hby0, hxs0⟩
  · -- lentx
    intro k w y hw hp by' hby z hz
    dsimp only at hw hby
    obtain ⟨w0, hw0, _, _, hlv, _, _, hcase⟩ := back k w hw
    have hp0 : w0.phase = .lending y := by
      rcases hcase with ⟨_, hph, _⟩ | ⟨_, hph, _⟩ | ⟨_, _, rfl⟩
      · exact hph ▸ hp
      · exact absurd (hph ▸ hp) (pnot.2.2.1 y)
      · exact hp
    rw [hlv]
    rcases blk y by' hby with ⟨rfl, rfl⟩ | ⟨_, hby'⟩
    · exact inv.lentx k w0 y hw0 hp0 b hb z hz
    · exact inv.lentx k w0 y hw0 hp0 by' hby' z hz


/-- `cloneB`: the `fetch_add` through a borrowed reference — the borrower becomes an owner -/
theorem inv_cloneB {c : Cfg} {i l a : Nat} {t u : Thread} {b : Blk} (inv : Inv c) (hli : l ≠ i)
    (ht : c.threads[i]? = some t) (hu : c.threads[l]? = some u) (hul : u.phase = .lending a)
    (hb : c.blocks[a]? = some b) (hph : t.phase = .idle) (vv v1 pd : List Nat) (rel ok : Bool)
    (hv : ∀ e ∈ t.view, e ∈ vv) (he : c.clock ∈ vv) (hlv : ∀ e ∈ u.lentView, e ∈ vv) (he1 : c.clock ∈ v1) (hok : ok = true) :
    Inv { blocks := c.blocks.set a (b.rmw (· + 1) rel v1 c.clock),
          threads := (c.threads.set i { owned := a :: t.owned, phase := .idle, view := vv, pend := pd }).set l
                       { u with inbox := v1 ++ u.inbox },
          clock := c.clock + 1, bad := c.bad || !ok } := by
  have hnlt : ∀ y, t.phase ≠ .lending y := by intro y h; rw [hph] at h; cases h
  have hin : t.inbox = [] := inv.inboxL i t ht hnlt
  have hau : a ∈ u.owned := inv.phase_owned l u a hu (Or.inr (Or.inr (Or.inr (Or.inr hul))))
  obtain ⟨hbl, hcnt⟩ := inv.top_cnt hu hau hb
  obtain ⟨getl, geti, geto, thr⟩ := thr2 (T' := { owned := a :: t.owned, phase := .idle, view := vv, pend := pd })
    (U' := { u with inbox := v1 ++ u.inbox }) hli ht hu
  have back : ∀ (k : Nat) (w : Thread),
      ((c.threads.set i { owned := a :: t.owned, phase := .idle, view := vv, pend := pd }).set l { u with inbox := v1 ++ u.inbox })[k]? = some w →
      ∃ w0, c.threads[k]? = some w0 ∧ (∀ y, y ∈ w.owned → y ∈ w0.owned ∨ (y = a ∧ k = i)) ∧
        (∀ e, e ∈ w0.view → e ∈ w.view) ∧ (∀ e, e ∈ w0.inbox → e ∈ w.inbox) ∧
        ((k = l ∧ w.phase = w0.phase ∧ w.view = w0.view ∧ w.lentView = w0.lentView ∧ w.pend = w0.pend) ∨
         (k = i ∧ w.phase = .idle ∧ w.view = vv) ∨ (k ≠ i ∧ k ≠ l ∧ w = w0)) := by
    intro k w hw
    rcases thr k w hw with ⟨hk, rfl⟩ | ⟨hk, rfl⟩ | ⟨h1, h2, hw'⟩
    · exact ⟨u, hk ▸ hu, fun y h => Or.inl h, fun e h => h, fun e h => List.mem_append_right _ h, Or.inl ⟨hk, rfl, rfl, rfl, rfl⟩⟩
    · refine ⟨t, hk ▸ ht, fun y h => ?_, hv, fun e h => (by rw [hin] at h; cases h), Or.inr (Or.inl ⟨hk, rfl, rfl⟩)⟩
      rcases List.mem_cons.1 h with rfl | h'
      · exact Or.inr ⟨rfl, hk⟩
      · exact Or.inl h'
    · exact ⟨w, hw', fun y h => Or.inl h, fun e h => h, fun e h => h, Or.inr (Or.inr ⟨h1, h2, rfl⟩)⟩
  have fwd : ∀ (k : Nat) (w0 : Thread), c.threads[k]? = some w0 →
      ∃ w, ((c.threads.set i { owned := a :: t.owned, phase := .idle, view := vv, pend := pd }).set l { u with inbox := v1 ++ u.inbox })[k]? = some w ∧
        (∀ y, y ∈ w0.owned → y ∈ w.owned) ∧ (∀ e, e ∈ w0.view → e ∈ w.view) ∧ (∀ e, e ∈ w0.inbox → e ∈ w.inbox) := by
    intro k w0 hw0
    by_cases hkl : k = l
    · subst hkl; rw [hu] at hw0; injection hw0 with hw0; subst hw0
      exact ⟨_, getl, fun y h => h, fun e h => h, fun e h => List.mem_append_right _ h⟩
    · by_cases hki : k = i
      · subst hki; rw [ht] at hw0; injection hw0 with hw0; subst hw0
        exact ⟨_, geti, fun y h => List.mem_cons_of_mem _ h, hv, fun e h => (by rw [hin] at h; cases h)⟩
      · exact ⟨w0, by rw [geto k hki hkl]; exact hw0, fun y h => h, fun e h => h, fun e h => h⟩
  have blk : ∀ (y : Nat) (by' : Blk), (c.blocks.set a (b.rmw (· + 1) rel v1 c.clock))[y]? = some by' →
      (y = a ∧ by' = b.rmw (· + 1) rel v1 c.clock) ∨ (y ≠ a ∧ c.blocks[y]? = some by') := by
    intro y by' h
    rcases set_cases hb h with ⟨h1, h2⟩ | ⟨h1, h2⟩
    · exact Or.inl ⟨h1, h2⟩
    · exact Or.inr ⟨h1, h2⟩
  refine ⟨?_, ?_, ?_, ?_, ?_, ?_, ?_, ?_, ?_, ?_, ?_, ?_⟩
  · simp [inv.nobad, hok]
  · intro y by' hby hl
    dsimp only at hby ⊢
    have hc := cnt_two_set c.threads i l t u { owned := a :: t.owned, phase := .idle, view := vv, pend := pd }
      { u with inbox := v1 ++ u.inbox } y hli ht hu rfl
    dsimp only at hc
    rcases blk y by' hby with ⟨rfl, rfl⟩ | ⟨hya, hby'⟩
    · simp only [List.count_cons_self] at hc
      show b.top.val + 1 = _; omega
    · have := inv.count y by' hby' hl
      simp only [List.count_cons_of_ne (Ne.symm hya)] at hc
      omega
  · intro k w hw y hy
    dsimp only at hw ⊢
    obtain ⟨w0, hw0, hown, _⟩ := back k w hw
    have hyo : ∃ b0, c.blocks[y]? = some b0 ∧ b0.live = true := by
      rcases hown y hy with h | ⟨rfl, _⟩
      · exact inv.owned_live k w0 hw0 y h
      · exact ⟨b, hb, hbl⟩
    obtain ⟨b0, hb0, hl0⟩ := hyo
    by_cases hya : y = a
    · subst hya; exact ⟨_, set_self hb, hbl⟩
    · exact ⟨b0, by rw [set_other hya]; exact hb0, hl0⟩
  · intro k w y hw hp
    dsimp only at hw
    rcases thr k w hw with ⟨hk, rfl⟩ | ⟨_, rfl⟩ | ⟨_, _, hw'⟩
    · exact inv.phase_owned l u y hu hp
    · rcases hp with h | h | h | h | h <;> cases h
    · exact inv.phase_owned k w y hw' hp
  · intro k w y hw hp by' hby
    dsimp only at hw hby
    rcases thr k w hw with ⟨hk, rfl⟩ | ⟨_, rfl⟩ | ⟨_, hkl, hw'⟩
    · rw [show ({ u with inbox := v1 ++ u.inbox } : Thread).phase = u.phase from rfl, hul] at hp; cases hp
    · cases hp
    · have hya : y ≠ a := fun e => no_unique_if_owned inv hkl hu hw' hau (e ▸ hp)
      rw [set_other hya] at hby
      exact inv.uniq k w y hw' hp by' hby
  · intro k w y hw hp
    dsimp only at hw ⊢
    rcases thr k w hw with ⟨hk, rfl⟩ | ⟨_, rfl⟩ | ⟨_, hkl, hw'⟩
    · rw [show ({ u with inbox := v1 ++ u.inbox } : Thread).phase = u.phase from rfl, hul] at hp; cases hp
    · cases hp
    · have hya : y ≠ a := fun e => no_dying_if_owned inv hu hw' hau (e ▸ hp)
      obtain ⟨b0, hb0, d1, d2, d3, d4⟩ := inv.dying k w y hw' hp
      refine ⟨b0, by rw [set_other hya]; exact hb0, d1, d2, d3, ?_⟩
      intro k2 z hk2 hz
      rcases thr k2 z hz with ⟨_, rfl⟩ | ⟨_, rfl⟩ | ⟨_, _, hz'⟩
      · rw [show ({ u with inbox := v1 ++ u.inbox } : Thread).phase = u.phase from rfl, hul]; intro h; cases h
      · intro h; cases h
      · exact d4 k2 z hk2 hz'
  · intro y by' hby hl e hem
    dsimp only at hby ⊢
    have wit : ∀ (k : Nat) (w0 : Thread), c.threads[k]? = some w0 → y ∈ w0.owned → (e ∈ w0.view ∨ e ∈ w0.inbox) →
        ∃ (k : Nat) (w : Thread), ((c.threads.set i { owned := a :: t.owned, phase := .idle, view := vv, pend := pd }).set l { u with inbox := v1 ++ u.inbox })[k]? = some w ∧
          y ∈ w.owned ∧ (e ∈ w.view ∨ e ∈ w.inbox) := by
      intro k w0 hw0 hyo hev
      obtain ⟨w, hw, ho, h1, h2⟩ := fwd k w0 hw0
      exact ⟨k, w, hw, ho y hyo, hev.elim (fun h => Or.inl (h1 e h)) (fun h => Or.inr (h2 e h))⟩
    rcases blk y by' hby with ⟨rfl, rfl⟩ | ⟨_, hby'⟩
    · have hem2 : e ∈ c.clock :: b.evs := hem
      rcases List.mem_cons.1 hem2 with rfl | hem'
      · exact Or.inr ⟨i, _, geti, List.mem_cons_self .., Or.inl he⟩
      · rcases inv.pub y b hb hbl e hem' with h | ⟨k, w0, hw0, hyo, hev⟩
        · exact Or.inl (top_view_rmw b _ _ _ _ e h)
        · exact Or.inr (wit k w0 hw0 hyo hev)
    · rcases inv.pub y by' hby' hl e hem with h | ⟨k, w0, hw0, hyo, hev⟩
      · exact Or.inl h
      · exact Or.inr (wit k w0 hw0 hyo hev)
  · intro k w hw y hy by' hby z hz
    dsimp only at hw hby
    obtain ⟨w0, hw0, hown, hvw, _, hcase⟩ := back k w hw
    have hxe : ∀ b0, c.blocks[y]? = some b0 → by'.xevs = b0.xevs → z ∈ w.view := by
      intro b0 hb0 hxs
      rw [hxs] at hz
      rcases hown y hy with h | ⟨rfl, rfl⟩
      · exact hvw z (inv.xseen k w0 hw0 y h b0 hb0 z hz)
      · -- the new owner: everything exclusive is in the lender's lent view
        rw [hb] at hb0; injection hb0 with hb0; subst hb0
        rcases hcase with ⟨h, _⟩ | ⟨_, _, hvv⟩ | ⟨h, _⟩
        · exact absurd h (Ne.symm hli)
        · rw [hvv]; exact hlv z (inv.lentx l u y hu hul b hb z hz)
        · exact absurd rfl h
    rcases blk y by' hby with ⟨rfl, rfl⟩ | ⟨_, hby'⟩
    · exact hxe b hb rfl
    · exact hxe by' hby' rfl
  · intro k w hw y hy by' hby k2 m hm hm1
    dsimp only at hw hby
    obtain ⟨w0, hw0, hown, hvw, hiw, hcase⟩ := back k w hw
    -- what the thread knew as an owner before
    have old : y ∈ w0.owned → ∀ b0, c.blocks[y]? = some b0 → ∀ k3, (mo b0)[k3 + 1]? = some m →
        ∃ k' m', k' ≤ k3 ∧ (mo b0)[k']? = some m' ∧ (m'.id ∈ w.view ∨ m'.id ∈ w.inbox) := by
      intro hy0 b0 hb0 k3 hm3
      obtain ⟨k', m', hk', h1', h2'⟩ := inv.coh k w0 hw0 y hy0 b0 hb0 k3 m hm3 hm1
      exact ⟨k', m', hk', h1', h2'.elim (fun h => Or.inl (hvw _ h)) (fun h => Or.inr (hiw _ h))⟩
    rcases blk y by' hby with ⟨rfl, rfl⟩ | ⟨hya, hby'⟩
    · rw [mo_rmw] at hm ⊢
      -- the new message is known to the borrower (its own event) and recorded in the lender's inbox
      have newknown : (k = i ∨ k = l) → ∃ k' m', k' ≤ k2 ∧
          (({ val := b.top.val + 1, view := if rel then v1 ++ b.top.view else b.top.view, id := c.clock } : Msg) :: mo b)[k']? = some m' ∧
          (m'.id ∈ w.view ∨ m'.id ∈ w.inbox) := by
        intro hk
        refine ⟨0, _, Nat.zero_le _, rfl, ?_⟩
        rcases hcase with ⟨h, _⟩ | ⟨h, _, hvv⟩ | ⟨h1, h2, _⟩
        · subst h
          rcases thr k w hw with ⟨_, rfl⟩ | ⟨h', _⟩ | ⟨_, h', _⟩
          · exact Or.inr (List.mem_append_left _ he1)
          · exact absurd h' hli
          · exact absurd rfl h'
        · exact Or.inl (by rw [hvv]; exact he)
        · rcases hk with hk | hk
          · exact absurd hk h1
          · exact absurd hk h2
      by_cases hk : k = i ∨ k = l
      · exact newknown hk
      · have hki : k ≠ i := fun e => hk (Or.inl e)
        have hkl : k ≠ l := fun e => hk (Or.inr e)
        have hy0 : y ∈ w0.owned := by
          rcases hown y hy with h | ⟨_, h⟩
          · exact h
          · exact absurd h hki
        cases k2 with
        | zero =>
          simp only [List.getElem?_cons_succ, Nat.zero_add] at hm
          have hmt : m = b.top := by simp [mo] at hm; exact hm.symm
          subst hmt
          exact absurd (sole_owner inv hu hau hb hm1 hw0 hy0) hkl
        | succ k3 =>
          simp only [List.getElem?_cons_succ] at hm
          obtain ⟨k', m', hk', h1', h2'⟩ := old hy0 b hb k3 hm
          exact ⟨k' + 1, m', by omega, by simpa using h1', h2'⟩
    · have hy0 : y ∈ w0.owned := by
        rcases hown y hy with h | ⟨h, _⟩
        · exact h
        · exact absurd h hya
      exact old hy0 by' hby' k2 hm
  · -- inboxL
    intro k w hw hnl'
    dsimp only at hw
    rcases thr k w hw with ⟨_, rfl⟩ | ⟨_, rfl⟩ | ⟨_, _, hw'⟩
    · exact absurd hul (hnl' a)
    · rfl
    · exact inv.inboxL k w hw' hnl'
  · -- rbl
    intro k w y l2 hw hp
    dsimp only at hw ⊢
    have lender : ∀ (z : Thread), c.threads[l2]? = some z → z.phase = .lending y →
        ∃ z', ((c.threads.set i { owned := a :: t.owned, phase := .idle, view := vv, pend := pd }).set l { u with inbox := v1 ++ u.inbox })[l2]? = some z' ∧ z'.phase = .lending y := by
      intro z hz hzl
      by_cases h2l : l2 = l
      · subst h2l; rw [hu] at hz; injection hz with hz; subst hz; exact ⟨_, getl, hzl⟩
      · have h2i : l2 ≠ i := by
          intro e; subst e; rw [ht] at hz; injection hz with hz; subst hz; exact hnlt y hzl
        exact ⟨z, by rw [geto l2 h2i h2l]; exact hz, hzl⟩
    rcases thr k w hw with ⟨_, rfl⟩ | ⟨_, rfl⟩ | ⟨hk1, hk2, hw'⟩
    · rw [show ({ u with inbox := v1 ++ u.inbox } : Thread).phase = u.phase from rfl, hul] at hp; cases hp
    · cases hp
    · obtain ⟨hlk, z, by0, hz, hzl, hby0, hxs0⟩ := inv.rbl k w y l2 hw' hp
      obtain ⟨z', hz', hzl'⟩ := lender z hz hzl
      refine ⟨hlk, z', ?_⟩
      by_cases hya : y = a
      · subst hya; rw [hb] at hby0; injection hby0 with hby0; subst hby0
        exact ⟨_, hz', hzl', set_self hb, hxs0⟩
      · exact ⟨by0, hz', hzl', by rw [set_other hya]; exact hby0, hxs0⟩
  · -- lentx
    intro k w y hw hp by' hby z hz
    dsimp only at hw hby
    rcases thr k w hw with ⟨_, rfl⟩ | ⟨_, rfl⟩ | ⟨_, _, hw'⟩
    · rcases blk y by' hby with ⟨rfl, rfl⟩ | ⟨_, hby'⟩
      · exact inv.lentx l u y hu hp b hb z hz
      · exact inv.lentx l u y hu hp by' hby' z hz
    · cases hp
    · rcases blk y by' hby with ⟨rfl, rfl⟩ | ⟨_, hby'⟩
      · exact inv.lentx k w y hw' hp b hb z hz
      · exact inv.lentx k w y hw' hp by' hby' z hz


theorem sOk_of_inv {c : Cfg} (inv : Inv c) {i a : Nat} {t : Thread} {b : Blk} (ht : c.threads[i]? = some t)
    (ha : a ∈ t.owned) (hb : c.blocks[a]? = some b) : sOk b t.view = true := by
  unfold sOk
  rw [(inv.top_cnt ht ha hb).1, Bool.true_and]
  exact mem_of_all (inv.xseen i t ht a ha b hb)

theorem set4 {α} (ts : List α) (i j : Nat) (hne : j ≠ i) (t2 u2 t3 u3 : α) :
    (((ts.set i t2).set j u2).set i t3).set j u3 = (ts.set i t3).set j u3 := by
  apply List.ext_getElem?
  intro k
  simp only [List.getElem?_set, List.length_set]
  by_cases hkj : j = k
  · simp [hkj]
  · by_cases hki : i = k
    · simp [hkj, hki]
    · simp [hkj, hki]

/-- every micro-step of every thread preserves the invariant, provided `fetch_sub` is a release,
an acquire fence precedes `dealloc`, and the uniqueness load is an acquire -/
theorem step_inv (o : Ords) (hs : o.subRel = true) (hf : o.fenceAcq = true) (hl : o.loadAcq = true)
    {c c' : Cfg} (inv : Inv c) (i : Nat) (act : Act) (h : step o c i act = some c') : Inv c' := by
  unfold step at h
  cases ht : c.threads[i]? with
  | none => rw [ht] at h; cases h
  | some t =>
    rw [ht] at h
    dsimp only at h
    cases act with
    | clone a =>
      cases hph : t.phase <;> rw [hph] at h <;> try (cases h; done)
      dsimp only at h
      cases hb : c.blocks[a]? with
      | none => rw [hb] at h; cases h
      | some b =>
        rw [hb] at h; dsimp only at h
        by_cases ha : a ∈ t.owned
        · rw [if_pos ha] at h; injection h with h; subst h
          apply inv_clone inv ht hb ha
          · intro e he; split
            · exact List.mem_append_left _ (List.mem_cons_of_mem _ he)
            · exact List.mem_cons_of_mem _ he
          · split
            · exact List.mem_append_left _ (List.mem_cons_self ..)
            · exact List.mem_cons_self ..
          · exact sOk_of_inv inv ht ha hb
          · exact inv.inboxL i t ht (fun y hh => by rw [hph] at hh; cases hh)
          · intro y hh; rw [hph] at hh; cases hh
        · rw [if_neg ha] at h; cases h
    | drop a =>
      cases hph : t.phase <;> rw [hph] at h <;> try (cases h; done)
      dsimp only at h
      cases hb : c.blocks[a]? with
      | none => rw [hb] at h; cases h
      | some b =>
        rw [hb] at h; dsimp only at h
        by_cases ha : a ∈ t.owned
        · rw [if_pos ha] at h; injection h with h; subst h
          unfold release; rw [hs]
          apply inv_release inv ht hb ha
          · intro e he; split
            · exact List.mem_append_left _ (List.mem_cons_of_mem _ he)
            · exact List.mem_cons_of_mem _ he
          · split
            · exact List.mem_append_left _ (List.mem_cons_self ..)
            · exact List.mem_cons_self ..
          · exact sOk_of_inv inv ht ha hb
          · exact inv.inboxL i t ht (fun y hh => by rw [hph] at hh; cases hh)
          · intro y hh; rw [hph] at hh; cases hh
        · rw [if_neg ha] at h; cases h
    | free =>
      cases hph : t.phase <;> rw [hph] at h <;> try (cases h; done)
      rename_i a
      dsimp only at h
      cases hb : c.blocks[a]? with
      | none => rw [hb] at h; cases h
      | some b =>
        rw [hb] at h; dsimp only at h
        injection h with h; subst h
        rw [hf]; simp only [if_true]
        obtain ⟨b0, hb0, dl, _, dev, _⟩ := inv.dying i t a ht hph
        rw [hb] at hb0; injection hb0 with hb0; subst hb0
        apply inv_free inv ht hb hph
        · intro e he; exact List.mem_cons_of_mem _ (List.mem_append_left _ he)
        · unfold xOk; rw [dl, Bool.true_and]
          apply mem_of_all
          intro e he
          rcases dev e he with h1 | h1
          · exact List.mem_cons_of_mem _ (List.mem_append_left _ h1)
          · exact List.mem_cons_of_mem _ (List.mem_append_right _ h1)
    | probe a k =>
      cases hph : t.phase <;> rw [hph] at h <;> try (cases h; done)
      dsimp only at h
      cases hb : c.blocks[a]? with
      | none => rw [hb] at h; cases h
      | some b =>
        rw [hb] at h; dsimp only at h
        cases hm : (mo b)[k]? with
        | none => rw [hm] at h; cases h
        | some m =>
          rw [hm] at h; dsimp only at h
          by_cases hg : (decide (a ∈ t.owned) && coherent b k t.view) = true
          · rw [if_pos hg] at h; injection h with h; subst h
            rw [Bool.and_eq_true, decide_eq_true_iff] at hg
            obtain ⟨ha, hco⟩ := hg
            rw [hl]; simp only [if_true]
            obtain ⟨hbl, _⟩ := inv.top_cnt ht ha hb
            apply inv_event inv ht hb ha _ _ _ false
            · intro e he; exact List.mem_cons_of_mem _ (List.mem_append_left _ he)
            · exact List.mem_cons_self ..
            · intro y hy
              split at hy
              · rcases hy with h1 | h1 | h1 | h1 | h1 <;> (try cases h1) ; exact ha
              · rcases hy with h1 | h1 | h1 | h1 | h1 <;> (try cases h1) ; exact ha
            · intro y hy
              split at hy
              · rename_i hm1
                injection hy with hy; subst hy
                -- a coherent read of 1 reads the newest message
                have hk0 : k = 0 := by
                  cases k with
                  | zero => rfl
                  | succ k =>
                    obtain ⟨k', m', hk', hm', hid⟩ := inv.coh i t ht a ha b hb k m hm hm1
                    unfold coherent at hco
                    rw [List.all_eq_true] at hco
                    have hmem : m' ∈ (mo b).take (k + 1) := by
                      rw [List.mem_take_iff_getElem]
                      have hlt := lt_of_get hm'
                      refine ⟨k', by omega, ?_⟩
                      rw [List.getElem?_eq_getElem hlt] at hm'; injection hm'
                    have := hco m' hmem
                    rw [decide_eq_true_iff] at this
                    rcases hid with hid | hid
                    · exact absurd hid this
                    · rw [inv.inboxL i t ht (fun y hh => by rw [hph] at hh; cases hh)] at hid; cases hid
                subst hk0
                have hmt : m = b.top := by simp [mo] at hm; exact hm.symm
                subst hmt
                refine ⟨rfl, hm1, ?_⟩
                intro e he
                rcases inv.pub a b hb hbl e he with h1 | ⟨j, u, hu, hyo, hev⟩
                · exact List.mem_cons_of_mem _ (List.mem_append_right _ h1)
                · have := sole_owner inv ht ha hb hm1 hu hyo
                  subst this; rw [ht] at hu; injection hu with hu; subst hu
                  rcases hev with hev | hev
                  · exact List.mem_cons_of_mem _ (List.mem_append_left _ hev)
                  · rw [inv.inboxL j t ht (fun y hh => by rw [hph] at hh; cases hh)] at hev; cases hev
              · cases hy
            · intro y; split <;> (intro h1; cases h1)
            · intro hx; cases hx
            · exact sOk_of_inv inv ht ha hb
            · exact inv.inboxL i t ht (fun y hh => by rw [hph] at hh; cases hh)
            · intro y hh; rw [hph] at hh; cases hh
            · intro y; split <;> (intro h1; cases h1)
            · intro y l; split <;> (intro h1; cases h1)
          · rw [if_neg hg] at h; cases h
    | write =>
      cases hph : t.phase <;> rw [hph] at h <;> try (cases h; done)
      rename_i a
      dsimp only at h
      cases hb : c.blocks[a]? with
      | none => rw [hb] at h; cases h
      | some b =>
        rw [hb] at h; dsimp only at h
        injection h with h; subst h
        have ha := inv.phase_owned i t a ht (Or.inl hph)
        obtain ⟨hu1, huv⟩ := inv.uniq i t a ht hph b hb
        obtain ⟨hbl, _⟩ := inv.top_cnt ht ha hb
        apply inv_event inv ht hb ha .idle _ _ true
        · intro e he; exact List.mem_cons_of_mem _ he
        · exact List.mem_cons_self ..
        · intro y hy; rcases hy with h1 | h1 | h1 | h1 | h1 <;> cases h1
        · intro y hy; cases hy
        · intro y hy; cases hy
        · intro _ j u hne hu hau
          exact hne (sole_owner inv ht ha hb hu1 hu hau)
        · unfold xOk; rw [hbl, Bool.true_and]; exact mem_of_all huv
        · exact inv.inboxL i t ht (fun y hh => by rw [hph] at hh; cases hh)
        · intro y hh; rw [hph] at hh; cases hh
        · intro y hh; cases hh
        · intro y l hh; cases hh
    | copyRead =>
      cases hph : t.phase <;> rw [hph] at h <;> try (cases h; done)
      rename_i a
      dsimp only at h
      cases hb : c.blocks[a]? with
      | none => rw [hb] at h; cases h
      | some b =>
        rw [hb] at h; dsimp only at h
        injection h with h; subst h
        have ha := inv.phase_owned i t a ht (Or.inr (Or.inl hph))
        apply inv_event inv ht hb ha (.copied a) _ _ false
        · intro e he; exact List.mem_cons_of_mem _ he
        · exact List.mem_cons_self ..
        · intro y hy; rcases hy with h1 | h1 | h1 | h1 | h1 <;> cases h1; exact ha
        · intro y hy; cases hy
        · intro y hy; cases hy
        · intro hx; cases hx
        · exact sOk_of_inv inv ht ha hb
        · exact inv.inboxL i t ht (fun y hh => by rw [hph] at hh; cases hh)
        · intro y hh; rw [hph] at hh; cases hh
        · intro y hh; cases hh
        · intro y l hh; cases hh
    | copyFinish =>
      cases hph : t.phase <;> rw [hph] at h <;> try (cases h; done)
      rename_i a
      dsimp only at h
      cases hb : c.blocks[a]? with
      | none => rw [hb] at h; cases h
      | some b =>
        rw [hb] at h; dsimp only at h
        injection h with h; subst h
        have ha := inv.phase_owned i t a ht (Or.inr (Or.inr (Or.inl hph)))
        have inv1 := inv_alloc inv ht
        have ht1 : (alloc c i t).threads[i]? = some { owned := c.blocks.length :: t.owned, phase := .copied a, view := c.clock :: t.view, pend := t.pend, inbox := t.inbox, lentView := t.lentView } := by
          dsimp only [alloc]; rw [← hph]; exact set_self ht
        have hb1 : (alloc c i t).blocks[a]? = some b := by
          dsimp only [alloc]; rw [List.getElem?_append_left (lt_of_get hb)]; exact hb
        have ha1 : a ∈ ({ owned := c.blocks.length :: t.owned, phase := .copied a, view := c.clock :: t.view, pend := t.pend, inbox := t.inbox, lentView := t.lentView } : Thread).owned :=
          List.mem_cons_of_mem _ ha
        unfold release; rw [hs]
        apply inv_release inv1 ht1 hb1 ha1
        · intro e he; split
          · exact List.mem_append_left _ (List.mem_cons_of_mem _ he)
          · exact List.mem_cons_of_mem _ he
        · split
          · exact List.mem_append_left _ (List.mem_cons_self ..)
          · exact List.mem_cons_self ..
        · exact sOk_of_inv inv1 ht1 ha1 hb1
        · exact inv.inboxL i t ht (fun y hh => by rw [hph] at hh; cases hh)
        · intro y hh; cases hh
    | readStart a =>
      cases hph : t.phase <;> rw [hph] at h <;> try (cases h; done)
      dsimp only at h
      cases hb : c.blocks[a]? with
      | none => rw [hb] at h; cases h
      | some b =>
        rw [hb] at h; dsimp only at h
        by_cases ha : a ∈ t.owned
        · rw [if_pos ha] at h; injection h with h; subst h
          apply inv_event inv ht hb ha (.reading a) _ _ false
          · intro e he; exact List.mem_cons_of_mem _ he
          · exact List.mem_cons_self ..
          · intro y hy; rcases hy with h1 | h1 | h1 | h1 | h1 <;> cases h1; exact ha
          · intro y hy; cases hy
          · intro y hy; cases hy
          · intro hx; cases hx
          · exact sOk_of_inv inv ht ha hb
          · exact inv.inboxL i t ht (fun y hh => by rw [hph] at hh; cases hh)
          · intro y hh; rw [hph] at hh; cases hh
          · intro y hh; cases hh
          · intro y l hh; cases hh
        · rw [if_neg ha] at h; cases h
    | readEnd =>
      cases hph : t.phase <;> rw [hph] at h <;> try (cases h; done)
      rename_i a
      dsimp only at h
      cases hb : c.blocks[a]? with
      | none => rw [hb] at h; cases h
      | some b =>
        rw [hb] at h; dsimp only at h
        injection h with h; subst h
        have ha := inv.phase_owned i t a ht (Or.inr (Or.inr (Or.inr (Or.inl hph))))
        apply inv_event inv ht hb ha .idle _ _ false
        · intro e he; exact List.mem_cons_of_mem _ he
        · exact List.mem_cons_self ..
        · intro y hy; rcases hy with h1 | h1 | h1 | h1 | h1 <;> cases h1
        · intro y hy; cases hy
        · intro y hy; cases hy
        · intro hx; cases hx
        · exact sOk_of_inv inv ht ha hb
        · exact inv.inboxL i t ht (fun y hh => by rw [hph] at hh; cases hh)
        · intro y hh; rw [hph] at hh; cases hh
        · intro y hh; cases hh
        · intro y l hh; cases hh
    | send a j =>
      cases hph : t.phase <;> rw [hph] at h <;> try (cases h; done)
      dsimp only at h
      cases hu : c.threads[j]? with
      | none => rw [hu] at h; cases h
      | some u =>
        rw [hu] at h; dsimp only at h
        by_cases hg : (decide (a ∈ t.owned) && (j != i)) = true
        · rw [if_pos hg] at h; injection h with h; subst h
          rw [Bool.and_eq_true, decide_eq_true_iff, bne_iff_ne] at hg
          obtain ⟨ha, hne⟩ := hg
          -- both threads learn, then the handle moves
          have inv1 := inv_learn inv ht (c.clock :: t.view) (fun e he => List.mem_cons_of_mem _ he) (c.clock + 1)
          have hu1 : ({ c with threads := c.threads.set i { t with view := c.clock :: t.view }, clock := c.clock + 1 } : Cfg).threads[j]? = some u := by
            dsimp only; rw [set_other hne]; exact hu
          have inv2 := inv_learn inv1 hu1 (u.view ++ (c.clock :: t.view)) (fun e he => List.mem_append_left _ he) (c.clock + 1)
          have ht2 : ({ ({ c with threads := c.threads.set i { t with view := c.clock :: t.view }, clock := c.clock + 1 } : Cfg) with
                threads := (c.threads.set i { t with view := c.clock :: t.view }).set j { u with view := u.view ++ (c.clock :: t.view) },
                clock := c.clock + 1 } : Cfg).threads[i]? = some { t with view := c.clock :: t.view } := by
            dsimp only; rw [set_other (Ne.symm hne)]; exact set_self ht
          have hu2 : ({ ({ c with threads := c.threads.set i { t with view := c.clock :: t.view }, clock := c.clock + 1 } : Cfg) with
                threads := (c.threads.set i { t with view := c.clock :: t.view }).set j { u with view := u.view ++ (c.clock :: t.view) },
                clock := c.clock + 1 } : Cfg).threads[j]? = some { u with view := u.view ++ (c.clock :: t.view) } := by
            dsimp only; exact set_self hu1
          have inv3 := inv_move inv2 hne ht2 hu2 ha hph (fun e he => List.mem_append_right _ he)
          dsimp only at inv3
          rw [set4 c.threads i j hne, hph] at inv3
          exact inv3
        · rw [if_neg hg] at h; cases h
    | sync j =>
      cases hu : c.threads[j]? with
      | none => cases hph : t.phase <;> rw [hph] at h <;> dsimp only at h <;> rw [hu] at h <;> cases h
      | some u =>
        have hl' := inv_learn inv hu (u.view ++ t.view) (fun e he => List.mem_append_left _ he) (c.clock + 1)
        cases hph : t.phase <;> rw [hph] at h <;> dsimp only at h <;> rw [hu] at h <;> dsimp only at h <;>
          (split at h <;> first | (injection h with h; subst h; exact hl') | cases h)
    | lend a =>
      cases hph : t.phase <;> rw [hph] at h <;> try (cases h; done)
      dsimp only at h
      by_cases ha : a ∈ t.owned
      · rw [if_pos ha] at h; injection h with h; subst h
        exact inv_lend inv ht hph ha
      · rw [if_neg ha] at h; cases h
    | reclaim =>
      cases hph : t.phase <;> rw [hph] at h <;> try (cases h; done)
      rename_i a
      dsimp only at h
      split at h
      · rename_i hall
        injection h with h; subst h
        apply inv_reclaim inv ht hph
        intro k w hw hp
        rw [List.all_eq_true] at hall
        have := hall w (List.mem_of_getElem? hw)
        rw [hp] at this
        simp at this
      · cases h
    | cloneB a l =>
      cases hph : t.phase <;> rw [hph] at h <;> try (cases h; done)
      dsimp only at h
      cases hu : c.threads[l]? with
      | none => rw [hu] at h; cases h
      | some u =>
        cases hb : c.blocks[a]? with
        | none => rw [hu, hb] at h; cases h
        | some b =>
          rw [hu, hb] at h; dsimp only at h
          split at h
          · rename_i hg
            injection h with h; subst h
            rw [Bool.and_eq_true, bne_iff_ne, beq_iff_eq] at hg
            obtain ⟨hli, hul⟩ := hg
            have hau : a ∈ u.owned := inv.phase_owned l u a hu (Or.inr (Or.inr (Or.inr (Or.inr hul))))
            apply inv_cloneB inv hli ht hu hul hb hph
            · intro e he; split
              · exact List.mem_append_left _ (List.mem_cons_of_mem _ (List.mem_append_left _ he))
              · exact List.mem_cons_of_mem _ (List.mem_append_left _ he)
            · split
              · exact List.mem_append_left _ (List.mem_cons_self ..)
              · exact List.mem_cons_self ..
            · intro e he; split
              · exact List.mem_append_left _ (List.mem_cons_of_mem _ (List.mem_append_right _ he))
              · exact List.mem_cons_of_mem _ (List.mem_append_right _ he)
            · exact List.mem_cons_self ..
            · unfold sOk
              rw [(inv.top_cnt hu hau hb).1, Bool.true_and]
              exact mem_of_all (fun x hx => List.mem_append_right _ (inv.lentx l u a hu hul b hb x hx))
          · cases h
    | readBStart a l =>
      cases hph : t.phase <;> rw [hph] at h <;> try (cases h; done)
      dsimp only at h
      cases hu : c.threads[l]? with
      | none => rw [hu] at h; cases h
      | some u =>
        cases hb : c.blocks[a]? with
        | none => rw [hu, hb] at h; cases h
        | some b =>
          rw [hu, hb] at h; dsimp only at h
          split at h
          · rename_i hg
            injection h with h; subst h
            rw [Bool.and_eq_true, bne_iff_ne, beq_iff_eq] at hg
            obtain ⟨hli, hul⟩ := hg
            have hau : a ∈ u.owned := inv.phase_owned l u a hu (Or.inr (Or.inr (Or.inr (Or.inr hul))))
            apply inv_bevent inv hli ht hu hul hb (.readingB a l) (c.clock :: (t.view ++ u.lentView)) (sOk b (t.view ++ u.lentView))
            · intro e he; exact List.mem_cons_of_mem _ (List.mem_append_left _ he)
            · exact List.mem_cons_self ..
            · intro x hx; exact List.mem_cons_of_mem _ (List.mem_append_right _ (inv.lentx l u a hu hul b hb x hx))
            · exact Or.inr rfl
            · exact Or.inl hph
            · unfold sOk
              rw [(inv.top_cnt hu hau hb).1, Bool.true_and]
              exact mem_of_all (fun x hx => List.mem_append_right _ (inv.lentx l u a hu hul b hb x hx))
          · cases h
    | readBEnd =>
      cases hph : t.phase <;> rw [hph] at h <;> try (cases h; done)
      rename_i a l
      dsimp only at h
      obtain ⟨hli, u0, b0, hu0, hul, hb0, hxs⟩ := inv.rbl i t a l ht hph
      rw [hu0, hb0] at h; dsimp only at h
      injection h with h; subst h
      have hau : a ∈ u0.owned := inv.phase_owned l u0 a hu0 (Or.inr (Or.inr (Or.inr (Or.inr hul))))
      apply inv_bevent inv hli ht hu0 hul hb0 .idle (c.clock :: t.view) (sOk b0 t.view)
      · intro e he; exact List.mem_cons_of_mem _ he
      · exact List.mem_cons_self ..
      · intro x hx; exact List.mem_cons_of_mem _ (hxs x hx)
      · exact Or.inl rfl
      · exact Or.inr hph
      · unfold sOk
        rw [(inv.top_cnt hu0 hau hb0).1, Bool.true_and]
        exact mem_of_all hxs


theorem run_inv (o : Ords) (hs : o.subRel = true) (hf : o.fenceAcq = true) (hl : o.loadAcq = true)
    (sched : List (Nat × Act)) : ∀ (c c' : Cfg), Inv c → run o c sched = some c' → Inv c' := by
  induction sched with
  | nil => intro c c' inv h; simp only [run, Option.some.injEq] at h; subst h; exact inv
  | cons x rest ih =>
    intro c c' inv h
    obtain ⟨i, a⟩ := x
    simp only [run] at h
    cases hst : step o c i a with
    | none => rw [hst] at h; cases h
    | some c1 => rw [hst] at h; exact ih c1 c' (step_inv o hs hf hl inv i a hst) h

theorem cnt_replicate (ks : List Nat) :
    cnt (ks.map (fun k => ({ owned := List.replicate k 0, view := [0] } : Thread))) 0 = ks.sum := by
  unfold cnt
  induction ks with
  | nil => rfl
  | cons k ks ih => simp only [List.map_cons, List.sum_cons, ih]; simp

theorem init_inv (ks : List Nat) : Inv (initCfg ks) := by
  have thr : ∀ (i : Nat) (t : Thread), (initCfg ks).threads[i]? = some t →
      t.phase = .idle ∧ (∀ a ∈ t.owned, a = 0) ∧ 0 ∈ t.view ∧ t.inbox = [] := by
    intro i t h
    simp only [initCfg, List.getElem?_map, Option.map_eq_some_iff] at h
    obtain ⟨k, _, rfl⟩ := h
    exact ⟨rfl, fun a ha => (List.mem_replicate.1 ha).2, List.mem_cons_self .., rfl⟩
  have blk : ∀ (a : Nat) (b : Blk), (initCfg ks).blocks[a]? = some b →
      a = 0 ∧ b = { live := true, top := { val := ks.sum, view := [0], id := 0 }, older := [], evs := [0], xevs := [0] } := by
    intro a b h
    cases a with
    | zero => simp [initCfg] at h; exact ⟨rfl, h.symm⟩
    | succ a => simp [initCfg] at h
  refine ⟨rfl, ?_, ?_, ?_, ?_, ?_, ?_, ?_, ?_, ?_, ?_, ?_⟩
  · intro a b hb _
    obtain ⟨rfl, rfl⟩ := blk a b hb
    exact (cnt_replicate ks).symm
  · intro i t ht a ha
    obtain ⟨_, h0, _⟩ := thr i t ht
    rw [h0 a ha]; exact ⟨_, rfl, rfl⟩
  · intro i t a ht hp
    rw [(thr i t ht).1] at hp; rcases hp with h | h | h | h | h <;> cases h
  · intro i t a ht hp; rw [(thr i t ht).1] at hp; cases hp
  · intro i t a ht hp; rw [(thr i t ht).1] at hp; cases hp
  · intro a b hb _ e he
    obtain ⟨rfl, rfl⟩ := blk a b hb
    exact Or.inl he
  · intro i t ht a _ b hb x hx
    obtain ⟨rfl, rfl⟩ := blk a b hb
    simp only [List.mem_singleton] at hx; subst hx
    exact (thr i t ht).2.2.1
  · intro i t _ a _ b hb k m hm _
    obtain ⟨rfl, rfl⟩ := blk a b hb
    simp [mo] at hm
  · intro i t ht _; exact (thr i t ht).2.2.2
  · intro i t a l ht hp; rw [(thr i t ht).1] at hp; cases hp
  · intro i t a ht hp; rw [(thr i t ht).1] at hp; cases hp

end LS.ConcRAL
