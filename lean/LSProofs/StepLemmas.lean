import LSProofs.HandleLemmas
import LSProofs.Pool
/-! Small facts about `step` used by several properties. -/
namespace LS

/-- the release half of `replace_inner` never touches the request counter -/
theorem release_reqs {hp hp' : Heap} {a : Nat} (h : hp.release a = .ok hp') : hp'.reqs = hp.reqs := by
  unfold Heap.release at h
  split at h
  · split at h
    · cases h
    · split at h
      · split at h
        · injection h with h; subst h; rfl
        · cases h
      · injection h with h; subst h; rfl
  · cases h
  · cases h

end LS
