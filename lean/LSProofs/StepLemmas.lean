import LSProofs.HandleLemmas
/-! Small facts about `step` used by several properties. -/
namespace LS

theorem poolSet_self (p : List (Option Handle)) (h : Nat) (r : Handle) (hr : p[h]? = some (some r)) :
    poolSet p h (some r) = p := by
  have hlt : h < p.length := by
    rcases Nat.lt_or_ge h p.length with h' | h'
    · exact h'
    · rw [List.getElem?_eq_none h'] at hr; cases hr
  unfold poolSet
  rw [if_pos hlt]
  apply List.ext_getElem?
  intro i
  rw [List.getElem?_set]
  split
  · rename_i he; subst he; simp [hlt]
    rw [List.getElem?_eq_getElem hlt] at hr; injection hr with hr; exact hr.symm
  · rfl

theorem World.get_some {w : World} {h : Nat} {r : Handle} (hg : w.get h = some r) : w.pool[h]? = some (some r) := by
  unfold World.get at hg
  split at hg
  · rename_i r' heq; injection hg with hg; subst hg; exact heq
  · cases hg

theorem put_self (w : World) (h : Nat) (r : Handle) (hg : w.get h = some r) : w.put w.heap h (some r) = w := by
  unfold World.put
  rw [poolSet_self w.pool h r (World.get_some hg)]

/-- the release half of `replace_inner` never touches the request counter -/
theorem release_reqs {hp hp' : Heap} {a : Nat} (h : hp.release a = .ok hp') : hp'.reqs = hp.reqs := by
  unfold Heap.release at h
  split at h
  · split at h
    · cases h
    · split at h
      · split at h
        · injection h with h; subst h; rfl
        · cases h
      · injection h with h; subst h; rfl
  · cases h
  · cases h

end LS
