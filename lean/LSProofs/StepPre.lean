import LSProofs.OpSpecs
/-!
# From handle-level specifications to `step` on worlds: `Wf` preservation, no alarm, frame
-/
namespace LS

/-- what a handle reads (`none` for a dead slot) -/
def World.text (w : World) (h : Nat) : Option Bytes :=
  match w.get h with
  | none => none
  | some r => match textOf w.heap w.statics r with
    | .ok t => some t
    | .error _ => none

theorem handleOk_text {hp : Heap} {st : List Bytes} {r : Handle} (hk : HandleOk hp st r) :
    ∃ t, textOf hp st r = .ok t ∧ Valid t := by
  cases r with
  | inl raw => exact ⟨_, rfl, hk.2.1⟩
  | heap a l => obtain ⟨b, hb, hl, hv⟩ := hk; exact ⟨_, by simp [textOf, hb, hl], hv⟩
  | stat s l => obtain ⟨t, hs, hl, hv, _⟩ := hk; exact ⟨_, by simp [textOf, hs, hl], hv⟩

theorem good_of_wf {w : World} {h : Nat} {r : Handle} (hw : Wf w) (hg : w.get h = some r) :
    ∃ t, Good (oc w h) w.heap w.statics w.heap r t ∧ w.text h = some t := by
  have hk := hw.handles h r hg
  obtain ⟨t, ht, hv⟩ := handleOk_text hk
  have hl := linv_of_wf h hw
  rw [hg] at hl
  exact ⟨t, ⟨hl, hk, ht, hv⟩, by simp [World.text, hg, ht]⟩

/-- "some valid text" -/
def IsGood (w : World) (h : Nat) : Heap → Handle → Prop :=
  fun hp' r' => ∃ t', Good (oc w h) w.heap w.statics hp' r' t'

theorem wf_of_good {w : World} {h : Nat} {hp' : Heap} {r' : Handle} {t' : Bytes} (hw : Wf w)
    (g : Good (oc w h) w.heap w.statics hp' r' t') : Wf (w.put hp' h (some r')) :=
  wf_put hw g.inv (fun r'' he => by injection he with he; subst he; exact g.ok)

theorem text_put_self {w : World} {h : Nat} {hp' : Heap} {r' : Handle} {t' : Bytes}
    (g : Good (oc w h) w.heap w.statics hp' r' t') : (w.put hp' h (some r')).text h = some t' := by
  unfold World.text
  rw [World.get_put_self]
  show (match textOf hp' w.statics r' with | .ok t => some t | .error _ => none) = _
  rw [g.text]

/-- the frame: a handle in another slot keeps its two words and reads the same bytes -/
theorem frame_put {w : World} {h h' : Nat} {hp' : Heap} {v : Option Handle} {own : Nat → Nat} (hw : Wf w)
    (hl : LInv (oc w h) w.heap hp' own) (hne : h' ≠ h) :
    (w.put hp' h v).get h' = w.get h' ∧ (w.put hp' h v).text h' = w.text h' := by
  have hget := World.get_put_other w hp' h h' v hne
  refine ⟨hget, ?_⟩
  unfold World.text
  rw [hget]
  cases hg : w.get h' with
  | none => rfl
  | some r2 =>
    show (match textOf hp' w.statics r2 with | .ok t => some t | .error _ => none) = _
    cases r2 with
    | inl raw => rfl
    | stat s l => rfl
    | heap a l =>
      obtain ⟨b, hb, hlc, _⟩ := hw.handles h' _ hg
      obtain ⟨b', hb', hc, hd⟩ := hl.others a (oc_pos_of_other w h h' a l hne hg) b hb
      simp only [textOf, hb, hb', hc, hd]

/-- all outcomes of a handle-level call lead to a good handle -/
def Res.AllGood {α : Type} (w : World) (h : Nat) : Res α → Prop
  | .ok _ hp r => IsGood w h hp r
  | .err hp r => IsGood w h hp r
  | .pidx hp r => IsGood w h hp r
  | .pcb hp r => IsGood w h hp r
  | .ub _ => False

theorem finish_wf {α : Type} {w : World} {h : Nat} (hw : Wf w) (plain : Bool) (val : α → Val) (res : Res α)
    (hs : res.AllGood w h) :
    Wf (finish w h plain val res).1 ∧ (∀ u, (finish w h plain val res).2 ≠ .ub u) ∧
    ∀ h', h' ≠ h → (finish w h plain val res).1.get h' = w.get h' ∧ (finish w h plain val res).1.text h' = w.text h' := by
  cases res with
  | ok v hp r => obtain ⟨t', g⟩ := hs; exact ⟨wf_of_good hw g, by simp [finish], fun h' hne => frame_put hw g.inv hne⟩
  | err hp r =>
    obtain ⟨t', g⟩ := hs
    exact ⟨wf_of_good hw g, by cases plain <;> simp [finish, failOut], fun h' hne => frame_put hw g.inv hne⟩
  | pidx hp r => obtain ⟨t', g⟩ := hs; exact ⟨wf_of_good hw g, by simp [finish], fun h' hne => frame_put hw g.inv hne⟩
  | pcb hp r => obtain ⟨t', g⟩ := hs; exact ⟨wf_of_good hw g, by simp [finish], fun h' hne => frame_put hw g.inv hne⟩
  | ub u => exact hs.elim

theorem unchanged_good {ocf base st hp r t hp' r'} (g : Good ocf base st hp r t) (hu : Unchanged hp r hp' r') :
    Good ocf base st hp' r' t := by
  obtain ⟨rfl, hs⟩ := hu; exact good_congr hs g

/-- a `Sat` whose four clauses all yield a good handle -/
theorem allGood_of_sat {α : Type} {w : World} {h : Nat} {res : Res α} {ok : α → Heap → Handle → Prop}
    {err pidx pcb : Heap → Handle → Prop} (hs : res.Sat ok err pidx pcb)
    (h1 : ∀ v hp r, ok v hp r → IsGood w h hp r) (h2 : ∀ hp r, err hp r → IsGood w h hp r)
    (h3 : ∀ hp r, pidx hp r → IsGood w h hp r) (h4 : ∀ hp r, pcb hp r → IsGood w h hp r) : res.AllGood w h := by
  cases res with
  | ok v hp r => exact h1 v hp r hs
  | err hp r => exact h2 hp r hs
  | pidx hp r => exact h3 hp r hs
  | pcb hp r => exact h4 hp r hs
  | ub u => exact hs

end LS

namespace LS

/-! ## Arguments that are `&str` / `char` in Rust are valid UTF-8 -/

def Op.ArgsValid : Op → Prop
  | .fromStr _ t _ => Valid t
  | .fromChar _ c => Valid c ∧ c.length ≤ 16
  | .pushStr _ s _ => Valid s
  | .insertStr _ _ s _ => Valid s
  | .extendChars _ _ items => ∀ s, some s ∈ items → Valid s
  | .extendStrs _ items => ∀ s, some s ∈ items → Valid s
  | .collectChars _ _ items => ∀ s, some s ∈ items → Valid s
  | .collectStrs _ items => ∀ s, some s ∈ items → Valid s
  | .display _ pieces => ∀ s, Piece.text s ∈ pieces → Valid s
  | .fromInt _ ty v => ty.lo ≤ v ∧ v ≤ ty.hi          -- a value of that Rust type
  | .fromUtf16 _ u => ∀ x ∈ u, x < 0x10000             -- `&[u16]`
  | .fromUtf16Lossy _ u => ∀ x ∈ u, x < 0x10000
  | _ => True

/-- the handle an operation may change -/
def Op.target : Op → Nat
  | .new d | .fromStr d _ _ | .fromStatic d _ | .withCapacity d _ _ | .fromChar d _ | .clone d _ | .cloneFrom d _ => d
  | .drop h | .pushStr h _ _ | .pop h _ | .remove h _ _ | .insertStr h _ _ _ | .truncate h _ _ | .clear h => h
  | .retain h _ _ | .reserve h _ _ | .shrinkTo h _ _ | .extendChars h _ _ | .extendStrs h _ => h
  | .collectChars d _ _ | .collectStrs d _ | .display d _ => d
  | .fromInt d _ _ | .fromBool d _ | .fromUtf8 d _ | .fromUtf8Lossy d _ | .fromUtf16 d _ | .fromUtf16Lossy d _ => d

theorem wf_heap_congr {w : World} {hp' : Heap} (hw : Wf w) (hs : hp'.slots = w.heap.slots) :
    Wf { w with heap := hp' } := by
  refine ⟨?_, ?_, hw.statics⟩
  · intro h r hg; exact handleOk_congr hs _ _ (hw.handles h r hg)
  · intro a b hb; rw [get?_congr hs] at hb; exact hw.blocks a b hb

theorem text_heap_congr {w : World} {hp' : Heap} (hs : hp'.slots = w.heap.slots) (h : Nat) :
    ({ w with heap := hp' } : World).text h = w.text h := by
  unfold World.text
  show (match w.get h with | none => none | some r => match textOf hp' w.statics r with | .ok t => some t | .error _ => none) = _
  cases w.get h with
  | none => rfl
  | some r => simp only [textOf_congr hs]

theorem linv_retain {ocf base hp own a} {b : Block} (hl : LInv ocf base hp own) (hb : hp.get? a = some b) :
    LInv ocf base (hp.setBlock a { b with rc := b.rc + 1 }) (fun x => own x + delta a x) := by
  obtain ⟨k1, k2, k3, k4, k5⟩ := hl.blocks a b hb
  refine ⟨?_, ?_, ?_, ?_⟩
  · intro x bx hbx
    by_cases hx : x = a
    · subst hx
      rw [get?_setBlock_same (get?_lt hb)] at hbx
      injection hbx with hbx; subst hbx
      simp only [delta, if_true]
      exact ⟨by simp; omega, by simp, k3, k4, k5⟩
    · rw [get?_setBlock_other hx] at hbx
      have := hl.blocks x bx hbx
      simp only [delta]; rw [if_neg hx]; simpa using this
  · intro x hx bx hbx
    by_cases hxa : x = a
    · subst hxa
      rw [get?_setBlock_same (get?_lt hb)]
      obtain ⟨b', hb', hc, hd⟩ := hl.others x hx bx hbx
      rw [hb] at hb'; injection hb' with hb'; subst hb'
      exact ⟨_, rfl, hc, hd⟩
    · rw [get?_setBlock_other hxa]; exact hl.others x hx bx hbx
  · intro x hx
    rw [setBlock_slots_length] at hx
    obtain ⟨f1, f2⟩ := hl.fresh x hx
    have : x ≠ a := by have := get?_lt hb; omega
    simp only [delta]; rw [if_neg this]; exact ⟨f1, by simp [f2]⟩
  · rw [setBlock_slots_length]; exact hl.grow

/-- the invariant seen from an empty slot -/
theorem linv_empty {w : World} {d : Nat} (hw : Wf w) (hd : w.get d = none) :
    LInv (oc w d) w.heap w.heap (fun _ => 0) := by
  have := linv_of_wf d hw
  rw [hd] at this
  exact linv_own_congr (fun _ => rfl) this

theorem good_inline_fresh {ocf base st hp} (hl : LInv ocf base hp (fun _ => 0)) (t : Bytes) (hv : Valid t)
    (hlen : t.length ≤ 16) : Good ocf base st hp (.inl (inlNew t)) t := by
  refine ⟨linv_own_congr (fun x => rfl) hl, ⟨inlNew_length t hlen, ?_, inlLast_inlNew_lt t hv hlen⟩, ?_, hv⟩
  · rw [inlLen_inlNew t hv hlen, take_inlNew t hlen]; exact hv
  · simp only [textOf, inlLen_inlNew t hv hlen, take_inlNew t hlen]

/-- a fresh heap string built by an allocation of capacity `cap` holding `t` with length `len ≤ t.length` -/
theorem good_alloc_fresh {ocf base st hp} (hl : LInv ocf base hp (fun _ => 0)) (rf : Refuse) (cap : Nat) (t : Bytes)
    (hv : Valid t) (hc : cap ≤ MAX_LEN) (hi : t.length ≤ cap) :
    (∃ hp1, hp.allocate rf cap t = (none, hp1) ∧ hp1.slots = hp.slots) ∨
    (∃ hp1, hp.allocate rf cap t = (some hp.slots.length, hp1) ∧
      Good ocf base st hp1 (.heap hp.slots.length t.length) t ∧
      hp1.get? hp.slots.length = some { rc := 1, cap := cap, size := HEADER + cap, data := padTo cap t }) := by
  by_cases hr : rf hp.reqs (HEADER + cap) = true
  · left; exact ⟨{ hp with reqs := hp.reqs + 1, log := .allocX (HEADER + cap) :: hp.log }, by simp only [Heap.allocate, hr, if_true], rfl⟩
  · right
    let nb : Block := { rc := 1, cap := cap, size := HEADER + cap, data := padTo cap t }
    let hp1 : Heap := { slots := hp.slots ++ [.live nb], reqs := hp.reqs + 1, log := .alloc (HEADER + cap) :: hp.log }
    have hs1 : hp1.slots = hp.slots ++ [.live nb] := rfl
    have hl1 := linv_allocate (hp' := hp1) hl cap t hc hi hs1
    have hnew : hp1.get? hp.slots.length = some nb := get?_append_new hs1
    refine ⟨hp1, by simp only [Heap.allocate, hr, if_false]; rfl, ⟨?_, ⟨nb, hnew, hi, ?_⟩, ?_, hv⟩, hnew⟩
    · exact linv_own_congr (fun x => by show onBlock x (some (.heap _ _)) = 0 + delta _ x; rw [onBlock_heap]; omega) hl1
    · show Valid ((padTo cap t).take t.length); rw [padTo_take]; exact hv
    · simp only [textOf, hnew]; rw [if_pos hi]; show Except.ok ((padTo cap t).take t.length) = _; rw [padTo_take]

/-- `Repr::from_str` into a fresh handle -/
theorem fromStr_fresh {ocf base st hp} (hl : LInv ocf base hp (fun _ => 0)) (rf : Refuse) (t : Bytes) (hv : Valid t) :
    (∃ hp1, fromStr rf hp t = (none, hp1) ∧ hp1.slots = hp.slots) ∨
    (∃ hp1 r, fromStr rf hp t = (some r, hp1) ∧ Good ocf base st hp1 r t) := by
  have h16 := Tie.maxInline_eq
  unfold fromStr
  by_cases hn : t.length ≤ MAX_INLINE
  · rw [if_pos hn]; right; exact ⟨hp, _, rfl, good_inline_fresh hl t hv (by omega)⟩
  · rw [if_neg hn]
    unfold heapNew
    by_cases hc : capOk t.length = true
    · rw [if_pos hc]
      rcases good_alloc_fresh (st := st) hl rf t.length t hv ((capOk_iff _).1 hc) (Nat.le_refl _) with
        ⟨hp1, he, hs⟩ | ⟨hp1, he, g, _⟩
      · left; rw [he]; exact ⟨hp1, rfl, hs⟩
      · right; rw [he]; exact ⟨hp1, _, rfl, g⟩
    · rw [if_neg hc]; left; exact ⟨hp, rfl, rfl⟩

/-- `Repr::with_capacity` into a fresh handle: an empty string -/
theorem withCapacity_fresh {ocf base st hp} (hl : LInv ocf base hp (fun _ => 0)) (rf : Refuse) (n : Nat) :
    (∃ hp1, withCapacity rf hp n = (none, hp1) ∧ hp1.slots = hp.slots) ∨
    (∃ hp1 r, withCapacity rf hp n = (some r, hp1) ∧ Good ocf base st hp1 r [] ∧ n ≤ capOf hp1 r ∧ Unique hp1 r) := by
  have h16 := Tie.maxInline_eq
  unfold withCapacity
  by_cases hn : n ≤ MAX_INLINE
  · rw [if_pos hn]; right
    exact ⟨hp, _, rfl, good_inline_fresh hl [] valid_nil (by simp), by simp [capOf]; omega, trivial⟩
  · rw [if_neg hn]
    unfold heapWithCapacity
    by_cases hc : capOk n = true
    · rw [if_pos hc]
      rcases good_alloc_fresh (st := st) hl rf n [] valid_nil ((capOk_iff _).1 hc) (by simp) with
        ⟨hp1, he, hs⟩ | ⟨hp1, he, g, hg⟩
      · left; rw [he]; exact ⟨hp1, rfl, hs⟩
      · right; rw [he]; exact ⟨hp1, _, rfl, g, by simp [capOf, hg], ⟨_, hg, rfl⟩⟩
    · rw [if_neg hc]; left; exact ⟨hp, rfl, rfl⟩

end LS

namespace LS

/-- what every step must establish: invariant kept, no model alarm, every other handle untouched -/
def Post (w w' : World) (out : Out) (tgt : Nat) : Prop :=
  Wf w' ∧ (∀ u, out ≠ .ub u) ∧ ∀ h', h' ≠ tgt → w'.get h' = w.get h' ∧ w'.text h' = w.text h'

theorem post_same {w : World} (hw : Wf w) (out : Out) (tgt : Nat) (ho : ∀ u, out ≠ .ub u) : Post w w out tgt :=
  ⟨hw, ho, fun _ _ => ⟨rfl, rfl⟩⟩

theorem post_finish {α : Type} {w : World} {h : Nat} (hw : Wf w) (plain : Bool) (val : α → Val) (res : Res α)
    (hs : res.AllGood w h) : Post w (finish w h plain val res).1 (finish w h plain val res).2 h :=
  finish_wf hw plain val res hs

theorem post_put_good {w : World} {d : Nat} {hp' : Heap} {r' : Handle} {t' : Bytes} (hw : Wf w)
    (g : Good (oc w d) w.heap w.statics hp' r' t') (out : Out) (ho : ∀ u, out ≠ .ub u) :
    Post w (w.put hp' d (some r')) out d :=
  ⟨wf_of_good hw g, ho, fun _ hne => frame_put hw g.inv hne⟩

theorem post_put_none {w : World} {d : Nat} {hp' : Heap} (hw : Wf w)
    (hl : LInv (oc w d) w.heap hp' (ownOf none)) (out : Out) (ho : ∀ u, out ≠ .ub u) :
    Post w (w.put hp' d none) out d :=
  ⟨wf_put hw hl (fun _ he => by cases he), ho, fun _ hne => frame_put hw hl hne⟩

theorem post_heap_congr {w : World} {hp' : Heap} (hw : Wf w) (hs : hp'.slots = w.heap.slots) (out : Out)
    (tgt : Nat) (ho : ∀ u, out ≠ .ub u) : Post w { w with heap := hp' } out tgt :=
  ⟨wf_heap_congr hw hs, ho, fun h' _ => ⟨rfl, text_heap_congr hs h'⟩⟩

theorem pushLoop_allGood {w : World} {h : Nat} (rf : Refuse) : ∀ (items : List (Option Bytes)) (hp : Heap) (r : Handle),
    IsGood w h hp r → (∀ s, some s ∈ items → Valid s) → (pushLoop rf w.statics hp r items).AllGood w h := by
  intro items
  induction items with
  | nil => intro hp r hg _; exact hg
  | cons it rest ih =>
    intro hp r hg hv
    cases it with
    | none => exact hg
    | some s =>
      obtain ⟨t, g⟩ := hg
      have hs := pushStr_sat g rf s (hv s (List.mem_cons_self ..))
      simp only [pushLoop]
      revert hs
      cases pushStr rf w.statics hp r s with
      | ok v hp1 r1 => intro g1; exact ih hp1 r1 ⟨_, g1⟩ (fun s' hs' => hv s' (List.mem_cons_of_mem _ hs'))
      | err hp1 r1 => intro hu; exact ⟨t, unchanged_good g hu⟩
      | pidx hp1 r1 => intro hf; exact hf.elim
      | pcb hp1 r1 => intro hf; exact hf.elim
      | ub u => intro hf; exact hf.elim

theorem displayLoop_allGood {w : World} {h : Nat} (rf : Refuse) : ∀ (pieces : List Piece) (hp : Heap) (r : Handle),
    IsGood w h hp r → (∀ s, Piece.text s ∈ pieces → Valid s) → (displayLoop rf w.statics hp r pieces).AllGood w h := by
  intro pieces
  induction pieces with
  | nil => intro hp r hg _; exact hg
  | cons it rest ih =>
    intro hp r hg hv
    cases it with
    | fail => exact hg
    | panic => exact hg
    | text s =>
      obtain ⟨t, g⟩ := hg
      have hs := pushStr_sat g rf s (hv s (List.mem_cons_self ..))
      simp only [displayLoop]
      revert hs
      cases pushStr rf w.statics hp r s with
      | ok v hp1 r1 => intro g1; exact ih hp1 r1 ⟨_, g1⟩ (fun s' hs' => hv s' (List.mem_cons_of_mem _ hs'))
      | err hp1 r1 => intro hu; exact ⟨t, unchanged_good g hu⟩
      | pidx hp1 r1 => intro hf; exact hf.elim
      | pcb hp1 r1 => intro hf; exact hf.elim
      | ub u => intro hf; exact hf.elim

/-- a temporary built in the empty slot `d` is stored on success and released otherwise -/
theorem post_finishTemp {w : World} {d : Nat} (hw : Wf w) (res : Res Unit) (hs : res.AllGood w d) :
    Post w (finishTemp w d res).1 (finishTemp w d res).2 d := by
  have drop : ∀ hp r, IsGood w d hp r → ∀ out, (∀ u, out ≠ Out.ub u) →
      Post w (match releaseRepr hp r with | .ok hp' => (w.put hp' d none, out) | .error u => (w, .ub u)).1
             (match releaseRepr hp r with | .ok hp' => (w.put hp' d none, out) | .error u => (w, .ub u)).2 d := by
    intro hp r ⟨t, g⟩ out ho
    obtain ⟨hp', hrel, hl, _⟩ := good_release_none g
    rw [hrel]; exact post_put_none hw hl out ho
  cases res with
  | ok v hp r => obtain ⟨t, g⟩ := hs; exact post_put_good hw g (.ok .unit) (by simp)
  | err hp r => exact drop hp r hs .panicAlloc (by simp)
  | pcb hp r => exact drop hp r hs .panicCb (by simp)
  | pidx hp r => exact drop hp r hs .panicIdx (by simp)
  | ub u => exact hs.elim

end LS
