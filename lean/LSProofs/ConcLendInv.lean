import LSModel.ConcLend
/-!
# The interleaving invariant of the reference-count protocol, and memory safety from it
-/
namespace LS.ConcL

def cnt (ts : List Thread) (a : Nat) : Nat := (ts.map (fun t => t.owned.count a)).sum

/-- phases that go through a handle the thread still owns -/
def Phase.needsHandle (p : Phase) (a : Nat) : Prop :=
  p = .unique a ∨ p = .copying a ∨ p = .copied a ∨ p = .reading a

structure CInv (c : Cfg) : Prop where
  count : ∀ a b, c.blocks[a]? = some b → b.live = true → b.rc = cnt c.threads a
  owned_live : ∀ (i : Nat) (t : Thread), c.threads[i]? = some t → ∀ a ∈ t.owned, liveOf c.blocks a = true
  phase_owned : ∀ (i : Nat) (t : Thread) (a : Nat), c.threads[i]? = some t → t.phase.needsHandle a → a ∈ t.owned
  unique_rc : ∀ (i : Nat) (t : Thread) (a : Nat), c.threads[i]? = some t → t.phase = .unique a → rcOf c.blocks a = 1
  dying : ∀ (i : Nat) (t : Thread) (a : Nat), c.threads[i]? = some t → t.phase = .dying a →
    liveOf c.blocks a = true ∧ rcOf c.blocks a = 0 ∧
    ∀ (j : Nat) (u : Thread), j ≠ i → c.threads[j]? = some u → u.phase ≠ .dying a
  no_legacy : ∀ (i : Nat) (t : Thread) (a : Nat), c.threads[i]? = some t → t.phase ≠ .legacyCopying a
  lending_owned : ∀ (i : Nat) (t : Thread) (a : Nat), c.threads[i]? = some t → t.phase = .lending a → a ∈ t.owned
  borrowed_lender : ∀ (j : Nat) (u : Thread) (a : Nat), c.threads[j]? = some u → u.phase = .readingBorrowed a →
    ∃ (k : Nat) (v : Thread), c.threads[k]? = some v ∧ v.phase = .lending a

theorem sum_map_set {α} (f : α → Nat) : ∀ (l : List α) (i : Nat) (x y : α), l[i]? = some x →
    ((l.set i y).map f).sum + f x = (l.map f).sum + f y := by
  intro l
  induction l with
  | nil => intro i x y h; simp at h
  | cons z zs ih =>
    intro i x y h
    cases i with
    | zero => simp at h; subst h; simp [List.set]; omega
    | succ i =>
      simp only [List.getElem?_cons_succ] at h
      have := ih i x y h
      simp only [List.set, List.map_cons, List.sum_cons]; omega

theorem cnt_set (ts : List Thread) (i : Nat) (t t' : Thread) (a : Nat) (h : ts[i]? = some t) :
    cnt (ts.set i t') a + t.owned.count a = cnt ts a + t'.owned.count a :=
  sum_map_set (fun t => t.owned.count a) ts i t t' h

theorem cnt_ge (ts : List Thread) (i : Nat) (t : Thread) (a : Nat) (h : ts[i]? = some t) :
    t.owned.count a ≤ cnt ts a := by
  unfold cnt
  induction ts generalizing i with
  | nil => simp at h
  | cons z zs ih =>
    cases i with
    | zero => simp at h; subst h; simp
    | succ i => simp only [List.getElem?_cons_succ] at h; have := ih i h; simp only [List.map_cons, List.sum_cons]; omega

theorem cnt_two (ts : List Thread) (i j : Nat) (t u : Thread) (a : Nat) (hne : i ≠ j)
    (hi : ts[i]? = some t) (hj : ts[j]? = some u) : t.owned.count a + u.owned.count a ≤ cnt ts a := by
  have h1 := cnt_set ts i t { t with owned := [] } a hi
  have hj' : (ts.set i { t with owned := [] })[j]? = some u := by
    rw [List.getElem?_set_ne hne]; exact hj
  have h2 := cnt_ge _ j u a hj'
  simp at h1; omega

theorem rcOf_eq {bs : List Blk} {a : Nat} {b : Blk} (h : bs[a]? = some b) : rcOf bs a = b.rc := by simp [rcOf, h]
theorem liveOf_eq {bs : List Blk} {a : Nat} {b : Blk} (h : bs[a]? = some b) : liveOf bs a = b.live := by simp [liveOf, h]

theorem liveOf_true {bs : List Blk} {a : Nat} (h : liveOf bs a = true) : ∃ b, bs[a]? = some b ∧ b.live = true := by
  unfold liveOf at h
  cases hb : bs[a]? with
  | none => rw [hb] at h; cases h
  | some b => rw [hb] at h; exact ⟨b, rfl, h⟩

/-- the count of a live block seen through `rcOf` -/
theorem CInv.rc_cnt {c : Cfg} (inv : CInv c) {a : Nat} (h : liveOf c.blocks a = true) : rcOf c.blocks a = cnt c.threads a := by
  obtain ⟨b, hb, hl⟩ := liveOf_true h
  rw [rcOf_eq hb]; exact inv.count a b hb hl

/-- **memory safety**: in every configuration satisfying the invariant, every buffer a thread is
working on is live, and a thread that writes / reallocates in place, or frees, is alone on it -/
theorem safe_of_inv {c : Cfg} (inv : CInv c) : Safe c := by
  constructor
  · intro i t ht a hp
    cases hph : t.phase with
    | idle => rw [hph] at hp; cases hp
    | dying a' => rw [hph] at hp; injection hp with hp; subst hp; exact (inv.dying i t _ ht hph).1
    | unique a' => rw [hph] at hp; injection hp with hp; subst hp
                   exact inv.owned_live i t ht _ (inv.phase_owned i t _ ht (Or.inl hph))
    | copying a' => rw [hph] at hp; injection hp with hp; subst hp
                    exact inv.owned_live i t ht _ (inv.phase_owned i t _ ht (Or.inr (Or.inl hph)))
    | copied a' => rw [hph] at hp; injection hp with hp; subst hp
                   exact inv.owned_live i t ht _ (inv.phase_owned i t _ ht (Or.inr (Or.inr (Or.inl hph))))
    | reading a' => rw [hph] at hp; injection hp with hp; subst hp
                    exact inv.owned_live i t ht _ (inv.phase_owned i t _ ht (Or.inr (Or.inr (Or.inr hph))))
    | legacyCopying a' => exact absurd hph (inv.no_legacy i t a' ht)
    | lending a' => rw [hph] at hp; cases hp
    | readingBorrowed a' =>
      rw [hph] at hp; injection hp with hp; subst hp
      obtain ⟨k, v, hv, hpv⟩ := inv.borrowed_lender i t _ ht hph
      exact inv.owned_live k v hv _ (inv.lending_owned k v _ hv hpv)
  · intro i t ht a hph j u hne hu
    -- the count of `a` and this thread's share of it
    have hzero : u.owned.count a = 0 ∧ ∀ a', u.phase = .dying a' → a' ≠ a := by
      rcases hph with hun | hdy
      · have hown := inv.phase_owned i t a ht (Or.inl hun)
        have hlive := inv.owned_live i t ht a hown
        have hrc := inv.unique_rc i t a ht hun
        rw [inv.rc_cnt hlive] at hrc
        have h2 := cnt_two c.threads i j t u a (Ne.symm hne) ht hu
        have h1 : 1 ≤ t.owned.count a := List.count_pos_iff.2 hown
        refine ⟨by omega, ?_⟩
        intro a' hd he; subst he
        have := (inv.dying j u _ hu hd).2.1
        rw [inv.rc_cnt hlive] at this; omega
      · obtain ⟨hlive, hrc, huniq⟩ := inv.dying i t a ht hdy
        rw [inv.rc_cnt hlive] at hrc
        have h2 := cnt_ge c.threads j u a hu
        refine ⟨by omega, ?_⟩
        intro a' hd he; subst he
        exact huniq j u hne hu hd
    obtain ⟨hz, hdy⟩ := hzero
    have hnot : a ∉ u.owned := fun hm => by have := List.count_pos_iff.2 hm; omega
    refine ⟨hnot, ?_⟩
    intro hb
    cases hph' : u.phase with
    | idle => rw [hph'] at hb; cases hb
    | dying a' => rw [hph'] at hb; injection hb with hb; exact hdy a' hph' hb
    | unique a' => rw [hph'] at hb; injection hb with hb; subst hb; exact hnot (inv.phase_owned j u _ hu (Or.inl hph'))
    | copying a' => rw [hph'] at hb; injection hb with hb; subst hb; exact hnot (inv.phase_owned j u _ hu (Or.inr (Or.inl hph')))
    | copied a' => rw [hph'] at hb; injection hb with hb; subst hb; exact hnot (inv.phase_owned j u _ hu (Or.inr (Or.inr (Or.inl hph'))))
    | reading a' => rw [hph'] at hb; injection hb with hb; subst hb; exact hnot (inv.phase_owned j u _ hu (Or.inr (Or.inr (Or.inr hph'))))
    | legacyCopying a' => exact absurd hph' (inv.no_legacy j u a' hu)
    | lending a' => rw [hph'] at hb; cases hb
    | readingBorrowed a' =>
      rw [hph'] at hb; injection hb with hb; subst hb
      -- the lender owns `a'`, and is neither the writer/freer (its phase is `lending`)
      obtain ⟨k, v, hv, hpv⟩ := inv.borrowed_lender j u _ hu hph'
      have hvo := inv.lending_owned k v _ hv hpv
      have hki : k ≠ i := by
        intro e; subst e; rw [ht] at hv; injection hv with hv; subst hv
        rcases hph with h | h <;> (rw [hpv] at h; cases h)
      have hcv := List.count_pos_iff.2 hvo
      rcases hph with hun | hdy
      · have hown := inv.phase_owned i t a' ht (Or.inl hun)
        have hrc := inv.unique_rc i t a' ht hun
        rw [inv.rc_cnt (inv.owned_live i t ht a' hown)] at hrc
        have h2 := cnt_two c.threads i k t v a' (Ne.symm hki) ht hv
        have h1 := List.count_pos_iff.2 hown
        omega
      · obtain ⟨hlive, hrc, _⟩ := inv.dying i t a' ht hdy
        rw [inv.rc_cnt hlive] at hrc
        have := cnt_ge c.threads k v a' hv
        omega

end LS.ConcL

namespace LS.ConcL

theorem set_cases {ts : List Thread} {i j : Nat} {t t' u : Thread} (hi : ts[i]? = some t)
    (h : (ts.set i t')[j]? = some u) : (j = i ∧ u = t') ∨ (j ≠ i ∧ ts[j]? = some u) := by
  by_cases he : j = i
  · subst he
    have hlt : j < ts.length := by
      rcases Nat.lt_or_ge j ts.length with x | x
      · exact x
      · rw [List.getElem?_eq_none x] at hi; cases hi
    rw [List.getElem?_set_self hlt] at h; injection h with h; exact Or.inl ⟨rfl, h.symm⟩
  · rw [List.getElem?_set_ne (Ne.symm he)] at h; exact Or.inr ⟨he, h⟩

theorem set_self {ts : List Thread} {i : Nat} {t t' : Thread} (hi : ts[i]? = some t) : (ts.set i t')[i]? = some t' := by
  have hlt : i < ts.length := by
    rcases Nat.lt_or_ge i ts.length with x | x
    · exact x
    · rw [List.getElem?_eq_none x] at hi; cases hi
  exact List.getElem?_set_self hlt

theorem cnt_set_same_owned (ts : List Thread) (i : Nat) (t t' : Thread) (a : Nat) (h : ts[i]? = some t)
    (ho : t'.owned = t.owned) : cnt (ts.set i t') a = cnt ts a := by
  have := cnt_set ts i t t' a h; rw [ho] at this; omega

theorem lender_kept {ts : List Thread} {i : Nat} {t t' : Thread} {a : Nat} (hi : ts[i]? = some t)
    (hsame : t.phase = .lending a → t'.phase = .lending a)
    (h : ∃ (k : Nat) (v : Thread), ts[k]? = some v ∧ v.phase = .lending a) :
    ∃ (k : Nat) (v : Thread), (ts.set i t')[k]? = some v ∧ v.phase = .lending a := by
  obtain ⟨k, v, hv, hp⟩ := h
  by_cases hk : k = i
  · subst hk; rw [hi] at hv; injection hv with hv; subst hv
    exact ⟨k, t', set_self hi, hsame hp⟩
  · exact ⟨k, v, by rw [List.getElem?_set_ne (Ne.symm hk)]; exact hv, hp⟩

/-- steps that only change the acting thread's phase -/
theorem inv_phase_only {c : Cfg} {i : Nat} {t : Thread} (inv : CInv c) (ht : c.threads[i]? = some t) (p' : Phase)
    (h1 : ∀ a, p'.needsHandle a → a ∈ t.owned) (h2 : ∀ a, p' = .unique a → rcOf c.blocks a = 1)
    (h3 : ∀ a, p' ≠ .dying a) (h4 : ∀ a, p' ≠ .legacyCopying a)
    (hkeep : ∀ a, t.phase = .lending a → (p' = .lending a ∨ ∀ (j : Nat) (u : Thread), c.threads[j]? = some u → u.phase ≠ .readingBorrowed a))
    (h5 : ∀ a, p' = .lending a → a ∈ t.owned)
    (h6 : ∀ a, p' = .readingBorrowed a → ∃ (k : Nat) (v : Thread), c.threads[k]? = some v ∧ v.phase = .lending a ∧ k ≠ i) :
    CInv { blocks := c.blocks, threads := c.threads.set i { t with phase := p' } } := by
  refine ⟨?_, ?_, ?_, ?_, ?_, ?_, ?_, ?_⟩
  · intro a b hb hl
    show b.rc = cnt (c.threads.set i { owned := t.owned, phase := p' }) a
    rw [cnt_set_same_owned c.threads i t { owned := t.owned, phase := p' } a ht rfl]; exact inv.count a b hb hl
  · intro j u hu a ha
    rcases set_cases ht hu with ⟨_, rfl⟩ | ⟨_, hu'⟩
    · exact inv.owned_live i t ht a ha
    · exact inv.owned_live j u hu' a ha
  · intro j u a hu hp
    rcases set_cases ht hu with ⟨_, rfl⟩ | ⟨_, hu'⟩
    · exact h1 a hp
    · exact inv.phase_owned j u a hu' hp
  · intro j u a hu hp
    rcases set_cases ht hu with ⟨_, rfl⟩ | ⟨_, hu'⟩
    · exact h2 a hp
    · exact inv.unique_rc j u a hu' hp
  · intro j u a hu hp
    rcases set_cases ht hu with ⟨_, rfl⟩ | ⟨hne, hu'⟩
    · exact absurd hp (h3 a)
    · obtain ⟨d1, d2, d3⟩ := inv.dying j u a hu' hp
      refine ⟨d1, d2, ?_⟩
      intro k v hk hv
      rcases set_cases ht hv with ⟨_, rfl⟩ | ⟨_, hv'⟩
      · exact h3 a
      · exact d3 k v hk hv'
  · intro j u a hu
    rcases set_cases ht hu with ⟨_, rfl⟩ | ⟨_, hu'⟩
    · exact h4 a
    · exact inv.no_legacy j u a hu'
  · intro j u a hu hp
    rcases set_cases ht hu with ⟨_, rfl⟩ | ⟨_, hu'⟩
    · exact h5 a hp
    · exact inv.lending_owned j u a hu' hp
  · intro j u a hu hp
    rcases set_cases ht hu with ⟨_, rfl⟩ | ⟨hji, hu'⟩
    · obtain ⟨k, v, hv, hpv, hki⟩ := h6 a hp
      exact ⟨k, v, by rw [List.getElem?_set_ne (Ne.symm hki)]; exact hv, hpv⟩
    · obtain ⟨k, v, hv, hpv⟩ := inv.borrowed_lender j u a hu' hp
      by_cases hk : k = i
      · subst hk; rw [ht] at hv; injection hv with hv; subst hv
        rcases hkeep a hpv with e | e
        · exact ⟨k, _, set_self ht, e⟩
        · exact absurd hp (e j u hu')
      · exact ⟨k, v, by rw [List.getElem?_set_ne (Ne.symm hk)]; exact hv, hpv⟩

/-! ### `setRc` -/

theorem setRc_getElem? (bs : List Blk) (a x : Nat) (f : Nat → Nat) :
    (setRc bs a f)[x]? = if x = a then (bs[a]?).map (fun b => { b with rc := f b.rc }) else bs[x]? := by
  unfold setRc
  cases hb : bs[a]? with
  | none => by_cases he : x = a <;> simp [he, hb]
  | some b =>
    by_cases he : x = a
    · subst he
      have hlt : x < bs.length := by
        rcases Nat.lt_or_ge x bs.length with h | h
        · exact h
        · rw [List.getElem?_eq_none h] at hb; cases hb
      simp [List.getElem?_set_self hlt]
    · simp [he, List.getElem?_set_ne (Ne.symm he)]

theorem liveOf_setRc (bs : List Blk) (a x : Nat) (f : Nat → Nat) : liveOf (setRc bs a f) x = liveOf bs x := by
  unfold liveOf; rw [setRc_getElem?]
  by_cases he : x = a
  · subst he; simp; cases bs[x]? <;> rfl
  · simp [he]

theorem rcOf_setRc_other (bs : List Blk) (a x : Nat) (f : Nat → Nat) (h : x ≠ a) : rcOf (setRc bs a f) x = rcOf bs x := by
  unfold rcOf; rw [setRc_getElem?]; simp [h]

theorem rcOf_setRc_same (bs : List Blk) (a : Nat) (f : Nat → Nat) (b : Blk) (h : bs[a]? = some b) :
    rcOf (setRc bs a f) a = f b.rc := by
  unfold rcOf; rw [setRc_getElem?]; simp [h]

end LS.ConcL

namespace LS.ConcL

theorem lt_of_get {bs : List Blk} {a : Nat} {b : Blk} (h : bs[a]? = some b) : a < bs.length := by
  rcases Nat.lt_or_ge a bs.length with x | x
  · exact x
  · rw [List.getElem?_eq_none x] at h; cases h

theorem count_erase_same (l : List Nat) (a : Nat) (h : a ∈ l) : (l.erase a).count a + 1 = l.count a := by
  have := List.count_erase_self (a := a) (l := l)
  have hp := List.count_pos_iff.2 h
  omega

theorem count_erase_other (l : List Nat) (a x : Nat) (h : x ≠ a) : (l.erase a).count x = l.count x :=
  List.count_erase_of_ne h

/-- nobody owns a block that does not exist yet -/
theorem sum_map_zero {α} (f : α → Nat) (l : List α) (h : ∀ x ∈ l, f x = 0) : (l.map f).sum = 0 := by
  induction l with
  | nil => rfl
  | cons x xs ih =>
    simp only [List.map_cons, List.sum_cons, h x (List.mem_cons_self ..), Nat.zero_add]
    exact ih (fun y hy => h y (List.mem_cons_of_mem _ hy))

theorem cnt_fresh {c : Cfg} (inv : CInv c) (n : Nat) (hn : c.blocks.length ≤ n) : cnt c.threads n = 0 := by
  unfold cnt
  apply sum_map_zero
  intro t ht
  obtain ⟨i, hi⟩ := List.mem_iff_getElem?.1 ht
  apply List.count_eq_zero.2
  intro hm
  obtain ⟨b, hb, _⟩ := liveOf_true (inv.owned_live i t hi n hm)
  have := lt_of_get hb; omega

/-- no thread is in `unique a` or `dying a` while two handles on `a` exist, or while the acting
(idle) thread owns `a` -/
theorem no_unique_if_owned {c : Cfg} (inv : CInv c) {i j : Nat} {t u : Thread} {a : Nat} (hne : j ≠ i)
    (ht : c.threads[i]? = some t) (hu : c.threads[j]? = some u) (ha : a ∈ t.owned) : u.phase ≠ .unique a := by
  intro hp
  have hown := inv.phase_owned j u a hu (Or.inl hp)
  have hrc := inv.unique_rc j u a hu hp
  rw [inv.rc_cnt (inv.owned_live i t ht a ha)] at hrc
  have := cnt_two c.threads i j t u a (Ne.symm hne) ht hu
  have h1 := List.count_pos_iff.2 ha
  have h2 := List.count_pos_iff.2 hown
  omega

theorem no_dying_if_owned {c : Cfg} (inv : CInv c) {i j : Nat} {t u : Thread} {a : Nat}
    (ht : c.threads[i]? = some t) (hu : c.threads[j]? = some u) (ha : a ∈ t.owned) : u.phase ≠ .dying a := by
  intro hp
  have hrc := (inv.dying j u a hu hp).2.1
  rw [inv.rc_cnt (inv.owned_live i t ht a ha)] at hrc
  have := cnt_ge c.threads i t a ht
  have h1 := List.count_pos_iff.2 ha
  omega

/-- `clone` -/
theorem inv_clone {c : Cfg} {i : Nat} {t : Thread} {a : Nat} (inv : CInv c) (ht : c.threads[i]? = some t)
    (hph : t.phase = .idle) (ha : a ∈ t.owned) :
    CInv { blocks := setRc c.blocks a (· + 1), threads := c.threads.set i { t with owned := a :: t.owned } } := by
  have hlive := inv.owned_live i t ht a ha
  obtain ⟨b, hb, hbl⟩ := liveOf_true hlive
  refine ⟨?_, ?_, ?_, ?_, ?_, ?_, ?_, ?_⟩
  · intro x bx hbx hl
    have hc := cnt_set c.threads i t { t with owned := a :: t.owned } x ht
    simp only [setRc_getElem?] at hbx
    by_cases he : x = a
    · subst he
      simp only [if_true, hb, Option.map_some, Option.some.injEq] at hbx
      subst hbx
      have := inv.count x b hb hbl
      simp only [List.count_cons_self] at hc
      show b.rc + 1 = cnt (c.threads.set i { t with owned := x :: t.owned }) x; omega
    · simp only [he, if_false] at hbx
      have := inv.count x bx hbx hl
      simp only [List.count_cons_of_ne (Ne.symm he)] at hc
      show bx.rc = cnt (c.threads.set i { t with owned := a :: t.owned }) x; omega
  · intro j u hu x hx
    rw [liveOf_setRc]
    rcases set_cases ht hu with ⟨_, rfl⟩ | ⟨_, hu'⟩
    · rcases List.mem_cons.1 hx with rfl | hx'
      · exact hlive
      · exact inv.owned_live i t ht x hx'
    · exact inv.owned_live j u hu' x hx
  · intro j u x hu hp
    rcases set_cases ht hu with ⟨_, rfl⟩ | ⟨_, hu'⟩
    · simp only [Phase.needsHandle, hph] at hp; rcases hp with h | h | h | h <;> cases h
    · exact inv.phase_owned j u x hu' hp
  · intro j u x hu hp
    rcases set_cases ht hu with ⟨_, rfl⟩ | ⟨hne, hu'⟩
    · rw [hph] at hp; cases hp
    · have hxa : x ≠ a := fun e => no_unique_if_owned inv hne ht hu' ha (e ▸ hp)
      rw [rcOf_setRc_other _ _ _ _ hxa]; exact inv.unique_rc j u x hu' hp
  · intro j u x hu hp
    rcases set_cases ht hu with ⟨_, rfl⟩ | ⟨hne, hu'⟩
    · rw [hph] at hp; cases hp
    · have hxa : x ≠ a := fun e => no_dying_if_owned inv ht hu' ha (e ▸ hp)
      obtain ⟨d1, d2, d3⟩ := inv.dying j u x hu' hp
      refine ⟨by rw [liveOf_setRc]; exact d1, by rw [rcOf_setRc_other _ _ _ _ hxa]; exact d2, ?_⟩
      intro k v hk hv
      rcases set_cases ht hv with ⟨_, rfl⟩ | ⟨_, hv'⟩
      · simp [hph]
      · exact d3 k v hk hv'
  · intro j u x hu
    rcases set_cases ht hu with ⟨_, rfl⟩ | ⟨_, hu'⟩
    · simp [hph]
    · exact inv.no_legacy j u x hu'
  · intro j u x hu hp
    rcases set_cases ht hu with ⟨_, rfl⟩ | ⟨_, hu'⟩
    · rw [show ({ t with owned := a :: t.owned } : Thread).phase = t.phase from rfl, hph] at hp; cases hp
    · exact inv.lending_owned j u x hu' hp
  · intro j u x hu hp
    rcases set_cases ht hu with ⟨_, rfl⟩ | ⟨_, hu'⟩
    · rw [show ({ t with owned := a :: t.owned } : Thread).phase = t.phase from rfl, hph] at hp; cases hp
    · exact lender_kept ht (fun h => h) (inv.borrowed_lender j u x hu' hp)

theorem no_unique_owner {c : Cfg} (inv : CInv c) {k j : Nat} {v u : Thread} {a : Nat}
    (hv : c.threads[k]? = some v) (hu : c.threads[j]? = some u) (ha : a ∈ v.owned) (hnu : ∀ x, v.phase ≠ .unique x) :
    u.phase ≠ .unique a := by
  by_cases hjk : j = k
  · subst hjk; rw [hv] at hu; injection hu with hu; subst hu; exact hnu a
  · exact no_unique_if_owned inv hjk hv hu ha

/-- `clone` through a borrowed reference: some *other* handle on `a` exists and its owner is
neither writing in place nor freeing -/
theorem inv_cloneB {c : Cfg} {i : Nat} {t : Thread} {a : Nat} (inv : CInv c) (ht : c.threads[i]? = some t)
    (hph : t.phase = .idle) (k : Nat) (v : Thread) (hkv : c.threads[k]? = some v) (ha : a ∈ v.owned)
    (hnu : ∀ x, v.phase ≠ .unique x) (hnd : ∀ x, v.phase ≠ .dying x) :
    CInv { blocks := setRc c.blocks a (· + 1), threads := c.threads.set i { t with owned := a :: t.owned } } := by
  have hlive := inv.owned_live k v hkv a ha
  obtain ⟨b, hb, hbl⟩ := liveOf_true hlive
  refine ⟨?_, ?_, ?_, ?_, ?_, ?_, ?_, ?_⟩
  · intro x bx hbx hl
    have hc := cnt_set c.threads i t { t with owned := a :: t.owned } x ht
    simp only [setRc_getElem?] at hbx
    by_cases he : x = a
    · subst he
      simp only [if_true, hb, Option.map_some, Option.some.injEq] at hbx
      subst hbx
      have := inv.count x b hb hbl
      simp only [List.count_cons_self] at hc
      show b.rc + 1 = cnt (c.threads.set i { t with owned := x :: t.owned }) x; omega
    · simp only [he, if_false] at hbx
      have := inv.count x bx hbx hl
      simp only [List.count_cons_of_ne (Ne.symm he)] at hc
      show bx.rc = cnt (c.threads.set i { t with owned := a :: t.owned }) x; omega
  · intro j u hu x hx
    rw [liveOf_setRc]
    rcases set_cases ht hu with ⟨_, rfl⟩ | ⟨_, hu'⟩
    · rcases List.mem_cons.1 hx with rfl | hx'
      · exact hlive
      · exact inv.owned_live i t ht x hx'
    · exact inv.owned_live j u hu' x hx
  · intro j u x hu hp
    rcases set_cases ht hu with ⟨_, rfl⟩ | ⟨_, hu'⟩
    · simp only [Phase.needsHandle, hph] at hp; rcases hp with h | h | h | h <;> cases h
    · exact inv.phase_owned j u x hu' hp
  · intro j u x hu hp
    rcases set_cases ht hu with ⟨_, rfl⟩ | ⟨hne, hu'⟩
    · rw [hph] at hp; cases hp
    · have hxa : x ≠ a := fun e => no_unique_owner inv hkv hu' ha hnu (e ▸ hp)
      rw [rcOf_setRc_other _ _ _ _ hxa]; exact inv.unique_rc j u x hu' hp
  · intro j u x hu hp
    rcases set_cases ht hu with ⟨_, rfl⟩ | ⟨hne, hu'⟩
    · rw [hph] at hp; cases hp
    · have hxa : x ≠ a := fun e => no_dying_if_owned inv hkv hu' ha (e ▸ hp)
      obtain ⟨d1, d2, d3⟩ := inv.dying j u x hu' hp
      refine ⟨by rw [liveOf_setRc]; exact d1, by rw [rcOf_setRc_other _ _ _ _ hxa]; exact d2, ?_⟩
      intro k v hk hv
      rcases set_cases ht hv with ⟨_, rfl⟩ | ⟨_, hv'⟩
      · simp [hph]
      · exact d3 k v hk hv'
  · intro j u x hu
    rcases set_cases ht hu with ⟨_, rfl⟩ | ⟨_, hu'⟩
    · simp [hph]
    · exact inv.no_legacy j u x hu'
  · intro j u x hu hp
    rcases set_cases ht hu with ⟨_, rfl⟩ | ⟨_, hu'⟩
    · rw [show ({ t with owned := a :: t.owned } : Thread).phase = t.phase from rfl, hph] at hp; cases hp
    · exact inv.lending_owned j u x hu' hp
  · intro j u x hu hp
    rcases set_cases ht hu with ⟨_, rfl⟩ | ⟨_, hu'⟩
    · rw [show ({ t with owned := a :: t.owned } : Thread).phase = t.phase from rfl, hph] at hp; cases hp
    · exact lender_kept ht (fun h => h) (inv.borrowed_lender j u x hu' hp)

/-- giving up a reference (`drop`, or the release at the end of a copy-out), with `owned'` the
remaining handles of the acting thread: `owned'.count a + 1 = owned.count a`, other counts equal -/
theorem inv_release {c : Cfg} {i : Nat} {t : Thread} {a : Nat} (inv : CInv c) (ht : c.threads[i]? = some t)
    (ha : a ∈ t.owned) (hnd : ∀ x, t.phase ≠ .dying x) (hold : ∀ x, t.phase ≠ .lending x) :
    CInv { blocks := setRc c.blocks a (· - 1),
           threads := c.threads.set i { owned := t.owned.erase a,
                                        phase := if rcOf c.blocks a = 1 then .dying a else .idle } } := by
  have hlive := inv.owned_live i t ht a ha
  obtain ⟨b, hb, hbl⟩ := liveOf_true hlive
  have hrcb : rcOf c.blocks a = b.rc := rcOf_eq hb
  have hcnt := inv.count a b hb hbl
  have hge := cnt_ge c.threads i t a ht
  have hpos := List.count_pos_iff.2 ha
  refine ⟨?_, ?_, ?_, ?_, ?_, ?_, ?_, ?_⟩
  · intro x bx hbx hl
    have hc := cnt_set c.threads i t { owned := t.owned.erase a, phase := if rcOf c.blocks a = 1 then .dying a else .idle } x ht
    simp only [setRc_getElem?] at hbx
    by_cases he : x = a
    · subst he
      simp only [if_true, hb, Option.map_some, Option.some.injEq] at hbx
      subst hbx
      have := count_erase_same t.owned x ha
      dsimp only at hc
      show b.rc - 1 = cnt (c.threads.set i { owned := t.owned.erase x, phase := if rcOf c.blocks x = 1 then .dying x else .idle }) x
      omega
    · simp only [he, if_false] at hbx
      have := inv.count x bx hbx hl
      dsimp only at hc
      rw [count_erase_other _ _ _ he] at hc
      show bx.rc = cnt (c.threads.set i { owned := t.owned.erase a, phase := if rcOf c.blocks a = 1 then .dying a else .idle }) x
      omega
  · intro j u hu x hx
    rw [liveOf_setRc]
    rcases set_cases ht hu with ⟨_, rfl⟩ | ⟨_, hu'⟩
    · exact inv.owned_live i t ht x (List.mem_of_mem_erase hx)
    · exact inv.owned_live j u hu' x hx
  · intro j u x hu hp
    rcases set_cases ht hu with ⟨_, rfl⟩ | ⟨_, hu'⟩
    · simp only [Phase.needsHandle] at hp
      split at hp <;> (rcases hp with h | h | h | h <;> cases h)
    · exact inv.phase_owned j u x hu' hp
  · intro j u x hu hp
    rcases set_cases ht hu with ⟨_, rfl⟩ | ⟨hne, hu'⟩
    · simp only [] at hp; split at hp <;> cases hp
    · have hxa : x ≠ a := fun e => no_unique_if_owned inv hne ht hu' ha (e ▸ hp)
      rw [rcOf_setRc_other _ _ _ _ hxa]; exact inv.unique_rc j u x hu' hp
  · intro j u x hu hp
    rcases set_cases ht hu with ⟨hji, rfl⟩ | ⟨hne, hu'⟩
    · simp only [] at hp
      split at hp
      · rename_i h1
        injection hp with hp; subst hp
        refine ⟨by rw [liveOf_setRc]; exact hlive, by rw [rcOf_setRc_same _ _ _ b hb]; omega, ?_⟩
        intro k v hk hv
        rcases set_cases ht hv with ⟨hki, _⟩ | ⟨_, hv'⟩
        · exact absurd (hki.trans hji.symm) hk
        · exact no_dying_if_owned inv ht hv' ha
      · cases hp
    · have hxa : x ≠ a := fun e => no_dying_if_owned inv ht hu' ha (e ▸ hp)
      obtain ⟨d1, d2, d3⟩ := inv.dying j u x hu' hp
      refine ⟨by rw [liveOf_setRc]; exact d1, by rw [rcOf_setRc_other _ _ _ _ hxa]; exact d2, ?_⟩
      intro k v hk hv
      rcases set_cases ht hv with ⟨_, rfl⟩ | ⟨_, hv'⟩
      · simp only []; split
        · intro h; injection h with h; exact hxa h.symm
        · simp
      · exact d3 k v hk hv'
  · intro j u x hu
    rcases set_cases ht hu with ⟨_, rfl⟩ | ⟨_, hu'⟩
    · simp only []; split <;> simp
    · exact inv.no_legacy j u x hu'
  · intro j u x hu hp
    rcases set_cases ht hu with ⟨_, rfl⟩ | ⟨_, hu'⟩
    · simp only [] at hp; split at hp <;> cases hp
    · exact inv.lending_owned j u x hu' hp
  · intro j u x hu hp
    rcases set_cases ht hu with ⟨_, rfl⟩ | ⟨_, hu'⟩
    · simp only [] at hp; split at hp <;> cases hp
    · exact lender_kept ht (fun h => absurd h (hold x)) (inv.borrowed_lender j u x hu' hp)

end LS.ConcL

namespace LS.ConcL

theorem liveOf_append_left (bs : List Blk) (nb : Blk) (x : Nat) (h : x < bs.length) : liveOf (bs ++ [nb]) x = liveOf bs x := by
  unfold liveOf; rw [List.getElem?_append_left h]
theorem rcOf_append_left (bs : List Blk) (nb : Blk) (x : Nat) (h : x < bs.length) : rcOf (bs ++ [nb]) x = rcOf bs x := by
  unfold rcOf; rw [List.getElem?_append_left h]

theorem lt_of_live {bs : List Blk} {a : Nat} (h : liveOf bs a = true) : a < bs.length := by
  obtain ⟨b, hb, _⟩ := liveOf_true h; exact lt_of_get hb

/-- a thread allocates a fresh block and holds the only handle on it -/
theorem inv_alloc {c : Cfg} {i : Nat} {t : Thread} (inv : CInv c) (ht : c.threads[i]? = some t) :
    CInv { blocks := c.blocks ++ [{ live := true, rc := 1 }],
           threads := c.threads.set i { t with owned := c.blocks.length :: t.owned } } := by
  have hfresh := cnt_fresh inv c.blocks.length (Nat.le_refl _)
  have htn : t.owned.count c.blocks.length = 0 := by have := cnt_ge c.threads i t c.blocks.length ht; omega
  refine ⟨?_, ?_, ?_, ?_, ?_, ?_, ?_, ?_⟩
  · intro x bx hbx hl
    have hc := cnt_set c.threads i t { t with owned := c.blocks.length :: t.owned } x ht
    dsimp only at hc hbx
    show bx.rc = cnt (c.threads.set i { t with owned := c.blocks.length :: t.owned }) x
    rcases Nat.lt_trichotomy x c.blocks.length with hlt | heq | hgt
    · rw [List.getElem?_append_left hlt] at hbx
      have := inv.count x bx hbx hl
      rw [List.count_cons_of_ne (by omega)] at hc; omega
    · subst heq
      rw [List.getElem?_append_right (Nat.le_refl _)] at hbx
      have hrc : bx.rc = 1 := by simp at hbx; rw [← hbx]
      rw [List.count_cons_self] at hc; omega
    · rw [List.getElem?_eq_none (by rw [List.length_append, List.length_singleton]; omega)] at hbx; cases hbx
  · intro j u hu x hx
    rcases set_cases ht hu with ⟨_, rfl⟩ | ⟨_, hu'⟩
    · rcases List.mem_cons.1 hx with rfl | hx'
      · simp [liveOf]
      · have := inv.owned_live i t ht x hx'
        rw [liveOf_append_left _ _ _ (lt_of_live this)]; exact this
    · have := inv.owned_live j u hu' x hx
      rw [liveOf_append_left _ _ _ (lt_of_live this)]; exact this
  · intro j u x hu hp
    rcases set_cases ht hu with ⟨_, rfl⟩ | ⟨_, hu'⟩
    · exact List.mem_cons_of_mem _ (inv.phase_owned i t x ht hp)
    · exact inv.phase_owned j u x hu' hp
  · intro j u x hu hp
    have key : ∀ (v : Thread) (k : Nat), c.threads[k]? = some v → v.phase = Phase.unique x → rcOf (c.blocks ++ [{ live := true, rc := 1 }]) x = 1 := by
      intro v k hv hpv
      have hl := inv.owned_live k v hv x (inv.phase_owned k v x hv (Or.inl hpv))
      rw [rcOf_append_left _ _ _ (lt_of_live hl)]; exact inv.unique_rc k v x hv hpv
    rcases set_cases ht hu with ⟨_, rfl⟩ | ⟨_, hu'⟩
    · exact key t i ht hp
    · exact key u j hu' hp
  · intro j u x hu hp
    have key : ∀ (v : Thread) (k : Nat), c.threads[k]? = some v → v.phase = Phase.dying x →
        liveOf (c.blocks ++ [{ live := true, rc := 1 }]) x = true ∧ rcOf (c.blocks ++ [{ live := true, rc := 1 }]) x = 0 := by
      intro v k hv hpv
      obtain ⟨d1, d2, _⟩ := inv.dying k v x hv hpv
      exact ⟨by rw [liveOf_append_left _ _ _ (lt_of_live d1)]; exact d1, by rw [rcOf_append_left _ _ _ (lt_of_live d1)]; exact d2⟩
    rcases set_cases ht hu with ⟨hji, rfl⟩ | ⟨hne, hu'⟩
    · obtain ⟨k1, k2⟩ := key t i ht hp
      refine ⟨k1, k2, ?_⟩
      intro k v hk hv
      rcases set_cases ht hv with ⟨hki, _⟩ | ⟨hki, hv'⟩
      · exact absurd (hki.trans hji.symm) hk
      · exact (inv.dying i t x ht hp).2.2 k v hki hv'
    · obtain ⟨k1, k2⟩ := key u j hu' hp
      refine ⟨k1, k2, ?_⟩
      intro k v hk hv
      rcases set_cases ht hv with ⟨_, rfl⟩ | ⟨_, hv'⟩
      · exact (inv.dying j u x hu' hp).2.2 i t (Ne.symm hne) ht
      · exact (inv.dying j u x hu' hp).2.2 k v hk hv'
  · intro j u x hu
    rcases set_cases ht hu with ⟨_, rfl⟩ | ⟨_, hu'⟩
    · exact inv.no_legacy i t x ht
    · exact inv.no_legacy j u x hu'
  · intro j u x hu hp
    rcases set_cases ht hu with ⟨_, rfl⟩ | ⟨_, hu'⟩
    · exact List.mem_cons_of_mem _ (inv.lending_owned i t x ht hp)
    · exact inv.lending_owned j u x hu' hp
  · intro j u x hu hp
    rcases set_cases ht hu with ⟨_, rfl⟩ | ⟨_, hu'⟩
    · exact lender_kept ht (fun h => h) (inv.borrowed_lender i t x ht hp)
    · exact lender_kept ht (fun h => h) (inv.borrowed_lender j u x hu' hp)

theorem liveOf_setLive_other (bs : List Blk) (a x : Nat) (b : Blk) (h : x ≠ a) :
    liveOf (bs.set a b) x = liveOf bs x := by
  unfold liveOf; rw [List.getElem?_set_ne (Ne.symm h)]

theorem rcOf_setLive (bs : List Blk) (a x : Nat) (b : Blk) (hb : bs[a]? = some b) :
    rcOf (bs.set a { b with live := false }) x = rcOf bs x := by
  unfold rcOf
  by_cases he : x = a
  · subst he; rw [List.getElem?_set_self (lt_of_get hb), hb]
  · rw [List.getElem?_set_ne (Ne.symm he)]

/-- `dealloc` by the thread whose decrement saw 1 -/
theorem inv_free {c : Cfg} {i : Nat} {t : Thread} {a : Nat} {b : Blk} (inv : CInv c) (ht : c.threads[i]? = some t)
    (hph : t.phase = .dying a) (hb : c.blocks[a]? = some b) :
    CInv { blocks := c.blocks.set a { b with live := false }, threads := c.threads.set i { t with phase := .idle } } := by
  obtain ⟨d1, d2, d3⟩ := inv.dying i t a ht hph
  have hcz : cnt c.threads a = 0 := by rw [← inv.rc_cnt d1]; exact d2
  have nobody : ∀ (j : Nat) (u : Thread), c.threads[j]? = some u → a ∉ u.owned := by
    intro j u hu hm
    have := cnt_ge c.threads j u a hu
    have := List.count_pos_iff.2 hm
    omega
  refine ⟨?_, ?_, ?_, ?_, ?_, ?_, ?_, ?_⟩
  · intro x bx hbx hl
    show bx.rc = cnt (c.threads.set i { owned := t.owned, phase := Phase.idle }) x
    rw [cnt_set_same_owned c.threads i t { owned := t.owned, phase := Phase.idle } x ht rfl]
    dsimp only at hbx
    by_cases he : x = a
    · subst he; rw [List.getElem?_set_self (lt_of_get hb)] at hbx; injection hbx with hbx; subst hbx; cases hl
    · rw [List.getElem?_set_ne (Ne.symm he)] at hbx; exact inv.count x bx hbx hl
  · intro j u hu x hx
    have hown : ∃ (k : Nat) (v : Thread), c.threads[k]? = some v ∧ x ∈ v.owned := by
      rcases set_cases ht hu with ⟨_, rfl⟩ | ⟨_, hu'⟩
      · exact ⟨i, t, ht, hx⟩
      · exact ⟨j, u, hu', hx⟩
    obtain ⟨k, v, hv, hxv⟩ := hown
    have hxa : x ≠ a := fun e => nobody k v hv (e ▸ hxv)
    show liveOf (c.blocks.set a _) x = true
    rw [liveOf_setLive_other _ _ _ _ hxa]; exact inv.owned_live k v hv x hxv
  · intro j u x hu hp
    rcases set_cases ht hu with ⟨_, rfl⟩ | ⟨_, hu'⟩
    · simp only [Phase.needsHandle] at hp; rcases hp with h | h | h | h <;> cases h
    · exact inv.phase_owned j u x hu' hp
  · intro j u x hu hp
    show rcOf (c.blocks.set a _) x = 1
    rw [rcOf_setLive _ _ _ _ hb]
    rcases set_cases ht hu with ⟨_, rfl⟩ | ⟨_, hu'⟩
    · cases hp
    · exact inv.unique_rc j u x hu' hp
  · intro j u x hu hp
    rcases set_cases ht hu with ⟨_, rfl⟩ | ⟨hne, hu'⟩
    · cases hp
    · have hxa : x ≠ a := fun e => d3 j u hne hu' (e ▸ hp)
      obtain ⟨e1, e2, e3⟩ := inv.dying j u x hu' hp
      refine ⟨?_, ?_, ?_⟩
      · show liveOf (c.blocks.set a _) x = true; rw [liveOf_setLive_other _ _ _ _ hxa]; exact e1
      · show rcOf (c.blocks.set a _) x = 0; rw [rcOf_setLive _ _ _ _ hb]; exact e2
      · intro k v hk hv
        rcases set_cases ht hv with ⟨_, rfl⟩ | ⟨_, hv'⟩
        · simp
        · exact e3 k v hk hv'
  · intro j u x hu
    rcases set_cases ht hu with ⟨_, rfl⟩ | ⟨_, hu'⟩
    · simp
    · exact inv.no_legacy j u x hu'
  · intro j u x hu hp
    rcases set_cases ht hu with ⟨_, rfl⟩ | ⟨_, hu'⟩
    · cases hp
    · exact inv.lending_owned j u x hu' hp
  · intro j u x hu hp
    rcases set_cases ht hu with ⟨_, rfl⟩ | ⟨_, hu'⟩
    · cases hp
    · exact lender_kept ht (fun h => by rw [hph] at h; cases h) (inv.borrowed_lender j u x hu' hp)

end LS.ConcL

namespace LS.ConcL

theorem erase_cons_ne (n a : Nat) (l : List Nat) (h : n ≠ a) : (n :: l).erase a = n :: l.erase a := by
  simp [List.erase_cons, h]

/-- **every micro-step of every thread preserves the invariant** (repaired protocol) -/
theorem step_inv {c c' : Cfg} {i : Nat} {act : Act} (inv : CInv c) (h : step false c i act = some c') : CInv c' := by
  unfold step at h
  cases ht : c.threads[i]? with
  | none => rw [ht] at h; cases h
  | some t =>
    rw [ht] at h
    simp only [] at h
    cases act with
    | clone a =>
      cases hph : t.phase <;> simp only [hph] at h <;> try (simp at h; done)
      by_cases ha : a ∈ t.owned
      · rw [if_pos ha] at h; injection h with h; subst h
        have r := inv_clone inv ht hph ha; simp only [hph] at r; exact r
      · rw [if_neg ha] at h; cases h
    | drop a =>
      cases hph : t.phase <;> simp only [hph] at h <;> try (simp at h; done)
      by_cases ha : a ∈ t.owned
      · rw [if_pos ha] at h; injection h with h; subst h
        exact inv_release inv ht ha (fun x => by rw [hph]; simp) (fun x => by rw [hph]; simp)
      · rw [if_neg ha] at h; cases h
    | free =>
      cases hph : t.phase <;> simp only [hph] at h <;> try (simp at h; done)
      rename_i a
      cases hb : c.blocks[a]? with
      | none => rw [hb] at h; cases h
      | some b =>
        rw [hb] at h; injection h with h; subst h
        have r := inv_free inv ht hph hb; exact r
    | probe a =>
      cases hph : t.phase <;> simp only [hph] at h <;> try (simp at h; done)
      by_cases ha : a ∈ t.owned
      · rw [if_pos ha] at h; injection h with h; subst h
        by_cases h1 : rcOf c.blocks a = 1
        · simp only [h1, if_true]
          refine inv_phase_only inv ht (.unique a) ?_ ?_ (by simp) (by simp) (fun x h => by rw [hph] at h; cases h) (fun x h => by cases h) (fun x h => by cases h)
          · intro x hp; simp only [Phase.needsHandle] at hp
            rcases hp with e | e | e | e <;> (try cases e); exact ha
          · intro x hp; injection hp with hp; subst hp; exact h1
        · simp only [h1, if_false]
          refine inv_phase_only inv ht (.copying a) ?_ (fun x hp => by cases hp) (by simp) (by simp) (fun x h => by rw [hph] at h; cases h) (fun x h => by cases h) (fun x h => by cases h)
          intro x hp; simp only [Phase.needsHandle] at hp
          rcases hp with e | e | e | e <;> (try cases e); exact ha
      · rw [if_neg ha] at h; cases h
    | write =>
      cases hph : t.phase <;> simp only [hph] at h <;> try (simp at h; done)
      injection h with h; subst h
      exact inv_phase_only inv ht .idle (fun x hp => by simp [Phase.needsHandle] at hp) (fun x hp => by cases hp) (by simp) (by simp) (fun x h => by rw [hph] at h; cases h) (fun x h => by cases h) (fun x h => by cases h)
    | copyRead =>
      cases hph : t.phase <;> simp only [hph] at h <;> try (simp at h; done)
      rename_i a
      injection h with h; subst h
      refine inv_phase_only inv ht (.copied a) ?_ (fun x hp => by cases hp) (by simp) (by simp) (fun x h => by rw [hph] at h; cases h) (fun x h => by cases h) (fun x h => by cases h)
      intro x hp
      simp only [Phase.needsHandle] at hp
      rcases hp with e | e | e | e <;> (try cases e)
      exact inv.phase_owned i t a ht (Or.inr (Or.inl hph))
    | copyFinish =>
      cases hph : t.phase <;> simp only [hph] at h <;> try (simp at h; done)
      rename_i a
      injection h with h; subst h
      have ha : a ∈ t.owned := inv.phase_owned i t a ht (Or.inr (Or.inr (Or.inl hph)))
      have halive := inv.owned_live i t ht a ha
      have halt : a < c.blocks.length := lt_of_live halive
      have inv1 := inv_alloc inv ht
      have ht1 := set_self (t' := { t with owned := c.blocks.length :: t.owned }) ht
      have inv2 := inv_release (a := a) inv1 ht1 (List.mem_cons_of_mem _ ha) (fun x => by show t.phase ≠ _; rw [hph]; simp) (fun x => by show t.phase ≠ _; rw [hph]; simp)
      have e1 : rcOf (c.blocks ++ [{ live := true, rc := 1 }]) a = rcOf c.blocks a := rcOf_append_left _ _ _ halt
      have e2 : (c.blocks.length :: t.owned).erase a = c.blocks.length :: t.owned.erase a := erase_cons_ne _ _ _ (by omega)
      simp only [e1, e2, List.set_set] at inv2
      exact inv2
    | readStart a =>
      cases hph : t.phase <;> simp only [hph] at h <;> try (simp at h; done)
      by_cases ha : a ∈ t.owned
      · rw [if_pos ha] at h; injection h with h; subst h
        refine inv_phase_only inv ht (.reading a) ?_ (fun x hp => by cases hp) (by simp) (by simp) (fun x h => by rw [hph] at h; cases h) (fun x h => by cases h) (fun x h => by cases h)
        intro x hp; simp only [Phase.needsHandle] at hp
        rcases hp with e | e | e | e <;> (try cases e); exact ha
      · rw [if_neg ha] at h; cases h
    | readEnd =>
      cases hph : t.phase <;> simp only [hph] at h <;> try (simp at h; done)
      injection h with h; subst h
      exact inv_phase_only inv ht .idle (fun x hp => by simp [Phase.needsHandle] at hp) (fun x hp => by cases hp) (by simp) (by simp) (fun x h => by rw [hph] at h; cases h) (fun x h => by cases h) (fun x h => by cases h)
    | legacyProbe a =>
      cases hph : t.phase <;> simp only [hph] at h <;> try (simp at h; done)
    | legacyRead =>
      cases hph : t.phase <;> simp only [hph] at h <;> try (simp at h; done)

    | lend a =>
      cases hph : t.phase <;> simp only [hph] at h <;> try (simp at h; done)
      by_cases ha : a ∈ t.owned
      · rw [if_pos ha] at h; injection h with h; subst h
        refine inv_phase_only inv ht (.lending a) ?_ (fun x hp => by cases hp) (by simp) (by simp)
          (fun x h => by rw [hph] at h; cases h) ?_ (fun x h => by cases h)
        · intro x hp; simp only [Phase.needsHandle] at hp
          rcases hp with e | e | e | e <;> cases e
        · intro x hp; injection hp with hp; subst hp; exact ha
      · rw [if_neg ha] at h; cases h
    | reclaim =>
      cases hph : t.phase <;> simp only [hph] at h <;> try (simp at h; done)
      rename_i a
      by_cases hg : (c.threads.all fun u => u.phase != .readingBorrowed a) = true
      · rw [if_pos hg] at h; injection h with h; subst h
        have hnone : ∀ (j : Nat) (u : Thread), c.threads[j]? = some u → u.phase ≠ .readingBorrowed a := by
          intro j u hu
          have := List.all_eq_true.1 hg u (List.mem_of_getElem? hu)
          simpa using this
        refine inv_phase_only inv ht .idle (fun x hp => by simp [Phase.needsHandle] at hp) (fun x hp => by cases hp)
          (by simp) (by simp) ?_ (fun x h => by cases h) (fun x h => by cases h)
        intro x hx
        rw [hph] at hx; injection hx with hx; subst hx
        exact Or.inr hnone
      · rw [if_neg hg] at h; cases h
    | cloneBorrowed a =>
      cases hph : t.phase <;> simp only [hph] at h <;> try (simp at h; done)
      by_cases hg : (c.threads.any fun u => u.phase == .lending a) = true
      · rw [if_pos hg] at h; injection h with h; subst h
        obtain ⟨v, hvm, hvp⟩ := List.any_eq_true.1 hg
        obtain ⟨k, hk⟩ := List.mem_iff_getElem?.1 hvm
        have hvp' : v.phase = .lending a := by simpa using hvp
        have r := inv_cloneB inv ht hph k v hk (inv.lending_owned k v a hk hvp') (by rw [hvp']; simp) (by rw [hvp']; simp)
        simp only [hph] at r; exact r
      · rw [if_neg hg] at h; cases h
    | readBorrowedStart a =>
      cases hph : t.phase <;> simp only [hph] at h <;> try (simp at h; done)
      by_cases hg : (c.threads.any fun u => u.phase == .lending a) = true
      · rw [if_pos hg] at h; injection h with h; subst h
        obtain ⟨v, hvm, hvp⟩ := List.any_eq_true.1 hg
        obtain ⟨k, hk⟩ := List.mem_iff_getElem?.1 hvm
        have hvp' : v.phase = .lending a := by simpa using hvp
        have hki : k ≠ i := by
          intro e; subst e; rw [ht] at hk; injection hk with hk; subst hk; rw [hph] at hvp'; cases hvp'
        refine inv_phase_only inv ht (.readingBorrowed a) ?_ (fun x hp => by cases hp) (by simp) (by simp)
          (fun x h => by rw [hph] at h; cases h) (fun x h => by cases h) ?_
        · intro x hp; simp only [Phase.needsHandle] at hp
          rcases hp with e | e | e | e <;> cases e
        · intro x hp; injection hp with hp; subst hp; exact ⟨k, v, hk, hvp', hki⟩
      · rw [if_neg hg] at h; cases h
    | readBorrowedEnd =>
      cases hph : t.phase <;> simp only [hph] at h <;> try (simp at h; done)
      injection h with h; subst h
      exact inv_phase_only inv ht .idle (fun x hp => by simp [Phase.needsHandle] at hp) (fun x hp => by cases hp) (by simp) (by simp)
        (fun x h => by rw [hph] at h; cases h) (fun x h => by cases h) (fun x h => by cases h)

/-- every schedule, of any length, over any number of threads -/
theorem run_inv : ∀ (sched : List (Nat × Act)) (c c' : Cfg), CInv c → run false c sched = some c' → CInv c' := by
  intro sched
  induction sched with
  | nil => intro c c' inv h; simp only [run] at h; injection h with h; subst h; exact inv
  | cons s rest ih =>
    intro c c' inv h
    obtain ⟨i, a⟩ := s
    simp only [run] at h
    cases hs : step false c i a with
    | none => rw [hs] at h; cases h
    | some c1 => rw [hs] at h; exact ih c1 c' (step_inv inv hs) h

/-- **memory safety under every schedule** -/
theorem run_safe (sched : List (Nat × Act)) (c c' : Cfg) (inv : CInv c) (h : run false c sched = some c') : Safe c' :=
  safe_of_inv (run_inv sched c c' inv h)

end LS.ConcL
