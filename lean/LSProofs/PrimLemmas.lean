import LSProofs.HandleLemmas
/-! Characterisations of the heap primitives (one `iff`/`cases` lemma each), so that proofs about
operations never have to unfold them. -/
namespace LS

theorem get?_lt {hp : Heap} {a : Nat} {b : Block} (h : hp.get? a = some b) : a < hp.slots.length := by
  unfold Heap.get? at h
  rcases Nat.lt_or_ge a hp.slots.length with h' | h'
  · exact h'
  · rw [List.getElem?_eq_none h'] at h; cases h

theorem get?_eq_some {hp : Heap} {a : Nat} {b : Block} : hp.get? a = some b ↔ hp.slots[a]? = some (.live b) := by
  unfold Heap.get?
  constructor
  · intro h; split at h
    · rename_i b' heq; injection h with h; subst h; exact heq
    · cases h
  · intro h; rw [h]

theorem get?_setBlock_same {hp : Heap} {a : Nat} {b : Block} (ha : a < hp.slots.length) :
    (hp.setBlock a b).get? a = some b := by
  simp [Heap.get?, Heap.setBlock, ha]

theorem get?_setBlock_other {hp : Heap} {a a' : Nat} {b : Block} (hne : a' ≠ a) :
    (hp.setBlock a b).get? a' = hp.get? a' := by
  simp only [Heap.get?, Heap.setBlock]
  rw [List.getElem?_set]
  simp [Ne.symm hne]

theorem retain_ok {hp hp' : Heap} {a : Nat} (h : hp.retain a = .ok hp') :
    ∃ b, hp.get? a = some b ∧ hp' = hp.setBlock a { b with rc := b.rc + 1 } := by
  unfold Heap.retain at h
  cases hb : hp.get? a with
  | none => rw [hb] at h; cases h
  | some b =>
    rw [hb] at h
    injection h with h; exact ⟨b, rfl, h.symm⟩

inductive ReleaseSpec (hp : Heap) (a : Nat) (hp' : Heap) : Prop
  | freed (b : Block) (hb : hp.get? a = some b) (hrc : b.rc = 1) (hsz : b.size = HEADER + b.cap)
      (he : hp' = { hp with slots := hp.slots.set a .freed, log := .free b.size :: hp.log })
  | dec (b : Block) (hb : hp.get? a = some b) (hrc : 2 ≤ b.rc)
      (he : hp' = hp.setBlock a { b with rc := b.rc - 1 })

theorem release_ok {hp hp' : Heap} {a : Nat} (h : hp.release a = .ok hp') : ReleaseSpec hp a hp' := by
  unfold Heap.release at h
  split at h
  · rename_i b heq
    have hb : hp.get? a = some b := get?_eq_some.2 heq
    split at h
    · cases h
    · split at h
      · split at h
        · injection h with h; exact .freed b hb (by assumption) (by assumption) h.symm
        · cases h
      · injection h with h; exact .dec b hb (by omega) h.symm
  · cases h
  · cases h

/-- releasing a live, well-sized block with a positive count never raises an alarm -/
theorem release_total {hp : Heap} {a : Nat} {b : Block} (hb : hp.get? a = some b) (hrc : 1 ≤ b.rc)
    (hsz : b.size = HEADER + b.cap) : ∃ hp', hp.release a = .ok hp' := by
  unfold Heap.release
  rw [get?_eq_some.1 hb]
  simp only [hsz, if_true]
  split
  · omega
  · split
    · exact ⟨_, rfl⟩
    · exact ⟨_, rfl⟩

inductive AllocSpec (rf : Refuse) (hp : Heap) (cap : Nat) (init : Bytes) : Option Nat × Heap → Prop
  | refused (hr : rf hp.reqs (HEADER + cap) = true) :
      AllocSpec rf hp cap init (none, { hp with reqs := hp.reqs + 1, log := .allocX (HEADER + cap) :: hp.log })
  | ok (hr : rf hp.reqs (HEADER + cap) = false) :
      AllocSpec rf hp cap init (some hp.slots.length,
        { slots := hp.slots ++ [.live { rc := 1, cap := cap, size := HEADER + cap, data := padTo cap init }],
          reqs := hp.reqs + 1, log := .alloc (HEADER + cap) :: hp.log })

theorem allocate_spec (rf : Refuse) (hp : Heap) (cap : Nat) (init : Bytes) :
    AllocSpec rf hp cap init (hp.allocate rf cap init) := by
  simp only [Heap.allocate]
  split
  · exact .refused (by assumption)
  · rename_i hn; exact .ok (by simpa using hn)

end LS
