import LSProofs.InlineLemmas
/-!
# C20 — two words, a free niche

(a) the declared `LastByte` discriminants are exactly `0x00..=0xD1`, so `0xD2..=0xFF` are free for
`Option`; (b) every handle the model can build has its discriminating byte inside that range:
inline strings for *every* valid text of at most 16 bytes (hence every possible 16th byte), heap and
static handles for every length the length field admits. (The reachability half — that handles are
only ever built this way — is `Wf` preservation, Props/C03.)
-/
namespace LS.C20
open LS

theorem discriminants_exact : Gen.lastByteDiscriminants.map (·.2) = List.range 0xD2 := by decide +kernel

theorem niche_is_free : ∀ v, 0xD2 ≤ v → v ≤ 0xFF → v ∉ Gen.lastByteDiscriminants.map (·.2) := by
  rw [discriminants_exact]; intro v h1 _ hm; simp at hm; omega

theorem markers_declared :
    ("HeapMarker", Gen.heapMarker) ∈ Gen.lastByteDiscriminants ∧
    ("StaticMarker", Gen.staticMarker) ∈ Gen.lastByteDiscriminants ∧
    ("Length00", Gen.inlineEmptyTag) ∈ Gen.lastByteDiscriminants := by decide +kernel

theorem lastByte_inline (t : Bytes) (hv : Valid t) (h : t.length ≤ 16) :
    (Handle.inl (inlNew t)).lastByte < 0xD0 := inlLast_inlNew_lt t hv h

theorem lastByte_heap (a l : Nat) (h : l ≤ MAX_LEN) : (Handle.heap a l).lastByte = 0xD0 := by
  have hm := Tie.maxLen_eq
  have hl : l < 2 ^ 56 := by omega
  show (l ||| (Gen.heapMarker <<< 56)) >>> 56 = 0xD0
  rw [Tie.heapMarker_eq, Nat.or_comm, ← Nat.shiftLeft_add_eq_or_of_lt hl, Nat.shiftRight_eq_div_pow, Nat.shiftLeft_eq]
  omega

theorem lastByte_static (s l : Nat) (h : l ≤ STATIC_MAX_LEN) : (Handle.stat s l).lastByte = 0xD1 := by
  have hm := Tie.staticMaxLen_eq
  have hl : l < 2 ^ 56 := by omega
  show (l ||| (Gen.staticMarker <<< 56)) >>> 56 = 0xD1
  rw [Tie.staticMarker_eq, Nat.or_comm, ← Nat.shiftLeft_add_eq_or_of_lt hl, Nat.shiftRight_eq_div_pow, Nat.shiftLeft_eq]
  omega

/-- the length word round-trips: tagging does not disturb the 56-bit length -/
theorem lenWord_roundtrip (l : Nat) (h : l ≤ MAX_LEN) :
    (l ||| Gen.heapTag) % 2 ^ 56 = l ∧ (l ||| Gen.staticTag) % 2 ^ 56 = l := by
  have hm := Tie.maxLen_eq
  have hl : l < 2 ^ 56 := by omega
  rw [Tie.heapTag_eq, Tie.staticTag_eq, Tie.heapMarker_eq, Tie.staticMarker_eq]
  constructor
  · rw [Nat.or_comm, ← Nat.shiftLeft_add_eq_or_of_lt hl, Nat.shiftLeft_eq]; omega
  · rw [Nat.or_comm, ← Nat.shiftLeft_add_eq_or_of_lt hl, Nat.shiftLeft_eq]; omega

/-- one more than the admitted maximum would overwrite the tag byte -/
theorem lenWord_limit_tight : ((MAX_LEN + 1) ||| Gen.heapTag) >>> 56 ≠ 0xD0 := by decide

-- non-vacuity: a full inline string whose 16th byte is a continuation byte
example : Valid [48,49,50,51,52,53,54,55,56,57,97,98,99,100,0xC3,0xA9] :=
  ⟨['0','1','2','3','4','5','6','7','8','9','a','b','c','d','é'], by decide⟩

end LS.C20
