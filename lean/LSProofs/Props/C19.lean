import LSProofs.HandleLemmas
/-!
# C19 — serde and arbitrary integrations are transparent string wrappers

Over the translated bodies (they are what the model's `visitStr`/`visitBytes`/`arbitraryFrom`
transcribe): serialisation goes through `as_str()` only; every str / borrowed-str input yields that
text; byte input yields the text iff it is valid UTF-8 and an error otherwise; `arbitrary` is
`<&str>::arbitrary` followed by `from`. serde's and arbitrary's own dispatch are parameters.
-/
namespace LS.C19
open LS

theorem serde_bodies : Gen.serdeBodies =
    [("serialize", "self.as_str().serialize(serializer)"),
     ("visit_str", "Ok(LeanString::from(v))"), ("visit_borrowed_str", "Ok(LeanString::from(v))"),
     ("visit_bytes", "match str::from_utf8(v) { Ok(s) => Ok(LeanString::from(s)), Err(_) => Err(Error::invalid_value(Unexpected::Bytes(v), &self)), }"),
     ("visit_borrowed_bytes", "match str::from_utf8(v) { Ok(s) => Ok(LeanString::from(s)), Err(_) => Err(Error::invalid_value(Unexpected::Bytes(v), &self)), }")] := rfl

theorem arbitrary_bodies : Gen.arbitraryBodies =
    [("arbitrary", "<&str as Arbitrary>::arbitrary(u).map(LeanString::from)"),
     ("arbitrary_take_rest", "<&str as Arbitrary>::arbitrary_take_rest(u).map(LeanString::from)"),
     ("size_hint", "<&str as Arbitrary>::size_hint(depth)")] := rfl

/-- every str input deserialises to exactly that text -/
theorem visitStr_text (rf : Refuse) (hp hp' : Heap) (st : List Bytes) (v : Bytes) (r : Handle)
    (hv : Valid v) (h : visitStr rf hp v = (some r, hp')) : textOf hp' st r = .ok v :=
  fromStr_text rf hp hp' st v r hv h

/-- byte input that is not valid UTF-8 is rejected, never repaired -/
theorem visitBytes_invalid (rf : Refuse) (hp : Heap) (v : Bytes) (h : validUtf8 v = false) :
    visitBytes rf hp v = .error () := by simp [visitBytes, h]

theorem visitBytes_valid (rf : Refuse) (hp : Heap) (v : Bytes) (h : validUtf8 v = true) :
    visitBytes rf hp v = .ok (visitStr rf hp v) := by simp [visitBytes, visitStr, h]

/-- `arbitrary` yields exactly the text `<&str>::arbitrary` yields from the same bytes -/
theorem arbitrary_text (rf : Refuse) (hp hp' : Heap) (st : List Bytes) (gen : List UInt8 → Option Bytes)
    (u : List UInt8) (t : Bytes) (r : Handle) (hg : gen u = some t) (hv : Valid t)
    (h : arbitraryFrom rf hp gen u = some (some r, hp')) : textOf hp' st r = .ok t := by
  simp [arbitraryFrom, hg] at h
  exact fromStr_text rf hp hp' st t r hv h

-- non-vacuity
example : visitBytes (fun _ _ => false) {} [0xC3, 0x28] = .error () := by decide
example : (visitBytes (fun _ _ => false) {} [0xC3, 0xA9]).toOption.isSome = true := by decide

end LS.C19
