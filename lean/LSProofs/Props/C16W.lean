import LSProofs.Refine
/-!
# C16 — the decoding constructors against the definitions of UTF-8 and UTF-16

`Valid b` is "b is the concatenation of `String.utf8EncodeChar c` for a list of `Char`s" (core
Lean's encoder; `Char` = Unicode scalar value), `encodeUtf16` the textbook UTF-16 encoder
(`LSModel/Spec.lean`). The model's transcription of std's decoders (`validUtf8`, `utf8Chunks`,
`decodeUtf16`, validated against std by the correspondence run) is proved correct against them
for **every** input, and the four constructors are inside the refinement theorem.
-/
namespace LS.C16
open LS

/-- **`from_utf8` accepts exactly the valid UTF-8 byte strings** -/
theorem from_utf8_accepts_exactly_valid (b : Bytes) : validUtf8 b = true ↔ Valid b := validUtf8_iff b

/-- one decoding step is sound and complete for every scalar value, at every position -/
theorem decode_step_complete (c : Char) (rest : Bytes) :
    decodeStep (String.utf8EncodeChar c ++ rest) = some (.inl (String.utf8EncodeChar c).length) :=
  decodeStep_encChar c rest

theorem decode_step_sound (b : Bytes) (w : Nat) (h : decodeStep b = some (.inl w)) :
    ∃ c : Char, b.take w = String.utf8EncodeChar c := by
  obtain ⟨v, v1, v2, v3, _, _⟩ := decodeStep_sound b w h
  obtain ⟨c, hc⟩ := encNat_is_char v v1 v2
  exact ⟨c, by rw [v3, hc]⟩

/-- **`from_utf8_lossy` yields valid UTF-8 for every input and is the identity on valid input** -/
theorem lossy_always_valid (b : Bytes) : Valid (lossyText b) := lossyText_valid b

theorem lossy_identity_on_valid (b : Bytes) (hv : Valid b) : lossyText b = b := lossyText_valid_id b hv

/-- **UTF-16 round trip**: decoding the encoding of any text gives back its characters -/
theorem utf16_roundtrip (cs : List Char) :
    decodeUtf16 (encodeUtf16 cs) = cs.map fun c => some (String.utf8EncodeChar c) := decodeUtf16_encode cs

/-- **`from_utf16` rejects exactly the inputs that are not the UTF-16 encoding of a text** -/
theorem utf16_accepts_iff (u : List Nat) (hu : ∀ x ∈ u, x < 0x10000) :
    (∀ x ∈ decodeUtf16 u, x ≠ none) ↔ ∃ cs, u = encodeUtf16 cs := by
  constructor
  · exact decodeUtf16_accepts u hu
  · rintro ⟨cs, rfl⟩ x hx
    rw [decodeUtf16_encode] at hx
    obtain ⟨c, _, rfl⟩ := List.mem_map.1 hx
    simp

/-- `from_utf16_lossy` on well-formed input is the text itself -/
theorem lossy16_identity (cs : List Char) : lossy16Text (encodeUtf16 cs) = enc cs := by
  unfold lossy16Text
  rw [decodeUtf16_encode, List.map_map]
  exact enc_eq_flatten_map cs

/-- **the four constructors as public calls** (any well-formed world, any allocator): `from_utf8` -/
theorem from_utf8_call (rf : Refuse) {w : World} (hw : Wf w) (d : Nat) (b : Bytes) (hd : w.get d = none) :
    let r := step rf w (.fromUtf8 d b)
    (Valid b → (r.1.text d = some b ∧ r.2 = .ok .unit) ∨ (r.1.text d = none ∧ r.2 = .panicAlloc)) ∧
    (¬ Valid b → r.1.text d = none ∧ r.2 = .errUtf8) ∧
    (∀ h', h' ≠ d → r.1.text h' = w.text h') ∧ Wf r.1 := by
  intro r
  obtain ⟨⟨ht, hf⟩, hwf, _⟩ := step_refines rf hw (.fromUtf8 d b) trivial
  simp only [Spec.Target, Op.target, Spec.fresh, text_eq_none hd] at ht
  exact ⟨(by simpa using ht.1), (by simpa using ht.2), hf, hwf⟩

theorem from_utf8_lossy_call (rf : Refuse) {w : World} (hw : Wf w) (d : Nat) (b : Bytes) (hd : w.get d = none) :
    let r := step rf w (.fromUtf8Lossy d b)
    ((r.1.text d = some (lossyText b) ∧ r.2 = .ok .unit) ∨ (r.1.text d = none ∧ r.2 = .panicAlloc)) ∧
    (∀ h', h' ≠ d → r.1.text h' = w.text h') ∧ Wf r.1 := by
  intro r
  obtain ⟨⟨ht, hf⟩, hwf, _⟩ := step_refines rf hw (.fromUtf8Lossy d b) trivial
  simp only [Spec.Target, Op.target, Spec.fresh, text_eq_none hd] at ht
  exact ⟨(by simpa using ht), hf, hwf⟩

theorem from_utf16_call (rf : Refuse) {w : World} (hw : Wf w) (d : Nat) (u : List Nat) (hd : w.get d = none)
    (hu : ∀ x ∈ u, x < 0x10000) :
    let r := step rf w (.fromUtf16 d u)
    (∀ cs, u = encodeUtf16 cs → (r.1.text d = some (enc cs) ∧ r.2 = .ok .unit) ∨ (r.1.text d = none ∧ r.2 = .panicAlloc)) ∧
    ((¬ ∃ cs, u = encodeUtf16 cs) → r.1.text d = none ∧ (r.2 = .errUtf16 ∨ r.2 = .panicAlloc)) ∧
    (∀ h', h' ≠ d → r.1.text h' = w.text h') ∧ Wf r.1 := by
  intro r
  obtain ⟨⟨ht, hf⟩, hwf, _⟩ := step_refines rf hw (.fromUtf16 d u) hu
  simp only [Spec.Target, Op.target, Spec.fresh, text_eq_none hd] at ht
  exact ⟨(by simpa using ht.1), (by simpa using ht.2), hf, hwf⟩

theorem from_utf16_lossy_call (rf : Refuse) {w : World} (hw : Wf w) (d : Nat) (u : List Nat) (hd : w.get d = none)
    (hu : ∀ x ∈ u, x < 0x10000) :
    let r := step rf w (.fromUtf16Lossy d u)
    ((r.1.text d = some (lossy16Text u) ∧ r.2 = .ok .unit) ∨ (r.1.text d = none ∧ r.2 = .panicAlloc)) ∧
    (∀ h', h' ≠ d → r.1.text h' = w.text h') ∧ Wf r.1 := by
  intro r
  obtain ⟨⟨ht, hf⟩, hwf, _⟩ := step_refines rf hw (.fromUtf16Lossy d u) hu
  simp only [Spec.Target, Op.target, Spec.fresh, text_eq_none hd] at ht
  exact ⟨(by simpa using ht), hf, hwf⟩

-- non-vacuity: "a😀" as UTF-16 (0061 D83D DE00) and as UTF-8
example : decodeUtf16 [0x61, 0xD83D, 0xDE00] = [some [0x61], some [0xF0, 0x9F, 0x98, 0x80]] := by decide
example : decodeUtf16 [0xD83D, 0x61] = [none, some [0x61]] := by decide

end LS.C16
