import LSProofs.TextSpec
/-!
# C07 — bad indices panic exactly when `String`'s do and change nothing

`Spec.truncate/remove/insert_str` carry std's panic conditions (`is_char_boundary`, `idx < len`).
When they panic the model's step returns **the very same world** (`= (w, .panicIdx)`: pool, blocks,
counts, request counter, log); when they do not, the step does not panic on the index. The bytes
of every handle are valid UTF-8 in every reachable world (`Wf`).
-/
namespace LS.C07
open LS

theorem truncate_panics_iff (rf : Refuse) (w : World) (h : Nat) (t : Bytes) (n : Nat) (plain : Bool) (hw : Wf w)
    (ht : w.text h = some t) :
    ((step rf w (.truncate h n plain)).2 = .panicIdx ↔ (n < t.length ∧ isBoundary t n = false)) ∧
    ((step rf w (.truncate h n plain)).2 = .panicIdx → (step rf w (.truncate h n plain)).1 = w) := by
  have := truncate_refines (rf := rf) hw ht n plain
  unfold Spec.truncate at this
  by_cases hn : n ≥ t.length
  · rw [if_pos hn] at this
    simp only [] at this
    constructor
    · constructor
      · intro h1; rw [this.1] at h1; cases h1
      · intro ⟨h1, _⟩; omega
    · intro h1; rw [this.1] at h1; cases h1
  · rw [if_neg hn] at this
    by_cases hb : isBoundary t n = true
    · rw [if_pos hb] at this
      simp only [] at this
      constructor
      · constructor
        · intro h1; rw [this.1] at h1; cases h1
        · intro ⟨_, h2⟩; rw [hb] at h2; cases h2
      · intro h1; rw [this.1] at h1; cases h1
    · rw [if_neg hb] at this
      simp only [] at this
      rw [this]
      exact ⟨⟨fun _ => ⟨by omega, by simpa using hb⟩, fun _ => rfl⟩, fun _ => rfl⟩

theorem remove_panics_iff (rf : Refuse) (w : World) (h : Nat) (t : Bytes) (i : Nat) (plain : Bool) (hw : Wf w)
    (ht : w.text h = some t) :
    ((step rf w (.remove h i plain)).2 = .panicIdx ↔ ¬ (isBoundary t i = true ∧ i < t.length)) ∧
    ((step rf w (.remove h i plain)).2 = .panicIdx → (step rf w (.remove h i plain)).1 = w) := by
  have := remove_refines (rf := rf) hw ht i plain
  unfold Spec.remove at this
  by_cases hc : isBoundary t i = true ∧ i < t.length
  · rw [if_pos hc] at this
    simp only [] at this
    have hne : (step rf w (.remove h i plain)).2 ≠ .panicIdx := by
      rcases this with ⟨a, _⟩ | ⟨a, _⟩
      · rw [a]; simp
      · rw [a]; cases plain <;> simp [failOut]
    exact ⟨⟨fun h1 => absurd h1 hne, fun h1 => absurd hc h1⟩, fun h1 => absurd h1 hne⟩
  · rw [if_neg hc] at this
    simp only [] at this
    rw [this]
    exact ⟨⟨fun _ => hc, fun _ => rfl⟩, fun _ => rfl⟩

theorem insert_str_panics_iff (rf : Refuse) (w : World) (h : Nat) (t : Bytes) (i : Nat) (s : Bytes) (plain : Bool)
    (hw : Wf w) (ht : w.text h = some t) (hs : Valid s) :
    ((step rf w (.insertStr h i s plain)).2 = .panicIdx ↔ isBoundary t i = false) ∧
    ((step rf w (.insertStr h i s plain)).2 = .panicIdx → (step rf w (.insertStr h i s plain)).1 = w) := by
  have := insertStr_refines (rf := rf) hw ht i s hs plain
  unfold Spec.insert_str at this
  by_cases hb : isBoundary t i = true
  · rw [if_pos hb] at this
    simp only [] at this
    have hne : (step rf w (.insertStr h i s plain)).2 ≠ .panicIdx := by
      rcases this with ⟨a, _⟩ | ⟨a, _⟩
      · rw [a]; simp
      · rw [a]; cases plain <;> simp [failOut]
    exact ⟨⟨fun h1 => absurd h1 hne, fun h1 => by rw [hb] at h1; cases h1⟩, fun h1 => absurd h1 hne⟩
  · rw [if_neg hb] at this
    simp only [] at this
    rw [this]
    exact ⟨⟨fun _ => by simpa using hb, fun _ => rfl⟩, fun _ => rfl⟩

/-- `is_char_boundary` is what it should be on valid text: exactly the positions where the text
splits into two valid texts (so std's condition and "inside a multi-byte character" coincide) -/
theorem boundary_splits (t : Bytes) (hv : Valid t) (i : Nat) (hb : isBoundary t i = true) :
    Valid (t.take i) ∧ Valid (t.drop i) := valid_take_drop hv i hb

/-- every handle of every reachable world holds valid UTF-8: `from_utf8_unchecked` in `as_str`
is justified at all times -/
theorem always_valid (w : World) (hw : Wf w) (h : Nat) (t : Bytes) (ht : w.text h = some t) : Valid t := by
  obtain ⟨r, _, g⟩ := good_of_text hw ht
  exact g.valid

-- non-vacuity: an index inside a 2-byte character of a shared heap string
example : isBoundary [0x61, 0xC3, 0xA9, 0x62] 2 = false ∧ isBoundary [0x61, 0xC3, 0xA9, 0x62] 3 = true := by decide

end LS.C07
