import LSProofs.HandleLemmas
/-!
# C15 — `to_lean_string` agrees with `Display` for everything else

Over the translated `match_type!` arms: `bool` → the two constants, `char` → `from_char`,
`String` → `from_str`, `LeanString` → `clone`, floats → `from_num` (= `from_str(ryu …)`; ryu is an
external crate: *assumed* to print a text that parses back). Any other `Display` goes through the
`write!` fallback, modelled by `displayLoop`: concatenation of the pieces, or `Err(Fmt)` with the
partial buffer dropped.
-/
namespace LS.C15
open LS

theorem arms :
    ("bool", "Repr::from_bool(*s)") ∈ Gen.matchTypeArms ∧ ("char", "Repr::from_char(*s)") ∈ Gen.matchTypeArms ∧
    ("String", "Repr::from_str(s.as_str())?") ∈ Gen.matchTypeArms ∧
    ("LeanString", "return Ok(s.clone())") ∈ Gen.matchTypeArms ∧
    ("f32", "Repr::from_num(*s)?") ∈ Gen.matchTypeArms ∧ ("f64", "Repr::from_num(*s)?") ∈ Gen.matchTypeArms ∧
    ("f32", "ryu") ∈ Gen.externalFormatters ∧ ("f64", "ryu") ∈ Gen.externalFormatters := by decide

/-- a `String` (any valid text) converts to exactly that text -/
theorem string_arm (rf : Refuse) (hp hp' : Heap) (st : List Bytes) (t : Bytes) (r : Handle)
    (hv : Valid t) (h : fromStr rf hp t = (some r, hp')) : textOf hp' st r = .ok t :=
  fromStr_text rf hp hp' st t r hv h

/-- a `char` converts to its UTF-8 encoding, inline -/
theorem char_arm (c : Char) :
    textOf {} [] (.inl (inlNew (String.utf8EncodeChar c))) = .ok (String.utf8EncodeChar c) := by
  have hlen : (String.utf8EncodeChar c).length ≤ 16 := by
    rw [String.length_utf8EncodeChar]; have := Char.utf8Size_le_four c; omega
  have hv : Valid (String.utf8EncodeChar c) := ⟨[c], by simp [enc]⟩
  simp only [textOf, inlLen_inlNew _ hv hlen, take_inlNew _ hlen]

/-- `true` / `false` -/
theorem bool_arm :
    textOf {} [] (.inl (inlNew [0x74, 0x72, 0x75, 0x65])) = .ok [0x74, 0x72, 0x75, 0x65] ∧
    textOf {} [] (.inl (inlNew [0x66, 0x61, 0x6c, 0x73, 0x65])) = .ok [0x66, 0x61, 0x6c, 0x73, 0x65] := by decide

/-- a failing `Display` yields `Err(Fmt)`, not a partial string: the loop stops at the failure … -/
theorem display_fail_stops (rf : Refuse) (st : List Bytes) (hp : Heap) (r : Handle) (rest : List Piece) :
    displayLoop rf st hp r (.fail :: rest) = .ok false hp r := rfl

/-- … and `step` then stores nothing in the destination -/
theorem display_fail_no_handle (rf : Refuse) (w : World) (d : Nat) (pre : List Bytes) (rest : List Piece)
    (hd : w.get d = none) :
    ∀ w' out, step rf w (.display d (pre.map .text ++ .fail :: rest)) = (w', out) → out ≠ .ok .unit := by
  intro w' out h
  simp only [step, hd, Option.isSome_none, Bool.false_eq_true, if_false] at h
  revert h
  generalize w.heap = hp0
  generalize (Handle.inl inlEmpty) = r0
  induction pre generalizing hp0 r0 with
  | nil =>
    intro h; simp only [List.map_nil, List.nil_append, displayLoop] at h
    split at h <;> (injection h with _ h2; subst h2; simp)
  | cons p ps ih =>
    intro h
    simp only [List.map_cons, List.cons_append, displayLoop] at h
    cases hps : pushStr rf w.statics hp0 r0 p with
    | ok v hp1 r1 => rw [hps] at h; exact ih hp1 r1 h
    | err hp1 r1 =>
      rw [hps] at h; simp only [finishTemp] at h
      split at h <;> (injection h with _ h2; subst h2; simp)
    | pidx hp1 r1 =>
      rw [hps] at h; simp only [finishTemp] at h
      split at h <;> (injection h with _ h2; subst h2; simp)
    | pcb hp1 r1 =>
      rw [hps] at h; simp only [finishTemp] at h
      split at h <;> (injection h with _ h2; subst h2; simp)
    | ub u => rw [hps] at h; injection h with _ h2; subst h2; simp

end LS.C15
