import LSProofs.StepLemmas
import LSProofs.PrimLemmas
/-!
# C10 — static text is borrowed, never copied until written, and never written
-/
namespace LS.C10
open LS

theorem finish_statics {α : Type} (w : World) (h : Nat) (plain : Bool) (val : α → Val) (res : Res α) :
    (finish w h plain val res).1.statics = w.statics := by
  cases res <;> simp [finish, World.put]

theorem finishTemp_statics (w : World) (d : Nat) (res : Res Unit) :
    (finishTemp w d res).1.statics = w.statics := by
  cases res <;> simp only [finishTemp] <;> (try split) <;> simp [World.put]

theorem finishUtf16_statics (w : World) (d : Nat) (res : Res Unit) :
    (finishUtf16 w d res).1.statics = w.statics := by
  cases res <;> simp only [finishUtf16, finishTemp] <;> (try split) <;> simp [World.put]

/-- no operation has write access to the caller's static texts: they are bit-identical after
every step of every history (a write *through* a static handle is the model's `writeStatic` alarm,
excluded by `no_ub`, Props/C03) -/
theorem step_statics (rf : Refuse) (w : World) (op : Op) : (step rf w op).1.statics = w.statics := by
  cases op <;> simp only [step] <;> (repeat' split) <;>
    simp [World.put, finish_statics, finishTemp_statics, finishUtf16_statics]

theorem run_statics (rf : Refuse) (w : World) (ops : List Op) : (run rf w ops).statics = w.statics := by
  induction ops generalizing w with
  | nil => rfl
  | cons op ops ih => simp only [run]; rw [ih, step_statics]

/-- `from_static_str` of a long text: no allocator traffic at all, the handle points at the
caller's text (`stat sid`), with the full length -/
theorem fromStatic_borrows (rf : Refuse) (w : World) (d sid : Nat) (t : Bytes)
    (hd : w.get d = none) (hs : w.statics[sid]? = some t) (hl : 16 < t.length) (hm : t.length ≤ STATIC_MAX_LEN) :
    step rf w (.fromStatic d sid) = (w.put w.heap d (some (.stat sid t.length)), .ok .unit) := by
  have h16 := Tie.maxInline_eq
  have h1 : ¬ t.length ≤ MAX_INLINE := by omega
  have h2 : ¬ t.length > STATIC_MAX_LEN := by omega
  simp [step, hd, hs, h1, h2]

/-- a static handle reads the caller's bytes, and `clone` of it is the same two words -/
theorem static_text (hp : Heap) (st : List Bytes) (sid : Nat) (t : Bytes) (hs : st[sid]? = some t) :
    textOf hp st (.stat sid t.length) = .ok t := by
  simp [textOf, hs]

theorem static_clone (hp : Heap) (sid l : Nat) : shallowClone hp (.stat sid l) = .ok (hp, .stat sid l) := rfl

/-- pop / truncate / clear on a static handle only rewrite the handle-local length -/
theorem static_setLen (sid l n : Nat) (h : n ≤ STATIC_MAX_LEN) : setLen (.stat sid l) n = .ok (.stat sid n) := by
  simp [setLen, h]

theorem static_clear (hp : Heap) (sid l : Nat) : clear hp (.stat sid l) = .ok () hp (.stat sid 0) := by
  simp [clear, Handle.isUnique, setLen]

/-- the write primitive refuses a static handle: there is no path that stores through one -/
theorem no_write_through_static (hp : Heap) (sid l off : Nat) (s : Bytes) :
    writeBytes hp (.stat sid l) off s = .error .writeStatic := rfl

/-- guards of `from_static_str` / `StaticBuffer::new` as in the source -/
theorem guards : Gen.guardFromStaticStr = "<=" ∧ Gen.guardStaticNew = ">" := ⟨rfl, rfl⟩

end LS.C10
