import LSProofs.Tie
/-!
# C12 — growth is amortised: at least 1.5×, never more than 1.5× or the need

Stated over the *translated* `amortized_growth` (`Gen.amortizedGrowth`), for every old length a
string can have (`≤ MAX_LEN`) and every requested amount that passed `checked_add`.
-/
namespace LS.C12
open LS

theorem growth_ge_one_and_a_half (l a : Nat) (hl : l ≤ MAX_LEN) :
    l + l / 2 ≤ Gen.amortizedGrowth l a := by
  have h := Tie.maxLen_eq
  simp only [Gen.amortizedGrowth, Gen.satAdd, Gen.satMul]
  omega

theorem growth_ge_need (l a : Nat) (ha : l + a < 2 ^ 64) :
    l + a ≤ Gen.amortizedGrowth l a := by
  simp only [Gen.amortizedGrowth, Gen.satAdd, Gen.satMul]
  omega

theorem growth_le_max (l a : Nat) (hl : l ≤ MAX_LEN) (ha : l + a < 2 ^ 64) :
    Gen.amortizedGrowth l a ≤ max (l + l / 2) (l + a) := by
  have h := Tie.maxLen_eq
  simp only [Gen.amortizedGrowth, Gen.satAdd, Gen.satMul]
  omega

/-- exact value: no doubling, no exact-fit -/
theorem growth_eq (l a : Nat) (hl : l ≤ MAX_LEN) (ha : l + a < 2 ^ 64) :
    Gen.amortizedGrowth l a = max (l * 3 / 2) (l + a) := by
  have h := Tie.maxLen_eq
  simp only [Gen.amortizedGrowth, Gen.satAdd, Gen.satMul]
  omega

-- non-vacuity: the hypotheses are met by an ordinary growth step (len 100, +1 → 150)
example : (100 ≤ MAX_LEN ∧ 100 + 1 < 2 ^ 64) ∧ Gen.amortizedGrowth 100 1 = 150 := by decide

/-- growth is computed from (len, additional) at the one in-place site, and every copy-out
site passes the caller's `additional` unchanged -/
theorem growth_sites :
    Gen.growthCallArgs = ["len, additional"] ∧
    Gen.withAdditionalCallArgs = ["str, additional", "self.as_str(), additional", "self.as_str(), additional"] :=
  ⟨rfl, rfl⟩

end LS.C12
