import LSProofs.ConcRALInv
import LSProofs.Props.C04
/-!
# C04 — third stage: handles lent by reference (`&LeanString`, `Sync`) under release/acquire

`ConcRAL.lean` is the view machine of `ConcRA.lean` extended with `lend` / `cloneB` / `readBStart` /
`readBEnd` / `reclaim`: several threads may clone and read through one `&LeanString` at the same
time while its owner is frozen; a borrower synchronises with the lender as of the moment of lending
only, and what it did happens before the owner's continuation only from `reclaim` on. The theorems
below are the statements of `Props/C04.lean`'s `C04RA` section for this larger machine, proved from
the same three facts about the orderings of the source (`fetch_sub` is a release, an acquire fence
precedes `dealloc`, the uniqueness load is an acquire); `fetch_add` — also the one performed
through a borrowed reference — may be relaxed.
-/
namespace LS.C04RAL
open LS.ConcRAL

/-- the orderings the translator read from `/repo/src` on this run satisfy what the proof needs -/
theorem src_orderings : srcOrds.subRel = true ∧ srcOrds.fenceAcq = true ∧ srcOrds.loadAcq = true := by decide

/-- **race freedom with borrows, for every schedule**: whatever the number of threads, the handles
each starts with, and the schedule of micro-steps — including lending a handle to any number of
concurrent borrowers that clone and read through it — no access of a buffer (read, in-place write,
`realloc`, `dealloc`, any atomic on its header) races with a conflicting one, and no access touches a
released buffer -/
theorem race_free_with_borrows (ks : List Nat) (sched : List (Nat × Act)) (c' : Cfg)
    (h : ConcRAL.run srcOrds (ConcRAL.initCfg ks) sched = some c') : c'.bad = false :=
  (run_inv srcOrds src_orderings.1 src_orderings.2.1 src_orderings.2.2 sched _ c' (init_inv ks) h).nobad

/-- the count of every live buffer is the number of handles on it, after every schedule — borrowed
clones included -/
theorem count_is_handles_with_borrows (ks : List Nat) (sched : List (Nat × Act)) (c' : Cfg)
    (h : ConcRAL.run srcOrds (ConcRAL.initCfg ks) sched = some c') :
    ∀ a b, c'.blocks[a]? = some b → b.live = true → b.top.val = cnt c'.threads a :=
  (run_inv srcOrds src_orderings.1 src_orderings.2.1 src_orderings.2.2 sched _ c' (init_inv ks) h).count

/-- a borrowed read always has a lender that still owns the handle (so the buffer is live), and
the reader knows every exclusive access of the buffer -/
theorem borrowed_read_is_covered (ks : List Nat) (sched : List (Nat × Act)) (c' : Cfg)
    (h : ConcRAL.run srcOrds (ConcRAL.initCfg ks) sched = some c') (i : Nat) (t : Thread) (a l : Nat)
    (ht : c'.threads[i]? = some t) (hp : t.phase = .readingB a l) :
    ∃ u b, c'.threads[l]? = some u ∧ a ∈ u.owned ∧ c'.blocks[a]? = some b ∧ b.live = true := by
  have inv := run_inv srcOrds src_orderings.1 src_orderings.2.1 src_orderings.2.2 sched _ c' (init_inv ks) h
  obtain ⟨_, u, b, hu, hul, hb, _⟩ := inv.rbl i t a l ht hp
  have hau := inv.phase_owned l u a hu (Or.inr (Or.inr (Or.inr (Or.inr hul))))
  exact ⟨u, b, hu, hau, hb, (inv.top_cnt hu hau hb).1⟩

/-- a thread that found the count to be 1, or whose decrement took it to 0, has every access of
the buffer — borrowed ones included — in its view (resp. view ∪ fence) -/
theorem unique_sees_all_with_borrows (ks : List Nat) (sched : List (Nat × Act)) (c' : Cfg)
    (h : ConcRAL.run srcOrds (ConcRAL.initCfg ks) sched = some c') (i : Nat) (t : Thread) (a : Nat)
    (ht : c'.threads[i]? = some t) (hp : t.phase = .unique a) :
    ∀ b, c'.blocks[a]? = some b → b.top.val = 1 ∧ ∀ e ∈ b.evs, e ∈ t.view :=
  (run_inv srcOrds src_orderings.1 src_orderings.2.1 src_orderings.2.2 sched _ c' (init_inv ks) h).uniq i t a ht hp

-- non-vacuity: thread 0 lends its (only) handle; threads 1 and 2 clone through the reference at the
-- same time and read; thread 1 drops its clone; the owner reclaims, finds the count at 2, copies out
-- and releases; thread 2 ends up unique, writes in place and frees — all enabled, nothing bad
example :
    ((ConcRAL.run srcOrds (ConcRAL.initCfg [1, 0, 0])
      [(0, .lend 0), (1, .cloneB 0 0), (2, .readBStart 0 0), (2, .readBEnd), (2, .cloneB 0 0), (1, .readBStart 0 0),
       (1, .readBEnd), (1, .drop 0), (0, .reclaim), (0, .probe 0 0), (0, .copyRead), (0, .copyFinish),
       (2, .probe 0 0), (2, .write), (2, .drop 0), (2, .free)]).map
        (fun c => (c.bad, (c.blocks.map (·.live))))) = some (false, [false, true]) := by decide

-- the owner cannot reclaim (hence cannot drop or mutate) while a borrowed read is in progress
example : ConcRAL.run srcOrds (ConcRAL.initCfg [1, 0]) [(0, .lend 0), (1, .readBStart 0 0), (0, .reclaim)] = none := by decide
-- and it cannot touch the lent handle at all
example : ConcRAL.run srcOrds (ConcRAL.initCfg [1, 0]) [(0, .lend 0), (0, .drop 0)] = none := by decide

end LS.C04RAL
