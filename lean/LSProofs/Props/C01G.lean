import LSProofs.Gen.StepG
import LSProofs.Gen.Bytes
import LSProofs.Gen.Kind
/-!
# C01 for the code as translated from the current source

`histories_refine_string` (Props/C01.lean) is about the hand model.  Here the same statement is about `runG`: the
28 public operations executed by `stepG`, whose `Repr`-level calls — and the `Extend` / `FromIterator` loops of
`lib.rs` — are the *translations* that `tools/rs2lean.py` regenerates on every run (61 functions; `retain`, the
integer writer, `Display` and the decoders stay hand-modelled).  It follows from the tie theorems (`LSProofs/Gen`) and `run_refines`.
-/
namespace LS.C01G
open LS LS.GenTie

/-- every history of public calls, executed by the translated code, is a run of the `String` specification;
the world stays well-formed; no alarm -/
theorem translated_histories_refine_string (rf : Refuse) (ops : List Op) (w : World) (hw : Wf w)
    (hv : ∀ op ∈ ops, op.ArgsValid) (hcs : ∀ op ∈ ops, Op.CharItems op) (hs : RcSmallAlong rf w ops) :
    Spec.Run w.statics w.text ops (runG rf w ops).text (outsG rf w ops) ∧ Wf (runG rf w ops) ∧
    ∀ u, Out.ub u ∉ outsG rf w ops :=
  runG_refines rf ops w hw hv hcs hs

/-- one call: the translated code and the hand model compute the same world and the same output -/
theorem translated_call_is_model_call (rf : Refuse) {w : World} (hw : Wf w) (hrc : RcSmall w.heap) (op : Op)
    (hv : op.ArgsValid) (hc : Op.CharItems op) : stepG rf w op = step rf w op :=
  stepG_eq_step rf hw hrc op hv hc

/-- **reading back**: in the world any history of translated calls leads to, `as_bytes()`, `len()` and `is_empty()` *as
written in the source* (the branch-free length read and the pointer selection by the last byte, translated) return, for
every live handle, exactly the text the `String` specification holds for it, its length, and whether it is empty -/
theorem translated_read_back (rf : Refuse) (ops : List Op) (w : World) (hw : Wf w)
    (hv : ∀ op ∈ ops, op.ArgsValid) (hcs : ∀ op ∈ ops, Op.CharItems op) (hs : RcSmallAlong rf w ops)
    (h : Nat) (t : Bytes) (ht : (runG rf w ops).text h = some t) :
    ∃ r, (runG rf w ops).get h = some r ∧
      (∀ rf', (LS.GenTie.norm (GenRepr.Repr.as_bytes_body ⟨rf', (runG rf w ops).statics, (runG rf w ops).heap, r⟩) : Rt.Step Unit _) =
        .next ⟨t⟩ ⟨rf', (runG rf w ops).statics, (runG rf w ops).heap, r⟩) ∧
      (∀ rf', (LS.GenTie.norm (GenRepr.Repr.len_body ⟨rf', (runG rf w ops).statics, (runG rf w ops).heap, r⟩) : Rt.Step Unit _) =
        .next t.length ⟨rf', (runG rf w ops).statics, (runG rf w ops).heap, r⟩) ∧
      (∀ rf', (LS.GenTie.norm (GenRepr.Repr.is_empty_body ⟨rf', (runG rf w ops).statics, (runG rf w ops).heap, r⟩) : Rt.Step Unit _) =
        .next (decide (t.length = 0)) ⟨rf', (runG rf w ops).statics, (runG rf w ops).heap, r⟩) := by
  have hw' := (runG_refines rf ops w hw hv hcs hs).2.1
  generalize runG rf w ops = w' at *
  cases hg : w'.get h with
  | none => simp [World.text, hg] at ht
  | some r =>
    cases hx : textOf w'.heap w'.statics r with
    | error u => simp [World.text, hg, hx] at ht
    | ok t' =>
      have : t' = t := by simpa [World.text, hg, hx] using ht
      subst this
      have hk := kindOk_of_wf hw' hg
      have hlen : r.len = t'.length := (text_len (dataOk_of_wf hw') (rawOk_of_wf hw' hg) hx).symm
      refine ⟨r, rfl, fun rf' => ?_, fun rf' => ?_, fun rf' => ?_⟩
      · rw [as_bytes_tie rf' _ _ r hk]; simp only [Rt.Repr.as_bytes, hx]
      · rw [len_tie rf' _ _ r hk, len_ap]; simp only [hlen]
      · rw [is_empty_tie]; simp only [hlen]

/-- non-vacuity: the empty world is well-formed, no count is large, and a concrete history runs -/
example : RcSmallAlong (fun _ _ => false) {} [.fromStr 0 [0x61] true, .pushStr 0 [0x62] true] ∧ Wf ({} : World) := by
  refine ⟨⟨fun a b hg => by simp [Heap.get?] at hg, ⟨fun a b hg => ?_, trivial⟩⟩, ?_⟩
  · have hw : Wf (step (fun _ _ => false) {} (.fromStr 0 [0x61] true)).1 :=
      (step_refines _ (w := {}) ⟨fun h r hg => by simp [World.get] at hg, fun a b hg => by simp [Heap.get?] at hg, fun t ht => by cases ht⟩
        (.fromStr 0 [0x61] true) ⟨['a'], rfl⟩).2.1
    exact rcSmall_of_pool hw (by decide) a b hg
  · exact ⟨fun h r hg => by simp [World.get] at hg, fun a b hg => by simp [Heap.get?] at hg, fun t ht => by cases ht⟩

end LS.C01G
