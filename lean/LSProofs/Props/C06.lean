import LSProofs.Props.C12
import LSProofs.PrimLemmas
/-!
# C06 — no size argument, however large, can corrupt a string
(first layer: the arithmetic guards; the state clauses come from the refinement theorem)
-/
namespace LS.C06
open LS

/-- `len + additional` overflowing `usize` is an error before anything is touched -/
theorem reserve_overflow (rf : Refuse) (st : List Bytes) (hp : Heap) (r : Handle) (n : Nat)
    (h : r.len + n ≥ 2 ^ 64) : ∃ u, reserve rf st hp r n = .err hp r ∨ reserve rf st hp r n = .ub u := by
  refine ⟨.oob, Or.inl ?_⟩
  have : checkedAdd r.len n = none := by
    unfold checkedAdd USIZE; rw [if_neg (by omega)]
  simp [reserve, this]

theorem insertStr_overflow (rf : Refuse) (st : List Bytes) (hp : Heap) (r : Handle) (i : Nat) (s t : Bytes)
    (ht : textOf hp st r = .ok t) (hb : isBoundary t i = true) (h : r.len + s.length ≥ 2 ^ 64) :
    insertStr rf st hp r i s = .err hp r := by
  have : checkedAdd r.len s.length = none := by
    unfold checkedAdd USIZE; rw [if_neg (by omega)]
  simp [insertStr, ht, hb, this]

/-- a capacity the length field cannot hold is refused without calling the allocator -/
theorem capacity_too_large (rf : Refuse) (hp : Heap) (n : Nat) (h : MAX_LEN < n) :
    withCapacity rf hp n = (none, hp) := by
  have h16 := Tie.maxInline_eq
  have hm := Tie.maxLen_eq
  have h1 : ¬ n ≤ MAX_INLINE := by omega
  have h2 : capOk n = false := by simp [capOk]; omega
  simp [withCapacity, h1, heapWithCapacity, h2]

/-- every capacity the crate accepts has a valid `Layout` (so the `unreachable_unchecked` arms of
`realloc`/`dealloc` are dead) and leaves the tag byte alone -/
theorem accepted_capacity_layout (c : Nat) (h : c ≤ MAX_LEN) : capOk c = true ∧ HEADER + c ≤ 2 ^ 63 - 8 := by
  have hm := Tie.maxLen_eq
  have hh := Tie.header_eq
  simp [capOk, h]; omega

/-- growth never asks for less than is later written -/
theorem growth_covers_write (l a : Nat) (ha : l + a < 2 ^ 64) : l + a ≤ Gen.amortizedGrowth l a :=
  C12.growth_ge_need l a ha

/-- and a growth beyond the length field is refused rather than wrapped -/
theorem growth_too_large_refused (rf : Refuse) (hp : Heap) (t : Bytes) (a : Nat)
    (h : MAX_LEN < Gen.amortizedGrowth t.length a) : heapWithAdditional rf hp t a = (none, hp) := by
  have h2 : capOk (Gen.amortizedGrowth t.length a) = false := by simp [capOk]; omega
  simp [heapWithAdditional, h2]

/-- the translated growth rule uses saturating arithmetic only -/
theorem growth_saturates (l a : Nat) : Gen.amortizedGrowth l a ≤ 2 ^ 64 - 1 := by
  simp only [Gen.amortizedGrowth, Gen.satAdd, Gen.satMul]; omega

/-- guards of `TextLen::new`, `Capacity::new`, `StaticBuffer::new` as in the source -/
theorem guards : Gen.guardTextLenNew = ">" ∧ Gen.guardCapacityNew = ">" ∧ Gen.guardStaticNew = ">" := ⟨rfl, rfl, rfl⟩

end LS.C06
