import LSProofs.Props.C12
import LSProofs.PrimLemmas
import LSProofs.TextSpec
/-!
# C06 — no size argument, however large, can corrupt a string
(first layer: the arithmetic guards; the state clauses come from the refinement theorem)
-/
namespace LS.C06
open LS

/-- `len + additional` overflowing `usize` is an error before anything is touched -/
theorem reserve_overflow (rf : Refuse) (st : List Bytes) (hp : Heap) (r : Handle) (n : Nat)
    (h : r.len + n ≥ 2 ^ 64) : ∃ u, reserve rf st hp r n = .err hp r ∨ reserve rf st hp r n = .ub u := by
  refine ⟨.oob, Or.inl ?_⟩
  have : checkedAdd r.len n = none := by
    unfold checkedAdd USIZE; rw [if_neg (by omega)]
  simp [reserve, this]

theorem insertStr_overflow (rf : Refuse) (st : List Bytes) (hp : Heap) (r : Handle) (i : Nat) (s t : Bytes)
    (ht : textOf hp st r = .ok t) (hb : isBoundary t i = true) (h : r.len + s.length ≥ 2 ^ 64) :
    insertStr rf st hp r i s = .err hp r := by
  have : checkedAdd r.len s.length = none := by
    unfold checkedAdd USIZE; rw [if_neg (by omega)]
  simp [insertStr, ht, hb, this]

/-- a capacity the length field cannot hold is refused without calling the allocator -/
theorem capacity_too_large (rf : Refuse) (hp : Heap) (n : Nat) (h : MAX_LEN < n) :
    withCapacity rf hp n = (none, hp) := by
  have h16 := Tie.maxInline_eq
  have hm := Tie.maxLen_eq
  have h1 : ¬ n ≤ MAX_INLINE := by omega
  have h2 : capOk n = false := by simp [capOk]; omega
  simp [withCapacity, h1, heapWithCapacity, h2]

/-- every capacity the crate accepts has a valid `Layout` (so the `unreachable_unchecked` arms of
`realloc`/`dealloc` are dead) and leaves the tag byte alone -/
theorem accepted_capacity_layout (c : Nat) (h : c ≤ MAX_LEN) : capOk c = true ∧ HEADER + c ≤ 2 ^ 63 - 8 := by
  have hm := Tie.maxLen_eq
  have hh := Tie.header_eq
  simp [capOk, h]; omega

/-- growth never asks for less than is later written -/
theorem growth_covers_write (l a : Nat) (ha : l + a < 2 ^ 64) : l + a ≤ Gen.amortizedGrowth l a :=
  C12.growth_ge_need l a ha

/-- and a growth beyond the length field is refused rather than wrapped -/
theorem growth_too_large_refused (rf : Refuse) (hp : Heap) (t : Bytes) (a : Nat)
    (h : MAX_LEN < Gen.amortizedGrowth t.length a) : heapWithAdditional rf hp t a = (none, hp) := by
  have h2 : capOk (Gen.amortizedGrowth t.length a) = false := by simp [capOk]; omega
  simp [heapWithAdditional, h2]

/-- the translated growth rule uses saturating arithmetic only -/
theorem growth_saturates (l a : Nat) : Gen.amortizedGrowth l a ≤ 2 ^ 64 - 1 := by
  simp only [Gen.amortizedGrowth, Gen.satAdd, Gen.satMul]; omega

/-- for **every** `n` (no bound at all), in every well-formed world and every storage state of the
target — shared heap buffers included — `reserve(n)` either succeeds with its postcondition
(C11) or fails leaving the target bit-identical, its text and every block unchanged; it never
raises a model alarm (no wrap-around, no write beyond what was allocated) -/
theorem reserve_any_size (rf : Refuse) (w : World) (h : Nat) (t : Bytes) (n : Nat) (plain : Bool) (hw : Wf w)
    (ht : w.text h = some t) :
    (((step rf w (.reserve h n plain)).2 = .ok .unit ∧ (step rf w (.reserve h n plain)).1.text h = some t) ∨
     ((step rf w (.reserve h n plain)).2 = failOut plain ∧ SameAs w (step rf w (.reserve h n plain)).1 h)) ∧
    Wf (step rf w (.reserve h n plain)).1 ∧ (∀ u, (step rf w (.reserve h n plain)).2 ≠ .ub u) := by
  have hp := step_post rf hw (.reserve h n plain) trivial
  refine ⟨?_, hp.1, hp.2.1⟩
  rcases reserve_refines (rf := rf) hw ht n plain with ⟨a, b, _⟩ | c
  · exact Or.inl ⟨a, b⟩
  · exact Or.inr c

/-- the same for a size hint: `extend` with any `hint` never corrupts anything -/
theorem extend_any_hint (rf : Refuse) (w : World) (h hint : Nat) (items : List (Option Bytes)) (hw : Wf w)
    (hv : ∀ s, some s ∈ items → Valid s) :
    Wf (step rf w (.extendChars h hint items)).1 ∧ (∀ u, (step rf w (.extendChars h hint items)).2 ≠ .ub u) ∧
    ∀ h', h' ≠ h → (step rf w (.extendChars h hint items)).1.text h' = w.text h' :=
  let p := step_post rf hw (.extendChars h hint items) hv
  ⟨p.1, p.2.1, fun h' hne => (p.2.2 h' hne).2⟩

/-- guards of `TextLen::new`, `Capacity::new`, `StaticBuffer::new` as in the source -/
theorem guards : Gen.guardTextLenNew = ">" ∧ Gen.guardCapacityNew = ">" ∧ Gen.guardStaticNew = ">" := ⟨rfl, rfl, rfl⟩

end LS.C06
