import LSProofs.Refine
/-!
# C15 at the level of the public call: `bool`, and a `Display` impl given as pieces
-/
namespace LS.C15
open LS

/-- `b.to_lean_string()` reads `"true"` / `"false"`, allocates nothing and cannot fail -/
theorem bool_call_refines (rf : Refuse) {w : World} (hw : Wf w) (d : Nat) (b : Bool) (hd : w.get d = none) :
    let r := step rf w (.fromBool d b)
    r.1.text d = some (boolText b) ∧ r.2 = .ok .unit ∧ r.1.heap = w.heap ∧
    (∀ h', h' ≠ d → r.1.text h' = w.text h') ∧ Wf r.1 := by
  intro r
  obtain ⟨⟨ht, hf⟩, hwf, _⟩ := step_refines rf hw (.fromBool d b) trivial
  simp only [Spec.Target, Op.target, Spec.fresh, text_eq_none hd] at ht
  have hh : r.1.heap = w.heap := by
    show (step rf w (.fromBool d b)).1.heap = w.heap
    simp [step, hd, World.put]
  exact ⟨(by simpa using ht.1), (by simpa using ht.2), hh, hf, hwf⟩

theorem boolText_is_display : boolText true = [0x74, 0x72, 0x75, 0x65] ∧ boolText false = [0x66, 0x61, 0x6c, 0x73, 0x65] :=
  ⟨rfl, rfl⟩

/-- a `Display` impl that writes `pieces` and succeeds: the new handle reads their concatenation;
one that fails yields `Err(Fmt)` and no handle; nothing else changes -/
theorem display_call_refines (rf : Refuse) {w : World} (hw : Wf w) (d : Nat) (pieces : List Piece)
    (hd : w.get d = none) (hv : ∀ s, Piece.text s ∈ pieces → Valid s) :
    let r := step rf w (.display d pieces)
    ((r.1.text d = some (Spec.shown pieces).flatten ∧ r.2 = .ok .unit ∧ Spec.ending pieces = .ok .unit) ∨
     (r.1.text d = none ∧ r.2 = Spec.ending pieces ∧ Spec.ending pieces ≠ .ok .unit) ∨
     (r.1.text d = none ∧ r.2 = .panicAlloc)) ∧
    (∀ h', h' ≠ d → r.1.text h' = w.text h') ∧ Wf r.1 := by
  intro r
  obtain ⟨⟨ht, hf⟩, hwf, _⟩ := step_refines rf hw (.display d pieces) hv
  simp only [Spec.Target, Op.target, Spec.fresh, text_eq_none hd] at ht
  exact ⟨(by simpa using ht), hf, hwf⟩

end LS.C15
