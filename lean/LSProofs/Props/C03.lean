import LSProofs.StepSpec
/-!
# C03 — heap buffers: freed exactly once, after the last handle, never touched after

`Wf` (LSProofs/Wf.lean) says, for every live block: its reference count equals the number of
handles of the pool pointing at it, is at least 1, its capacity is within the length field, it
holds exactly `cap` bytes and was allocated with `HEADER + cap` bytes — and every handle points at
a live block that covers its length with valid UTF-8. The model raises an alarm (`Out.ub`) on any
access through a released block, double free, free/realloc with a size other than the one
allocated, out-of-extent access, or write to a block whose count is not 1.
-/
namespace LS.C03
open LS

/-- one step: the invariant is kept and no alarm is raised — for every operation, every argument,
every allocator behaviour `rf`, including steps that return `ReserveError` or panic -/
theorem step_wf (rf : Refuse) (w : World) (hw : Wf w) (op : Op) (hv : op.ArgsValid) :
    Wf (step rf w op).1 ∧ ∀ u, (step rf w op).2 ≠ .ub u :=
  ⟨(step_post rf hw op hv).1, (step_post rf hw op hv).2.1⟩

/-- every finite history from a well-formed world: the invariant holds at the end, hence after
every step -/
theorem run_wf (rf : Refuse) (ops : List Op) : ∀ (w : World), Wf w → (∀ op ∈ ops, op.ArgsValid) → Wf (run rf w ops) := by
  induction ops with
  | nil => intro w hw _; exact hw
  | cons op ops ih =>
    intro w hw hv
    exact ih _ (step_wf rf w hw op (hv op (List.mem_cons_self ..))).1 (fun o ho => hv o (List.mem_cons_of_mem _ ho))

/-- no alarm anywhere along a history -/
theorem run_no_ub (rf : Refuse) (ops : List Op) (w : World) (hw : Wf w) (hv : ∀ op ∈ ops, op.ArgsValid)
    (pre : List Op) (op : Op) (post : List Op) (hsplit : ops = pre ++ op :: post) :
    ∀ u, (step rf (run rf w pre) op).2 ≠ .ub u := by
  subst hsplit
  have hwpre : Wf (run rf w pre) := run_wf rf pre w hw (fun o ho => hv o (List.mem_append_left _ ho))
  exact (step_wf rf _ hwpre op (hv op (by simp))).2

/-- the reference count is the number of live handles on that buffer, after every step -/
theorem rc_sound (w : World) (hw : Wf w) (a : Nat) (b : Block) (hb : w.heap.get? a = some b) :
    b.rc = w.pool.countP (pointsTo a) ∧ 1 ≤ b.rc ∧ b.size = HEADER + b.cap ∧ b.data.length = b.cap :=
  let ⟨k1, k2, _, k4, k5⟩ := hw.blocks a b hb
  ⟨k1, k2, k5, k4⟩

/-- when all handles are gone nothing remains allocated -/
theorem no_leak (w : World) (hw : Wf w) (hdead : ∀ h, w.get h = none) : ∀ a, w.heap.get? a = none := by
  intro a
  cases hb : w.heap.get? a with
  | none => rfl
  | some b =>
    exfalso
    obtain ⟨k1, k2, _⟩ := hw.blocks a b hb
    have hpos : 0 < w.pool.countP (pointsTo a) := by omega
    obtain ⟨v, hm, hp⟩ := List.countP_pos_iff.1 hpos
    cases v with
    | none => simp [pointsTo] at hp
    | some r =>
      obtain ⟨i, hi⟩ := getH_of_mem hm
      rw [← World.get_eq, hdead i] at hi; cases hi

/-- a block is live exactly as long as some handle points at it -/
theorem live_iff_owned (w : World) (hw : Wf w) (a : Nat) :
    (∃ b, w.heap.get? a = some b) ↔ ∃ h l, w.get h = some (.heap a l) := by
  constructor
  · intro ⟨b, hb⟩
    obtain ⟨k1, k2, _⟩ := hw.blocks a b hb
    have hpos : 0 < w.pool.countP (pointsTo a) := by omega
    obtain ⟨v, hm, hp⟩ := List.countP_pos_iff.1 hpos
    cases v with
    | none => simp [pointsTo] at hp
    | some r =>
      cases r with
      | inl raw => simp [pointsTo] at hp
      | stat s l => simp [pointsTo] at hp
      | heap a' l =>
        simp [pointsTo] at hp; subst hp
        obtain ⟨i, hi⟩ := getH_of_mem hm
        exact ⟨i, l, hi⟩
  · intro ⟨h, l, hg⟩
    obtain ⟨b, hb, _⟩ := hw.handles h _ hg
    exact ⟨b, hb⟩

/-- the empty world is well-formed -/
theorem init_wf (st : List Bytes) (hst : ∀ t ∈ st, Valid t ∧ t.length ≤ STATIC_MAX_LEN) :
    Wf { statics := st } := wf_init st hst

-- non-vacuity: a world with a shared, truncated buffer is reachable (and well-formed by `run_wf`)
example : ((run (fun _ _ => false) {} [.fromStr 0 [0x61,0x62,0x63,0x64,0x65,0x66,0x67,0x68,0x69,0x6a,0x6b,0x6c,0x6d,0x6e,0x6f,0x70,0x71,0x72] true,
    .clone 1 0, .truncate 1 3 true, .drop 0]).heap.get? 0).map (fun b => (b.rc, b.cap, b.size)) = some (1, 18, 34) := by decide

end LS.C03
