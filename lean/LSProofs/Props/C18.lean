import LSProofs.TextSpec
import LSProofs.LoopSpec
import LSProofs.Props.C05
/-!
# C18 — a panicking callback leaves valid strings and no garbage behind

User code is data: a `retain` predicate is its list of answers (`none` = it panics at that
invocation), an iterator is its list of items (`none` = `next()` panics there), a `Display` impl
its list of pieces. The theorems hold for the panic at the k-th invocation for **every k** (the
position of `none` in the list is arbitrary), every storage state of the target and every world.
-/
namespace LS.C18
open LS

/-- `retain` whose predicate panics: the target holds the characters kept so far (std's guard
semantics), the outcome is the callback's panic, and the world is well-formed — every block still
has count = number of handles, so it is released exactly once when they go -/
theorem retain_panic (rf : Refuse) (w : World) (h : Nat) (t : Bytes) (answers : List (Option Bool)) (plain : Bool)
    (hw : Wf w) (ht : w.text h = some t) (hp : (retainScan t.length t answers []).2 = true) :
    (((step rf w (.retain h answers plain)).2 = .panicCb ∧
       (step rf w (.retain h answers plain)).1.text h = some (retainScan t.length t answers []).1) ∨
     ((step rf w (.retain h answers plain)).2 = failOut plain ∧ SameAs w (step rf w (.retain h answers plain)).1 h)) ∧
    Wf (step rf w (.retain h answers plain)).1 ∧
    ∀ h', h' ≠ h → (step rf w (.retain h answers plain)).1.text h' = w.text h' := by
  have hpost := step_post rf hw (.retain h answers plain) trivial
  refine ⟨?_, hpost.1, fun h' hne => (hpost.2.2 h' hne).2⟩
  rcases retain_refines (rf := rf) hw ht answers plain with ⟨a, b⟩ | c
  · left; rw [hp] at a; exact ⟨a, b⟩
  · right; exact c

/-- the scan stops at the first `none` answer and keeps what it had: in particular the result is
a prefix-filter of the processed characters, valid UTF-8, never longer than the text -/
theorem retain_scan_valid (t : Bytes) (hv : Valid t) (answers : List (Option Bool)) :
    Valid (retainScan t.length t answers []).1 ∧ (retainScan t.length t answers []).1.length ≤ t.length := by
  have := retainScan_valid t.length t answers [] hv valid_nil
  simpa using this

/-- `extend` / `write!` / `+=` driven by a panicking iterator: still well-formed, others untouched -/
theorem extend_panic (rf : Refuse) (w : World) (h hint : Nat) (items : List (Option Bytes)) (hw : Wf w)
    (hv : ∀ s, some s ∈ items → Valid s) :
    Wf (step rf w (.extendChars h hint items)).1 ∧ (∀ u, (step rf w (.extendChars h hint items)).2 ≠ .ub u) ∧
    ∀ h', h' ≠ h → (step rf w (.extendChars h hint items)).1.text h' = w.text h' :=
  let p := step_post rf hw (.extendChars h hint items) hv
  ⟨p.1, p.2.1, fun h' hne => (p.2.2 h' hne).2⟩

/-- `extend` whose iterator panics at its k-th `next()`: the target holds the old text plus the
items yielded before the panic — exactly what `String::extend` leaves -/
theorem extend_panic_text (rf : Refuse) (w : World) (h : Nat) (t : Bytes) (items : List (Option Bytes)) (hw : Wf w)
    (ht : w.text h = some t) (hv : ∀ s, some s ∈ items → Valid s) (hp : panics items = true) :
    ((step rf w (.extendStrs h items)).2 = .panicCb ∧
      (step rf w (.extendStrs h items)).1.text h = some (t ++ (consumed items).flatten)) ∨
    ((step rf w (.extendStrs h items)).2 = .panicAlloc ∧
      ∃ k, k < (consumed items).length ∧
        (step rf w (.extendStrs h items)).1.text h = some (t ++ ((consumed items).take k).flatten)) := by
  have := extendStrs_refines (rf := rf) hw ht items hv
  rw [hp] at this; exact this

/-- the kept-so-far text of a panicking `retain` is `String::retain`'s (character-level filter
that stops at the panic) -/
theorem retain_panic_is_string_retain (t : Bytes) (hv : Valid t) (answers : List (Option Bool)) :
    retainScan t.length t answers [] = Spec.retain t answers := retain_is_string_retain t hv answers

/-- `collect` whose iterator panics (or whose push fails): the accumulator is released — the
destination stays empty, and since the world is well-formed no block is left without an owner
(this is what finding F3 violated) -/
theorem collect_panic_no_leak (rf : Refuse) (w : World) (hw : Wf w) (d hint : Nat) (items : List (Option Bytes))
    (hv : ∀ s, some s ∈ items → Valid s) (hd : w.get d = none)
    (hfail : (step rf w (.collectChars d hint items)).2 ≠ .ok .unit) :
    (step rf w (.collectChars d hint items)).1.get d = none ∧ Wf (step rf w (.collectChars d hint items)).1 :=
  C05.failed_collect_leaves_nothing rf w hw d hint items hv hd hfail

/-- `to_lean_string` on a `Display` that panics or fails: no handle is produced, world well-formed -/
theorem display_panic (rf : Refuse) (w : World) (hw : Wf w) (d : Nat) (pieces : List Piece)
    (hv : ∀ s, Piece.text s ∈ pieces → Valid s) :
    Wf (step rf w (.display d pieces)).1 ∧ ∀ h', h' ≠ d → (step rf w (.display d pieces)).1.text h' = w.text h' :=
  let p := step_post rf hw (.display d pieces) hv
  ⟨p.1, fun h' hne => (p.2.2 h' hne).2⟩

-- non-vacuity: the predicate panics at its third invocation on a shared heap string
example : retainScan 5 [0x61, 0x62, 0x63, 0x64, 0x65] [some true, some false, none] [] = ([0x61], true) := by decide

end LS.C18
