import LSProofs.Wf
/-! # C18 — placeholder while the refinement development is being written (see DESIGN 4.4) -/
namespace LS.C18
open LS

theorem init_wf (st : List Bytes) (hst : ∀ t ∈ st, Valid t ∧ t.length ≤ STATIC_MAX_LEN) :
    Wf { statics := st } := wf_init st hst

end LS.C18
