import LSProofs.PrimLemmas
import LSProofs.TextSpec
/-!
# C13 — shrinking keeps the text, never grows, lands on the requested size
-/
namespace LS.C13
open LS

/-- non-heap targets are left exactly as they are, for every `m` -/
theorem shrink_inline (rf : Refuse) (hp : Heap) (raw : Bytes) (m : Nat) :
    shrinkTo rf hp (.inl raw) m = .ok () hp (.inl raw) := rfl
theorem shrink_static (rf : Refuse) (hp : Heap) (s l m : Nat) :
    shrinkTo rf hp (.stat s l) m = .ok () hp (.stat s l) := rfl

/-- nothing to do when the request is not below the capacity -/
theorem shrink_noop (rf : Refuse) (hp : Heap) (a l m : Nat) (b : Block) (hb : hp.get? a = some b)
    (h16 : 16 < max l m) (hge : b.cap ≤ max l m) : shrinkTo rf hp (.heap a l) m = .ok () hp (.heap a l) := by
  have := Tie.maxInline_eq
  have h1 : ¬ max l m ≤ MAX_INLINE := by omega
  simp [shrinkTo, hb, h1, hge]

/-- **shared** target: the private copy has *exactly* `max len m` bytes of capacity — the growth
rule is not involved (this is what finding F2 violated) -/
theorem shrink_shared_exact (rf : Refuse) (hp : Heap) (a l m : Nat) (b : Block) (hb : hp.get? a = some b)
    (h16 : 16 < max l m) (hlt : max l m < b.cap) (hsh : b.rc ≠ 1) (hl : l ≤ b.cap) (hm : max l m ≤ MAX_LEN)
    (hr : rf hp.reqs (HEADER + max l m) = false) :
    shrinkTo rf hp (.heap a l) m = moveTo hp (.heap a l) l (some hp.slots.length,
      { slots := hp.slots ++ [.live { rc := 1, cap := max l m, size := HEADER + max l m,
                                       data := padTo (max l m) (b.data.take l) }],
        reqs := hp.reqs + 1, log := .alloc (HEADER + max l m) :: hp.log }) := by
  have h16' := Tie.maxInline_eq
  have hML := Tie.maxLen_eq
  have hH := Tie.header_eq
  have h1 : ¬ max l m ≤ MAX_INLINE := by omega
  have h2 : ¬ max l m ≥ b.cap := by omega
  have hcap : capOk (max l m) = true := by simp [capOk, hm]; omega
  simp only [shrinkTo, hb, h1, h2, hsh, hl, if_false, if_true]
  simp only [heapWithCapacityFrom, hcap, if_true, Heap.allocate, hr]
  rfl

/-- **unique** target: reallocation to exactly `max len m` -/
theorem shrink_unique_exact (rf : Refuse) (hp : Heap) (a l m : Nat) (b : Block) (hb : hp.get? a = some b)
    (h16 : 16 < max l m) (hlt : max l m < b.cap) (hu : b.rc = 1) :
    shrinkTo rf hp (.heap a l) m = match hp.realloc rf a (max l m) with
      | .moved hp' a' => .ok () hp' (.heap a' l)
      | .refused hp' => .err hp' (.heap a l)
      | .ub u => .ub u := by
  have h16' := Tie.maxInline_eq
  have h1 : ¬ max l m ≤ MAX_INLINE := by omega
  have h2 : ¬ max l m ≥ b.cap := by omega
  simp only [shrinkTo, hb, h1, h2, hu, if_false, if_true]
  cases hp.realloc rf a (max l m) <;> rfl

/-- the whole property at world level, for every `m`, every well-formed world, every sharing
situation: the text is kept; the capacity never grows (beyond the inline size), is never below
`len`, and never below `m` unless it already was; a heap target whose capacity exceeded
`max len m` lands on exactly `max len m`, or on inline storage when that fits — whether or not the
buffer was shared; a refusal changes nothing -/
theorem shrink_to_world (rf : Refuse) (w : World) (h : Nat) (r : Handle) (t : Bytes) (m : Nat) (plain : Bool)
    (hw : Wf w) (hg : w.get h = some r) (ht : w.text h = some t) :
    ((step rf w (.shrinkTo h m plain)).2 = .ok .unit ∧ (step rf w (.shrinkTo h m plain)).1.text h = some t ∧
      ∃ r', (step rf w (.shrinkTo h m plain)).1.get h = some r' ∧
        capOf (step rf w (.shrinkTo h m plain)).1.heap r' ≤ max (capOf w.heap r) 16 ∧
        t.length ≤ capOf (step rf w (.shrinkTo h m plain)).1.heap r' ∧
        (m ≤ capOf (step rf w (.shrinkTo h m plain)).1.heap r' ∨
          capOf (step rf w (.shrinkTo h m plain)).1.heap r' = capOf w.heap r) ∧
        (∀ a l, r = .heap a l → max l m < capOf w.heap r →
          (max l m ≤ 16 → ∃ raw, r' = .inl raw) ∧
          (16 < max l m → capOf (step rf w (.shrinkTo h m plain)).1.heap r' = max l m ∧ ∃ a', r' = .heap a' l))) ∨
    ((step rf w (.shrinkTo h m plain)).2 = failOut plain ∧ SameAs w (step rf w (.shrinkTo h m plain)).1 h) := by
  obtain ⟨r0, hg0, g⟩ := good_of_text hw ht
  rw [hg] at hg0; injection hg0 with hg0; subst hg0
  have hsat := shrinkTo_sat g rf m
  simp only [step, hg]
  revert hsat
  cases shrinkTo rf w.heap r m with
  | ok v hp1 r1 =>
    intro ⟨g1, c1, c2, c3, c4, _, _⟩; left
    exact ⟨rfl, text_put_self g1, r1, World.get_put_self .., c1, c2, c3, c4⟩
  | err hp1 r1 => intro ⟨hr, hsl⟩; right; subst hr; exact ⟨rfl, sameAs_put hg hsl⟩
  | pidx hp1 r1 => intro hf; exact hf.elim
  | pcb hp1 r1 => intro hf; exact hf.elim
  | ub u => intro hf; exact hf.elim

-- the pre-repair sizing (growth rule) on the F2 replay: 150, not 100
example : Gen.amortizedGrowth 100 (100 - 100) = 150 := by decide

/-- the two guards of `shrink_to` as in the source -/
theorem guards : Gen.guardShrinkInline = "<=" ∧ Gen.guardShrinkNoop = ">=" := ⟨rfl, rfl⟩

end LS.C13
