import LSProofs.PrimLemmas
/-!
# C13 — shrinking keeps the text, never grows, lands on the requested size
-/
namespace LS.C13
open LS

/-- non-heap targets are left exactly as they are, for every `m` -/
theorem shrink_inline (rf : Refuse) (hp : Heap) (raw : Bytes) (m : Nat) :
    shrinkTo rf hp (.inl raw) m = .ok () hp (.inl raw) := rfl
theorem shrink_static (rf : Refuse) (hp : Heap) (s l m : Nat) :
    shrinkTo rf hp (.stat s l) m = .ok () hp (.stat s l) := rfl

/-- nothing to do when the request is not below the capacity -/
theorem shrink_noop (rf : Refuse) (hp : Heap) (a l m : Nat) (b : Block) (hb : hp.get? a = some b)
    (h16 : 16 < max l m) (hge : b.cap ≤ max l m) : shrinkTo rf hp (.heap a l) m = .ok () hp (.heap a l) := by
  have := Tie.maxInline_eq
  have h1 : ¬ max l m ≤ MAX_INLINE := by omega
  simp [shrinkTo, hb, h1, hge]

/-- **shared** target: the private copy has *exactly* `max len m` bytes of capacity — the growth
rule is not involved (this is what finding F2 violated) -/
theorem shrink_shared_exact (rf : Refuse) (hp : Heap) (a l m : Nat) (b : Block) (hb : hp.get? a = some b)
    (h16 : 16 < max l m) (hlt : max l m < b.cap) (hsh : b.rc ≠ 1) (hl : l ≤ b.cap) (hm : max l m ≤ MAX_LEN)
    (hr : rf hp.reqs (HEADER + max l m) = false) :
    shrinkTo rf hp (.heap a l) m = moveTo hp (.heap a l) l (some hp.slots.length,
      { slots := hp.slots ++ [.live { rc := 1, cap := max l m, size := HEADER + max l m,
                                       data := padTo (max l m) (b.data.take l) }],
        reqs := hp.reqs + 1, log := .alloc (HEADER + max l m) :: hp.log }) := by
  have h16' := Tie.maxInline_eq
  have hML := Tie.maxLen_eq
  have hH := Tie.header_eq
  have h1 : ¬ max l m ≤ MAX_INLINE := by omega
  have h2 : ¬ max l m ≥ b.cap := by omega
  have hcap : capOk (max l m) = true := by simp [capOk, hm]; omega
  simp only [shrinkTo, hb, h1, h2, hsh, hl, if_false, if_true]
  simp only [heapWithCapacityFrom, hcap, if_true, Heap.allocate, hr]
  rfl

/-- **unique** target: reallocation to exactly `max len m` -/
theorem shrink_unique_exact (rf : Refuse) (hp : Heap) (a l m : Nat) (b : Block) (hb : hp.get? a = some b)
    (h16 : 16 < max l m) (hlt : max l m < b.cap) (hu : b.rc = 1) :
    shrinkTo rf hp (.heap a l) m = match hp.realloc rf a (max l m) with
      | .moved hp' a' => .ok () hp' (.heap a' l)
      | .refused hp' => .err hp' (.heap a l)
      | .ub u => .ub u := by
  have h16' := Tie.maxInline_eq
  have h1 : ¬ max l m ≤ MAX_INLINE := by omega
  have h2 : ¬ max l m ≥ b.cap := by omega
  simp only [shrinkTo, hb, h1, h2, hu, if_false, if_true]
  cases hp.realloc rf a (max l m) <;> rfl

-- the pre-repair sizing (growth rule) on the F2 replay: 150, not 100
example : Gen.amortizedGrowth 100 (100 - 100) = 150 := by decide

/-- the two guards of `shrink_to` as in the source -/
theorem guards : Gen.guardShrinkInline = "<=" ∧ Gen.guardShrinkNoop = ">=" := ⟨rfl, rfl⟩

end LS.C13
