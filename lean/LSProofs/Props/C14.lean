import LSProofs.Tie
import LSProofs.NumLemmas
import LSProofs.IntText
/-!
# C14 — integers format exactly as `Display` does

(a) every *generated* digit-count table is total over its type's range and returns exactly the
length of the decimal text, sign included — for every value, by the generic lemma `lookup_exact`
applied to the decidable row check; (b) the generated look-up table holds the two decimal digits of
every `d < 100`; (c) the delegations (`usize → u64`, `NonZero → get()`, 128-bit → `itoa`) are the
ones the model follows. (d) the writer loop writes exactly `decimal` (`writer_exact`, by induction on the 4-digit loop), and
(e) end to end, `into_repr` builds a string that reads `decimal v`, inline when it has at most 16
characters (`into_repr_text_*`).
-/
namespace LS.C14
open LS

theorem table_u8 (v : Int) (h1 : 0 ≤ v) (h2 : v ≤ 255) :
    lookupRows Gen.digitTable_u8 v = some (decimal v).length :=
  lookup_exact _ 0 255 v (by decide) (by decide) h1 h2

theorem table_i8 (v : Int) (h1 : -128 ≤ v) (h2 : v ≤ 127) :
    lookupRows Gen.digitTable_i8 v = some (decimal v).length :=
  lookup_exact _ (-128) 127 v (by decide) (by decide) h1 h2

theorem table_u16 (v : Int) (h1 : 0 ≤ v) (h2 : v ≤ 65535) :
    lookupRows Gen.digitTable_u16 v = some (decimal v).length :=
  lookup_exact _ 0 65535 v (by decide) (by decide) h1 h2

theorem table_i16 (v : Int) (h1 : -32768 ≤ v) (h2 : v ≤ 32767) :
    lookupRows Gen.digitTable_i16 v = some (decimal v).length :=
  lookup_exact _ (-32768) 32767 v (by decide) (by decide) h1 h2

theorem table_u32 (v : Int) (h1 : 0 ≤ v) (h2 : v ≤ 4294967295) :
    lookupRows Gen.digitTable_u32 v = some (decimal v).length :=
  lookup_exact _ 0 4294967295 v (by decide) (by decide) h1 h2

theorem table_i32 (v : Int) (h1 : -2147483648 ≤ v) (h2 : v ≤ 2147483647) :
    lookupRows Gen.digitTable_i32 v = some (decimal v).length :=
  lookup_exact _ (-2147483648) 2147483647 v (by decide) (by decide) h1 h2

theorem table_u64 (v : Int) (h1 : 0 ≤ v) (h2 : v ≤ 18446744073709551615) :
    lookupRows Gen.digitTable_u64 v = some (decimal v).length :=
  lookup_exact _ 0 18446744073709551615 v (by decide) (by decide) h1 h2

theorem table_i64 (v : Int) (h1 : -9223372036854775808 ≤ v) (h2 : v ≤ 9223372036854775807) :
    lookupRows Gen.digitTable_i64 v = some (decimal v).length :=
  lookup_exact _ (-9223372036854775808) 9223372036854775807 v (by decide) (by decide) h1 h2

/-- the 200-byte table: entry `d` is the two ASCII digits of `d` -/
theorem lut_exact : ∀ d, d < 100 → lut2 d = [UInt8.ofNat (48 + d / 10), UInt8.ofNat (48 + d % 10)] := by
  decide

/-- who delegates to whom, as the source says now -/
theorem delegations :
    Gen.digitDelegate_usize = "u64" ∧ Gen.digitDelegate_isize = "i64" ∧
    Gen.writerInstances = [("i8", "u64"), ("u8", "u64"), ("i16", "u64"), ("u16", "u64"), ("i32", "u64"),
      ("u32", "u64"), ("isize", "u64"), ("usize", "u64"), ("i64", "u64"), ("u64", "u64")] ∧
    Gen.nonzeroDelegates = ["i8", "u8", "i16", "u16", "i32", "u32", "i64", "u64", "i128", "u128", "isize", "usize"] ∧
    Gen.externalFormatters = [("f32", "ryu"), ("f64", "ryu"), ("u128", "itoa"), ("i128", "itoa")] :=
  ⟨rfl, rfl, rfl, rfl, rfl⟩

/-- the literals of the unrolled writer -/
theorem writer_literals :
    Gen.writer_loopBound = 10000 ∧ Gen.writer_loopMod = 10000 ∧ Gen.writer_loopDiv = 10000 ∧
    Gen.writer_remDiv = 100 ∧ Gen.writer_remMod = 100 ∧ Gen.writer_loopStep = 4 ∧
    Gen.writer_tailBound = 100 ∧ Gen.writer_tailMod = 100 ∧ Gen.writer_tailDiv = 100 ∧
    Gen.writer_lastBound = 10 := by decide

/-- every integer type (and its NonZero form) is dispatched to `from_num` -/
theorem dispatch_ints :
    ∀ t ∈ ["i8", "u8", "i16", "u16", "i32", "u32", "i64", "u64", "i128", "u128", "isize", "usize",
           "NonZero<i8>", "NonZero<u8>", "NonZero<i16>", "NonZero<u16>", "NonZero<i32>", "NonZero<u32>",
           "NonZero<i64>", "NonZero<u64>", "NonZero<i128>", "NonZero<u128>", "NonZero<isize>", "NonZero<usize>"],
      (t, "Repr::from_num(*s)?") ∈ Gen.matchTypeArms := by decide

/-- (d) the unrolled writer (generated LUT and literals) produces exactly the decimal text, for
every magnitude a 64-bit type can hold and both signs -/
theorem writer_exact (neg : Bool) (n : Nat) (hn : n < 2 ^ 64) :
    writer true neg n = (if neg then [0x2D] else []) ++ decDigits 40 n := writer_wide neg n hn

theorem writer_exact_8bit (neg : Bool) (n : Nat) (hn : n < 256) :
    writer false neg n = (if neg then [0x2D] else []) ++ decDigits 40 n := writer_narrow neg n (by omega)

/-- (e) end to end for `u64` (hence `usize`, `NonZero<u64>`, `NonZero<usize>` by `delegations`): for
**every** value, `into_repr` either is refused its single allocation (nothing changed) or yields a
handle that reads exactly what `Display` prints -/
theorem into_repr_text_u64 {ocf base st hp} (hl : LInv ocf base hp (fun _ => 0)) (rf : Refuse) (v : Int)
    (h1 : 0 ≤ v) (h2 : v ≤ 18446744073709551615) :
    (∃ hp1, intoReprCore rf hp Gen.digitTable_u64 true v = some (none, hp1) ∧ hp1.slots = hp.slots) ∨
    (∃ hp1 r, intoReprCore rf hp Gen.digitTable_u64 true v = some (some r, hp1) ∧
      Good ocf base st hp1 r (decimal v) ∧ (decimal v).length ≤ capOf hp1 r) :=
  intoReprCore_text hl rf _ true v (table_u64 v h1 h2) (writer_eq_decimal true v (by omega) (by simp))

/-- … and for `i64` (hence `isize` and the NonZero forms), including `i64::MIN` -/
theorem into_repr_text_i64 {ocf base st hp} (hl : LInv ocf base hp (fun _ => 0)) (rf : Refuse) (v : Int)
    (h1 : -9223372036854775808 ≤ v) (h2 : v ≤ 9223372036854775807) :
    (∃ hp1, intoReprCore rf hp Gen.digitTable_i64 true v = some (none, hp1) ∧ hp1.slots = hp.slots) ∨
    (∃ hp1 r, intoReprCore rf hp Gen.digitTable_i64 true v = some (some r, hp1) ∧
      Good ocf base st hp1 r (decimal v) ∧ (decimal v).length ≤ capOf hp1 r) :=
  intoReprCore_text hl rf _ true v (table_i64 v h1 h2) (writer_eq_decimal true v (by omega) (by simp))

theorem into_repr_text_u32 {ocf base st hp} (hl : LInv ocf base hp (fun _ => 0)) (rf : Refuse) (v : Int)
    (h1 : 0 ≤ v) (h2 : v ≤ 4294967295) :
    (∃ hp1, intoReprCore rf hp Gen.digitTable_u32 true v = some (none, hp1) ∧ hp1.slots = hp.slots) ∨
    (∃ hp1 r, intoReprCore rf hp Gen.digitTable_u32 true v = some (some r, hp1) ∧
      Good ocf base st hp1 r (decimal v) ∧ (decimal v).length ≤ capOf hp1 r) :=
  intoReprCore_text hl rf _ true v (table_u32 v h1 h2) (writer_eq_decimal true v (by omega) (by simp))

theorem into_repr_text_i32 {ocf base st hp} (hl : LInv ocf base hp (fun _ => 0)) (rf : Refuse) (v : Int)
    (h1 : -2147483648 ≤ v) (h2 : v ≤ 2147483647) :
    (∃ hp1, intoReprCore rf hp Gen.digitTable_i32 true v = some (none, hp1) ∧ hp1.slots = hp.slots) ∨
    (∃ hp1 r, intoReprCore rf hp Gen.digitTable_i32 true v = some (some r, hp1) ∧
      Good ocf base st hp1 r (decimal v) ∧ (decimal v).length ≤ capOf hp1 r) :=
  intoReprCore_text hl rf _ true v (table_i32 v h1 h2) (writer_eq_decimal true v (by omega) (by simp))

theorem into_repr_text_u16 {ocf base st hp} (hl : LInv ocf base hp (fun _ => 0)) (rf : Refuse) (v : Int)
    (h1 : 0 ≤ v) (h2 : v ≤ 65535) :
    (∃ hp1, intoReprCore rf hp Gen.digitTable_u16 true v = some (none, hp1) ∧ hp1.slots = hp.slots) ∨
    (∃ hp1 r, intoReprCore rf hp Gen.digitTable_u16 true v = some (some r, hp1) ∧
      Good ocf base st hp1 r (decimal v) ∧ (decimal v).length ≤ capOf hp1 r) :=
  intoReprCore_text hl rf _ true v (table_u16 v h1 h2) (writer_eq_decimal true v (by omega) (by simp))

theorem into_repr_text_i16 {ocf base st hp} (hl : LInv ocf base hp (fun _ => 0)) (rf : Refuse) (v : Int)
    (h1 : -32768 ≤ v) (h2 : v ≤ 32767) :
    (∃ hp1, intoReprCore rf hp Gen.digitTable_i16 true v = some (none, hp1) ∧ hp1.slots = hp.slots) ∨
    (∃ hp1 r, intoReprCore rf hp Gen.digitTable_i16 true v = some (some r, hp1) ∧
      Good ocf base st hp1 r (decimal v) ∧ (decimal v).length ≤ capOf hp1 r) :=
  intoReprCore_text hl rf _ true v (table_i16 v h1 h2) (writer_eq_decimal true v (by omega) (by simp))

theorem into_repr_text_u8 {ocf base st hp} (hl : LInv ocf base hp (fun _ => 0)) (rf : Refuse) (v : Int)
    (h1 : 0 ≤ v) (h2 : v ≤ 255) :
    (∃ hp1, intoReprCore rf hp Gen.digitTable_u8 false v = some (none, hp1) ∧ hp1.slots = hp.slots) ∨
    (∃ hp1 r, intoReprCore rf hp Gen.digitTable_u8 false v = some (some r, hp1) ∧
      Good ocf base st hp1 r (decimal v) ∧ (decimal v).length ≤ capOf hp1 r) :=
  intoReprCore_text hl rf _ false v (table_u8 v h1 h2) (writer_eq_decimal false v (by omega) (fun _ => by omega))

theorem into_repr_text_i8 {ocf base st hp} (hl : LInv ocf base hp (fun _ => 0)) (rf : Refuse) (v : Int)
    (h1 : -128 ≤ v) (h2 : v ≤ 127) :
    (∃ hp1, intoReprCore rf hp Gen.digitTable_i8 false v = some (none, hp1) ∧ hp1.slots = hp.slots) ∨
    (∃ hp1 r, intoReprCore rf hp Gen.digitTable_i8 false v = some (some r, hp1) ∧
      Good ocf base st hp1 r (decimal v) ∧ (decimal v).length ≤ capOf hp1 r) :=
  intoReprCore_text hl rf _ false v (table_i8 v h1 h2) (writer_eq_decimal false v (by omega) (fun _ => by omega))

/-- **C14 at the level of the public call, for every integer type and every value of it**:
`v.try_to_lean_string()` either is refused its single allocation (nothing changed) or yields a
handle that reads exactly `decimal v`, what `Display` prints. `usize`/`isize` go through the
translated delegation, the 128-bit types through `itoa` (assumed to print `decimal`) and `from_str`. -/
theorem intToReprTy_text {ocf base st hp} (hl : LInv ocf base hp (fun _ => 0)) (rf : Refuse) (ty : IntTy) (v : Int)
    (h1 : ty.lo ≤ v) (h2 : v ≤ ty.hi) :
    (∃ hp1, intToReprTy rf hp ty v = some (none, hp1) ∧ hp1.slots = hp.slots) ∨
    (∃ hp1 r, intToReprTy rf hp ty v = some (some r, hp1) ∧ Good ocf base st hp1 r (decimal v)) := by
  have core : ∀ rows wide,
      ((∃ hp1, intoReprCore rf hp rows wide v = some (none, hp1) ∧ hp1.slots = hp.slots) ∨
       (∃ hp1 r, intoReprCore rf hp rows wide v = some (some r, hp1) ∧ Good ocf base st hp1 r (decimal v) ∧
          (decimal v).length ≤ capOf hp1 r)) →
      ((∃ hp1, intoReprCore rf hp rows wide v = some (none, hp1) ∧ hp1.slots = hp.slots) ∨
       (∃ hp1 r, intoReprCore rf hp rows wide v = some (some r, hp1) ∧ Good ocf base st hp1 r (decimal v))) := by
    intro rows wide h
    rcases h with h | ⟨hp1, r, he, g, _⟩
    · exact .inl h
    · exact .inr ⟨hp1, r, he, g⟩
  have big : (∃ hp1, fromStr rf hp (decimal v) = (none, hp1) ∧ hp1.slots = hp.slots) ∨
      (∃ hp1 r, fromStr rf hp (decimal v) = (some r, hp1) ∧ Good ocf base st hp1 r (decimal v)) :=
    fromStr_fresh hl rf (decimal v) (decimal_valid v)
  cases ty with
  | u8 => exact core _ _ (into_repr_text_u8 hl rf v h1 h2)
  | i8 => exact core _ _ (into_repr_text_i8 hl rf v h1 h2)
  | u16 => exact core _ _ (into_repr_text_u16 hl rf v h1 h2)
  | i16 => exact core _ _ (into_repr_text_i16 hl rf v h1 h2)
  | u32 => exact core _ _ (into_repr_text_u32 hl rf v h1 h2)
  | i32 => exact core _ _ (into_repr_text_i32 hl rf v h1 h2)
  | u64 => exact core _ _ (into_repr_text_u64 hl rf v h1 h2)
  | i64 => exact core _ _ (into_repr_text_i64 hl rf v h1 h2)
  | usize =>
    have : IntTy.usize.rows = some Gen.digitTable_u64 := by decide +kernel
    simp only [intToReprTy, this]
    exact core _ _ (into_repr_text_u64 hl rf v h1 h2)
  | isize =>
    have : IntTy.isize.rows = some Gen.digitTable_i64 := by decide +kernel
    simp only [intToReprTy, this]
    exact core _ _ (into_repr_text_i64 hl rf v h1 h2)
  | u128 =>
    simp only [intToReprTy]
    rcases big with ⟨hp1, he, hs⟩ | ⟨hp1, r, he, g⟩
    · exact .inl ⟨hp1, by rw [he], hs⟩
    · exact .inr ⟨hp1, r, by rw [he], g⟩
  | i128 =>
    simp only [intToReprTy]
    rcases big with ⟨hp1, he, hs⟩ | ⟨hp1, r, he, g⟩
    · exact .inl ⟨hp1, by rw [he], hs⟩
    · exact .inr ⟨hp1, r, by rw [he], g⟩

-- non-vacuity: concrete values at row boundaries
example : lookupRows Gen.digitTable_i64 (-1000000000000000000) = some 20 ∧ decimal (-1000000000000000000) =
    [0x2D, 49, 48, 48, 48, 48, 48, 48, 48, 48, 48, 48, 48, 48, 48, 48, 48, 48, 48, 48] := by decide

end LS.C14
