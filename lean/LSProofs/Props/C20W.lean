import LSProofs.Props.C20
import LSProofs.Props.C03
/-!
# C20, the reachability half: `Some(s)` is never mistaken for `None`, for any reachable `s`

`Props/C20.lean` shows that the declared `LastByte` values are exactly `0x00..=0xD1` (so `0xD2..=0xFF`
is the niche `Option<LeanString>` uses) and that each way of building a handle stays inside that
range. Here: after **every** history of the 28 public operations, under every allocator, the
discriminating byte of every live handle is a declared value — below `0xD0` for inline storage
(whatever the 16th text byte is), exactly the heap marker or the static marker otherwise.
-/
namespace LS.C20
open LS

theorem wf_lastByte {w : World} (hw : Wf w) (h : Nat) (r : Handle) (hg : w.get h = some r) :
    r.lastByte ≤ 0xD1 ∧ r.lastByte ∈ Gen.lastByteDiscriminants.map (·.2) := by
  have key : r.lastByte ≤ 0xD1 := by
    have hok := hw.handles h r hg
    cases r with
    | inl raw =>
      obtain ⟨_, _, hlt⟩ := hok
      show inlLast raw ≤ 0xD1
      omega
    | heap a l =>
      obtain ⟨b, hb, hl, _⟩ := hok
      obtain ⟨_, _, hcap, _, _⟩ := hw.blocks a b hb
      rw [lastByte_heap a l (by omega)]; decide
    | stat s l =>
      obtain ⟨t, _, hl, _, hmax⟩ := hok
      rw [lastByte_static s l (by omega)]; decide
  refine ⟨key, ?_⟩
  rw [discriminants_exact]
  exact List.mem_range.2 (by omega)

/-- **no reachable handle falls into the niche** -/
theorem reachable_never_none (rf : Refuse) (st : List Bytes) (hst : ∀ t ∈ st, Valid t ∧ t.length ≤ STATIC_MAX_LEN)
    (ops : List Op) (hv : ∀ op ∈ ops, op.ArgsValid) (h : Nat) (r : Handle)
    (hg : (run rf { statics := st } ops).get h = some r) :
    r.lastByte ≤ 0xD1 ∧ r.lastByte ∈ Gen.lastByteDiscriminants.map (·.2) :=
  wf_lastByte (C03.run_wf rf ops _ (wf_init st hst) hv) h r hg

end LS.C20
