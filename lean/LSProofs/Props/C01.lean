import LSProofs.TextSpec
import LSProofs.LoopSpec
import LSProofs.Refine
import LSProofs.Props.C03
/-!
# C01 — every operation behaves exactly like `String` on the same value

`World.text w h` is what handle `h` reads (`as_bytes`), whatever its storage (inline, borrowed
static, shared or unshared heap block with stale bytes behind it). `Spec.*` (LSModel/Spec.lean) are
the `String` methods on valid UTF-8 byte lists, with std's panic conditions; a popped / removed
`char` is given as its UTF-8 bytes. Each theorem holds from **every well-formed world** — and every
world reached by any finite history is well-formed (`reachable_wf`), for any number of handles, any
allocator behaviour `rf`: so it holds at every step of every history, on every storage state and
however that state was reached. The `SameAs` alternative is the allocation-failure outcome (C05).
-/
namespace LS.C01
open LS

/-- all worlds reached by a history are well-formed: the per-operation theorems below apply at
every step of every history -/
theorem reachable_wf (rf : Refuse) (st : List Bytes) (hst : ∀ t ∈ st, Valid t ∧ t.length ≤ STATIC_MAX_LEN)
    (ops : List Op) (hv : ∀ op ∈ ops, op.ArgsValid) : Wf (run rf { statics := st } ops) :=
  C03.run_wf rf ops _ (wf_init st hst) hv

theorem push_str (rf : Refuse) (w : World) (h : Nat) (t s : Bytes) (plain : Bool) (hw : Wf w)
    (ht : w.text h = some t) (hs : Valid s) :
    ((step rf w (.pushStr h s plain)).2 = .ok .unit ∧ (step rf w (.pushStr h s plain)).1.text h = some (Spec.push_str t s)) ∨
    ((step rf w (.pushStr h s plain)).2 = failOut plain ∧ SameAs w (step rf w (.pushStr h s plain)).1 h) :=
  pushStr_refines hw ht s hs plain

theorem pop (rf : Refuse) (w : World) (h : Nat) (t : Bytes) (plain : Bool) (hw : Wf w) (ht : w.text h = some t) :
    (step rf w (.pop h plain)).2 = .ok (match (Spec.pop t).1 with | none => Val.none | some c => Val.some c) ∧
    (step rf w (.pop h plain)).1.text h = some (Spec.pop t).2 :=
  let ⟨a, b, _⟩ := pop_refines (rf := rf) hw ht plain; ⟨a, b⟩

theorem truncate (rf : Refuse) (w : World) (h : Nat) (t : Bytes) (n : Nat) (plain : Bool) (hw : Wf w)
    (ht : w.text h = some t) :
    match Spec.truncate t n with
    | .ok _ t' => (step rf w (.truncate h n plain)).2 = .ok .unit ∧ (step rf w (.truncate h n plain)).1.text h = some t' ∧
        (step rf w (.truncate h n plain)).1.heap = w.heap
    | .panic => step rf w (.truncate h n plain) = (w, .panicIdx) :=
  truncate_refines hw ht n plain

theorem remove (rf : Refuse) (w : World) (h : Nat) (t : Bytes) (i : Nat) (plain : Bool) (hw : Wf w)
    (ht : w.text h = some t) :
    match Spec.remove t i with
    | .ok c t' =>
      ((step rf w (.remove h i plain)).2 = .ok (.char c) ∧ (step rf w (.remove h i plain)).1.text h = some t') ∨
      ((step rf w (.remove h i plain)).2 = failOut plain ∧ SameAs w (step rf w (.remove h i plain)).1 h)
    | .panic => step rf w (.remove h i plain) = (w, .panicIdx) :=
  remove_refines hw ht i plain

theorem insert_str (rf : Refuse) (w : World) (h : Nat) (t : Bytes) (i : Nat) (s : Bytes) (plain : Bool) (hw : Wf w)
    (ht : w.text h = some t) (hs : Valid s) :
    match Spec.insert_str t i s with
    | .ok _ t' =>
      ((step rf w (.insertStr h i s plain)).2 = .ok .unit ∧ (step rf w (.insertStr h i s plain)).1.text h = some t') ∨
      ((step rf w (.insertStr h i s plain)).2 = failOut plain ∧ SameAs w (step rf w (.insertStr h i s plain)).1 h)
    | .panic => step rf w (.insertStr h i s plain) = (w, .panicIdx) :=
  insertStr_refines hw ht i s hs plain

theorem clear (rf : Refuse) (w : World) (h : Nat) (t : Bytes) (hw : Wf w) (ht : w.text h = some t) :
    (step rf w (.clear h)).2 = .ok .unit ∧ (step rf w (.clear h)).1.text h = some [] :=
  clear_refines hw ht

theorem retain (rf : Refuse) (w : World) (h : Nat) (t : Bytes) (answers : List (Option Bool)) (plain : Bool)
    (hw : Wf w) (ht : w.text h = some t) :
    ((step rf w (.retain h answers plain)).2 = (if (retainScan t.length t answers []).2 then .panicCb else .ok .unit) ∧
      (step rf w (.retain h answers plain)).1.text h = some (retainScan t.length t answers []).1) ∨
    ((step rf w (.retain h answers plain)).2 = failOut plain ∧ SameAs w (step rf w (.retain h answers plain)).1 h) :=
  retain_refines hw ht answers plain

theorem reserve (rf : Refuse) (w : World) (h : Nat) (t : Bytes) (n : Nat) (plain : Bool) (hw : Wf w)
    (ht : w.text h = some t) :
    (step rf w (.reserve h n plain)).1.text h = some t := by
  rcases reserve_refines (rf := rf) hw ht n plain with ⟨_, h2, _⟩ | ⟨_, _, h2, _⟩
  · exact h2
  · rw [h2]; exact ht

theorem shrink_to (rf : Refuse) (w : World) (h : Nat) (t : Bytes) (m : Nat) (plain : Bool) (hw : Wf w)
    (ht : w.text h = some t) :
    (step rf w (.shrinkTo h m plain)).1.text h = some t := by
  rcases shrinkTo_refines (rf := rf) hw ht m plain with ⟨_, h2⟩ | ⟨_, _, h2, _⟩
  · exact h2
  · rw [h2]; exact ht

/-- constructors: `from(&str)` reads back its argument (or fails to allocate, leaving no handle) -/
theorem from_str (rf : Refuse) (w : World) (d : Nat) (t : Bytes) (plain : Bool) (hw : Wf w)
    (hd : w.get d = none) (hv : Valid t) :
    ((step rf w (.fromStr d t plain)).2 = .ok .unit ∧ (step rf w (.fromStr d t plain)).1.text d = some t) ∨
    ((step rf w (.fromStr d t plain)).2 = failOut plain ∧ (step rf w (.fromStr d t plain)).1.get d = none) := by
  simp only [step, hd, Option.isSome_none, Bool.false_eq_true, if_false]
  rcases fromStr_fresh (st := w.statics) (linv_empty hw hd) rf t hv with ⟨hp1, he, hs⟩ | ⟨hp1, r, he, g⟩
  · rw [he]; right; exact ⟨rfl, hd⟩
  · rw [he]; left; exact ⟨rfl, text_put_self g⟩

/-- `clone`: the copy reads the source's text -/
theorem clone (rf : Refuse) (w : World) (d s : Nat) (t : Bytes) (hw : Wf w) (hd : w.get d = none)
    (ht : w.text s = some t) :
    (step rf w (.clone d s)).2 = .ok .unit ∧ (step rf w (.clone d s)).1.text d = some t ∧
    (step rf w (.clone d s)).1.text s = some t := by
  obtain ⟨r, hg, g⟩ := good_of_text hw ht
  have hne : s ≠ d := by intro e; subst e; rw [hd] at hg; cases hg
  have hpost := step_post rf hw (.clone d s) trivial
  have hfr := hpost.2.2 s hne
  refine ⟨?_, ?_, by rw [hfr.2]; exact ht⟩
  · simp only [step, hd, hg, Option.isSome_none, Bool.false_eq_true, if_false]
    cases r <;> simp [shallowClone, Heap.retain]
    rename_i a l
    obtain ⟨b, hb, _⟩ := g.ok
    simp [hb]
  · -- the two handles have the same two words and the source's block keeps its bytes
    have hgd : (step rf w (.clone d s)).1.get d = some r := by
      simp only [step, hd, hg, Option.isSome_none, Bool.false_eq_true, if_false]
      cases r with
      | inl raw => simp only [shallowClone]; exact World.get_put_self ..
      | stat sid l => simp only [shallowClone]; exact World.get_put_self ..
      | heap a l =>
        obtain ⟨b, hb, _⟩ := g.ok
        simp only [shallowClone, Heap.retain, hb]; exact World.get_put_self ..
    have hgs : (step rf w (.clone d s)).1.get s = some r := by rw [hfr.1]; exact hg
    have h2 := hfr.2
    rw [ht] at h2
    unfold World.text at h2 ⊢
    rw [hgs] at h2; rw [hgd]; exact h2

/-- `extend` from strs, `write!`, `+=`: every item consumed before a panic is appended, in order;
a refused allocation stops between items (C05) -/
theorem extend_strs (rf : Refuse) (w : World) (h : Nat) (t : Bytes) (items : List (Option Bytes)) (hw : Wf w)
    (ht : w.text h = some t) (hv : ∀ s, some s ∈ items → Valid s) :
    ((step rf w (.extendStrs h items)).2 = (if panics items then .panicCb else .ok .unit) ∧
      (step rf w (.extendStrs h items)).1.text h = some (t ++ (consumed items).flatten)) ∨
    ((step rf w (.extendStrs h items)).2 = .panicAlloc ∧
      ∃ k, k < (consumed items).length ∧
        (step rf w (.extendStrs h items)).1.text h = some (t ++ ((consumed items).take k).flatten)) :=
  extendStrs_refines hw ht items hv

/-- `extend` from chars with **any** size hint (the hint reservation may be refused and is then
ignored): old text plus the items consumed, in order -/
theorem extend_chars (rf : Refuse) (w : World) (h hint : Nat) (t : Bytes) (items : List (Option Bytes)) (hw : Wf w)
    (ht : w.text h = some t) (hv : ∀ s, some s ∈ items → Valid s) :
    ((step rf w (.extendChars h hint items)).2 = (if panics items then .panicCb else .ok .unit) ∧
      (step rf w (.extendChars h hint items)).1.text h = some (t ++ (consumed items).flatten)) ∨
    ((step rf w (.extendChars h hint items)).2 = .panicAlloc ∧
      ∃ k, k < (consumed items).length ∧
        (step rf w (.extendChars h hint items)).1.text h = some (t ++ ((consumed items).take k).flatten)) :=
  extendChars_refines hw ht hint items hv

/-- `collect` from strs -/
theorem collect_strs (rf : Refuse) (w : World) (d : Nat) (items : List (Option Bytes)) (hw : Wf w)
    (hd : w.get d = none) (hv : ∀ s, some s ∈ items → Valid s) :
    ((step rf w (.collectStrs d items)).2 = .ok .unit ∧
      (step rf w (.collectStrs d items)).1.text d = some (consumed items).flatten ∧ panics items = false) ∨
    ((step rf w (.collectStrs d items)).2 ≠ .ok .unit ∧ (step rf w (.collectStrs d items)).1.get d = none) :=
  collectStrs_refines hw hd items hv

/-- the scan of `retain` used above *is* `String::retain` on the characters of the text -/
theorem retain_scan_is_string_retain (t : Bytes) (hv : Valid t) (answers : List (Option Bool)) :
    retainScan t.length t answers [] = Spec.retain t answers := retain_is_string_retain t hv answers

/-- **the refinement theorem**: every finite history of public calls, on any number of handles, from
the empty world over any static texts, under every allocator, is a run of the `String`-level
specification `Spec.Run` (LSProofs/Refine.lean: `Spec.Target` says per operation what `String`
allows — the new text of the target, the value returned, panics exactly where `String` panics,
failure only where an allocation may be refused and then nothing changes — and `Spec.Step` adds
that every other handle reads what it read); the reached world is well-formed and no alarm of the
model (use after free, double free, out-of-bounds access, count underflow) is raised on the way -/
theorem histories_refine_string (rf : Refuse) (st : List Bytes) (hst : ∀ t ∈ st, Valid t ∧ t.length ≤ STATIC_MAX_LEN)
    (ops : List Op) (hv : ∀ op ∈ ops, op.ArgsValid) :
    Spec.Run st ({ statics := st } : World).text ops (run rf { statics := st } ops).text (outs rf { statics := st } ops) ∧
    ∀ u, Out.ub u ∉ outs rf { statics := st } ops :=
  let h := run_refines rf ops { statics := st } (wf_init st hst) hv
  ⟨h.1, h.2.2⟩

/-- one call, from any well-formed world -/
theorem call_refines_string (rf : Refuse) (w : World) (hw : Wf w) (op : Op) (hv : op.ArgsValid) :
    Spec.Step w.statics w.text op (step rf w op).1.text (step rf w op).2 :=
  (step_refines rf hw op hv).1

-- non-vacuity of the specification: it pins the successful `push_str` and the panicking `truncate`
example (T : Texts) (v : Option Bytes) (h : T 3 = some [0x61]) (hs : Spec.Target [] T (.pushStr 3 [0x62] false) v (.ok .unit)) :
    v = some [0x61, 0x62] := by
  simp only [Spec.Target, Spec.onLive, h] at hs
  rcases hs with ⟨hv, _⟩ | ⟨_, ho⟩
  · exact hv
  · simp [failOut] at ho
example (T : Texts) (v : Option Bytes) (out : Out) (h : T 0 = some [0xC3, 0xA9]) (hs : Spec.Target [] T (.truncate 0 1 true) v out) :
    v = some [0xC3, 0xA9] ∧ out = .panicIdx := by
  simp only [Spec.Target, Spec.onLive, h] at hs
  have : Spec.truncate [0xC3, 0xA9] 1 = .panic := by rfl
  rw [this] at hs; exact hs

end LS.C01
