import LSProofs.TextSpec
import LSProofs.Props.C03
/-!
# C05 — allocation failure is reported, not half-applied

Every theorem of the development is universally quantified over the allocator oracle
`rf : request index → byte size → refused?`, i.e. over every fault sequence (each request in turn,
pairs, any subset, any byte limit). What a refusal does:
* the `try_` form returns `Err` and the plain form panics with that error (`failOut plain`);
* `SameAs w w' h`: the target is bit-identical, reads the same text, and **no block changed**
  (`heap.slots` equal: same counts, same capacities, same bytes, nothing freed, nothing leaked);
* the world is still `Wf` (C03), so counts agree with handles and everything is released normally
  by the rest of the history; every other handle is untouched (C02).
-/
namespace LS.C05
open LS

theorem failure_form (plain : Bool) : failOut plain = (if plain then Out.panicAlloc else Out.err) := rfl

/-- a refused allocation leaves every block as it was -/
theorem refused_alloc_heap (rf : Refuse) (hp : Heap) (cap : Nat) (init : Bytes)
    (h : rf hp.reqs (HEADER + cap) = true) :
    (hp.allocate rf cap init).1 = none ∧ (hp.allocate rf cap init).2.slots = hp.slots ∧
    (hp.allocate rf cap init).2.reqs = hp.reqs + 1 := by
  simp [Heap.allocate, h]

/-- the mutators: whenever the outcome is the failure outcome, nothing was applied -/
theorem push_str_atomic (rf : Refuse) (w : World) (h : Nat) (t s : Bytes) (plain : Bool) (hw : Wf w)
    (ht : w.text h = some t) (hs : Valid s) :
    (step rf w (.pushStr h s plain)).2 = .ok .unit ∨
    ((step rf w (.pushStr h s plain)).2 = failOut plain ∧ SameAs w (step rf w (.pushStr h s plain)).1 h) := by
  rcases pushStr_refines (rf := rf) hw ht s hs plain with ⟨a, _⟩ | b
  · exact Or.inl a
  · exact Or.inr b

theorem reserve_atomic (rf : Refuse) (w : World) (h : Nat) (t : Bytes) (n : Nat) (plain : Bool) (hw : Wf w)
    (ht : w.text h = some t) :
    (step rf w (.reserve h n plain)).2 = .ok .unit ∨
    ((step rf w (.reserve h n plain)).2 = failOut plain ∧ SameAs w (step rf w (.reserve h n plain)).1 h) := by
  rcases reserve_refines (rf := rf) hw ht n plain with ⟨a, _⟩ | b
  · exact Or.inl a
  · exact Or.inr b

theorem shrink_to_atomic (rf : Refuse) (w : World) (h : Nat) (t : Bytes) (m : Nat) (plain : Bool) (hw : Wf w)
    (ht : w.text h = some t) :
    (step rf w (.shrinkTo h m plain)).2 = .ok .unit ∨
    ((step rf w (.shrinkTo h m plain)).2 = failOut plain ∧ SameAs w (step rf w (.shrinkTo h m plain)).1 h) := by
  rcases shrinkTo_refines (rf := rf) hw ht m plain with ⟨a, _⟩ | b
  · exact Or.inl a
  · exact Or.inr b

theorem retain_atomic (rf : Refuse) (w : World) (h : Nat) (t : Bytes) (answers : List (Option Bool)) (plain : Bool)
    (hw : Wf w) (ht : w.text h = some t) :
    (step rf w (.retain h answers plain)).2 ≠ failOut plain ∨ 
    SameAs w (step rf w (.retain h answers plain)).1 h ∨ (step rf w (.retain h answers plain)).2 = .panicCb ∨
    (step rf w (.retain h answers plain)).2 = .ok .unit := by
  rcases retain_refines (rf := rf) hw ht answers plain with ⟨a, _⟩ | ⟨_, b⟩
  · by_cases hp : (retainScan t.length t answers []).2 = true
    · rw [hp] at a; exact Or.inr (Or.inr (Or.inl a))
    · have : (retainScan t.length t answers []).2 = false := by simpa using hp
      rw [this] at a; exact Or.inr (Or.inr (Or.inr a))
  · exact Or.inr (Or.inl b)

/-- after *any* step — failed or not, any fault pattern — the world is well-formed and every
other handle is untouched; so the strings remain fully usable and are released normally -/
theorem after_failure_usable (rf : Refuse) (w : World) (hw : Wf w) (op : Op) (hv : op.ArgsValid) :
    Wf (step rf w op).1 ∧ (∀ u, (step rf w op).2 ≠ .ub u) ∧
    ∀ h', h' ≠ op.target → (step rf w op).1.text h' = w.text h' :=
  let p := step_post rf hw op hv
  ⟨p.1, p.2.1, fun h' hne => (p.2.2 h' hne).2⟩

theorem finishTemp_not_ok (w : World) (d : Nat) (res : Res Unit) (hd : w.get d = none)
    (h : (finishTemp w d res).2 ≠ .ok .unit) : (finishTemp w d res).1.get d = none := by
  cases res with
  | ok v hp r => simp [finishTemp] at h
  | err hp r => simp only [finishTemp]; cases releaseRepr hp r <;> simp [World.get_put_self, hd]
  | pcb hp r => simp only [finishTemp]; cases releaseRepr hp r <;> simp [World.get_put_self, hd]
  | pidx hp r => simp only [finishTemp]; cases releaseRepr hp r <;> simp [World.get_put_self, hd]
  | ub u => simpa [finishTemp] using hd

/-- a temporary that fails midway (`collect`, `to_lean_string`) is released: the destination slot
stays empty and — by `Wf` and `C03.live_iff_owned` — its block is gone -/
theorem failed_collect_leaves_nothing (rf : Refuse) (w : World) (hw : Wf w) (d hint : Nat) (items : List (Option Bytes))
    (hv : ∀ s, some s ∈ items → Valid s) (hd : w.get d = none)
    (hfail : (step rf w (.collectChars d hint items)).2 ≠ .ok .unit) :
    (step rf w (.collectChars d hint items)).1.get d = none ∧ Wf (step rf w (.collectChars d hint items)).1 := by
  refine ⟨?_, (step_post rf hw (.collectChars d hint items) hv).1⟩
  simp only [step, hd, Option.isSome_none, Bool.false_eq_true, if_false] at hfail ⊢
  exact finishTemp_not_ok _ _ _ hd hfail

end LS.C05
