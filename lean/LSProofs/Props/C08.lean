import LSProofs.StepLemmas
import LSProofs.PrimLemmas
/-!
# C08 — cloning is O(1): no allocation, no copy, same bytes
-/
namespace LS.C08
open LS

/-- `make_shallow_clone`: the copy is bit-identical (same pointer, same length), the allocator is
not called, and nothing but the count of the shared block changes -/
theorem shallowClone_shares (hp hp' : Heap) (r r' : Handle) (h : shallowClone hp r = .ok (hp', r')) :
    r' = r ∧ hp'.reqs = hp.reqs ∧ hp'.log = hp.log ∧ hp'.slots.length = hp.slots.length := by
  cases r with
  | heap a l =>
    simp only [shallowClone] at h
    cases hr : hp.retain a with
    | error u => rw [hr] at h; cases h
    | ok hp1 =>
      rw [hr] at h
      simp only [Except.ok.injEq, Prod.mk.injEq] at h
      obtain ⟨rfl, rfl⟩ := h
      obtain ⟨b, _, rfl⟩ := retain_ok hr
      simp [Heap.setBlock]
  | inl raw =>
    simp only [shallowClone, Except.ok.injEq, Prod.mk.injEq] at h
    obtain ⟨rfl, rfl⟩ := h; exact ⟨rfl, rfl, rfl, rfl⟩
  | stat s l =>
    simp only [shallowClone, Except.ok.injEq, Prod.mk.injEq] at h
    obtain ⟨rfl, rfl⟩ := h; exact ⟨rfl, rfl, rfl, rfl⟩

/-- the only heap change is `rc + 1` on the source's block: data, capacity and size untouched,
every other block untouched — in particular no text is copied, whatever the length -/
theorem shallowClone_heap (hp hp' : Heap) (a l : Nat) (r' : Handle) (b : Block)
    (hb : hp.get? a = some b) (h : shallowClone hp (.heap a l) = .ok (hp', r')) :
    hp'.get? a = some { b with rc := b.rc + 1 } ∧ ∀ a', a' ≠ a → hp'.get? a' = hp.get? a' := by
  simp only [shallowClone] at h
  cases hr : hp.retain a with
  | error u => rw [hr] at h; cases h
  | ok hp1 =>
    rw [hr] at h
    simp only [Except.ok.injEq, Prod.mk.injEq] at h
    obtain ⟨rfl, rfl⟩ := h
    obtain ⟨b', hb', rfl⟩ := retain_ok hr
    rw [hb] at hb'; injection hb' with hb'; subst hb'
    exact ⟨get?_setBlock_same (get?_lt hb), fun a' hne => get?_setBlock_other hne⟩

/-- the copy reads the same text as the source -/
theorem clone_same_text (hp hp' : Heap) (st : List Bytes) (r r' : Handle)
    (h : shallowClone hp r = .ok (hp', r')) : textOf hp' st r' = textOf hp st r := by
  cases r with
  | inl raw => simp only [shallowClone, Except.ok.injEq, Prod.mk.injEq] at h; obtain ⟨rfl, rfl⟩ := h; rfl
  | stat s l => simp only [shallowClone, Except.ok.injEq, Prod.mk.injEq] at h; obtain ⟨rfl, rfl⟩ := h; rfl
  | heap a l =>
    cases hb : hp.get? a with
    | none => simp [shallowClone, Heap.retain, hb] at h
    | some b =>
      have ⟨hg, _⟩ := shallowClone_heap hp hp' a l r' b hb h
      have := (shallowClone_shares hp hp' _ r' h).1
      subst this
      simp [textOf, hg, hb]

/-- `clone` (also `From<&LeanString>` and `to_lean_string` on a `LeanString`, which the translated
`match_type!` arm maps to `clone`): the destination slot receives the source's two words -/
theorem step_clone (rf : Refuse) (w w' : World) (d s : Nat) (r : Handle)
    (hd : w.get d = none) (hs : w.get s = some r) (h : step rf w (.clone d s) = (w', .ok .unit)) :
    w'.pool = poolSet w.pool d (some r) ∧ w'.heap.reqs = w.heap.reqs ∧ w'.heap.log = w.heap.log := by
  simp only [step, hd, hs, Option.isSome_none, Bool.false_eq_true, if_false] at h
  split at h
  · rename_i hp r' hc
    have ⟨h1, h2, h3, _⟩ := shallowClone_shares _ _ _ _ hc
    simp only [Prod.mk.injEq] at h
    obtain ⟨rfl, _⟩ := h
    subst h1
    exact ⟨rfl, h2, h3⟩
  · simp at h

/-- releasing a handle never calls `alloc`/`realloc`: the request counter is unchanged -/
theorem releaseRepr_reqs (hp hp' : Heap) (r : Handle) (h : releaseRepr hp r = .ok hp') : hp'.reqs = hp.reqs := by
  cases r with
  | inl raw => simp only [releaseRepr, Except.ok.injEq] at h; subst h; rfl
  | stat s l => simp only [releaseRepr, Except.ok.injEq] at h; subst h; rfl
  | heap a l =>
    simp only [releaseRepr, Heap.release] at h
    split at h
    · split at h
      · cases h
      · split at h
        · split at h
          · simp only [Except.ok.injEq] at h; subst h; rfl
          · cases h
        · simp only [Except.ok.injEq] at h; subst h; rfl
    · cases h
    · cases h

/-- `clone_from`: the destination receives the source's two words (same pointer, same length) and
no allocator request is made, whatever the two lengths are; the old value is released -/
theorem step_cloneFrom (rf : Refuse) (w w' : World) (d s : Nat) (old r : Handle) (hds : d ≠ s)
    (hd : w.get d = some old) (hs : w.get s = some r) (h : step rf w (.cloneFrom d s) = (w', .ok .unit)) :
    w'.get d = some r ∧ w'.heap.reqs = w.heap.reqs := by
  simp only [step, hds, if_false, hd, hs] at h
  cases hc : shallowClone w.heap r with
  | error u => rw [hc] at h; simp at h
  | ok p =>
    obtain ⟨hp, r'⟩ := p
    rw [hc] at h
    have ⟨h1, h2, _, _⟩ := shallowClone_shares _ _ _ _ hc
    subst h1
    simp only [] at h
    cases hr : releaseRepr hp old with
    | error u => rw [hr] at h; simp at h
    | ok hp2 =>
      rw [hr] at h
      simp only [Prod.mk.injEq] at h
      obtain ⟨rfl, _⟩ := h
      exact ⟨World.get_put_self _ _ _ _, by rw [← h2]; exact releaseRepr_reqs _ _ _ hr⟩

theorem to_lean_string_is_clone : ("LeanString", "return Ok(s.clone())") ∈ Gen.matchTypeArms := by decide

theorem clone_bodies :
    ("clone", "LeanString(self.0.make_shallow_clone())") ∈ Gen.libGlue ∧
    ("clone_from", "self.0.replace_inner(source.0.make_shallow_clone());") ∈ Gen.libGlue := by decide +kernel

end LS.C08
