import LSProofs.HandleLemmas
/-!
# C16 — decoding constructors: the glue around std's decoders

The decoders are std's (`str::from_utf8`, `utf8_chunks`, `char::decode_utf16`); what the crate owns
is the loop around them. The translated bodies of the four constructors are pinned here, and the
model's transcription of them is related to the text they produce.
-/
namespace LS.C16
open LS

theorem glue_bodies :
    ("from_utf8", "let str = str::from_utf8(buf)?; Ok(LeanString::from(str))") ∈ Gen.libGlue ∧
    ("from_utf8_lossy", "let mut ret = LeanString::with_capacity(buf.len()); for chunk in buf.utf8_chunks() { ret.push_str(chunk.valid()); if !chunk.invalid().is_empty() { ret.push(char::REPLACEMENT_CHARACTER); } } ret") ∈ Gen.libGlue ∧
    ("from_utf16", "let mut ret = LeanString::with_capacity(buf.len()); for c in char::decode_utf16(buf.iter().copied()) { match c { Ok(c) => ret.push(c), Err(_) => return Err(FromUtf16Error), } } Ok(ret)") ∈ Gen.libGlue ∧
    ("from_utf16_lossy", "char::decode_utf16(buf.iter().copied()) .map(|c| c.unwrap_or(char::REPLACEMENT_CHARACTER)) .collect()") ∈ Gen.libGlue := by
  decide +kernel

theorem fromUtf8_valid (rf : Refuse) (hp : Heap) (b : Bytes) (h : validUtf8 b = true) :
    fromUtf8 rf hp b = .ok (fromStr rf hp b) := by simp [fromUtf8, h]

theorem fromUtf8_invalid (rf : Refuse) (hp : Heap) (b : Bytes) (h : validUtf8 b = false) :
    fromUtf8 rf hp b = .error () := by simp [fromUtf8, h]

theorem fromUtf8_text (rf : Refuse) (hp hp' : Heap) (st : List Bytes) (b : Bytes) (r : Handle)
    (hv : Valid b) (h : fromUtf8 rf hp b = .ok (some r, hp')) : textOf hp' st r = .ok b := by
  unfold fromUtf8 at h
  split at h
  · injection h with h; exact fromStr_text rf hp hp' st b r hv h
  · cases h

/-- the pushes `from_utf8_lossy` makes concatenate to `lossyText` (U+FFFD exactly once per
non-empty invalid part, never for an empty one) -/
theorem lossyPushes_concat (b : Bytes) :
    ((lossyPushes b).filterMap id).flatten = lossyText b := by
  unfold lossyPushes lossyText
  generalize utf8Chunks b = cs
  induction cs with
  | nil => rfl
  | cons c cs ih =>
    obtain ⟨v, i⟩ := c
    simp only [List.flatMap_cons, List.filterMap_append, List.flatten_append, ih]
    by_cases hi : i.isEmpty <;> simp [hi]

/-- no item of the push sequence is a panic marker: the loop has no callback -/
theorem lossyPushes_no_panic (b : Bytes) : ∀ x ∈ lossyPushes b, x ≠ none := by
  unfold lossyPushes
  intro x hx
  simp only [List.mem_flatMap] at hx
  obtain ⟨⟨v, i⟩, _, hx⟩ := hx
  by_cases hi : i.isEmpty <;> simp [hi] at hx <;> (rcases hx with rfl | rfl <;> simp) <;> simp [hx]

-- examples over the interesting classes: truncated 3-byte lead, surrogate, overlong, 0xFF
example : lossyText [0x61, 0xE2, 0x82, 0x62] = [0x61, 0xEF, 0xBF, 0xBD, 0x62] := by decide
example : lossyText [0xED, 0xA0, 0x80] = [0xEF, 0xBF, 0xBD, 0xEF, 0xBF, 0xBD, 0xEF, 0xBF, 0xBD] := by decide
example : lossyText [0xC0, 0xAF, 0xFF] = [0xEF, 0xBF, 0xBD, 0xEF, 0xBF, 0xBD, 0xEF, 0xBF, 0xBD] := by decide
example : validUtf8 [0xF0, 0x9D, 0x84, 0x9E] = true ∧ validUtf8 [0xF4, 0x90, 0x80, 0x80] = false := by decide

end LS.C16
