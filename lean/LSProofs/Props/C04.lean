import LSProofs.ConcInv
import LSProofs.ConcLendInv
import LSProofs.ConcRAInv
import LSProofs.Tie
/-!
# C04 — handles are independent and memory-safe across threads, under every schedule

**Stage 1 (proved): sequentially consistent atomics.** `LS.Conc` (LSModel/Conc.lean) is the
reference-count protocol at the granularity of the atomic operations and buffer accesses of
`src/repr.rs`. For **any number of threads, any programs, any schedule of any length**
(`run_safe` quantifies over the schedule list; programs are the choice of actions): every
reachable configuration satisfies `CInv`, hence `Safe`: every buffer a thread reads, writes,
reallocates or frees is live; a thread that writes / reallocates in place, or frees, is alone on
that buffer (no other thread owns a handle on it or is inside an access to it); the thread that
frees is unique, so a buffer is released exactly once, after the last access.
The atomic orderings of the source are pinned by `orderings`.

**Not proved (PARTIAL):** visibility orders weaker than SC (release/acquire views), and borrowed
`&LeanString` shared between threads (the model has owned handles only); each thread's *text*
results are those of the sequential model (C01/C02) because other threads' steps never touch a
block this thread writes (the `unique` clause of `Safe`).
-/
namespace LS.C04
open LS LS.Conc

/-- the orderings the protocol model assumes are the ones in the source: Relaxed increment,
Release decrement followed by an Acquire fence before `dealloc`, Acquire load for `is_unique`;
and no other atomic site exists (the pre-repair decrement-then-increment probes are gone) -/
theorem orderings : Gen.atomicSites =
    [("make_shallow_clone", "fetch_add", "Relaxed"), ("replace_inner", "fetch_sub", "Release"),
     ("replace_inner", "fence", "Acquire"), ("is_unique", "load", "Acquire")] := rfl

/-- the order of the key calls in the heap branch of every copy-out path is the order of the
protocol model's micro-steps: uniqueness test first; the shared buffer is read and copied
(`as_str`, allocation) **before** the old reference is released (`replace_inner`); the release is
`fetch_sub`, then `fence`, then `dealloc` -/
theorem call_order : Gen.callOrder =
    [("reserve", ["is_unique", "heap.realloc", "as_str", "HeapBuffer::with_additional", "replace_inner"]),
     ("ensure_modifiable", ["is_unique", "as_str", "HeapBuffer::new", "replace_inner"]),
     ("shrink_to", ["as_str", "is_unique", "heap.realloc", "as_str", "HeapBuffer::with_capacity_from", "replace_inner"]),
     ("replace_inner", ["fetch_sub", "fence", "dealloc"]),
     ("make_shallow_clone", ["fetch_add", "replace_inner"])] := rfl

/-- initial configurations: one live buffer with `n` handles held by `n` threads -/
def initCfg (n : Nat) : Cfg := { blocks := [{ live := true, rc := n }], threads := List.replicate n { owned := [0] } }

theorem cnt_replicate (n a : Nat) (t : Thread) : cnt (List.replicate n t) a = n * t.owned.count a := by
  unfold cnt
  induction n with
  | zero => simp
  | succ k ih => simp only [List.replicate_succ, List.map_cons, List.sum_cons, ih]; rw [Nat.succ_mul]; omega

theorem init_inv (n : Nat) : CInv (initCfg n) := by
  have hget : ∀ (i : Nat) (t : Thread), (initCfg n).threads[i]? = some t → t = { owned := [0] } := by
    intro i t h
    simp only [initCfg] at h
    rw [List.getElem?_replicate] at h
    split at h
    · injection h with h; exact h.symm
    · cases h
  refine ⟨?_, ?_, ?_, ?_, ?_, ?_⟩
  · intro a b hb _
    simp only [initCfg] at hb ⊢
    cases a with
    | zero => simp at hb; subst hb; rw [cnt_replicate]; simp
    | succ a => simp at hb
  · intro i t ht a ha
    rw [hget i t ht] at ha; simp at ha; subst ha; simp [initCfg, liveOf]
  · intro i t a ht hp
    rw [hget i t ht] at hp; simp [Phase.needsHandle] at hp
  · intro i t a ht hp; rw [hget i t ht] at hp; cases hp
  · intro i t a ht hp; rw [hget i t ht] at hp; cases hp
  · intro i t a ht; rw [hget i t ht]; simp

/-- **memory safety under every schedule, for every number of threads** -/
theorem safe_under_every_schedule (n : Nat) (sched : List (Nat × Act)) (c' : Cfg)
    (h : Conc.run false (initCfg n) sched = some c') : Safe c' :=
  run_safe sched _ c' (init_inv n) h

/-- the count is always the number of handles, across threads -/
theorem count_is_handles (n : Nat) (sched : List (Nat × Act)) (c' : Cfg)
    (h : Conc.run false (initCfg n) sched = some c') (a : Nat) (b : Blk) (hb : c'.blocks[a]? = some b) (hl : b.live = true) :
    b.rc = cnt c'.threads a :=
  (run_inv sched _ c' (init_inv n) h).count a b hb hl

/-- a buffer is freed by exactly one thread: two threads are never both about to free it -/
theorem freed_once (n : Nat) (sched : List (Nat × Act)) (c' : Cfg)
    (h : Conc.run false (initCfg n) sched = some c') (i j : Nat) (t u : Thread) (a : Nat)
    (hi : c'.threads[i]? = some t) (hj : c'.threads[j]? = some u) (hne : j ≠ i)
    (h1 : t.phase = .dying a) : u.phase ≠ .dying a :=
  ((run_inv sched _ c' (init_inv n) h).dying i t a hi h1).2.2 j u hne hj

/-- the pre-repair make-unique (decrement first, read afterwards) is **unsafe**: a four-step
schedule of two threads reaches a configuration in which thread 0 is about to read a released
buffer (finding F1b, reproduced on the real crate under ASan) -/
theorem legacy_make_unique_unsafe :
    ∃ c', Conc.run true (initCfg 2) [(0, .legacyProbe 0), (1, .drop 0), (1, .free)] = some c' ∧ ¬ Safe c' := by
  refine ⟨_, rfl, ?_⟩
  intro hs
  have := hs.1 0 { owned := [], phase := .legacyCopying 0 } (by decide) 0 rfl
  revert this; decide

/-- the same three steps are not even available to the repaired protocol -/
theorem repaired_has_no_such_schedule : Conc.run false (initCfg 2) [(0, .legacyProbe 0), (1, .drop 0), (1, .free)] = none := by
  decide

-- non-vacuity: a schedule in which one thread copies out while the other drops, then frees
example : (Conc.run false (initCfg 2) [(0, .probe 0), (1, .drop 0), (0, .copyRead), (0, .copyFinish), (0, .free)]).isSome = true := by decide

end LS.C04

/-!
## Extension: handles lent by reference (`&LeanString` shared between threads)

`LS.ConcL` adds to the protocol: `lend a` (the owner freezes its handle: Rust forbids `&mut` use
while shared borrows exist), `cloneBorrowed a` and `readBorrowedStart/End a` by *any other thread*
while the handle is lent, and `reclaim` (only when no borrowed read is in progress). The same
safety statement holds for every schedule: a buffer read through a borrowed reference is live (its
lender still owns it), and nobody writes, reallocates or frees it meanwhile.
-/
namespace LS.C04L
open LS LS.ConcL

def initCfg (n : Nat) : Cfg := { blocks := [{ live := true, rc := n }], threads := List.replicate n { owned := [0] } }

theorem cnt_replicate (n a : Nat) (t : Thread) : cnt (List.replicate n t) a = n * t.owned.count a := by
  unfold cnt
  induction n with
  | zero => simp
  | succ k ih => simp only [List.replicate_succ, List.map_cons, List.sum_cons, ih]; rw [Nat.succ_mul]; omega

theorem init_inv (n : Nat) : CInv (initCfg n) := by
  have hget : ∀ (i : Nat) (t : Thread), (initCfg n).threads[i]? = some t → t = { owned := [0] } := by
    intro i t h
    simp only [initCfg] at h
    rw [List.getElem?_replicate] at h
    split at h
    · injection h with h; exact h.symm
    · cases h
  refine ⟨?_, ?_, ?_, ?_, ?_, ?_, ?_, ?_⟩
  · intro a b hb _
    simp only [initCfg] at hb ⊢
    cases a with
    | zero => simp at hb; subst hb; rw [cnt_replicate]; simp
    | succ a => simp at hb
  · intro i t ht a ha
    rw [hget i t ht] at ha; simp at ha; subst ha; simp [initCfg, liveOf]
  · intro i t a ht hp
    rw [hget i t ht] at hp; simp [Phase.needsHandle] at hp
  · intro i t a ht hp; rw [hget i t ht] at hp; cases hp
  · intro i t a ht hp; rw [hget i t ht] at hp; cases hp
  · intro i t a ht; rw [hget i t ht]; simp
  · intro i t a ht hp; rw [hget i t ht] at hp; cases hp
  · intro i t a ht hp; rw [hget i t ht] at hp; cases hp

/-- memory safety under every schedule, any number of threads, **with borrowed references** -/
theorem safe_with_borrows (n : Nat) (sched : List (Nat × Act)) (c' : Cfg)
    (h : ConcL.run false (initCfg n) sched = some c') : Safe c' :=
  run_safe sched _ c' (init_inv n) h

/-- a read through a borrowed reference always has a lender that still owns the buffer -/
theorem borrowed_read_has_owner (n : Nat) (sched : List (Nat × Act)) (c' : Cfg)
    (h : ConcL.run false (initCfg n) sched = some c') (j : Nat) (u : Thread) (a : Nat)
    (hu : c'.threads[j]? = some u) (hp : u.phase = .readingBorrowed a) :
    ∃ (k : Nat) (v : Thread), c'.threads[k]? = some v ∧ v.phase = .lending a ∧ a ∈ v.owned := by
  have inv := run_inv sched _ c' (init_inv n) h
  obtain ⟨k, v, hv, hpv⟩ := inv.borrowed_lender j u a hu hp
  exact ⟨k, v, hv, hpv, inv.lending_owned k v a hv hpv⟩

-- non-vacuity: thread 0 lends; thread 1 reads through the reference and clones it, then mutates
-- its own clone (copy-out), while thread 2 drops its handle; thread 0 reclaims afterwards
example : (ConcL.run false (initCfg 3) [(0, .lend 0), (1, .readBorrowedStart 0), (2, .drop 0), (1, .readBorrowedEnd),
    (1, .cloneBorrowed 0), (1, .probe 0), (1, .copyRead), (0, .reclaim), (1, .copyFinish), (0, .drop 0)]).isSome = true := by decide
-- the owner cannot reclaim (hence cannot drop or mutate) while a borrowed read is in progress
example : ConcL.run false (initCfg 2) [(0, .lend 0), (1, .readBorrowedStart 0), (0, .reclaim)] = none := by decide

end LS.C04L

/-! ## Second stage: release/acquire instead of sequential consistency

`LSModel/ConcRA.lean` runs the same micro-steps on a view machine for the release/acquire fragment:
views are sets of events that happen before, the count is a modification order of messages,
read-modify-writes continue release sequences, the uniqueness load may read any message coherence
allows (stale reads included), handing a handle to another thread synchronises. Accesses are
checked like a race detector does: a shared access (reading the text, any atomic operation on the
header) must happen after every exclusive access of the block (initialisation, in-place write or
`realloc`, `dealloc`), an exclusive access after every earlier access, all on a live block.
The orderings are those translated from the source on this run (`Gen.atomicOrdCodes`). -/
namespace LS.C04RA
open LS.ConcRA

/-- the orderings in the source, as numbers (operation, ordering) -/
theorem codes : Gen.atomicOrdCodes = [(0, 0), (1, 2), (2, 1), (3, 1)] := rfl

/-- the count is only ever touched by the four operations the model has: the increment of
`make_shallow_clone`, the decrement and fence of `replace_inner`, the load of `is_unique` — no
plain `store`, `swap`, `compare_exchange` or further load/read-modify-write anywhere in
`src/repr.rs` / `src/repr/heap_buffer.rs` (code 4 = any other atomic operation) -/
theorem count_touched_only_by_modelled_operations :
    Gen.atomicOrdCodes.all (fun p => p.1 ≤ 3) = true := by decide

/-- what the proof needs from them: `fetch_sub` is a release, an acquire fence precedes `dealloc`,
the uniqueness load is an acquire (`fetch_add` may be relaxed) -/
theorem src_orderings : srcOrds.subRel = true ∧ srcOrds.fenceAcq = true ∧ srcOrds.loadAcq = true := by decide

/-- **C04 under release/acquire**: from any initial distribution of handles on one buffer, along every
schedule of every number of threads — clones, drops, reads, copy-on-write mutations, handles sent
to other threads, stale reads of the count — no access races with a write, a reallocation or the
release of its buffer, and no access touches a released buffer -/
theorem race_free (ks : List Nat) (sched : List (Nat × Act)) (c' : Cfg)
    (h : ConcRA.run srcOrds (ConcRA.initCfg ks) sched = some c') : c'.bad = false :=
  (run_inv srcOrds src_orderings.1 src_orderings.2.1 src_orderings.2.2 sched _ _ (init_inv ks) h).nobad

/-- the same for any orderings at least that strong -/
theorem race_free_of (o : Ords) (hs : o.subRel = true) (hf : o.fenceAcq = true) (hl : o.loadAcq = true)
    (ks : List Nat) (sched : List (Nat × Act)) (c' : Cfg) (h : ConcRA.run o (ConcRA.initCfg ks) sched = some c') :
    c'.bad = false ∧ ConcRA.Inv c' :=
  ⟨(run_inv o hs hf hl sched _ _ (init_inv ks) h).nobad, run_inv o hs hf hl sched _ _ (init_inv ks) h⟩

/-- a thread that took the in-place path read the *newest* count, it is 1, and every access ever
made to the buffer happens before its write -/
theorem unique_sees_all (ks : List Nat) (sched : List (Nat × Act)) (c' : Cfg)
    (h : ConcRA.run srcOrds (ConcRA.initCfg ks) sched = some c') (i : Nat) (t : Thread) (a : Nat) (b : Blk)
    (ht : c'.threads[i]? = some t) (hp : t.phase = .unique a) (hb : c'.blocks[a]? = some b) :
    b.top.val = 1 ∧ ∀ e ∈ b.evs, e ∈ t.view :=
  (race_free_of srcOrds src_orderings.1 src_orderings.2.1 src_orderings.2.2 ks sched c' h).2.uniq i t a ht hp b hb

def strong : Ords := { addRel := false, addAcq := false, subRel := true, subAcq := false, fenceAcq := true, loadAcq := true }
theorem srcOrds_eq : srcOrds = strong := by decide

/-- each of the three orderings is necessary: weaken one and a three-to-five step schedule races -/
theorem release_needed :
    (ConcRA.run { strong with subRel := false } (ConcRA.initCfg [1, 1])
      [(1, .readStart 0), (1, .readEnd), (1, .drop 0), (0, .probe 0 0), (0, .write)]).map (·.bad) = some true := by decide
theorem acquire_load_needed :
    (ConcRA.run { strong with loadAcq := false } (ConcRA.initCfg [1, 1])
      [(1, .readStart 0), (1, .readEnd), (1, .drop 0), (0, .probe 0 0), (0, .write)]).map (·.bad) = some true := by decide
theorem acquire_fence_needed :
    (ConcRA.run { strong with fenceAcq := false } (ConcRA.initCfg [1, 1])
      [(1, .readStart 0), (1, .readEnd), (1, .drop 0), (0, .drop 0), (0, .free)]).map (·.bad) = some true := by decide

-- non-vacuity: the same schedules run to the end under the source's orderings, without a race;
-- a stale read of the count (index 1 = the overwritten message) is enabled and leads to a copy
example : (ConcRA.run srcOrds (ConcRA.initCfg [1, 1])
    [(1, .readStart 0), (1, .readEnd), (1, .drop 0), (0, .probe 0 0), (0, .write), (0, .drop 0), (0, .free)]).map (·.bad) = some false := by decide
example : (ConcRA.run srcOrds (ConcRA.initCfg [1, 1])
    [(1, .drop 0), (0, .probe 0 1), (0, .copyRead), (0, .copyFinish), (0, .free)]).map (fun c => (c.bad, c.blocks.map (·.live))) = some (false, [false, true]) := by decide
-- coherence: after its own clone a thread cannot read the count it overwrote
example : (ConcRA.run srcOrds (ConcRA.initCfg [1]) [(0, .clone 0), (0, .probe 0 1)]).isSome = false := by decide
-- a handle sent to another thread: the receiver's drop publishes, the sender's in-place write is ordered
example : (ConcRA.run srcOrds (ConcRA.initCfg [1, 0])
    [(0, .clone 0), (0, .send 0 1), (1, .readStart 0), (1, .readEnd), (1, .drop 0), (0, .probe 0 0), (0, .write)]).map (·.bad) = some false := by decide

end LS.C04RA
