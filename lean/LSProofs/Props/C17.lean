import LSProofs.Tie
/-!
# C17 — equality, ordering, hashing and formatting depend on the text alone

Over the *translated* impl bodies: every required impl exists, is in the delegation language, and is
the delegation its trait calls for; the semantics of that language has no input other than the
operands' texts, so two handles with the same text — in any two worlds, any storage kind, any
capacity, any stale tail — give the same result, and that result is std's `str` result on the text
(hence agreement with `str`, `String`, `Cow<str>` in both argument orders, and `Borrow<str>`
soundness: `hash (borrow k) = hash k`).
-/
namespace LS.C17
open LS

/-- every impl is present and is the right delegation to `str` through `as_str()` -/
theorem impls_delegate :
    ∀ m ∈ requiredImpls, (lookupImpl m).bind interp = some (expectedKind m) := by decide

/-- no translated body is outside the language (e.g. a pointer-equality fast path) -/
theorem all_bodies_in_language : Gen.traitBodies.all (fun r => (interp r.2.2.2).isSome) = true := by decide

/-- storage independence: the result is a function of the texts only, and is std's result -/
theorem depends_on_text_only (ops : StrOps) (d : Deleg) (w₁ w₂ : World) (a₁ b₁ a₂ b₂ : Handle) (st : Nat)
    (ta tb : Bytes)
    (ha₁ : textOf w₁.heap w₁.statics a₁ = .ok ta) (ha₂ : textOf w₂.heap w₂.statics a₂ = .ok ta)
    (hb₁ : textOf w₁.heap w₁.statics b₁ = .ok tb) (hb₂ : textOf w₂.heap w₂.statics b₂ = .ok tb) :
    ∀ r₁ r₂,
      (textOf w₁.heap w₁.statics a₁).toOption.bind (fun x => (textOf w₁.heap w₁.statics b₁).toOption.map fun y => d.eval ops x y st) = some r₁ →
      (textOf w₂.heap w₂.statics a₂).toOption.bind (fun x => (textOf w₂.heap w₂.statics b₂).toOption.map fun y => d.eval ops x y st) = some r₂ →
      r₁ = r₂ ∧ r₁ = d.eval ops ta tb st := by
  intro r₁ r₂ h₁ h₂
  rw [ha₁, hb₁] at h₁; rw [ha₂, hb₂] at h₂
  simp [Except.toOption] at h₁ h₂
  subst h₁; subst h₂; exact ⟨rfl, rfl⟩

/-- `Borrow<str>`: hashing / comparing the borrowed form is hashing / comparing the key -/
theorem borrow_sound (ops : StrOps) (t u : Bytes) (st : Nat) :
    Deleg.strHash.eval ops t u st = .nat (ops.hash t st) ∧
    Deleg.strEq.eval ops t u st = .bool (ops.eq t u) ∧
    Deleg.strCmp.eval ops t u st = .ord (ops.cmp t u) ∧
    Deleg.asStr.eval ops t u st = .bytes t := ⟨rfl, rfl, rfl, rfl⟩

/-- the text a handle reads stops at its own length: stale bytes behind it are invisible -/
theorem text_ignores_stale_tail (hp : Heap) (st : List Bytes) (a l : Nat) (b : Block) (tail₁ tail₂ : Bytes)
    (pre : Bytes) (hl : pre.length = l) (hc₁ : l ≤ b.cap)
    (h₁ : hp.get? a = some { b with data := pre ++ tail₁ }) :
    textOf hp st (.heap a l) = .ok pre ∧
    ∀ hp₂ : Heap, hp₂.get? a = some { b with data := pre ++ tail₂ } → textOf hp₂ st (.heap a l) = .ok pre := by
  subst hl
  constructor
  · simp [textOf, h₁, hc₁]
  · intro hp₂ h₂; simp [textOf, h₂, hc₁]

end LS.C17
