import LSProofs.Refine
/-!
# C14 at the level of the public call (inside the refinement theorem)

`Op.fromInt d ty n` is `n.try_to_lean_string()` for an integer type `ty`; `Spec.Target` says the new
handle reads exactly `decimal n` — what `Display` prints — or the single allocation was refused.
-/
namespace LS.C14
open LS

/-- **for every integer type, every value of it, every well-formed world and every allocator**: the
call yields a handle reading `decimal n`, or fails with `ReserveError` and creates nothing; every
other handle is untouched; the world stays well-formed -/
theorem int_call_refines (rf : Refuse) {w : World} (hw : Wf w) (d : Nat) (ty : IntTy) (n : Int)
    (hd : w.get d = none) (h1 : ty.lo ≤ n) (h2 : n ≤ ty.hi) :
    let r := step rf w (.fromInt d ty n)
    ((r.1.text d = some (decimal n) ∧ r.2 = .ok .unit) ∨ (r.1.text d = none ∧ r.2 = .err)) ∧
    (∀ h', h' ≠ d → r.1.text h' = w.text h') ∧ Wf r.1 := by
  intro r
  obtain ⟨⟨ht, hf⟩, hwf, _⟩ := step_refines rf hw (.fromInt d ty n) ⟨h1, h2⟩
  refine ⟨?_, hf, hwf⟩
  simp only [Spec.Target, Op.target, Spec.fresh, text_eq_none hd] at ht
  simpa using ht

-- non-vacuity: a concrete call
example : ((step (fun _ _ => false) {} (.fromInt 0 .i64 (-42))).1.text 0) = some [0x2D, 0x34, 0x32] := by decide

end LS.C14
