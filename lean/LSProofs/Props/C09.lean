import LSProofs.InlineLemmas
import LSProofs.Resource
/-!
# C09 — texts up to 16 bytes never touch the heap; longer ones allocate once, exactly
-/
namespace LS.C09
open LS

/-- (d) the representation lemma: for *every* valid text of at most 16 bytes the inline buffer is
16 bytes, decodes to the right length — in particular when all 16 bytes are text — and reads back -/
theorem inline_roundtrip (t : Bytes) (hv : Valid t) (h : t.length ≤ 16) :
    (inlNew t).length = 16 ∧ inlLen (inlNew t) = t.length ∧ (inlNew t).take (inlLen (inlNew t)) = t := by
  refine ⟨inlNew_length t h, inlLen_inlNew t hv h, ?_⟩
  rw [inlLen_inlNew t hv h]; exact take_inlNew t h

/-- (a) `from_str` of a short text: inline, heap untouched (no request, no event) -/
theorem fromStr_short (rf : Refuse) (hp : Heap) (t : Bytes) (h : t.length ≤ 16) :
    fromStr rf hp t = (some (.inl (inlNew t)), hp) := by
  have := Tie.maxInline_eq
  simp [fromStr, this, h]

/-- (c) `from_str` of a long text: exactly one request, of exactly `HEADER + len` bytes, and the
block's capacity is the length -/
theorem fromStr_long (rf : Refuse) (hp : Heap) (t : Bytes) (h : 16 < t.length) (hm : t.length ≤ MAX_LEN)
    (hr : rf hp.reqs (HEADER + t.length) = false) :
    fromStr rf hp t = (some (.heap hp.slots.length t.length),
      { slots := hp.slots ++ [.live { rc := 1, cap := t.length, size := HEADER + t.length, data := t }],
        reqs := hp.reqs + 1, log := .alloc (HEADER + t.length) :: hp.log }) := by
  have h16 := Tie.maxInline_eq
  have hML := Tie.maxLen_eq
  have hH := Tie.header_eq
  have hcap : capOk t.length = true := by simp [capOk, hm]; omega
  have : ¬ t.length ≤ 16 := by omega
  simp [fromStr, h16, heapNew, hcap, Heap.allocate, hr, this, padTo]

theorem withCapacity_small (rf : Refuse) (hp : Heap) (n : Nat) (h : n ≤ 16) :
    withCapacity rf hp n = (some (.inl inlEmpty), hp) := by
  have := Tie.maxInline_eq
  simp [withCapacity, this, h]

/-- the public constructors on a free slot `d`, short text: heap bit-identical, handle inline -/
theorem step_fromStr_short (rf : Refuse) (w : World) (d : Nat) (t : Bytes) (plain : Bool)
    (hd : w.get d = none) (h : t.length ≤ 16) :
    step rf w (.fromStr d t plain) = (w.put w.heap d (some (.inl (inlNew t))), .ok .unit) := by
  simp [step, hd, fromStr_short rf w.heap t h]

theorem step_fromChar (rf : Refuse) (w : World) (d : Nat) (c : Bytes) (hd : w.get d = none) :
    step rf w (.fromChar d c) = (w.put w.heap d (some (.inl (inlNew c))), .ok .unit) := by
  simp [step, hd]

/-- (b) appending to an inline string so that it stays within 16 bytes: the heap is bit-identical
(no request, no event) and the result is inline -/
theorem push_inline_stays_inline (rf : Refuse) (st : List Bytes) (hp hp' : Heap) (raw : Bytes) (s : Bytes) (r' : Handle)
    (hfit : inlLen raw + s.length ≤ 16) (h : pushStr rf st hp (.inl raw) s = .ok () hp' r') :
    hp' = hp ∧ ∃ raw', r' = .inl raw' := pushStr_inline_no_heap rf st hp hp' raw s r' () hfit h

/-- an integer whose text has at most 16 characters is formatted straight into the inline bytes:
no allocator request, no block touched, the handle is inline -/
theorem int_inline_no_alloc (rf : Refuse) (hp hp' : Heap) (rows : List (Int × Int × Nat)) (wide : Bool) (n : Int)
    (digits : Nat) (r : Handle) (hl : lookupRows rows n = some digits) (h16 : digits ≤ 16)
    (h : intoReprCore rf hp rows wide n = some (some r, hp')) : hp' = hp ∧ ∃ raw, r = .inl raw := by
  unfold intoReprCore at h
  rw [hl] at h
  simp only [withCapacity_small rf hp digits h16] at h
  split at h
  · cases h
  · cases hw : writeThenSetLen hp (.inl inlEmpty) (digits - (writer wide (decide (n < 0)) n.natAbs).length)
        (writer wide (decide (n < 0)) n.natAbs) digits with
    | ok v hp2 r2 =>
      rw [hw] at h
      simp only [Option.some.injEq, Prod.mk.injEq] at h
      obtain ⟨h1, h2⟩ := h
      subst h1; subst h2
      exact writeThenSetLen_inl _ _ _ _ _ _ _ hw
    | err hp2 r2 => rw [hw] at h; cases h
    | pidx hp2 r2 => rw [hw] at h; cases h
    | pcb hp2 r2 => rw [hw] at h; cases h
    | ub u => rw [hw] at h; cases h

-- non-vacuity
example : fromStr (fun _ _ => false) {} [0x61, 0x62] = (some (.inl (inlNew [0x61, 0x62])), {}) := by decide

/-- the comparison operators the model hard-codes for the inline limit are the ones in the source -/
theorem guards :
    Gen.guardFromStr = "<=" ∧ Gen.guardFromStaticStr = "<=" ∧ Gen.guardWithCapacity = "<=" ∧
    Gen.guardReserveStatic = "<=" ∧ Gen.guardReserveInline = ">" ∧ Gen.guardInlineSetLen = "<" :=
  ⟨rfl, rfl, rfl, rfl, rfl, rfl⟩

/-- (b) for the shrinking and in-place mutators: on an inline string `pop`, `truncate`, `clear`, `remove`,
`retain` — and `insert`/`insert_str` when the result fits in 16 bytes — perform **no allocator request
and touch no block** (the heap afterwards is the heap before, as a value), and the string is still
inline, whatever the outcome (a value, a rejected index, a panicking predicate).  For every raw inline
buffer, every argument, every allocator. -/
theorem inline_edits_no_heap (rf : Refuse) (st : List Bytes) (hp : Heap) (raw : Bytes) :
    (pop st hp (.inl raw)).InlineNoHeap hp ∧ (∀ n, (truncate st hp (.inl raw) n).InlineNoHeap hp) ∧
    (clear hp (.inl raw)).InlineNoHeap hp ∧ (∀ i, (remove rf st hp (.inl raw) i).InlineNoHeap hp) ∧
    (∀ answers, (retain rf st hp (.inl raw) answers).InlineNoHeap hp) ∧
    (∀ i s, inlLen raw + s.length ≤ 16 → (insertStr rf st hp (.inl raw) i s).InlineNoHeap hp) :=
  ⟨pop_inline st hp raw, truncate_inline st hp raw, clear_inline hp raw, remove_inline rf st hp raw,
   retain_inline rf st hp raw, insertStr_inline rf st hp raw⟩

/-- the same for the public calls of `step`: target inline ⇒ `World.heap` unchanged and target still inline -/
theorem step_inline_edits (rf : Refuse) (w : World) (h : Nat) (raw : Bytes) (hg : w.get h = some (.inl raw)) (plain : Bool) :
    (∀ (hu : ∀ u, pop w.statics w.heap (.inl raw) ≠ .ub u),
      (step rf w (.pop h plain)).1.heap = w.heap ∧ ∃ raw', (step rf w (.pop h plain)).1.get h = some (.inl raw')) ∧
    (∀ n (hu : ∀ u, truncate w.statics w.heap (.inl raw) n ≠ .ub u),
      (step rf w (.truncate h n plain)).1.heap = w.heap ∧ ∃ raw', (step rf w (.truncate h n plain)).1.get h = some (.inl raw')) ∧
    (∀ i (hu : ∀ u, remove rf w.statics w.heap (.inl raw) i ≠ .ub u),
      (step rf w (.remove h i plain)).1.heap = w.heap ∧ ∃ raw', (step rf w (.remove h i plain)).1.get h = some (.inl raw')) := by
  refine ⟨fun hu => ?_, fun n hu => ?_, fun i hu => ?_⟩
  · simp only [step, hg]; exact finish_inline w h plain _ _ (pop_inline _ _ raw) hu
  · simp only [step, hg]; exact finish_inline w h plain _ _ (truncate_inline _ _ raw n) hu
  · simp only [step, hg]; exact finish_inline w h plain _ _ (remove_inline rf _ _ raw i) hu

/-- non-vacuity: popping the last character of the inline string "ab" -/
example : (pop [] {} (.inl (inlNew [0x61, 0x62]))).InlineNoHeap {} := pop_inline [] {} _

end LS.C09
