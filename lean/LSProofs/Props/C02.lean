import LSProofs.StepSpec
/-!
# C02 — clone-on-write isolation: mutating one handle never changes another
-/
namespace LS.C02
open LS

/-- **frame**: whatever the operation (successful, failing with `ReserveError`, panicking on an
index, on allocation or in a callback) and whatever the allocator does, every handle other than
the operation's target keeps its two words (same pointer, same length) and reads the same bytes -/
theorem step_frame (rf : Refuse) (w : World) (hw : Wf w) (op : Op) (hv : op.ArgsValid) (h' : Nat)
    (hne : h' ≠ op.target) :
    (step rf w op).1.get h' = w.get h' ∧ (step rf w op).1.text h' = w.text h' :=
  (step_post rf hw op hv).2.2 h' hne

/-- along a history: a handle that is never the target reads the same text at the end -/
theorem run_frame (rf : Refuse) (ops : List Op) : ∀ (w : World), Wf w → (∀ op ∈ ops, op.ArgsValid) →
    ∀ h', (∀ op ∈ ops, h' ≠ op.target) → (run rf w ops).get h' = w.get h' ∧ (run rf w ops).text h' = w.text h' := by
  induction ops with
  | nil => intro w _ _ h' _; exact ⟨rfl, rfl⟩
  | cons op ops ih =>
    intro w hw hv h' hn
    have hp := step_post rf hw op (hv op (List.mem_cons_self ..))
    have h1 := hp.2.2 h' (hn op (List.mem_cons_self ..))
    have h2 := ih _ hp.1 (fun o ho => hv o (List.mem_cons_of_mem _ ho)) h' (fun o ho => hn o (List.mem_cons_of_mem _ ho))
    exact ⟨h2.1.trans h1.1, h2.2.trans h1.2⟩

/-- the bytes a *sharing* handle points at are the same bytes: its block keeps capacity and data
(only the count may change) -/
theorem shared_block_untouched (rf : Refuse) (w : World) (hw : Wf w) (op : Op) (hv : op.ArgsValid)
    (h' a l : Nat) (hne : h' ≠ op.target) (hg : w.get h' = some (.heap a l)) :
    ∃ b b', w.heap.get? a = some b ∧ (step rf w op).1.heap.get? a = some b' ∧ l ≤ b'.cap ∧
      b'.data.take l = b.data.take l := by
  obtain ⟨b, hb, hl, _⟩ := hw.handles h' _ hg
  have hp := step_post rf hw op hv
  have hg' := (hp.2.2 h' hne).1
  rw [hg] at hg'
  obtain ⟨b', hb', hl', _⟩ := hp.1.handles h' _ hg'
  have ht := (hp.2.2 h' hne).2
  simp only [World.text, hg, hg', textOf, hb, hb', hl, hl', if_true] at ht
  injection ht with ht
  exact ⟨b, b', hb, hb', hl', ht⟩

-- non-vacuity: three handles on one block with lengths 18/3/18, one dropped, `insert` on the second
example :
    let w := run (fun _ _ => false) {} [.fromStr 0 [0x61,0x62,0x63,0x64,0x65,0x66,0x67,0x68,0x69,0x6a,0x6b,0x6c,0x6d,0x6e,0x6f,0x70,0x71,0x72] true,
      .clone 1 0, .clone 2 0, .truncate 1 3 true, .drop 0, .insertStr 1 1 [0x5a] true]
    w.text 2 = some [0x61,0x62,0x63,0x64,0x65,0x66,0x67,0x68,0x69,0x6a,0x6b,0x6c,0x6d,0x6e,0x6f,0x70,0x71,0x72] ∧
    w.text 1 = some [0x61,0x5a,0x62,0x63] := by decide

end LS.C02
