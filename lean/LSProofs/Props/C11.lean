import LSProofs.Wf
/-! # C11 — placeholder while the refinement development is being written (see DESIGN 4.4) -/
namespace LS.C11
open LS

theorem init_wf (st : List Bytes) (hst : ∀ t ∈ st, Valid t ∧ t.length ≤ STATIC_MAX_LEN) :
    Wf { statics := st } := wf_init st hst

/-- guards of the capacity tests as in the source -/
theorem guards : Gen.guardReserveUnique = ">=" ∧ Gen.guardWithCapacity = "<=" ∧ Gen.guardReserveInline = ">" := ⟨rfl, rfl, rfl⟩

end LS.C11
