import LSProofs.TextSpec
/-!
# C11 — capacity is a promise: reserved room is really there and really reused
-/
namespace LS.C11
open LS

/-- guards of the capacity tests as in the source -/
theorem guards : Gen.guardReserveUnique = ">=" ∧ Gen.guardWithCapacity = "<=" ∧ Gen.guardReserveInline = ">" := ⟨rfl, rfl, rfl⟩

/-- (a) `capacity() ≥ len()` for every handle of every well-formed (hence every reachable) world -/
theorem cap_ge_len (w : World) (hw : Wf w) (h : Nat) (r : Handle) (hg : w.get h = some r) :
    r.len ≤ capOf w.heap r := by
  obtain ⟨t, g, _⟩ := good_of_wf hw hg
  rw [good_len g]; exact good_len_le_cap g

/-- `capOf` is what `capacity()` returns -/
theorem capOf_is_capacity (hp : Heap) (r : Handle) (c : Nat) (h : r.capacity hp = .ok c) : capOf hp r = c := by
  cases r with
  | inl raw => simp only [Handle.capacity, Except.ok.injEq] at h; rw [← h]; simp [capOf, Tie.maxInline_eq]
  | stat s l => simp only [Handle.capacity, Except.ok.injEq] at h; rw [← h]; simp [capOf]
  | heap a l =>
    simp only [Handle.capacity] at h
    cases hb : hp.get? a with
    | none => rw [hb] at h; cases h
    | some b => rw [hb] at h; injection h with h; simp [capOf, hb, h]

/-- (b) `with_capacity(n)`: capacity at least `n`, empty text -/
theorem with_capacity (rf : Refuse) (w : World) (d n : Nat) (plain : Bool) (hw : Wf w) (hd : w.get d = none) :
    ((step rf w (.withCapacity d n plain)).2 = .ok .unit ∧
      ∃ r, (step rf w (.withCapacity d n plain)).1.get d = some r ∧ n ≤ capOf (step rf w (.withCapacity d n plain)).1.heap r ∧
        (step rf w (.withCapacity d n plain)).1.text d = some []) ∨
    ((step rf w (.withCapacity d n plain)).2 = failOut plain) := by
  simp only [step, hd, Option.isSome_none, Bool.false_eq_true, if_false]
  rcases withCapacity_fresh (st := w.statics) (linv_empty hw hd) rf n with ⟨hp1, he, hs⟩ | ⟨hp1, r, he, g, hc, _⟩
  · rw [he]; right; rfl
  · rw [he]; left; exact ⟨rfl, r, World.get_put_self .., hc, text_put_self g⟩

/-- (c) a successful `reserve(n)`: capacity at least `len + n`, storage exclusively owned (inline
or a heap block with count 1 — a static or shared target has been converted) -/
theorem reserve_post (rf : Refuse) (w : World) (h : Nat) (t : Bytes) (n : Nat) (plain : Bool) (hw : Wf w)
    (ht : w.text h = some t) (hok : (step rf w (.reserve h n plain)).2 = .ok .unit) :
    ∃ r', (step rf w (.reserve h n plain)).1.get h = some r' ∧ Unique (step rf w (.reserve h n plain)).1.heap r' ∧
      t.length + n ≤ capOf (step rf w (.reserve h n plain)).1.heap r' := by
  rcases reserve_refines (rf := rf) hw ht n plain with ⟨_, _, h3⟩ | ⟨h1, _⟩
  · exact h3
  · rw [hok] at h1; cases plain <;> simp [failOut] at h1

/-- (d) within the reported capacity of an exclusively owned string, `reserve` does nothing:
no request, same handle — so `push`/`push_str`/`insert`/`insert_str` neither allocate nor move -/
theorem reserve_within_capacity (rf : Refuse) (st : List Bytes) (hp : Heap) (r : Handle) (add : Nat)
    (hu : Unique hp r) (hc : r.len + add ≤ capOf hp r) (hl : r.len + add < 2 ^ 64) :
    reserve rf st hp r add = .ok () hp r := by
  have h16 := Tie.maxInline_eq
  have hca : checkedAdd r.len add = some (r.len + add) := by simp [checkedAdd, USIZE, hl]
  unfold reserve
  simp only [hca]
  cases r with
  | stat s l => exact absurd hu (by simp [Unique])
  | inl raw => simp only [capOf] at hc; simp only []; rw [if_neg (by omega)]
  | heap a l =>
    obtain ⟨b, hb, hrc⟩ := hu
    simp only [capOf, hb] at hc
    simp only [hb, hrc, if_true]; rw [if_pos (by omega)]

/-- … and the write that follows keeps the same storage: no allocator traffic, same block -/
theorem push_within_capacity (rf : Refuse) (w : World) (h : Nat) (r : Handle) (t s : Bytes) (hw : Wf w)
    (hg : w.get h = some r) (ht : w.text h = some t) (hs : Valid s) (hu : Unique w.heap r)
    (hc : t.length + s.length ≤ capOf w.heap r) (hne : s ≠ []) :
    ∃ hp' r', pushStr rf w.statics w.heap r s = .ok () hp' r' ∧ hp'.reqs = w.heap.reqs ∧ hp'.log = w.heap.log ∧
      (∀ a, onBlock a (some r') = onBlock a (some r)) ∧ capOf hp' r' = capOf w.heap r := by
  obtain ⟨r0, hg0, g⟩ := good_of_text hw ht
  rw [hg] at hg0; injection hg0 with hg0; subst hg0
  have hlen := good_len g
  have hML := Tie.maxLen_eq
  have hcapb : capOf w.heap r ≤ MAX_LEN := by
    cases r with
    | inl raw => simp [capOf]; omega
    | stat s' l => exact absurd hu (by simp [Unique])
    | heap a l => obtain ⟨b, hb, _⟩ := hu; simp only [capOf, hb]; exact (hw.blocks a b hb).2.2.1
  have hres := reserve_within_capacity rf w.statics w.heap r s.length hu (by rw [hlen]; exact hc) (by rw [hlen]; omega)
  obtain ⟨hp2, r2, hwr, _, _, hcap2, hq, hlg, _, hsame⟩ := good_write g hu t.length s (Nat.le_refl _) hc
    (by rw [List.take_length]; exact valid_append g.valid hs)
  refine ⟨hp2, r2, ?_, hq, hlg, hsame, hcap2⟩
  unfold pushStr
  have : s.isEmpty = false := by cases s <;> simp at hne ⊢
  simp only [this, Bool.false_eq_true, if_false, hres, hlen]
  exact hwr

end LS.C11
