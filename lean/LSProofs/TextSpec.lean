import LSProofs.StepSpec
/-!
# The text clause: each mutator, seen through `World.text`, is the `String` operation
-/
namespace LS

theorem get_of_text {w : World} {h : Nat} {t : Bytes} (ht : w.text h = some t) : ∃ r, w.get h = some r := by
  unfold World.text at ht
  cases hg : w.get h with
  | none => rw [hg] at ht; cases ht
  | some r => exact ⟨r, rfl⟩

theorem good_of_text {w : World} {h : Nat} {t : Bytes} (hw : Wf w) (ht : w.text h = some t) :
    ∃ r, w.get h = some r ∧ Good (oc w h) w.heap w.statics w.heap r t := by
  obtain ⟨r, hg⟩ := get_of_text ht
  obtain ⟨t', g, ht'⟩ := good_of_wf hw hg
  rw [ht] at ht'; injection ht' with ht'; subst ht'
  exact ⟨r, hg, g⟩

/-- the state after a call that ended in `Err`/allocation panic: handle, text and blocks as before -/
def SameAs (w w' : World) (h : Nat) : Prop :=
  w'.get h = w.get h ∧ w'.text h = w.text h ∧ w'.heap.slots = w.heap.slots

theorem sameAs_put {w : World} {h : Nat} {r : Handle} {hp' : Heap} (hg : w.get h = some r)
    (hs : hp'.slots = w.heap.slots) : SameAs w (w.put hp' h (some r)) h := by
  refine ⟨by rw [World.get_put_self, hg], ?_, hs⟩
  unfold World.text
  rw [World.get_put_self, hg]
  show (match textOf hp' w.statics r with | .ok t => some t | .error _ => none) =
    (match textOf w.heap w.statics r with | .ok t => some t | .error _ => none)
  rw [textOf_congr hs]

section
variable {rf : Refuse} {w : World} {h : Nat} {t : Bytes}

/-- `push_str` / `push` / `+=` -/
theorem pushStr_refines (hw : Wf w) (ht : w.text h = some t) (s : Bytes) (hs : Valid s) (plain : Bool) :
    ((step rf w (.pushStr h s plain)).2 = .ok .unit ∧ (step rf w (.pushStr h s plain)).1.text h = some (t ++ s)) ∨
    ((step rf w (.pushStr h s plain)).2 = failOut plain ∧ SameAs w (step rf w (.pushStr h s plain)).1 h) := by
  obtain ⟨r, hg, g⟩ := good_of_text hw ht
  have hsat := pushStr_sat g rf s hs
  simp only [step, hg]
  revert hsat
  cases pushStr rf w.statics w.heap r s with
  | ok v hp1 r1 => intro g1; left; exact ⟨rfl, text_put_self g1⟩
  | err hp1 r1 => intro ⟨hr, hsl⟩; right; subst hr; exact ⟨rfl, sameAs_put hg hsl⟩
  | pidx hp1 r1 => intro hf; exact hf.elim
  | pcb hp1 r1 => intro hf; exact hf.elim
  | ub u => intro hf; exact hf.elim

/-- `pop` -/
theorem pop_refines (hw : Wf w) (ht : w.text h = some t) (plain : Bool) :
    (step rf w (.pop h plain)).2 = .ok (match (Spec.pop t).1 with | none => Val.none | some c => Val.some c) ∧
    (step rf w (.pop h plain)).1.text h = some (Spec.pop t).2 ∧
    (step rf w (.pop h plain)).1.heap = w.heap := by
  obtain ⟨r, hg, g⟩ := good_of_text hw ht
  have hsat := pop_sat g
  simp only [step, hg]
  revert hsat
  cases pop w.statics w.heap r with
  | ok v hp1 r1 => intro ⟨hv, g1, hh⟩; subst hv; subst hh; exact ⟨rfl, text_put_self g1, rfl⟩
  | err hp1 r1 => intro hf; exact hf.elim
  | pidx hp1 r1 => intro hf; exact hf.elim
  | pcb hp1 r1 => intro hf; exact hf.elim
  | ub u => intro hf; exact hf.elim

/-- `truncate`: panics exactly when `String::truncate` does, and then nothing at all changed -/
theorem truncate_refines (hw : Wf w) (ht : w.text h = some t) (n : Nat) (plain : Bool) :
    match Spec.truncate t n with
    | .ok _ t' => (step rf w (.truncate h n plain)).2 = .ok .unit ∧ (step rf w (.truncate h n plain)).1.text h = some t' ∧
        (step rf w (.truncate h n plain)).1.heap = w.heap
    | .panic => step rf w (.truncate h n plain) = (w, .panicIdx) := by
  obtain ⟨r, hg, g⟩ := good_of_text hw ht
  have hsat := truncate_sat g n
  simp only [step, hg]
  cases hsp : Spec.truncate t n with
  | panic => rw [hsp] at hsat; simp only [hsat, finish]; rw [put_self w h r hg]
  | ok c t' =>
    rw [hsp] at hsat
    simp only []
    revert hsat
    cases truncate w.statics w.heap r n with
    | ok v hp1 r1 => intro ⟨g1, hh⟩; subst hh; exact ⟨rfl, text_put_self g1, rfl⟩
    | err hp1 r1 => intro hf; exact hf.elim
    | pidx hp1 r1 => intro hf; exact hf.elim
    | pcb hp1 r1 => intro hf; exact hf.elim
    | ub u => intro hf; exact hf.elim

/-- `remove` -/
theorem remove_refines (hw : Wf w) (ht : w.text h = some t) (i : Nat) (plain : Bool) :
    match Spec.remove t i with
    | .ok c t' =>
      ((step rf w (.remove h i plain)).2 = .ok (.char c) ∧ (step rf w (.remove h i plain)).1.text h = some t') ∨
      ((step rf w (.remove h i plain)).2 = failOut plain ∧ SameAs w (step rf w (.remove h i plain)).1 h)
    | .panic => step rf w (.remove h i plain) = (w, .panicIdx) := by
  obtain ⟨r, hg, g⟩ := good_of_text hw ht
  have hsat := remove_sat g rf i
  simp only [step, hg]
  cases hsp : Spec.remove t i with
  | panic => rw [hsp] at hsat; simp only [hsat, finish]; rw [put_self w h r hg]
  | ok c t' =>
    rw [hsp] at hsat
    simp only []
    revert hsat
    cases remove rf w.statics w.heap r i with
    | ok v hp1 r1 => intro ⟨hv, g1⟩; subst hv; left; exact ⟨rfl, text_put_self g1⟩
    | err hp1 r1 => intro ⟨hr, hsl⟩; right; subst hr; exact ⟨rfl, sameAs_put hg hsl⟩
    | pidx hp1 r1 => intro hf; exact hf.elim
    | pcb hp1 r1 => intro hf; exact hf.elim
    | ub u => intro hf; exact hf.elim

/-- `insert_str` / `insert` -/
theorem insertStr_refines (hw : Wf w) (ht : w.text h = some t) (i : Nat) (s : Bytes) (hs : Valid s) (plain : Bool) :
    match Spec.insert_str t i s with
    | .ok _ t' =>
      ((step rf w (.insertStr h i s plain)).2 = .ok .unit ∧ (step rf w (.insertStr h i s plain)).1.text h = some t') ∨
      ((step rf w (.insertStr h i s plain)).2 = failOut plain ∧ SameAs w (step rf w (.insertStr h i s plain)).1 h)
    | .panic => step rf w (.insertStr h i s plain) = (w, .panicIdx) := by
  obtain ⟨r, hg, g⟩ := good_of_text hw ht
  have hsat := insertStr_sat g rf i s hs
  simp only [step, hg]
  cases hsp : Spec.insert_str t i s with
  | panic => rw [hsp] at hsat; simp only [hsat, finish]; rw [put_self w h r hg]
  | ok c t' =>
    rw [hsp] at hsat
    simp only []
    revert hsat
    cases insertStr rf w.statics w.heap r i s with
    | ok v hp1 r1 => intro g1; left; exact ⟨rfl, text_put_self g1⟩
    | err hp1 r1 => intro ⟨hr, hsl⟩; right; subst hr; exact ⟨rfl, sameAs_put hg hsl⟩
    | pidx hp1 r1 => intro hf; exact hf.elim
    | pcb hp1 r1 => intro hf; exact hf.elim
    | ub u => intro hf; exact hf.elim

/-- `clear` -/
theorem clear_refines (hw : Wf w) (ht : w.text h = some t) :
    (step rf w (.clear h)).2 = .ok .unit ∧ (step rf w (.clear h)).1.text h = some [] := by
  obtain ⟨r, hg, g⟩ := good_of_text hw ht
  have hsat := clear_sat g
  simp only [step, hg]
  revert hsat
  cases clear w.heap r with
  | ok v hp1 r1 => intro g1; exact ⟨rfl, text_put_self g1⟩
  | err hp1 r1 => intro hf; exact hf.elim
  | pidx hp1 r1 => intro hf; exact hf.elim
  | pcb hp1 r1 => intro hf; exact hf.elim
  | ub u => intro hf; exact hf.elim

/-- `retain` with the predicate's answers as data: the kept characters; a panicking predicate
(k-th invocation, any k) leaves the characters kept so far -/
theorem retain_refines (hw : Wf w) (ht : w.text h = some t) (answers : List (Option Bool)) (plain : Bool) :
    ((step rf w (.retain h answers plain)).2 = (if (retainScan t.length t answers []).2 then .panicCb else .ok .unit) ∧
      (step rf w (.retain h answers plain)).1.text h = some (retainScan t.length t answers []).1) ∨
    ((step rf w (.retain h answers plain)).2 = failOut plain ∧ SameAs w (step rf w (.retain h answers plain)).1 h) := by
  obtain ⟨r, hg, g⟩ := good_of_text hw ht
  have hsat := retain_sat g rf answers
  simp only [step, hg]
  revert hsat
  cases retain rf w.statics w.heap r answers with
  | ok v hp1 r1 => intro ⟨g1, hp⟩; left; rw [hp]; exact ⟨rfl, text_put_self g1⟩
  | err hp1 r1 => intro ⟨hr, hsl⟩; right; subst hr; exact ⟨rfl, sameAs_put hg hsl⟩
  | pidx hp1 r1 => intro hf; exact hf.elim
  | pcb hp1 r1 => intro ⟨g1, hp⟩; left; rw [hp]; exact ⟨rfl, text_put_self g1⟩
  | ub u => intro hf; exact hf.elim

/-- `reserve`: the text is untouched; on success the handle owns at least `len + n` bytes -/
theorem reserve_refines (hw : Wf w) (ht : w.text h = some t) (n : Nat) (plain : Bool) :
    ((step rf w (.reserve h n plain)).2 = .ok .unit ∧ (step rf w (.reserve h n plain)).1.text h = some t ∧
      ∃ r', (step rf w (.reserve h n plain)).1.get h = some r' ∧ Unique (step rf w (.reserve h n plain)).1.heap r' ∧
        t.length + n ≤ capOf (step rf w (.reserve h n plain)).1.heap r') ∨
    ((step rf w (.reserve h n plain)).2 = failOut plain ∧ SameAs w (step rf w (.reserve h n plain)).1 h) := by
  obtain ⟨r, hg, g⟩ := good_of_text hw ht
  have hsat := reserve_sat g rf n
  simp only [step, hg]
  revert hsat
  cases reserve rf w.statics w.heap r n with
  | ok v hp1 r1 =>
    intro ⟨g1, hu, hc⟩; left
    exact ⟨rfl, text_put_self g1, r1, World.get_put_self .., hu, hc⟩
  | err hp1 r1 => intro ⟨hr, hsl⟩; right; subst hr; exact ⟨rfl, sameAs_put hg hsl⟩
  | pidx hp1 r1 => intro hf; exact hf.elim
  | pcb hp1 r1 => intro hf; exact hf.elim
  | ub u => intro hf; exact hf.elim

/-- `shrink_to` / `shrink_to_fit`: the text is untouched (capacity clauses: `shrinkTo_sat`) -/
theorem shrinkTo_refines (hw : Wf w) (ht : w.text h = some t) (m : Nat) (plain : Bool) :
    ((step rf w (.shrinkTo h m plain)).2 = .ok .unit ∧ (step rf w (.shrinkTo h m plain)).1.text h = some t) ∨
    ((step rf w (.shrinkTo h m plain)).2 = failOut plain ∧ SameAs w (step rf w (.shrinkTo h m plain)).1 h) := by
  obtain ⟨r, hg, g⟩ := good_of_text hw ht
  have hsat := shrinkTo_sat g rf m
  simp only [step, hg]
  revert hsat
  cases shrinkTo rf w.heap r m with
  | ok v hp1 r1 => intro ⟨g1, _⟩; left; exact ⟨rfl, text_put_self g1⟩
  | err hp1 r1 => intro ⟨hr, hsl⟩; right; subst hr; exact ⟨rfl, sameAs_put hg hsl⟩
  | pidx hp1 r1 => intro hf; exact hf.elim
  | pcb hp1 r1 => intro hf; exact hf.elim
  | ub u => intro hf; exact hf.elim

end

end LS
