import LSProofs.RtLemmas
/-!
# Tie 1b: the translated `repr.rs` equals the hand model

`LSModel/GenRepr.lean` is regenerated from `/repo/src` by `tools/rs2lean.py` on every run.  Each theorem
below says that a translated function, run from any state, does exactly what the hand-written model
function (`LSModel/Handle.lean`) does — for every allocator oracle, heap and handle.  All theorems about
the hand model therefore hold of the code as translated; when the source changes, the generated
definition changes and the tie stops checking (the *obligation* of every property that consumes it).
-/
open LS LS.Rt
set_option linter.unusedSimpArgs false

namespace LS.GenTie

/-! ## Constructors -/

theorem new_step (s : St) : GenRepr.Repr.new s = .next (.inl inlEmpty) s := by
  unfold GenRepr.Repr.new; rt_step

theorem from_str_step (t : Str) (s : St) :
    GenRepr.Repr.from_str t s =
      match fromStr s.rf s.hp t.b with
      | (some r, hp') => .next (.ok r) { s with hp := hp' }
      | (none, hp') => .next .err { s with hp := hp' } := by
  unfold GenRepr.Repr.from_str fromStr
  by_cases h : t.b.length ≤ MAX_INLINE
  · rt_step [h]
  · rcases hw : heapNew s.rf s.hp t.b with ⟨o, hp'⟩
    cases o <;> rt_step [h, hw]

theorem with_capacity_step (c : Nat) (s : St) :
    GenRepr.Repr.with_capacity c s =
      match withCapacity s.rf s.hp c with
      | (some r, hp') => .next (.ok r) { s with hp := hp' }
      | (none, hp') => .next .err { s with hp := hp' } := by
  unfold GenRepr.Repr.with_capacity withCapacity
  by_cases h : c ≤ MAX_INLINE
  · rt_step [h, new_step]
  · rcases hw : heapWithCapacity s.rf s.hp c with ⟨o, hp'⟩
    cases o <;> rt_step [h, hw]

/-! ## Readers -/

theorem capacity_step (s : St) :
    GenRepr.Repr.capacity s = match s.self.capacity s.hp with | .ok c => .next c s | .error u => .ub u := by
  rcases s with ⟨rf, st, hp, r⟩
  unfold GenRepr.Repr.capacity
  cases r with
  | inl raw => rt_step [Handle.capacity]
  | stat i l => rt_step [Handle.capacity]
  | heap a l =>
    cases hg : hp.get? a with
    | none => rt_step [Handle.capacity, hg, hr_capacity_none rf st hp a l _ hg]
    | some b => rt_step [Handle.capacity, hg, hr_capacity_some rf st hp a l _ hg]

theorem is_unique_step (s : St) :
    GenRepr.Repr.is_unique s = match s.self.isUnique s.hp with | .ok c => .next c s | .error u => .ub u := by
  rcases s with ⟨rf, st, hp, r⟩
  unfold GenRepr.Repr.is_unique
  cases r with
  | inl raw => rt_step [Handle.isUnique]
  | stat i l => rt_step [Handle.isUnique]
  | heap a l =>
    cases hg : hp.get? a with
    | none => rt_step [Handle.isUnique, hg, hr_is_unique_none rf st hp a l _ hg]
    | some b =>
      rt_step [Handle.isUnique, hg, hr_is_unique_some rf st hp a l _ hg]
      by_cases h1 : b.rc = 1 <;> simp [h1]

/-! ## `replace_inner`, `set_len`, `truncate` -/

theorem setBlock_get (hp : Heap) (a : Nat) (b b' : Block) (h : hp.get? a = some b) :
    (hp.setBlock a b').get? a = some b' := by
  unfold Heap.get? at h
  have hl : a < hp.slots.length := by
    rcases hs : hp.slots[a]? with _ | sl
    · rw [hs] at h; cases h
    · exact (List.getElem?_eq_some_iff.mp hs).1
  simp [Heap.get?, Heap.setBlock, List.getElem?_set, hl]

theorem slots_of_get {hp : Heap} {a : Nat} {b : Block} (h : hp.get? a = some b) : hp.slots[a]? = some (.live b) := by
  unfold Heap.get? at h
  rcases hs : hp.slots[a]? with _ | sl
  · rw [hs] at h; cases h
  · rw [hs] at h; cases sl with
    | live b' => simp only [Option.some.injEq] at h; rw [h]
    | freed => cases h

theorem release_of_none {hp : Heap} {a : Nat} (h : hp.get? a = none) : hp.release a = .error .useAfterFree := by
  unfold Heap.get? at h
  unfold Heap.release
  rcases hs : hp.slots[a]? with _ | sl
  · rfl
  · rw [hs] at h; cases sl with
    | live b' => cases h
    | freed => rfl

/-- `replace_inner(other)` = release the reference `self` holds (the one that sees 1 frees), then
overwrite the two words -/
theorem replace_inner_step (other : Handle) (s : St) :
    GenRepr.Repr.replace_inner other s =
      match releaseRepr s.hp s.self with
      | .ok hp' => .next () { s with hp := hp', self := other }
      | .error u => .ub u := by
  rcases s with ⟨rf, st, hp, r⟩
  unfold GenRepr.Repr.replace_inner
  cases r with
  | inl raw => rt_step [releaseRepr]
  | stat i l => rt_step [releaseRepr]
  | heap a l =>
    cases hg : hp.get? a with
    | none => rt_step [hg, releaseRepr, release_of_none hg, hr_refcount_none rf st hp a l _ hg]
    | some b =>
      have hs := slots_of_get hg
      by_cases h0 : b.rc = 0
      · rt_step [hg, h0, releaseRepr, Heap.release, hs, hr_refcount_some rf st hp a l _ hg, rc_fetch_sub_some rf st hp a l _ _ _ hg]
      · by_cases h1 : b.rc = 1
        · have hg0 : (hp.setBlock a { b with rc := 0 }).get? a = some { b with rc := 0 } := setBlock_get hp a b _ hg
          rt_step [hg, h1, releaseRepr, Heap.release, hs, hr_refcount_some rf st hp a l _ hg,
            rc_fetch_sub_some rf st hp a l _ _ _ hg, Nat.sub_self, Nat.one_ne_zero, hr_dealloc_some rf st _ a l _ hg0,
            ne_eq, not_true_eq_false]
          by_cases hz : b.size = HEADER + b.cap
          · simp only [hz, ↓reduceIte, Heap.setBlock, List.set_set]
          · simp only [hz, ↓reduceIte]
        · rt_step [hg, h0, h1, releaseRepr, Heap.release, hs, hr_refcount_some rf st hp a l _ hg,
            rc_fetch_sub_some rf st hp a l _ _ _ hg]

theorem set_len_step (n : Nat) (s : St) :
    GenRepr.Repr.set_len n s =
      match setLen s.self n with
      | .ok r' => .next () { s with self := r' }
      | .error u => .ub u := by
  rcases s with ⟨rf, st, hp, r⟩
  unfold GenRepr.Repr.set_len setLen
  cases r with
  | inl raw => by_cases h : n ≤ MAX_INLINE <;> rt_step [h]
  | heap a l => by_cases h : n ≤ MAX_LEN <;> rt_step [h]
  | stat i l => by_cases h : n ≤ STATIC_MAX_LEN <;> rt_step [h]

theorem truncate_unchecked_step (n : Nat) (s : St) :
    GenRepr.Repr.truncate_unchecked n s =
      match truncateUnchecked s.self n with
      | .ok r' => .next (.ok ()) { s with self := r' }
      | .error u => .ub u := by
  rcases s with ⟨rf, st, hp, r⟩
  unfold GenRepr.Repr.truncate_unchecked truncateUnchecked setLen
  cases r with
  | inl raw => by_cases h : n ≤ MAX_INLINE <;> rt_step [h]
  | heap a l => by_cases h : n ≤ MAX_LEN <;> rt_step [h]
  | stat i l => by_cases h : n ≤ STATIC_MAX_LEN <;> rt_step [h]

/-- the outcome of a `Result<(), ReserveError>` method, as the hand model's `Res Unit` -/
def resOf : Step (Rs Unit) (Rs Unit) → Res Unit
  | .next (.ok _) s | .done (.ok _) s => .ok () s.hp s.self
  | .next .err s | .done .err s => .err s.hp s.self
  | .pidx s => .pidx s.hp s.self
  | .ub u => .ub u

theorem truncate_tie (n : Nat) (s : St) :
    resOf (GenRepr.Repr.truncate n s) = truncate s.st s.hp s.self n := by
  rcases s with ⟨rf, st, hp, r⟩
  unfold GenRepr.Repr.truncate truncate
  by_cases h : n ≥ r.len
  · rt_step [h, resOf]
  · cases ht : textOf hp st r with
    | error u => rt_step [h, ht, resOf]
    | ok t =>
      cases hb : isBoundary t n with
      | false => rt_step [h, ht, hb, resOf]
      | true =>
        rt_step [h, ht, hb, truncate_unchecked_step]
        cases truncateUnchecked r n <;> simp only [resOf]

/-! ## `reserve`, `ensure_modifiable`, `shrink_to`

The hand model records the handle-local length `l` in the handle it builds after a copy; the code
records `text.len()` of the slice it copied.  These agree when the block really holds `capacity`
bytes and an inline handle really has 16 raw bytes — two clauses of the world invariant `Wf`. -/

/-- every live block holds exactly `cap` bytes -/
def DataOk (hp : Heap) : Prop := ∀ a b, hp.get? a = some b → b.data.length = b.cap
/-- an inline handle has its 16 raw bytes -/
def RawOk : Handle → Prop
  | .inl raw => raw.length = MAX_INLINE
  | _ => True

theorem take_len_block {hp : Heap} {a l : Nat} {b : Block} (hd : DataOk hp) (hg : hp.get? a = some b) (hl : l ≤ b.cap) :
    (b.data.take l).length = l := by
  rw [List.length_take, hd a b hg]; omega

theorem take_len_raw {raw : Bytes} (h : raw.length = MAX_INLINE) : (raw.take (inlLen raw)).length = inlLen raw := by
  rw [List.length_take, h]; unfold inlLen; omega

theorem textOf_stat_len {hp : Heap} {st : List Bytes} {i l : Nat} {t : Bytes} (ht : textOf hp st (.stat i l) = .ok t) : t.length = l := by
  simp only [textOf] at ht
  cases hs : st[i]? with
  | none => rw [hs] at ht; cases ht
  | some t0 =>
    rw [hs] at ht; simp only at ht
    by_cases hl : l ≤ t0.length
    · rw [if_pos hl] at ht; injection ht with ht; rw [← ht, List.length_take]; omega
    · rw [if_neg hl] at ht; cases ht

theorem reserve_tie (add : Nat) (s : St) (hd : DataOk s.hp) (hr : RawOk s.self) :
    resOf (GenRepr.Repr.reserve add s) = reserve s.rf s.st s.hp s.self add := by
  rcases s with ⟨rf, st, hp, r⟩
  unfold GenRepr.Repr.reserve reserve
  cases hc : checkedAdd r.len add with
  | none => rt_step [hc, resOf]
  | some needed =>
    cases r with
    | inl raw =>
      -- no `rfl`-equation lemma may touch a term containing `inlLen raw` (see RtLemmas.lean): facts go in as hypotheses
      have hlen : (Handle.inl raw).len = inlLen raw := rfl
      have hc' : checkedAdd (inlLen raw) add = some needed := hc
      have htx : textOf hp st (.inl raw) = .ok (raw.take (inlLen raw)) := rfl
      by_cases h : needed > MAX_INLINE
      · rcases hw : heapWithAdditional rf hp (raw.take (inlLen raw)) add with ⟨o, hp1⟩
        cases o with
        | none =>
          have hmv : moveTo hp (.inl raw) (inlLen raw) (none, hp1) = .err hp1 (.inl raw) := rfl
          rt_step [hlen, hc', h, hw, htx, hmv]; rfl
        | some a' =>
          have hmv : moveTo hp (.inl raw) (inlLen raw) (some a', hp1) = .ok () hp1 (.heap a' (inlLen raw)) := rfl
          rt_step [hlen, hc', h, hw, htx, hmv, take_len_raw hr]; rfl
      · rt_step [hlen, hc', h]; rfl
    | stat i l =>
      have hc' : checkedAdd l add = some needed := hc
      cases ht : textOf hp st (.stat i l) with
      | error u => by_cases h : needed ≤ MAX_INLINE <;> rt_step [Handle.len, hc', h, ht, resOf]
      | ok t =>
        have hl := textOf_stat_len ht
        by_cases h : needed ≤ MAX_INLINE
        · rt_step [Handle.len, hc', h, ht, resOf]
        · rcases hw : heapWithAdditional rf hp t add with ⟨o, hp1⟩
          cases o <;> rt_step [Handle.len, hc', h, ht, hw, moveTo, hl, resOf, releaseRepr]
    | heap a l =>
      have hc' : checkedAdd l add = some needed := hc
      cases hg : hp.get? a with
      | none => rt_step [Handle.len, hc', hg, resOf, hr_is_unique_none rf st hp a l _ hg]
      | some b =>
        by_cases h1 : b.rc = 1
        · by_cases h2 : b.cap ≥ needed
          · rt_step [Handle.len, hc', hg, h1, h2, resOf, hr_is_unique_some rf st hp a l _ hg, hr_capacity_some rf st hp a l _ hg]
          · cases hre : hp.realloc rf a (Gen.amortizedGrowth l add) <;>
              rt_step [Handle.len, hc', hg, h1, h2, hre, resOf, hr_is_unique_some rf st hp a l _ hg, hr_capacity_some rf st hp a l _ hg]
        · by_cases h3 : l ≤ b.cap
          · rcases hw : heapWithAdditional rf hp (b.data.take l) add with ⟨o, hp1⟩
            cases o with
            | none => rt_step [Handle.len, hc', hg, h1, h3, hw, moveTo, resOf, hr_is_unique_some rf st hp a l _ hg, hr_as_str_some rf st hp a l _ hg]
            | some a' =>
              cases hrl : releaseRepr hp1 (.heap a l) <;>
                rt_step [Handle.len, hc', hg, h1, h3, hw, moveTo, take_len_block hd hg h3, replace_inner_step, hrl, resOf,
                  hr_is_unique_some rf st hp a l _ hg, hr_as_str_some rf st hp a l _ hg]
          · rt_step [Handle.len, hc', hg, h1, h3, resOf, hr_is_unique_some rf st hp a l _ hg, hr_as_str_some rf st hp a l _ hg]
end LS.GenTie
