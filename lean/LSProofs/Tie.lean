import LSModel
/-!
# Tie 1 obligations: what the hand-written model assumes about the *generated* definitions

Each lemma is closed by `rfl`/`decide` on `Generated.lean`, i.e. on what `/repo/src` says now.
When the source changes one of these, the lemma stops checking and every property theorem that
imports this file is reported as an obligation that no longer checks.
-/
namespace LS.Tie
open LS

theorem maxInline_eq : MAX_INLINE = 16 := by decide
theorem header_eq : HEADER = 16 := by decide
theorem maxLen_eq : MAX_LEN = 2 ^ 56 - 1 := by decide
theorem staticMaxLen_eq : STATIC_MAX_LEN = 2 ^ 56 - 1 := by decide
theorem heapMarker_eq : Gen.heapMarker = 0xD0 := by decide
theorem staticMarker_eq : Gen.staticMarker = 0xD1 := by decide
theorem mask_eq : Gen.mask1100 = 0xC0 := by decide
theorem inlineEmptyTag_eq : Gen.inlineEmptyTag = 0xC0 := by decide
theorem heapTag_eq : Gen.heapTag = Gen.heapMarker <<< 56 := by decide
theorem staticTag_eq : Gen.staticTag = Gen.staticMarker <<< 56 := by decide

end LS.Tie
