import LSProofs.Gen.Clone
import LSProofs.Gen.Release
import LSProofs.Gen.Ctor
/-! # Ties: `Clone::clone`, `Clone::clone_from`, `Drop::drop` of `LeanString` (`src/lib.rs`)

as `Api.step` models the public calls `.clone`, `.cloneFrom`, `.drop`: a clone is `shallowClone`; `clone_from` clones
the source *first* and only then releases what the destination held; `drop` releases and leaves an empty inline value. -/
open LS LS.Rt
set_option linter.unusedSimpArgs false

namespace LS.GenTie

/-- every count the state can see is below `isize::MAX` (beyond that `clone` aborts; the model's count is unbounded) -/
def RcSmall (hp : Heap) : Prop := ∀ a b, hp.get? a = some b → b.rc ≤ isize_MAX

theorem clone_step (s : St) (hrc : RcSmall s.hp) :
    GenRepr.LeanString.clone s =
      match shallowClone s.hp s.self with
      | .ok (hp', r') => .next r' { s with hp := hp' }
      | .error u => .ub u := by
  unfold GenRepr.LeanString.clone
  have h := make_shallow_clone_step s (fun a l b _ hg => hrc a b hg)
  rcases s with ⟨rf, st, hp, r⟩
  simp only at h
  cases hc : shallowClone hp r with
  | error u => rt_step [h, hc]
  | ok p => obtain ⟨hp', r'⟩ := p; rt_step [h, hc]

theorem drop_step (s : St) :
    GenRepr.LeanString.drop s =
      match releaseRepr s.hp s.self with
      | .ok hp' => .next () { s with hp := hp', self := .inl inlEmpty }
      | .error u => .ub u := by
  unfold GenRepr.LeanString.drop
  rcases s with ⟨rf, st, hp, r⟩
  cases hr : releaseRepr hp r <;> rt_step [new_step, replace_inner_step, hr]

/-- `dst.clone_from(&src)`: exactly the two steps of `Api.step (.cloneFrom d s)` -/
theorem clone_from_step (src : Handle) (s : St) (hrc : RcSmall s.hp) :
    GenRepr.LeanString.clone_from src s =
      match shallowClone s.hp src with
      | .error u => .ub u
      | .ok (hp1, r') =>
        match releaseRepr hp1 s.self with
        | .error u => .ub u
        | .ok hp2 => .next () { s with hp := hp2, self := r' } := by
  unfold GenRepr.LeanString.clone_from
  rcases s with ⟨rf, st, hp, dst⟩
  have h := make_shallow_clone_step ⟨rf, st, hp, src⟩ (fun a l b _ hg => hrc a b hg)
  simp only at h
  cases hc : shallowClone hp src with
  | error u => rt_step [h, hc]
  | ok p =>
    obtain ⟨hp1, r'⟩ := p
    cases hr : releaseRepr hp1 dst <;> rt_step [h, hc, replace_inner_step, hr]

end LS.GenTie
