import LSProofs.Gen.Release
import LSProofs.Gen.Readers
import LSProofs.Gen.SetLen
import LSProofs.Gen.Ctor
/-! # Tie: `LeanString::clear` -/
open LS LS.Rt
set_option linter.unusedSimpArgs false

namespace LS.GenTie

theorem clear_tie (s : St) : resV (GenRepr.LeanString.clear s) = clear s.hp s.self := by
  rcases s with ⟨rf, st, hp, r⟩
  unfold GenRepr.LeanString.clear clear
  cases hu : r.isUnique hp with
  | error u => rt_step [is_unique_step, hu, resV]
  | ok c =>
    cases c with
    | true =>
      cases hs : setLen r 0 <;> rt_step [is_unique_step, hu, set_len_step, hs, resV]
    | false =>
      cases hrl : releaseRepr hp r <;> rt_step [is_unique_step, hu, new_step, replace_inner_step, hrl, resV]

end LS.GenTie
