import LSProofs.Gen.Wrappers
/-! # Ties: the infallible API of `LeanString` (`push`, `push_str`, `insert`, …, `+=`, `+`, `fmt::Write`, `From<&str>`)

Every infallible method is its `try_` form followed by `unwrap_with_msg()`: `Ok(v)` is the value, `Err(ReserveError)`
is a panic with the error's message (`Step.palloc`), anything else (a rejected index, a model alarm) passes through. -/
open LS LS.Rt
set_option linter.unusedSimpArgs false

namespace LS.GenTie

/-- what `unwrap_with_msg()` makes of the outcome of the `try_` form -/
def unwrapN {α : Type} : Step (Rs α) (Rs α) → Step α α
  | .next (.ok a) s | .done (.ok a) s => .next a s
  | .next .err s | .done .err s => .palloc s
  | .pidx s => .pidx s
  | .palloc s => .palloc s
  | .pcb s => .pcb s
  | .ub u => .ub u

theorem call_unwrap {α : Type} (m : M (Rs α) (Rs α)) (s : St) :
    (Rt.bind (Rt.call m) fun t => Rt.bind t.rs_unwrap_with_msg fun v => Rt.pure v : M α α) s = unwrapN (m s) := by
  rw [bind_ap, call_norm]
  cases h : m s with
  | next a s' => cases a <;> simp only [norm, bind_ap, unwrap_ok, unwrap_err, pure_ap, unwrapN]
  | done a s' => cases a <;> simp only [norm, bind_ap, unwrap_ok, unwrap_err, pure_ap, unwrapN]
  | pidx s' => rfl
  | palloc s' => rfl
  | pcb s' => rfl
  | ub u => rfl

theorem push_is (ch : Chr) (s : St) : GenRepr.LeanString.push ch s = unwrapN (GenRepr.LeanString.try_push ch s) := by
  unfold GenRepr.LeanString.push; exact call_unwrap _ s
theorem pop_is (s : St) : GenRepr.LeanString.pop s = unwrapN (GenRepr.LeanString.try_pop s) := by
  unfold GenRepr.LeanString.pop; exact call_unwrap _ s
theorem push_str_is (t : Str) (s : St) : GenRepr.LeanString.push_str t s = unwrapN (GenRepr.LeanString.try_push_str t s) := by
  unfold GenRepr.LeanString.push_str; exact call_unwrap _ s
theorem remove_is (i : Nat) (s : St) : GenRepr.LeanString.remove i s = unwrapN (GenRepr.LeanString.try_remove i s) := by
  unfold GenRepr.LeanString.remove; exact call_unwrap _ s
theorem insert_is (i : Nat) (ch : Chr) (s : St) :
    GenRepr.LeanString.insert i ch s = unwrapN (GenRepr.LeanString.try_insert i ch s) := by
  unfold GenRepr.LeanString.insert; exact call_unwrap _ s
theorem insert_str_is (i : Nat) (t : Str) (s : St) :
    GenRepr.LeanString.insert_str i t s = unwrapN (GenRepr.LeanString.try_insert_str i t s) := by
  unfold GenRepr.LeanString.insert_str; exact call_unwrap _ s
theorem truncate_is (n : Nat) (s : St) : GenRepr.LeanString.truncate n s = unwrapN (GenRepr.LeanString.try_truncate n s) := by
  unfold GenRepr.LeanString.truncate; exact call_unwrap _ s
theorem reserve_is (n : Nat) (s : St) : GenRepr.LeanString.reserve n s = unwrapN (GenRepr.LeanString.try_reserve n s) := by
  unfold GenRepr.LeanString.reserve; exact call_unwrap _ s
theorem shrink_to_is (n : Nat) (s : St) : GenRepr.LeanString.shrink_to n s = unwrapN (GenRepr.LeanString.try_shrink_to n s) := by
  unfold GenRepr.LeanString.shrink_to; exact call_unwrap _ s
theorem shrink_to_fit_is (s : St) : GenRepr.LeanString.shrink_to_fit s = unwrapN (GenRepr.LeanString.try_shrink_to_fit s) := by
  unfold GenRepr.LeanString.shrink_to_fit; exact call_unwrap _ s
theorem with_capacity_is (c : Nat) (s : St) :
    GenRepr.LeanString.with_capacity c s = unwrapN (GenRepr.LeanString.try_with_capacity c s) := by
  unfold GenRepr.LeanString.with_capacity; exact call_unwrap _ s

/-- `s += rhs` is `s.push_str(rhs)` -/
theorem add_assign_is (t : Str) (s : St) : GenRepr.LeanString.add_assign t s = norm (GenRepr.LeanString.push_str t s) := by
  unfold GenRepr.LeanString.add_assign
  rw [bind_ap, call_norm]
  cases GenRepr.LeanString.push_str t s <;> rfl

/-- `fmt::Write::write_str` appends and always answers `Ok(())` (an allocation failure is a panic, not `fmt::Error`) -/
theorem write_str_is (t : Str) (s : St) :
    GenRepr.LeanString.write_str t s = match norm (GenRepr.LeanString.push_str t s) with
      | .next _ s' => .next (.ok ()) s'
      | .done v s' => .done (.ok v) s'
      | .pidx s' => .pidx s' | .palloc s' => .palloc s' | .pcb s' => .pcb s' | .ub u => .ub u := by
  unfold GenRepr.LeanString.write_str
  rw [bind_ap, call_norm]
  cases GenRepr.LeanString.push_str t s <;> rfl

/-- `s + rhs`: append, then the same two words -/
theorem add_is (t : Str) (s : St) :
    GenRepr.LeanString.add t s = match (norm (GenRepr.LeanString.push_str t s) : Step Handle Unit) with
      | .next _ s' => .next s'.self s'
      | .done _ s' => .next s'.self s'
      | .pidx s' => .pidx s' | .palloc s' => .palloc s' | .pcb s' => .pcb s' | .ub u => .ub u := by
  unfold GenRepr.LeanString.add
  rw [bind_ap, call_norm]
  cases GenRepr.LeanString.push_str t s <;> simp only [norm, bind_ap, read_self_ap, pure_ap]

/-- `LeanString::from(&str)` is `Repr::from_str` unwrapped -/
theorem from_str_ref_is (t : Str) (s : St) :
    GenRepr.LeanString.from_str_ref t s = unwrapN (GenRepr.Repr.from_str t s) := by
  unfold GenRepr.LeanString.from_str_ref
  rw [bind_ap, call_norm]
  cases h : GenRepr.Repr.from_str t s with
  | next a s' => cases a <;> simp only [norm, bind_ap, unwrap_ok, unwrap_err, lean_string_ctor_ap, pure_ap, unwrapN]
  | done a s' => cases a <;> simp only [norm, bind_ap, unwrap_ok, unwrap_err, lean_string_ctor_ap, pure_ap, unwrapN]
  | pidx s' => rfl
  | palloc s' => rfl
  | pcb s' => rfl
  | ub u => rfl

end LS.GenTie
