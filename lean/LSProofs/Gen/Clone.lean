import LSProofs.Gen.Base
/-! # Tie: `Repr::make_shallow_clone` -/
open LS LS.Rt
set_option linter.unusedSimpArgs false

namespace LS.GenTie

/-- `make_shallow_clone` is the hand model's `shallowClone` as long as the count is below
`isize::MAX` (beyond that the source aborts the clone; the model's count is unbounded) -/
theorem make_shallow_clone_step (s : St)
    (hrc : ∀ a l b, s.self = .heap a l → s.hp.get? a = some b → b.rc ≤ isize_MAX) :
    GenRepr.Repr.make_shallow_clone s =
      match shallowClone s.hp s.self with
      | .ok (hp', r') => .next r' { s with hp := hp' }
      | .error u => .ub u := by
  rcases s with ⟨rf, st, hp, r⟩
  unfold GenRepr.Repr.make_shallow_clone shallowClone
  cases r with
  | inl raw => rt_step
  | stat i l => rt_step
  | heap a l =>
    cases hg : hp.get? a with
    | none => rt_heap_none rf st hp a l hg [Heap.retain]
    | some b =>
      have hle : ¬ b.rc > isize_MAX := by have := hrc a l b rfl hg; omega
      rt_heap_some rf st hp a l hg [Heap.retain, hle]

end LS.GenTie
