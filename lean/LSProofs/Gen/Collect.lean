import LSProofs.Gen.Extend
import LSProofs.Gen.CloneDrop
/-! # Ties: `FromIterator<char>` and `FromIterator<&str>` for `LeanString` (`iter.collect()`)

A static function that builds a *local* `LeanString` and pushes into it.  The translator makes that local the state's
`self` and wraps the rest of the function in `dropOnUnwind LeanString::drop`: Rust runs the local's destructor when a
later call unwinds (the F3 repair in `/repo` made the accumulator a `LeanString` for exactly that reason; a raw `Repr`
accumulator would not be wrapped and the tie would fail on the leaked block). -/
open LS LS.Rt
set_option linter.unusedSimpArgs false

namespace LS.GenTie

theorem dropOnUnwind_ap {ρ α : Type} (d : M Unit Unit) (m : M ρ α) (s : St) :
    dropOnUnwind d m s =
      match m s with
      | .pidx s' => (match d s' with
          | .next _ s'' | .done _ s'' => .pidx s''
          | .pidx s'' => .pidx s'' | .palloc s'' => .palloc s'' | .pcb s'' => .pcb s'' | .ub u => .ub u)
      | .palloc s' => (match d s' with
          | .next _ s'' | .done _ s'' => .palloc s''
          | .pidx s'' => .pidx s'' | .palloc s'' => .palloc s'' | .pcb s'' => .pcb s'' | .ub u => .ub u)
      | .pcb s' => (match d s' with
          | .next _ s'' | .done _ s'' => .pcb s''
          | .pidx s'' => .pidx s'' | .palloc s'' => .palloc s'' | .pcb s'' => .pcb s'' | .ub u => .ub u)
      | .next a s' => .next a s'
      | .done v s' => .done v s'
      | .ub u => .ub u := by
  unfold dropOnUnwind
  cases m s with
  | next a s' => rfl
  | done v s' => rfl
  | ub u => rfl
  | pidx s' => simp only []; cases d s' <;> rfl
  | palloc s' => simp only []; cases d s' <;> rfl
  | pcb s' => simp only []; cases d s' <;> rfl

/-- what the public call does with the outcome of the loop on the value under construction: success hands the value
out; a panic (refused allocation, panicking iterator) first drops the value — the model's `finishTemp` -/
def collectOut (rf : Refuse) (st : List Bytes) : Res Unit → Step Handle Handle
  | .ok _ hp r => .next r ⟨rf, st, hp, r⟩
  | .err hp r => (match releaseRepr hp r with | .ok hp' => .palloc ⟨rf, st, hp', .inl inlEmpty⟩ | .error u => .ub u)
  | .pidx hp r => (match releaseRepr hp r with | .ok hp' => .pidx ⟨rf, st, hp', .inl inlEmpty⟩ | .error u => .ub u)
  | .pcb hp r => (match releaseRepr hp r with | .ok hp' => .pcb ⟨rf, st, hp', .inl inlEmpty⟩ | .error u => .ub u)
  | .ub u => .ub u

/-- the rest of `from_iter` after the value under construction was installed: loop under the unwinding guard -/
theorem collect_tail {w : World} {h : Nat} (rf : Refuse) (items : List (Option Chr)) (hp : Heap) (r : Handle)
    (hg : IsGood w h hp r) (hv : ∀ c, some c ∈ items → Valid c.b ∧ c.b.length ≤ 4) :
    dropOnUnwind GenRepr.LeanString.drop
      (Rt.bind (forLoop (fun ch => Rt.bind (Rt.call (GenRepr.LeanString.push ch)) fun _ => Rt.pure ()) items) fun _ =>
        Rt.bind Repr.read_self fun t => Rt.pure t) ⟨rf, w.statics, hp, r⟩ =
      collectOut rf w.statics (pushLoop rf w.statics hp r (items.map (Option.map (·.b)))) := by
  rw [dropOnUnwind_ap, bind_ap, push_loop rf items hp r hg hv]
  cases hl : pushLoop rf w.statics hp r (items.map (Option.map (·.b))) with
  | ok v hp1 r1 => simp only [stepOfResV, bind_ap, read_self_ap, pure_ap, collectOut]
  | ub u => simp only [stepOfResV, collectOut]
  | err hp1 r1 =>
    simp only [stepOfResV, collectOut, drop_step]
    cases releaseRepr hp1 r1 <;> rfl
  | pidx hp1 r1 =>
    simp only [stepOfResV, collectOut, drop_step]
    cases releaseRepr hp1 r1 <;> rfl
  | pcb hp1 r1 =>
    simp only [stepOfResV, collectOut, drop_step]
    cases releaseRepr hp1 r1 <;> rfl

/-- **`FromIterator<char>`** (`iter.collect::<LeanString>()`): reserve the size hint's lower bound — on failure start
from the empty inline value —, push the characters, hand the value out; if a push is refused or `next()` panics the
half-built value is dropped first.  Exactly `Api.step (.collectChars d hint items)`, for every iterator and allocator. -/
theorem from_iter_char_tie {w : World} {d : Nat} (hw : Wf w) (hd : w.get d = none) (rf : Refuse) (it : CharIter) (self0 : Handle)
    (hv : ∀ c, some c ∈ it.items → Valid c.b ∧ c.b.length ≤ 4) :
    GenRepr.LeanString.from_iter_char it ⟨rf, w.statics, w.heap, self0⟩ =
      match withCapacity rf w.heap it.hint with
      | (some r, hp) => collectOut rf w.statics (pushLoop rf w.statics hp r (it.items.map (Option.map (·.b))))
      | (none, hp) => collectOut rf w.statics (pushLoop rf w.statics hp (.inl inlEmpty) (it.items.map (Option.map (·.b)))) := by
  unfold GenRepr.LeanString.from_iter_char
  rcases withCapacity_fresh (st := w.statics) (linv_empty hw hd) rf it.hint with ⟨hp1, he, hs⟩ | ⟨hp1, r, he, g, _⟩
  · have gi : IsGood w d hp1 (.inl inlEmpty) :=
      ⟨[], good_congr hs (good_inline_fresh (linv_empty hw hd) [] valid_nil (by simp))⟩
    rt_step [CharIter.rs_into_iter, CharIter.rs_size_hint, CharIter.rs_for_each, with_capacity_step, he, new_step,
      collect_tail rf it.items hp1 _ gi hv]
  · rt_step [CharIter.rs_into_iter, CharIter.rs_size_hint, CharIter.rs_for_each, with_capacity_step, he,
      collect_tail rf it.items hp1 r ⟨_, g⟩ hv]


theorem ls_new_step (s : St) : GenRepr.LeanString.new s = .next (.inl inlEmpty) s := by
  unfold GenRepr.LeanString.new; rt_step [new_step]

/-- `Extend<&str>::extend` as a step (the form a caller rewrites with) -/
theorem extend_str_step {w : World} {h : Nat} (rf : Refuse) (it : StrIter) (hp : Heap) (r : Handle)
    (hg : IsGood w h hp r) (hv : ∀ t, some t ∈ it.items → Valid t.b) :
    GenRepr.LeanString.extend_str it ⟨rf, w.statics, hp, r⟩ =
      stepOfResV rf w.statics (pushLoop rf w.statics hp r (it.items.map (Option.map (·.b)))) := by
  unfold GenRepr.LeanString.extend_str
  simp only [bind_ap, StrIter.rs_into_iter, StrIter.rs_for_each, pure_ap, push_str_loop rf it.items hp r hg hv]
  cases pushLoop rf w.statics hp r (it.items.map (Option.map (·.b))) <;> rfl

/-- **`FromIterator<&str>`**: start from the empty value, `extend`, hand the value out (dropped first if a push is
refused or the iterator panics) — `Api.step (.collectStrs d items)` -/
theorem from_iter_str_tie {w : World} {d : Nat} (hw : Wf w) (hd : w.get d = none) (rf : Refuse) (it : StrIter) (self0 : Handle)
    (hv : ∀ t, some t ∈ it.items → Valid t.b) :
    GenRepr.LeanString.from_iter_str it ⟨rf, w.statics, w.heap, self0⟩ =
      collectOut rf w.statics (pushLoop rf w.statics w.heap (.inl inlEmpty) (it.items.map (Option.map (·.b)))) := by
  unfold GenRepr.LeanString.from_iter_str
  have gi : IsGood w d w.heap (.inl inlEmpty) := ⟨[], good_inline_fresh (linv_empty hw hd) [] valid_nil (by simp)⟩
  rw [bind_ap, call_norm, ls_new_step]
  simp only [norm_next, bind_ap, assign_ap, dropOnUnwind_ap, call_norm, extend_str_step rf it w.heap _ gi hv, norm_stepOfResV]
  cases hl : pushLoop rf w.statics w.heap (.inl inlEmpty) (it.items.map (Option.map (·.b))) with
  | ok v hp1 r1 => simp only [stepOfResV, bind_ap, read_self_ap, pure_ap, collectOut]
  | ub u => simp only [stepOfResV, collectOut]
  | err hp1 r1 => simp only [stepOfResV, collectOut, drop_step]; cases releaseRepr hp1 r1 <;> rfl
  | pidx hp1 r1 => simp only [stepOfResV, collectOut, drop_step]; cases releaseRepr hp1 r1 <;> rfl
  | pcb hp1 r1 => simp only [stepOfResV, collectOut, drop_step]; cases releaseRepr hp1 r1 <;> rfl

end LS.GenTie
