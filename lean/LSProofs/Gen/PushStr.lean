import LSProofs.Gen.Reserve
import LSProofs.Gen.SetLen
/-! # Tie: `Repr::push_str` -/
open LS LS.Rt
set_option linter.unusedSimpArgs false

namespace LS.GenTie

/-- `push_str`: for every execution in which the hand model raises no alarm (every execution from a
well-formed world), the translated body does what the hand model does -/
theorem push_str_tie (t : Str) (s : St) (hd : DataOk s.hp) (hr : RawOk s.self)
    (hub : ∀ u, pushStr s.rf s.st s.hp s.self t.b ≠ .ub u) :
    resOf (GenRepr.Repr.push_str t s) = pushStr s.rf s.st s.hp s.self t.b := by
  rcases s with ⟨rf, st, hp, r⟩
  simp only at hub hd hr
  unfold GenRepr.Repr.push_str
  unfold pushStr at hub ⊢
  by_cases he : t.b.isEmpty = true
  · rt_step [he, resOf]
  · have hne : t.b.isEmpty = false := by simpa using he
    simp only [hne, Bool.false_eq_true, ↓reduceIte] at hub ⊢
    have hres := reserve_norm (ρ' := Rs Unit) t.b.length ⟨rf, st, hp, r⟩ hd hr
    simp only at hres
    cases hrv : reserve rf st hp r t.b.length with
    | ub u => rw [hrv] at hub; exact absurd rfl (hub u)
    | err hp1 r1 => rt_step [hne, call_norm, hres, hrv, stepOfRes, resOf]
    | pidx hp1 r1 => rt_step [hne, call_norm, hres, hrv, stepOfRes, resOf]
    | pcb hp1 r1 => exact absurd hrv (reserve_ne_pcb _ _ _ _ _ _ _)
    | ok v hp1 r1 =>
      rw [hrv] at hub
      simp only [writeThenSetLen] at hub ⊢
      cases hwb : writeBytes hp1 r1 r.len t.b with
      | error u => rw [hwb] at hub; exact absurd rfl (hub u)
      | ok p =>
        obtain ⟨hp2, r2⟩ := p
        rw [hwb] at hub
        simp only at hub ⊢
        obtain ⟨c, hsl, hle⟩ := slice_of_write (ρ := Rs Unit) rf st hwb
        have hc1 := eq_true (show r.len ≤ r.len + t.b.length ∧ r.len + t.b.length ≤ c from ⟨by omega, hle⟩)
        have hc2 := eq_true (show t.b.length = r.len + t.b.length - r.len by omega)
        have hc3 := eq_true (reserve_ok_add hrv)
        cases hs2 : setLen r2 (r.len + t.b.length) with
        | error u => rw [hs2] at hub; exact absurd rfl (hub u)
        | ok r3 =>
          rt_step [hne, call_norm, hres, hrv, stepOfRes, hsl, hc1, hc2, hc3, Nat.zero_add, hwb, set_len_step, hs2, norm_next, norm_done, norm_pidx, norm_ub, resOf]
/-- the same tie in the form a caller rewrites with -/
theorem push_str_norm {ρ' : Type} (t : Str) (s : St) (hd : DataOk s.hp) (hr : RawOk s.self)
    (hub : ∀ u, pushStr s.rf s.st s.hp s.self t.b ≠ .ub u) :
    (norm (GenRepr.Repr.push_str t s) : Step ρ' (Rs Unit)) = stepOfRes s.rf s.st (pushStr s.rf s.st s.hp s.self t.b) := by
  rcases s with ⟨rf, st, hp, r⟩
  simp only at hub hd hr
  unfold GenRepr.Repr.push_str
  unfold pushStr at hub ⊢
  by_cases he : t.b.isEmpty = true
  · rt_step [he, norm_next, norm_done, norm_pidx, norm_palloc, norm_pcb, norm_ub, stepOfRes]
  · have hne : t.b.isEmpty = false := by simpa using he
    simp only [hne, Bool.false_eq_true, ↓reduceIte] at hub ⊢
    have hres := reserve_norm (ρ' := Rs Unit) t.b.length ⟨rf, st, hp, r⟩ hd hr
    simp only at hres
    cases hrv : reserve rf st hp r t.b.length with
    | ub u => rw [hrv] at hub; exact absurd rfl (hub u)
    | err hp1 r1 => rt_step [hne, call_norm, hres, hrv, stepOfRes, norm_next, norm_done, norm_pidx, norm_palloc, norm_pcb, norm_ub, stepOfRes]
    | pidx hp1 r1 => rt_step [hne, call_norm, hres, hrv, stepOfRes, norm_next, norm_done, norm_pidx, norm_palloc, norm_pcb, norm_ub, stepOfRes]
    | pcb hp1 r1 => exact absurd hrv (reserve_ne_pcb _ _ _ _ _ _ _)
    | ok v hp1 r1 =>
      rw [hrv] at hub
      simp only [writeThenSetLen] at hub ⊢
      cases hwb : writeBytes hp1 r1 r.len t.b with
      | error u => rw [hwb] at hub; exact absurd rfl (hub u)
      | ok p =>
        obtain ⟨hp2, r2⟩ := p
        rw [hwb] at hub
        simp only at hub ⊢
        obtain ⟨c, hsl, hle⟩ := slice_of_write (ρ := Rs Unit) rf st hwb
        have hc1 := eq_true (show r.len ≤ r.len + t.b.length ∧ r.len + t.b.length ≤ c from ⟨by omega, hle⟩)
        have hc2 := eq_true (show t.b.length = r.len + t.b.length - r.len by omega)
        have hc3 := eq_true (reserve_ok_add hrv)
        cases hs2 : setLen r2 (r.len + t.b.length) with
        | error u => rw [hs2] at hub; exact absurd rfl (hub u)
        | ok r3 =>
          rt_step [hne, call_norm, hres, hrv, stepOfRes, hsl, hc1, hc2, hc3, Nat.zero_add, hwb, set_len_step, hs2, norm_next, norm_done, norm_pidx, norm_ub, norm_next, norm_done, norm_pidx, norm_palloc, norm_pcb, norm_ub, stepOfRes]

end LS.GenTie
