import LSProofs.Gen.Base
import LSProofs.Wf
import LSProofs.Props.C20
/-! # Ties: `is_heap_buffer` / `is_static_buffer` as written (`last_byte() == Marker`), and the side conditions of the other ties from `Wf` -/
open LS LS.Rt
set_option linter.unusedSimpArgs false

namespace LS.GenTie

/-- the discriminating byte decides the storage kind: `is_heap_buffer` as written (`last_byte() ==
HeapMarker`) is the kind test of the model, on every handle a well-formed world can hold -/
theorem is_heap_buffer_body_step (s : St) (hh : ∀ a l, s.self = .heap a l → l ≤ MAX_LEN)
    (hs : ∀ i l, s.self = .stat i l → l ≤ STATIC_MAX_LEN) (hi : ∀ raw, s.self = .inl raw → inlLast raw < 0xD0) :
    GenRepr.Repr.is_heap_buffer_body s = .next (isHeap s.self) s := by
  rcases s with ⟨rf, st, hp, r⟩
  unfold GenRepr.Repr.is_heap_buffer_body
  have hk : LastByte.HeapMarker = 0xD0 := Tie.heapMarker_eq
  cases r with
  | heap a l =>
    have := C20.lastByte_heap a l (hh a l rfl)
    rt_step [this, hk]
  | stat i l =>
    have := C20.lastByte_static i l (hs i l rfl)
    rt_step [this, hk]
    rfl
  | inl raw =>
    have h1 : (Handle.inl raw).lastByte = inlLast raw := rfl
    have h2 : ¬ inlLast raw = 0xD0 := by have := hi raw rfl; omega
    rt_step [h1, hk, h2]

theorem is_static_buffer_body_step (s : St) (hh : ∀ a l, s.self = .heap a l → l ≤ MAX_LEN)
    (hs : ∀ i l, s.self = .stat i l → l ≤ STATIC_MAX_LEN) (hi : ∀ raw, s.self = .inl raw → inlLast raw < 0xD0) :
    GenRepr.Repr.is_static_buffer_body s = .next (isStatic s.self) s := by
  rcases s with ⟨rf, st, hp, r⟩
  unfold GenRepr.Repr.is_static_buffer_body
  have hk : LastByte.StaticMarker = 0xD1 := Tie.staticMarker_eq
  cases r with
  | heap a l =>
    have := C20.lastByte_heap a l (hh a l rfl)
    rt_step [this, hk]
    rfl
  | stat i l =>
    have := C20.lastByte_static i l (hs i l rfl)
    rt_step [this, hk]
  | inl raw =>
    have h1 : (Handle.inl raw).lastByte = inlLast raw := rfl
    have h2 : ¬ inlLast raw = 0xD1 := by have := hi raw rfl; omega
    rt_step [h1, hk, h2]

/-! ## The side conditions hold in every well-formed world -/

theorem dataOk_of_wf {w : World} (hw : Wf w) : DataOk w.heap :=
  fun a b hg => (hw.blocks a b hg).2.2.2.1

theorem rawOk_of_wf {w : World} (hw : Wf w) {h : Nat} {r : Handle} (hr : w.get h = some r) : RawOk r := by
  have := hw.handles h r hr
  cases r with
  | inl raw => exact this.1.trans Tie.maxInline_eq.symm
  | heap a l => trivial
  | stat i l => trivial

end LS.GenTie
