import LSProofs.Gen.Good
import LSProofs.Gen.Panicking
import LSProofs.StepSpec
/-! # Ties: `Extend<char>` and `Extend<&str>` (`String`, `Box<str>`, `Cow<str>` alike) for `LeanString`

The caller's iterator is data (items, `none` = `next()` panics; a size hint).  The translated loops are the model's
`pushLoop`, item by item, from every state of the invariant: a refused allocation is the panic of `unwrap_with_msg`,
a panicking `next()` unwinds with the items pushed so far in place. -/
open LS LS.Rt
set_option linter.unusedSimpArgs false

namespace LS.GenTie

/-- a hand-model outcome of an infallible `()` method, as a step: a refused allocation is the panic of
`unwrap_with_msg`, a panicking callback unwinds -/
def stepOfResV {ρ : Type} (rf : Refuse) (st : List Bytes) : Res Unit → Step ρ Unit
  | .ok _ hp r => .next () ⟨rf, st, hp, r⟩
  | .err hp r => .palloc ⟨rf, st, hp, r⟩
  | .pidx hp r => .pidx ⟨rf, st, hp, r⟩
  | .pcb hp r => .pcb ⟨rf, st, hp, r⟩
  | .ub u => .ub u

theorem norm_stepOfResV {ρ : Type} (rf : Refuse) (st : List Bytes) (res : Res Unit) :
    (norm (stepOfResV rf st res : Step Unit Unit) : Step ρ Unit) = stepOfResV rf st res := by
  cases res <;> rfl

/-- `self.push_str(s)` (the infallible one) from a state of the invariant -/
theorem ls_push_str_good {ocf base st hp r t} (g : Good ocf base st hp r t) (rf : Refuse) (s : Bytes) (hs : Valid s) :
    GenRepr.LeanString.push_str ⟨s⟩ ⟨rf, st, hp, r⟩ = stepOfResV rf st (pushStr rf st hp r s) := by
  rw [push_str_is, try_push_str_is, push_str_norm_good g rf s hs]
  cases pushStr rf st hp r s <;> rfl

/-- `for s in iter { self.push_str(s) }` is the model's `pushLoop` -/
theorem push_str_loop {ρ : Type} {w : World} {h : Nat} (rf : Refuse) : ∀ (items : List (Option Str)) (hp : Heap) (r : Handle),
    IsGood w h hp r → (∀ t, some t ∈ items → Valid t.b) →
    (forLoop (fun s => Rt.bind (Rt.call (GenRepr.LeanString.push_str s)) fun _ => Rt.pure ()) items : M ρ Unit) ⟨rf, w.statics, hp, r⟩ =
      stepOfResV rf w.statics (pushLoop rf w.statics hp r (items.map (Option.map (·.b)))) := by
  intro items
  induction items with
  | nil => intro hp r _ _; rfl
  | cons it rest ih =>
    intro hp r hg hv
    cases it with
    | none => rfl
    | some s =>
      obtain ⟨t, g⟩ := hg
      have hvs := hv s (List.mem_cons_self ..)
      have hs := pushStr_sat g rf s.b hvs
      simp only [forLoop, List.map_cons, Option.map_some, pushLoop, bind_ap, call_norm, ls_push_str_good g rf s.b hvs, norm_stepOfResV]
      revert hs
      cases pushStr rf w.statics hp r s.b with
      | ok v hp1 r1 =>
        intro g1
        simp only [stepOfResV, pure_ap]
        exact ih hp1 r1 ⟨_, g1⟩ (fun s' hs' => hv s' (List.mem_cons_of_mem _ hs'))
      | err hp1 r1 => intro _; rfl
      | pidx hp1 r1 => intro hf; exact hf.elim
      | pcb hp1 r1 => intro hf; exact hf.elim
      | ub u => intro hf; exact hf.elim

/-- **`Extend<&str>`** (`String`, `Box<str>`, `Cow<str>` alike): what `Api.step (.extendStrs h items)` runs on the
handle — for every item list, every allocator, from every state of the invariant -/
theorem extend_str_tie {w : World} {h : Nat} (rf : Refuse) (it : StrIter) (hp : Heap) (r : Handle)
    (hg : IsGood w h hp r) (hv : ∀ t, some t ∈ it.items → Valid t.b) :
    resV (GenRepr.LeanString.extend_str it ⟨rf, w.statics, hp, r⟩) =
      pushLoop rf w.statics hp r (it.items.map (Option.map (·.b))) := by
  unfold GenRepr.LeanString.extend_str
  simp only [bind_ap, StrIter.rs_into_iter, StrIter.rs_for_each, pure_ap, push_str_loop rf it.items hp r hg hv]
  cases pushLoop rf w.statics hp r (it.items.map (Option.map (·.b))) <;> rfl


/-- `self.push(ch)` (the infallible one) from a state of the invariant -/
theorem ls_push_good {ocf base st hp r t} (g : Good ocf base st hp r t) (rf : Refuse) (ch : Chr) (hs : Valid ch.b)
    (h4 : ch.b.length ≤ 4) :
    GenRepr.LeanString.push ch ⟨rf, st, hp, r⟩ = stepOfResV rf st (pushStr rf st hp r ch.b) := by
  rw [push_is, try_push_is ch h4, push_str_norm_good g rf ch.b hs]
  cases pushStr rf st hp r ch.b <;> rfl

theorem push_loop {ρ : Type} {w : World} {h : Nat} (rf : Refuse) : ∀ (items : List (Option Chr)) (hp : Heap) (r : Handle),
    IsGood w h hp r → (∀ c, some c ∈ items → Valid c.b ∧ c.b.length ≤ 4) →
    (forLoop (fun ch => Rt.bind (Rt.call (GenRepr.LeanString.push ch)) fun _ => Rt.pure ()) items : M ρ Unit) ⟨rf, w.statics, hp, r⟩ =
      stepOfResV rf w.statics (pushLoop rf w.statics hp r (items.map (Option.map (·.b)))) := by
  intro items
  induction items with
  | nil => intro hp r _ _; rfl
  | cons it rest ih =>
    intro hp r hg hv
    cases it with
    | none => rfl
    | some c =>
      obtain ⟨t, g⟩ := hg
      obtain ⟨hvs, h4⟩ := hv c (List.mem_cons_self ..)
      have hs := pushStr_sat g rf c.b hvs
      simp only [forLoop, List.map_cons, Option.map_some, pushLoop, bind_ap, call_norm, ls_push_good g rf c hvs h4, norm_stepOfResV]
      revert hs
      cases pushStr rf w.statics hp r c.b with
      | ok v hp1 r1 =>
        intro g1
        simp only [stepOfResV, pure_ap]
        exact ih hp1 r1 ⟨_, g1⟩ (fun s' hs' => hv s' (List.mem_cons_of_mem _ hs'))
      | err hp1 r1 => intro _; rfl
      | pidx hp1 r1 => intro hf; exact hf.elim
      | pcb hp1 r1 => intro hf; exact hf.elim
      | ub u => intro hf; exact hf.elim

/-- **`Extend<char>`**: reserve the size hint's lower bound *ignoring a failure*, then push the characters one by
one — exactly what `Api.step (.extendChars h hint items)` runs on the handle -/
theorem extend_char_tie {w : World} {h : Nat} (rf : Refuse) (it : CharIter) (r : Handle) {t : Bytes}
    (g : Good (oc w h) w.heap w.statics w.heap r t) (hv : ∀ c, some c ∈ it.items → Valid c.b ∧ c.b.length ≤ 4) :
    resV (GenRepr.LeanString.extend_char it ⟨rf, w.statics, w.heap, r⟩) =
      match reserve rf w.statics w.heap r it.hint with
      | .ub u => .ub u
      | .ok _ hp1 r1 | .err hp1 r1 | .pidx hp1 r1 | .pcb hp1 r1 =>
        pushLoop rf w.statics hp1 r1 (it.items.map (Option.map (·.b))) := by
  unfold GenRepr.LeanString.extend_char
  have hres := reserve_norm (ρ' := Rs Unit) it.hint ⟨rf, w.statics, w.heap, r⟩ (dataOk_of_good g) (rawOk_of_good g)
  simp only at hres
  have hr := reserve_sat g rf it.hint
  simp only [bind_ap, CharIter.rs_into_iter, CharIter.rs_size_hint, CharIter.rs_for_each, pure_ap, call_norm, try_reserve_is]
  revert hr
  cases hrv : reserve rf w.statics w.heap r it.hint with
  | ub u => intro hf; exact hf.elim
  | pidx hp1 r1 => intro hf; exact hf.elim
  | pcb hp1 r1 => intro hf; exact hf.elim
  | ok v hp1 r1 =>
    intro ⟨g1, _, _⟩
    simp only [hres, hrv, stepOfRes, norm_next, push_loop rf it.items hp1 r1 ⟨_, g1⟩ hv]
    cases pushLoop rf w.statics hp1 r1 (it.items.map (Option.map (·.b))) <;> rfl
  | err hp1 r1 =>
    intro hu
    simp only [hres, hrv, stepOfRes, norm_next, push_loop rf it.items hp1 r1 ⟨_, unchanged_good g hu⟩ hv]
    cases pushLoop rf w.statics hp1 r1 (it.items.map (Option.map (·.b))) <;> rfl

end LS.GenTie
