import LSProofs.Gen.Reserve
import LSProofs.Gen.SetLen
/-! # Tie: `Repr::insert_str` -/
open LS LS.Rt
set_option linter.unusedSimpArgs false

namespace LS.GenTie

/-- `insert_str`: the tail is moved with `ptr::copy`, the gap filled with `copy_nonoverlapping`; the hand model
writes `s ++ tail` in one go.  They agree on every execution in which the hand model raises no alarm and
`reserve` hands back a state with the same length and intact storage (`hpost`; both follow from `Good`,
see `LSProofs/Gen/Good.lean`). -/
theorem insert_str_tie (idx : Nat) (t : Str) (s : St) (hd : DataOk s.hp) (hr : RawOk s.self)
    (hpost : ∀ v hp1 r1, reserve s.rf s.st s.hp s.self t.b.length = .ok v hp1 r1 → r1.len = s.self.len ∧ DataOk hp1 ∧ RawOk r1)
    (hub : ∀ u, insertStr s.rf s.st s.hp s.self idx t.b ≠ .ub u) :
    resOf (GenRepr.Repr.insert_str idx t s) = insertStr s.rf s.st s.hp s.self idx t.b := by
  rcases s with ⟨rf, st, hp, r⟩
  simp only at hub hd hr hpost
  unfold GenRepr.Repr.insert_str
  unfold insertStr at hub ⊢
  cases htx : textOf hp st r with
  | error u => rw [htx] at hub; exact absurd rfl (hub u)
  | ok tx =>
    rw [htx] at hub; simp only at hub ⊢
    cases hb : isBoundary tx idx with
    | false => rt_step [htx, hb, resOf]
    | true =>
      simp only [hb, Bool.not_true, Bool.false_eq_true, ↓reduceIte] at hub ⊢
      cases hca : checkedAdd r.len t.b.length with
      | none => rt_step [htx, hb, hca, resOf]
      | some newLen =>
        rw [hca] at hub; simp only at hub ⊢
        have hres := reserve_norm (ρ' := Rs Unit) t.b.length ⟨rf, st, hp, r⟩ hd hr
        simp only at hres
        cases hrv : reserve rf st hp r t.b.length with
        | ub u => rw [hrv] at hub; exact absurd rfl (hub u)
        | err hp1 r1 => rt_step [htx, hb, hca, call_norm, hres, hrv, stepOfRes, resOf]
        | pidx hp1 r1 => rt_step [htx, hb, hca, call_norm, hres, hrv, stepOfRes, resOf]
        | pcb hp1 r1 => exact absurd hrv (reserve_ne_pcb _ _ _ _ _ _ _)
        | ok v hp1 r1 =>
          obtain ⟨hlen1, hD1, hR1⟩ := hpost v hp1 r1 hrv
          rw [hrv] at hub; simp only at hub ⊢
          cases ht1 : textOf hp1 st r1 with
          | error u => rw [ht1] at hub; exact absurd rfl (hub u)
          | ok t1 =>
            rw [ht1] at hub; simp only [writeThenSetLen] at hub ⊢
            cases hwb : writeBytes hp1 r1 idx (t.b ++ t1.drop idx) with
            | error u => rw [hwb] at hub; exact absurd rfl (hub u)
            | ok p =>
              obtain ⟨hp3, r3⟩ := p
              rw [hwb] at hub; simp only at hub ⊢
              obtain ⟨hp2, r2, hw1, hw2⟩ := writeBytes_append hD1 hR1 hwb
              obtain ⟨c, hsl, hle⟩ := slice_of_write (ρ := Rs Unit) rf st hw1
              obtain ⟨stor, hstor, ht1e, hsl1⟩ := storage_text hD1 hR1 ht1 hw1
              have hnl : newLen = r.len + t.b.length := by
                unfold checkedAdd at hca; split at hca
                · injection hca with hca; exact hca.symm
                · cases hca
              have hcnt : newLen - idx - t.b.length = r1.len - idx := by omega
              have htail : (stor.drop idx).take (r1.len - idx) = t1.drop idx := by
                rw [ht1e, List.drop_take]
              have hrd := eq_true (show idx + (r1.len - idx) ≤ stor.length by
                have hile : idx ≤ tx.length := by
                  rcases Nat.lt_or_ge tx.length idx with h' | h'
                  · have := hb; unfold isBoundary at this
                    rw [if_neg (by omega), List.getElem?_eq_none (by omega)] at this
                    simp at this; omega
                  · exact h'
                have := text_len hd hr htx
                omega)
              have hfull := eq_true (Nat.le_refl t.b.length)
              have hile' : idx ≤ r.len := by
                have hile : idx ≤ tx.length := by
                  rcases Nat.lt_or_ge tx.length idx with h' | h'
                  · have := hb; unfold isBoundary at this
                    rw [if_neg (by omega), List.getElem?_eq_none (by omega)] at this
                    simp at this; omega
                  · exact h'
                have := text_len hd hr htx
                omega
              have hlt := reserve_ok_add hrv
              have ha1 := eq_true (show idx + t.b.length < USIZE by omega)
              have ha2 := eq_true (show idx ≤ newLen by omega)
              have ha3 := eq_true (show t.b.length ≤ newLen - idx by omega)
              cases hs3 : setLen r3 newLen with
              | error u => rw [hs3] at hub; exact absurd rfl (hub u)
              | ok r4 =>
                rt_step [htx, hb, hca, call_norm, hres, hrv, stepOfRes, hsl, hstor, ha1, ha2, ha3, hcnt, hrd, htail, Nat.zero_add, hw1,
                  hfull, List.take_length, hw2, set_len_step, hs3, norm_next, norm_done, norm_pidx, norm_ub, resOf]
end LS.GenTie
