import LSProofs.Gen.Base
/-! # Ties: `Repr::set_len`, `truncate_unchecked`, `truncate` -/
open LS LS.Rt
set_option linter.unusedSimpArgs false

namespace LS.GenTie

theorem set_len_step (n : Nat) (s : St) :
    GenRepr.Repr.set_len n s =
      match setLen s.self n with
      | .ok r' => .next () { s with self := r' }
      | .error u => .ub u := by
  rcases s with ⟨rf, st, hp, r⟩
  unfold GenRepr.Repr.set_len setLen
  cases r with
  | inl raw => by_cases h : n ≤ MAX_INLINE <;> rt_step [h]
  | heap a l => by_cases h : n ≤ MAX_LEN <;> rt_step [h]
  | stat i l => by_cases h : n ≤ STATIC_MAX_LEN <;> rt_step [h]

theorem truncate_unchecked_step (n : Nat) (s : St) :
    GenRepr.Repr.truncate_unchecked n s =
      match truncateUnchecked s.self n with
      | .ok r' => .next (.ok ()) { s with self := r' }
      | .error u => .ub u := by
  rcases s with ⟨rf, st, hp, r⟩
  unfold GenRepr.Repr.truncate_unchecked truncateUnchecked setLen
  cases r with
  | inl raw => by_cases h : n ≤ MAX_INLINE <;> rt_step [h]
  | heap a l => by_cases h : n ≤ MAX_LEN <;> rt_step [h]
  | stat i l => by_cases h : n ≤ STATIC_MAX_LEN <;> rt_step [h]

theorem truncate_tie (n : Nat) (s : St) :
    resOf (GenRepr.Repr.truncate n s) = truncate s.st s.hp s.self n := by
  rcases s with ⟨rf, st, hp, r⟩
  unfold GenRepr.Repr.truncate truncate
  by_cases h : n ≥ r.len
  · rt_step [h, resOf]
  · cases ht : textOf hp st r with
    | error u => rt_step [h, ht, resOf]
    | ok t =>
      cases hb : isBoundary t n with
      | false => rt_step [h, ht, hb, resOf]
      | true =>
        rt_step [h, ht, hb, truncate_unchecked_step]
        cases truncateUnchecked r n <;> simp only [resOf]

end LS.GenTie
