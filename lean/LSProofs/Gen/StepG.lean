import LSProofs.Gen.Good
import LSProofs.Gen.CloneDrop
import LSProofs.Gen.Collect
import LSProofs.Gen.Clear
import LSProofs.Gen.Retain
import LSProofs.Gen.Bytes
import LSProofs.StepSpec
import LSProofs.Refine
import LSModel.ApiGen
/-!
# The translated public-call layer is the model's: `stepG = step`, and every history refines `String`

`stepG` (LSModel/ApiGen.lean) is `Api.step` with every call of a `Repr` function redirected to its translation in
`LSModel/GenRepr.lean` (regenerated from `/repo/src` on every run).  From every well-formed world it computes what
`step` computes; so `run_refines`, `run_wf`, `run_frame`, … are theorems about the code as translated.
-/
open LS LS.Rt
set_option linter.unusedSimpArgs false

namespace LS.GenTie

/-! ## The callees of `stepG` are the callees of `step` -/

theorem G_fromStr_eq (rf : Refuse) (hp : Heap) (t : Bytes) : G.fromStr rf hp t = fromStr rf hp t := by
  unfold G.fromStr
  rw [from_str_step]
  rcases fromStr rf hp t with ⟨o, hp'⟩
  cases o <;> rfl

theorem G_withCapacity_eq (rf : Refuse) (hp : Heap) (c : Nat) : G.withCapacity rf hp c = withCapacity rf hp c := by
  unfold G.withCapacity
  rw [with_capacity_step]
  rcases withCapacity rf hp c with ⟨o, hp'⟩
  cases o <;> rfl

theorem G_releaseRepr_eq (hp : Heap) (r : Handle) : G.releaseRepr hp r = releaseRepr hp r := by
  unfold G.releaseRepr
  rw [replace_inner_step]
  cases releaseRepr hp r <;> rfl

theorem G_truncate_eq (st : List Bytes) (hp : Heap) (r : Handle) (n : Nat) : G.truncate st hp r n = truncate st hp r n :=
  truncate_tie n ⟨G.nofail, st, hp, r⟩

theorem G_clear_eq (hp : Heap) (r : Handle) : G.clear hp r = clear hp r := clear_tie ⟨G.nofail, [], hp, r⟩

theorem G_shallowClone_eq (hp : Heap) (r : Handle) (hrc : RcSmall hp) : G.shallowClone hp r = shallowClone hp r := by
  unfold G.shallowClone
  rw [make_shallow_clone_step ⟨G.nofail, [], hp, r⟩ (fun a l b _ hg => hrc a b hg)]
  cases shallowClone hp r with
  | error u => rfl
  | ok p => obtain ⟨hp', r'⟩ := p; rfl

section good
variable {ocf : Nat → Nat} {base : Heap} {st : List Bytes} {hp : Heap} {r : Handle} {t : Bytes}

theorem G_reserve_eq (g : Good ocf base st hp r t) (rf : Refuse) (n : Nat) : G.reserve rf st hp r n = reserve rf st hp r n :=
  reserve_good g rf n
theorem G_shrinkTo_eq (g : Good ocf base st hp r t) (rf : Refuse) (m : Nat) : G.shrinkTo rf hp r m = shrinkTo rf hp r m :=
  shrink_to_tie m ⟨rf, [], hp, r⟩ (dataOk_of_good g)
theorem G_pushStr_eq (g : Good ocf base st hp r t) (rf : Refuse) (s : Bytes) (hs : Valid s) :
    G.pushStr rf st hp r s = pushStr rf st hp r s := push_str_good g rf s hs
theorem G_insertStr_eq (g : Good ocf base st hp r t) (rf : Refuse) (i : Nat) (s : Bytes) (hs : Valid s) :
    G.insertStr rf st hp r i s = insertStr rf st hp r i s := insert_str_good g rf i s hs
theorem G_pop_eq (g : Good ocf base st hp r t) : G.pop st hp r = pop st hp r := pop_good g G.nofail
theorem G_retain_eq (g : Good ocf base st hp r t) (rf : Refuse) (answers : List (Option Bool)) :
    G.retain rf st hp r answers = retain rf st hp r answers :=
  retain_good g rf answers (r.len + 1) (by rw [good_len g]; omega)
theorem G_remove_eq (g : Good ocf base st hp r t) (rf : Refuse) (i : Nat) : G.remove rf st hp r i = remove rf st hp r i :=
  remove_good g rf i
end good

/-! ## The loops -/

theorem pushLoopG_eq {w : World} {h : Nat} (rf : Refuse) : ∀ (items : List (Option Bytes)) (hp : Heap) (r : Handle),
    IsGood w h hp r → (∀ s, some s ∈ items → Valid s) →
    pushLoopG rf w.statics hp r items = pushLoop rf w.statics hp r items := by
  intro items
  induction items with
  | nil => intro hp r _ _; rfl
  | cons it rest ih =>
    intro hp r hg hv
    cases it with
    | none => rfl
    | some s =>
      obtain ⟨t, g⟩ := hg
      have hvs := hv s (List.mem_cons_self ..)
      have hs := pushStr_sat g rf s hvs
      simp only [pushLoopG, pushLoop, G_pushStr_eq g rf s hvs]
      revert hs
      cases pushStr rf w.statics hp r s with
      | ok v hp1 r1 => intro g1; exact ih hp1 r1 ⟨_, g1⟩ (fun s' hs' => hv s' (List.mem_cons_of_mem _ hs'))
      | err hp1 r1 => intro _; rfl
      | pidx hp1 r1 => intro _; rfl
      | pcb hp1 r1 => intro _; rfl
      | ub u => intro _; rfl

theorem displayLoopG_eq {w : World} {h : Nat} (rf : Refuse) : ∀ (pieces : List Piece) (hp : Heap) (r : Handle),
    IsGood w h hp r → (∀ s, Piece.text s ∈ pieces → Valid s) →
    displayLoopG rf w.statics hp r pieces = displayLoop rf w.statics hp r pieces := by
  intro pieces
  induction pieces with
  | nil => intro hp r _ _; rfl
  | cons p rest ih =>
    intro hp r hg hv
    cases p with
    | fail => rfl
    | panic => rfl
    | text s =>
      obtain ⟨t, g⟩ := hg
      have hvs := hv s (List.mem_cons_self ..)
      have hs := pushStr_sat g rf s hvs
      simp only [displayLoopG, displayLoop, G_pushStr_eq g rf s hvs]
      revert hs
      cases pushStr rf w.statics hp r s with
      | ok v hp1 r1 => intro g1; exact ih hp1 r1 ⟨_, g1⟩ (fun s' hs' => hv s' (List.mem_cons_of_mem _ hs'))
      | err hp1 r1 => intro _; rfl
      | pidx hp1 r1 => intro _; rfl
      | pcb hp1 r1 => intro _; rfl
      | ub u => intro _; rfl

theorem finishTempG_eq (w : World) (d : Nat) (res : Res Unit) : finishTempG w d res = finishTemp w d res := by
  cases res with
  | ok v hp r => rfl
  | ub u => rfl
  | err hp r => simp only [finishTempG, finishTemp, G_releaseRepr_eq]; cases releaseRepr hp r <;> rfl
  | pidx hp r => simp only [finishTempG, finishTemp, G_releaseRepr_eq]; cases releaseRepr hp r <;> rfl
  | pcb hp r => simp only [finishTempG, finishTemp, G_releaseRepr_eq]; cases releaseRepr hp r <;> rfl

theorem finishUtf16G_eq (w : World) (d : Nat) (res : Res Unit) : finishUtf16G w d res = finishUtf16 w d res := by
  cases res with
  | pcb hp r => simp only [finishUtf16G, finishUtf16, G_releaseRepr_eq]; cases releaseRepr hp r <;> rfl
  | ok v hp r => simp only [finishUtf16G, finishUtf16, finishTempG_eq]
  | ub u => simp only [finishUtf16G, finishUtf16, finishTempG_eq]
  | err hp r => simp only [finishUtf16G, finishUtf16, finishTempG_eq]
  | pidx hp r => simp only [finishUtf16G, finishUtf16, finishTempG_eq]


/-! ## The iterator-driven operations go through the translated `Extend` / `FromIterator` impls -/

/-- `char` items are at most four bytes (what `encode_utf8(&mut [0; 4])` is handed) -/
def Op.CharItems : Op → Prop
  | .extendChars _ _ items | .collectChars _ _ items => ∀ s, some s ∈ items → s.length ≤ 4
  | .fromChar _ c => c.length ≤ 4
  | _ => True

theorem map_toChr_b (items : List (Option Bytes)) : (items.map G.toChr).map (Option.map (·.b)) = items := by
  induction items with
  | nil => rfl
  | cons x xs ih => cases x <;> simp [G.toChr, ih]

theorem map_toStr_b (items : List (Option Bytes)) : (items.map G.toStr).map (Option.map (·.b)) = items := by
  induction items with
  | nil => rfl
  | cons x xs ih => cases x <;> simp [G.toStr, ih]

theorem mem_toChr {items : List (Option Bytes)} {c : Chr} (h : some c ∈ items.map G.toChr) : some c.b ∈ items := by
  simp only [List.mem_map] at h
  obtain ⟨o, ho, he⟩ := h
  cases o with
  | none => cases he
  | some b => simp only [G.toChr, Option.map_some, Option.some.injEq] at he; subst he; exact ho

theorem mem_toStr {items : List (Option Bytes)} {t : Str} (h : some t ∈ items.map G.toStr) : some t.b ∈ items := by
  simp only [List.mem_map] at h
  obtain ⟨o, ho, he⟩ := h
  cases o with
  | none => cases he
  | some b => simp only [G.toStr, Option.map_some, Option.some.injEq] at he; subst he; exact ho

theorem collectOutW_collectOut (w : World) (d : Nat) (rf : Refuse) (res : Res Unit) :
    G.collectOutW w d (collectOut rf w.statics res) = finishTemp w d res := by
  cases res with
  | ok v hp r => rfl
  | ub u => rfl
  | err hp r => simp only [collectOut, finishTemp]; cases releaseRepr hp r <;> rfl
  | pidx hp r => simp only [collectOut, finishTemp]; cases releaseRepr hp r <;> rfl
  | pcb hp r => simp only [collectOut, finishTemp]; cases releaseRepr hp r <;> rfl

/-! ## `stepG = step` on well-formed worlds -/

/-- **One public call executed by the translated code is the call executed by the hand model**, from every
well-formed world in which no reference count has reached `isize::MAX`, for all 28 operations, every valid
argument and every allocator. -/
theorem stepG_eq_step (rf : Refuse) {w : World} (hw : Wf w) (hrc : RcSmall w.heap) (op : Op) (hv : op.ArgsValid)
    (hc : Op.CharItems op) :
    stepG rf w op = step rf w op := by
  cases op with
  | new d => rfl
  | fromStr d t plain => (simp only [stepG, step, G_fromStr_eq] <;> try rfl)
  | fromStatic d sid => rfl
  | withCapacity d n plain => (simp only [stepG, step, G_withCapacity_eq] <;> try rfl)
  | fromChar d c => simp only [stepG, step, from_char_step ⟨c, c.length⟩ hc, G.ctorOut]
  | clone d s => (simp only [stepG, step, G_shallowClone_eq _ _ hrc] <;> try rfl)
  | cloneFrom d s =>
    (simp only [stepG, step, G_shallowClone_eq _ _ hrc, G_releaseRepr_eq] <;> try rfl)
  | drop h => (simp only [stepG, step, G_releaseRepr_eq] <;> try rfl)
  | pushStr h s plain =>
    simp only [stepG, step]
    cases hg : w.get h with
    | none => rfl
    | some r => obtain ⟨t, g, _⟩ := good_of_wf hw hg; (simp only [G_pushStr_eq g rf s hv] <;> try rfl)
  | pop h plain =>
    simp only [stepG, step]
    cases hg : w.get h with
    | none => rfl
    | some r => obtain ⟨t, g, _⟩ := good_of_wf hw hg; (simp only [G_pop_eq g] <;> try rfl)
  | remove h i plain =>
    simp only [stepG, step]
    cases hg : w.get h with
    | none => rfl
    | some r => obtain ⟨t, g, _⟩ := good_of_wf hw hg; (simp only [G_remove_eq g rf i] <;> try rfl)
  | insertStr h i s plain =>
    simp only [stepG, step]
    cases hg : w.get h with
    | none => rfl
    | some r => obtain ⟨t, g, _⟩ := good_of_wf hw hg; (simp only [G_insertStr_eq g rf i s hv] <;> try rfl)
  | truncate h n plain => (simp only [stepG, step, G_truncate_eq] <;> try rfl)
  | clear h => (simp only [stepG, step, G_clear_eq] <;> try rfl)
  | retain h answers plain =>
    simp only [stepG, step]
    cases hg : w.get h with
    | none => rfl
    | some r => obtain ⟨t, g, _⟩ := good_of_wf hw hg; (simp only [G_retain_eq g rf answers] <;> try rfl)
  | reserve h n plain =>
    simp only [stepG, step]
    cases hg : w.get h with
    | none => rfl
    | some r => obtain ⟨t, g, _⟩ := good_of_wf hw hg; (simp only [G_reserve_eq g rf n] <;> try rfl)
  | shrinkTo h n plain =>
    simp only [stepG, step]
    cases hg : w.get h with
    | none => rfl
    | some r => obtain ⟨t, g, _⟩ := good_of_wf hw hg; (simp only [G_shrinkTo_eq g rf n] <;> try rfl)
  | extendChars h hint items =>
    simp only [stepG, step]
    cases hg : w.get h with
    | none => rfl
    | some r =>
      obtain ⟨t, g, _⟩ := good_of_wf hw hg
      have hvi : ∀ c, some c ∈ (items.map G.toChr) → Valid c.b ∧ c.b.length ≤ 4 :=
        fun c hm => ⟨hv c.b (mem_toChr hm), hc c.b (mem_toChr hm)⟩
      have ht := extend_char_tie rf ⟨hint, items.map G.toChr⟩ r g hvi
      simp only [map_toChr_b] at ht
      simp only [G.extendChars, ht]
      cases reserve rf w.statics w.heap r hint <;> rfl
  | extendStrs h items =>
    simp only [stepG, step]
    cases hg : w.get h with
    | none => rfl
    | some r =>
      obtain ⟨t, g, _⟩ := good_of_wf hw hg
      have hvi : ∀ t', some t' ∈ (items.map G.toStr) → Valid t'.b := fun t' hm => hv t'.b (mem_toStr hm)
      have ht := extend_str_tie rf ⟨items.map G.toStr⟩ w.heap r ⟨_, g⟩ hvi
      simp only [map_toStr_b] at ht
      simp only [G.extendStrs, ht]
  | collectChars d hint items =>
    simp only [stepG, step]
    cases hd : w.get d with
    | some r => rfl
    | none =>
      simp only [Option.isSome_none, Bool.false_eq_true, if_false]
      have hvi : ∀ c, some c ∈ (items.map G.toChr) → Valid c.b ∧ c.b.length ≤ 4 :=
        fun c hm => ⟨hv c.b (mem_toChr hm), hc c.b (mem_toChr hm)⟩
      have ht := from_iter_char_tie hw hd rf ⟨hint, items.map G.toChr⟩ (.inl inlEmpty) hvi
      simp only [map_toChr_b] at ht
      rw [ht]
      rcases withCapacity rf w.heap hint with ⟨o, hp0⟩
      cases o <;> simp only [collectOutW_collectOut]
  | collectStrs d items =>
    simp only [stepG, step]
    cases hd : w.get d with
    | some r => rfl
    | none =>
      simp only [Option.isSome_none, Bool.false_eq_true, if_false]
      have hvi : ∀ t', some t' ∈ (items.map G.toStr) → Valid t'.b := fun t' hm => hv t'.b (mem_toStr hm)
      have ht := from_iter_str_tie hw hd rf ⟨items.map G.toStr⟩ (.inl inlEmpty) hvi
      simp only [map_toStr_b] at ht
      rw [ht, collectOutW_collectOut]
  | display d pieces =>
    simp only [stepG, step, finishTempG_eq, G_releaseRepr_eq]
    cases hd : w.get d with
    | some r => rfl
    | none =>
      simp only [Option.isSome_none, Bool.false_eq_true, if_false]
      have gi : IsGood w d w.heap (.inl inlEmpty) := ⟨[], good_inline_fresh (linv_empty hw hd) [] valid_nil (by simp)⟩
      (simp only [displayLoopG_eq rf pieces w.heap _ gi hv] <;> try rfl)
  | fromInt d ty v => rfl
  | fromBool d b => simp only [stepG, step, from_bool_step, G.ctorOut]
  | fromUtf8 d b => (simp only [stepG, step, G_fromStr_eq] <;> try rfl)
  | fromUtf8Lossy d b =>
    simp only [stepG, step, G_withCapacity_eq, finishTempG_eq]
    cases hd : w.get d with
    | some r => rfl
    | none =>
      simp only [Option.isSome_none, Bool.false_eq_true, if_false]
      rcases withCapacity_fresh (st := w.statics) (linv_empty hw hd) rf b.length with ⟨hp1, he, hs⟩ | ⟨hp1, r, he, g, _⟩
      · rw [he]
      · rw [he]; (simp only [pushLoopG_eq rf _ hp1 r ⟨_, g⟩ (lossyPushes_valid b)] <;> try rfl)
  | fromUtf16 d u =>
    simp only [stepG, step, G_withCapacity_eq, finishUtf16G_eq]
    cases hd : w.get d with
    | some r => rfl
    | none =>
      simp only [Option.isSome_none, Bool.false_eq_true, if_false]
      rcases withCapacity_fresh (st := w.statics) (linv_empty hw hd) rf u.length with ⟨hp1, he, hs⟩ | ⟨hp1, r, he, g, _⟩
      · rw [he]
      · rw [he]; (simp only [pushLoopG_eq rf _ hp1 r ⟨_, g⟩ (decodeUtf16_valid u)] <;> try rfl)
  | fromUtf16Lossy d u =>
    simp only [stepG, step, G_withCapacity_eq, finishTempG_eq]
    cases hd : w.get d with
    | some r => rfl
    | none =>
      simp only [Option.isSome_none, Bool.false_eq_true, if_false]
      rcases withCapacity_fresh (st := w.statics) (linv_empty hw hd) rf (utf16Hint u) with ⟨hp1, he, hs⟩ | ⟨hp1, r, he, g, _⟩
      · rw [he]
        have gi : IsGood w d hp1 (.inl inlEmpty) :=
          ⟨[], good_congr hs (good_inline_fresh (linv_empty hw hd) [] valid_nil (by simp))⟩
        (simp only [pushLoopG_eq rf _ hp1 _ gi (lossy16_valid u)] <;> try rfl)
      · rw [he]; (simp only [pushLoopG_eq rf _ hp1 r ⟨_, g⟩ (lossy16_valid u)] <;> try rfl)


/-! ## Histories -/

/-- a history executed by the translated code -/
def runG (rf : Refuse) (w : World) : List Op → World
  | [] => w
  | op :: ops => runG rf (stepG rf w op).1 ops

/-- the outputs of a history executed by the translated code -/
def outsG (rf : Refuse) (w : World) : List Op → List Out
  | [] => []
  | op :: ops => (stepG rf w op).2 :: outsG rf (stepG rf w op).1 ops

/-- no reference count reaches `isize::MAX` along the history (fewer than 2^63 handles on one buffer) -/
def RcSmallAlong (rf : Refuse) (w : World) : List Op → Prop
  | [] => True
  | op :: ops => RcSmall w.heap ∧ RcSmallAlong rf (step rf w op).1 ops

/-- a sufficient condition: a well-formed world with fewer than 2^63 handle slots -/
theorem rcSmall_of_pool {w : World} (hw : Wf w) (hp : w.pool.length ≤ isize_MAX) : RcSmall w.heap := by
  intro a b hg
  have := (hw.blocks a b hg).1
  rw [this]
  exact Nat.le_trans (List.countP_le_length) hp

theorem runG_eq_run (rf : Refuse) (ops : List Op) : ∀ (w : World), Wf w → (∀ op ∈ ops, op.ArgsValid) →
    (∀ op ∈ ops, Op.CharItems op) → RcSmallAlong rf w ops → runG rf w ops = run rf w ops ∧ outsG rf w ops = outs rf w ops := by
  induction ops with
  | nil => intro w _ _ _ _; exact ⟨rfl, rfl⟩
  | cons op ops ih =>
    intro w hw hv hcs hs
    have he := stepG_eq_step rf hw hs.1 op (hv op (List.mem_cons_self ..)) (hcs op (List.mem_cons_self ..))
    have hw1 := (step_refines rf hw op (hv op (List.mem_cons_self ..))).2.1
    obtain ⟨h1, h2⟩ := ih (step rf w op).1 hw1 (fun o ho => hv o (List.mem_cons_of_mem _ ho))
      (fun o ho => hcs o (List.mem_cons_of_mem _ ho)) hs.2
    simp only [runG, run, outsG, outs, he]
    exact ⟨h1, by rw [h2]⟩

/-- **Every finite history of the 28 public operations, executed by the code as translated from the current
source, is a run of the `String`-level specification** (each handle reads what a `String` driven through the same
calls holds, values returned are `String`'s, panics exactly where `String` panics, failures only where an allocation
can be refused and then nothing changed), the world stays well-formed and no model alarm is raised. -/
theorem runG_refines (rf : Refuse) (ops : List Op) (w : World) (hw : Wf w) (hv : ∀ op ∈ ops, op.ArgsValid)
    (hcs : ∀ op ∈ ops, Op.CharItems op) (hs : RcSmallAlong rf w ops) :
    Spec.Run w.statics w.text ops (runG rf w ops).text (outsG rf w ops) ∧ Wf (runG rf w ops) ∧
    ∀ u, Out.ub u ∉ outsG rf w ops := by
  obtain ⟨h1, h2⟩ := runG_eq_run rf ops w hw hv hcs hs
  rw [h1, h2]
  exact run_refines rf ops w hw hv

end LS.GenTie
