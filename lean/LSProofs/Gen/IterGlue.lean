import LSProofs.Gen.Decode
import LSProofs.Gen.Collect
import LSProofs.Gen.Extend
import LSProofs.Gen.Bytes
import LSProofs.Gen.CloneDrop
/-!
# The remaining `Extend` / `FromIterator` impls and `from_utf16_lossy`, translated, are the model's loops

`lib.rs` has seven `Extend` and seven `FromIterator` impls for `LeanString`; they differ only in the item type
(`char`, `&char`, `&str`, `Box<str>`, `Cow<str>`, `String`, `LeanString`) and in whether they are written with `for` or
`for_each`.  Each translated body is proved to be the same push loop (`pushLoop` of the model) — so a fast path added to
one of them (a seeded change did that to `Extend<LeanString>`) breaks its theorem here.  `from_utf16_lossy` is
`decode_utf16(..).map(|c| c.unwrap_or(REPLACEMENT_CHARACTER)).collect()`: the mapped items are the model's `lossy16`,
the size hint is `utf16Hint`, and `collect` is the translated `FromIterator<char>`.
-/
open LS LS.Rt
set_option linter.unusedSimpArgs false
namespace LS.GenTie

/-! ### `Extend<String | Box<str> | Cow<str> | LeanString>` -/

theorem extend_string_step {w : World} {h : Nat} (rf : Refuse) (it : StrIter) (hp : Heap) (r : Handle)
    (hg : IsGood w h hp r) (hv : ∀ t, some t ∈ it.items → Valid t.b) :
    GenRepr.LeanString.extend_string it ⟨rf, w.statics, hp, r⟩ =
      stepOfResV rf w.statics (pushLoop rf w.statics hp r (it.items.map (Option.map (·.b)))) := by
  unfold GenRepr.LeanString.extend_string
  simp only [bind_ap, StrIter.rs_into_iter, StrIter.rs_for_each, pure_ap, push_str_loop rf it.items hp r hg hv]
  cases pushLoop rf w.statics hp r (it.items.map (Option.map (·.b))) <;> rfl

theorem extend_box_step {w : World} {h : Nat} (rf : Refuse) (it : StrIter) (hp : Heap) (r : Handle)
    (hg : IsGood w h hp r) (hv : ∀ t, some t ∈ it.items → Valid t.b) :
    GenRepr.LeanString.extend_box it ⟨rf, w.statics, hp, r⟩ =
      stepOfResV rf w.statics (pushLoop rf w.statics hp r (it.items.map (Option.map (·.b)))) := by
  unfold GenRepr.LeanString.extend_box
  simp only [bind_ap, StrIter.rs_into_iter, StrIter.rs_for_each, pure_ap, push_str_loop rf it.items hp r hg hv]
  cases pushLoop rf w.statics hp r (it.items.map (Option.map (·.b))) <;> rfl

theorem extend_cow_step {w : World} {h : Nat} (rf : Refuse) (it : StrIter) (hp : Heap) (r : Handle)
    (hg : IsGood w h hp r) (hv : ∀ t, some t ∈ it.items → Valid t.b) :
    GenRepr.LeanString.extend_cow it ⟨rf, w.statics, hp, r⟩ =
      stepOfResV rf w.statics (pushLoop rf w.statics hp r (it.items.map (Option.map (·.b)))) := by
  unfold GenRepr.LeanString.extend_cow
  simp only [bind_ap, StrIter.rs_into_iter, StrIter.rs_for_each, pure_ap, push_str_loop rf it.items hp r hg hv]
  cases pushLoop rf w.statics hp r (it.items.map (Option.map (·.b))) <;> rfl

/-- `Extend<LeanString>`: a `for` loop over the items, each pushed as a `&str` (the items are data: their texts) -/
theorem extend_ls_step {w : World} {h : Nat} (rf : Refuse) (it : StrIter) (hp : Heap) (r : Handle)
    (hg : IsGood w h hp r) (hv : ∀ t, some t ∈ it.items → Valid t.b) :
    GenRepr.LeanString.extend_ls it ⟨rf, w.statics, hp, r⟩ =
      stepOfResV rf w.statics (pushLoop rf w.statics hp r (it.items.map (Option.map (·.b)))) := by
  unfold GenRepr.LeanString.extend_ls
  simp only [bind_ap, StrIter.rs_into_iter, StrIter.rs_for_each, pure_ap, push_str_loop rf it.items hp r hg hv]
  cases pushLoop rf w.statics hp r (it.items.map (Option.map (·.b))) <;> rfl

/-- `Extend<&char>` is `Extend<char>` of the copied items -/
theorem extend_char_ref_eq (it : CharIter) (s : St) :
    resV (GenRepr.LeanString.extend_char_ref it s) = resV (GenRepr.LeanString.extend_char it s) := by
  unfold GenRepr.LeanString.extend_char_ref
  simp only [bind_ap, CharIter.rs_into_iter, CharIter.rs_copied, pure_ap, call_norm]
  cases GenRepr.LeanString.extend_char it s <;> rfl

/-! ### `FromIterator<String | Box<str> | Cow<str> | LeanString | &char>` -/

/-- the rest of every `FromIterator` impl written as `let mut buf = LeanString::new(); buf.extend(iter); buf` -/
syntax "from_iter_like" term:max term:max term:max term:max term:max term:max : tactic
macro_rules
  | `(tactic| from_iter_like $stepLemma $rf $it $w $gi $hv) => `(tactic| (
      rw [bind_ap, call_norm, ls_new_step]
      simp only [norm_next, bind_ap, assign_ap, dropOnUnwind_ap, call_norm, $stepLemma:term $rf $it (World.heap $w) _ $gi $hv, norm_stepOfResV]
      cases hl : pushLoop $rf (World.statics $w) (World.heap $w) (.inl inlEmpty) (($it).items.map (Option.map (·.b))) with
      | ok v hp1 r1 => simp only [stepOfResV, bind_ap, read_self_ap, pure_ap, collectOut]
      | ub u => simp only [stepOfResV, collectOut]
      | err hp1 r1 => simp only [stepOfResV, collectOut, drop_step]; cases releaseRepr hp1 r1 <;> rfl
      | pidx hp1 r1 => simp only [stepOfResV, collectOut, drop_step]; cases releaseRepr hp1 r1 <;> rfl
      | pcb hp1 r1 => simp only [stepOfResV, collectOut, drop_step]; cases releaseRepr hp1 r1 <;> rfl))

theorem from_iter_string_tie {w : World} {d : Nat} (hw : Wf w) (hd : w.get d = none) (rf : Refuse) (it : StrIter) (self0 : Handle)
    (hv : ∀ t, some t ∈ it.items → Valid t.b) :
    GenRepr.LeanString.from_iter_string it ⟨rf, w.statics, w.heap, self0⟩ =
      collectOut rf w.statics (pushLoop rf w.statics w.heap (.inl inlEmpty) (it.items.map (Option.map (·.b)))) := by
  unfold GenRepr.LeanString.from_iter_string
  have gi : IsGood w d w.heap (.inl inlEmpty) := ⟨[], good_inline_fresh (linv_empty hw hd) [] valid_nil (by simp)⟩
  from_iter_like extend_string_step rf it w gi hv

theorem from_iter_box_tie {w : World} {d : Nat} (hw : Wf w) (hd : w.get d = none) (rf : Refuse) (it : StrIter) (self0 : Handle)
    (hv : ∀ t, some t ∈ it.items → Valid t.b) :
    GenRepr.LeanString.from_iter_box it ⟨rf, w.statics, w.heap, self0⟩ =
      collectOut rf w.statics (pushLoop rf w.statics w.heap (.inl inlEmpty) (it.items.map (Option.map (·.b)))) := by
  unfold GenRepr.LeanString.from_iter_box
  have gi : IsGood w d w.heap (.inl inlEmpty) := ⟨[], good_inline_fresh (linv_empty hw hd) [] valid_nil (by simp)⟩
  from_iter_like extend_box_step rf it w gi hv

theorem from_iter_cow_tie {w : World} {d : Nat} (hw : Wf w) (hd : w.get d = none) (rf : Refuse) (it : StrIter) (self0 : Handle)
    (hv : ∀ t, some t ∈ it.items → Valid t.b) :
    GenRepr.LeanString.from_iter_cow it ⟨rf, w.statics, w.heap, self0⟩ =
      collectOut rf w.statics (pushLoop rf w.statics w.heap (.inl inlEmpty) (it.items.map (Option.map (·.b)))) := by
  unfold GenRepr.LeanString.from_iter_cow
  have gi : IsGood w d w.heap (.inl inlEmpty) := ⟨[], good_inline_fresh (linv_empty hw hd) [] valid_nil (by simp)⟩
  from_iter_like extend_cow_step rf it w gi hv

theorem from_iter_ls_tie {w : World} {d : Nat} (hw : Wf w) (hd : w.get d = none) (rf : Refuse) (it : StrIter) (self0 : Handle)
    (hv : ∀ t, some t ∈ it.items → Valid t.b) :
    GenRepr.LeanString.from_iter_ls it ⟨rf, w.statics, w.heap, self0⟩ =
      collectOut rf w.statics (pushLoop rf w.statics w.heap (.inl inlEmpty) (it.items.map (Option.map (·.b)))) := by
  unfold GenRepr.LeanString.from_iter_ls
  have gi : IsGood w d w.heap (.inl inlEmpty) := ⟨[], good_inline_fresh (linv_empty hw hd) [] valid_nil (by simp)⟩
  from_iter_like extend_ls_step rf it w gi hv

/-- `FromIterator<&char>` is `FromIterator<char>` of the copied items -/
theorem from_iter_char_ref_eq (it : CharIter) (s : St) :
    GenRepr.LeanString.from_iter_char_ref it s = norm (GenRepr.LeanString.from_iter_char it s) := by
  unfold GenRepr.LeanString.from_iter_char_ref
  simp only [bind_ap, CharIter.rs_into_iter, CharIter.rs_copied, pure_ap, call_norm]
  cases GenRepr.LeanString.from_iter_char it s <;> rfl

/-! ### `from_utf16_lossy` -/

theorem replacement_chr : char.REPLACEMENT_CHARACTER = ⟨replacement, replacement.length⟩ := rfl

theorem mapItems_lossy {ρ : Type} (f : Rs Chr → M ρ Chr)
    (hf : ∀ c s, f c s = .next (match c with | Rs.ok a => a | Rs.err => char.REPLACEMENT_CHARACTER) s)
    (ds : List (Option Bytes)) (s : St) :
    mapItems f (ds.map fun o => match o with | some b => Rs.ok ⟨b, b.length⟩ | none => Rs.err) s =
      .next ((ds.map fun o => match o with | some c => some c | none => some replacement).map
        (Option.map fun b => (⟨b, b.length⟩ : Chr))) s := by
  induction ds with
  | nil => simp only [List.map_nil, mapItems, pure_ap]
  | cons o rest ih =>
    simp only [List.map_cons, mapItems]
    rw [bind_ap, hf]
    simp only []
    rw [bind_ap, ih]
    cases o <;> simp only [pure_ap, Option.map, replacement_chr]

/-- **`from_utf16_lossy`**: decode, replace every unpaired surrogate by U+FFFD, `collect()` — i.e. pre-size by the
decoder's size hint (falling back to the empty inline value), push the characters: `Api.step (.fromUtf16Lossy d u)` -/
theorem from_utf16_lossy_tie {w : World} {d : Nat} (hw : Wf w) (hd : w.get d = none) (rf : Refuse) (u : List Nat) (self0 : Handle) :
    GenRepr.LeanString.from_utf16_lossy ⟨u⟩ ⟨rf, w.statics, w.heap, self0⟩ =
      norm (match withCapacity rf w.heap (utf16Hint u) with
        | (some r, hp) => collectOut rf w.statics (pushLoop rf w.statics hp r (lossy16 u))
        | (none, hp) => collectOut rf w.statics (pushLoop rf w.statics hp (.inl inlEmpty) (lossy16 u))) := by
  unfold GenRepr.LeanString.from_utf16_lossy
  have hv : ∀ c : Chr, some c ∈ (lossy16 u).map (Option.map fun b => (⟨b, b.length⟩ : Chr)) → Valid c.b ∧ c.b.length ≤ 4 := by
    intro c hc
    obtain ⟨o, ho, he⟩ := List.mem_map.1 hc
    cases o with
    | none => cases he
    | some b =>
      simp only [Option.map, Option.some.injEq] at he
      subst he
      refine ⟨lossy16_valid u b ho, ?_⟩
      unfold lossy16 at ho
      obtain ⟨o2, ho2, he2⟩ := List.mem_map.1 ho
      cases o2 with
      | none => simp only [Option.some.injEq] at he2; subst he2; decide
      | some c2 => simp only [Option.some.injEq] at he2; subst he2; exact decodeUtf16_len4 u _ ho2
  have ht := from_iter_char_tie hw hd rf ⟨utf16Hint u, (lossy16 u).map (Option.map fun b => (⟨b, b.length⟩ : Chr))⟩ self0 hv
  have hmap : ((lossy16 u).map (Option.map fun b => (⟨b, b.length⟩ : Chr))).map (Option.map (·.b)) = lossy16 u := by
    rw [List.map_map]
    conv => rhs; rw [← List.map_id (lossy16 u)]
    apply List.map_congr_left
    intro o _; cases o <;> rfl
  simp only [hmap] at ht
  simp only [bind_ap, U16Slice.rs_iter, U16Slice.rs_copied, char.decode_utf16, pure_ap, Utf16Iter.rs_map, Rt.bind, call_norm]
  have hm := mapItems_lossy (ρ := Handle) (fun c => Rt.bind (c.rs_unwrap_or char.REPLACEMENT_CHARACTER) fun t1 => Rt.pure t1)
    (by intro c s; cases c <;> simp only [bind_ap, Rs.rs_unwrap_or, pure_ap]) (decodeUtf16 u) ⟨rf, w.statics, w.heap, self0⟩
  erw [hm]
  simp only [utf16Hint] at ht ⊢
  unfold lossy16 at ht ⊢
  erw [ht]
  rcases withCapacity rf w.heap ((u.length + 1) / 2) with ⟨o, hp0⟩
  cases o <;> simp only [] <;> (generalize collectOut _ _ _ = x; cases x <;> rfl)

end LS.GenTie

namespace LS.GenTie

/-! ### the `From` conversions and `FromStr` -/

/-- `From<String>`, `From<&String>`, `From<Box<str>>` are `From<&str>`: `Repr::from_str` unwrapped -/
theorem from_string_is (t : Str) (s : St) :
    GenRepr.LeanString.from_string t s = GenRepr.LeanString.from_str_ref t s := by
  unfold GenRepr.LeanString.from_string GenRepr.LeanString.from_str_ref; rfl
theorem from_string_ref_is (t : Str) (s : St) :
    GenRepr.LeanString.from_string_ref t s = GenRepr.LeanString.from_str_ref t s := by
  unfold GenRepr.LeanString.from_string_ref GenRepr.LeanString.from_str_ref; rfl
theorem from_box_is (t : Str) (s : St) :
    GenRepr.LeanString.from_box t s = GenRepr.LeanString.from_str_ref t s := by
  unfold GenRepr.LeanString.from_box GenRepr.LeanString.from_str_ref; rfl

/-- `From<char>`: the inline value of the character's bytes -/
theorem from_char_conv_step (c : Chr) (h : c.b.length ≤ 4) (s : St) :
    GenRepr.LeanString.from_char_conv c s = .next (.inl (inlNew c.b)) s := by
  unfold GenRepr.LeanString.from_char_conv
  rt_step [call_norm, from_char_step c h, norm_next]

/-- `FromStr::from_str` is `Repr::from_str` with the value wrapped: `Ok` or `Err(ReserveError)`, never a panic -/
theorem from_str_trait_is (t : Str) (s : St) :
    GenRepr.LeanString.from_str_trait t s = norm (GenRepr.Repr.from_str t s) := by
  unfold GenRepr.LeanString.from_str_trait
  rw [bind_ap, call_norm]
  cases h : GenRepr.Repr.from_str t s with
  | next a s' => cases a <;> simp only [norm, bind_ap, rs_map_ok, rs_map_err, lean_string_ctor_ap, pure_ap]
  | done a s' => cases a <;> simp only [norm, bind_ap, rs_map_ok, rs_map_err, lean_string_ctor_ap, pure_ap]
  | pidx s' => rfl
  | palloc s' => rfl
  | pcb s' => rfl
  | ub u => rfl

/-- `From<&LeanString>` is `clone` of the other value: one more reference to its buffer (or a copy of the two words) -/
theorem from_ls_ref_step (other : Handle) (rf : Refuse) (st : List Bytes) (hp : Heap) (r : Handle) (hrc : RcSmall hp) :
    GenRepr.LeanString.from_ls_ref other ⟨rf, st, hp, r⟩ =
      match shallowClone hp other with
      | .ok (hp', r') => .next r' ⟨rf, st, hp', r⟩
      | .error u => .ub u := by
  unfold GenRepr.LeanString.from_ls_ref
  have hc := clone_step ⟨rf, st, hp, other⟩ hrc
  simp only at hc
  cases hs : shallowClone hp other with
  | error u => rt_step [onRepr_ap, call_norm, hc, hs, norm_ub]
  | ok pr => rt_step [onRepr_ap, call_norm, hc, hs, norm_next]

end LS.GenTie

namespace LS.GenTie

/-! ### the remaining inherent wrappers: `is_empty`, `as_str`, `as_bytes`, `try_retain`, `retain` -/

theorem ls_is_empty_step (s : St) : GenRepr.LeanString.is_empty s = .next (decide (s.self.len = 0)) s := by
  unfold GenRepr.LeanString.is_empty; rt_step [Repr.is_empty]
theorem ls_as_str_is (s : St) : GenRepr.LeanString.as_str s = (Rt.bind Repr.as_str fun t => Rt.pure t : M Str Str) s := by
  unfold GenRepr.LeanString.as_str; rfl
theorem ls_as_bytes_is (s : St) : GenRepr.LeanString.as_bytes s = (Rt.bind Repr.as_bytes fun t => Rt.pure t : M RawSlice RawSlice) s := by
  unfold GenRepr.LeanString.as_bytes; rfl
/-- `try_retain` is `Repr::retain`; `retain` is `try_retain` unwrapped -/
theorem try_retain_is (p : Pred) (fuel : Nat) (s : St) :
    GenRepr.LeanString.try_retain p fuel s = norm (GenRepr.Repr.retain p fuel s) := by
  unfold GenRepr.LeanString.try_retain; exact bind_call_pure _ s
theorem retain_is (p : Pred) (fuel : Nat) (s : St) :
    GenRepr.LeanString.retain p fuel s = unwrapN (GenRepr.LeanString.try_retain p fuel s) := by
  unfold GenRepr.LeanString.retain; exact call_unwrap _ s

end LS.GenTie

namespace LS.GenTie
/-- `from_utf8_unchecked(buf)` is `LeanString::from` of the same bytes -/
theorem from_utf8_unchecked_is (b : Bytes) (s : St) :
    GenRepr.LeanString.from_utf8_unchecked ⟨b⟩ s = norm (GenRepr.LeanString.from_str_ref ⟨b⟩ s) := by
  unfold GenRepr.LeanString.from_utf8_unchecked
  simp only [bind_ap, str.from_utf8_unchecked, HasBytes.bytes, pure_ap, call_norm]
  cases GenRepr.LeanString.from_str_ref ⟨b⟩ s <;> rfl
end LS.GenTie

namespace LS.GenTie
/-- `Default::default()` is `new()`: the empty inline value -/
theorem default_step (s : St) : GenRepr.LeanString.default s = .next (.inl inlEmpty) s := by
  unfold GenRepr.LeanString.default
  rw [bind_ap, call_norm, ls_new_step]
  rfl
end LS.GenTie
