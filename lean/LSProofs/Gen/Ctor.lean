import LSProofs.Gen.Base
/-! # Ties: `Repr::new`, `from_str`, `with_capacity` -/
open LS LS.Rt
set_option linter.unusedSimpArgs false

namespace LS.GenTie

theorem new_step (s : St) : GenRepr.Repr.new s = .next (.inl inlEmpty) s := by
  unfold GenRepr.Repr.new; rt_step

theorem from_str_step (t : Str) (s : St) :
    GenRepr.Repr.from_str t s =
      match fromStr s.rf s.hp t.b with
      | (some r, hp') => .next (.ok r) { s with hp := hp' }
      | (none, hp') => .next .err { s with hp := hp' } := by
  unfold GenRepr.Repr.from_str fromStr
  by_cases h : t.b.length ≤ MAX_INLINE
  · rt_step [h]
  · rcases hw : heapNew s.rf s.hp t.b with ⟨o, hp'⟩
    cases o <;> rt_step [h, hw]

theorem with_capacity_step (c : Nat) (s : St) :
    GenRepr.Repr.with_capacity c s =
      match withCapacity s.rf s.hp c with
      | (some r, hp') => .next (.ok r) { s with hp := hp' }
      | (none, hp') => .next .err { s with hp := hp' } := by
  unfold GenRepr.Repr.with_capacity withCapacity
  by_cases h : c ≤ MAX_INLINE
  · rt_step [h, new_step]
  · rcases hw : heapWithCapacity s.rf s.hp c with ⟨o, hp'⟩
    cases o <;> rt_step [h, hw]

end LS.GenTie
