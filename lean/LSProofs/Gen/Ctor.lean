import LSProofs.Gen.Base
/-! # Ties: `Repr::new`, `from_str`, `with_capacity` -/
open LS LS.Rt
set_option linter.unusedSimpArgs false

namespace LS.GenTie

theorem new_step (s : St) : GenRepr.Repr.new s = .next (.inl inlEmpty) s := by
  unfold GenRepr.Repr.new; rt_step

theorem from_str_step (t : Str) (s : St) :
    GenRepr.Repr.from_str t s =
      match fromStr s.rf s.hp t.b with
      | (some r, hp') => .next (.ok r) { s with hp := hp' }
      | (none, hp') => .next .err { s with hp := hp' } := by
  unfold GenRepr.Repr.from_str fromStr
  by_cases h : t.b.length ≤ MAX_INLINE
  · rt_step [h]
  · rcases hw : heapNew s.rf s.hp t.b with ⟨o, hp'⟩
    cases o <;> rt_step [h, hw]

theorem with_capacity_step (c : Nat) (s : St) :
    GenRepr.Repr.with_capacity c s =
      match withCapacity s.rf s.hp c with
      | (some r, hp') => .next (.ok r) { s with hp := hp' }
      | (none, hp') => .next .err { s with hp := hp' } := by
  unfold GenRepr.Repr.with_capacity withCapacity
  by_cases h : c ≤ MAX_INLINE
  · rt_step [h, new_step]
  · rcases hw : heapWithCapacity s.rf s.hp c with ⟨o, hp'⟩
    cases o <;> rt_step [h, hw]

/-- `from_static_str`: a short text is copied inline, a long one is borrowed (`(sid, len)`), one that does
not fit below the tag byte is refused — what `Api.step (.fromStatic d sid)` does, for every text -/
theorem from_static_str_step (t : SStr) (s : St) :
    GenRepr.Repr.from_static_str t s =
      if t.b.length ≤ MAX_INLINE then .next (.ok (.inl (inlNew t.b))) s
      else if t.b.length > STATIC_MAX_LEN then .next .err s
      else .next (.ok (.stat t.sid t.b.length)) s := by
  unfold GenRepr.Repr.from_static_str
  by_cases h : t.b.length ≤ MAX_INLINE
  · rt_step [h]
  · by_cases h2 : t.b.length > STATIC_MAX_LEN
    · rt_step [h, h2]
    · rt_step [h, h2]

end LS.GenTie
