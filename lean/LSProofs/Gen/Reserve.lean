import LSProofs.Gen.Release
/-! # Tie: `Repr::reserve` -/
open LS LS.Rt
set_option linter.unusedSimpArgs false

namespace LS.GenTie

theorem reserve_tie (add : Nat) (s : St) (hd : DataOk s.hp) (hr : RawOk s.self) :
    resOf (GenRepr.Repr.reserve add s) = reserve s.rf s.st s.hp s.self add := by
  rcases s with ⟨rf, st, hp, r⟩
  unfold GenRepr.Repr.reserve reserve
  cases hc : checkedAdd r.len add with
  | none => rt_step [hc, resOf]
  | some needed =>
    cases r with
    | inl raw =>
      -- no `rfl`-equation lemma may touch a term containing `inlLen raw` (see RtLemmas.lean): facts go in as hypotheses
      have hlen : (Handle.inl raw).len = inlLen raw := rfl
      have hc' : checkedAdd (inlLen raw) add = some needed := hc
      have htx : textOf hp st (.inl raw) = .ok (raw.take (inlLen raw)) := rfl
      by_cases h : needed > MAX_INLINE
      · rcases hw : heapWithAdditional rf hp (raw.take (inlLen raw)) add with ⟨o, hp1⟩
        cases o with
        | none =>
          have hmv : moveTo hp (.inl raw) (inlLen raw) (none, hp1) = .err hp1 (.inl raw) := rfl
          rt_step [hlen, hc', h, hw, htx, hmv]; rfl
        | some a' =>
          have hmv : moveTo hp (.inl raw) (inlLen raw) (some a', hp1) = .ok () hp1 (.heap a' (inlLen raw)) := rfl
          rt_step [hlen, hc', h, hw, htx, hmv, take_len_raw hr]; rfl
      · rt_step [hlen, hc', h]; rfl
    | stat i l =>
      have hc' : checkedAdd l add = some needed := hc
      cases ht : textOf hp st (.stat i l) with
      | error u => by_cases h : needed ≤ MAX_INLINE <;> rt_step [Handle.len, hc', h, ht, resOf]
      | ok t =>
        have hl := textOf_stat_len ht
        by_cases h : needed ≤ MAX_INLINE
        · rt_step [Handle.len, hc', h, ht, resOf]
        · rcases hw : heapWithAdditional rf hp t add with ⟨o, hp1⟩
          cases o <;> rt_step [Handle.len, hc', h, ht, hw, moveTo, hl, resOf, releaseRepr]
    | heap a l =>
      have hc' : checkedAdd l add = some needed := hc
      cases hg : hp.get? a with
      | none => rt_heap_none rf st hp a l hg [Handle.len, hc', resOf]
      | some b =>
        by_cases h1 : b.rc = 1
        · by_cases h2 : b.cap ≥ needed
          · rt_heap_some rf st hp a l hg [Handle.len, hc', h1, h2, resOf]
          · cases hre : hp.realloc rf a (Gen.amortizedGrowth l add) <;>
              rt_heap_some rf st hp a l hg [Handle.len, hc', h1, h2, hre, resOf]
        · by_cases h3 : l ≤ b.cap
          · rcases hw : heapWithAdditional rf hp (b.data.take l) add with ⟨o, hp1⟩
            cases o with
            | none => rt_heap_some rf st hp a l hg [Handle.len, hc', h1, h3, hw, moveTo, resOf]
            | some a' =>
              cases hrl : releaseRepr hp1 (.heap a l) <;>
                rt_heap_some rf st hp a l hg [Handle.len, hc', h1, h3, hw, moveTo, take_len_block hd hg h3, replace_inner_step, hrl, resOf]
          · rt_heap_some rf st hp a l hg [Handle.len, hc', h1, h3, resOf]
/-- the same tie in the form a caller rewrites with -/
theorem reserve_norm {ρ' : Type} (add : Nat) (s : St) (hd : DataOk s.hp) (hr : RawOk s.self) :
    (norm (GenRepr.Repr.reserve add s) : Step ρ' (Rs Unit)) = stepOfRes s.rf s.st (reserve s.rf s.st s.hp s.self add) := by
  rcases s with ⟨rf, st, hp, r⟩
  unfold GenRepr.Repr.reserve reserve
  cases hc : checkedAdd r.len add with
  | none => rt_step [hc, norm, stepOfRes]
  | some needed =>
    cases r with
    | inl raw =>
      -- no `rfl`-equation lemma may touch a term containing `inlLen raw` (see RtLemmas.lean): facts go in as hypotheses
      have hlen : (Handle.inl raw).len = inlLen raw := rfl
      have hc' : checkedAdd (inlLen raw) add = some needed := hc
      have htx : textOf hp st (.inl raw) = .ok (raw.take (inlLen raw)) := rfl
      by_cases h : needed > MAX_INLINE
      · rcases hw : heapWithAdditional rf hp (raw.take (inlLen raw)) add with ⟨o, hp1⟩
        cases o with
        | none =>
          have hmv : moveTo hp (.inl raw) (inlLen raw) (none, hp1) = .err hp1 (.inl raw) := rfl
          rt_step [hlen, hc', h, hw, htx, hmv]; rfl
        | some a' =>
          have hmv : moveTo hp (.inl raw) (inlLen raw) (some a', hp1) = .ok () hp1 (.heap a' (inlLen raw)) := rfl
          rt_step [hlen, hc', h, hw, htx, hmv, take_len_raw hr]; rfl
      · rt_step [hlen, hc', h]; rfl
    | stat i l =>
      have hc' : checkedAdd l add = some needed := hc
      cases ht : textOf hp st (.stat i l) with
      | error u => by_cases h : needed ≤ MAX_INLINE <;> rt_step [Handle.len, hc', h, ht, norm, stepOfRes]
      | ok t =>
        have hl := textOf_stat_len ht
        by_cases h : needed ≤ MAX_INLINE
        · rt_step [Handle.len, hc', h, ht, norm, stepOfRes]
        · rcases hw : heapWithAdditional rf hp t add with ⟨o, hp1⟩
          cases o <;> rt_step [Handle.len, hc', h, ht, hw, moveTo, hl, norm, stepOfRes, releaseRepr]
    | heap a l =>
      have hc' : checkedAdd l add = some needed := hc
      cases hg : hp.get? a with
      | none => rt_heap_none rf st hp a l hg [Handle.len, hc', norm, stepOfRes]
      | some b =>
        by_cases h1 : b.rc = 1
        · by_cases h2 : b.cap ≥ needed
          · rt_heap_some rf st hp a l hg [Handle.len, hc', h1, h2, norm, stepOfRes]
          · cases hre : hp.realloc rf a (Gen.amortizedGrowth l add) <;>
              rt_heap_some rf st hp a l hg [Handle.len, hc', h1, h2, hre, norm, stepOfRes]
        · by_cases h3 : l ≤ b.cap
          · rcases hw : heapWithAdditional rf hp (b.data.take l) add with ⟨o, hp1⟩
            cases o with
            | none => rt_heap_some rf st hp a l hg [Handle.len, hc', h1, h3, hw, moveTo, norm, stepOfRes]
            | some a' =>
              cases hrl : releaseRepr hp1 (.heap a l) <;>
                rt_heap_some rf st hp a l hg [Handle.len, hc', h1, h3, hw, moveTo, take_len_block hd hg h3, replace_inner_step, hrl, norm, stepOfRes]
          · rt_heap_some rf st hp a l hg [Handle.len, hc', h1, h3, norm, stepOfRes]

end LS.GenTie
