import LSProofs.Gen.Base
/-! # Ties: `Repr::capacity`, `Repr::is_unique` -/
open LS LS.Rt
set_option linter.unusedSimpArgs false

namespace LS.GenTie

theorem capacity_step (s : St) :
    GenRepr.Repr.capacity s = match s.self.capacity s.hp with | .ok c => .next c s | .error u => .ub u := by
  rcases s with ⟨rf, st, hp, r⟩
  unfold GenRepr.Repr.capacity
  cases r with
  | inl raw => rt_step [Handle.capacity]
  | stat i l => rt_step [Handle.capacity]
  | heap a l =>
    cases hg : hp.get? a with
    | none => rt_heap_none rf st hp a l hg [Handle.capacity]
    | some b => rt_heap_some rf st hp a l hg [Handle.capacity]

theorem is_unique_step (s : St) :
    GenRepr.Repr.is_unique s = match s.self.isUnique s.hp with | .ok c => .next c s | .error u => .ub u := by
  rcases s with ⟨rf, st, hp, r⟩
  unfold GenRepr.Repr.is_unique
  cases r with
  | inl raw => rt_step [Handle.isUnique]
  | stat i l => rt_step [Handle.isUnique]
  | heap a l =>
    cases hg : hp.get? a with
    | none => rt_heap_none rf st hp a l hg [Handle.isUnique]
    | some b =>
      rt_heap_some rf st hp a l hg [Handle.isUnique]
      by_cases h1 : b.rc = 1 <;> simp [h1]

end LS.GenTie
