import LSProofs.RtLemmas
/-! # Tie 1b: the translated `repr.rs` equals the hand model — common definitions

`LSModel/GenRepr.lean` is regenerated from `/repo/src` by `tools/rs2lean.py` on every run.  Each theorem of
`LSProofs/Gen/*.lean` says that a translated function, run from any state, does exactly what the hand-written
model function (`LSModel/Handle.lean`) does — for every allocator oracle, heap and handle.  All theorems about
the hand model therefore hold of the code as translated; when the source changes, the generated definition
changes and the tie stops checking (an *obligation* of every property that consumes it, see tools/plan.py).
The modules are split by function so that a change to one function breaks only the ties that involve it. -/
open LS LS.Rt
set_option linter.unusedSimpArgs false

namespace LS.GenTie

theorem setBlock_get (hp : Heap) (a : Nat) (b b' : Block) (h : hp.get? a = some b) :
    (hp.setBlock a b').get? a = some b' := by
  unfold Heap.get? at h
  have hl : a < hp.slots.length := by
    rcases hs : hp.slots[a]? with _ | sl
    · rw [hs] at h; cases h
    · exact (List.getElem?_eq_some_iff.mp hs).1
  simp [Heap.get?, Heap.setBlock, List.getElem?_set, hl]

theorem slots_of_get {hp : Heap} {a : Nat} {b : Block} (h : hp.get? a = some b) : hp.slots[a]? = some (.live b) := by
  unfold Heap.get? at h
  rcases hs : hp.slots[a]? with _ | sl
  · rw [hs] at h; cases h
  · rw [hs] at h; cases sl with
    | live b' => simp only [Option.some.injEq] at h; rw [h]
    | freed => cases h

theorem release_of_none {hp : Heap} {a : Nat} (h : hp.get? a = none) : hp.release a = .error .useAfterFree := by
  unfold Heap.get? at h
  unfold Heap.release
  rcases hs : hp.slots[a]? with _ | sl
  · rfl
  · rw [hs] at h; cases sl with
    | live b' => cases h
    | freed => rfl

/-- the outcome of a `Result<(), ReserveError>` method, as the hand model's `Res Unit` -/
def resOf : Step (Rs Unit) (Rs Unit) → Res Unit
  | .next (.ok _) s | .done (.ok _) s => .ok () s.hp s.self
  | .next .err s | .done .err s => .err s.hp s.self
  | .pidx s => .pidx s.hp s.self
  | .ub u => .ub u

/-- every live block holds exactly `cap` bytes -/
def DataOk (hp : Heap) : Prop := ∀ a b, hp.get? a = some b → b.data.length = b.cap
/-- an inline handle has its 16 raw bytes -/
def RawOk : Handle → Prop
  | .inl raw => raw.length = MAX_INLINE
  | _ => True

theorem take_len_block {hp : Heap} {a l : Nat} {b : Block} (hd : DataOk hp) (hg : hp.get? a = some b) (hl : l ≤ b.cap) :
    (b.data.take l).length = l := by
  rw [List.length_take, hd a b hg]; omega

theorem take_len_raw {raw : Bytes} (h : raw.length = MAX_INLINE) : (raw.take (inlLen raw)).length = inlLen raw := by
  rw [List.length_take, h]; unfold inlLen; omega

theorem textOf_stat_len {hp : Heap} {st : List Bytes} {i l : Nat} {t : Bytes} (ht : textOf hp st (.stat i l) = .ok t) : t.length = l := by
  simp only [textOf] at ht
  cases hs : st[i]? with
  | none => rw [hs] at ht; cases ht
  | some t0 =>
    rw [hs] at ht; simp only at ht
    by_cases hl : l ≤ t0.length
    · rw [if_pos hl] at ht; injection ht with ht; rw [← ht, List.length_take]; omega
    · rw [if_neg hl] at ht; cases ht

/-- the outcome of a method returning `()` -/
def resV : Step Unit Unit → Res Unit
  | .next _ s | .done _ s => .ok () s.hp s.self
  | .pidx s => .pidx s.hp s.self
  | .ub u => .ub u

end LS.GenTie
