import LSProofs.RtLemmas
/-! # Tie 1b: the translated `repr.rs` equals the hand model — common definitions

`LSModel/GenRepr.lean` is regenerated from `/repo/src` by `tools/rs2lean.py` on every run.  Each theorem of
`LSProofs/Gen/*.lean` says that a translated function, run from any state, does exactly what the hand-written
model function (`LSModel/Handle.lean`) does — for every allocator oracle, heap and handle.  All theorems about
the hand model therefore hold of the code as translated; when the source changes, the generated definition
changes and the tie stops checking (an *obligation* of every property that consumes it, see tools/plan.py).
The modules are split by function so that a change to one function breaks only the ties that involve it. -/
open LS LS.Rt
set_option linter.unusedSimpArgs false

namespace LS.GenTie

theorem setBlock_get (hp : Heap) (a : Nat) (b b' : Block) (h : hp.get? a = some b) :
    (hp.setBlock a b').get? a = some b' := by
  unfold Heap.get? at h
  have hl : a < hp.slots.length := by
    rcases hs : hp.slots[a]? with _ | sl
    · rw [hs] at h; cases h
    · exact (List.getElem?_eq_some_iff.mp hs).1
  simp [Heap.get?, Heap.setBlock, List.getElem?_set, hl]

theorem slots_of_get {hp : Heap} {a : Nat} {b : Block} (h : hp.get? a = some b) : hp.slots[a]? = some (.live b) := by
  unfold Heap.get? at h
  rcases hs : hp.slots[a]? with _ | sl
  · rw [hs] at h; cases h
  · rw [hs] at h; cases sl with
    | live b' => simp only [Option.some.injEq] at h; rw [h]
    | freed => cases h

theorem release_of_none {hp : Heap} {a : Nat} (h : hp.get? a = none) : hp.release a = .error .useAfterFree := by
  unfold Heap.get? at h
  unfold Heap.release
  rcases hs : hp.slots[a]? with _ | sl
  · rfl
  · rw [hs] at h; cases sl with
    | live b' => cases h
    | freed => rfl

/-- every live block holds exactly `cap` bytes -/
def DataOk (hp : Heap) : Prop := ∀ a b, hp.get? a = some b → b.data.length = b.cap
/-- an inline handle has its 16 raw bytes -/
def RawOk : Handle → Prop
  | .inl raw => raw.length = MAX_INLINE
  | _ => True

theorem take_len_block {hp : Heap} {a l : Nat} {b : Block} (hd : DataOk hp) (hg : hp.get? a = some b) (hl : l ≤ b.cap) :
    (b.data.take l).length = l := by
  rw [List.length_take, hd a b hg]; omega

theorem take_len_raw {raw : Bytes} (h : raw.length = MAX_INLINE) : (raw.take (inlLen raw)).length = inlLen raw := by
  rw [List.length_take, h]; unfold inlLen; omega

theorem textOf_stat_len {hp : Heap} {st : List Bytes} {i l : Nat} {t : Bytes} (ht : textOf hp st (.stat i l) = .ok t) : t.length = l := by
  simp only [textOf] at ht
  cases hs : st[i]? with
  | none => rw [hs] at ht; cases ht
  | some t0 =>
    rw [hs] at ht; simp only at ht
    by_cases hl : l ≤ t0.length
    · rw [if_pos hl] at ht; injection ht with ht; rw [← ht, List.length_take]; omega
    · rw [if_neg hl] at ht; cases ht

/-! ### ties in the form a *caller* can rewrite with -/

/-- what `call` makes of the callee's outcome: an early return is the value of the call -/
def norm {ρ ρ' : Type} : Step ρ ρ → Step ρ' ρ
  | .next a s | .done a s => .next a s
  | .pidx s => .pidx s
  | .palloc s => .palloc s
  | .pcb s => .pcb s
  | .ub u => .ub u

theorem norm_next {ρ ρ' : Type} (a : ρ) (s : St) : (norm (.next a s) : Step ρ' ρ) = .next a s := rfl
theorem norm_done {ρ ρ' : Type} (a : ρ) (s : St) : (norm (.done a s) : Step ρ' ρ) = .next a s := rfl
theorem norm_pidx {ρ ρ' : Type} (s : St) : (norm (.pidx s : Step ρ ρ) : Step ρ' ρ) = .pidx s := rfl
theorem norm_palloc {ρ ρ' : Type} (s : St) : (norm (.palloc s : Step ρ ρ) : Step ρ' ρ) = .palloc s := rfl
theorem norm_pcb {ρ ρ' : Type} (s : St) : (norm (.pcb s : Step ρ ρ) : Step ρ' ρ) = .pcb s := rfl
theorem norm_ub {ρ ρ' : Type} (u : UB) : (norm (.ub u : Step ρ ρ) : Step ρ' ρ) = .ub u := rfl

theorem call_norm {ρ ρ' : Type} (m : M ρ ρ) (s : St) : (Rt.call m : M ρ' ρ) s = norm (m s) := by
  rw [call_ap]; cases m s <;> rfl

/-- a hand-model outcome of a `Result<(), ReserveError>` method, as the step the caller sees -/
def stepOfRes {ρ' : Type} (rf : Refuse) (st : List Bytes) : Res Unit → Step ρ' (Rs Unit)
  | .ok _ hp r => .next (.ok ()) ⟨rf, st, hp, r⟩
  | .err hp r => .next .err ⟨rf, st, hp, r⟩
  | .pidx hp r => .pidx ⟨rf, st, hp, r⟩
  | .pcb hp r => .pcb ⟨rf, st, hp, r⟩
  | .ub u => .ub u

/-! ### outcomes the hand model never produces -/

theorem moveTo_ne_pcb (hp : Heap) (r : Handle) (l : Nat) (res : Option Nat × Heap) (hp1 : Heap) (r1 : Handle) :
    moveTo hp r l res ≠ .pcb hp1 r1 := by
  intro h; unfold moveTo at h
  split at h
  · cases h
  · split at h <;> cases h
theorem reserve_ne_pcb (rf : Refuse) (st : List Bytes) (hp : Heap) (r : Handle) (n : Nat) (hp1 : Heap) (r1 : Handle) :
    reserve rf st hp r n ≠ .pcb hp1 r1 := by
  intro h
  unfold reserve at h
  simp only [] at h
  repeat' split at h
  all_goals first | (cases h; done) | exact moveTo_ne_pcb _ _ _ _ _ _ h
theorem ensureModifiable_ne_pcb (rf : Refuse) (st : List Bytes) (hp : Heap) (r : Handle) (hp1 : Heap) (r1 : Handle) :
    ensureModifiable rf st hp r ≠ .pcb hp1 r1 := by
  intro h
  unfold ensureModifiable at h
  repeat' split at h
  all_goals first | (cases h; done) | exact moveTo_ne_pcb _ _ _ _ _ _ h

/-- a successful `reserve` means `len + additional` did not overflow (`checked_add` succeeded) -/
theorem reserve_ok_add {rf : Refuse} {st : List Bytes} {hp : Heap} {r : Handle} {n : Nat} {v : Unit} {hp1 : Heap} {r1 : Handle}
    (h : reserve rf st hp r n = .ok v hp1 r1) : r.len + n < USIZE := by
  unfold reserve at h
  simp only [] at h
  cases hc : checkedAdd r.len n with
  | none => rw [hc] at h; cases h
  | some x =>
    unfold checkedAdd at hc
    by_cases hlt : r.len + n < USIZE
    · exact hlt
    · rw [if_neg hlt] at hc; cases hc

/-! ### what a successful hand-model write says about the raw slice the code takes -/

theorem slice_of_write {ρ : Type} (rf : Refuse) (st : List Bytes) {hp1 : Heap} {r1 : Handle} {off : Nat} {bytes : Bytes}
    {hp2 : Heap} {r2 : Handle} (h : writeBytes hp1 r1 off bytes = .ok (hp2, r2)) :
    ∃ c, (Repr.as_slice_mut : M ρ SliceMut) ⟨rf, st, hp1, r1⟩ = .next ⟨0, c⟩ ⟨rf, st, hp1, r1⟩ ∧ off + bytes.length ≤ c := by
  cases r1 with
  | stat i l => simp only [writeBytes] at h; cases h
  | inl raw =>
    simp only [writeBytes] at h
    split at h
    · rename_i hc; exact ⟨MAX_INLINE, as_slice_mut_inl rf st hp1 raw, hc.1⟩
    · cases h
  | heap a l =>
    simp only [writeBytes, Heap.write] at h
    cases hg : hp1.get? a with
    | none => rw [hg] at h; cases h
    | some b =>
      rw [hg] at h; simp only at h
      refine ⟨b.cap, as_slice_mut_heap rf st hp1 a l hg, ?_⟩
      by_cases h1 : b.rc ≠ 1
      · rw [if_pos h1] at h; cases h
      · rw [if_neg h1] at h
        by_cases h2 : off + bytes.length > b.cap
        · rw [if_pos h2] at h; cases h
        · omega

/-! ### two raw writes (move the tail, fill the gap) are one model write -/

theorem writeAt_length (d : Bytes) (off : Nat) (s : Bytes) (h : off + s.length ≤ d.length) : (writeAt d off s).length = d.length := by
  unfold writeAt; simp only [List.length_append, List.length_take, List.length_drop]; omega

/-- moving the tail first and then filling the gap is one write of `s ++ tail` -/
theorem writeAt_append (d : Bytes) (i : Nat) (s tail : Bytes) (h : i + s.length + tail.length ≤ d.length) :
    writeAt (writeAt d (i + s.length) tail) i s = writeAt d i (s ++ tail) := by
  unfold writeAt
  have hA : (d.take (i + s.length)).length = i + s.length := by rw [List.length_take]; omega
  have h1 : ((d.take (i + s.length) ++ tail ++ d.drop (i + s.length + tail.length)).take i) = d.take i := by
    rw [List.append_assoc, List.take_append_of_le_length (by omega), List.take_take]
    congr 1; omega
  have h2 : ((d.take (i + s.length) ++ tail ++ d.drop (i + s.length + tail.length)).drop (i + s.length)) =
      tail ++ d.drop (i + s.length + tail.length) := by
    rw [List.append_assoc]
    conv => lhs; arg 1; rw [← hA]
    exact List.drop_left
  rw [h1, h2, List.length_append]
  simp only [List.append_assoc, Nat.add_assoc]

theorem writeBytes_append {hp1 : Heap} {r1 : Handle} {idx : Nat} {s tail : Bytes} {hp3 : Heap} {r3 : Handle}
    (hD : DataOk hp1) (hR : RawOk r1) (h : writeBytes hp1 r1 idx (s ++ tail) = .ok (hp3, r3)) :
    ∃ hp2 r2, writeBytes hp1 r1 (idx + s.length) tail = .ok (hp2, r2) ∧ writeBytes hp2 r2 idx s = .ok (hp3, r3) := by
  cases r1 with
  | stat i l => simp only [writeBytes] at h; cases h
  | inl raw =>
    have hraw : raw.length = MAX_INLINE := hR
    simp only [writeBytes, List.length_append] at h ⊢
    by_cases hc : idx + (s.length + tail.length) ≤ MAX_INLINE ∧ raw.length = MAX_INLINE
    · rw [if_pos hc] at h
      have hl1 : (writeAt raw (idx + s.length) tail).length = MAX_INLINE := by rw [writeAt_length _ _ _ (by omega)]; exact hraw
      refine ⟨hp1, .inl (writeAt raw (idx + s.length) tail), ?_, ?_⟩
      · rw [if_pos ⟨by omega, hraw⟩]
      · simp only []
        rw [if_pos ⟨by omega, hl1⟩, writeAt_append raw idx s tail (by omega)]; exact h
    · rw [if_neg hc] at h; cases h
  | heap a l =>
    simp only [writeBytes, Heap.write] at h ⊢
    cases hg : hp1.get? a with
    | none => rw [hg] at h; cases h
    | some b =>
      rw [hg] at h; simp only at h ⊢
      have hdl := hD a b hg
      by_cases h1 : b.rc ≠ 1
      · rw [if_pos h1] at h; cases h
      · rw [if_neg h1] at h ⊢
        rw [List.length_append] at h
        by_cases h2 : idx + (s.length + tail.length) > b.cap
        · rw [if_pos h2] at h; cases h
        · rw [if_neg h2] at h
          rw [if_neg (by omega)]
          refine ⟨_, _, rfl, ?_⟩
          simp only [setBlock_get hp1 a b _ hg, h1, if_false]
          rw [if_neg (by omega)]
          simp only [] at h ⊢
          rw [← h]
          simp only [Heap.setBlock, List.set_set, writeAt_append b.data idx s tail (by omega)]

/-- the text a handle reads is the first `len()` bytes of the storage it may write to -/
theorem storage_text {hp1 : Heap} {st : List Bytes} {r1 : Handle} {t1 : Bytes} {off : Nat} {x : Bytes} {hp2 : Heap} {r2 : Handle}
    (hD : DataOk hp1) (hR : RawOk r1) (ht : textOf hp1 st r1 = .ok t1) (hw : writeBytes hp1 r1 off x = .ok (hp2, r2)) :
    ∃ stor, storageOf hp1 r1 = .ok stor ∧ t1 = stor.take r1.len ∧ r1.len ≤ stor.length := by
  cases r1 with
  | stat i l => simp only [writeBytes] at hw; cases hw
  | inl raw =>
    have hraw : raw.length = MAX_INLINE := hR
    simp only [textOf, Except.ok.injEq] at ht
    refine ⟨raw, rfl, ht.symm, ?_⟩
    simp only [Handle.len]; rw [hraw]; unfold inlLen; omega
  | heap a l =>
    simp only [textOf] at ht
    cases hg : hp1.get? a with
    | none => rw [hg] at ht; cases ht
    | some b =>
      rw [hg] at ht; simp only at ht
      by_cases hl : l ≤ b.cap
      · rw [if_pos hl] at ht; injection ht with ht
        exact ⟨b.data, by simp only [storageOf, hg], ht.symm, by simp only [Handle.len]; rw [hD a b hg]; exact hl⟩
      · rw [if_neg hl] at ht; cases ht

theorem text_len {hp : Heap} {st : List Bytes} {r : Handle} {t : Bytes} (hD : DataOk hp) (hR : RawOk r)
    (ht : textOf hp st r = .ok t) : t.length = r.len := by
  cases r with
  | stat i l => exact textOf_stat_len ht
  | inl raw =>
    simp only [textOf, Except.ok.injEq] at ht
    rw [← ht]; exact take_len_raw hR
  | heap a l =>
    simp only [textOf] at ht
    cases hg : hp.get? a with
    | none => rw [hg] at ht; cases ht
    | some b =>
      rw [hg] at ht; simp only at ht
      by_cases hl : l ≤ b.cap
      · rw [if_pos hl] at ht; injection ht with ht; rw [← ht]; exact take_len_block hD hg hl
      · rw [if_neg hl] at ht; cases ht

end LS.GenTie
