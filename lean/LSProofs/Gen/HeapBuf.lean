import LSProofs.Gen.Base
import LSProofs.Tie
import LSProofs.Wf
/-!
# `heap_buffer.rs`, translated, is the primitives everything above is written over

`tools/rs2lean.py` also translates the bodies of `TextLen::new`, `Capacity::new` and of `HeapBuffer::{allocate_ptr, new,
with_capacity, with_additional, allocation, capacity, is_unique, dealloc, realloc}` — over the *raw allocator*
interface of `LSModel/Rt.lean` (`alloc` / `realloc` / `dealloc`, raw pointers with an offset, the header written by
`ptr::write`).  Each theorem here says that such a body is the `Rt` primitive the `Repr`-level translations call
(`HeapBuffer.new`, `HeapRef.rs_realloc`, …), i.e. the hand model's `heapNew`, `Heap.realloc`, … ; for `realloc` /
`dealloc` under the facts their callers have (a well-formed block, count 1 resp. 0).  What remains primitive below this
file: the allocator itself, raw-pointer arithmetic, `Layout`, `ptr::write` of the header.
-/
open LS LS.Rt
set_option linter.unusedSimpArgs false

namespace LS.GenTie

/-- the length word without its marker byte is the length (`TextLen::as_usize` of `TextLen::new(n)`) -/
theorem untag (n : Nat) (h : n ≤ MAX_LEN) : (n ||| Gen.heapTag) ^^^ Gen.heapTag = n := by
  have hm := Tie.maxLen_eq
  apply Nat.eq_of_testBit_eq
  intro i
  simp only [Nat.testBit_xor, Nat.testBit_or]
  by_cases hi : i < 56
  · have ht : Gen.heapTag.testBit i = false := by
      rw [Tie.heapTag_eq, Tie.heapMarker_eq, Nat.testBit_shiftLeft]
      simp only [ge_iff_le, Bool.and_eq_false_imp, decide_eq_true_eq]
      intro h56; omega
    simp [ht]
  · have hn : n.testBit i = false := by
      apply Nat.testBit_lt_two_pow
      have : 2 ^ 56 ≤ 2 ^ i := Nat.pow_le_pow_right (by omega) (by omega)
      omega
    simp [hn]

theorem textlen_new_tie {ρ' : Type} (n : Nat) (s : St) :
    (norm (GenRepr.TextLen.new_body n s) : Step ρ' (Rs TextLenV)) = (TextLen.new n : M ρ' (Rs TextLenV)) s := by
  unfold GenRepr.TextLen.new_body TextLen.new
  by_cases h : n > MAX_LEN
  · rt_step [h, norm_done, Rt.TextLen, Nat.rs_to_le]
  · rt_step [h, norm_next, Rt.TextLen, Nat.rs_to_le, TextLen.TAG]

theorem capacity_new_tie {ρ' : Type} (c : Nat) (s : St) :
    (norm (GenRepr.Capacity.new_body c s) : Step ρ' (Rs CapV)) = (Capacity.new c : M ρ' (Rs CapV)) s := by
  unfold GenRepr.Capacity.new_body Capacity.new
  by_cases h : c > MAX_LEN
  · rt_step [h, norm_done, cold_path, Rt.Capacity]
  · rt_step [h, norm_next, cold_path, Rt.Capacity]

theorem padTo_nil (c : Nat) : padTo c [] = List.replicate c JUNK := by simp [padTo]

theorem allocate_ptr_tie {ρ' : Type} (c : CapV) (s : St) :
    (norm (GenRepr.HeapBuffer.allocate_ptr_body c s) : Step ρ' (Rs NonNullV)) = (HeapBuffer.allocate_ptr c : M ρ' _) s := by
  obtain ⟨rf, st, hp, self⟩ := s
  unfold GenRepr.HeapBuffer.allocate_ptr_body HeapBuffer.allocate_ptr
  by_cases hl : HEADER + c.c ≤ 2 ^ 63 - 8
  · by_cases hr : rf hp.reqs (HEADER + c.c) = true
    · rt_step [hl, hr, norm_done, norm_next, HeapBuffer.layout_from_capacity, alloc, RawPtrV.rs_is_null, Heap.allocate, Option.isNone, if_true]
    · have hr' : rf hp.reqs (HEADER + c.c) = false := by simpa using hr
      rt_step [hl, hr', norm_done, norm_next, HeapBuffer.layout_from_capacity, alloc, RawPtrV.rs_is_null, Heap.allocate, Option.isNone,
        is_len_heap_layout, RawPtrV.rs_cast, AtomicUsize.new, Header.mk, ptr.write, WriteVal.wr, writeHeader, HeapBuffer.header_offset,
        RawPtrV.rs_add, NonNull.new_unchecked, Heap.get?, Heap.setBlock, padTo_nil]
      simp [Nat.add_sub_cancel_left, norm_next]
  · rt_step [hl, norm_done, HeapBuffer.layout_from_capacity]

theorem allocate_ptr_ap {ρ : Type} (c : CapV) (s : St) :
    (HeapBuffer.allocate_ptr c : M ρ (Rs NonNullV)) s =
      if HEADER + c.c ≤ 2 ^ 63 - 8 then
        match s.hp.allocate s.rf c.c [] with
        | (some a, hp') => .next (.ok ⟨a⟩) { s with hp := hp' }
        | (none, hp') => .next .err { s with hp := hp' }
      else .next .err s := by cases s; rfl

theorem writeAt_pad (t : Bytes) (c : Nat) (_h : t.length ≤ c) : writeAt (padTo c []) 0 t = padTo c t := by
  simp only [writeAt, padTo, List.take_zero, List.nil_append, List.length_nil, Nat.sub_zero, Nat.zero_add, List.drop_replicate]

theorem new_tie {ρ' : Type} (t : Str) (s : St) :
    (norm (GenRepr.HeapBuffer.new_body t s) : Step ρ' (Rs HeapBuf)) = (HeapBuffer.new t : M ρ' _) s := by
  obtain ⟨rf, st, hp, self⟩ := s
  unfold GenRepr.HeapBuffer.new_body HeapBuffer.new
  by_cases hm : t.b.length > MAX_LEN
  · have : capOk t.b.length = false := by simp [capOk]; omega
    rt_step [hm, this, norm_done, TextLen.new, allocTo_ap, heapNew]
  · by_cases hl : HEADER + t.b.length ≤ 2 ^ 63 - 8
    · have hc : capOk t.b.length = true := by simp [capOk]; omega
      by_cases hr : rf hp.reqs (HEADER + t.b.length) = true
      · rt_step [hm, hl, hc, hr, norm_done, norm_next, TextLen.new, Capacity.new, allocTo_ap, heapNew, allocate_ptr_ap, Heap.allocate]
      · have hr' : rf hp.reqs (HEADER + t.b.length) = false := by simpa using hr
        rt_step [hm, hl, hc, hr', norm_done, norm_next, TextLen.new, Capacity.new, allocTo_ap, heapNew, allocate_ptr_ap, Heap.allocate,
          TextLenV.rs_is_heap, NonNullV.rs_as_ptr, ptr.copy_nonoverlapping, CopyDst.cp, ptr.copy_to_block, HeapBuffer.mk,
          Heap.get?, Heap.setBlock]
        have hu := untag _ (Nat.not_lt.mp hm)
        have hpl : (padTo t.b.length []).length = t.b.length := by simp [padTo]
        simp [hu, hpl, writeAt_pad _ _ (Nat.le_refl _), norm_next]
    · have hc : capOk t.b.length = false := by simp [capOk]; omega
      rt_step [hm, hl, hc, norm_done, norm_next, TextLen.new, Capacity.new, allocTo_ap, heapNew, allocate_ptr_ap]

theorem with_capacity_tie {ρ' : Type} (c : Nat) (s : St) :
    (norm (GenRepr.HeapBuffer.with_capacity_body c s) : Step ρ' (Rs HeapBuf)) = (HeapBuffer.with_capacity c : M ρ' _) s := by
  obtain ⟨rf, st, hp, self⟩ := s
  unfold GenRepr.HeapBuffer.with_capacity_body HeapBuffer.with_capacity
  have h0 : ¬ (0 > MAX_LEN) := by omega
  have hu := untag 0 (Nat.zero_le _)
  by_cases hm : c > MAX_LEN
  · have : capOk c = false := by simp [capOk]; omega
    rt_step [hm, h0, this, norm_done, TextLen.new, Capacity.new, allocTo_ap, heapWithCapacity]
  · by_cases hl : HEADER + c ≤ 2 ^ 63 - 8
    · have hc : capOk c = true := by simp [capOk]; omega
      by_cases hr : rf hp.reqs (HEADER + c) = true
      · rt_step [hm, h0, hl, hc, hr, norm_done, norm_next, TextLen.new, Capacity.new, allocTo_ap, heapWithCapacity, allocate_ptr_ap, Heap.allocate]
      · have hr' : rf hp.reqs (HEADER + c) = false := by simpa using hr
        rt_step [hm, h0, hl, hc, hr', norm_done, norm_next, TextLen.new, Capacity.new, allocTo_ap, heapWithCapacity, allocate_ptr_ap, Heap.allocate,
          HeapBuffer.mk, hu]
    · have hc : capOk c = false := by simp [capOk]; omega
      rt_step [hm, h0, hl, hc, norm_done, norm_next, TextLen.new, Capacity.new, allocTo_ap, heapWithCapacity, allocate_ptr_ap]

theorem with_additional_tie {ρ' : Type} (t : Str) (add : Nat) (s : St) :
    (norm (GenRepr.HeapBuffer.with_additional_body t add s) : Step ρ' (Rs HeapBuf)) = (HeapBuffer.with_additional t add : M ρ' _) s := by
  obtain ⟨rf, st, hp, self⟩ := s
  unfold GenRepr.HeapBuffer.with_additional_body HeapBuffer.with_additional
  generalize hg : Gen.amortizedGrowth t.b.length add = c
  by_cases hm : t.b.length > MAX_LEN
  · have hd : decide (t.b.length ≤ MAX_LEN) = false := by simp; omega
    rt_step [hm, hd, hg, norm_done, TextLen.new, allocTo_ap, heapWithAdditional, Bool.false_and]
  · have hd : decide (t.b.length ≤ MAX_LEN) = true := by simp; omega
    by_cases hcm : c > MAX_LEN
    · have : capOk c = false := by simp [capOk]; omega
      rt_step [hm, hd, hcm, hg, this, norm_done, TextLen.new, Capacity.new, amortized_growth, allocTo_ap, heapWithAdditional, Bool.and_false]
    · by_cases hl : HEADER + c ≤ 2 ^ 63 - 8
      · have hc : capOk c = true := by simp [capOk]; omega
        by_cases hr : rf hp.reqs (HEADER + c) = true
        · rt_step [hm, hd, hcm, hg, hl, hc, hr, norm_done, norm_next, TextLen.new, Capacity.new, amortized_growth, allocTo_ap, heapWithAdditional,
            allocate_ptr_ap, Heap.allocate, Bool.and_true]
        · have hr' : rf hp.reqs (HEADER + c) = false := by simpa using hr
          rt_step [hm, hd, hcm, hg, hl, hc, hr', norm_done, norm_next, TextLen.new, Capacity.new, amortized_growth, allocTo_ap, heapWithAdditional,
            allocate_ptr_ap, Heap.allocate, Bool.and_true,
            TextLenV.rs_is_heap, NonNullV.rs_as_ptr, ptr.copy_nonoverlapping, CopyDst.cp, ptr.copy_to_block, HeapBuffer.mk,
            Heap.get?, Heap.setBlock]
          have hu := untag _ (Nat.not_lt.mp hm)
          have hle : t.b.length ≤ c := by
            have hmx := Tie.maxLen_eq
            rw [← hg]; unfold Gen.amortizedGrowth Gen.satAdd; simp only []
            omega
          have hpl : (padTo c []).length = c := by simp [padTo]
          simp [hu, hpl, hle, writeAt_pad _ _ hle, norm_next]
      · have hc : capOk c = false := by simp [capOk]; omega
        rt_step [hm, hd, hcm, hg, hl, hc, norm_done, norm_next, TextLen.new, Capacity.new, amortized_growth, allocTo_ap, heapWithAdditional, allocate_ptr_ap,
          Bool.and_false]

/-! ### readers -/

theorem onHeap_ap {ρ α : Type} (f : St → Nat → Nat → Block → Step ρ α) (s : St) :
    (onHeap f : M ρ α) s = match s.self with
      | .heap a l => (match s.hp.get? a with | some b => f s a l b | none => .ub .useAfterFree)
      | _ => .ub .oob := by cases s; rfl

theorem capacity_tie {ρ' : Type} (s : St) :
    (norm (GenRepr.HeapBuffer.capacity_body s) : Step ρ' Nat) = (HeapRef.rs_capacity .mk : M ρ' _) s := by
  obtain ⟨rf, st, hp, self⟩ := s
  unfold GenRepr.HeapBuffer.capacity_body
  cases self with
  | heap a l =>
    cases hg : hp.get? a with
    | none => rt_step [hg, HeapBuffer.header, HeapRef.rs_capacity, onHeap_ap, norm_ub]
    | some b => rt_step [hg, HeapBuffer.header, HeaderRef.rs_get_capacity, CapV.rs_as_usize, HeapRef.rs_capacity, onHeap_ap, norm_next]
  | inl raw => rt_step [HeapBuffer.header, HeapRef.rs_capacity, onHeap_ap, norm_ub]
  | stat i l => rt_step [HeapBuffer.header, HeapRef.rs_capacity, onHeap_ap, norm_ub]

theorem is_unique_tie {ρ' : Type} (s : St) :
    (norm (GenRepr.HeapBuffer.is_unique_body s) : Step ρ' Bool) = (HeapRef.rs_is_unique .mk : M ρ' _) s := by
  obtain ⟨rf, st, hp, self⟩ := s
  unfold GenRepr.HeapBuffer.is_unique_body
  cases self with
  | heap a l =>
    cases hg : hp.get? a with
    | none => rt_step [hg, HeapBuffer.header, HeapRef.rs_is_unique, onHeap_ap, norm_ub]
    | some b => rt_step [hg, HeapBuffer.header, HeaderRef.rs_get_count, RcRef.rs_load, HeapRef.rs_is_unique, onHeap_ap, norm_next]
  | inl raw => rt_step [HeapBuffer.header, HeapRef.rs_is_unique, onHeap_ap, norm_ub]
  | stat i l => rt_step [HeapBuffer.header, HeapRef.rs_is_unique, onHeap_ap, norm_ub]

theorem allocation_tie {ρ' : Type} (s : St) :
    (norm (GenRepr.HeapBuffer.allocation_body s) : Step ρ' RawPtrV) = (HeapBuffer.allocation : M ρ' _) s := by
  obtain ⟨rf, st, hp, self⟩ := s
  unfold GenRepr.HeapBuffer.allocation_body HeapBuffer.allocation
  cases self with
  | heap a l => rt_step [HeapBuffer.get_len, HeapBuffer.get_ptr, TextLenV.rs_is_heap, NonNullV.rs_as_ptr, RawPtrV.rs_cast,
      HeapBuffer.header_offset, RawPtrV.rs_sub, Nat.le_refl, Nat.sub_self, norm_next]
  | inl raw => rt_step [HeapBuffer.get_len, norm_ub]
  | stat i l => rt_step [HeapBuffer.get_len, norm_ub]

/-! ### `dealloc`, `realloc` -/

theorem slots_of_getq {hp : Heap} {a : Nat} {b : Block} (h : hp.get? a = some b) : hp.slots[a]? = some (.live b) := by
  unfold Heap.get? at h
  split at h
  · next b' hb => rw [hb]; cases h; rfl
  · cases h

/-- `HeapBuffer::dealloc` on a block whose count has reached zero -/
theorem dealloc_tie {ρ' : Type} (rf : Refuse) (st : List Bytes) (hp : Heap) (a l : Nat) (b : Block)
    (hg : hp.get? a = some b) (hrc : b.rc = 0) (hlay : HEADER + b.cap ≤ 2 ^ 63 - 8) :
    (norm (GenRepr.HeapBuffer.dealloc_body ⟨rf, st, hp, .heap a l⟩) : Step ρ' Unit) =
      (HeapRef.rs_dealloc .mk : M ρ' _) ⟨rf, st, hp, .heap a l⟩ := by
  unfold GenRepr.HeapBuffer.dealloc_body
  have hs := slots_of_getq hg
  by_cases hz : b.size = HEADER + b.cap
  · rt_step [hg, hs, hrc, hlay, hz, HeapBuffer.header, HeaderRef.rs_get_capacity, HeapBuffer.layout_from_capacity, HeapBuffer.allocation,
      dealloc, HeapRef.rs_dealloc, onHeap_ap, norm_next, ne_eq, not_true_eq_false]
  · rt_step [hg, hs, hrc, hlay, hz, HeapBuffer.header, HeaderRef.rs_get_capacity, HeapBuffer.layout_from_capacity, HeapBuffer.allocation,
      dealloc, HeapRef.rs_dealloc, onHeap_ap, norm_ub, ne_eq, not_true_eq_false]

theorem getq_realloc (hp : Heap) (a : Nat) (nb : Block) (r : Nat) (lg : List Ev) :
    Heap.get? ⟨hp.slots.set a .freed ++ [.live nb], r, lg⟩ hp.slots.length = some nb := by
  simp [Heap.get?]

theorem setBlock_realloc (hp : Heap) (a : Nat) (nb nb' : Block) (r : Nat) (lg : List Ev) :
    Heap.setBlock ⟨hp.slots.set a .freed ++ [.live nb], r, lg⟩ hp.slots.length nb' = ⟨hp.slots.set a .freed ++ [.live nb'], r, lg⟩ := by
  simp [Heap.setBlock]

/-- `HeapBuffer::realloc` on a uniquely owned, well-formed block -/
theorem realloc_tie {ρ' : Type} (rf : Refuse) (st : List Bytes) (hp : Heap) (a l : Nat) (b : Block) (newCap : Nat)
    (hg : hp.get? a = some b) (hrc : b.rc = 1) (hz : b.size = HEADER + b.cap) (hd : b.data.length = b.cap)
    (hlay : HEADER + b.cap ≤ 2 ^ 63 - 8) :
    (norm (GenRepr.HeapBuffer.realloc_body newCap ⟨rf, st, hp, .heap a l⟩) : Step ρ' (Rs Unit)) =
      (HeapRef.rs_realloc .mk newCap : M ρ' _) ⟨rf, st, hp, .heap a l⟩ := by
  unfold GenRepr.HeapBuffer.realloc_body HeapRef.rs_realloc
  have hmx := Tie.maxLen_eq
  have hH : HEADER = 16 := by decide
  by_cases hm : newCap > MAX_LEN
  · have hc : capOk newCap = false := by simp [capOk]; omega
    rt_step [hm, hc, hg, hrc, Capacity.new, Heap.realloc, norm_done, ne_eq, not_true_eq_false, Bool.not_false]
  · have hc : capOk newCap = true := by simp [capOk]; omega
    have hw : (size_of_Header + newCap) % USIZE = HEADER + newCap := by
      rw [Nat.mod_eq_of_lt]; · rfl
      · show HEADER + newCap < 2 ^ 64; omega
    by_cases hr : rf hp.reqs (HEADER + newCap) = true
    · rt_step [hm, hc, hg, hrc, hz, hlay, hr, hw, Capacity.new, Heap.realloc, norm_done, ne_eq, not_true_eq_false, Bool.not_true,
        HeapBuffer.header, HeaderRef.rs_get_capacity, HeapBuffer.layout_from_capacity, is_len_heap_layout, CapV.rs_as_usize,
        Nat.rs_wrapping_add, HeapBuffer.allocation, realloc, RawPtrV.rs_is_null, Option.isNone, onHeap_ap]
    · have hr' : rf hp.reqs (HEADER + newCap) = false := by simpa using hr
      rt_step [hm, hc, hg, hrc, hz, hlay, hr', hw, Capacity.new, Heap.realloc, norm_done, norm_next, ne_eq, not_true_eq_false, Bool.not_true,
        HeapBuffer.header, HeaderRef.rs_get_capacity, HeapBuffer.layout_from_capacity, is_len_heap_layout, CapV.rs_as_usize,
        Nat.rs_wrapping_add, HeapBuffer.allocation, realloc, RawPtrV.rs_is_null, Option.isNone, onHeap_ap,
        RawPtrV.rs_cast, AtomicUsize.new, Header.mk, ptr.write, WriteVal.wr, writeHeader, HeapBuffer.header_offset,
        RawPtrV.rs_add, NonNull.new_unchecked, HeapBuffer.set_ptr, getq_realloc, setBlock_realloc]
      simp [Nat.add_sub_cancel_left, hd, norm_next]

/-- the layout of a well-formed block is one `Layout` accepts -/
theorem blockOk_layout {n : Nat} {b : Block} (hb : BlockOk n b) : HEADER + b.cap ≤ 2 ^ 63 - 8 := by
  have hmx := Tie.maxLen_eq
  have hH : HEADER = 16 := by decide
  have := hb.2.2.1
  omega

/-- `realloc` on a block of a well-formed world that the caller found unique -/
theorem realloc_tie_wf {ρ' : Type} (rf : Refuse) (st : List Bytes) (hp : Heap) (a l n : Nat) (b : Block) (newCap : Nat)
    (hg : hp.get? a = some b) (hb : BlockOk n b) (hrc : b.rc = 1) :
    (norm (GenRepr.HeapBuffer.realloc_body newCap ⟨rf, st, hp, .heap a l⟩) : Step ρ' (Rs Unit)) =
      (HeapRef.rs_realloc .mk newCap : M ρ' _) ⟨rf, st, hp, .heap a l⟩ :=
  realloc_tie rf st hp a l b newCap hg hrc hb.2.2.2.2 hb.2.2.2.1 (blockOk_layout hb)

/-- `dealloc` of a block that was well-formed until its last reference was given up (`fetch_sub` saw 1) -/
theorem dealloc_tie_wf {ρ' : Type} (rf : Refuse) (st : List Bytes) (hp : Heap) (a l : Nat) (b : Block)
    (hg : hp.get? a = some b) (hrc : b.rc = 0) (hcap : b.cap ≤ MAX_LEN) :
    (norm (GenRepr.HeapBuffer.dealloc_body ⟨rf, st, hp, .heap a l⟩) : Step ρ' Unit) =
      (HeapRef.rs_dealloc .mk : M ρ' _) ⟨rf, st, hp, .heap a l⟩ := by
  refine dealloc_tie rf st hp a l b hg hrc ?_
  have hmx := Tie.maxLen_eq
  have hH : HEADER = 16 := by decide
  omega

/-- non-vacuity: a live unique block of capacity 32 satisfies `realloc_tie_wf`'s premises -/
example : BlockOk 1 { rc := 1, cap := 32, size := HEADER + 32, data := List.replicate 32 JUNK } := by
  refine ⟨rfl, by decide, by decide, by simp, rfl⟩

end LS.GenTie
