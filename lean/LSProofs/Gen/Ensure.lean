import LSProofs.Gen.Release
import LSProofs.Gen.Ctor
/-! # Tie: `Repr::ensure_modifiable` -/
open LS LS.Rt
set_option linter.unusedSimpArgs false

namespace LS.GenTie

theorem ensure_modifiable_tie (s : St) (hd : DataOk s.hp) :
    resOf (GenRepr.Repr.ensure_modifiable s) = ensureModifiable s.rf s.st s.hp s.self := by
  rcases s with ⟨rf, st, hp, r⟩
  unfold GenRepr.Repr.ensure_modifiable ensureModifiable
  cases r with
  | inl raw => rt_step [resOf]
  | stat i l =>
    cases ht : textOf hp st (.stat i l) with
    | error u => rt_step [ht, resOf]
    | ok t =>
      rcases hf : fromStr rf hp t with ⟨o, hp1⟩
      cases o with
      | none => rt_step [ht, from_str_step, hf, resOf]
      | some r' => rt_step [ht, from_str_step, hf, replace_inner_step, releaseRepr, resOf]
  | heap a l =>
    cases hg : hp.get? a with
    | none => rt_heap_none rf st hp a l hg [resOf]
    | some b =>
      by_cases h1 : b.rc = 1
      · rt_heap_some rf st hp a l hg [h1, resOf]
      · by_cases h3 : l ≤ b.cap
        · rcases hw : heapNew rf hp (b.data.take l) with ⟨o, hp1⟩
          cases o with
          | none => rt_heap_some rf st hp a l hg [h1, h3, hw, moveTo, resOf]
          | some a' =>
            cases hrl : releaseRepr hp1 (.heap a l) <;>
              rt_heap_some rf st hp a l hg [h1, h3, hw, moveTo, take_len_block hd hg h3, replace_inner_step, hrl, resOf]
        · rt_heap_some rf st hp a l hg [h1, h3, resOf]

/-- the same tie in the form a caller rewrites with -/
theorem ensure_modifiable_norm {ρ' : Type} (s : St) (hd : DataOk s.hp) :
    (norm (GenRepr.Repr.ensure_modifiable s) : Step ρ' (Rs Unit)) = stepOfRes s.rf s.st (ensureModifiable s.rf s.st s.hp s.self) := by
  rcases s with ⟨rf, st, hp, r⟩
  unfold GenRepr.Repr.ensure_modifiable ensureModifiable
  cases r with
  | inl raw => rt_step [norm, stepOfRes]
  | stat i l =>
    cases ht : textOf hp st (.stat i l) with
    | error u => rt_step [ht, norm, stepOfRes]
    | ok t =>
      rcases hf : fromStr rf hp t with ⟨o, hp1⟩
      cases o with
      | none => rt_step [ht, from_str_step, hf, norm, stepOfRes]
      | some r' => rt_step [ht, from_str_step, hf, replace_inner_step, releaseRepr, norm, stepOfRes]
  | heap a l =>
    cases hg : hp.get? a with
    | none => rt_heap_none rf st hp a l hg [norm, stepOfRes]
    | some b =>
      by_cases h1 : b.rc = 1
      · rt_heap_some rf st hp a l hg [h1, norm, stepOfRes]
      · by_cases h3 : l ≤ b.cap
        · rcases hw : heapNew rf hp (b.data.take l) with ⟨o, hp1⟩
          cases o with
          | none => rt_heap_some rf st hp a l hg [h1, h3, hw, moveTo, norm, stepOfRes]
          | some a' =>
            cases hrl : releaseRepr hp1 (.heap a l) <;>
              rt_heap_some rf st hp a l hg [h1, h3, hw, moveTo, take_len_block hd hg h3, replace_inner_step, hrl, norm, stepOfRes]
        · rt_heap_some rf st hp a l hg [h1, h3, norm, stepOfRes]


end LS.GenTie
