import LSProofs.Gen.Ensure
import LSProofs.Gen.SetLen
/-! # Ties: `Repr::pop`, `Repr::remove` -/
open LS LS.Rt
set_option linter.unusedSimpArgs false

namespace LS.GenTie

/-- `pop`: the code subtracts `ch.len_utf8()` from `len()`; the last character of a non-empty valid text fits in it
(`hfit`, from `Valid`) — the hand model's ℕ subtraction would silently truncate otherwise -/
theorem pop_tie (s : St) (hd : DataOk s.hp) (hr : RawOk s.self)
    (hfit : ∀ t, textOf s.hp s.st s.self = .ok t → t.isEmpty = false → trailing t + 1 ≤ t.length) :
    resOfOptChr (GenRepr.Repr.pop s) = pop s.st s.hp s.self := by
  rcases s with ⟨rf, st, hp, r⟩
  simp only at hd hr hfit
  unfold GenRepr.Repr.pop pop
  cases htx : textOf hp st r with
  | error u => rt_step [htx, resOfOptChr]
  | ok t =>
    have hl := text_len hd hr htx
    cases he : t.isEmpty with
    | true => rt_step [htx, he, resOfOptChr, Option.map]
    | false =>
      simp only [Bool.false_eq_true, ↓reduceIte]
      have hsub := eq_true (hfit t htx he)
      cases htu : truncateUnchecked r (t.length - (trailing t + 1)) with
      | error u => rt_step [htx, he, hsub, truncate_unchecked_step, ← hl, htu, resOfOptChr]
      | ok r' => rt_step [htx, he, hsub, truncate_unchecked_step, ← hl, htu, resOfOptChr, Option.map]

theorem str_mut_of_write {ρ : Type} (rf : Refuse) (st : List Bytes) {hp1 : Heap} {r1 : Handle} {off : Nat} {bytes : Bytes}
    {hp2 : Heap} {r2 : Handle} (h : writeBytes hp1 r1 off bytes = .ok (hp2, r2)) :
    (Repr.as_str_mut : M ρ SliceMut) ⟨rf, st, hp1, r1⟩ = .next ⟨0, r1.len⟩ ⟨rf, st, hp1, r1⟩ := by
  cases r1 with
  | stat i l => simp only [writeBytes] at h; cases h
  | inl raw => exact as_str_mut_inl rf st hp1 raw
  | heap a l =>
    simp only [writeBytes, Heap.write] at h
    cases hg : hp1.get? a with
    | none => rw [hg] at h; cases h
    | some b => exact as_str_mut_heap rf st hp1 a l hg

theorem head_drop_getD (t : Bytes) (i : Nat) (h : i < t.length) : ∃ rest, t.drop i = t.getD i 0 :: rest := by
  refine ⟨t.drop (i + 1), ?_⟩
  rw [List.getD_eq_getElem?_getD, List.getElem?_eq_getElem h]
  simp only [Option.getD_some]
  exact List.drop_eq_getElem_cons h

/-- `remove`: agrees with the hand model on every execution in which the hand model raises no alarm,
`ensure_modifiable` hands back a state with the same length and intact storage, and the character at `idx`
fits in the text (valid UTF-8) — all of which follow from `Good` (`LSProofs/Gen/Good.lean`) -/
theorem remove_tie (idx : Nat) (s : St) (hd : DataOk s.hp) (hr : RawOk s.self)
    (hpost : ∀ v hp1 r1, ensureModifiable s.rf s.st s.hp s.self = .ok v hp1 r1 →
      r1.len = s.self.len ∧ DataOk hp1 ∧ RawOk r1 ∧ textOf hp1 s.st r1 = textOf s.hp s.st s.self)
    (hfit : ∀ tx, textOf s.hp s.st s.self = .ok tx → isBoundary tx idx = true → idx < tx.length →
      idx + charWidth (tx.getD idx 0) ≤ tx.length)
    (hub : ∀ u, remove s.rf s.st s.hp s.self idx ≠ .ub u) :
    resOfChr (GenRepr.Repr.remove idx s) = remove s.rf s.st s.hp s.self idx := by
  rcases s with ⟨rf, st, hp, r⟩
  simp only at hub hd hr hpost hfit
  unfold GenRepr.Repr.remove
  unfold remove at hub ⊢
  cases htx : textOf hp st r with
  | error u => rw [htx] at hub; exact absurd rfl (hub u)
  | ok tx =>
    have hl := text_len hd hr htx
    rw [htx] at hub; simp only at hub ⊢
    cases hb : isBoundary tx idx with
    | false => rt_step [htx, hb, resOfChr]
    | true =>
      simp only [hb, Bool.not_true, Bool.false_eq_true, ↓reduceIte] at hub ⊢
      by_cases hi : idx < tx.length
      · have hi' : idx < r.len := by omega
        simp only [hi, decide_true, Bool.not_true, Bool.false_eq_true, ↓reduceIte] at hub ⊢
        have hres := ensure_modifiable_norm (ρ' := Rs Chr) ⟨rf, st, hp, r⟩ hd
        simp only at hres
        cases hrv : ensureModifiable rf st hp r with
        | ub u => rw [hrv] at hub; exact absurd rfl (hub u)
        | err hp1 r1 => rt_step [htx, hb, hi', call_norm, hres, hrv, stepOfRes, resOfChr]
        | pidx hp1 r1 => rt_step [htx, hb, hi', call_norm, hres, hrv, stepOfRes, resOfChr]
        | pcb hp1 r1 => exact absurd hrv (ensureModifiable_ne_pcb _ _ _ _ _ _)
        | ok v hp1 r1 =>
          obtain ⟨hlen1, hD1, hR1, hsame⟩ := hpost v hp1 r1 hrv
          rw [hrv] at hub; simp only at hub ⊢
          cases ht1 : textOf hp1 st r1 with
          | error u => rw [ht1] at hub; exact absurd rfl (hub u)
          | ok t1 =>
            have hl1 := text_len hD1 hR1 ht1
            have htt : t1 = tx := by rw [hsame, htx] at ht1; injection ht1 with ht1; exact ht1.symm
            have hw : idx + charWidth (t1.getD idx 0) ≤ t1.length := by rw [htt]; exact hfit tx htx hb hi
            rw [ht1] at hub; simp only [writeThenSetLen] at hub ⊢
            cases hwb : writeBytes hp1 r1 idx (t1.drop (idx + charWidth (t1.getD idx 0))) with
            | error u => rw [hwb] at hub; exact absurd rfl (hub u)
            | ok p =>
              obtain ⟨hp2, r2⟩ := p
              rw [hwb] at hub; simp only at hub ⊢
              obtain ⟨stor, hstor, ht1e, hsl1⟩ := storage_text hD1 hR1 ht1 hwb
              have hsm := str_mut_of_write (ρ := Rs Chr) rf st hwb
              obtain ⟨rest, hcons⟩ := head_drop_getD t1 idx (by omega)
              have hc1 := eq_true (show idx ≤ r1.len by omega)
              have hc2 := eq_true (show idx + (r1.len - idx) ≤ stor.length by omega)
              have htail : (stor.drop idx).take (r1.len - idx) = t1.drop idx := by rw [ht1e, List.drop_take]
              have hc3 := eq_true (show idx + charWidth (t1.getD idx 0) + (r1.len - idx - charWidth (t1.getD idx 0)) ≤ stor.length by omega)
              have htail2 : (stor.drop (idx + charWidth (t1.getD idx 0))).take (r1.len - idx - charWidth (t1.getD idx 0)) =
                  t1.drop (idx + charWidth (t1.getD idx 0)) := by
                rw [ht1e, List.drop_take]; congr 1; omega
              have hs1 := eq_true (show charWidth (t1.getD idx 0) ≤ r1.len - idx by omega)
              have hs2 := eq_true (show charWidth (t1.getD idx 0) ≤ r.len by omega)
              have e : t1.length - charWidth (t1.getD idx 0) = r.len - charWidth (t1.getD idx 0) := by omega
              rw [e] at hub ⊢
              cases hs3 : setLen r2 (r.len - charWidth (t1.getD idx 0)) with
              | error u => rw [hs3] at hub; exact absurd rfl (hub u)
              | ok r3 =>
                rt_step [htx, hb, hi', call_norm, hres, hrv, stepOfRes, hsm, hc1, Nat.zero_add, hstor, hc2, htail, hcons,
                  hs1, hs2, hc3, htail2, hwb, set_len_step, hs3, norm_next, norm_done, norm_pidx, norm_ub, resOfChr]
      · have hi' : ¬ idx < r.len := by omega
        simp only [hi, decide_false, Bool.not_false, ↓reduceIte] at hub ⊢
        rt_step [htx, hb, hi', resOfChr]
end LS.GenTie
