import LSProofs.Gen.HeapBuf
import LSProofs.Props.C20
/-!
# Byte level: `inline_buffer.rs`, `static_buffer.rs` and the readers of `repr.rs`, translated, are the primitives above them

`InlineBuffer::{new, empty, set_len}`, `StaticBuffer::{new, len, set_len}` and `Repr::{last_byte, len, is_empty, as_bytes,
as_str, as_slice_mut, as_str_mut, from_char, from_bool}` are translated by `tools/rs2lean.py` over a byte-level runtime
(`LSModel/Rt.lean`: local `[u8; N]` arrays with index assignment, `copy_nonoverlapping` into a local array, the second
machine word of a `Repr` as eight little-endian bytes, `to_ne_bytes`/`from_le_bytes`, pointers to the value's own bytes
vs. what its first word points at).  Each theorem says that the translated body is the primitive used one level up —
the hand model's `inlNew`, `inlSetLen`, `Handle.len`, `textOf`, … — on every handle a well-formed world can hold
(`KindOk`; `kindOk_of_wf`).  In particular `len_tie`: the branch-free `len()` of the source (read the second word, clear
its top byte, replace by `min(last_byte − 0xC0, 16)` when `last_byte < HeapMarker`) is the model's `Handle.len`.
-/
open LS LS.Rt
set_option linter.unusedSimpArgs false
namespace LS.GenTie

theorem u8_toNat_ofNat (x : Nat) : (UInt8.ofNat x).toNat = x % 256 := by
  simp [UInt8.toNat_ofNat']

theorem fromLe8_leBytes8 (w : Nat) (h : w < 2 ^ 64) : fromLe8 (leBytes8 w) = some w := by
  simp only [leBytes8, fromLe8, u8_toNat_ofNat, Nat.mod_mod]
  congr 1
  omega

theorem fromLe8_clear7 (w : Nat) (_h : w < 2 ^ 64) : fromLe8 ((leBytes8 w).set 7 (UInt8.ofNat 0)) = some (w % 2 ^ 56) := by
  simp only [leBytes8, List.set, fromLe8, u8_toNat_ofNat, Nat.mod_mod]
  congr 1
  omega

theorem untag_static (n : Nat) (h : n ≤ STATIC_MAX_LEN) : (n ||| Gen.staticTag) ^^^ Gen.staticTag = n := by
  have hm := Tie.staticMaxLen_eq
  apply Nat.eq_of_testBit_eq
  intro i
  simp only [Nat.testBit_xor, Nat.testBit_or]
  by_cases hi : i < 56
  · have ht : Gen.staticTag.testBit i = false := by
      rw [Tie.staticTag_eq, Tie.staticMarker_eq, Nat.testBit_shiftLeft]
      simp only [ge_iff_le, Bool.and_eq_false_imp, decide_eq_true_eq]
      intro h56; omega
    simp [ht]
  · have hn : n.testBit i = false := by
      apply Nat.testBit_lt_two_pow
      have : 2 ^ 56 ≤ 2 ^ i := Nat.pow_le_pow_right (by omega) (by omega)
      omega
    simp [hn]

/-! ### `inline_buffer.rs` -/

theorem zeros_set (v : UInt8) : (List.replicate 16 (UInt8.ofNat 0)).set 15 v = List.replicate 15 (0 : UInt8) ++ [v] := by rfl

theorem inline_new_tie {ρ' : Type} (t : Str) (h : t.b.length ≤ MAX_INLINE) (s : St) :
    (norm (GenRepr.InlineBuffer.new_body t s) : Step ρ' InlineBuf) = (InlineBuffer.new t : M ρ' _) s := by
  unfold GenRepr.InlineBuffer.new_body
  have hmi : MAX_INLINE = 16 := by decide
  have h1 : (1 : Nat) ≤ 16 := by decide
  have hlt : t.b.length % 2 ^ 8 ||| LastByte.MASK_1100_0000 < 256 := by
    have : t.b.length % 2 ^ 8 < 2 ^ 8 := Nat.mod_lt _ (by decide)
    have hm : LastByte.MASK_1100_0000 < 2 ^ 8 := by decide
    exact Nat.or_lt_two_pow this hm
  have hge : ¬ (t.b.length % 2 ^ 8 ||| LastByte.MASK_1100_0000 ≥ 256) := by omega
  rt_step [hmi, h1, hge, ArrayBuf.rs_index_set, ptr.copy_nonoverlapping_local, Rt.InlineBuffer, List.length_replicate, List.length_set,
    norm_next]
  have h15 : (16 - 1 : Nat) = 15 := rfl
  have hlt15 : (15 : Nat) < 16 := by decide
  have h16 : t.b.length ≤ 16 := by omega
  have hp8 : (2 : Nat) ^ 8 = 256 := by decide
  simp only [h15, hlt15, zeros_set, if_true, List.length_append, List.length_replicate, List.length_cons, List.length_nil,
    Nat.le_refl, true_and, h16, List.take_length, List.length_drop, ib_new_ap, norm_next]
  have hlen : t.b.length + (15 + (0 + 1) - t.b.length) = 16 := by omega
  simp only [hlen, if_true, norm_next, inlNew, inlTag, hmi, LastByte.MASK_1100_0000, hp8]

theorem inline_empty_tie {ρ' : Type} (s : St) :
    (norm (GenRepr.InlineBuffer.empty_body s) : Step ρ' InlineBuf) = (InlineBuffer.empty : M ρ' _) s := by
  unfold GenRepr.InlineBuffer.empty_body
  have hmi : MAX_INLINE = 16 := by decide
  have h1 : (1 : Nat) ≤ 16 := by decide
  have hv : LastByte.Length00 % 2 ^ 8 = 0xC0 := by decide
  have hge : ¬ ((0xC0 : Nat) ≥ 256) := by decide
  have h15 : (16 - 1 : Nat) = 15 := rfl
  have hlt15 : (15 : Nat) < 16 := by decide
  rt_step [hmi, h1, hv, hge, h15, hlt15, ArrayBuf.rs_index_set, Rt.InlineBuffer, List.length_replicate, List.length_set, zeros_set,
    ib_empty_ap, norm_next]
  rfl

/-- `InlineBuffer::set_len` on the 16 raw bytes of an inline value -/
theorem inline_set_len_tie {ρ' : Type} (rf : Refuse) (st : List Bytes) (hp : Heap) (raw : Bytes) (n : Nat)
    (hraw : raw.length = 16) (hn : n ≤ MAX_INLINE) :
    (norm (GenRepr.InlineBuffer.set_len_body n ⟨rf, st, hp, .inl raw⟩) : Step ρ' Unit) =
      (InlineRef.rs_set_len .mk n : M ρ' _) ⟨rf, st, hp, .inl raw⟩ := by
  unfold GenRepr.InlineBuffer.set_len_body
  have hmi : MAX_INLINE = 16 := by decide
  have h1 : (1 : Nat) ≤ 16 := by decide
  have h15 : (16 - 1 : Nat) = 15 := rfl
  have hlt15 : (15 : Nat) < 16 := by decide
  have hp8 : (2 : Nat) ^ 8 = 256 := by decide
  have hge : ¬ (n % 256 ||| LastByte.MASK_1100_0000 ≥ 256) := by
    have : n % 256 < 2 ^ 8 := Nat.mod_lt _ (by decide)
    have hm : LastByte.MASK_1100_0000 < 2 ^ 8 := by decide
    have := Nat.or_lt_two_pow this hm
    omega
  have hn16 : n ≤ 16 := by omega
  by_cases hlt : n < 16
  · rt_step [hmi, h1, h15, hlt15, hp8, hge, hlt, hn16, hraw, InlineBuffer.set_byte, ir_set_len_ap, inlSetLen, norm_next, if_true]
    rfl
  · rt_step [hmi, h1, hlt, hn16, ir_set_len_ap, inlSetLen, norm_next, if_true]

/-! ### `static_buffer.rs` -/

theorem static_new_tie {ρ' : Type} (t : SStr) (s : St) :
    (norm (GenRepr.StaticBuffer.new_body t s) : Step ρ' (Rs StaticBuf)) = (StaticBuffer.new t : M ρ' _) s := by
  unfold GenRepr.StaticBuffer.new_body
  by_cases h : t.b.length > STATIC_MAX_LEN
  · rt_step [h, StaticBuffer.MAX_LENGTH, norm_done]
  · have hu := untag_static _ (Nat.not_lt.mp h)
    rt_step [h, hu, StaticBuffer.MAX_LENGTH, StaticBuffer.TAG, Nat.rs_to_le, SStr.rs_as_ptr, ptr.NonNull.new_unchecked, StaticBuffer.mk, norm_next]

theorem static_len_tie {ρ' : Type} (rf : Refuse) (st : List Bytes) (hp : Heap) (i l : Nat) (hl : l ≤ STATIC_MAX_LEN) :
    (norm (GenRepr.StaticBuffer.len_body ⟨rf, st, hp, .stat i l⟩) : Step ρ' Nat) =
      (StaticRef.rs_len .mk : M ρ' _) ⟨rf, st, hp, .stat i l⟩ := by
  unfold GenRepr.StaticBuffer.len_body
  have hu := untag_static _ hl
  have hm := Tie.staticMaxLen_eq
  have hle := fromLe8_leBytes8 l (by omega)
  rt_step [hu, hle, StaticBuffer.get_len, StaticBuffer.TAG, Nat.rs_to_ne_bytes, usize.from_le_bytes, sr_len_ap, norm_next]

theorem static_set_len_tie {ρ' : Type} (rf : Refuse) (st : List Bytes) (hp : Heap) (i l n : Nat) (hn : n ≤ STATIC_MAX_LEN) :
    (norm (GenRepr.StaticBuffer.set_len_body n ⟨rf, st, hp, .stat i l⟩) : Step ρ' Unit) =
      (StaticRef.rs_set_len .mk n : M ρ' _) ⟨rf, st, hp, .stat i l⟩ := by
  unfold GenRepr.StaticBuffer.set_len_body
  have hu := untag_static _ hn
  rt_step [hu, hn, StaticBuffer.set_len, StaticBuffer.TAG, Nat.rs_to_le, sr_set_len_ap, norm_next, if_true]

/-! ### `repr.rs`: reading the two words -/

/-- what `Wf` gives for one handle, as far as the byte-level readers need it -/
def KindOk : Handle → Prop
  | .inl raw => raw.length = 16 ∧ inlLast raw < 0xD0
  | .heap _ l => l ≤ MAX_LEN
  | .stat _ l => l ≤ STATIC_MAX_LEN

theorem lastByte_lt {r : Handle} (h : KindOk r) : r.lastByte ≤ 0xD1 := by
  cases r with
  | inl raw => have := h.2; show inlLast raw ≤ 0xD1; omega
  | heap a l => rw [C20.lastByte_heap a l h]; decide
  | stat i l => rw [C20.lastByte_static i l h]; exact Nat.le_refl _

theorem last_byte_tie {ρ' : Type} (s : St) (h : KindOk s.self) :
    (norm (GenRepr.Repr.last_byte_body s) : Step ρ' Nat) = (Repr.last_byte : M ρ' _) s := by
  unfold GenRepr.Repr.last_byte_body
  have := lastByte_lt h
  have hm : s.self.lastByte % 2 ^ 8 = s.self.lastByte := Nat.mod_eq_of_lt (by omega)
  rt_step [hm, Repr.field_2, norm_next]

theorem leBytes8_length (w : Nat) : (leBytes8 w).length = 8 := rfl

theorem or_tag_lt (l t : Nat) (hl : l < 2 ^ 64) (ht : t < 2 ^ 64) : (l ||| t) < 2 ^ 64 := Nat.or_lt_two_pow hl ht

theorem len_tie {ρ' : Type} (rf : Refuse) (st : List Bytes) (hp : Heap) (r : Handle) (h : KindOk r) :
    (norm (GenRepr.Repr.len_body ⟨rf, st, hp, r⟩) : Step ρ' Nat) = (Repr.len : M ρ' _) ⟨rf, st, hp, r⟩ := by
  unfold GenRepr.Repr.len_body
  have hk : LastByte.HeapMarker % 2 ^ 8 = 0xD0 := by decide
  have hmi : MAX_INLINE = 16 := by decide
  have h0 : ¬ ((0 : Nat) ≥ 256) := by decide
  have h78 : (7 : Nat) < 8 := by decide
  have h12 : (0 + 1 : Nat) ≤ 2 := by decide
  have h01 : (0 + 1 : Nat) = 1 := rfl
  cases r with
  | heap a l =>
    have hl : l ≤ MAX_LEN := h
    have hlb := C20.lastByte_heap a l hl
    have hm := Tie.maxLen_eq
    have hc := fromLe8_clear7 _ (or_tag_lt l Gen.heapTag (by omega) (by decide))
    have hr := (C20.lenWord_roundtrip l hl).1
    have hnl : ¬ ((208 : Nat) < 208) := by decide
    rt_step [hlb, hk, hmi, h0, h78, h12, h01, hc, hr, hnl, leBytes8_length, Repr.self_ptr, RawPtr.rs_cast_usize, WordPtr.rs_add, WordPtr.rs_cast_bytes8,
      ArrayBuf.rs_index_set, usize.from_le_bytes, Nat.rs_wrapping_sub, norm_next, if_true, Handle.len]
  | stat i l =>
    have hl : l ≤ STATIC_MAX_LEN := h
    have hlb := C20.lastByte_static i l hl
    have hm := Tie.staticMaxLen_eq
    have hm2 := Tie.maxLen_eq
    have hc := fromLe8_clear7 _ (or_tag_lt l Gen.staticTag (by omega) (by decide))
    have hr := (C20.lenWord_roundtrip l (by omega)).2
    have hnl : ¬ ((209 : Nat) < 208) := by decide
    rt_step [hlb, hk, hmi, h0, h78, h12, h01, hc, hr, hnl, leBytes8_length, Repr.self_ptr, RawPtr.rs_cast_usize, WordPtr.rs_add, WordPtr.rs_cast_bytes8,
      ArrayBuf.rs_index_set, usize.from_le_bytes, Nat.rs_wrapping_sub, norm_next, if_true, Handle.len]
  | inl raw =>
    obtain ⟨hraw, hlast⟩ := h
    have hlb : (Handle.inl raw).lastByte = inlLast raw := rfl
    have hd : 7 < (raw.drop 8).length := by rw [List.length_drop, hraw]; decide
    have hlt : inlLast raw < 208 := hlast
    have hs : ((raw.drop 8).set 7 (UInt8.ofNat 0)).length = 8 := by rw [List.length_set, List.length_drop, hraw]
    obtain ⟨w, hw⟩ : ∃ w, fromLe8 ((raw.drop 8).set 7 (UInt8.ofNat 0)) = some w := by
      generalize (raw.drop 8).set 7 (UInt8.ofNat 0) = bs at hs
      match bs, hs with
      | [b0, b1, b2, b3, b4, b5, b6, b7], _ => exact ⟨_, rfl⟩
    rt_step [hlb, hk, hmi, h0, hd, h12, h01, hraw, hlt, hw, Repr.self_ptr, RawPtr.rs_cast_usize, WordPtr.rs_add, WordPtr.rs_cast_bytes8,
      ArrayBuf.rs_index_set, usize.from_le_bytes, Nat.rs_wrapping_sub, norm_next, if_true, Handle.len, inlLen, LastByte.MASK_1100_0000]

theorem is_empty_tie {ρ' : Type} (s : St) :
    (norm (GenRepr.Repr.is_empty_body s) : Step ρ' Bool) = .next (decide (s.self.len = 0)) s := by
  unfold GenRepr.Repr.is_empty_body
  rt_step [norm_next]

theorem as_str_tie {ρ' : Type} (s : St) :
    (norm (GenRepr.Repr.as_str_body s) : Step ρ' Str) = (Repr.as_str : M ρ' _) s := by
  unfold GenRepr.Repr.as_str_body
  cases h : textOf s.hp s.st s.self with
  | ok t => rt_step [h, Repr.as_bytes, str.from_utf8_unchecked, HasBytes.bytes, norm_next]
  | error u => rt_step [h, Repr.as_bytes, norm_ub]

/-- `as_bytes` as written — `from_raw_parts(if last_byte ≥ HeapMarker { self.0 } else { self as *const u8 }, len())` —
reads the text of the handle -/
theorem as_bytes_tie {ρ' : Type} (rf : Refuse) (st : List Bytes) (hp : Heap) (r : Handle) (h : KindOk r) :
    (norm (GenRepr.Repr.as_bytes_body ⟨rf, st, hp, r⟩) : Step ρ' RawSlice) = (Repr.as_bytes : M ρ' _) ⟨rf, st, hp, r⟩ := by
  unfold GenRepr.Repr.as_bytes_body
  have hk : LastByte.HeapMarker % 2 ^ 8 = 0xD0 := by decide
  cases r with
  | heap a l =>
    have hlb := C20.lastByte_heap a l h
    have hge : (208 : Nat) ≥ 208 := by decide
    cases ht : textOf hp st (.heap a l) with
    | ok t => rt_step [hlb, hk, hge, ht, Handle.len, slice.from_raw_parts, Repr.as_bytes, norm_next]
    | error u => rt_step [hlb, hk, hge, ht, Handle.len, slice.from_raw_parts, Repr.as_bytes, norm_ub]
  | stat i l =>
    have hlb := C20.lastByte_static i l h
    have hge : (209 : Nat) ≥ 208 := by decide
    cases ht : textOf hp st (.stat i l) with
    | ok t => rt_step [hlb, hk, hge, ht, Handle.len, slice.from_raw_parts, Repr.as_bytes, norm_next]
    | error u => rt_step [hlb, hk, hge, ht, Handle.len, slice.from_raw_parts, Repr.as_bytes, norm_ub]
  | inl raw =>
    obtain ⟨hraw, hlast⟩ := h
    have hlb : (Handle.inl raw).lastByte = inlLast raw := rfl
    have hlt : ¬ (inlLast raw ≥ 208) := by omega
    have hle : inlLen raw ≤ raw.length := by rw [hraw]; unfold inlLen; have : MAX_INLINE = 16 := by decide
                                             omega
    rt_step [hlb, hk, hlt, hle, Handle.len, slice.from_raw_parts, Repr.self_ptr, Repr.as_bytes, textOf, norm_next]

theorem from_raw_parts_mut_raw_ap {ρ : Type} (p : RawPtr) (cap : Nat) (s : St) :
    (slice.from_raw_parts_mut p cap : M ρ SliceMut) s =
      match p.own, p.h with
      | true, .inl raw => if cap ≤ raw.length then .next ⟨0, cap⟩ s else .ub .oob
      | false, .heap a _ => (match s.hp.get? a with | some b => if cap ≤ b.cap then .next ⟨0, cap⟩ s else .ub .oob | none => .ub .useAfterFree)
      | true, .stat _ _ => .ub .writeStatic
      | _, _ => .ub .oob := by cases s; rfl

theorem as_slice_mut_tie {ρ' : Type} (rf : Refuse) (st : List Bytes) (hp : Heap) (r : Handle)
    (hraw : ∀ raw, r = .inl raw → raw.length = 16) :
    (norm (GenRepr.Repr.as_slice_mut_body ⟨rf, st, hp, r⟩) : Step ρ' SliceMut) = (Repr.as_slice_mut : M ρ' _) ⟨rf, st, hp, r⟩ := by
  unfold GenRepr.Repr.as_slice_mut_body
  have hmi : MAX_INLINE = 16 := by decide
  cases r with
  | heap a l =>
    cases hg : hp.get? a with
    | none => rt_heap_none rf st hp a l hg [Repr.as_slice_mut, norm_ub]
    | some b => rt_heap_some rf st hp a l hg [Repr.as_slice_mut, from_raw_parts_mut_raw_ap, Nat.le_refl, norm_next]
  | stat i l => rt_step [Repr.self_ptr, from_raw_parts_mut_raw_ap, Repr.as_slice_mut, norm_ub]
  | inl raw =>
    have := hraw raw rfl
    rt_step [this, hmi, Repr.self_ptr, from_raw_parts_mut_raw_ap, Repr.as_slice_mut, Nat.le_refl, norm_next]

theorem as_str_mut_tie {ρ' : Type} (rf : Refuse) (st : List Bytes) (hp : Heap) (r : Handle)
    (hcap : ∀ a l b, r = .heap a l → hp.get? a = some b → l ≤ b.cap) :
    (norm (GenRepr.Repr.as_str_mut_body ⟨rf, st, hp, r⟩) : Step ρ' SliceMut) = (Repr.as_str_mut : M ρ' _) ⟨rf, st, hp, r⟩ := by
  unfold GenRepr.Repr.as_str_mut_body
  have hmi : MAX_INLINE = 16 := by decide
  cases r with
  | heap a l =>
    cases hg : hp.get? a with
    | none => rt_heap_none rf st hp a l hg [Repr.as_str_mut, Repr.as_slice_mut, norm_ub]
    | some b =>
      have := hcap a l b rfl hg
      rt_heap_some rf st hp a l hg [this, Handle.len, Repr.as_str_mut, Repr.as_slice_mut, SliceMut.rs_get_unchecked_mut_to, str.from_utf8_unchecked_mut, norm_next]
  | stat i l => rt_step [Repr.as_slice_mut, Repr.as_str_mut, norm_ub]
  | inl raw =>
    have hle : inlLen raw ≤ MAX_INLINE := by unfold inlLen; omega
    rt_step [hle, Handle.len, Repr.as_str_mut, Repr.as_slice_mut, SliceMut.rs_get_unchecked_mut_to, str.from_utf8_unchecked_mut, norm_next]

/-! ### `from_char`, `from_bool` -/

theorem from_char_step (c : Chr) (h : c.b.length ≤ 4) (s : St) :
    GenRepr.Repr.from_char c s = .next (.inl (inlNew c.b)) s := by
  unfold GenRepr.Repr.from_char
  rt_step [h]

theorem from_bool_step (b : Bool) (s : St) :
    GenRepr.Repr.from_bool b s = .next (.inl (inlNew (boolText b))) s := by
  unfold GenRepr.Repr.from_bool
  cases b <;> rt_step [Str.lit, boolText] <;> rfl

/-! ### the side condition holds in every well-formed world -/

theorem kindOk_of_wf {w : World} (hw : Wf w) {h : Nat} {r : Handle} (hr : w.get h = some r) : KindOk r := by
  have ho := hw.handles h r hr
  cases r with
  | inl raw => exact ⟨ho.1, ho.2.2⟩
  | heap a l =>
    obtain ⟨b, hg, hl, _⟩ := ho
    have := (hw.blocks a b hg).2.2.1
    exact Nat.le_trans hl this
  | stat i l =>
    obtain ⟨t, _, hl, _, ht⟩ := ho
    exact Nat.le_trans hl ht

/-- `len()` as written in the source is the model's length, for every handle of every well-formed world -/
theorem len_tie_wf {ρ' : Type} {w : World} (hw : Wf w) {h : Nat} {r : Handle} (hr : w.get h = some r) (rf : Refuse) :
    (norm (GenRepr.Repr.len_body ⟨rf, w.statics, w.heap, r⟩) : Step ρ' Nat) = .next r.len ⟨rf, w.statics, w.heap, r⟩ := by
  rw [len_tie rf w.statics w.heap r (kindOk_of_wf hw hr), len_ap]

/-- non-vacuity: a full 16-byte inline value whose last byte is a continuation byte meets `KindOk` -/
example : KindOk (.inl [48,49,50,51,52,53,54,55,56,57,97,98,99,100,0xC3,0xA9]) := by
  refine ⟨rfl, ?_⟩; decide

end LS.GenTie
