import LSProofs.OpSpecs
import LSProofs.Gen.PushStr
import LSProofs.Gen.InsertStr
import LSProofs.Gen.PopRemove
import LSProofs.Gen.Shrink
import LSProofs.Gen.Clone
/-!
# Tie 1b, unconditionally on the model's invariant

The ties of the other `Gen` modules carry side conditions (a block holds `capacity` bytes, an inline handle has
16 raw bytes, the hand model raises no alarm, `reserve`/`ensure_modifiable` hand back an intact state, the
character at an index fits).  Every one of them follows from `Good` — the invariant of one handle against the
rest of a well-formed world (`good_of_wf`) — through the operation specifications of `OpSpecs.lean`.  So from
every state a well-formed world can be in, the translated body *is* the model function.
-/
open LS LS.Rt
set_option linter.unusedSimpArgs false

namespace LS.GenTie

theorem dataOk_of_good {ocf base st hp r t} (g : Good ocf base st hp r t) : DataOk hp :=
  fun a b hg => (g.inv.blocks a b hg).2.2.2.1

theorem rawOk_of_good {ocf base st hp r t} (g : Good ocf base st hp r t) : RawOk r := by
  have hk := g.ok
  cases r with
  | inl raw => exact hk.1.trans Tie.maxInline_eq.symm
  | heap a l => trivial
  | stat i l => trivial

theorem sat_not_ub {α : Type} {ok : α → Heap → Handle → Prop} {e p c : Heap → Handle → Prop} {x : Res α}
    (h : x.Sat ok e p c) : ∀ u, x ≠ .ub u := by
  intro u hx; rw [hx] at h; exact h

/-- from every state of the model's invariant, the translated `reserve` is the model's `reserve` -/
theorem reserve_good {ocf base st hp r t} (g : Good ocf base st hp r t) (rf : Refuse) (add : Nat) :
    resOf (GenRepr.Repr.reserve add ⟨rf, st, hp, r⟩) = reserve rf st hp r add :=
  reserve_tie add ⟨rf, st, hp, r⟩ (dataOk_of_good g) (rawOk_of_good g)

theorem ensure_modifiable_good {ocf base st hp r t} (g : Good ocf base st hp r t) (rf : Refuse) :
    resOf (GenRepr.Repr.ensure_modifiable ⟨rf, st, hp, r⟩) = ensureModifiable rf st hp r :=
  ensure_modifiable_tie ⟨rf, st, hp, r⟩ (dataOk_of_good g)

theorem shrink_to_good {ocf base st hp r t} (g : Good ocf base st hp r t) (rf : Refuse) (m : Nat) :
    resOf (GenRepr.Repr.shrink_to m ⟨rf, st, hp, r⟩) = shrinkTo rf hp r m :=
  shrink_to_tie m ⟨rf, st, hp, r⟩ (dataOk_of_good g)

/-- `push_str`, unconditionally on the model's invariant: the translated body is the model's `pushStr` -/
theorem push_str_good {ocf base st hp r t} (g : Good ocf base st hp r t) (rf : Refuse) (s : Bytes) (hs : Valid s) :
    resOf (GenRepr.Repr.push_str ⟨s⟩ ⟨rf, st, hp, r⟩) = pushStr rf st hp r s :=
  push_str_tie ⟨s⟩ ⟨rf, st, hp, r⟩ (dataOk_of_good g) (rawOk_of_good g) (sat_not_ub (pushStr_sat g rf s hs))

theorem push_str_norm_good {ρ' : Type} {ocf base st hp r t} (g : Good ocf base st hp r t) (rf : Refuse) (s : Bytes) (hs : Valid s) :
    (norm (GenRepr.Repr.push_str ⟨s⟩ ⟨rf, st, hp, r⟩) : Step ρ' (Rs Unit)) = stepOfRes rf st (pushStr rf st hp r s) :=
  push_str_norm ⟨s⟩ ⟨rf, st, hp, r⟩ (dataOk_of_good g) (rawOk_of_good g) (sat_not_ub (pushStr_sat g rf s hs))

theorem pop_good {ocf base st hp r t} (g : Good ocf base st hp r t) (rf : Refuse) :
    resOfOptChr (GenRepr.Repr.pop ⟨rf, st, hp, r⟩) = pop st hp r :=
  pop_tie ⟨rf, st, hp, r⟩ (dataOk_of_good g) (rawOk_of_good g) (by
    intro t' ht' hne
    simp only at ht'
    rw [g.text] at ht'; injection ht' with ht'; subst ht'
    have hne' : t ≠ [] := by intro h; rw [h] at hne; cases hne
    obtain ⟨h1, _, _⟩ := valid_pop g.valid hne'
    omega)

theorem insert_str_good {ocf base st hp r t} (g : Good ocf base st hp r t) (rf : Refuse) (i : Nat) (s : Bytes) (hs : Valid s) :
    resOf (GenRepr.Repr.insert_str i ⟨s⟩ ⟨rf, st, hp, r⟩) = insertStr rf st hp r i s := by
  apply insert_str_tie i ⟨s⟩ ⟨rf, st, hp, r⟩ (dataOk_of_good g) (rawOk_of_good g)
  · intro v hp1 r1 hrv
    have h := reserve_sat g rf s.length
    simp only at hrv
    rw [hrv] at h
    obtain ⟨g1, _, _⟩ := h
    exact ⟨by rw [good_len g1, good_len g], dataOk_of_good g1, rawOk_of_good g1⟩
  · have h := insertStr_sat g rf i s hs
    intro u
    cases hsp : Spec.insert_str t i s with
    | panic => rw [hsp] at h; simp only at h ⊢; rw [h]; intro hc; cases hc
    | ok v t' => rw [hsp] at h; exact sat_not_ub h u

theorem char_fits {tx : Bytes} (hv : Valid tx) (i : Nat) (hb : isBoundary tx i = true) (hi : i < tx.length) :
    i + charWidth (tx.getD i 0) ≤ tx.length := by
  obtain ⟨_, hvd⟩ := valid_take_drop hv i hb
  obtain ⟨rest, hcons⟩ := head_drop_getD tx i hi
  have := (valid_first_char hvd _ rest hcons).1
  rw [List.length_drop] at this; omega

theorem remove_good {ocf base st hp r t} (g : Good ocf base st hp r t) (rf : Refuse) (i : Nat) :
    resOfChr (GenRepr.Repr.remove i ⟨rf, st, hp, r⟩) = remove rf st hp r i := by
  apply remove_tie i ⟨rf, st, hp, r⟩ (dataOk_of_good g) (rawOk_of_good g)
  · intro v hp1 r1 hrv
    have h := ensureModifiable_sat g rf
    simp only at hrv
    rw [hrv] at h
    obtain ⟨g1, _⟩ := h
    exact ⟨by rw [good_len g1, good_len g], dataOk_of_good g1, rawOk_of_good g1, by simp only; rw [g1.text, g.text]⟩
  · intro tx htx hb hi
    simp only at htx
    rw [g.text] at htx; injection htx with htx; subst htx
    exact char_fits g.valid i hb hi
  · have h := remove_sat g rf i
    intro u
    cases hsp : Spec.remove t i with
    | panic => rw [hsp] at h; simp only at h ⊢; rw [h]; intro hc; cases hc
    | ok c t' => rw [hsp] at h; exact sat_not_ub h u

end LS.GenTie
