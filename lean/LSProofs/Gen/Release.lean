import LSProofs.Gen.Base
/-! # Tie: `Repr::replace_inner` -/
open LS LS.Rt
set_option linter.unusedSimpArgs false

namespace LS.GenTie

/-- `replace_inner(other)` = release the reference `self` holds (the one that sees 1 frees), then
overwrite the two words -/
theorem replace_inner_step (other : Handle) (s : St) :
    GenRepr.Repr.replace_inner other s =
      match releaseRepr s.hp s.self with
      | .ok hp' => .next () { s with hp := hp', self := other }
      | .error u => .ub u := by
  rcases s with ⟨rf, st, hp, r⟩
  unfold GenRepr.Repr.replace_inner
  cases r with
  | inl raw => rt_step [releaseRepr]
  | stat i l => rt_step [releaseRepr]
  | heap a l =>
    cases hg : hp.get? a with
    | none => rt_heap_none rf st hp a l hg [releaseRepr, release_of_none hg]
    | some b =>
      have hs := slots_of_get hg
      by_cases h0 : b.rc = 0
      · rt_heap_some rf st hp a l hg [h0, releaseRepr, Heap.release, hs]
      · by_cases h1 : b.rc = 1
        · have hg0 : (hp.setBlock a { b with rc := 0 }).get? a = some { b with rc := 0 } := setBlock_get hp a b _ hg
          rt_heap_some rf st hp a l hg [h1, releaseRepr, Heap.release, hs, Nat.sub_self, Nat.one_ne_zero, hr_dealloc_some rf st _ a l _ hg0,
            ne_eq, not_true_eq_false]
          by_cases hz : b.size = HEADER + b.cap
          · simp only [hz, ↓reduceIte, Heap.setBlock, List.set_set]
          · simp only [hz, ↓reduceIte]
        · rt_heap_some rf st hp a l hg [h0, h1, releaseRepr, Heap.release, hs]

end LS.GenTie
