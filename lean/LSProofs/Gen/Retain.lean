import LSProofs.Gen.Good
import LSProofs.Gen.SetLen
import LSProofs.Boundary
import LSProofs.Gen.Collect
/-!
# `Repr::retain`, translated, is the model's `retain`

The source compacts the text *in place*: after `ensure_modifiable`, a drop guard holds a source and a destination
cursor; a `while` loop decodes the character at the source cursor, asks the caller's predicate (user code: it may
panic — the guard then sets the length to what has been compacted so far), copies a kept character down to the
destination cursor and advances; `drop(g)` finally sets the length.  The hand model scans the text once
(`retainScan`), writes the kept bytes at offset 0 in one go and sets the length.  `retain_tie` proves the two equal —
including the bytes left behind the new length, the handle, the heap, and the panic case — for every predicate; the
loop invariant is "the storage is the original with the kept bytes written over its start, and nothing at or after
the source cursor has been touched" (`retain_loop`).  The translated loop takes fuel; any fuel above the text length
suffices (`hfuel`), and `Valid` text guarantees that every decoded character fits (`valid_first_char`).
-/
open LS LS.Rt
set_option linter.unusedSimpArgs false
namespace LS.GenTie

/-- `self` owns storage it may write in place: the 16 inline bytes, or a heap block whose count is 1 -/
def Writable (hp : Heap) : Handle → Prop
  | .inl raw => raw.length = MAX_INLINE
  | .heap a _ => ∃ b, hp.get? a = some b ∧ b.rc = 1 ∧ b.data.length = b.cap
  | .stat _ _ => False

/-- the same heap and handle with the contents of the owned storage replaced -/
def setStorage (hp : Heap) (r : Handle) (d : Bytes) : Heap × Handle :=
  match r with
  | .inl _ => (hp, .inl d)
  | .heap a l =>
    match hp.get? a with
    | some b => (hp.setBlock a { b with data := d }, .heap a l)
    | none => (hp, r)
  | .stat _ _ => (hp, r)

theorem writable_write {hp : Heap} {r : Handle} {stor : Bytes} (hW : Writable hp r) (hS : storageOf hp r = .ok stor)
    (off : Nat) (s : Bytes) (hb : off + s.length ≤ stor.length) :
    writeBytes hp r off s = .ok (setStorage hp r (writeAt stor off s)) := by
  cases r with
  | stat i l => exact absurd hW id
  | inl raw =>
    have hraw : raw.length = MAX_INLINE := hW
    simp only [storageOf, Except.ok.injEq] at hS
    subst hS
    simp only [writeBytes, setStorage]
    rw [if_pos ⟨by omega, hraw⟩]
  | heap a l =>
    obtain ⟨b, hg, hrc, hd⟩ := hW
    simp only [storageOf, hg, Except.ok.injEq] at hS
    subst hS
    simp only [writeBytes, Heap.write, hg, setStorage, hrc, ne_eq, not_true_eq_false, if_false]
    rw [if_neg (by omega)]

theorem setStorage_storage {hp : Heap} {r : Handle} (hW : Writable hp r) (d : Bytes) :
    storageOf (setStorage hp r d).1 (setStorage hp r d).2 = .ok d := by
  cases r with
  | stat i l => exact absurd hW id
  | inl raw => rfl
  | heap a l =>
    obtain ⟨b, hg, hrc, hd⟩ := hW
    simp only [setStorage, hg, storageOf, setBlock_get hp a b _ hg]

theorem setStorage_writable {hp : Heap} {r : Handle} {stor : Bytes} (hW : Writable hp r) (hS : storageOf hp r = .ok stor)
    (d : Bytes) (hd : d.length = stor.length) :
    Writable (setStorage hp r d).1 (setStorage hp r d).2 := by
  cases r with
  | stat i l => exact absurd hW id
  | inl raw =>
    have hraw : raw.length = MAX_INLINE := hW
    simp only [storageOf, Except.ok.injEq] at hS
    subst hS
    show d.length = MAX_INLINE
    omega
  | heap a l =>
    obtain ⟨b, hg, hrc, hdl⟩ := hW
    simp only [storageOf, hg, Except.ok.injEq] at hS
    subst hS
    simp only [setStorage, hg]
    exact ⟨_, setBlock_get hp a b _ hg, hrc, by simp only; omega⟩

theorem setStorage_twice {hp : Heap} {r : Handle} (hW : Writable hp r) (d1 d2 : Bytes) :
    setStorage (setStorage hp r d1).1 (setStorage hp r d1).2 d2 = setStorage hp r d2 := by
  cases r with
  | stat i l => exact absurd hW id
  | inl raw => rfl
  | heap a l =>
    obtain ⟨b, hg, hrc, hd⟩ := hW
    have h2 := setBlock_get hp a b { b with data := d1 } hg
    simp only [setStorage, hg, h2]
    simp only [Heap.setBlock, List.set_set]

theorem setStorage_self {hp : Heap} {r : Handle} {stor : Bytes} (hW : Writable hp r) (hS : storageOf hp r = .ok stor) :
    setStorage hp r stor = (hp, r) := by
  cases r with
  | stat i l => exact absurd hW id
  | inl raw =>
    simp only [storageOf, Except.ok.injEq] at hS
    subst hS; rfl
  | heap a l =>
    obtain ⟨b, hg, hrc, hd⟩ := hW
    simp only [storageOf, hg, Except.ok.injEq] at hS
    subst hS
    simp only [setStorage, hg, Heap.setBlock]
    have hs := slots_of_get hg
    have : hp.slots.set a (.live b) = hp.slots := by
      apply List.ext_getElem?
      intro i
      by_cases hi : i = a
      · subst hi
        have hl : i < hp.slots.length := (List.getElem?_eq_some_iff.mp hs).1
        rw [List.getElem?_set_self hl, hs]
      · rw [List.getElem?_set_ne (Ne.symm hi)]
    simp only [this]


/-! ### list facts about the in-place compaction -/

theorem writeAt_zero (d acc : Bytes) : writeAt d 0 acc = acc ++ d.drop acc.length := by
  simp [writeAt]

theorem writeAt_zero_snoc (d acc ch : Bytes) (_h : acc.length + ch.length ≤ d.length) :
    writeAt (writeAt d 0 acc) acc.length ch = writeAt d 0 (acc ++ ch) := by
  rw [writeAt_zero d acc, writeAt_zero d (acc ++ ch)]
  unfold writeAt
  have h1 : (acc ++ d.drop acc.length).take acc.length = acc := by
    rw [List.take_append_of_le_length (Nat.le_refl _), List.take_length]
  have h2 : (acc ++ d.drop acc.length).drop (acc.length + ch.length) = d.drop (acc.length + ch.length) := by
    rw [List.drop_append, List.drop_eq_nil_of_le (by omega), List.nil_append, List.drop_drop]
    congr 1; omega
  rw [h1, h2, List.length_append]

theorem read_after_write (d acc : Bytes) (src n : Nat) (h : acc.length ≤ src) :
    ((writeAt d 0 acc).drop src).take n = (d.drop src).take n := by
  rw [writeAt_zero]
  congr 1
  rw [List.drop_append, List.drop_eq_nil_of_le h, List.nil_append, List.drop_drop]
  congr 1; omega

theorem retainScan_len (f : Nat) : ∀ (rest : Bytes) (answers : List (Option Bool)) (acc : Bytes),
    (retainScan f rest answers acc).1.length ≤ acc.length + rest.length := by
  induction f with
  | zero => intro rest answers acc; simp [retainScan]
  | succ f ih =>
    intro rest answers acc
    cases rest with
    | nil => simp [retainScan]
    | cons b tl =>
      simp only [retainScan]
      cases answers.headD (some true) with
      | none => simp
      | some keep =>
        simp only
        have := ih ((b :: tl).drop (charWidth b)) answers.tail (if keep then acc ++ (b :: tl).take (charWidth b) else acc)
        refine Nat.le_trans this ?_
        cases keep <;> simp only [Bool.false_eq_true, if_false, if_true, List.length_append, List.length_take, List.length_drop] <;> omega

/-! ### the loop -/

/-- what one iteration of the translated loop body does, in the model's vocabulary -/
def iterOut {ρ : Type} (rf : Refuse) (st : List Bytes) (hp : Heap) (r : Handle) (answers : List (Option Bool)) (dst src : Nat)
    (b : UInt8) (rest : Bytes) : Step ρ (Pred × Nat × Nat) :=
  match answers.headD (some true) with
  | none => (match setLen r dst with | .ok r'' => .pcb ⟨rf, st, hp, r''⟩ | .error u => .ub u)
  | some true =>
    (match writeBytes hp r dst ((b :: rest).take (charWidth b)) with
     | .ok (hp', r') => .next (⟨answers.tail⟩, dst + charWidth b, src + charWidth b) ⟨rf, st, hp', r'⟩
     | .error u => .ub u)
  | some false => .next (⟨answers.tail⟩, dst, src + charWidth b) ⟨rf, st, hp, r⟩

/-- the answers the predicate has not given yet when the scan stops -/
def retainRest : Nat → Bytes → List (Option Bool) → List (Option Bool)
  | 0, _, a => a
  | _ + 1, [], a => a
  | f + 1, b :: tl, a =>
    match a.headD (some true) with
    | none => a
    | some _ => retainRest f ((b :: tl).drop (charWidth b)) a.tail

/-- outcome of the whole loop, from the model's `retainScan` -/
def loopOut {ρ : Type} (rf : Refuse) (st : List Bytes) (hp1 : Heap) (r1 : Handle) (stor1 : Bytes) (len : Nat) (p' : Pred)
    (kp : Bytes × Bool) : Step ρ (Pred × Nat × Nat) :=
  if kp.2 then
    (match setLen (setStorage hp1 r1 (writeAt stor1 0 kp.1)).2 kp.1.length with
     | .ok r'' => .pcb ⟨rf, st, (setStorage hp1 r1 (writeAt stor1 0 kp.1)).1, r''⟩
     | .error u => .ub u)
  else .next (p', kp.1.length, len) ⟨rf, st, (setStorage hp1 r1 (writeAt stor1 0 kp.1)).1, (setStorage hp1 r1 (writeAt stor1 0 kp.1)).2⟩

theorem retain_loop {ρ : Type} (len : Nat) (cond : Pred × Nat × Nat → M ρ Bool) (body : Pred × Nat × Nat → M ρ (Pred × Nat × Nat))
    (rf : Refuse) (st : List Bytes) (hp1 : Heap) (r1 : Handle) (stor1 : Bytes)
    (hW : Writable hp1 r1) (hS : storageOf hp1 r1 = .ok stor1) (hlen : len ≤ stor1.length)
    (hc : ∀ p dst src s, cond (p, dst, src) s = .next (decide (src < len)) s)
    (hb : ∀ answers dst src hp r stor b rest, src < len → Writable hp r → storageOf hp r = .ok stor → stor.length = stor1.length →
      (stor.drop src).take (len - src) = b :: rest → dst + charWidth b ≤ len → src + charWidth b ≤ len →
      body (⟨answers⟩, dst, src) ⟨rf, st, hp, r⟩ = iterOut rf st hp r answers dst src b rest) :
    ∀ (fuel : Nat) (answers : List (Option Bool)) (acc : Bytes) (src f' : Nat),
      Valid ((stor1.take len).drop src) → acc.length ≤ src → src ≤ len → len - src < fuel → ((stor1.take len).drop src).length ≤ f' →
      whileLoop cond body fuel (⟨answers⟩, acc.length, src)
          ⟨rf, st, (setStorage hp1 r1 (writeAt stor1 0 acc)).1, (setStorage hp1 r1 (writeAt stor1 0 acc)).2⟩ =
        loopOut rf st hp1 r1 stor1 len ⟨retainRest f' ((stor1.take len).drop src) answers⟩
          (retainScan f' ((stor1.take len).drop src) answers acc) := by
  intro fuel
  induction fuel with
  | zero => intro answers acc src f' _ _ _ hf; omega
  | succ fuel ih =>
    intro answers acc src f' hv hacc hsrc hfuel hf'
    simp only [whileLoop]
    rw [bind_ap, hc]
    by_cases hlt : src < len
    · -- one more character
      have hne : ((stor1.take len).drop src).length = len - src := by
        rw [List.length_drop, List.length_take]; omega
      obtain ⟨b, rest, hbr⟩ : ∃ b rest, (stor1.take len).drop src = b :: rest := by
        cases hx : (stor1.take len).drop src with
        | nil => rw [hx] at hne; simp at hne; omega
        | cons b rest => exact ⟨b, rest, rfl⟩
      obtain ⟨hw1, _, hv2, hw3⟩ := valid_first_char hv b rest hbr
      rw [hne] at hw1
      have hal : 0 + acc.length ≤ stor1.length := by omega
      have hlw : (writeAt stor1 0 acc).length = stor1.length := writeAt_length stor1 0 acc hal
      have hWc := setStorage_writable hW hS (writeAt stor1 0 acc) hlw
      have hSc := setStorage_storage hW (writeAt stor1 0 acc)
      have hread : ((writeAt stor1 0 acc).drop src).take (len - src) = b :: rest := by
        rw [read_after_write stor1 acc src _ hacc, ← List.drop_take, hbr]
      have hstep := hb answers acc.length src _ _ _ b rest hlt hWc hSc hlw hread (by omega) (by omega)
      simp only [decide_eq_true hlt, if_true]
      rw [bind_ap, hstep]
      have hchl : ((b :: rest).take (charWidth b)).length = charWidth b := by
        rw [List.length_take, ← hbr, hne]; omega
      have hdrop : ((stor1.take len).drop (src + charWidth b)) = (b :: rest).drop (charWidth b) := by
        rw [← hbr, List.drop_drop]
      obtain ⟨f'', rfl⟩ : ∃ f'', f' = f'' + 1 := ⟨f' - 1, by omega⟩
      rw [hbr]
      simp only [retainScan, retainRest, iterOut]
      cases hans : answers.headD (some true) with
      | none =>
        simp only [loopOut, if_true]
        cases setLen (setStorage hp1 r1 (writeAt stor1 0 acc)).snd acc.length <;> rfl
      | some keep =>
        cases keep with
        | true =>
          simp only [if_true]
          have hwr := writable_write hWc hSc acc.length ((b :: rest).take (charWidth b)) (by rw [hlw, hchl]; omega)
          rw [hwr, setStorage_twice hW, writeAt_zero_snoc stor1 acc _ (by rw [hchl]; omega)]
          simp only []
          have hi := ih answers.tail (acc ++ (b :: rest).take (charWidth b)) (src + charWidth b) f''
            (by rw [hdrop, ← hbr]; exact hv2) (by rw [List.length_append, hchl]; omega) (by omega) (by omega)
            (by rw [List.length_drop, List.length_take] at hf' ⊢; omega)
          rw [List.length_append, hchl, hdrop] at hi
          exact hi
        | false =>
          simp only [Bool.false_eq_true, if_false]
          have hi := ih answers.tail acc (src + charWidth b) f''
            (by rw [hdrop, ← hbr]; exact hv2) (by omega) (by omega) (by omega)
            (by rw [List.length_drop, List.length_take] at hf' ⊢; omega)
          rw [hdrop] at hi
          exact hi
    · -- the end of the text
      have hsl : src = len := by omega
      subst hsl
      have hnil : (stor1.take src).drop src = [] := by
        apply List.drop_eq_nil_of_le; rw [List.length_take]; omega
      simp only [decide_eq_false hlt, Bool.false_eq_true, if_false, pure_ap, hnil]
      cases f' <;> simp only [retainScan, retainRest, loopOut, Bool.false_eq_true, if_false]

/-- the loop from its start (`src = dst = 0`, nothing kept yet) -/
theorem retain_loop0 {ρ : Type} (len : Nat) (cond : Pred × Nat × Nat → M ρ Bool) (body : Pred × Nat × Nat → M ρ (Pred × Nat × Nat))
    (rf : Refuse) (st : List Bytes) (hp1 : Heap) (r1 : Handle) (stor1 : Bytes)
    (hW : Writable hp1 r1) (hS : storageOf hp1 r1 = .ok stor1) (hlen : len ≤ stor1.length)
    (hc : ∀ p dst src s, cond (p, dst, src) s = .next (decide (src < len)) s)
    (hb : ∀ answers dst src hp r stor b rest, src < len → Writable hp r → storageOf hp r = .ok stor → stor.length = stor1.length →
      (stor.drop src).take (len - src) = b :: rest → dst + charWidth b ≤ len → src + charWidth b ≤ len →
      body (⟨answers⟩, dst, src) ⟨rf, st, hp, r⟩ = iterOut rf st hp r answers dst src b rest)
    (fuel : Nat) (answers : List (Option Bool)) (f' : Nat) (hv : Valid (stor1.take len)) (hfuel : len < fuel)
    (hf' : (stor1.take len).length ≤ f') :
    whileLoop cond body fuel (⟨answers⟩, 0, 0) ⟨rf, st, hp1, r1⟩ =
      loopOut rf st hp1 r1 stor1 len ⟨retainRest f' (stor1.take len) answers⟩ (retainScan f' (stor1.take len) answers []) := by
  have h0 : setStorage hp1 r1 (writeAt stor1 0 []) = (hp1, r1) := by
    rw [show writeAt stor1 0 [] = stor1 from by simp [writeAt]]; exact setStorage_self hW hS
  have := retain_loop len cond body rf st hp1 r1 stor1 hW hS hlen hc hb fuel answers [] 0 f'
    (by simpa using hv) (Nat.le_refl _) (Nat.zero_le _) (by omega) (by simpa using hf')
  rw [h0] at this
  simpa using this

theorem writable_storage {hp : Heap} {st : List Bytes} {r : Handle} {t : Bytes} (hW : Writable hp r) (ht : textOf hp st r = .ok t) :
    ∃ stor, storageOf hp r = .ok stor ∧ t = stor.take r.len ∧ r.len ≤ stor.length := by
  cases r with
  | stat i l => exact absurd hW id
  | inl raw =>
    have hraw : raw.length = MAX_INLINE := hW
    simp only [textOf, Except.ok.injEq] at ht
    refine ⟨raw, rfl, ht.symm, ?_⟩
    simp only [Handle.len]; rw [hraw]; unfold inlLen; omega
  | heap a l =>
    obtain ⟨b, hg, hrc, hd⟩ := hW
    simp only [textOf, hg] at ht
    by_cases hl : l ≤ b.cap
    · rw [if_pos hl] at ht
      simp only [Except.ok.injEq] at ht
      exact ⟨b.data, by simp only [storageOf, hg], ht.symm, by simp only [Handle.len]; omega⟩
    · rw [if_neg hl] at ht; cases ht

theorem as_str_mut_writable {ρ : Type} (rf : Refuse) (st : List Bytes) {hp : Heap} {r : Handle} (hW : Writable hp r) :
    (Repr.as_str_mut : M ρ SliceMut) ⟨rf, st, hp, r⟩ = .next ⟨0, r.len⟩ ⟨rf, st, hp, r⟩ := by
  cases r with
  | stat i l => exact absurd hW id
  | inl raw => exact as_str_mut_inl rf st hp raw
  | heap a l => obtain ⟨b, hg, _⟩ := hW; exact as_str_mut_heap rf st hp a l hg

theorem from_raw_parts_mut_ptr_ap {ρ : Type} (p : MutPtr) (n : Nat) (s : St) :
    (slice.from_raw_parts_mut p n : M ρ SliceMut) s = .next ⟨p.off, n⟩ s := by cases s; rfl
theorem encode_utf8_slice_ap {ρ : Type} (c : Chr) (sl : SliceMut) (s : St) :
    (c.rs_encode_utf8 sl : M ρ Str) s =
      if c.b.length ≤ sl.len then
        match writeBytes s.hp s.self sl.off c.b with
        | .ok (hp', r') => .next ⟨c.b⟩ { s with hp := hp', self := r' }
        | .error u => .ub u
      else .pidx s := by cases s; rfl

/-- **`retain` as written** — `ensure_modifiable`, a drop guard holding the two cursors, the `while` loop that decodes one
character, asks the caller's predicate (which may panic: the guard then sets the length to what has been compacted) and
moves a kept character down in place, and the final `set_len` — is the hand model's `retain` (scan with `retainScan`,
one write of the kept bytes at 0, `set_len`), for every predicate and every fuel larger than the text -/
theorem retain_tie (answers : List (Option Bool)) (fuel : Nat) (s : St) (hd : DataOk s.hp)
    (hpost : ∀ v hp1 r1, ensureModifiable s.rf s.st s.hp s.self = .ok v hp1 r1 →
      Writable hp1 r1 ∧ ∃ t, textOf hp1 s.st r1 = .ok t ∧ Valid t ∧ t.length < fuel ∧ t.length < USIZE) :
    resOf (GenRepr.Repr.retain ⟨answers⟩ fuel s) = retain s.rf s.st s.hp s.self answers := by
  rcases s with ⟨rf, st, hp, r⟩
  simp only at hd hpost
  unfold GenRepr.Repr.retain retain
  have hen := ensure_modifiable_norm (ρ' := Rs Unit) ⟨rf, st, hp, r⟩ hd
  simp only at hen
  cases hem : ensureModifiable rf st hp r with
  | ub u => rt_step [call_norm, hen, hem, stepOfRes, resOf]
  | err hp1 r1 => rt_step [call_norm, hen, hem, stepOfRes, resOf]
  | pidx hp1 r1 => rt_step [call_norm, hen, hem, stepOfRes, resOf]
  | pcb hp1 r1 => rt_step [call_norm, hen, hem, stepOfRes, resOf]
  | ok v hp1 r1 =>
    obtain ⟨hW, t, ht, hv, hfuel, hU⟩ := hpost v hp1 r1 hem
    obtain ⟨stor1, hS, htt, hlen⟩ := writable_storage hW ht
    have hstr := as_str_mut_writable (ρ := Rs Unit) rf st hW
    rt_step [call_norm, hen, hem, stepOfRes, ht, hstr]
    have hvt : Valid (stor1.take r1.len) := htt ▸ hv
    have htl : (stor1.take r1.len).length = t.length := by rw [htt]
    rw [retain_loop0 (ρ := Rs Unit) r1.len _ _ rf st hp1 r1 stor1 hW hS hlen ?hc ?hb fuel answers t.length hvt
      (by rw [← htl, List.length_take] at hfuel; omega) (by omega)]
    case hc => intro p dst src s; rt_step
    case hb =>
      intro answers dst src hp r stor b rest hlt hWr hSr hsl hrd hd1 hs1
      have hrl : r1.len = t.length := by rw [← htl, List.length_take]; omega
      have hle1 : src ≤ r1.len ∧ r1.len ≤ r1.len := ⟨by omega, Nat.le_refl _⟩
      have hle2 : 0 + src + (r1.len - src) ≤ stor.length := by omega
      have hrd' : List.take (r1.len - src) (List.drop (0 + src) stor) = b :: rest := by rw [Nat.zero_add]; exact hrd
      have hle3 : src + (r1.len - src) ≤ stor.length := by omega
      have hcl : ((b :: rest).take (charWidth b)).length ≤ charWidth b := List.length_take_le _ _
      have ha1 : dst + charWidth b < USIZE := by omega
      have ha2 : src + charWidth b < USIZE := by omega
      have hsr := set_len_step dst ⟨rf, st, hp, r⟩
      simp only at hsr
      simp only [iterOut]
      cases hans : answers.headD (some true) with
      | none =>
        cases hsl2 : setLen r dst with
        | ok r'' => rt_step [SliceMut.rs_get_unchecked_range, hle1, and_self, if_true, sl_chars_ap, hSr, hle2, hrd', chars_next_ap, unwrap_some, len_utf8_ap,
            dropOnUnwind_ap, Pred.rs_call_mut, hans, call_norm, hsr, hsl2, norm_next]
        | error u => rt_step [SliceMut.rs_get_unchecked_range, hle1, and_self, if_true, sl_chars_ap, hSr, hle2, hrd', chars_next_ap, unwrap_some, len_utf8_ap,
            dropOnUnwind_ap, Pred.rs_call_mut, hans, call_norm, hsr, hsl2, norm_ub]
      | some keep =>
        cases keep with
        | false => rt_step [SliceMut.rs_get_unchecked_range, hle1, and_self, if_true, sl_chars_ap, hSr, hle2, hrd', chars_next_ap, unwrap_some, len_utf8_ap,
            dropOnUnwind_ap, Pred.rs_call_mut, hans, ha2]
        | true =>
          cases hwb : writeBytes hp r dst ((b :: rest).take (charWidth b)) with
          | error u => rt_step [SliceMut.rs_get_unchecked_range, hle1, and_self, if_true, sl_chars_ap, hSr, hle2, hrd', chars_next_ap, unwrap_some, len_utf8_ap,
              dropOnUnwind_ap, Pred.rs_call_mut, hans, ha1, ha2, from_raw_parts_mut_ptr_ap, encode_utf8_slice_ap, Nat.zero_add, hcl, hwb, hle3, hrd]
          | ok pr => rt_step [SliceMut.rs_get_unchecked_range, hle1, and_self, if_true, sl_chars_ap, hSr, hle2, hrd', chars_next_ap, unwrap_some, len_utf8_ap,
              dropOnUnwind_ap, Pred.rs_call_mut, hans, ha1, ha2, from_raw_parts_mut_ptr_ap, encode_utf8_slice_ap, Nat.zero_add, hcl, hwb, hle3, hrd]
    rw [← htt]
    have hkl := retainScan_len t.length t answers []
    generalize retainScan t.length t answers [] = kp at hkl ⊢
    obtain ⟨kept, panicked⟩ := kp
    simp only [List.length_nil, Nat.zero_add] at hkl
    have hrl : r1.len = t.length := by rw [← htl, List.length_take]; omega
    have hwr := writable_write hW hS 0 kept (by omega)
    have hsr := set_len_step kept.length ⟨rf, st, (setStorage hp1 r1 (writeAt stor1 0 kept)).1, (setStorage hp1 r1 (writeAt stor1 0 kept)).2⟩
    simp only at hsr
    simp only [loopOut, writeThenSetLen, hwr]
    cases hsl : setLen (setStorage hp1 r1 (writeAt stor1 0 kept)).2 kept.length with
    | error u => cases panicked <;> simp only [hsl, hsr, resOf, norm_ub, Bool.false_eq_true, if_false, if_true]
    | ok r'' => cases panicked <;> simp only [hsl, hsr, resOf, norm_next, Bool.false_eq_true, if_false, if_true]

theorem writable_of_good {ocf base st hp r t} (g : Good ocf base st hp r t) (hu : Unique hp r) : Writable hp r ∧ t.length < USIZE := by
  have hmx := Tie.maxLen_eq
  cases r with
  | stat i l => exact absurd hu id
  | inl raw =>
    refine ⟨rawOk_of_good g, ?_⟩
    have := good_len g
    have h16 : MAX_INLINE = 16 := by decide
    simp only [Handle.len] at this
    rw [← this]; unfold inlLen USIZE; omega
  | heap a l =>
    obtain ⟨b, hb, hlc, ht, htl, hdl, hrc, hcm⟩ := good_text_heap g
    obtain ⟨b', hb', hrc'⟩ := hu
    rw [hb] at hb'; cases hb'
    exact ⟨⟨b, hb, hrc', hdl⟩, by unfold USIZE; omega⟩

/-- from every state a well-formed world can be in, for every predicate (answers and panics) and every fuel larger
than the text, the translated `retain` *is* the model's `retain` -/
theorem retain_good {ocf base st hp r t} (g : Good ocf base st hp r t) (rf : Refuse) (answers : List (Option Bool)) (fuel : Nat)
    (hfuel : t.length < fuel) :
    resOf (GenRepr.Repr.retain ⟨answers⟩ fuel ⟨rf, st, hp, r⟩) = retain rf st hp r answers := by
  apply retain_tie answers fuel ⟨rf, st, hp, r⟩ (dataOk_of_good g)
  intro v hp1 r1 hrv
  have h := ensureModifiable_sat g rf
  simp only at hrv
  rw [hrv] at h
  obtain ⟨g1, hu⟩ := h
  obtain ⟨hW, hU⟩ := writable_of_good g1 hu
  exact ⟨hW, t, g1.text, g1.valid, hfuel, hU⟩

end LS.GenTie
