import LSProofs.Gen.Release
/-! # Tie: `Repr::shrink_to` -/
open LS LS.Rt
set_option linter.unusedSimpArgs false

namespace LS.GenTie

theorem shrink_to_tie (m : Nat) (s : St) (hd : DataOk s.hp) :
    resOf (GenRepr.Repr.shrink_to m s) = shrinkTo s.rf s.hp s.self m := by
  rcases s with ⟨rf, st, hp, r⟩
  unfold GenRepr.Repr.shrink_to shrinkTo
  cases r with
  | inl raw => rt_step [resOf]
  | stat i l => rt_step [resOf]
  | heap a l =>
    cases hg : hp.get? a with
    | none => rt_step [hg, resOf, hr_len_none rf st hp a l _ hg]
    | some b =>
      by_cases hi : max l m ≤ MAX_INLINE
      · by_cases h3 : l ≤ b.cap
        · cases hrl : hp.release a <;>
            rt_step [hg, hi, h3, hrl, resOf, hr_len_some rf st hp a l _ hg, hr_capacity_some rf st hp a l _ hg,
              hr_as_str_some rf st hp a l _ hg, replace_inner_step, releaseRepr]
        · rt_step [hg, hi, h3, resOf, hr_len_some rf st hp a l _ hg, hr_capacity_some rf st hp a l _ hg, hr_as_str_some rf st hp a l _ hg]
      · by_cases hn : max l m ≥ b.cap
        · rt_step [hg, hi, hn, resOf, hr_len_some rf st hp a l _ hg, hr_capacity_some rf st hp a l _ hg]
        · by_cases h1 : b.rc = 1
          · cases hre : hp.realloc rf a (max l m) <;>
              rt_step [hg, hi, hn, h1, hre, resOf, hr_len_some rf st hp a l _ hg, hr_capacity_some rf st hp a l _ hg,
                hr_is_unique_some rf st hp a l _ hg]
          · by_cases h3 : l ≤ b.cap
            · rcases hw : heapWithCapacityFrom rf hp (b.data.take l) (max l m) with ⟨o, hp1⟩
              cases o with
              | none => rt_step [hg, hi, hn, h1, h3, hw, moveTo, resOf, hr_len_some rf st hp a l _ hg, hr_capacity_some rf st hp a l _ hg,
                  hr_is_unique_some rf st hp a l _ hg, hr_as_str_some rf st hp a l _ hg]
              | some a' =>
                cases hrl : releaseRepr hp1 (.heap a l) <;>
                  rt_step [hg, hi, hn, h1, h3, hw, moveTo, take_len_block hd hg h3, replace_inner_step, hrl, resOf,
                    hr_len_some rf st hp a l _ hg, hr_capacity_some rf st hp a l _ hg,
                    hr_is_unique_some rf st hp a l _ hg, hr_as_str_some rf st hp a l _ hg]
            · rt_step [hg, hi, hn, h1, h3, resOf, hr_len_some rf st hp a l _ hg, hr_capacity_some rf st hp a l _ hg,
                hr_is_unique_some rf st hp a l _ hg, hr_as_str_some rf st hp a l _ hg]

end LS.GenTie
