import LSProofs.Gen.Release
/-! # Tie: `Repr::shrink_to` -/
open LS LS.Rt
set_option linter.unusedSimpArgs false

namespace LS.GenTie

theorem shrink_to_tie (m : Nat) (s : St) (hd : DataOk s.hp) :
    resOf (GenRepr.Repr.shrink_to m s) = shrinkTo s.rf s.hp s.self m := by
  rcases s with ⟨rf, st, hp, r⟩
  unfold GenRepr.Repr.shrink_to shrinkTo
  cases r with
  | inl raw => rt_step [resOf]
  | stat i l => rt_step [resOf]
  | heap a l =>
    cases hg : hp.get? a with
    | none => rt_heap_none rf st hp a l hg [resOf]
    | some b =>
      by_cases hi : max l m ≤ MAX_INLINE
      · by_cases h3 : l ≤ b.cap
        · cases hrl : hp.release a <;>
            rt_heap_some rf st hp a l hg [hi, h3, hrl, resOf, replace_inner_step, releaseRepr]
        · rt_heap_some rf st hp a l hg [hi, h3, resOf]
      · by_cases hn : max l m ≥ b.cap
        · rt_heap_some rf st hp a l hg [hi, hn, resOf]
        · by_cases h1 : b.rc = 1
          · cases hre : hp.realloc rf a (max l m) <;>
              rt_heap_some rf st hp a l hg [hi, hn, h1, hre, resOf]
          · by_cases h3 : l ≤ b.cap
            · rcases hw : heapWithCapacityFrom rf hp (b.data.take l) (max l m) with ⟨o, hp1⟩
              cases o with
              | none => rt_heap_some rf st hp a l hg [hi, hn, h1, h3, hw, moveTo, resOf]
              | some a' =>
                cases hrl : releaseRepr hp1 (.heap a l) <;>
                  rt_heap_some rf st hp a l hg [hi, hn, h1, h3, hw, moveTo, take_len_block hd hg h3, replace_inner_step, hrl, resOf]
            · rt_heap_some rf st hp a l hg [hi, hn, h1, h3, resOf]

end LS.GenTie
