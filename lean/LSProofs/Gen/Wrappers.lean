import LSProofs.Gen.Base
/-! # Ties: the `try_*` methods of `LeanString` (`src/lib.rs`) are the `Repr` methods

`try_push(ch)` is `push_str` of the character's UTF-8 bytes, `try_shrink_to_fit()` is `shrink_to(0)`, the others pass
their arguments through — read off the translated bodies, for every state. -/
open LS LS.Rt
set_option linter.unusedSimpArgs false

namespace LS.GenTie

theorem bind_call_pure {ρ : Type} (m : M ρ ρ) (s : St) :
    (Rt.bind (Rt.call m) fun t => Rt.pure t : M ρ ρ) s = norm (m s) := by
  rw [bind_ap, call_norm]; cases m s <;> rfl

theorem try_reserve_is (add : Nat) (s : St) : GenRepr.LeanString.try_reserve add s = norm (GenRepr.Repr.reserve add s) := by
  unfold GenRepr.LeanString.try_reserve; exact bind_call_pure _ s
theorem try_shrink_to_is (m : Nat) (s : St) : GenRepr.LeanString.try_shrink_to m s = norm (GenRepr.Repr.shrink_to m s) := by
  unfold GenRepr.LeanString.try_shrink_to; exact bind_call_pure _ s
theorem try_shrink_to_fit_is (s : St) : GenRepr.LeanString.try_shrink_to_fit s = norm (GenRepr.Repr.shrink_to 0 s) := by
  unfold GenRepr.LeanString.try_shrink_to_fit; exact bind_call_pure _ s
theorem try_pop_is (s : St) : GenRepr.LeanString.try_pop s = norm (GenRepr.Repr.pop s) := by
  unfold GenRepr.LeanString.try_pop; exact bind_call_pure _ s
theorem try_push_str_is (t : Str) (s : St) : GenRepr.LeanString.try_push_str t s = norm (GenRepr.Repr.push_str t s) := by
  unfold GenRepr.LeanString.try_push_str; exact bind_call_pure _ s
theorem try_remove_is (i : Nat) (s : St) : GenRepr.LeanString.try_remove i s = norm (GenRepr.Repr.remove i s) := by
  unfold GenRepr.LeanString.try_remove; exact bind_call_pure _ s
theorem try_insert_str_is (i : Nat) (t : Str) (s : St) :
    GenRepr.LeanString.try_insert_str i t s = norm (GenRepr.Repr.insert_str i t s) := by
  unfold GenRepr.LeanString.try_insert_str; exact bind_call_pure _ s
theorem try_truncate_is (n : Nat) (s : St) : GenRepr.LeanString.try_truncate n s = norm (GenRepr.Repr.truncate n s) := by
  unfold GenRepr.LeanString.try_truncate; exact bind_call_pure _ s
theorem capacity_is (s : St) : GenRepr.LeanString.capacity s = norm (GenRepr.Repr.capacity s) := by
  unfold GenRepr.LeanString.capacity; exact bind_call_pure _ s

/-- `try_push(ch)` = `push_str(ch.encode_utf8(&mut [0; 4]))`: the 4-byte scratch buffer holds every character -/
theorem try_push_is (ch : Chr) (h : ch.b.length ≤ 4) (s : St) :
    GenRepr.LeanString.try_push ch s = norm (GenRepr.Repr.push_str ⟨ch.b⟩ s) := by
  unfold GenRepr.LeanString.try_push
  rt_step [h]
  rw [← call_ap, call_norm]
  cases GenRepr.Repr.push_str ⟨ch.b⟩ s <;> rfl

theorem try_insert_is (i : Nat) (ch : Chr) (h : ch.b.length ≤ 4) (s : St) :
    GenRepr.LeanString.try_insert i ch s = norm (GenRepr.Repr.insert_str i ⟨ch.b⟩ s) := by
  unfold GenRepr.LeanString.try_insert
  rt_step [h]
  rw [← call_ap, call_norm]
  cases GenRepr.Repr.insert_str i ⟨ch.b⟩ s <;> rfl

theorem len_is (s : St) : GenRepr.LeanString.len s = .next s.self.len s := by
  unfold GenRepr.LeanString.len; rt_step
theorem is_heap_allocated_is (s : St) : GenRepr.LeanString.is_heap_allocated s = .next (isHeap s.self) s := by
  unfold GenRepr.LeanString.is_heap_allocated; rt_step

end LS.GenTie
