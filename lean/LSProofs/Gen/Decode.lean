import LSProofs.Gen.Collect
import LSProofs.DecodeLemmas
/-! # Ties: the decoding constructors `from_utf8`, `from_utf8_lossy`, `from_utf16` of `LeanString` (`src/lib.rs`)

std's decoders are the primitives (`str::from_utf8` = `validUtf8`, `utf8_chunks` = `utf8Chunks`, `char::decode_utf16` =
`decodeUtf16`: transcriptions in `LSModel/Decode.lean`, proved sound/complete against core's encoder in
`DecodeLemmas.lean` and compared with std by the `decode` family).  What the crate adds around them — pre-sizing with
`with_capacity(buf.len())`, the `push_str(valid)` / `push(U+FFFD)` loop, the early `return Err(FromUtf16Error)` that
drops the half-built value — is translated and proved to be the model's `fromUtf8` / `fromUtf8Lossy` / `fromUtf16`. -/
open LS LS.Rt
set_option linter.unusedSimpArgs false

namespace LS.GenTie

/-- `LeanString::with_capacity(n)` (the infallible one): the value, or the panic of `unwrap_with_msg` -/
theorem ls_with_capacity_step (c : Nat) (s : St) :
    GenRepr.LeanString.with_capacity c s =
      match withCapacity s.rf s.hp c with
      | (some r, hp') => .next r { s with hp := hp' }
      | (none, hp') => .palloc { s with hp := hp' } := by
  rw [with_capacity_is]
  unfold GenRepr.LeanString.try_with_capacity
  rw [bind_ap, call_norm, with_capacity_step]
  rcases withCapacity s.rf s.hp c with ⟨o, hp'⟩
  cases o <;> simp only [norm_next, bind_ap, rs_map_ok, rs_map_err, lean_string_ctor_ap, pure_ap, unwrapN]

/-- **`from_utf8`**: `Err(Utf8Error)` exactly on invalid input (nothing allocated), otherwise `LeanString::from(str)` -/
theorem from_utf8_tie (b : Bytes) (s : St) :
    GenRepr.LeanString.from_utf8 ⟨b⟩ s =
      if validUtf8 b then
        match fromStr s.rf s.hp b with
        | (some r, hp') => .next (.ok r) { s with hp := hp' }
        | (none, hp') => .palloc { s with hp := hp' }
      else .done .err s := by
  unfold GenRepr.LeanString.from_utf8
  cases hv : validUtf8 b with
  | false => simp only [bind_ap, str.from_utf8, pure_ap, hv, Bool.false_eq_true, ↓reduceIte, try_err]
  | true =>
    simp only [bind_ap, str.from_utf8, pure_ap, hv, ↓reduceIte, try_ok, call_norm, from_str_ref_is, from_str_step]
    rcases fromStr s.rf s.hp b with ⟨o, hp'⟩
    cases o <;> simp only [unwrapN, norm_next, norm_palloc, bind_ap, rs_Ok_ap, pure_ap]


/-- the body of the `from_utf8_lossy` loop, chunk by chunk, is the model's `pushLoop` over `push_str(valid)` /
`push(U+FFFD)` -/
theorem lossy_loop {ρ : Type} {w : World} {h : Nat} (rf : Refuse) : ∀ (chunks : List (Bytes × Bytes)) (hp : Heap) (r : Handle),
    IsGood w h hp r → (∀ p ∈ chunks, Valid p.1) →
    (forLoop (fun (chunk : Chunk) =>
        Rt.bind chunk.rs_valid fun t3 =>
        Rt.bind (Rt.call (GenRepr.LeanString.push_str t3)) fun _ =>
        Rt.bind chunk.rs_invalid fun t5 =>
        Rt.bind t5.rs_is_empty fun t6 =>
        Rt.bind (ifM (!t6) (Rt.bind (Rt.call (GenRepr.LeanString.push char.REPLACEMENT_CHARACTER)) fun _ => Rt.pure ()) (Rt.pure ()))
          fun _ => Rt.pure ())
      ((chunks.map fun (v, i) => (⟨v, i⟩ : Chunk)).map some) : M ρ Unit) ⟨rf, w.statics, hp, r⟩ =
      stepOfResV rf w.statics (pushLoop rf w.statics hp r
        (chunks.flatMap fun (v, i) => if i.isEmpty then [some v] else [some v, some replacement])) := by
  intro chunks
  induction chunks with
  | nil => intro hp r _ _; rfl
  | cons c rest ih =>
    intro hp r hg hv
    obtain ⟨v, i⟩ := c
    obtain ⟨t, g⟩ := hg
    have hvv : Valid v := hv (v, i) (List.mem_cons_self ..)
    have hrest : ∀ p ∈ rest, Valid p.1 := fun p hp' => hv p (List.mem_cons_of_mem _ hp')
    have hs := pushStr_sat g rf v hvv
    simp only [List.map_cons, forLoop, List.flatMap_cons, bind_ap, Chunk.rs_valid, Chunk.rs_invalid, ByteSlice.rs_is_empty,
      pure_ap, call_norm, ls_push_str_good g rf v hvv, norm_stepOfResV]
    revert hs
    cases hps : pushStr rf w.statics hp r v with
    | ub u => intro hf; exact hf.elim
    | pidx hp1 r1 => intro hf; exact hf.elim
    | pcb hp1 r1 => intro hf; exact hf.elim
    | err hp1 r1 =>
      intro _
      cases hi : i.isEmpty <;> simp only [stepOfResV, List.cons_append, List.nil_append, pushLoop, hps, if_true, if_false, Bool.false_eq_true]
    | ok v1 hp1 r1 =>
      intro g1
      cases hi : i.isEmpty with
      | true =>
        simp only [stepOfResV, Bool.not_true, ifM_false, pure_ap, if_true, List.cons_append, List.nil_append, pushLoop, hps]
        exact ih hp1 r1 ⟨_, g1⟩ hrest
      | false =>
        have h4 : char.REPLACEMENT_CHARACTER.b.length ≤ 4 := by decide
        have hs2 := pushStr_sat g1 rf replacement valid_replacement
        simp only [stepOfResV, Bool.not_false, ifM_true, bind_ap, call_norm, Bool.false_eq_true, if_false, List.cons_append,
          List.nil_append, pushLoop, hps, ls_push_good g1 rf char.REPLACEMENT_CHARACTER valid_replacement h4, norm_stepOfResV]
        have hrb : char.REPLACEMENT_CHARACTER.b = replacement := rfl
        rw [hrb]
        revert hs2
        cases hps2 : pushStr rf w.statics hp1 r1 replacement with
        | ub u => intro hf; exact hf.elim
        | pidx hp2 r2 => intro hf; exact hf.elim
        | pcb hp2 r2 => intro hf; exact hf.elim
        | err hp2 r2 => intro _; rfl
        | ok v2 hp2 r2 =>
          intro g2
          simp only [stepOfResV, pure_ap]
          exact ih hp2 r2 ⟨_, g2⟩ hrest

/-- **`from_utf8_lossy`**: `with_capacity(buf.len())`, then per chunk `push_str(valid)` and `push(U+FFFD)` when the
chunk has an invalid part; the half-built value is dropped if a push is refused — `Api.step (.fromUtf8Lossy d b)` -/
theorem from_utf8_lossy_tie {w : World} {d : Nat} (hw : Wf w) (hd : w.get d = none) (rf : Refuse) (b : Bytes) (self0 : Handle) :
    GenRepr.LeanString.from_utf8_lossy ⟨b⟩ ⟨rf, w.statics, w.heap, self0⟩ =
      match withCapacity rf w.heap b.length with
      | (none, hp) => .palloc ⟨rf, w.statics, hp, self0⟩
      | (some r0, hp0) => collectOut rf w.statics (pushLoop rf w.statics hp0 r0 (lossyPushes b)) := by
  unfold GenRepr.LeanString.from_utf8_lossy
  rw [bind_ap, ByteSlice.rs_len, pure_ap]
  simp only [bind_ap, call_norm, ls_with_capacity_step]
  rcases withCapacity_fresh (st := w.statics) (linv_empty hw hd) rf b.length with ⟨hp1, he, hs⟩ | ⟨hp1, r, he, g, _⟩
  · simp only [he, norm_palloc]
  · have hv : ∀ p ∈ utf8Chunks b, Valid p.1 := fun p hp' => utf8ChunksFuel_valid _ b [] valid_nil p hp'
    simp only [he, norm_next, assign_ap, dropOnUnwind_ap, bind_ap, ByteSlice.rs_utf8_chunks, pure_ap, ChunkIter.rs_for_each,
      lossy_loop rf (utf8Chunks b) hp1 r ⟨_, g⟩ hv]
    unfold lossyPushes
    cases hl : pushLoop rf w.statics hp1 r
        ((utf8Chunks b).flatMap fun (v, i) => if i.isEmpty then [some v] else [some v, some replacement]) with
    | ok v hp2 r2 => simp only [stepOfResV, bind_ap, read_self_ap, pure_ap, collectOut]
    | ub u => simp only [stepOfResV, collectOut]
    | err hp2 r2 => simp only [stepOfResV, collectOut, drop_step]; cases releaseRepr hp2 r2 <;> rfl
    | pidx hp2 r2 => simp only [stepOfResV, collectOut, drop_step]; cases releaseRepr hp2 r2 <;> rfl
    | pcb hp2 r2 => simp only [stepOfResV, collectOut, drop_step]; cases releaseRepr hp2 r2 <;> rfl


/-- what `from_utf16` does with the outcome of its loop: an unpaired surrogate (the model's `pcb` marker in
`decodeUtf16`) drops the half-built value and returns `Err(FromUtf16Error)` -/
def utf16Out (rf : Refuse) (st : List Bytes) : Res Unit → Step (Rs Handle) (Rs Handle)
  | .ok _ hp r => .next (.ok r) ⟨rf, st, hp, r⟩
  | .pcb hp r => (match releaseRepr hp r with | .ok hp' => .done .err ⟨rf, st, hp', .inl inlEmpty⟩ | .error u => .ub u)
  | .err hp r => (match releaseRepr hp r with | .ok hp' => .palloc ⟨rf, st, hp', .inl inlEmpty⟩ | .error u => .ub u)
  | .pidx hp r => (match releaseRepr hp r with | .ok hp' => .pidx ⟨rf, st, hp', .inl inlEmpty⟩ | .error u => .ub u)
  | .ub u => .ub u

/-- the `from_utf16` loop with its guard: push decoded characters; at the first unpaired surrogate drop and return -/
theorem utf16_tail {w : World} {h : Nat} (rf : Refuse) : ∀ (items : List (Option Bytes)) (hp : Heap) (r : Handle),
    IsGood w h hp r → (∀ s, some s ∈ items → Valid s ∧ s.length ≤ 4) →
    dropOnUnwind GenRepr.LeanString.drop
      (Rt.bind (forLoop (fun (c : Rs Chr) =>
          Rt.bind (match c with
            | Rs.ok c => (Rt.bind (Rt.call (GenRepr.LeanString.push c)) fun t3 => Rt.pure t3)
            | Rs.err => (Rt.bind (Rt.pure ReserveError) fun _ =>
                Rt.bind (rs_Err FromUtf16Error) fun t4 =>
                Rt.bind (Rt.call GenRepr.LeanString.drop) fun _ => ret t4)) fun _ => Rt.pure ())
          ((items.map fun o => match o with | some b => (Rs.ok ⟨b, b.length⟩ : Rs Chr) | none => Rs.err).map some)) fun _ =>
        Rt.bind Repr.read_self fun t10 => Rt.bind (rs_Ok t10) fun t11 => Rt.pure t11)
      ⟨rf, w.statics, hp, r⟩ =
      utf16Out rf w.statics (pushLoop rf w.statics hp r items) := by
  intro items
  induction items with
  | nil =>
    intro hp r _ _
    simp only [List.map_nil, forLoop, dropOnUnwind_ap, bind_ap, pure_ap, read_self_ap, rs_Ok_ap, pushLoop, utf16Out]
  | cons it rest ih =>
    intro hp r hg hv
    cases it with
    | none =>
      simp only [List.map_cons, forLoop, dropOnUnwind_ap, bind_ap, pure_ap, rs_Err_ap, call_norm, drop_step, ret_ap, pushLoop, utf16Out]
      cases releaseRepr hp r <;> rfl
    | some b =>
      obtain ⟨t, g⟩ := hg
      obtain ⟨hvb, h4⟩ := hv b (List.mem_cons_self ..)
      have hs := pushStr_sat g rf b hvb
      have ih' := fun hp1 r1 g1 => ih hp1 r1 g1 (fun s' hs' => hv s' (List.mem_cons_of_mem _ hs'))
      simp only [dropOnUnwind_ap, bind_ap] at ih' ⊢
      simp only [List.map_cons, forLoop, bind_ap, call_norm, ls_push_good g rf ⟨b, b.length⟩ hvb h4, norm_stepOfResV, pushLoop]
      revert hs
      cases hps : pushStr rf w.statics hp r b with
      | ub u => intro hf; exact hf.elim
      | pidx hp1 r1 => intro hf; exact hf.elim
      | pcb hp1 r1 => intro hf; exact hf.elim
      | err hp1 r1 =>
        intro _
        simp only [stepOfResV, utf16Out, drop_step]
        cases releaseRepr hp1 r1 <;> rfl
      | ok v hp1 r1 =>
        intro g1
        simp only [stepOfResV, pure_ap]
        exact ih' hp1 r1 ⟨_, g1⟩


theorem encChar_length_le4 (c : Char) : (String.utf8EncodeChar c).length ≤ 4 := by
  obtain ⟨b0, rest, he, _, _, hw⟩ := encChar_shape c
  rw [he, List.length_cons, ← hw]
  unfold charWidth; split <;> (try split) <;> (try split) <;> omega

theorem decodeUtf16_len4 (u : List Nat) : ∀ s, some s ∈ decodeUtf16 u → s.length ≤ 4 := by
  induction u using decodeUtf16.induct with
  | case1 => intro s hs; simp [decodeUtf16] at hs
  | case2 u rest hns ih =>
    intro s hs
    rw [decodeUtf16_bmp _ _ hns] at hs
    rcases List.mem_cons.1 hs with h | h
    · have h' := Option.some.inj h; rw [h']; exact encChar_length_le4 _
    · exact ih s h
  | case3 u rest h1 h2 ih =>
    intro s hs
    rw [decodeUtf16.eq_def] at hs; simp only [] at hs; rw [if_neg h1, if_pos h2] at hs
    rcases List.mem_cons.1 hs with h | h
    · cases h
    · exact ih s h
  | case4 u h1 h2 =>
    intro s hs
    rw [decodeUtf16.eq_def] at hs; simp only [] at hs; rw [if_neg h1, if_neg h2] at hs
    rcases List.mem_cons.1 hs with h | h
    · cases h
    · cases h
  | case5 u h1 h2 u2 rest2 h3 ih =>
    intro s hs
    rw [decodeUtf16_pair _ _ _ (by omega) h3] at hs
    rcases List.mem_cons.1 hs with h | h
    · have h' := Option.some.inj h; rw [h']; exact encChar_length_le4 _
    · exact ih s h
  | case6 u h1 h2 u2 rest2 h3 ih =>
    intro s hs
    rw [decodeUtf16.eq_def] at hs; simp only [] at hs; rw [if_neg h1, if_neg h2, if_neg h3] at hs
    rcases List.mem_cons.1 hs with h | h
    · cases h
    · exact ih s h

/-- **`from_utf16`**: `with_capacity(buf.len())`, push the decoded characters, `Err(FromUtf16Error)` at the first
unpaired surrogate (the half-built value is dropped) — `Api.step (.fromUtf16 d u)` -/
theorem from_utf16_tie {w : World} {d : Nat} (hw : Wf w) (hd : w.get d = none) (rf : Refuse) (u : List Nat) (self0 : Handle) :
    GenRepr.LeanString.from_utf16 ⟨u⟩ ⟨rf, w.statics, w.heap, self0⟩ =
      match withCapacity rf w.heap u.length with
      | (none, hp) => .palloc ⟨rf, w.statics, hp, self0⟩
      | (some r0, hp0) => utf16Out rf w.statics (pushLoop rf w.statics hp0 r0 (decodeUtf16 u)) := by
  unfold GenRepr.LeanString.from_utf16
  rw [bind_ap, U16Slice.rs_len, pure_ap]
  simp only [bind_ap, call_norm, ls_with_capacity_step]
  rcases withCapacity_fresh (st := w.statics) (linv_empty hw hd) rf u.length with ⟨hp1, he, hs⟩ | ⟨hp1, r, he, g, _⟩
  · simp only [he, norm_palloc]
  · have hv : ∀ s, some s ∈ decodeUtf16 u → Valid s ∧ s.length ≤ 4 := fun s hs => ⟨decodeUtf16_valid u s hs, decodeUtf16_len4 u s hs⟩
    have ht := utf16_tail rf (decodeUtf16 u) hp1 r ⟨_, g⟩ hv
    simp only [dropOnUnwind_ap, bind_ap] at ht
    simp only [he, norm_next, assign_ap, dropOnUnwind_ap, bind_ap, U16Slice.rs_iter, U16Slice.rs_copied, char.decode_utf16, pure_ap,
      Utf16Iter.rs_for_each]
    exact ht

end LS.GenTie
