import LSProofs.Utf8Lemmas
import LSProofs.Tie
/-! The inline representation: 16 raw bytes whose last byte is a tag or — when full — text. -/
namespace LS

theorem tag_val : ∀ n, n < 16 → ((n % 256) ||| Gen.mask1100) = n + 192 := by decide

theorem inlTag_toNat (n : Nat) (h : n < 16) : (inlTag n).toNat = n + 192 := by
  unfold inlTag
  rw [tag_val n h, u8_toNat_ofNat]; omega

theorem getD_append_append_singleton {α} (a b : List α) (x d : α) :
    (a ++ (b ++ [x])).getD (a.length + b.length) d = x := by
  rw [List.getD_eq_getElem?_getD, List.getElem?_append_right (by omega)]
  have : a.length + b.length - a.length = b.length := by omega
  rw [this, List.getElem?_append_right (by omega)]
  simp

theorem inlNew_eq_of_lt (t : Bytes) (h : t.length < 16) :
    inlNew t = t ++ (List.replicate (15 - t.length) (0 : UInt8) ++ [inlTag t.length]) := by
  unfold inlNew
  have hm : MAX_INLINE - 1 = 15 := by decide
  rw [hm, List.drop_append_of_le_length (by simp; omega), List.drop_replicate]

theorem inlNew_eq_of_eq (t : Bytes) (h : t.length = 16) : inlNew t = t := by
  unfold inlNew
  have hm : MAX_INLINE - 1 = 15 := by decide
  rw [hm, List.drop_of_length_le (by simp; omega), List.append_nil]

theorem inlNew_length (t : Bytes) (h : t.length ≤ 16) : (inlNew t).length = 16 := by
  rcases Nat.lt_or_eq_of_le h with h | h
  · rw [inlNew_eq_of_lt t h]; simp; omega
  · rw [inlNew_eq_of_eq t h]; exact h

theorem inlLast_inlNew_of_lt (t : Bytes) (h : t.length < 16) : inlLast (inlNew t) = t.length + 192 := by
  rw [inlNew_eq_of_lt t h]
  unfold inlLast
  have := getD_append_append_singleton t (List.replicate (15 - t.length) (0 : UInt8)) (inlTag t.length) 0
  simp only [List.length_replicate] at this
  have e : t.length + (15 - t.length) = 15 := by omega
  rw [e] at this
  rw [this, inlTag_toNat _ h]

theorem inlLast_of_full (t : Bytes) (hv : Valid t) (h : t.length = 16) : inlLast t < 0xC0 := by
  unfold inlLast
  have hne : t ≠ [] := by intro e; simp [e] at h
  have hl : t.getLast? = some (t.getD 15 0) := by
    rw [List.getLast?_eq_getElem?, h, List.getD_eq_getElem?_getD]
    have : (15 : Nat) < t.length := by omega
    simp [List.getElem?_eq_getElem this]
  exact valid_getLast_lt hv _ hl

/-- the `%`-free `wrappingSub` is `usize::wrapping_sub` on in-range operands -/
theorem wrappingSub_eq_mod (a b : Nat) (ha : a < USIZE) (hb : b ≤ USIZE) :
    wrappingSub a b = (a + USIZE - b) % USIZE := by
  unfold wrappingSub
  split
  · rw [show a + USIZE - b = (a - b) + USIZE by omega, Nat.add_mod_right, Nat.mod_eq_of_lt (by omega)]
  · rw [Nat.mod_eq_of_lt (by omega)]

/-- the decoding of `Handle::len` on an inline handle, as the source writes it (mod 2^64) -/
theorem inlLen_eq_wrapping (raw : Bytes) :
    inlLen raw = min ((inlLast raw + USIZE - Gen.mask1100) % USIZE) MAX_INLINE := by
  unfold inlLen
  rw [wrappingSub_eq_mod]
  · unfold inlLast USIZE; have := (raw.getD 15 0).toNat_lt; omega
  · have : Gen.mask1100 = 192 := by decide
    rw [this]; unfold USIZE; omega

/-- what `len()` decodes from a freshly built inline buffer is the length of the text -/
theorem inlLen_inlNew (t : Bytes) (hv : Valid t) (h : t.length ≤ 16) : inlLen (inlNew t) = t.length := by
  have hm : MAX_INLINE = 16 := Tie.maxInline_eq
  have hk : Gen.mask1100 = 192 := by decide
  unfold inlLen wrappingSub
  rcases Nat.lt_or_eq_of_le h with h | h
  · rw [inlLast_inlNew_of_lt t h, hm, hk]; unfold USIZE; split <;> omega
  · rw [inlNew_eq_of_eq t h]
    have := inlLast_of_full t hv h
    rw [hm, hk]; unfold USIZE; split <;> omega

theorem take_inlNew (t : Bytes) (h : t.length ≤ 16) : (inlNew t).take t.length = t := by
  unfold inlNew; simp

/-- every inline string built from valid text has a last byte below the heap marker -/
theorem inlLast_inlNew_lt (t : Bytes) (hv : Valid t) (h : t.length ≤ 16) : inlLast (inlNew t) < 0xD0 := by
  rcases Nat.lt_or_eq_of_le h with h | h
  · rw [inlLast_inlNew_of_lt t h]; omega
  · rw [inlNew_eq_of_eq t h]; have := inlLast_of_full t hv h; omega

end LS
