import LSModel
/-! Decimal digit counts: the reference `decimal` against range tables. -/
namespace LS

theorem decDigits_length : ∀ (k fuel n : Nat), k < fuel → n < 10 ^ (k + 1) → (k = 0 ∨ 10 ^ k ≤ n) →
    (decDigits fuel n).length = k + 1 := by
  intro k
  induction k with
  | zero =>
    intro fuel n hf hn _
    cases fuel with
    | zero => omega
    | succ f =>
      have : n < 10 := by simpa using hn
      simp [decDigits, this]
  | succ k ih =>
    intro fuel n hf hn hlo
    cases fuel with
    | zero => omega
    | succ f =>
      have h10 : 10 ^ (k + 1) ≤ n := by
        rcases hlo with h | h
        · omega
        · exact h
      have hpos : 0 < 10 ^ k := Nat.pow_pos (by omega)
      have e1 : 10 ^ (k + 1) = 10 ^ k * 10 := Nat.pow_succ ..
      have e2 : 10 ^ (k + 1 + 1) = 10 ^ (k + 1) * 10 := Nat.pow_succ ..
      have hge : ¬ n < 10 := by omega
      have hdiv_lt : n / 10 < 10 ^ (k + 1) := by
        apply Nat.div_lt_of_lt_mul; omega
      have hdiv_ge : 10 ^ k ≤ n / 10 := by
        apply (Nat.le_div_iff_mul_le (by omega)).2; omega
      have := ih f (n / 10) (by omega) hdiv_lt (Or.inr hdiv_ge)
      simp [decDigits, hge, this]

/-- a row `(lo, hi, d)` is right when every value in it has exactly `d` characters -/
def rowOk (r : Int × Int × Nat) : Bool :=
  if 0 ≤ r.1 then
    decide (1 ≤ r.2.2 ∧ r.2.2 ≤ 39 ∧ (r.2.2 = 1 ∨ (10 : Int) ^ (r.2.2 - 1) ≤ r.1) ∧ r.2.1 < (10 : Int) ^ r.2.2)
  else
    decide (r.2.1 < 0 ∧ 2 ≤ r.2.2 ∧ r.2.2 ≤ 39 ∧ (r.2.2 = 2 ∨ (10 : Int) ^ (r.2.2 - 2) ≤ -r.2.1) ∧ -r.1 < (10 : Int) ^ (r.2.2 - 1))

/-- the rows are contiguous and cover exactly `s..=e` -/
def covers : List (Int × Int × Nat) → Int → Int → Bool
  | [], s, e => decide (s = e + 1)
  | (lo, hi, _) :: rest, s, e => decide (lo = s) && decide (lo ≤ hi) && covers rest (hi + 1) e

theorem natAbs_pow_le {v : Int} {k : Nat} (hv : 0 ≤ v) : ((10 : Int) ^ k ≤ v ↔ 10 ^ k ≤ v.natAbs) := by
  constructor
  · intro h
    have : ((10 ^ k : Nat) : Int) ≤ v := by simpa using h
    omega
  · intro h
    have : ((10 ^ k : Nat) : Int) ≤ v := by omega
    simpa using this

theorem natAbs_lt_pow {v : Int} {k : Nat} (hv : 0 ≤ v) : (v < (10 : Int) ^ k ↔ v.natAbs < 10 ^ k) := by
  constructor
  · intro h
    have : v < ((10 ^ k : Nat) : Int) := by simpa using h
    omega
  · intro h
    have : v < ((10 ^ k : Nat) : Int) := by omega
    simpa using this

theorem row_exact (lo hi : Int) (d : Nat) (v : Int) (hr : rowOk (lo, hi, d) = true)
    (h1 : lo ≤ v) (h2 : v ≤ hi) : (decimal v).length = d := by
  simp only [rowOk] at hr
  split at hr
  · rename_i hlo
    have ⟨hd1, hd39, hlow, hhi⟩ := of_decide_eq_true hr
    have hv : 0 ≤ v := by omega
    have hnn : ¬ v < 0 := by omega
    have hup : v.natAbs < 10 ^ (d - 1 + 1) := by
      have : d - 1 + 1 = d := by omega
      rw [this]; exact (natAbs_lt_pow hv).1 (by omega)
    have hl : (d - 1 = 0 ∨ 10 ^ (d - 1) ≤ v.natAbs) := by
      rcases hlow with h | h
      · left; omega
      · right; exact (natAbs_pow_le hv).1 (by omega)
    have := decDigits_length (d - 1) 40 v.natAbs (by omega) hup hl
    simp [decimal, hnn, this]; omega
  · rename_i hlo
    have ⟨hneg, hd2, hd39, hlow, hhi⟩ := of_decide_eq_true hr
    have hv : v < 0 := by omega
    have hnv : 0 ≤ -v := by omega
    have hup : (-v).natAbs < 10 ^ (d - 2 + 1) := by
      have : d - 2 + 1 = d - 1 := by omega
      rw [this]; exact (natAbs_lt_pow hnv).1 (by omega)
    have hl : (d - 2 = 0 ∨ 10 ^ (d - 2) ≤ (-v).natAbs) := by
      rcases hlow with h | h
      · left; omega
      · right; exact (natAbs_pow_le hnv).1 (by omega)
    have hab : (-v).natAbs = v.natAbs := Int.natAbs_neg v
    rw [hab] at hup hl
    have := decDigits_length (d - 2) 40 v.natAbs (by omega) hup hl
    simp [decimal, hv, this]; omega

/-- total (no value falls between rows) and exact (sign included) -/
theorem lookup_exact : ∀ (rows : List (Int × Int × Nat)) (s e v : Int),
    rows.all rowOk = true → covers rows s e = true → s ≤ v → v ≤ e →
    lookupRows rows v = some (decimal v).length := by
  intro rows
  induction rows with
  | nil =>
    intro s e v _ hc h1 h2
    simp [covers] at hc; omega
  | cons row rest ih =>
    intro s e v hall hc h1 h2
    obtain ⟨lo, hi, d⟩ := row
    simp only [List.all_cons, Bool.and_eq_true] at hall
    simp only [covers, Bool.and_eq_true, decide_eq_true_eq] at hc
    obtain ⟨⟨hlo, hle⟩, hrest⟩ := hc
    by_cases hv : v ≤ hi
    · have := row_exact lo hi d v hall.1 (by omega) hv
      simp [lookupRows, hlo, h1, hv, this]
    · have : ¬ (lo ≤ v ∧ v ≤ hi) := by omega
      simp only [lookupRows, this, if_false]
      exact ih (hi + 1) e v hall.2 hrest (by omega) h2

end LS
