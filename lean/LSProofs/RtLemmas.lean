import LSModel.GenRepr
/-!
# Stepping the translated code on a state

One lemma per combinator / primitive of `LSModel/Rt.lean`, in *applied* form (`P args s = …`).  They are
deliberately **not** `rfl`-lemmas (each is proved through `cases s`): `simp` then builds explicit
rewrite proofs instead of asking the kernel for one large definitional check — which would make the
kernel evaluate `inlLen`'s `% 2^64` on symbolic bytes and never return.
-/
open LS LS.Rt
set_option linter.unusedSimpArgs false

namespace LS.GenTie
variable {ρ α β : Type}

theorem bind_ap (m : M ρ α) (f : α → M ρ β) (s : St) :
    Rt.bind m f s = match m s with
      | .next a s' => f a s' | .done v s' => .done v s' | .pidx s' => .pidx s' | .palloc s' => .palloc s' | .pcb s' => .pcb s' | .ub u => .ub u := by
  unfold Rt.bind; cases m s <;> rfl
theorem pure_ap (a : α) (s : St) : (Rt.pure a : M ρ α) s = .next a s := by cases s; rfl
theorem ret_ap (v : ρ) (s : St) : (Rt.ret v : M ρ α) s = .done v s := by cases s; rfl
theorem ifM_true (x y : M ρ α) (s : St) : ifM true x y s = x s := by cases s; rfl
theorem ifM_false (x y : M ρ α) (s : St) : ifM false x y s = y s := by cases s; rfl
theorem call_ap {ρ' : Type} (m : M ρ' ρ') (s : St) :
    (Rt.call m : M ρ ρ') s = match m s with
      | .next a s' => .next a s' | .done v s' => .next v s' | .pidx s' => .pidx s' | .palloc s' => .palloc s' | .pcb s' => .pcb s' | .ub u => .ub u := by
  unfold Rt.call; cases m s <;> rfl
theorem try_ok (a : α) (s : St) : (try_ (.ok a) : M (Rs β) α) s = .next a s := by cases s; rfl
theorem try_err (s : St) : (try_ (.err : Rs α) : M (Rs β) α) s = .done .err s := by cases s; rfl
theorem assert_true (s : St) : (assert_ true : M ρ Unit) s = .next () s := by cases s; rfl
theorem assert_false (s : St) : (assert_ false : M ρ Unit) s = .pidx s := by cases s; rfl
theorem alarm_ap (u : UB) (s : St) : (alarm u : M ρ α) s = .ub u := by cases s; rfl

theorem rs_Ok_ap (a : α) (s : St) : (rs_Ok a : M ρ (Rs α)) s = .next (.ok a) s := by cases s; rfl
theorem rs_Err_ap {ε : Type} (e : ε) (s : St) : (rs_Err e : M ρ (Rs α)) s = .next .err s := by cases s; rfl
theorem rs_Some_ap (a : α) (s : St) : (rs_Some a : M ρ (Option α)) s = .next (some a) s := by cases s; rfl
theorem ok_or_some (a : α) (e : ReserveErrorT) (s : St) : ((some a).rs_ok_or e : M ρ (Rs α)) s = .next (.ok a) s := by cases s; rfl
theorem ok_or_none (e : ReserveErrorT) (s : St) : ((none : Option α).rs_ok_or e : M ρ (Rs α)) s = .next .err s := by cases s; rfl
theorem rs_map_ok (a : α) (f : α → M ρ β) (s : St) :
    ((Rs.ok a).rs_map f : M ρ (Rs β)) s = match f a s with
      | .next b s' => .next (.ok b) s' | .done v s' => .done v s' | .pidx s' => .pidx s' | .palloc s' => .palloc s' | .pcb s' => .pcb s' | .ub u => .ub u := by
  simp only [Rs.rs_map, Rt.bind]; cases f a s <;> rfl
theorem rs_map_err (f : α → M ρ β) (s : St) : ((Rs.err : Rs α).rs_map f : M ρ (Rs β)) s = .next .err s := by cases s; rfl

theorem unwrap_ok (a : α) (s : St) : ((Rs.ok a).rs_unwrap_with_msg : M ρ α) s = .next a s := by cases s; rfl
theorem unwrap_err (s : St) : ((Rs.err : Rs α).rs_unwrap_with_msg : M ρ α) s = .palloc s := by cases s; rfl

theorem checked_add_ap (a b : Nat) (s : St) : (a.rs_checked_add b : M ρ (Option Nat)) s = .next (checkedAdd a b) s := by cases s; rfl
theorem max_ap (a b : Nat) (s : St) : (a.rs_max b : M ρ Nat) s = .next (max a b) s := by cases s; rfl
theorem min_ap (a b : Nat) (s : St) : (a.rs_min b : M ρ Nat) s = .next (min a b) s := by cases s; rfl
theorem str_len_ap (t : Str) (s : St) : (t.rs_len : M ρ Nat) s = .next t.b.length s := by cases s; rfl
theorem str_is_empty_ap (t : Str) (s : St) : (t.rs_is_empty : M ρ Bool) s = .next t.b.isEmpty s := by cases s; rfl
theorem str_boundary_ap (t : Str) (i : Nat) (s : St) : (t.rs_is_char_boundary i : M ρ Bool) s = .next (isBoundary t.b i) s := by cases s; rfl

theorem allocTo_ap (f : Refuse → Heap → Option Nat × Heap) (len : Nat) (s : St) :
    (allocTo f len : M ρ (Rs HeapBuf)) s = match f s.rf s.hp with
      | (some a, hp') => .next (.ok ⟨a, len⟩) { s with hp := hp' }
      | (none, hp') => .next .err { s with hp := hp' } := by cases s; rfl
theorem hb_new_ap (t : Str) (s : St) :
    (HeapBuffer.new t : M ρ (Rs HeapBuf)) s = match heapNew s.rf s.hp t.b with
      | (some a, hp') => .next (.ok ⟨a, t.b.length⟩) { s with hp := hp' }
      | (none, hp') => .next .err { s with hp := hp' } := by cases s; rfl
theorem hb_with_capacity_ap (c : Nat) (s : St) :
    (HeapBuffer.with_capacity c : M ρ (Rs HeapBuf)) s = match heapWithCapacity s.rf s.hp c with
      | (some a, hp') => .next (.ok ⟨a, 0⟩) { s with hp := hp' }
      | (none, hp') => .next .err { s with hp := hp' } := by cases s; rfl
theorem hb_with_additional_ap (t : Str) (n : Nat) (s : St) :
    (HeapBuffer.with_additional t n : M ρ (Rs HeapBuf)) s = match heapWithAdditional s.rf s.hp t.b n with
      | (some a, hp') => .next (.ok ⟨a, t.b.length⟩) { s with hp := hp' }
      | (none, hp') => .next .err { s with hp := hp' } := by cases s; rfl
theorem hb_with_capacity_from_ap (t : Str) (c : Nat) (s : St) :
    (HeapBuffer.with_capacity_from t c : M ρ (Rs HeapBuf)) s = match heapWithCapacityFrom s.rf s.hp t.b c with
      | (some a, hp') => .next (.ok ⟨a, t.b.length⟩) { s with hp := hp' }
      | (none, hp') => .next .err { s with hp := hp' } := by cases s; rfl
theorem growth_ap (a b : Nat) (s : St) : (heap_buffer.amortized_growth a b : M ρ Nat) s = .next (Gen.amortizedGrowth a b) s := by cases s; rfl
theorem ib_new_ap (t : Str) (s : St) : (InlineBuffer.new t : M ρ InlineBuf) s = .next ⟨inlNew t.b⟩ s := by cases s; rfl
theorem ib_empty_ap (s : St) : (InlineBuffer.empty : M ρ InlineBuf) s = .next ⟨inlEmpty⟩ s := by cases s; rfl
theorem from_heap_ap (h : HeapBuf) (s : St) : (Repr.from_heap h : M ρ Handle) s = .next (.heap h.addr h.len) s := by cases s; rfl
theorem from_inline_ap (i : InlineBuf) (s : St) : (Repr.from_inline i : M ρ Handle) s = .next (.inl i.raw) s := by cases s; rfl
theorem from_static_ap (b : StaticBuf) (s : St) : (Repr.from_static b : M ρ Handle) s = .next (.stat b.sid b.len) s := by cases s; rfl

theorem len_ap (s : St) : (Repr.len : M ρ Nat) s = .next s.self.len s := by cases s; rfl
theorem last_byte_ap (s : St) : (Repr.last_byte : M ρ Nat) s = .next s.self.lastByte s := by cases s; rfl
theorem is_heap_ap (s : St) : (Repr.is_heap_buffer : M ρ Bool) s = .next (isHeap s.self) s := by cases s; rfl
theorem is_static_ap (s : St) : (Repr.is_static_buffer : M ρ Bool) s = .next (isStatic s.self) s := by cases s; rfl
theorem as_str_ap (s : St) :
    (Repr.as_str : M ρ Str) s = match textOf s.hp s.st s.self with | .ok t => .next ⟨t⟩ s | .error u => .ub u := by
  cases s; rfl
theorem assign_ap (o : Handle) (s : St) : (Repr.assign o : M ρ Unit) s = .next () { s with self := o } := by cases s; rfl
theorem read_self_ap (s : St) : (Repr.read_self : M ρ Handle) s = .next s.self s := by cases s; rfl
theorem as_heap_ap (s : St) : (Repr.as_heap_buffer : M ρ HeapRef) s = if isHeap s.self then .next .mk s else .ub .oob := by cases s; rfl
theorem as_heap_mut_ap (s : St) : (Repr.as_heap_buffer_mut : M ρ HeapRef) s = if isHeap s.self then .next .mk s else .ub .oob := by cases s; rfl
theorem as_static_ap (s : St) : (Repr.as_static_buffer : M ρ StaticRef) s = if isStatic s.self then .next .mk s else .ub .oob := by cases s; rfl
theorem as_static_mut_ap (s : St) : (Repr.as_static_buffer_mut : M ρ StaticRef) s = if isStatic s.self then .next .mk s else .ub .oob := by cases s; rfl
theorem as_inline_mut_ap (s : St) :
    (Repr.as_inline_buffer_mut : M ρ InlineRef) s = match s.self with | .inl _ => .next .mk s | _ => .ub .oob := by cases s; rfl

/-! ### `&HeapBuffer` methods on a heap `self` whose block is known -/
section
variable (rf : Refuse) (st : List Bytes) (hp : Heap) (a l : Nat)

theorem hr_is_unique_some (h : HeapRef) {b : Block} (hg : hp.get? a = some b) :
    (h.rs_is_unique : M ρ Bool) ⟨rf, st, hp, .heap a l⟩ = .next (decide (b.rc = 1)) ⟨rf, st, hp, .heap a l⟩ := by
  simp only [HeapRef.rs_is_unique, onHeap, hg]
theorem hr_is_unique_none (h : HeapRef) (hg : hp.get? a = none) :
    (h.rs_is_unique : M ρ Bool) ⟨rf, st, hp, .heap a l⟩ = .ub .useAfterFree := by
  simp only [HeapRef.rs_is_unique, onHeap, hg]
theorem hr_capacity_some (h : HeapRef) {b : Block} (hg : hp.get? a = some b) :
    (h.rs_capacity : M ρ Nat) ⟨rf, st, hp, .heap a l⟩ = .next b.cap ⟨rf, st, hp, .heap a l⟩ := by
  simp only [HeapRef.rs_capacity, onHeap, hg]
theorem hr_capacity_none (h : HeapRef) (hg : hp.get? a = none) :
    (h.rs_capacity : M ρ Nat) ⟨rf, st, hp, .heap a l⟩ = .ub .useAfterFree := by
  simp only [HeapRef.rs_capacity, onHeap, hg]
theorem hr_len_some (h : HeapRef) {b : Block} (hg : hp.get? a = some b) :
    (h.rs_len : M ρ Nat) ⟨rf, st, hp, .heap a l⟩ = .next l ⟨rf, st, hp, .heap a l⟩ := by
  simp only [HeapRef.rs_len, onHeap, hg]
theorem hr_len_none (h : HeapRef) (hg : hp.get? a = none) :
    (h.rs_len : M ρ Nat) ⟨rf, st, hp, .heap a l⟩ = .ub .useAfterFree := by
  simp only [HeapRef.rs_len, onHeap, hg]
theorem hr_is_len_on_heap_ap (h : HeapRef) (s : St) : (h.rs_is_len_on_heap : M ρ Bool) s = .next false s := by cases s; rfl
theorem hr_as_str_some (h : HeapRef) {b : Block} (hg : hp.get? a = some b) :
    (h.rs_as_str : M ρ Str) ⟨rf, st, hp, .heap a l⟩ =
      if l ≤ b.cap then .next ⟨b.data.take l⟩ ⟨rf, st, hp, .heap a l⟩ else .ub .oob := by
  simp only [HeapRef.rs_as_str, onHeap, hg]
theorem hr_as_str_none (h : HeapRef) (hg : hp.get? a = none) :
    (h.rs_as_str : M ρ Str) ⟨rf, st, hp, .heap a l⟩ = .ub .useAfterFree := by
  simp only [HeapRef.rs_as_str, onHeap, hg]
theorem hr_refcount_some (h : HeapRef) {b : Block} (hg : hp.get? a = some b) :
    (h.rs_reference_count : M ρ RcRef) ⟨rf, st, hp, .heap a l⟩ = .next .mk ⟨rf, st, hp, .heap a l⟩ := by
  simp only [HeapRef.rs_reference_count, onHeap, hg]
theorem hr_refcount_none (h : HeapRef) (hg : hp.get? a = none) :
    (h.rs_reference_count : M ρ RcRef) ⟨rf, st, hp, .heap a l⟩ = .ub .useAfterFree := by
  simp only [HeapRef.rs_reference_count, onHeap, hg]
theorem hr_realloc_ap (h : HeapRef) (c : Nat) :
    (h.rs_realloc c : M ρ (Rs Unit)) ⟨rf, st, hp, .heap a l⟩ = match hp.realloc rf a c with
      | .moved hp' a' => .next (.ok ()) ⟨rf, st, hp', .heap a' l⟩
      | .refused hp' => .next .err ⟨rf, st, hp', .heap a l⟩
      | .ub u => .ub u := by
  simp only [HeapRef.rs_realloc]; cases hp.realloc rf a c <;> rfl
theorem hr_set_len_ap (h : HeapRef) (n : Nat) :
    (h.rs_set_len n : M ρ Unit) ⟨rf, st, hp, .heap a l⟩ =
      if n ≤ MAX_LEN then .next () ⟨rf, st, hp, .heap a n⟩ else .ub .lenOverflow := by
  simp only [HeapRef.rs_set_len]
theorem rc_fetch_sub_some (c : RcRef) (n : Nat) (o : Ord) {b : Block} (hg : hp.get? a = some b) :
    (c.rs_fetch_sub n o : M ρ Nat) ⟨rf, st, hp, .heap a l⟩ =
      if b.rc = 0 then .ub .rcUnderflow
      else .next b.rc ⟨rf, st, hp.setBlock a { b with rc := b.rc - 1 }, .heap a l⟩ := by
  simp only [RcRef.rs_fetch_sub, onHeap, hg]
theorem rc_fetch_add_some (c : RcRef) (n : Nat) (o : Ord) {b : Block} (hg : hp.get? a = some b) :
    (c.rs_fetch_add n o : M ρ Nat) ⟨rf, st, hp, .heap a l⟩ =
      .next b.rc ⟨rf, st, hp.setBlock a { b with rc := b.rc + 1 }, .heap a l⟩ := by
  simp only [RcRef.rs_fetch_add, onHeap, hg]
theorem fence_ap (o : Ord) (s : St) : (fence o : M ρ Unit) s = .next () s := by cases s; rfl
theorem hr_dealloc_some (h : HeapRef) {b : Block} (hg : hp.get? a = some b) :
    (h.rs_dealloc : M ρ Unit) ⟨rf, st, hp, .heap a l⟩ =
      if b.rc ≠ 0 then .ub .doubleFree
      else if b.size = HEADER + b.cap then
        .next () ⟨rf, st, { hp with slots := hp.slots.set a .freed, log := .free b.size :: hp.log }, .heap a l⟩
      else .ub .badLayout := by
  simp only [HeapRef.rs_dealloc, onHeap, hg]
end

theorem sr_len_ap (r : StaticRef) (rf : Refuse) (st : List Bytes) (hp : Heap) (i l : Nat) :
    (r.rs_len : M ρ Nat) ⟨rf, st, hp, .stat i l⟩ = .next l ⟨rf, st, hp, .stat i l⟩ := by simp only [StaticRef.rs_len]
theorem sr_set_len_ap (r : StaticRef) (n : Nat) (rf : Refuse) (st : List Bytes) (hp : Heap) (i l : Nat) :
    (r.rs_set_len n : M ρ Unit) ⟨rf, st, hp, .stat i l⟩ =
      if n ≤ STATIC_MAX_LEN then .next () ⟨rf, st, hp, .stat i n⟩ else .ub .lenOverflow := by simp only [StaticRef.rs_set_len]
theorem ir_set_len_ap (r : InlineRef) (n : Nat) (rf : Refuse) (st : List Bytes) (hp : Heap) (raw : Bytes) :
    (r.rs_set_len n : M ρ Unit) ⟨rf, st, hp, .inl raw⟩ =
      if n ≤ MAX_INLINE then .next () ⟨rf, st, hp, .inl (inlSetLen raw n)⟩ else .ub .oob := by simp only [InlineRef.rs_set_len]

theorem field_0_ap (s : St) : (Repr.field_0 : M ρ RawPtr) s = .next ⟨s.self, false⟩ s := by cases s; rfl
theorem overflow_ap (r : Handle) (s : St) : (ref_count_overflow r : M ρ Unit) s = .ub .rcOverflow := by cases s; rfl

theorem sstr_len_ap (t : SStr) (s : St) : (t.rs_len : M ρ Nat) s = .next t.b.length s := by cases s; rfl
theorem static_new_ap (t : SStr) (s : St) :
    (StaticBuffer.new t : M ρ (Rs StaticBuf)) s =
      .next (if t.b.length > STATIC_MAX_LEN then .err else .ok ⟨t.sid, t.b.length⟩) s := by cases s; rfl

theorem array_repeat_ap (x n : Nat) (s : St) : (array_repeat x n : M ρ ArrayBuf) s = .next ⟨n, List.replicate n (UInt8.ofNat x)⟩ s := by cases s; rfl
theorem encode_utf8_ap (c : Chr) (buf : ArrayBuf) (s : St) :
    (c.rs_encode_utf8 buf : M ρ Str) s = if c.b.length ≤ buf.n then .next ⟨c.b⟩ s else .ub .oob := by cases s; rfl

theorem lean_string_ctor_ap (r : Handle) (s : St) : (LeanString r : M ρ Handle) s = .next r s := by cases s; rfl
theorem onRepr_ap (other : Handle) (m : M ρ α) (s : St) :
    onRepr other m s = match m { s with self := other } with
      | .next a s' => .next a { s' with self := s.self }
      | .done v s' => .done v { s' with self := s.self }
      | .pidx s' => .pidx { s' with self := s.self }
      | .palloc s' => .palloc { s' with self := s.self }
      | .pcb s' => .pcb { s' with self := s.self }
      | .ub u => .ub u := by cases s; rfl

theorem arith_add_ap (a b : Nat) (s : St) : (arith_add a b : M ρ Nat) s = if a + b < USIZE then .next (a + b) s else .ub .arith := by
  cases s; rfl
theorem arith_sub_ap (a b : Nat) (s : St) : (arith_sub a b : M ρ Nat) s = if b ≤ a then .next (a - b) s else .ub .arith := by
  cases s; rfl
theorem arith_mul_ap (a b : Nat) (s : St) : (arith_mul a b : M ρ Nat) s = if a * b < USIZE then .next (a * b) s else .ub .arith := by
  cases s; rfl
theorem arith_div_ap (a b : Nat) (s : St) : (arith_div a b : M ρ Nat) s = if 0 < b then .next (a / b) s else .ub .arith := by
  cases s; rfl
theorem cast_to_ap (bits x : Nat) (s : St) : (cast_to bits x : M ρ Nat) s = .next (x % 2 ^ bits) s := by cases s; rfl

theorem isHeap_heap (a l : Nat) : isHeap (.heap a l) = true := by simp only [isHeap]
theorem isHeap_inl (raw : Bytes) : isHeap (.inl raw) = false := by simp only [isHeap]
theorem isHeap_stat (i l : Nat) : isHeap (.stat i l) = false := by simp only [isHeap]
theorem isStatic_heap (a l : Nat) : isStatic (.heap a l) = false := by simp only [isStatic]
theorem isStatic_inl (raw : Bytes) : isStatic (.inl raw) = false := by simp only [isStatic]
theorem isStatic_stat (i l : Nat) : isStatic (.stat i l) = true := by simp only [isStatic]
theorem max_inline_size_eq : MAX_INLINE_SIZE = MAX_INLINE := by unfold MAX_INLINE_SIZE; rfl

/-! ### raw storage access -/
theorem as_slice_mut_inl (rf : Refuse) (st : List Bytes) (hp : Heap) (raw : Bytes) :
    (Repr.as_slice_mut : M ρ SliceMut) ⟨rf, st, hp, .inl raw⟩ = .next ⟨0, MAX_INLINE⟩ ⟨rf, st, hp, .inl raw⟩ := by
  simp only [Repr.as_slice_mut]
theorem as_slice_mut_stat (rf : Refuse) (st : List Bytes) (hp : Heap) (i l : Nat) :
    (Repr.as_slice_mut : M ρ SliceMut) ⟨rf, st, hp, .stat i l⟩ = .ub .writeStatic := by
  simp only [Repr.as_slice_mut]
theorem as_slice_mut_heap (rf : Refuse) (st : List Bytes) (hp : Heap) (a l : Nat) {b : Block} (hg : hp.get? a = some b) :
    (Repr.as_slice_mut : M ρ SliceMut) ⟨rf, st, hp, .heap a l⟩ = .next ⟨0, b.cap⟩ ⟨rf, st, hp, .heap a l⟩ := by
  simp only [Repr.as_slice_mut, hg]
theorem as_slice_mut_heap_none (rf : Refuse) (st : List Bytes) (hp : Heap) (a l : Nat) (hg : hp.get? a = none) :
    (Repr.as_slice_mut : M ρ SliceMut) ⟨rf, st, hp, .heap a l⟩ = .ub .useAfterFree := by
  simp only [Repr.as_slice_mut, hg]
theorem as_str_mut_inl (rf : Refuse) (st : List Bytes) (hp : Heap) (raw : Bytes) :
    (Repr.as_str_mut : M ρ SliceMut) ⟨rf, st, hp, .inl raw⟩ = .next ⟨0, inlLen raw⟩ ⟨rf, st, hp, .inl raw⟩ := by
  simp only [Repr.as_str_mut, Handle.len]
theorem as_str_mut_stat (rf : Refuse) (st : List Bytes) (hp : Heap) (i l : Nat) :
    (Repr.as_str_mut : M ρ SliceMut) ⟨rf, st, hp, .stat i l⟩ = .ub .writeStatic := by
  simp only [Repr.as_str_mut]
theorem as_str_mut_heap (rf : Refuse) (st : List Bytes) (hp : Heap) (a l : Nat) {b : Block} (hg : hp.get? a = some b) :
    (Repr.as_str_mut : M ρ SliceMut) ⟨rf, st, hp, .heap a l⟩ = .next ⟨0, l⟩ ⟨rf, st, hp, .heap a l⟩ := by
  simp only [Repr.as_str_mut, hg]
theorem as_str_mut_heap_none (rf : Refuse) (st : List Bytes) (hp : Heap) (a l : Nat) (hg : hp.get? a = none) :
    (Repr.as_str_mut : M ρ SliceMut) ⟨rf, st, hp, .heap a l⟩ = .ub .useAfterFree := by
  simp only [Repr.as_str_mut, hg]
theorem index_range_ap (sl : SliceMut) (a b : Nat) (s : St) :
    (sl.rs_index_range a b : M ρ SliceMut) s = if a ≤ b ∧ b ≤ sl.len then .next ⟨sl.off + a, b - a⟩ s else .ub .oob := by
  cases s; rfl
theorem index_from_ap (sl : SliceMut) (a : Nat) (s : St) :
    (sl.rs_index_from a : M ρ SliceMut) s = if a ≤ sl.len then .next ⟨sl.off + a, sl.len - a⟩ s else .ub .oob := by
  cases s; rfl
theorem sl_len_ap (sl : SliceMut) (s : St) : (sl.rs_len : M ρ Nat) s = .next sl.len s := by cases s; rfl
theorem sl_as_mut_ptr_ap (sl : SliceMut) (s : St) : (sl.rs_as_mut_ptr : M ρ MutPtr) s = .next ⟨sl.off⟩ s := by cases s; rfl
theorem ptr_add_ap (p : MutPtr) (n : Nat) (s : St) : (p.rs_add n : M ρ MutPtr) s = .next ⟨p.off + n⟩ s := by cases s; rfl
theorem str_as_bytes_ap (t : Str) (s : St) : (t.rs_as_bytes : M ρ Str) s = .next t s := by cases s; rfl
theorem str_as_ptr_ap (t : Str) (s : St) : (t.rs_as_ptr : M ρ ConstPtr) s = .next ⟨t.b⟩ s := by cases s; rfl
theorem writeSelf_ap (off : Nat) (bytes : Bytes) (s : St) :
    (writeSelf off bytes : M ρ Unit) s = match writeBytes s.hp s.self off bytes with
      | .ok (hp', r') => .next () { s with hp := hp', self := r' }
      | .error u => .ub u := by cases s; rfl
theorem copy_from_slice_ap (sl : SliceMut) (src : Str) (s : St) :
    (sl.rs_copy_from_slice src : M ρ Unit) s = if src.b.length = sl.len then (writeSelf sl.off src.b : M ρ Unit) s else .ub .oob := by
  cases s; rfl
theorem ptr_copy_ap (src dst : MutPtr) (n : Nat) (s : St) :
    (ptr.copy src dst n : M ρ Unit) s = match storageOf s.hp s.self with
      | .error u => .ub u
      | .ok stor => if src.off + n ≤ stor.length then (writeSelf dst.off ((stor.drop src.off).take n) : M ρ Unit) s else .ub .oob := by
  cases s; rfl
theorem ptr_copy_nonoverlapping_ap (src : ConstPtr) (dst : MutPtr) (n : Nat) (s : St) :
    (ptr.copy_nonoverlapping src dst n : M ρ Unit) s =
      if n ≤ src.b.length then (writeSelf dst.off (src.b.take n) : M ρ Unit) s else .ub .oob := by
  cases s; rfl
theorem sl_chars_ap (sl : SliceMut) (s : St) :
    (sl.rs_chars : M ρ Chars) s = match storageOf s.hp s.self with
      | .error u => .ub u
      | .ok stor => if sl.off + sl.len ≤ stor.length then .next ⟨(stor.drop sl.off).take sl.len⟩ s else .ub .oob := by
  cases s; rfl
theorem str_chars_ap (t : Str) (s : St) : (t.rs_chars : M ρ Chars) s = .next ⟨t.b⟩ s := by cases s; rfl
theorem chars_next_ap (c : Chars) (s : St) :
    (c.rs_next : M ρ (Option Chr)) s =
      .next (match c.b with | [] => none | b :: _ => some ⟨c.b.take (charWidth b), charWidth b⟩) s := by cases s; rfl
theorem chars_next_back_ap (c : Chars) (s : St) :
    (c.rs_next_back : M ρ (Option Chr)) s =
      .next (if c.b.isEmpty then none else some ⟨c.b.drop (c.b.length - (trailing c.b + 1)), trailing c.b + 1⟩) s := by cases s; rfl
theorem unwrap_some (a : α) (s : St) : ((some a).rs_unwrap_unchecked : M ρ α) s = .next a s := by cases s; rfl
theorem unwrap_none (s : St) : ((none : Option α).rs_unwrap_unchecked : M ρ α) s = .ub .oob := by cases s; rfl
theorem len_utf8_ap (c : Chr) (s : St) : (c.rs_len_utf8 : M ρ Nat) s = .next c.w s := by cases s; rfl


/-- step the monad on a state; extra rewrite rules (the facts of the case at hand) go in brackets -/
syntax "rt_step" ("[" Lean.Parser.Tactic.simpLemma,* "]")? : tactic
macro_rules
  | `(tactic| rt_step) => `(tactic| rt_step [bind_ap])
  | `(tactic| rt_step [$ts,*]) => `(tactic| simp only [$ts,*, bind_ap, pure_ap, ret_ap, ifM_true, ifM_false, call_ap,
      try_ok, try_err, assert_true, assert_false, alarm_ap, rs_Ok_ap, rs_Err_ap, rs_Some_ap, ok_or_some, ok_or_none,
      rs_map_ok, rs_map_err, unwrap_ok, unwrap_err, checked_add_ap, max_ap, min_ap, str_len_ap, str_is_empty_ap, str_boundary_ap,
      hb_new_ap, hb_with_capacity_ap, hb_with_additional_ap, hb_with_capacity_from_ap, growth_ap, ib_new_ap, ib_empty_ap,
      from_heap_ap, from_inline_ap, from_static_ap, len_ap, last_byte_ap, is_heap_ap, is_static_ap, as_str_ap, assign_ap,
      read_self_ap, as_heap_ap, as_heap_mut_ap, as_static_ap, as_static_mut_ap, as_inline_mut_ap,
      hr_is_len_on_heap_ap, hr_realloc_ap, hr_set_len_ap, fence_ap, sr_len_ap, sr_set_len_ap, ir_set_len_ap,
      field_0_ap, overflow_ap, isHeap_heap, isHeap_inl, isHeap_stat, isStatic_heap, isStatic_inl, isStatic_stat,
      max_inline_size_eq, arith_add_ap, arith_sub_ap, arith_mul_ap, arith_div_ap, cast_to_ap, lean_string_ctor_ap, onRepr_ap, array_repeat_ap, encode_utf8_ap, sstr_len_ap, static_new_ap, as_slice_mut_inl, as_slice_mut_stat, as_str_mut_inl, as_str_mut_stat, index_range_ap, index_from_ap,
      sl_len_ap, sl_as_mut_ptr_ap, ptr_add_ap, str_as_bytes_ap, str_as_ptr_ap, writeSelf_ap, copy_from_slice_ap, ptr_copy_ap,
      ptr_copy_nonoverlapping_ap, sl_chars_ap, str_chars_ap, chars_next_ap, chars_next_back_ap, unwrap_some, unwrap_none, len_utf8_ap,
      decide_true, decide_false, Bool.not_true, Bool.not_false, Bool.false_eq_true, ↓reduceIte])

/-- `rt_step` on a heap `self` whose block is known (`hg : hp.get? a = some b`) / known to be gone
(`hg : hp.get? a = none`): every read of the header or the text, whatever their order in the source -/
syntax "rt_heap_some" term:max term:max term:max term:max term:max term:max ("[" Lean.Parser.Tactic.simpLemma,* "]")? : tactic
macro_rules
  | `(tactic| rt_heap_some $rf $st $hp $a $l $hg) => `(tactic| rt_heap_some $rf $st $hp $a $l $hg [bind_ap])
  | `(tactic| rt_heap_some $rf $st $hp $a $l $hg [$ts,*]) => `(tactic| rt_step [$ts,*, $hg:term,
      hr_is_unique_some $rf $st $hp $a $l _ $hg, hr_capacity_some $rf $st $hp $a $l _ $hg, hr_len_some $rf $st $hp $a $l _ $hg,
      hr_as_str_some $rf $st $hp $a $l _ $hg, hr_refcount_some $rf $st $hp $a $l _ $hg,
      rc_fetch_sub_some $rf $st $hp $a $l _ _ _ $hg, rc_fetch_add_some $rf $st $hp $a $l _ _ _ $hg,
      as_slice_mut_heap $rf $st $hp $a $l $hg, as_str_mut_heap $rf $st $hp $a $l $hg])
syntax "rt_heap_none" term:max term:max term:max term:max term:max term:max ("[" Lean.Parser.Tactic.simpLemma,* "]")? : tactic
macro_rules
  | `(tactic| rt_heap_none $rf $st $hp $a $l $hg) => `(tactic| rt_heap_none $rf $st $hp $a $l $hg [bind_ap])
  | `(tactic| rt_heap_none $rf $st $hp $a $l $hg [$ts,*]) => `(tactic| rt_step [$ts,*, $hg:term,
      hr_is_unique_none $rf $st $hp $a $l _ $hg, hr_capacity_none $rf $st $hp $a $l _ $hg, hr_len_none $rf $st $hp $a $l _ $hg,
      hr_as_str_none $rf $st $hp $a $l _ $hg, hr_refcount_none $rf $st $hp $a $l _ $hg,
      as_slice_mut_heap_none $rf $st $hp $a $l $hg, as_str_mut_heap_none $rf $st $hp $a $l $hg])

end LS.GenTie
