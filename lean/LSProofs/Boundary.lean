import LSProofs.Utf8Lemmas
/-! Character boundaries of valid UTF-8: what `is_char_boundary`, the lead-byte width and the
backwards scan of `pop` mean on an encoded list of characters. -/
namespace LS

theorem isBoundary_zero (t : Bytes) : isBoundary t 0 = true := by simp [isBoundary]

theorem isBoundary_length (t : Bytes) : isBoundary t t.length = true := by
  unfold isBoundary
  split
  · rfl
  · simp

theorem isBoundary_beyond (t : Bytes) (i : Nat) (h : t.length < i) : isBoundary t i = false := by
  unfold isBoundary
  rw [if_neg (by omega), List.getElem?_eq_none (by omega)]
  simp; omega

/-- the encoding of one character: lead byte, continuation bytes, width -/
theorem encChar_cases (c : Char) : ∃ b0 rest, String.utf8EncodeChar c = b0 :: rest ∧ isCont b0 = false ∧
    (∀ x ∈ rest, isCont x = true) ∧ charWidth b0 = rest.length + 1 := by
  obtain ⟨b0, rest, h1, h2, h3, h4⟩ := encChar_shape c
  exact ⟨b0, rest, h1, h2, fun x hx => List.all_eq_true.1 h3 x hx, h4⟩

theorem isBoundary_append_right (a b : Bytes) (i : Nat) (h : a.length ≤ i)
    (hb : isBoundary (a ++ b) i = true) : isBoundary b (i - a.length) = true := by
  rcases Nat.eq_zero_or_pos (i - a.length) with hz | hp
  · rw [hz]; exact isBoundary_zero _
  · unfold isBoundary at hb ⊢
    rw [if_neg (by omega)] at hb
    rw [if_neg (by omega)]
    rw [List.getElem?_append_right h] at hb
    cases hx : b[i - a.length]? with
    | none =>
      rw [hx] at hb
      simp only [List.length_append, beq_iff_eq] at hb ⊢
      omega
    | some x => rw [hx] at hb; exact hb

theorem valid_split : ∀ (cs : List Char) (i : Nat), isBoundary (enc cs) i = true → i ≤ (enc cs).length →
    ∃ c1 c2, cs = c1 ++ c2 ∧ (enc cs).take i = enc c1 ∧ (enc cs).drop i = enc c2 := by
  intro cs
  induction cs with
  | nil => intro i _ hi; simp [enc] at hi; subst hi; exact ⟨[], [], rfl, rfl, rfl⟩
  | cons c cs ih =>
    intro i hb hi
    obtain ⟨b0, rest, he, hb0, hrest, hw⟩ := encChar_cases c
    rw [enc_cons, he] at hb hi ⊢
    rcases Nat.eq_zero_or_pos i with h0 | hpos
    · subst h0; exact ⟨[], c :: cs, rfl, rfl, by simp [enc_cons, he]⟩
    · rcases Nat.lt_or_ge i (rest.length + 1) with hlt | hge
      · -- strictly inside the first character: its byte is a continuation byte
        exfalso
        unfold isBoundary at hb
        rw [if_neg (by omega)] at hb
        have hlt' : i - 1 < rest.length := by omega
        have hidx : (b0 :: rest ++ enc cs)[i]? = some rest[i - 1] := by
          rw [List.cons_append, List.getElem?_cons]
          rw [if_neg (by omega), List.getElem?_append_left hlt', List.getElem?_eq_getElem hlt']
        rw [hidx] at hb
        have := hrest _ (List.getElem_mem hlt')
        simp [this] at hb
      · -- at or beyond the end of the first character
        have hlen : (b0 :: rest).length = rest.length + 1 := by simp
        have hb' : isBoundary (enc cs) (i - (rest.length + 1)) = true := by
          have := isBoundary_append_right (b0 :: rest) (enc cs) i (by simp; omega) hb
          simpa [hlen] using this
        have hi' : i - (rest.length + 1) ≤ (enc cs).length := by simp at hi; omega
        obtain ⟨c1, c2, hcs, ht, hd⟩ := ih _ hb' hi'
        refine ⟨c :: c1, c2, by rw [hcs]; rfl, ?_, ?_⟩
        · rw [List.take_append, hlen, List.take_of_length_le (by simp; omega), ht, enc_cons, he]
        · rw [List.drop_append, hlen, List.drop_of_length_le (by simp; omega), hd]; simp

/-- a valid text splits into two valid texts at every character boundary (and only there) -/
theorem valid_take_drop {t : Bytes} (hv : Valid t) (i : Nat) (hb : isBoundary t i = true) :
    Valid (t.take i) ∧ Valid (t.drop i) := by
  obtain ⟨cs, rfl⟩ := hv
  rcases Nat.lt_or_ge (enc cs).length i with hgt | hle
  · rw [isBoundary_beyond _ _ hgt] at hb; cases hb
  · obtain ⟨c1, c2, _, h1, h2⟩ := valid_split cs i hb hle
    exact ⟨⟨c1, h1⟩, ⟨c2, h2⟩⟩

/-- the first character of a non-empty valid text: its width is that of the lead byte -/
theorem valid_first_char {t : Bytes} (hv : Valid t) (b : UInt8) (rest : Bytes) (ht : t = b :: rest) :
    charWidth b ≤ t.length ∧ Valid (t.take (charWidth b)) ∧ Valid (t.drop (charWidth b)) ∧ 1 ≤ charWidth b := by
  obtain ⟨cs, hcs⟩ := hv
  cases cs with
  | nil => rw [ht] at hcs; simp [enc] at hcs
  | cons c cs =>
    obtain ⟨b0, r0, he, _, _, hw⟩ := encChar_cases c
    rw [enc_cons, he, ht] at hcs
    simp only [List.cons_append, List.cons.injEq] at hcs
    obtain ⟨hb, hr⟩ := hcs
    subst hb
    have hlen : (b :: r0).length = charWidth b := by simp [hw]
    have hte : t = (b :: r0) ++ enc cs := by rw [ht, hr]; rfl
    refine ⟨by rw [hte]; simp; omega, ?_, ?_, by omega⟩
    · rw [hte, List.take_left' hlen]; exact ⟨[c], by simp [enc, he]⟩
    · rw [hte, List.drop_left' hlen]; exact ⟨cs, rfl⟩

theorem takeWhile_append_stop {α} (p : α → Bool) (l : List α) (x : α) (rest : List α)
    (hl : ∀ y ∈ l, p y = true) (hx : p x = false) : (l ++ x :: rest).takeWhile p = l := by
  induction l with
  | nil => simp [List.takeWhile, hx]
  | cons y ys ih =>
    simp only [List.cons_append, List.takeWhile_cons, hl y (List.mem_cons_self ..), if_true]
    rw [ih (fun z hz => hl z (List.mem_cons_of_mem _ hz))]

/-- the backwards scan of `pop`: the text without its last character is valid, and what is cut
off is exactly that character -/
theorem valid_pop {t : Bytes} (hv : Valid t) (hne : t ≠ []) :
    trailing t + 1 ≤ t.length ∧ Valid (t.take (t.length - (trailing t + 1))) ∧
    Valid (t.drop (t.length - (trailing t + 1))) := by
  obtain ⟨cs, rfl⟩ := hv
  rcases List.eq_nil_or_concat cs with hnil | ⟨ini, c, hc⟩
  · subst hnil; exact absurd rfl hne
  · rw [List.concat_eq_append] at hc
    subst hc
    obtain ⟨b0, rest, he, hb0, hrest, hw⟩ := encChar_cases c
    have henc : enc (ini ++ [c]) = enc ini ++ (b0 :: rest) := by rw [enc_append]; simp [enc, he]
    have htr : trailing (enc (ini ++ [c])) = rest.length := by
      unfold trailing
      have hrev : (enc ini ++ b0 :: rest).reverse = rest.reverse ++ b0 :: (enc ini).reverse := by simp
      rw [henc, hrev]
      rw [takeWhile_append_stop isCont rest.reverse b0 _ (fun y hy => hrest y (List.mem_reverse.1 hy)) hb0]
      simp
    rw [htr, henc]
    have hlen : (enc ini ++ b0 :: rest).length - (rest.length + 1) = (enc ini).length := by simp
    rw [hlen]
    refine ⟨by simp, ?_, ?_⟩
    · rw [List.take_left' rfl]; exact ⟨ini, rfl⟩
    · rw [List.drop_left' rfl]; exact ⟨[c], by simp [enc, he]⟩

end LS
