import LSProofs.Moves
import LSProofs.Props.C12
import LSProofs.Boundary
/-!
# Specifications of the `Repr` methods over `Good`

Each method, run on a handle that reads the valid text `t` consistently with the rest of the world,
ends in a state that is again `Good` (for the text `String` would hold), never raises a model alarm,
and on `Err` leaves the handle and every block as they were.
-/
namespace LS

/-- shape of a result: what holds on `Ok`, on `Err`, on an index panic, on a callback panic -/
def Res.Sat {α : Type} (ok : α → Heap → Handle → Prop) (err pidx pcb : Heap → Handle → Prop) : Res α → Prop
  | .ok v hp r => ok v hp r
  | .err hp r => err hp r
  | .pidx hp r => pidx hp r
  | .pcb hp r => pcb hp r
  | .ub _ => False

def Never : Heap → Handle → Prop := fun _ _ => False

/-- `Err`: the handle is bit-identical and so is every block (only the request counter/log moved) -/
def Unchanged (hp : Heap) (r : Handle) : Heap → Handle → Prop := fun hp' r' => r' = r ∧ hp'.slots = hp.slots

theorem moveTo_none (hp hp1 : Heap) (r : Handle) (l : Nat) : moveTo hp r l (none, hp1) = .err hp1 r := rfl

theorem capOk_iff (c : Nat) : capOk c = true ↔ c ≤ MAX_LEN := by
  have := Tie.maxLen_eq; have := Tie.header_eq
  simp [capOk]; omega

/-- the outcome of copying out into a fresh block of capacity `cap` -/
theorem moveTo_alloc_sat {ocf base st hp r t} (g : Good ocf base st hp r t) (rf : Refuse) (cap : Nat)
    (hc : cap ≤ MAX_LEN) (hi : t.length ≤ cap) :
    (moveTo hp r t.length (hp.allocate rf cap t)).Sat
      (fun _ hp' r' => Good ocf base st hp' r' t ∧ Unique hp' r' ∧ capOf hp' r' = cap ∧
        r' = .heap hp.slots.length t.length ∧ hp'.reqs = hp.reqs + 1)
      (fun hp' r' => Unchanged hp r hp' r' ∧ hp'.reqs = hp.reqs + 1) Never Never := by
  rcases good_moveTo g rf cap hc hi with ⟨hp1, he, hs, hq, _⟩ | ⟨hp2, he, g2, hg, hq, _⟩
  · rw [he]; exact ⟨⟨rfl, hs⟩, hq⟩
  · rw [he]; exact ⟨g2, ⟨_, hg, rfl⟩, by simp [capOf, hg], rfl, hq⟩

theorem growth_bounds (l a : Nat) (h : l + a < 2 ^ 64) : l ≤ Gen.amortizedGrowth l a ∧ l + a ≤ Gen.amortizedGrowth l a := by
  have := C12.growth_ge_need l a h; omega

/-- `with_additional`: either refused before the allocator (too large) or an allocation of the
amortised size -/
theorem withAdditional_sat {ocf base st hp r t} (g : Good ocf base st hp r t) (rf : Refuse) (add : Nat)
    (hadd : t.length + add < 2 ^ 64) :
    (moveTo hp r t.length (heapWithAdditional rf hp t add)).Sat
      (fun _ hp' r' => Good ocf base st hp' r' t ∧ Unique hp' r' ∧ capOf hp' r' = Gen.amortizedGrowth t.length add ∧
        r' = .heap hp.slots.length t.length)
      (Unchanged hp r) Never Never := by
  have ⟨hb1, hb2⟩ := growth_bounds t.length add hadd
  unfold heapWithAdditional
  simp only []
  by_cases hc : (decide (t.length ≤ MAX_LEN) && capOk (Gen.amortizedGrowth t.length add)) = true
  · rw [if_pos hc]
    simp only [Bool.and_eq_true, decide_eq_true_eq] at hc
    have := moveTo_alloc_sat g rf _ ((capOk_iff _).1 hc.2) hb1
    revert this
    cases moveTo hp r t.length (hp.allocate rf (Gen.amortizedGrowth t.length add) t) <;> simp [Res.Sat, Never]
    · intro a b c d _; exact ⟨a, b, c, d⟩
    · intro a _; exact a
  · rw [if_neg hc]; exact ⟨rfl, rfl⟩

theorem good_text_heap {ocf base st hp a l t} (g : Good ocf base st hp (.heap a l) t) :
    ∃ b, hp.get? a = some b ∧ l ≤ b.cap ∧ b.data.take l = t ∧ t.length = l ∧ b.data.length = b.cap ∧
      b.rc = ocf a + 1 ∧ b.cap ≤ MAX_LEN := by
  obtain ⟨b, hb, hlc, _⟩ := g.ok
  have ht := g.text
  simp only [textOf, hb, hlc, if_true, Except.ok.injEq] at ht
  obtain ⟨k1, k2, k3, k4, k5⟩ := g.inv.blocks a b hb
  refine ⟨b, hb, hlc, ht, ?_, k4, ?_, k3⟩
  · rw [← ht, List.length_take]; omega
  · simpa [ownOf, onBlock] using k1

/-- `Repr::reserve` -/
theorem reserve_sat {ocf base st hp r t} (g : Good ocf base st hp r t) (rf : Refuse) (add : Nat) :
    (reserve rf st hp r add).Sat
      (fun _ hp' r' => Good ocf base st hp' r' t ∧ Unique hp' r' ∧ t.length + add ≤ capOf hp' r')
      (Unchanged hp r) Never Never := by
  have hlen := good_len g
  have h16 := Tie.maxInline_eq
  unfold reserve
  simp only [hlen]
  by_cases hov : t.length + add < USIZE
  · have hca : checkedAdd t.length add = some (t.length + add) := by simp [checkedAdd, hov]
    have hadd : t.length + add < 2 ^ 64 := hov
    simp only [hca]
    cases r with
    | heap a l =>
      obtain ⟨b, hb, hlc, ht, htl, hdl, hrc, hcm⟩ := good_text_heap g
      simp only [hb]
      by_cases hu : b.rc = 1
      · simp only [hu, if_true]
        by_cases hcap : b.cap ≥ t.length + add
        · rw [if_pos hcap]
          exact ⟨g, ⟨b, hb, hu⟩, by simp [capOf, hb]; omega⟩
        · rw [if_neg hcap]
          have ⟨hb1, hb2⟩ := growth_bounds t.length add hadd
          rcases good_realloc g b hb hu rf (Gen.amortizedGrowth t.length add) (by omega) with
            ⟨hp1, he, hs, _⟩ | ⟨hp2, he, g2, hg, _⟩
          · rw [he]; exact ⟨rfl, hs⟩
          · rw [he]; exact ⟨g2, ⟨_, hg, rfl⟩, by simp [capOf, hg]; omega⟩
      · simp only [hu, if_false, hlc, if_true]
        have := withAdditional_sat g rf add hadd
        have ⟨hb1, hb2⟩ := growth_bounds t.length add hadd
        rw [htl] at this hb2 ⊢
        rw [ht]
        revert this
        cases moveTo hp (.heap a l) l (heapWithAdditional rf hp t add) <;> simp [Res.Sat, Never]
        · intro a1 a2 a3 _; exact ⟨a1, a2, by omega⟩
    | stat s l =>
      simp only [g.text]
      by_cases hn : t.length + add ≤ MAX_INLINE
      · rw [if_pos hn]
        obtain ⟨hp', hrel, g', _⟩ := good_release_inline g t g.valid (by omega)
        simp only [releaseRepr, Except.ok.injEq] at hrel
        subst hrel
        exact ⟨g', trivial, by simp [capOf]; omega⟩
      · rw [if_neg hn]
        have hl : l = t.length := by rw [← hlen]; rfl
        have := withAdditional_sat g rf add hadd
        have ⟨hb1, hb2⟩ := growth_bounds t.length add hadd
        rw [← hl] at this hb2
        revert this
        cases moveTo hp (.stat s l) l (heapWithAdditional rf hp t add) <;> simp [Res.Sat, Never]
        · intro a1 a2 a3 _; exact ⟨a1, a2, by omega⟩
    | inl raw =>
      have ht := g.text
      simp only [textOf, Except.ok.injEq] at ht
      simp only []
      by_cases hn : t.length + add > MAX_INLINE
      · rw [if_pos hn]
        have hl : inlLen raw = t.length := by rw [← hlen]; rfl
        have := withAdditional_sat g rf add hadd
        have ⟨hb1, hb2⟩ := growth_bounds t.length add hadd
        rw [← hl, ht] at *
        revert this
        cases moveTo hp (.inl raw) (inlLen raw) (heapWithAdditional rf hp t add) <;> simp [Res.Sat, Never]
        · intro a1 a2 a3 _; exact ⟨a1, a2, by omega⟩
      · rw [if_neg hn]
        exact ⟨g, trivial, by simp [capOf]; omega⟩
  · have hca : checkedAdd t.length add = none := by simp [checkedAdd, hov]
    simp only [hca]
    exact ⟨rfl, rfl⟩

end LS

namespace LS

theorem heapNew_eq (rf : Refuse) (hp : Heap) (t : Bytes) (h : t.length ≤ MAX_LEN) :
    heapNew rf hp t = hp.allocate rf t.length t := by
  unfold heapNew; rw [if_pos ((capOk_iff _).2 h)]

/-- `Repr::ensure_modifiable` -/
theorem ensureModifiable_sat {ocf base st hp r t} (g : Good ocf base st hp r t) (rf : Refuse) :
    (ensureModifiable rf st hp r).Sat
      (fun _ hp' r' => Good ocf base st hp' r' t ∧ Unique hp' r')
      (Unchanged hp r) Never Never := by
  have h16 := Tie.maxInline_eq
  have hlen := good_len g
  unfold ensureModifiable
  cases r with
  | inl raw => exact ⟨g, trivial⟩
  | heap a l =>
    obtain ⟨b, hb, hlc, ht, htl, hdl, hrc, hcm⟩ := good_text_heap g
    simp only [hb]
    by_cases hu : b.rc = 1
    · simp only [hu, if_true]; exact ⟨g, ⟨b, hb, hu⟩⟩
    · simp only [hu, if_false, hlc, if_true]
      rw [ht, heapNew_eq rf hp t (by omega)]
      have := moveTo_alloc_sat g rf t.length (by omega) (Nat.le_refl _)
      rw [htl] at this ⊢
      revert this
      cases moveTo hp (.heap a l) l (hp.allocate rf l t) <;> simp [Res.Sat, Never]
      · intro a1 a2 _ _ _; exact ⟨a1, a2⟩
      · intro a1 _; exact a1
  | stat s l =>
    simp only [g.text]
    have hl : l = t.length := by rw [← hlen]; rfl
    obtain ⟨t', hs, hl', _, hmax⟩ := g.ok
    unfold fromStr
    by_cases hn : t.length ≤ MAX_INLINE
    · rw [if_pos hn]
      obtain ⟨hp', hrel, g', _⟩ := good_release_inline g t g.valid (by omega)
      simp only [releaseRepr, Except.ok.injEq] at hrel
      subst hrel
      exact ⟨g', trivial⟩
    · rw [if_neg hn]
      have hsm := Tie.staticMaxLen_eq
      have hML := Tie.maxLen_eq
      have htm : t.length ≤ MAX_LEN := by omega
      rw [heapNew_eq rf hp t htm]
      have := moveTo_alloc_sat g rf t.length htm (Nat.le_refl _)
      simp only [moveTo, releaseRepr] at this
      revert this
      cases hp.allocate rf t.length t with
      | mk o hp1 =>
        cases o with
        | none => simp [Res.Sat, Never]; intro a1 _; exact a1
        | some a' => simp [Res.Sat, Never]; intro a1 a2 _ _ _; exact ⟨a1, a2⟩

/-- `Repr::push_str` — `String::push_str` -/
theorem pushStr_sat {ocf base st hp r t} (g : Good ocf base st hp r t) (rf : Refuse) (s : Bytes) (hs : Valid s) :
    (pushStr rf st hp r s).Sat
      (fun _ hp' r' => Good ocf base st hp' r' (Spec.push_str t s))
      (Unchanged hp r) Never Never := by
  unfold pushStr Spec.push_str
  by_cases he : s.isEmpty = true
  · rw [if_pos he]
    have : s = [] := by simpa using he
    subst this; simpa [Res.Sat] using g
  · rw [if_neg he]
    simp only []
    have hr := reserve_sat g rf s.length
    revert hr
    cases hres : reserve rf st hp r s.length with
    | ok v hp1 r1 =>
      intro ⟨g1, hu1, hc1⟩
      simp only []
      have hlen := good_len g
      rw [hlen]
      obtain ⟨hp2, r2, hw, g2, _⟩ := good_write g1 hu1 t.length s (Nat.le_refl _) hc1
        (by rw [List.take_length]; exact valid_append g.valid hs)
      rw [hw]
      rw [List.take_length] at g2
      exact g2
    | err hp1 r1 => intro h; exact h
    | pidx hp1 r1 => intro h; exact h.elim
    | pcb hp1 r1 => intro h; exact h.elim
    | ub u => intro h; exact h.elim

/-- `Repr::truncate` — `String::truncate` (the panic leaves everything as it was) -/
theorem truncate_sat {ocf base st hp r t} (g : Good ocf base st hp r t) (n : Nat) :
    match Spec.truncate t n with
    | .ok _ t' => (truncate st hp r n).Sat (fun _ hp' r' => Good ocf base st hp' r' t' ∧ hp' = hp) Never Never Never
    | .panic => truncate st hp r n = .pidx hp r := by
  have hlen := good_len g
  unfold Spec.truncate truncate
  rw [hlen]
  by_cases hn : n ≥ t.length
  · rw [if_pos hn, if_pos hn]; exact ⟨g, rfl⟩
  · rw [if_neg hn, if_neg hn]
    simp only [g.text]
    by_cases hb : isBoundary t n = true
    · rw [if_pos hb]
      simp only [hb, Bool.not_true, Bool.false_eq_true, if_false]
      have hv := (valid_take_drop g.valid n hb).1
      obtain ⟨r', hs, g', _⟩ := good_setLen g n (by omega) hv
      simp only [truncateUnchecked, hs]
      exact ⟨g', rfl⟩
    · rw [if_neg hb]
      simp only [Bool.not_eq_true] at hb
      simp [hb]

/-- `Repr::pop` — `String::pop` -/
theorem pop_sat {ocf base st hp r t} (g : Good ocf base st hp r t) :
    (pop st hp r).Sat (fun v hp' r' => v = (Spec.pop t).1 ∧ Good ocf base st hp' r' (Spec.pop t).2 ∧ hp' = hp)
      Never Never Never := by
  unfold pop Spec.pop
  simp only [g.text]
  by_cases he : t.isEmpty = true
  · rw [if_pos he, if_pos he]; exact ⟨rfl, g, rfl⟩
  · rw [if_neg he, if_neg he]
    simp only []
    have hne : t ≠ [] := by simpa using he
    obtain ⟨h1, h2, _⟩ := valid_pop g.valid hne
    obtain ⟨r', hs, g', _⟩ := good_setLen g (t.length - (trailing t + 1)) (by omega) h2
    simp only [truncateUnchecked, hs]
    exact ⟨rfl, g', rfl⟩

/-- `LeanString::clear` — `String::clear` -/
theorem clear_sat {ocf base st hp r t} (g : Good ocf base st hp r t) :
    (clear hp r).Sat (fun _ hp' r' => Good ocf base st hp' r' []) Never Never Never := by
  unfold clear
  have hset : ∀ r', setLen r 0 = .ok r' → Good ocf base st hp r' [] → 
      (match setLen r 0 with | .error u => Res.ub u | .ok r' => Res.ok () hp r').Sat
        (fun _ hp' r' => Good ocf base st hp' r' []) Never Never Never := by
    intro r' h g'; rw [h]; exact g'
  obtain ⟨r0, hs0, g0, _⟩ := good_setLen g 0 (Nat.zero_le _) (by simpa using valid_nil)
  simp only [List.take_zero] at g0
  cases r with
  | inl raw => simp only [Handle.isUnique]; exact hset r0 hs0 g0
  | stat s l => simp only [Handle.isUnique]; exact hset r0 hs0 g0
  | heap a l =>
    obtain ⟨b, hb, _⟩ := good_text_heap g
    simp only [Handle.isUnique, hb]
    by_cases hu : b.rc = 1
    · simp only [hu, beq_self_eq_true]; exact hset r0 hs0 g0
    · have : (b.rc == 1) = false := by simpa using hu
      simp only [this]
      obtain ⟨hp', hrel, g', _⟩ := good_release_inline g [] valid_nil (by simp)
      rw [hrel]
      exact g'

end LS

namespace LS

theorem getD_eq_head_drop (t : Bytes) (i : Nat) (h : i < t.length) : ∃ rest, t.drop i = t.getD i 0 :: rest := by
  refine ⟨t.drop (i + 1), ?_⟩
  rw [List.getD_eq_getElem?_getD, List.getElem?_eq_getElem h]
  simp only [Option.getD_some]
  exact (List.getElem_cons_drop h).symm ▸ rfl

/-- facts about the character at a boundary `i < len` of a valid text -/
theorem char_at {t : Bytes} (hv : Valid t) (i : Nat) (hb : isBoundary t i = true) (hi : i < t.length) :
    let w := charWidth (t.getD i 0)
    i + w ≤ t.length ∧ Valid (t.take i) ∧ Valid (t.drop (i + w)) ∧ Valid (t.take i ++ t.drop (i + w)) ∧ 1 ≤ w := by
  obtain ⟨hv1, hv2⟩ := valid_take_drop hv i hb
  obtain ⟨rest, hd⟩ := getD_eq_head_drop t i hi
  obtain ⟨h1, _, h3, h4⟩ := valid_first_char hv2 _ rest hd
  simp only [List.length_drop] at h1
  rw [List.drop_drop] at h3
  exact ⟨by omega, hv1, h3, valid_append hv1 h3, h4⟩

/-- `Repr::remove` — `String::remove` -/
theorem remove_sat {ocf base st hp r t} (g : Good ocf base st hp r t) (rf : Refuse) (i : Nat) :
    match Spec.remove t i with
    | .panic => remove rf st hp r i = .pidx hp r
    | .ok c t' => (remove rf st hp r i).Sat (fun v hp' r' => v = c ∧ Good ocf base st hp' r' t')
        (Unchanged hp r) Never Never := by
  unfold Spec.remove remove
  simp only [g.text]
  by_cases hb : isBoundary t i = true
  · by_cases hi : i < t.length
    · rw [if_pos ⟨hb, hi⟩]
      simp only [hb, hi, Bool.not_true, Bool.false_eq_true, if_false, decide_true]
      have hem := ensureModifiable_sat g rf
      revert hem
      cases hres : ensureModifiable rf st hp r with
      | ok v hp1 r1 =>
        intro ⟨g1, hu1⟩
        simp only [g1.text]
        obtain ⟨hw1, _, _, hv, hw2⟩ := char_at g.valid i hb hi
        have hcap := good_len_le_cap g1
        have hlen : t.length - charWidth (t.getD i 0) = i + (t.drop (i + charWidth (t.getD i 0))).length := by
          simp only [List.length_drop]; omega
        rw [hlen]
        obtain ⟨hp2, r2, hw, g2, _⟩ := good_write g1 hu1 i (t.drop (i + charWidth (t.getD i 0))) (by omega)
          (by simp only [List.length_drop]; omega) hv
        rw [hw]
        exact ⟨rfl, g2⟩
      | err hp1 r1 => intro h; exact h
      | pidx hp1 r1 => intro h; exact h.elim
      | pcb hp1 r1 => intro h; exact h.elim
      | ub u => intro h; exact h.elim
    · rw [if_neg (fun h => hi h.2)]
      simp [hb, hi]
  · rw [if_neg (fun h => hb h.1)]
    simp only [Bool.not_eq_true] at hb
    simp [hb]

/-- `Repr::insert_str` — `String::insert_str` -/
theorem insertStr_sat {ocf base st hp r t} (g : Good ocf base st hp r t) (rf : Refuse) (i : Nat) (s : Bytes)
    (hs : Valid s) :
    match Spec.insert_str t i s with
    | .panic => insertStr rf st hp r i s = .pidx hp r
    | .ok _ t' => (insertStr rf st hp r i s).Sat (fun _ hp' r' => Good ocf base st hp' r' t')
        (Unchanged hp r) Never Never := by
  have hlen := good_len g
  unfold Spec.insert_str insertStr
  simp only [g.text, hlen]
  by_cases hb : isBoundary t i = true
  · rw [if_pos hb]
    simp only [hb, Bool.not_true, Bool.false_eq_true, if_false]
    have hile : i ≤ t.length := by
      rcases Nat.lt_or_ge t.length i with h | h
      · rw [isBoundary_beyond t i h] at hb; cases hb
      · exact h
    by_cases hov : t.length + s.length < USIZE
    · have hca : checkedAdd t.length s.length = some (t.length + s.length) := by simp [checkedAdd, hov]
      simp only [hca]
      have hr := reserve_sat g rf s.length
      revert hr
      cases hres : reserve rf st hp r s.length with
      | ok v hp1 r1 =>
        intro ⟨g1, hu1, hc1⟩
        simp only [g1.text]
        obtain ⟨hv1, hv2⟩ := valid_take_drop g.valid i hb
        have hl2 : t.length + s.length = i + (s ++ t.drop i).length := by simp; omega
        rw [hl2]
        obtain ⟨hp2, r2, hw, g2, _⟩ := good_write g1 hu1 i (s ++ t.drop i) hile (by simp; omega)
          (valid_append hv1 (valid_append hs hv2))
        rw [hw]
        simpa [Res.Sat, List.append_assoc] using g2
      | err hp1 r1 => intro h; exact h
      | pidx hp1 r1 => intro h; exact h.elim
      | pcb hp1 r1 => intro h; exact h.elim
      | ub u => intro h; exact h.elim
    · have hca : checkedAdd t.length s.length = none := by simp [checkedAdd, hov]
      simp only [hca]; exact ⟨rfl, rfl⟩
  · rw [if_neg hb]
    simp only [Bool.not_eq_true] at hb
    simp [hb]

theorem retainScan_valid : ∀ (fuel : Nat) (rest : Bytes) (answers : List (Option Bool)) (acc : Bytes),
    Valid rest → Valid acc →
    Valid (retainScan fuel rest answers acc).1 ∧ (retainScan fuel rest answers acc).1.length ≤ acc.length + rest.length := by
  intro fuel
  induction fuel with
  | zero => intro rest answers acc _ ha; exact ⟨ha, by simp [retainScan]⟩
  | succ f ih =>
    intro rest answers acc hr ha
    cases rest with
    | nil => exact ⟨ha, by simp [retainScan]⟩
    | cons b bs =>
      obtain ⟨h1, h2, h3, h4⟩ := valid_first_char hr b bs rfl
      simp only [retainScan]
      cases answers.headD (some true) with
      | none => exact ⟨ha, by simp⟩
      | some keep =>
        simp only []
        have hlt : ((b :: bs).take (charWidth b)).length = charWidth b := by rw [List.length_take]; omega
        cases keep with
        | true =>
          obtain ⟨k1, k2⟩ := ih ((b :: bs).drop (charWidth b)) answers.tail (acc ++ (b :: bs).take (charWidth b)) h3 (valid_append ha h2)
          refine ⟨by simpa using k1, ?_⟩
          have : (acc ++ (b :: bs).take (charWidth b)).length = acc.length + charWidth b := by rw [List.length_append, hlt]
          simp only [if_true] at k2 ⊢
          rw [this, List.length_drop] at k2
          omega
        | false =>
          obtain ⟨k1, k2⟩ := ih ((b :: bs).drop (charWidth b)) answers.tail acc h3 ha
          refine ⟨by simpa using k1, ?_⟩
          simp only [Bool.false_eq_true, if_false] at k2 ⊢
          rw [List.length_drop] at k2
          omega

/-- `Repr::retain` — the scan of `String::retain`; a panicking predicate keeps what was kept so far -/
theorem retain_sat {ocf base st hp r t} (g : Good ocf base st hp r t) (rf : Refuse) (answers : List (Option Bool)) :
    (retain rf st hp r answers).Sat
      (fun _ hp' r' => Good ocf base st hp' r' (retainScan t.length t answers []).1 ∧ (retainScan t.length t answers []).2 = false)
      (Unchanged hp r) Never
      (fun hp' r' => Good ocf base st hp' r' (retainScan t.length t answers []).1 ∧ (retainScan t.length t answers []).2 = true) := by
  unfold retain
  have hem := ensureModifiable_sat g rf
  revert hem
  cases hres : ensureModifiable rf st hp r with
  | ok v hp1 r1 =>
    intro ⟨g1, hu1⟩
    simp only [g1.text]
    obtain ⟨hv, hl⟩ := retainScan_valid t.length t answers [] g.valid valid_nil
    simp only [List.length_nil, Nat.zero_add] at hl
    have hcap := good_len_le_cap g1
    cases hscan : retainScan t.length t answers [] with
    | mk kept panicked =>
      rw [hscan] at hv hl
      simp only [] at hv hl ⊢
      have h0 : kept.length = 0 + kept.length := by omega
      obtain ⟨hp2, r2, hw, g2, _⟩ := good_write g1 hu1 0 kept (Nat.zero_le _) (by omega) (by simpa using hv)
      rw [Nat.zero_add] at hw
      rw [hw]
      simp only [List.take_zero, List.nil_append] at g2
      cases panicked <;> simp [Res.Sat, g2]
  | err hp1 r1 => intro h; exact h
  | pidx hp1 r1 => intro h; exact h.elim
  | pcb hp1 r1 => intro h; exact h.elim
  | ub u => intro h; exact h.elim

end LS

namespace LS

/-- `Repr::shrink_to` (C13): text kept; capacity never grows (beyond the inline size), never
below `len`, never below `m` unless it already was; a heap target whose capacity exceeded
`max len m` lands on exactly that, or inline when it fits — shared or not -/
theorem shrinkTo_sat {ocf base st hp r t} (g : Good ocf base st hp r t) (rf : Refuse) (m : Nat) :
    (shrinkTo rf hp r m).Sat
      (fun _ hp' r' => Good ocf base st hp' r' t ∧
        capOf hp' r' ≤ max (capOf hp r) 16 ∧ t.length ≤ capOf hp' r' ∧ (m ≤ capOf hp' r' ∨ capOf hp' r' = capOf hp r) ∧
        (∀ a l, r = .heap a l → max l m < capOf hp r →
          (max l m ≤ 16 → ∃ raw, r' = .inl raw) ∧ (16 < max l m → capOf hp' r' = max l m ∧ ∃ a', r' = .heap a' l)) ∧
        (∀ raw, r = .inl raw → r' = r ∧ hp' = hp) ∧ (∀ s l, r = .stat s l → r' = r ∧ hp' = hp))
      (Unchanged hp r) Never Never := by
  have h16 := Tie.maxInline_eq
  have hcap0 := good_len_le_cap g
  unfold shrinkTo
  cases r with
  | inl raw =>
    refine ⟨g, by simp [capOf], hcap0, Or.inr rfl, ?_, fun _ _ => ⟨rfl, rfl⟩, ?_⟩ <;> intros <;> contradiction
  | stat s l =>
    refine ⟨g, by simp only [capOf]; omega, hcap0, Or.inr rfl, ?_, ?_, fun _ _ _ => ⟨rfl, rfl⟩⟩ <;> intros <;> contradiction
  | heap a l =>
    obtain ⟨b, hb, hlc, ht, htl, hdl, hrc, hcm⟩ := good_text_heap g
    have hcapr : capOf hp (.heap a l) = b.cap := by simp [capOf, hb]
    simp only [hb]
    by_cases hin : max l m ≤ MAX_INLINE
    · simp only [hin, if_true, hlc]
      obtain ⟨hp', hrel, g', _⟩ := good_release_inline g t g.valid (by omega)
      simp only [releaseRepr] at hrel
      rw [hrel, ht]
      refine ⟨g', by rw [hcapr]; simp only [capOf]; omega, by simp [capOf]; omega, ?_, ?_, ?_, ?_⟩
      · by_cases hm : m ≤ 16
        · left; simp [capOf]; exact hm
        · omega
      · intro a' l' he _
        injection he with he1 he2; subst he1; subst he2
        exact ⟨fun _ => ⟨_, rfl⟩, fun h => by omega⟩
      · intro raw he; cases he
      · intro s l' he; cases he
    · simp only [hin, if_false]
      by_cases hge : max l m ≥ b.cap
      · simp only [hge, if_true]
        refine ⟨g, by omega, hcap0, Or.inr rfl, ?_, ?_, ?_⟩
        · intro a' l' he hlt; injection he with he1 he2; subst he1; subst he2; omega
        · intro raw he; cases he
        · intro s l' he; cases he
      · simp only [hge, if_false]
        by_cases hu : b.rc = 1
        · simp only [hu, if_true]
          rcases good_realloc g b hb hu rf (max l m) (by omega) with ⟨hp1, he, hs, _⟩ | ⟨hp2, he, g2, hg, _⟩
          · rw [he]; exact ⟨rfl, hs⟩
          · rw [he]
            have hc2 : capOf hp2 (.heap hp.slots.length l) = max l m := by simp [capOf, hg]
            refine ⟨g2, by rw [hc2, hcapr]; omega, by rw [hc2]; omega, Or.inl (by rw [hc2]; omega), ?_, ?_, ?_⟩
            · intro a' l' he' _; injection he' with he1 he2; subst he1; subst he2
              exact ⟨fun h => by omega, fun _ => ⟨hc2, _, rfl⟩⟩
            · intro raw he'; cases he'
            · intro s l' he'; cases he'
        · simp only [hu, if_false, hlc, if_true]
          unfold heapWithCapacityFrom
          rw [if_pos ((capOk_iff _).2 (by omega)), ht]
          have := moveTo_alloc_sat g rf (max l m) (by omega) (by omega)
          rw [htl] at this
          revert this
          cases moveTo hp (.heap a l) l (hp.allocate rf (max l m) t) <;> simp only [Res.Sat, Never, imp_self, false_imp_iff]
          · intro ⟨g2, _, hc2, hr', _⟩
            refine ⟨g2, by rw [hc2, hcapr]; omega, by rw [hc2]; omega, Or.inl (by rw [hc2]; omega), ?_, ?_, ?_⟩
            · intro a' l' he' _; injection he' with he1 he2; subst he1; subst he2
              exact ⟨fun h => by omega, fun _ => ⟨hc2, _, hr'⟩⟩
            · intro raw he'; cases he'
            · intro s l' he'; cases he'
          · intro ⟨h, _⟩; exact h

end LS
