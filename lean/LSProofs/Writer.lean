import LSProofs.NumLemmas
/-!
# The unrolled decimal writer of `num_to_repr.rs` writes exactly `decimal`

`writer` is the model of the macro body (4 digits at a time through the generated look-up table
while `n ≥ 10000`, then the 2/1-digit tail, then the sign), over the *generated* LUT and literals.
-/
namespace LS

def dig (k : Nat) : UInt8 := UInt8.ofNat (k + 48)

theorem lut2_eq : ∀ d, d < 100 → lut2 d = [dig (d / 10), dig (d % 10)] := by
  have h : ∀ d, d < 100 → lut2 d = [UInt8.ofNat (48 + d / 10), UInt8.ofNat (48 + d % 10)] := by decide
  intro d hd; rw [h d hd]; simp [dig, Nat.add_comm]

theorem decDigits_small (f n : Nat) (h : n < 10) : decDigits (f + 1) n = [dig n] := by
  simp [decDigits, h, dig]

theorem decDigits_step (f n : Nat) (h : 10 ≤ n) : decDigits (f + 1) n = decDigits f (n / 10) ++ [dig (n % 10)] := by
  have : ¬ n < 10 := by omega
  simp [decDigits, this, dig]

/-- enough fuel is enough: the digits do not depend on the fuel -/
theorem decDigits_stable : ∀ (f1 f2 n : Nat), 1 ≤ f1 → 1 ≤ f2 → n < 10 ^ f1 → n < 10 ^ f2 → decDigits f1 n = decDigits f2 n := by
  intro f1
  induction f1 with
  | zero => intro f2 n h; omega
  | succ k ih =>
    intro f2 n _ h2 hn1 hn2
    cases f2 with
    | zero => omega
    | succ m =>
      by_cases hs : n < 10
      · rw [decDigits_small k n hs, decDigits_small m n hs]
      · have h10 : 10 ≤ n := by omega
        rw [decDigits_step k n h10, decDigits_step m n h10]
        have e1 : 10 ^ (k + 1) = 10 ^ k * 10 := Nat.pow_succ ..
        have e2 : 10 ^ (m + 1) = 10 ^ m * 10 := Nat.pow_succ ..
        have hk : 1 ≤ k := by
          rcases Nat.eq_zero_or_pos k with h | h
          · subst h; simp at hn1; omega
          · exact h
        have hm : 1 ≤ m := by
          rcases Nat.eq_zero_or_pos m with h | h
          · subst h; simp at hn2; omega
          · exact h
        rw [ih m (n / 10) hk hm (Nat.div_lt_of_lt_mul (by omega)) (Nat.div_lt_of_lt_mul (by omega))]

/-- four digits at once -/
theorem decDigits_four (n : Nat) (h : 10000 ≤ n) (hn : n < 10 ^ 20) :
    decDigits 40 n = decDigits 40 (n / 10000) ++
      [dig (n / 1000 % 10), dig (n / 100 % 10), dig (n / 10 % 10), dig (n % 10)] := by
  rw [decDigits_step 39 n (by omega), decDigits_step 38 (n / 10) (by omega),
      decDigits_step 37 (n / 10 / 10) (by omega), decDigits_step 36 (n / 10 / 10 / 10) (by omega)]
  have e : n / 10 / 10 / 10 / 10 = n / 10000 := by omega
  have e1 : n / 10 / 10 / 10 % 10 = n / 1000 % 10 := by omega
  have e2 : n / 10 / 10 % 10 = n / 100 % 10 := by omega
  rw [e, e1, e2]
  have hq : n / 10000 < 10 ^ 36 := by
    have : (10 : Nat) ^ 20 ≤ 10 ^ 36 := Nat.pow_le_pow_right (by omega) (by omega)
    have : n / 10000 ≤ n := Nat.div_le_self _ _
    omega
  rw [decDigits_stable 36 40 (n / 10000) (by omega) (by omega) hq (by
    have : (10 : Nat) ^ 36 ≤ 10 ^ 40 := Nat.pow_le_pow_right (by omega) (by omega)
    omega)]
  simp [List.append_assoc]

theorem writer4_spec : ∀ (fuel n : Nat) (acc : Bytes), n < 10000 ^ fuel → n < 10 ^ 20 →
    (writer4 fuel n acc).1 < 10000 ∧
    decDigits 40 (writer4 fuel n acc).1 ++ (writer4 fuel n acc).2 = decDigits 40 n ++ acc := by
  intro fuel
  induction fuel with
  | zero => intro n acc h _; simp at h; subst h; simp [writer4]
  | succ f ih =>
    intro n acc h hn
    simp only [writer4, Gen.writer_loopBound, Gen.writer_loopMod, Gen.writer_loopDiv, Gen.writer_remDiv, Gen.writer_remMod]
    by_cases hge : n ≥ 10000
    · simp only [hge, if_true]
      have hq : n / 10000 < 10000 ^ f := by
        apply Nat.div_lt_of_lt_mul
        have : 10000 ^ (f + 1) = 10000 ^ f * 10000 := Nat.pow_succ ..
        omega
      have hq2 : n / 10000 < 10 ^ 20 := by have := Nat.div_le_self n 10000; omega
      obtain ⟨h1, h2⟩ := ih (n / 10000) (lut2 (n % 10000 / 100) ++ lut2 (n % 10000 % 100) ++ acc) hq hq2
      refine ⟨h1, ?_⟩
      rw [h2, decDigits_four n hge hn, lut2_eq _ (by omega), lut2_eq _ (by omega)]
      have a1 : n % 10000 / 100 / 10 = n / 1000 % 10 := by omega
      have a2 : n % 10000 / 100 % 10 = n / 100 % 10 := by omega
      have a3 : n % 10000 % 100 / 10 = n / 10 % 10 := by omega
      have a4 : n % 10000 % 100 % 10 = n % 10 := by omega
      rw [a1, a2, a3, a4]; simp [List.append_assoc]
    · simp only [hge, if_false]
      exact ⟨by omega, trivial⟩

theorem writerTail_spec (n : Nat) (acc : Bytes) (h : n < 10000) : writerTail n acc = decDigits 40 n ++ acc := by
  simp only [writerTail, Gen.writer_tailBound, Gen.writer_tailDiv, Gen.writer_tailMod, Gen.writer_lastBound]
  by_cases h100 : n ≥ 100
  · simp only [h100, if_true]
    rw [lut2_eq _ (by omega)]
    by_cases h1000 : n / 100 < 10
    · simp only [h1000, if_true]
      rw [decDigits_step 39 n (by omega), decDigits_step 38 (n / 10) (by omega), decDigits_small 37 (n / 10 / 10) (by omega)]
      have e1 : n / 10 / 10 = n / 100 := by omega
      have e2 : n / 10 % 10 = n % 100 / 10 := by omega
      have e3 : n % 10 = n % 100 % 10 := by omega
      rw [e1, e2, e3]; simp [dig, List.append_assoc]
    · simp only [h1000, if_false]
      rw [lut2_eq _ (by omega)]
      rw [decDigits_step 39 n (by omega), decDigits_step 38 (n / 10) (by omega), decDigits_step 37 (n / 10 / 10) (by omega),
          decDigits_small 36 (n / 10 / 10 / 10) (by omega)]
      have e0 : n / 10 / 10 / 10 = n / 100 / 10 := by omega
      have e1 : n / 10 / 10 % 10 = n / 100 % 10 := by omega
      have e2 : n / 10 % 10 = n % 100 / 10 := by omega
      have e3 : n % 10 = n % 100 % 10 := by omega
      rw [e0, e1, e2, e3]; simp [List.append_assoc]
  · simp only [h100, if_false]
    by_cases h10 : n < 10
    · simp only [h10, if_true]; rw [decDigits_small 39 n h10]; simp [dig]
    · simp only [h10, if_false]
      rw [lut2_eq _ (by omega), decDigits_step 39 n (by omega), decDigits_small 38 (n / 10) (by omega)]
      simp

/-- **the writer produces exactly the decimal text**, for every magnitude a 64-bit type can hold -/
theorem writer_wide (neg : Bool) (n : Nat) (hn : n < 2 ^ 64) :
    writer true neg n = (if neg then [0x2D] else []) ++ decDigits 40 n := by
  have hn20 : n < 10 ^ 20 := by have : (2 : Nat) ^ 64 < 10 ^ 20 := by decide
                                omega
  have hf : n < 10000 ^ 20 := by have : (10 : Nat) ^ 20 ≤ 10000 ^ 20 := by decide
                                 omega
  obtain ⟨h1, h2⟩ := writer4_spec 20 n [] hf hn20
  simp only [writer, if_true]
  cases hw : writer4 20 n [] with
  | mk n' acc =>
    rw [hw] at h1 h2
    simp only [] at h1 h2 ⊢
    rw [writerTail_spec n' acc h1, h2]
    cases neg <;> simp

/-- the 8-bit types skip the 4-digit loop (`size_of::<$t>() >= 2` is false) -/
theorem writer_narrow (neg : Bool) (n : Nat) (hn : n < 10000) :
    writer false neg n = (if neg then [0x2D] else []) ++ decDigits 40 n := by
  simp only [writer, Bool.false_eq_true, if_false]
  rw [writerTail_spec n [] hn]
  cases neg <;> simp

/-- hence: what `to_lean_string` writes for an integer is what `Display` prints -/
theorem writer_eq_decimal (wide : Bool) (v : Int) (hv : v.natAbs < 2 ^ 64) (hnarrow : wide = false → v.natAbs < 10000) :
    writer wide (decide (v < 0)) v.natAbs = decimal v := by
  unfold decimal
  cases wide with
  | true => rw [writer_wide _ _ hv]; by_cases h : v < 0 <;> simp [h]
  | false => rw [writer_narrow _ _ (hnarrow rfl)]; by_cases h : v < 0 <;> simp [h]

end LS
