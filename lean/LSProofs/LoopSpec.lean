import LSProofs.TextSpec
/-!
# Iterator-driven operations (`extend`, `collect`, `write!`, `+=` loops) and the `retain` scan,
related to `String`'s behaviour
-/
namespace LS

/-- the items an iterator yields before it panics (all of them if it never does) -/
def consumed : List (Option Bytes) → List Bytes
  | [] => []
  | none :: _ => []
  | some s :: rest => s :: consumed rest

def panics : List (Option Bytes) → Bool
  | [] => false
  | none :: _ => true
  | some _ :: rest => panics rest

theorem panics_false_of_no_none : ∀ (l : List (Option Bytes)), (∀ x ∈ l, x ≠ none) → panics l = false
  | [], _ => rfl
  | none :: _, h => absurd rfl (h none (List.mem_cons_self ..))
  | some _ :: rest, h => panics_false_of_no_none rest (fun x hx => h x (List.mem_cons_of_mem _ hx))

theorem panics_true_of_none : ∀ (l : List (Option Bytes)), none ∈ l → panics l = true
  | [], h => by cases h
  | none :: _, _ => rfl
  | some _ :: rest, h => panics_true_of_none rest (by
      rcases List.mem_cons.1 h with h | h
      · cases h
      · exact h)

theorem consumed_of_no_none : ∀ (l : List (Option Bytes)), (∀ x ∈ l, x ≠ none) → consumed l = l.filterMap id
  | [], _ => rfl
  | none :: _, h => absurd rfl (h none (List.mem_cons_self ..))
  | some s :: rest, h => by
    simp only [consumed, List.filterMap_cons, id]
    rw [consumed_of_no_none rest (fun x hx => h x (List.mem_cons_of_mem _ hx))]

theorem consumed_map_some (l : List Bytes) : consumed (l.map some) = l := by
  induction l with
  | nil => rfl
  | cons a l ih => simp [consumed, ih]

theorem panics_map_some (l : List Bytes) : panics (l.map some) = false := by
  induction l with
  | nil => rfl
  | cons a l ih => simpa [panics] using ih

/-- `for item in iter { self.push_str(item) }` — what `String::extend` does: every item consumed
before a panic is appended, in order; a refused allocation stops *between* items -/
theorem pushLoop_text {ocf base st} (rf : Refuse) : ∀ (items : List (Option Bytes)) (hp : Heap) (r : Handle) (t : Bytes),
    Good ocf base st hp r t → (∀ s, some s ∈ items → Valid s) →
    (pushLoop rf st hp r items).Sat
      (fun _ hp' r' => Good ocf base st hp' r' (t ++ (consumed items).flatten) ∧ panics items = false)
      (fun hp' r' => ∃ k, k < (consumed items).length ∧ Good ocf base st hp' r' (t ++ ((consumed items).take k).flatten))
      Never
      (fun hp' r' => Good ocf base st hp' r' (t ++ (consumed items).flatten) ∧ panics items = true) := by
  intro items
  induction items with
  | nil => intro hp r t g _; simpa [pushLoop, Res.Sat, consumed, panics] using g
  | cons it rest ih =>
    intro hp r t g hv
    cases it with
    | none => simpa [pushLoop, Res.Sat, consumed, panics] using g
    | some s =>
      have hs := pushStr_sat g rf s (hv s (List.mem_cons_self ..))
      simp only [pushLoop]
      revert hs
      cases pushStr rf st hp r s with
      | ok v hp1 r1 =>
        intro g1
        have := ih hp1 r1 (Spec.push_str t s) g1 (fun s' hs' => hv s' (List.mem_cons_of_mem _ hs'))
        revert this
        simp only [Spec.push_str, consumed, panics, List.flatten_cons, List.length_cons]
        cases pushLoop rf st hp1 r1 rest with
        | ok v2 hp2 r2 => intro ⟨g2, hp⟩; exact ⟨by simpa [List.append_assoc] using g2, hp⟩
        | err hp2 r2 =>
          intro ⟨k, hk, g2⟩
          exact ⟨k + 1, by omega, by simpa [List.take_succ_cons, List.append_assoc] using g2⟩
        | pidx hp2 r2 => intro hf; exact hf.elim
        | pcb hp2 r2 => intro ⟨g2, hp⟩; exact ⟨by simpa [List.append_assoc] using g2, hp⟩
        | ub u => intro hf; exact hf.elim
      | err hp1 r1 =>
        intro hu
        exact ⟨0, by simp [consumed], by simpa using unchanged_good g hu⟩
      | pidx hp1 r1 => intro hf; exact hf.elim
      | pcb hp1 r1 => intro hf; exact hf.elim
      | ub u => intro hf; exact hf.elim

/-- `extend` (strs / `write!` / `+=` loops) at world level -/
theorem extendStrs_refines {rf : Refuse} {w : World} {h : Nat} {t : Bytes} (hw : Wf w) (ht : w.text h = some t)
    (items : List (Option Bytes)) (hv : ∀ s, some s ∈ items → Valid s) :
    ((step rf w (.extendStrs h items)).2 = (if panics items then .panicCb else .ok .unit) ∧
      (step rf w (.extendStrs h items)).1.text h = some (t ++ (consumed items).flatten)) ∨
    ((step rf w (.extendStrs h items)).2 = .panicAlloc ∧
      ∃ k, k < (consumed items).length ∧ (step rf w (.extendStrs h items)).1.text h = some (t ++ ((consumed items).take k).flatten)) := by
  obtain ⟨r, hg, g⟩ := good_of_text hw ht
  have hs := pushLoop_text rf items w.heap r t g hv
  simp only [step, hg]
  revert hs
  cases pushLoop rf w.statics w.heap r items with
  | ok v hp1 r1 => intro ⟨g1, hp⟩; left; rw [hp]; exact ⟨rfl, text_put_self g1⟩
  | err hp1 r1 => intro ⟨k, hk, g1⟩; right; exact ⟨rfl, k, hk, text_put_self g1⟩
  | pidx hp1 r1 => intro hf; exact hf.elim
  | pcb hp1 r1 => intro ⟨g1, hp⟩; left; rw [hp]; exact ⟨rfl, text_put_self g1⟩
  | ub u => intro hf; exact hf.elim

/-- `collect` from strs: the destination reads the concatenation, or nothing is produced -/
theorem collectStrs_refines {rf : Refuse} {w : World} {d : Nat} (hw : Wf w) (hd : w.get d = none)
    (items : List (Option Bytes)) (hv : ∀ s, some s ∈ items → Valid s) :
    ((step rf w (.collectStrs d items)).2 = .ok .unit ∧
      (step rf w (.collectStrs d items)).1.text d = some (consumed items).flatten ∧ panics items = false) ∨
    ((step rf w (.collectStrs d items)).2 ≠ .ok .unit ∧ (step rf w (.collectStrs d items)).1.get d = none) := by
  have g0 : Good (oc w d) w.heap w.statics w.heap (.inl inlEmpty) [] :=
    good_inline_fresh (linv_empty hw hd) [] valid_nil (by simp)
  have hs := pushLoop_text rf items w.heap (.inl inlEmpty) [] g0 hv
  simp only [step, hd, Option.isSome_none, Bool.false_eq_true, if_false]
  revert hs
  cases pushLoop rf w.statics w.heap (.inl inlEmpty) items with
  | ok v hp1 r1 =>
    intro ⟨g1, hp⟩; left
    simp only [List.nil_append] at g1
    exact ⟨rfl, text_put_self g1, hp⟩
  | err hp1 r1 =>
    intro _; right
    simp only [finishTemp]; cases releaseRepr hp1 r1 <;> simp [World.get_put_self, hd]
  | pidx hp1 r1 => intro hf; exact hf.elim
  | pcb hp1 r1 =>
    intro _; right
    simp only [finishTemp]; cases releaseRepr hp1 r1 <;> simp [World.get_put_self, hd]
  | ub u => intro hf; exact hf.elim

/-- the byte-level scan of `retain` is the character-level filter of `String::retain`
(`Spec.retain`: split into characters by lead-byte width, keep those the predicate accepts, stop at
a panic keeping what was kept) -/
theorem retainScan_eq_chunks : ∀ (fuel : Nat) (rest : Bytes) (answers : List (Option Bool)) (acc : Bytes),
    rest.length ≤ fuel → Valid rest →
    retainScan fuel rest answers acc = Spec.retainChunks (Spec.chunks fuel rest) answers acc := by
  intro fuel
  induction fuel with
  | zero =>
    intro rest answers acc hl _
    have : rest = [] := by cases rest <;> simp at hl ⊢
    subst this; simp [retainScan, Spec.chunks, Spec.retainChunks]
  | succ f ih =>
    intro rest answers acc hl hv
    cases rest with
    | nil => simp [retainScan, Spec.chunks, Spec.retainChunks]
    | cons b bs =>
      obtain ⟨h1, _, h3, h4⟩ := valid_first_char hv b bs rfl
      simp only [retainScan, Spec.chunks, Spec.retainChunks]
      cases answers.headD (some true) with
      | none => rfl
      | some keep =>
        simp only []
        apply ih
        · simp only [List.length_drop, List.length_cons] at hl ⊢; omega
        · exact h3

theorem retain_is_string_retain (t : Bytes) (hv : Valid t) (answers : List (Option Bool)) :
    retainScan t.length t answers [] = Spec.retain t answers := by
  unfold Spec.retain
  exact retainScan_eq_chunks t.length t answers [] (Nat.le_refl _) hv

/-- `Extend<char>` with any size hint: `let _ = try_reserve(hint)` (a refusal is ignored and leaves
everything as it was), then one `push` per item -/
theorem extendChars_refines {rf : Refuse} {w : World} {h : Nat} {t : Bytes} (hw : Wf w) (ht : w.text h = some t)
    (hint : Nat) (items : List (Option Bytes)) (hv : ∀ s, some s ∈ items → Valid s) :
    ((step rf w (.extendChars h hint items)).2 = (if panics items then .panicCb else .ok .unit) ∧
      (step rf w (.extendChars h hint items)).1.text h = some (t ++ (consumed items).flatten)) ∨
    ((step rf w (.extendChars h hint items)).2 = .panicAlloc ∧
      ∃ k, k < (consumed items).length ∧
        (step rf w (.extendChars h hint items)).1.text h = some (t ++ ((consumed items).take k).flatten)) := by
  obtain ⟨r, hg, g⟩ := good_of_text hw ht
  have hr := reserve_sat g rf hint
  simp only [step, hg]
  -- after the (possibly refused) reservation the handle is still good for `t`
  have key : ∀ hp1 r1, Good (oc w h) w.heap w.statics hp1 r1 t →
      ((finish w h true (fun _ => Val.unit) (pushLoop rf w.statics hp1 r1 items)).2 = (if panics items then .panicCb else .ok .unit) ∧
        (finish w h true (fun _ => Val.unit) (pushLoop rf w.statics hp1 r1 items)).1.text h = some (t ++ (consumed items).flatten)) ∨
      ((finish w h true (fun _ => Val.unit) (pushLoop rf w.statics hp1 r1 items)).2 = .panicAlloc ∧
        ∃ k, k < (consumed items).length ∧
          (finish w h true (fun _ => Val.unit) (pushLoop rf w.statics hp1 r1 items)).1.text h = some (t ++ ((consumed items).take k).flatten)) := by
    intro hp1 r1 g1
    have hs := pushLoop_text rf items hp1 r1 t g1 hv
    revert hs
    cases pushLoop rf w.statics hp1 r1 items with
    | ok v hp2 r2 => intro ⟨g2, hp⟩; left; rw [hp]; exact ⟨rfl, text_put_self g2⟩
    | err hp2 r2 => intro ⟨k, hk, g2⟩; right; exact ⟨rfl, k, hk, text_put_self g2⟩
    | pidx hp2 r2 => intro hf; exact hf.elim
    | pcb hp2 r2 => intro ⟨g2, hp⟩; left; rw [hp]; exact ⟨rfl, text_put_self g2⟩
    | ub u => intro hf; exact hf.elim
  revert hr
  cases reserve rf w.statics w.heap r hint with
  | ok v hp1 r1 => intro ⟨g1, _, _⟩; exact key hp1 r1 g1
  | err hp1 r1 => intro hu; exact key hp1 r1 (unchanged_good g hu)
  | pidx hp1 r1 => intro hf; exact hf.elim
  | pcb hp1 r1 => intro hf; exact hf.elim
  | ub u => intro hf; exact hf.elim


end LS
