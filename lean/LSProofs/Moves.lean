import LSProofs.Local
/-!
# Moves: the few ways an operation changes (heap, handle), each preserving `Good`
-/
namespace LS

/-- `r` reads the valid text `t` in `hp`, consistently with the other handles -/
structure Good (ocf : Nat → Nat) (base : Heap) (st : List Bytes) (hp : Heap) (r : Handle) (t : Bytes) : Prop where
  inv : LInv ocf base hp (ownOf (some r))
  ok : HandleOk hp st r
  text : textOf hp st r = .ok t
  valid : Valid t

/-- exclusive ownership of the storage: inline, or a heap block whose count is 1 -/
def Unique (hp : Heap) : Handle → Prop
  | .inl _ => True
  | .heap a _ => ∃ b, hp.get? a = some b ∧ b.rc = 1
  | .stat _ _ => False

def capOf (hp : Heap) : Handle → Nat
  | .inl _ => 16
  | .heap a _ => match hp.get? a with | some b => b.cap | none => 0
  | .stat _ l => l

theorem get?_congr {hp hp' : Heap} (h : hp'.slots = hp.slots) (a : Nat) : hp'.get? a = hp.get? a := by
  unfold Heap.get?; rw [h]

theorem textOf_congr {hp hp' : Heap} (h : hp'.slots = hp.slots) (st : List Bytes) (r : Handle) :
    textOf hp' st r = textOf hp st r := by
  cases r <;> simp only [textOf, get?_congr h]

theorem handleOk_congr {hp hp' : Heap} (h : hp'.slots = hp.slots) (st : List Bytes) (r : Handle) :
    HandleOk hp st r → HandleOk hp' st r := by
  cases r <;> simp only [HandleOk, get?_congr h] <;> exact id

theorem linv_congr {ocf base hp hp' own} (h : hp'.slots = hp.slots) (hl : LInv ocf base hp own) : LInv ocf base hp' own := by
  refine ⟨?_, ?_, ?_, ?_⟩
  · intro a b hb; rw [get?_congr h] at hb; exact hl.blocks a b hb
  · intro a ha b hb; rw [get?_congr h]; exact hl.others a ha b hb
  · intro a ha; rw [h] at ha; exact hl.fresh a ha
  · rw [h]; exact hl.grow

/-- the request counter and the event log are irrelevant to `Good` -/
theorem good_congr {ocf base st hp hp' r t} (h : hp'.slots = hp.slots) (g : Good ocf base st hp r t) :
    Good ocf base st hp' r t :=
  ⟨linv_congr h g.inv, handleOk_congr h st r g.ok, by rw [textOf_congr h]; exact g.text, g.valid⟩

theorem good_len {ocf base st hp r t} (g : Good ocf base st hp r t) : r.len = t.length := by
  have ht := g.text
  have hk := g.ok
  cases r with
  | inl raw =>
    obtain ⟨hl, _, hlast⟩ := hk
    simp only [textOf, Except.ok.injEq] at ht
    subst ht
    simp only [Handle.len, List.length_take]
    have : inlLen raw ≤ 16 := by unfold inlLen; have := Tie.maxInline_eq; omega
    omega
  | heap a l =>
    obtain ⟨b, hb, hlc, _⟩ := hk
    simp only [textOf, hb, hlc, if_true, Except.ok.injEq] at ht
    subst ht
    have := (g.inv.blocks a b hb).2.2.2.1
    simp [Handle.len, List.length_take]; omega
  | stat s l =>
    obtain ⟨t', hs, hl, _⟩ := hk
    simp only [textOf, hs, hl, if_true, Except.ok.injEq] at ht
    subst ht
    simp [Handle.len, List.length_take]; omega

theorem good_len_le_cap {ocf base st hp r t} (g : Good ocf base st hp r t) : t.length ≤ capOf hp r := by
  have hlen := good_len g
  have hk := g.ok
  cases r with
  | inl raw =>
    simp only [Handle.len] at hlen
    have : inlLen raw ≤ 16 := by unfold inlLen; have := Tie.maxInline_eq; omega
    simp [capOf]; omega
  | heap a l =>
    obtain ⟨b, hb, hlc, _⟩ := hk
    simp only [Handle.len] at hlen
    simp [capOf, hb]; omega
  | stat s l => simp only [Handle.len] at hlen; simp [capOf]; omega

end LS

namespace LS

/-! ## Inline set_len -/

theorem inlLen_le (raw : Bytes) : inlLen raw ≤ 16 := by
  unfold inlLen; have := Tie.maxInline_eq; omega

theorem inlLen_of_last_tag (raw : Bytes) (n : Nat) (hn : n < 16) (h : inlLast raw = n + 192) : inlLen raw = n := by
  have hm := Tie.maxInline_eq
  have hk : Gen.mask1100 = 192 := by decide
  unfold inlLen wrappingSub; rw [h, hm, hk]; unfold USIZE; split <;> omega

theorem inlLen_of_last_text (raw : Bytes) (h : inlLast raw < 0xC0) : inlLen raw = 16 := by
  have hm := Tie.maxInline_eq
  have hk : Gen.mask1100 = 192 := by decide
  unfold inlLen wrappingSub; rw [hm, hk]; unfold USIZE; split <;> omega

theorem inlLast_set (raw : Bytes) (x : UInt8) (hl : raw.length = 16) : inlLast (raw.set 15 x) = x.toNat := by
  unfold inlLast
  rw [List.getD_eq_getElem?_getD, List.getElem?_set_self (by omega)]; rfl

/-- what `InlineBuffer::set_len` does to a 16-byte buffer whose first `n` bytes are valid text -/
theorem inlSetLen_spec (raw : Bytes) (n : Nat) (hl : raw.length = 16) (hn : n ≤ 16) (hv : Valid (raw.take n)) :
    (inlSetLen raw n).length = 16 ∧ inlLen (inlSetLen raw n) = n ∧ (inlSetLen raw n).take n = raw.take n ∧
    inlLast (inlSetLen raw n) < 0xD0 := by
  have hm := Tie.maxInline_eq
  unfold inlSetLen
  rw [hm]
  by_cases h16 : n < 16
  · rw [if_pos h16]
    have hlast : inlLast (raw.set (16 - 1) (inlTag n)) = n + 192 := by
      rw [inlLast_set raw _ hl, inlTag_toNat n h16]
    refine ⟨by simp [hl], inlLen_of_last_tag _ n h16 hlast, ?_, by omega⟩
    exact List.take_set_of_le (by omega)
  · rw [if_neg h16]
    have hn16 : n = 16 := by omega
    subst hn16
    have htake : raw.take 16 = raw := List.take_of_length_le (by omega)
    rw [htake] at hv
    have hlast := inlLast_of_full raw hv hl
    exact ⟨hl, inlLen_of_last_text raw hlast, rfl, by omega⟩

theorem valid_take_of_le {t : Bytes} : Valid t → True := fun _ => trivial

/-! ## M1: handle-local length change (`truncate`, `pop`, `clear` on an owner) -/

theorem onBlock_setLen (a : Nat) (r r' : Handle) (n : Nat) (h : setLen r n = .ok r') :
    onBlock a (some r') = onBlock a (some r) := by
  cases r with
  | inl raw => simp only [setLen] at h; split at h <;> (try cases h); rfl
  | heap a' l => simp only [setLen] at h; split at h <;> (try cases h); rfl
  | stat s l => simp only [setLen] at h; split at h <;> (try cases h); rfl

theorem linv_same_block {ocf base hp r r'} (h : ∀ a, onBlock a (some r') = onBlock a (some r))
    (hl : LInv ocf base hp (ownOf (some r))) : LInv ocf base hp (ownOf (some r')) :=
  linv_own_congr (fun a => h a) hl

theorem setLen_inl (raw : Bytes) (n : Nat) (h : n ≤ 16) : setLen (.inl raw) n = .ok (.inl (inlSetLen raw n)) := by
  have := Tie.maxInline_eq
  simp only [setLen]; rw [if_pos (by omega)]

theorem setLen_heap (a l n : Nat) (h : n ≤ MAX_LEN) : setLen (.heap a l) n = .ok (.heap a n) := by
  simp only [setLen]; rw [if_pos h]

theorem setLen_stat (s l n : Nat) (h : n ≤ STATIC_MAX_LEN) : setLen (.stat s l) n = .ok (.stat s n) := by
  simp only [setLen]; rw [if_pos h]

theorem good_setLen {ocf base st hp r t} (g : Good ocf base st hp r t) (n : Nat) (hn : n ≤ t.length)
    (hv : Valid (t.take n)) : ∃ r', setLen r n = .ok r' ∧ Good ocf base st hp r' (t.take n) ∧
      capOf hp r' = (match r with | .stat _ _ => n | _ => capOf hp r) ∧ (Unique hp r → Unique hp r') := by
  have ht := g.text
  have hk := g.ok
  have hML := Tie.maxLen_eq
  have hm := Tie.maxInline_eq
  cases r with
  | inl raw =>
    obtain ⟨hl, _, hlast⟩ := hk
    simp only [textOf, Except.ok.injEq] at ht
    have hlen : t.length ≤ 16 := by rw [← ht, List.length_take]; have := inlLen_le raw; omega
    have hn16 : n ≤ 16 := by omega
    have hnl : n ≤ inlLen raw := by rw [← ht, List.length_take] at hn; omega
    have htk : raw.take n = t.take n := by rw [← ht, List.take_take, Nat.min_eq_left hnl]
    obtain ⟨h1, h2, h3, h4⟩ := inlSetLen_spec raw n hl hn16 (by rw [htk]; exact hv)
    refine ⟨.inl (inlSetLen raw n), setLen_inl raw n hn16, ⟨?_, ?_, ?_, hv⟩, rfl, fun _ => trivial⟩
    · exact linv_same_block (r := Handle.inl raw) (fun a => rfl) g.inv
    · exact ⟨h1, by rw [h2, h3, htk]; exact hv, h4⟩
    · simp only [textOf, h2, h3, htk]
  | heap a l =>
    obtain ⟨b, hb, hlc, _⟩ := hk
    simp only [textOf, hb, hlc, if_true, Except.ok.injEq] at ht
    have hbk := g.inv.blocks a b hb
    have hnl : n ≤ l := by rw [← ht, List.length_take] at hn; omega
    have htk : b.data.take n = t.take n := by rw [← ht, List.take_take, Nat.min_eq_left hnl]
    have hcm := hbk.2.2.1
    refine ⟨.heap a n, setLen_heap a l n (by omega), ⟨?_, ?_, ?_, hv⟩, by simp [capOf], fun h => h⟩
    · exact linv_same_block (r := Handle.heap a l) (fun a => rfl) g.inv
    · exact ⟨b, hb, by omega, by rw [htk]; exact hv⟩
    · simp only [textOf, hb]; rw [if_pos (by omega), htk]
  | stat s l =>
    obtain ⟨t', hs, hl, _, hmax⟩ := hk
    simp only [textOf, hs, hl, if_true, Except.ok.injEq] at ht
    have hnl : n ≤ l := by rw [← ht, List.length_take] at hn; omega
    have htk : t'.take n = t.take n := by rw [← ht, List.take_take, Nat.min_eq_left hnl]
    refine ⟨.stat s n, setLen_stat s l n (by omega), ⟨?_, ?_, ?_, hv⟩, by simp [capOf], fun h => h⟩
    · exact linv_same_block (r := Handle.stat s l) (fun a => rfl) g.inv
    · exact ⟨t', hs, by omega, by rw [htk]; exact hv, hmax⟩
    · simp only [textOf, hs]; rw [if_pos (by omega), htk]

end LS

namespace LS

/-! ## M2: in-place write by the exclusive owner, then `set_len` -/

theorem writeAt_length (d : Bytes) (off : Nat) (s : Bytes) (h : off + s.length ≤ d.length) :
    (writeAt d off s).length = d.length := by
  simp [writeAt]; omega

theorem writeAt_take (d : Bytes) (off : Nat) (s : Bytes) (h : off ≤ d.length) :
    (writeAt d off s).take (off + s.length) = d.take off ++ s := by
  unfold writeAt
  rw [List.append_assoc, List.take_append]
  simp [List.length_take, Nat.min_eq_left h]
  exact List.take_of_length_le (by simp; omega)

theorem setBlock_slots_length (hp : Heap) (a : Nat) (b : Block) : (hp.setBlock a b).slots.length = hp.slots.length := by
  simp [Heap.setBlock]

/-- replacing the data of a block nobody else points at -/
theorem linv_setBlock {ocf base hp own a} {b b' : Block} (hl : LInv ocf base hp own)
    (hb : hp.get? a = some b) (hrc : b.rc = 1) (hown : own a = 1) (h1 : b'.rc = b.rc) (h2 : b'.cap = b.cap)
    (h3 : b'.size = b.size) (h4 : b'.data.length = b'.cap) : LInv ocf base (hp.setBlock a b') own := by
  have hbk := hl.blocks a b hb
  have hoc : ocf a = 0 := by have := hbk.1; omega
  refine ⟨?_, ?_, ?_, ?_⟩
  · intro a' b2 hb2
    by_cases he : a' = a
    · subst he
      rw [get?_setBlock_same (get?_lt hb)] at hb2
      injection hb2 with hb2; subst hb2
      obtain ⟨k1, k2, k3, k4, k5⟩ := hbk
      exact ⟨by omega, by omega, by omega, h4, by omega⟩
    · rw [get?_setBlock_other he] at hb2
      exact hl.blocks a' b2 hb2
  · intro a' ha' b2 hb2
    have hne : a' ≠ a := by intro e; subst e; omega
    rw [get?_setBlock_other hne]
    exact hl.others a' ha' b2 hb2
  · intro a' ha'; rw [setBlock_slots_length] at ha'; exact hl.fresh a' ha'
  · rw [setBlock_slots_length]; exact hl.grow

theorem good_write {ocf base st hp r t} (g : Good ocf base st hp r t) (hu : Unique hp r)
    (off : Nat) (s : Bytes) (hoff : off ≤ t.length) (hcap : off + s.length ≤ capOf hp r)
    (hv : Valid (t.take off ++ s)) :
    ∃ hp' r', writeThenSetLen hp r off s (off + s.length) = .ok () hp' r' ∧
      Good ocf base st hp' r' (t.take off ++ s) ∧ Unique hp' r' ∧ capOf hp' r' = capOf hp r ∧
      hp'.reqs = hp.reqs ∧ hp'.log = hp.log ∧ hp'.slots.length = hp.slots.length ∧
      (∀ a, onBlock a (some r') = onBlock a (some r)) := by
  have ht := g.text
  have hk := g.ok
  have hm := Tie.maxInline_eq
  cases r with
  | stat s' l => exact absurd hu (by simp [Unique])
  | inl raw =>
    obtain ⟨hl, _, hlast⟩ := hk
    simp only [textOf, Except.ok.injEq] at ht
    simp only [capOf] at hcap
    have htl : t.length ≤ inlLen raw := by rw [← ht, List.length_take]; omega
    have hoffl : off ≤ inlLen raw := by omega
    have htko : raw.take off = t.take off := by rw [← ht, List.take_take, Nat.min_eq_left hoffl]
    have hwl : (writeAt raw off s).length = 16 := by rw [writeAt_length raw off s (by omega)]; exact hl
    have hwt : (writeAt raw off s).take (off + s.length) = t.take off ++ s := by
      rw [writeAt_take raw off s (by omega), htko]
    obtain ⟨h1, h2, h3, h4⟩ := inlSetLen_spec (writeAt raw off s) (off + s.length) hwl hcap (by rw [hwt]; exact hv)
    refine ⟨hp, .inl (inlSetLen (writeAt raw off s) (off + s.length)), ?_, ⟨?_, ?_, ?_, hv⟩, trivial, rfl, rfl, rfl, rfl, fun a => rfl⟩
    · simp only [writeThenSetLen, writeBytes]
      rw [if_pos ⟨by omega, by omega⟩]
      simp only [setLen_inl _ _ hcap]
    · exact linv_same_block (r := Handle.inl raw) (fun a => rfl) g.inv
    · exact ⟨h1, by rw [h2, h3, hwt]; exact hv, h4⟩
    · simp only [textOf, h2, h3, hwt]
  | heap a l =>
    obtain ⟨b, hb, hlc, _⟩ := hk
    obtain ⟨b0, hb0, hrc⟩ := hu
    rw [hb] at hb0; injection hb0 with hb0; subst hb0
    simp only [textOf, hb, hlc, if_true, Except.ok.injEq] at ht
    simp only [capOf, hb] at hcap
    have hbk := g.inv.blocks a b hb
    obtain ⟨k1, k2, k3, k4, k5⟩ := hbk
    have htl : t.length ≤ l := by rw [← ht, List.length_take]; omega
    have hoffl : off ≤ l := by omega
    have htko : b.data.take off = t.take off := by rw [← ht, List.take_take, Nat.min_eq_left hoffl]
    let b' : Block := { b with data := writeAt b.data off s }
    have hwl : b'.data.length = b'.cap := by
      show (writeAt b.data off s).length = b.cap
      rw [writeAt_length b.data off s (by omega)]; exact k4
    have hwt : b'.data.take (off + s.length) = t.take off ++ s := by
      show (writeAt b.data off s).take (off + s.length) = _
      rw [writeAt_take b.data off s (by omega), htko]
    have hg' : (hp.setBlock a b').get? a = some b' := get?_setBlock_same (get?_lt hb)
    refine ⟨hp.setBlock a b', .heap a (off + s.length), ?_, ⟨?_, ?_, ?_, hv⟩, ⟨b', hg', hrc⟩, ?_, rfl, rfl,
      setBlock_slots_length _ _ _, fun a => rfl⟩
    · simp only [writeThenSetLen, writeBytes, Heap.write, hb]
      rw [if_neg (by omega), if_neg (by omega)]
      simp only [setLen_heap a l _ (by omega : off + s.length ≤ MAX_LEN)]
      rfl
    · exact linv_same_block (r := Handle.heap a l) (fun a => rfl)
        (linv_setBlock g.inv hb hrc (by simp [ownOf, onBlock]) rfl rfl rfl hwl)
    · exact ⟨b', hg', hcap, by rw [hwt]; exact hv⟩
    · simp only [textOf, hg']; rw [if_pos hcap, hwt]
    · simp only [capOf, hg', hb]; rfl

end LS

namespace LS

/-! ## Allocation, release, reallocation under `LInv` -/

def delta (a : Nat) : Nat → Nat := fun x => if x = a then 1 else 0

theorem get?_append_left {hp hp' : Heap} {s : Slot} (h : hp'.slots = hp.slots ++ [s]) {a : Nat} (ha : a < hp.slots.length) :
    hp'.get? a = hp.get? a := by
  unfold Heap.get?; rw [h, List.getElem?_append_left ha]

theorem get?_append_new {hp hp' : Heap} {b : Block} (h : hp'.slots = hp.slots ++ [.live b]) :
    hp'.get? hp.slots.length = some b := by
  unfold Heap.get?; rw [h, List.getElem?_append_right (Nat.le_refl _)]; simp

theorem get?_none_of_ge {hp : Heap} {a : Nat} (h : hp.slots.length ≤ a) : hp.get? a = none := by
  unfold Heap.get?; rw [List.getElem?_eq_none h]

theorem linv_allocate {ocf base hp hp' own} (hl : LInv ocf base hp own) (cap : Nat) (init : Bytes)
    (hc : cap ≤ MAX_LEN) (hi : init.length ≤ cap)
    (hs : hp'.slots = hp.slots ++ [.live { rc := 1, cap := cap, size := HEADER + cap, data := padTo cap init }]) :
    LInv ocf base hp' (fun x => own x + delta hp.slots.length x) := by
  have hlen : hp'.slots.length = hp.slots.length + 1 := by rw [hs]; simp
  refine ⟨?_, ?_, ?_, ?_⟩
  · intro a b hb
    rcases Nat.lt_trichotomy a hp.slots.length with hlt | heq | hgt
    · rw [get?_append_left hs hlt] at hb
      have := hl.blocks a b hb
      simp only [delta]; rw [if_neg (by omega)]; simpa using this
    · subst heq
      rw [get?_append_new hs] at hb
      injection hb with hb; subst hb
      obtain ⟨f1, f2⟩ := hl.fresh hp.slots.length (Nat.le_refl _)
      simp only [delta, if_true]
      exact ⟨by simp [f1, f2], by simp, hc, padTo_length cap init hi, rfl⟩
    · rw [get?_none_of_ge (by omega)] at hb; cases hb
  · intro a ha b hb
    have hlt : a < hp.slots.length := by
      rcases Nat.lt_or_ge a hp.slots.length with h | h
      · exact h
      · have := (hl.fresh a h).1; omega
    rw [get?_append_left hs hlt]
    exact hl.others a ha b hb
  · intro a ha
    obtain ⟨f1, f2⟩ := hl.fresh a (by omega)
    simp only [delta]; rw [if_neg (by omega)]; exact ⟨f1, by simp [f2]⟩
  · have := hl.grow; omega

theorem get?_set_freed_same {hp : Heap} {a : Nat} {lg : List Ev} :
    ({ hp with slots := hp.slots.set a .freed, log := lg } : Heap).get? a = none := by
  unfold Heap.get?
  simp only []
  rcases Nat.lt_or_ge a hp.slots.length with h | h
  · rw [List.getElem?_set_self h]
  · rw [List.getElem?_eq_none (by simpa using h)]

theorem get?_set_freed_other {hp : Heap} {a x : Nat} {lg : List Ev} (hne : x ≠ a) :
    ({ hp with slots := hp.slots.set a .freed, log := lg } : Heap).get? x = hp.get? x := by
  unfold Heap.get?
  simp only []
  rw [List.getElem?_set_ne (Ne.symm hne)]

theorem linv_release {ocf base hp own a b} (hl : LInv ocf base hp own) (hb : hp.get? a = some b) (hown : 1 ≤ own a) :
    ∃ hp', hp.release a = .ok hp' ∧ LInv ocf base hp' (fun x => own x - delta a x) ∧
      hp'.reqs = hp.reqs ∧ hp'.slots.length = hp.slots.length ∧ (∀ x, x ≠ a → hp'.get? x = hp.get? x) ∧
      (2 ≤ b.rc → hp'.log = hp.log ∧ hp'.get? a = some { b with rc := b.rc - 1 }) ∧
      (b.rc = 1 → hp'.log = .free b.size :: hp.log ∧ hp'.get? a = none) := by
  obtain ⟨k1, k2, k3, k4, k5⟩ := hl.blocks a b hb
  obtain ⟨hp', hr⟩ := release_total hb k2 k5
  refine ⟨hp', hr, ?_⟩
  cases release_ok hr with
  | freed b0 hb0 hrc hsz he =>
    rw [hb] at hb0; injection hb0 with hb0; subst hb0
    subst he
    have hoc : ocf a = 0 := by omega
    refine ⟨⟨?_, ?_, ?_, ?_⟩, rfl, by simp, fun x hx => get?_set_freed_other hx, fun h => by omega,
      fun _ => ⟨rfl, get?_set_freed_same⟩⟩
    · intro x bx hbx
      by_cases hx : x = a
      · subst hx; rw [get?_set_freed_same] at hbx; cases hbx
      · rw [get?_set_freed_other hx] at hbx
        have := hl.blocks x bx hbx
        simp only [delta]; rw [if_neg hx]; simpa using this
    · intro x hx bx hbx
      have hne : x ≠ a := by intro e; subst e; omega
      rw [get?_set_freed_other hne]; exact hl.others x hx bx hbx
    · intro x hx
      have hx' : hp.slots.length ≤ x := by simpa using hx
      obtain ⟨f1, f2⟩ := hl.fresh x hx'
      exact ⟨f1, by simp [f2]⟩
    · simpa using hl.grow
  | dec b0 hb0 hrc he =>
    rw [hb] at hb0; injection hb0 with hb0; subst hb0
    subst he
    refine ⟨⟨?_, ?_, ?_, ?_⟩, rfl, setBlock_slots_length _ _ _, fun x hx => get?_setBlock_other hx,
      fun _ => ⟨rfl, get?_setBlock_same (get?_lt hb)⟩, fun h => by omega⟩
    · intro x bx hbx
      by_cases hx : x = a
      · subst hx
        rw [get?_setBlock_same (get?_lt hb)] at hbx
        injection hbx with hbx; subst hbx
        simp only [delta, if_true]
        exact ⟨by simp; omega, by simp; omega, k3, k4, k5⟩
      · rw [get?_setBlock_other hx] at hbx
        have := hl.blocks x bx hbx
        simp only [delta]; rw [if_neg hx]; simpa using this
    · intro x hx bx hbx
      by_cases hxa : x = a
      · subst hxa
        rw [get?_setBlock_same (get?_lt hb)]
        obtain ⟨b', hb', hc, hd⟩ := hl.others x hx bx hbx
        rw [hb] at hb'; injection hb' with hb'; subst hb'
        exact ⟨_, rfl, hc, hd⟩
      · rw [get?_setBlock_other hxa]; exact hl.others x hx bx hbx
    · intro x hx
      rw [setBlock_slots_length] at hx
      obtain ⟨f1, f2⟩ := hl.fresh x hx
      exact ⟨f1, by simp [f2]⟩
    · rw [setBlock_slots_length]; exact hl.grow

end LS

namespace LS

theorem onBlock_heap (x a l : Nat) : onBlock x (some (.heap a l)) = delta a x := by
  simp only [onBlock, delta]
  by_cases h : a = x
  · subst h; simp
  · have : ¬ x = a := fun e => h e.symm
    simp [h, this]

/-- M3: copy the text into a freshly allocated block, then give up the old reference -/
theorem good_moveTo {ocf base st hp r t} (g : Good ocf base st hp r t) (rf : Refuse) (cap : Nat)
    (hc : cap ≤ MAX_LEN) (hi : t.length ≤ cap) :
    (∃ hp1, moveTo hp r t.length (hp.allocate rf cap t) = .err hp1 r ∧ hp1.slots = hp.slots ∧
        hp1.reqs = hp.reqs + 1 ∧ hp1.log = .allocX (HEADER + cap) :: hp.log) ∨
    (∃ hp2, moveTo hp r t.length (hp.allocate rf cap t) = .ok () hp2 (.heap hp.slots.length t.length) ∧
        Good ocf base st hp2 (.heap hp.slots.length t.length) t ∧
        hp2.get? hp.slots.length = some { rc := 1, cap := cap, size := HEADER + cap, data := padTo cap t } ∧
        hp2.reqs = hp.reqs + 1 ∧ hp2.slots.length = hp.slots.length + 1) := by
  by_cases hr' : rf hp.reqs (HEADER + cap) = true
  · left
    refine ⟨{ hp with reqs := hp.reqs + 1, log := .allocX (HEADER + cap) :: hp.log }, ?_, rfl, rfl, rfl⟩
    simp only [Heap.allocate, hr', if_true, moveTo]
  · right
    let nb : Block := { rc := 1, cap := cap, size := HEADER + cap, data := padTo cap t }
    let hp1 : Heap := { slots := hp.slots ++ [.live nb], reqs := hp.reqs + 1, log := .alloc (HEADER + cap) :: hp.log }
    have hs1 : hp1.slots = hp.slots ++ [.live nb] := rfl
    have hl1 := linv_allocate (hp' := hp1) g.inv cap t hc hi hs1
    have hnew : hp1.get? hp.slots.length = some nb := get?_append_new hs1
    have hmove : moveTo hp r t.length (hp.allocate rf cap t) =
        match releaseRepr hp1 r with
        | .error u => .ub u
        | .ok hp2 => .ok () hp2 (.heap hp.slots.length t.length) := by
      simp only [Heap.allocate, hr', if_false, moveTo]
      rfl
    have finish : ∀ hp2, LInv ocf base hp2 (ownOf (some (.heap hp.slots.length t.length))) →
        hp2.get? hp.slots.length = some nb → Good ocf base st hp2 (.heap hp.slots.length t.length) t := by
      intro hp2 hl2 hg2
      refine ⟨hl2, ⟨nb, hg2, hi, ?_⟩, ?_, g.valid⟩
      · show Valid ((padTo cap t).take t.length); rw [padTo_take]; exact g.valid
      · simp only [textOf, hg2]; rw [if_pos hi]; show Except.ok ((padTo cap t).take t.length) = _; rw [padTo_take]
    have hk := g.ok
    cases r with
    | inl raw =>
      refine ⟨hp1, by rw [hmove]; rfl, finish hp1 ?_ hnew, hnew, rfl, by simp [hp1]⟩
      exact linv_own_congr (fun x => by show onBlock x (some (.heap _ _)) = 0 + delta _ x; rw [onBlock_heap]; omega) hl1
    | stat s l =>
      refine ⟨hp1, by rw [hmove]; rfl, finish hp1 ?_ hnew, hnew, rfl, by simp [hp1]⟩
      exact linv_own_congr (fun x => by show onBlock x (some (.heap _ _)) = 0 + delta _ x; rw [onBlock_heap]; omega) hl1
    | heap a l =>
      obtain ⟨b, hb, _, _⟩ := hk
      have halt : a < hp.slots.length := get?_lt hb
      have hb1 : hp1.get? a = some b := by rw [get?_append_left hs1 halt]; exact hb
      obtain ⟨hp2, hrel, hl2, hq, hlen2, hoth, _, _⟩ := linv_release hl1 hb1 (by simp [ownOf, onBlock, delta])
      have hg2 : hp2.get? hp.slots.length = some nb := by rw [hoth _ (by omega)]; exact hnew
      refine ⟨hp2, by rw [hmove]; simp only [releaseRepr, hrel], finish hp2 ?_ hg2, hg2, by rw [hq], by rw [hlen2]; simp [hp1]⟩
      refine linv_own_congr (fun x => ?_) hl2
      simp only [ownOf, onBlock_heap, delta]
      by_cases h1 : x = a <;> by_cases h2 : x = hp.slots.length <;> simp [h1, h2] <;> omega

/-- M5: give up the reference and become an inline string holding `t'` -/
theorem good_release_inline {ocf base st hp r t} (g : Good ocf base st hp r t) (t' : Bytes) (hv : Valid t')
    (hl : t'.length ≤ 16) :
    ∃ hp', releaseRepr hp r = .ok hp' ∧ Good ocf base st hp' (.inl (inlNew t')) t' ∧ hp'.reqs = hp.reqs ∧
      hp'.slots.length = hp.slots.length := by
  have hgood : ∀ hp', LInv ocf base hp' (fun _ => 0) → Good ocf base st hp' (.inl (inlNew t')) t' := by
    intro hp' hl'
    refine ⟨linv_own_congr (fun x => rfl) hl', ⟨inlNew_length t' hl, ?_, inlLast_inlNew_lt t' hv hl⟩, ?_, hv⟩
    · rw [inlLen_inlNew t' hv hl, take_inlNew t' hl]; exact hv
    · simp only [textOf, inlLen_inlNew t' hv hl, take_inlNew t' hl]
  have hk := g.ok
  cases r with
  | inl raw => exact ⟨hp, rfl, hgood hp (linv_own_congr (fun x => rfl) g.inv), rfl, rfl⟩
  | stat s l => exact ⟨hp, rfl, hgood hp (linv_own_congr (fun x => rfl) g.inv), rfl, rfl⟩
  | heap a l =>
    obtain ⟨b, hb, _, _⟩ := hk
    obtain ⟨hp', hrel, hl2, hq, hlen2, _⟩ := linv_release g.inv hb (by simp [ownOf, onBlock])
    refine ⟨hp', hrel, hgood hp' (linv_own_congr (fun x => ?_) hl2), hq, hlen2⟩
    show 0 = onBlock x (some (.heap a l)) - delta a x
    rw [onBlock_heap]; omega

/-- M6: drop -/
theorem good_release_none {ocf base st hp r t} (g : Good ocf base st hp r t) :
    ∃ hp', releaseRepr hp r = .ok hp' ∧ LInv ocf base hp' (ownOf none) ∧ hp'.reqs = hp.reqs := by
  have hk := g.ok
  cases r with
  | inl raw => exact ⟨hp, rfl, linv_own_congr (fun x => rfl) g.inv, rfl⟩
  | stat s l => exact ⟨hp, rfl, linv_own_congr (fun x => rfl) g.inv, rfl⟩
  | heap a l =>
    obtain ⟨b, hb, _, _⟩ := hk
    obtain ⟨hp', hrel, hl2, hq, _⟩ := linv_release g.inv hb (by simp [ownOf, onBlock])
    refine ⟨hp', hrel, linv_own_congr (fun x => ?_) hl2, hq⟩
    show 0 = onBlock x (some (.heap a l)) - delta a x
    rw [onBlock_heap]; omega

end LS

namespace LS

theorem padTo_take_le (cap : Nat) (init : Bytes) (l : Nat) (h : l ≤ init.length) : (padTo cap init).take l = init.take l := by
  unfold padTo; rw [List.take_append_of_le_length h]

/-- M4: `realloc` of a uniquely owned block (the allocator always moves) -/
theorem good_realloc {ocf base st hp a l t} (g : Good ocf base st hp (.heap a l) t) (b : Block)
    (hb : hp.get? a = some b) (hrc : b.rc = 1) (rf : Refuse) (newCap : Nat) (hge : l ≤ newCap) :
    (∃ hp1, hp.realloc rf a newCap = .refused hp1 ∧ hp1.slots = hp.slots ∧
        ((hp1.reqs = hp.reqs ∧ MAX_LEN < newCap) ∨ hp1.reqs = hp.reqs + 1)) ∨
    (∃ hp2, hp.realloc rf a newCap = .moved hp2 hp.slots.length ∧
        Good ocf base st hp2 (.heap hp.slots.length l) t ∧
        hp2.get? hp.slots.length = some { rc := 1, cap := newCap, size := HEADER + newCap,
                                          data := padTo newCap (b.data.take (min b.cap newCap)) } ∧
        newCap ≤ MAX_LEN ∧ hp2.reqs = hp.reqs + 1 ∧ hp2.slots.length = hp.slots.length + 1 ∧
        hp2.log = .realloc b.size (HEADER + newCap) :: hp.log) := by
  have hML := Tie.maxLen_eq
  have hH := Tie.header_eq
  obtain ⟨k1, k2, k3, k4, k5⟩ := g.inv.blocks a b hb
  obtain ⟨b0, hb0, hlc, hvt⟩ := g.ok
  rw [hb] at hb0; injection hb0 with hb0; subst hb0
  have ht := g.text
  simp only [textOf, hb, hlc, if_true, Except.ok.injEq] at ht
  by_cases hcap : capOk newCap = true
  · have hnc : newCap ≤ MAX_LEN := by simp [capOk] at hcap; exact hcap.1
    by_cases hr : rf hp.reqs (HEADER + newCap) = true
    · left
      refine ⟨{ hp with reqs := hp.reqs + 1, log := .reallocX b.size (HEADER + newCap) :: hp.log }, ?_, rfl, Or.inr rfl⟩
      have hsz : (b.size ≠ HEADER + b.cap) = False := by simp [k5]
      simp only [Heap.realloc, hb, hrc, hcap, hsz, hr]
      simp
    · right
      let init := b.data.take (min b.cap newCap)
      let nb : Block := { rc := 1, cap := newCap, size := HEADER + newCap, data := padTo newCap init }
      let hpM : Heap := { slots := (hp.slots.set a .freed) ++ [.live nb], reqs := hp.reqs + 1,
                          log := .realloc b.size (HEADER + newCap) :: hp.log }
      have hinit : init.length ≤ newCap := by simp [init, List.length_take]; omega
      have hev : hp.realloc rf a newCap = .moved hpM hp.slots.length := by
        have hsz : (b.size ≠ HEADER + b.cap) = False := by simp [k5]
        simp only [Heap.realloc, hb, hrc, hcap, hsz, hr]
        simp
        rfl
      -- as an allocation followed by the release of the old block
      let hpA : Heap := { hp with slots := hp.slots ++ [.live nb] }
      have hsA : hpA.slots = hp.slots ++ [.live nb] := rfl
      have hlA := linv_allocate (hp' := hpA) g.inv newCap init hnc hinit hsA
      have halt : a < hp.slots.length := get?_lt hb
      have hbA : hpA.get? a = some b := by rw [get?_append_left hsA halt]; exact hb
      obtain ⟨hpR, hrel, hlR, _, _, hoth, _, hfree⟩ := linv_release hlA hbA (by simp [ownOf, onBlock, delta])
      have hsR : hpM.slots = hpR.slots := by
        cases release_ok hrel with
        | freed b1 hb1 _ _ he => subst he; show _ = (hp.slots ++ [Slot.live nb]).set a .freed; rw [List.set_append_left _ _ halt]
        | dec b1 hb1 hrc1 he => rw [hbA] at hb1; injection hb1 with hb1; subst hb1; omega
      have hlM : LInv ocf base hpM (ownOf (some (.heap hp.slots.length l))) := by
        refine linv_own_congr (fun x => ?_) (linv_congr hsR hlR)
        show onBlock x (some (.heap _ _)) = onBlock x (some (.heap a l)) + delta _ x - delta a x
        rw [onBlock_heap, onBlock_heap]; omega
      have hgM : hpM.get? hp.slots.length = some nb := by
        rw [get?_congr hsR, hoth _ (by omega)]; exact get?_append_new hsA
      have hlmin : l ≤ init.length := by simp [init, List.length_take]; omega
      have htext : nb.data.take l = t := by
        show (padTo newCap init).take l = t
        rw [padTo_take_le newCap init l hlmin]
        show (b.data.take (min b.cap newCap)).take l = t
        rw [List.take_take, Nat.min_eq_left (by omega)]; exact ht
      refine ⟨hpM, hev, ⟨hlM, ⟨nb, hgM, hge, by rw [htext]; exact g.valid⟩, ?_, g.valid⟩, hgM, hnc, rfl, by simp [hpM], rfl⟩
      simp only [textOf, hgM]; rw [if_pos hge, htext]
  · left
    have hcf : capOk newCap = false := by simpa using hcap
    refine ⟨hp, ?_, rfl, Or.inl ⟨rfl, ?_⟩⟩
    · simp only [Heap.realloc, hb, hrc, hcf]; simp
    · simp [capOk] at hcf; omega

end LS
