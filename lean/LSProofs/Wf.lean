import LSProofs.PrimLemmas
import LSProofs.StepLemmas
/-!
# Well-formedness of a world (the invariant of DESIGN 4.2)
-/
namespace LS

def pointsTo (a : Nat) : Option Handle → Bool
  | some (.heap a' _) => a' == a
  | _ => false

/-- what a handle needs from the heap and the statics to be readable -/
def HandleOk (hp : Heap) (st : List Bytes) : Handle → Prop
  | .inl raw => raw.length = 16 ∧ Valid (raw.take (inlLen raw)) ∧ inlLast raw < 0xD0
  | .heap a l => ∃ b, hp.get? a = some b ∧ l ≤ b.cap ∧ Valid (b.data.take l)
  | .stat s l => ∃ t, st[s]? = some t ∧ l ≤ t.length ∧ Valid (t.take l) ∧ t.length ≤ STATIC_MAX_LEN

/-- per-block bookkeeping, given how many handles point at the block -/
def BlockOk (count : Nat) (b : Block) : Prop :=
  b.rc = count ∧ 1 ≤ b.rc ∧ b.cap ≤ MAX_LEN ∧ b.data.length = b.cap ∧ b.size = HEADER + b.cap

structure Wf (w : World) : Prop where
  handles : ∀ h r, w.get h = some r → HandleOk w.heap w.statics r
  blocks : ∀ a b, w.heap.get? a = some b → BlockOk (w.pool.countP (pointsTo a)) b
  statics : ∀ t ∈ w.statics, Valid t ∧ t.length ≤ STATIC_MAX_LEN

/-- the empty world (any set of valid static texts) is well-formed -/
theorem wf_init (st : List Bytes) (hst : ∀ t ∈ st, Valid t ∧ t.length ≤ STATIC_MAX_LEN) :
    Wf { statics := st } := by
  refine ⟨?_, ?_, hst⟩
  · intro h r hg; simp [World.get] at hg
  · intro a b hb; simp [Heap.get?] at hb

end LS
