import LSProofs.Writer
import LSProofs.StepPre
/-!
# End to end: `into_repr` builds a string whose text is exactly `decimal v`
-/
namespace LS

theorem encNat_ascii (v : Nat) (h : v ≤ 127) : encNat v = [UInt8.ofNat v] := by simp [encNat, h]

/-- an ASCII byte string is valid UTF-8 -/
theorem valid_ascii : ∀ (t : Bytes), (∀ b ∈ t, b.toNat < 0x80) → Valid t := by
  intro t
  induction t with
  | nil => intro _; exact valid_nil
  | cons b bs ih =>
    intro h
    have hb := h b (List.mem_cons_self ..)
    have hv : b.toNat < 0xD800 ∨ (0xDFFF < b.toNat ∧ b.toNat < 0x110000) := Or.inl (by omega)
    have h1 : Valid [b] := by
      refine ⟨[Char.ofNat b.toNat], ?_⟩
      have hval : (Char.ofNat b.toNat).val.toNat = b.toNat := by
        have : Nat.isValidChar b.toNat := hv
        simp [Char.ofNat, this, Char.ofNatAux]
      simp only [enc, List.flatMap_cons, List.flatMap_nil, List.append_nil, encChar_eq, hval]
      rw [encNat_ascii _ (by omega)]
      simp
    have := valid_append h1 (ih (fun x hx => h x (List.mem_cons_of_mem _ hx)))
    simpa using this

theorem dig_ascii (k : Nat) (h : k < 10) : (dig k).toNat < 0x80 := by
  simp only [dig, u8_toNat_ofNat]; omega

theorem decDigits_ascii : ∀ (f n : Nat), ∀ b ∈ decDigits f n, b.toNat < 0x80 := by
  intro f
  induction f with
  | zero => intro n b hb; simp [decDigits] at hb
  | succ k ih =>
    intro n b hb
    by_cases hs : n < 10
    · rw [decDigits_small k n hs] at hb; simp at hb; subst hb; exact dig_ascii n hs
    · rw [decDigits_step k n (by omega)] at hb
      rcases List.mem_append.1 hb with h | h
      · exact ih _ b h
      · simp at h; subst h; exact dig_ascii _ (Nat.mod_lt _ (by omega))

theorem decimal_valid (v : Int) : Valid (decimal v) := by
  apply valid_ascii
  intro b hb
  unfold decimal at hb
  split at hb
  · rcases List.mem_cons.1 hb with h | h
    · subst h; decide
    · exact decDigits_ascii _ _ b h
  · exact decDigits_ascii _ _ b hb

/-- `into_repr` for a value whose table row is exact and whose writer output is `decimal v`:
either the (single) allocation is refused and nothing changed, or the result reads `decimal v` -/
theorem intoReprCore_text {ocf base st hp} (hl : LInv ocf base hp (fun _ => 0)) (rf : Refuse)
    (rows : List (Int × Int × Nat)) (wide : Bool) (v : Int)
    (hlook : lookupRows rows v = some (decimal v).length)
    (hw : writer wide (decide (v < 0)) v.natAbs = decimal v) :
    (∃ hp1, intoReprCore rf hp rows wide v = some (none, hp1) ∧ hp1.slots = hp.slots) ∨
    (∃ hp1 r, intoReprCore rf hp rows wide v = some (some r, hp1) ∧ Good ocf base st hp1 r (decimal v) ∧
      (decimal v).length ≤ capOf hp1 r) := by
  unfold intoReprCore
  rw [hlook]
  simp only [hw]
  rcases withCapacity_fresh (st := st) hl rf (decimal v).length with ⟨hp1, he, hs⟩ | ⟨hp1, r0, he, g0, hc, hu⟩
  · left; rw [he]; exact ⟨hp1, rfl, hs⟩
  · right
    rw [he]
    simp only [Nat.lt_irrefl, if_false, Nat.sub_self]
    obtain ⟨hp2, r2, hwr, g2, _⟩ := good_write g0 hu 0 (decimal v) (Nat.zero_le _) (by simpa using hc)
      (by simpa using decimal_valid v)
    simp only [Nat.zero_add] at hwr
    rw [hwr]
    simp only [List.take_zero, List.nil_append] at g2
    exact ⟨hp2, r2, rfl, g2, good_len_le_cap g2⟩

end LS
