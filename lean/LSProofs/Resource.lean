import LSProofs.TextSpec
import LSProofs.Props.C11
/-!
# Resource clauses: what does *not* touch the allocator
-/
namespace LS

theorem writeBytes_inl (hp hp1 : Heap) (raw : Bytes) (off : Nat) (s : Bytes) (r1 : Handle)
    (h : writeBytes hp (.inl raw) off s = .ok (hp1, r1)) : hp1 = hp ∧ ∃ raw', r1 = .inl raw' := by
  simp only [writeBytes] at h
  split at h
  · injection h with h; injection h with h1 h2; exact ⟨h1.symm, _, h2.symm⟩
  · cases h

theorem setLen_inl_shape (raw : Bytes) (n : Nat) (r' : Handle) (h : setLen (.inl raw) n = .ok r') : ∃ raw', r' = .inl raw' := by
  simp only [setLen] at h
  split at h
  · injection h with h; exact ⟨_, h.symm⟩
  · cases h

theorem writeThenSetLen_inl (hp hp' : Heap) (raw : Bytes) (off : Nat) (s : Bytes) (n : Nat) (r' : Handle)
    (h : writeThenSetLen hp (.inl raw) off s n = .ok () hp' r') : hp' = hp ∧ ∃ raw', r' = .inl raw' := by
  unfold writeThenSetLen at h
  cases hw : writeBytes hp (.inl raw) off s with
  | error u => rw [hw] at h; cases h
  | ok p =>
    obtain ⟨hp1, r1⟩ := p
    rw [hw] at h
    obtain ⟨e1, raw1, e2⟩ := writeBytes_inl hp hp1 raw off s r1 hw
    subst e1; subst e2
    simp only [] at h
    cases hs : setLen (.inl raw1) n with
    | error u => rw [hs] at h; cases h
    | ok r2 =>
      rw [hs] at h
      injection h with _ h1 h2
      subst h1; subst h2
      exact ⟨rfl, setLen_inl_shape raw1 n r2 hs⟩

theorem reserve_inl_small (rf : Refuse) (st : List Bytes) (hp : Heap) (raw : Bytes) (add : Nat)
    (h : inlLen raw + add ≤ 16) : reserve rf st hp (.inl raw) add = .ok () hp (.inl raw) :=
  C11.reserve_within_capacity rf st hp (.inl raw) add trivial (by simpa [capOf, Handle.len] using h)
    (by simp only [Handle.len]; omega)

/-- C09: editing an inline string so that it stays within 16 bytes never touches the heap (no
request, no event, nothing changes in any block) and the result is inline (`push`, `push_str`, `+=`;
the other mutators on inline strings are covered by the correspondence) -/
theorem pushStr_inline_no_heap (rf : Refuse) (st : List Bytes) (hp hp' : Heap) (raw : Bytes) (s : Bytes) (r' : Handle) (v : Unit)
    (hfit : inlLen raw + s.length ≤ 16) (h : pushStr rf st hp (.inl raw) s = .ok v hp' r') :
    hp' = hp ∧ ∃ raw', r' = .inl raw' := by
  unfold pushStr at h
  by_cases he : s.isEmpty = true
  · rw [if_pos he] at h; injection h with _ h1 h2; exact ⟨h1.symm, _, h2.symm⟩
  · rw [if_neg he] at h
    simp only [reserve_inl_small rf st hp raw s.length hfit] at h
    exact writeThenSetLen_inl _ _ _ _ _ _ _ h

/-- C11 (d) for `insert`/`insert_str`: within the reported capacity of an exclusively owned
string, no allocator traffic and the same block -/
theorem insert_within_capacity (rf : Refuse) (w : World) (h : Nat) (r : Handle) (t s : Bytes) (i : Nat) (hw : Wf w)
    (hg : w.get h = some r) (ht : w.text h = some t) (hs : Valid s) (hu : Unique w.heap r)
    (hc : t.length + s.length ≤ capOf w.heap r) (hb : isBoundary t i = true) :
    ∃ hp' r', insertStr rf w.statics w.heap r i s = .ok () hp' r' ∧ hp'.reqs = w.heap.reqs ∧ hp'.log = w.heap.log ∧
      (∀ a, onBlock a (some r') = onBlock a (some r)) ∧ capOf hp' r' = capOf w.heap r := by
  obtain ⟨r0, hg0, g⟩ := good_of_text hw ht
  rw [hg] at hg0; injection hg0 with hg0; subst hg0
  have hlen := good_len g
  have hML := Tie.maxLen_eq
  have hcapb : capOf w.heap r ≤ MAX_LEN := by
    cases r with
    | inl raw => simp [capOf]; omega
    | stat s' l => exact absurd hu (by simp [Unique])
    | heap a l => obtain ⟨b, hb', _⟩ := hu; simp only [capOf, hb']; exact (hw.blocks a b hb').2.2.1
  have hres : reserve rf w.statics w.heap r s.length = .ok () w.heap r := by
    have h16 := Tie.maxInline_eq
    have hca : checkedAdd r.len s.length = some (r.len + s.length) := by
      unfold checkedAdd USIZE; rw [if_pos (by omega)]
    unfold reserve
    simp only [hca]
    cases r with
    | stat s' l => exact absurd hu (by simp [Unique])
    | inl raw => simp only [capOf] at hc; simp only []; rw [if_neg (by omega)]
    | heap a l =>
      obtain ⟨b, hb', hrc⟩ := hu
      simp only [capOf, hb'] at hc
      simp only [hb', hrc, if_true]; rw [if_pos (by omega)]
  have hile : i ≤ t.length := by
    rcases Nat.lt_or_ge t.length i with h' | h'
    · rw [isBoundary_beyond t i h'] at hb; cases hb
    · exact h'
  obtain ⟨hv1, hv2⟩ := valid_take_drop g.valid i hb
  obtain ⟨hp2, r2, hwr, _, _, hcap2, hq, hlg, _, hsame⟩ := good_write g hu i (s ++ t.drop i) hile (by simp; omega)
    (valid_append hv1 (valid_append hs hv2))
  refine ⟨hp2, r2, ?_, hq, hlg, hsame, hcap2⟩
  have hca : checkedAdd t.length s.length = some (t.length + s.length) := by
    unfold checkedAdd USIZE; rw [if_pos (by omega)]
  have hl2 : t.length + s.length = i + (s ++ t.drop i).length := by simp; omega
  simp only [insertStr, g.text, hb, Bool.not_true, Bool.false_eq_true, if_false, hlen, hca, hres]
  rw [hl2]; exact hwr

/-! ## C09: the mutators on an inline string (fourth session — possible since `inlLen` is `%`-free)

Whatever `pop`, `truncate`, `clear`, `remove`, `retain` and a fitting `insert_str` do to an inline handle
— succeed, reject an index, unwind from the predicate —, the heap is *identical* afterwards (no request,
no event, no block touched) and the handle is still inline. -/

/-- the outcome of an operation on an inline handle left the heap alone and the handle inline -/
def Res.InlineNoHeap {α : Type} (hp : Heap) : Res α → Prop
  | .ok _ hp' r' | .err hp' r' | .pidx hp' r' | .pcb hp' r' => hp' = hp ∧ ∃ raw', r' = .inl raw'
  | .ub _ => True

theorem writeThenSetLen_inl_any (hp : Heap) (raw : Bytes) (off : Nat) (s : Bytes) (n : Nat) :
    (writeThenSetLen hp (.inl raw) off s n).InlineNoHeap hp := by
  cases h : writeThenSetLen hp (.inl raw) off s n with
  | ok v hp' r' => exact writeThenSetLen_inl hp hp' raw off s n r' h
  | ub u => trivial
  | err hp' r' =>
    unfold writeThenSetLen at h
    split at h
    · cases h
    · split at h <;> cases h
  | pidx hp' r' =>
    unfold writeThenSetLen at h
    split at h
    · cases h
    · split at h <;> cases h
  | pcb hp' r' =>
    unfold writeThenSetLen at h
    split at h
    · cases h
    · split at h <;> cases h

theorem pop_inline (st : List Bytes) (hp : Heap) (raw : Bytes) : (pop st hp (.inl raw)).InlineNoHeap hp := by
  unfold pop
  simp only [textOf]
  split
  · exact ⟨rfl, _, rfl⟩
  · simp only [truncateUnchecked]
    cases hs : setLen (.inl raw) ((raw.take (inlLen raw)).length - (trailing (raw.take (inlLen raw)) + 1)) with
    | error u => trivial
    | ok r' => exact ⟨rfl, setLen_inl_shape raw _ r' hs⟩

theorem truncate_inline (st : List Bytes) (hp : Heap) (raw : Bytes) (n : Nat) : (truncate st hp (.inl raw) n).InlineNoHeap hp := by
  unfold truncate
  split
  · exact ⟨rfl, _, rfl⟩
  · simp only [textOf]
    split
    · exact ⟨rfl, _, rfl⟩
    · simp only [truncateUnchecked]
      cases hs : setLen (.inl raw) n with
      | error u => trivial
      | ok r' => exact ⟨rfl, setLen_inl_shape raw _ r' hs⟩

theorem clear_inline (hp : Heap) (raw : Bytes) : (clear hp (.inl raw)).InlineNoHeap hp := by
  unfold clear
  simp only [Handle.isUnique]
  cases hs : setLen (.inl raw) 0 with
  | error u => trivial
  | ok r' => exact ⟨rfl, setLen_inl_shape raw _ r' hs⟩

theorem remove_inline (rf : Refuse) (st : List Bytes) (hp : Heap) (raw : Bytes) (i : Nat) :
    (remove rf st hp (.inl raw) i).InlineNoHeap hp := by
  unfold remove
  simp only [textOf, ensureModifiable]
  split
  · exact ⟨rfl, _, rfl⟩
  · split
    · exact ⟨rfl, _, rfl⟩
    · have := writeThenSetLen_inl_any hp raw i ((raw.take (inlLen raw)).drop (i + charWidth ((raw.take (inlLen raw)).getD i 0)))
        ((raw.take (inlLen raw)).length - charWidth ((raw.take (inlLen raw)).getD i 0))
      revert this
      cases writeThenSetLen hp (.inl raw) i _ _ <;> exact id

theorem retain_inline (rf : Refuse) (st : List Bytes) (hp : Heap) (raw : Bytes) (answers : List (Option Bool)) :
    (retain rf st hp (.inl raw) answers).InlineNoHeap hp := by
  unfold retain
  simp only [textOf, ensureModifiable]
  have := writeThenSetLen_inl_any hp raw 0
    (retainScan (raw.take (inlLen raw)).length (raw.take (inlLen raw)) answers []).1
    (retainScan (raw.take (inlLen raw)).length (raw.take (inlLen raw)) answers []).1.length
  revert this
  cases writeThenSetLen hp (.inl raw) 0 _ _ with
  | ok v hp' r' => intro h; simp only []; split <;> exact h
  | err hp' r' => exact id
  | pidx hp' r' => exact id
  | pcb hp' r' => exact id
  | ub u => exact id

theorem insertStr_inline (rf : Refuse) (st : List Bytes) (hp : Heap) (raw : Bytes) (i : Nat) (s : Bytes)
    (hfit : inlLen raw + s.length ≤ 16) : (insertStr rf st hp (.inl raw) i s).InlineNoHeap hp := by
  unfold insertStr
  simp only [textOf]
  split
  · exact ⟨rfl, _, rfl⟩
  · have hca : checkedAdd (Handle.inl raw).len s.length = some (inlLen raw + s.length) := by
      simp only [Handle.len]; unfold checkedAdd USIZE; rw [if_pos (by omega)]
    simp only [hca, reserve_inl_small rf st hp raw s.length hfit, textOf]
    exact writeThenSetLen_inl_any hp raw i _ _

/-- the same at the level of public calls: a mutator whose target is inline (and, for the growing ones,
whose result fits in 16 bytes) leaves `World.heap` identical and the target inline, for every outcome
that is not a model alarm -/
theorem finish_inline {α : Type} (w : World) (h : Nat) (plain : Bool) (val : α → Val) (res : Res α)
    (hi : res.InlineNoHeap w.heap) (hu : ∀ u, res ≠ .ub u) :
    (finish w h plain val res).1.heap = w.heap ∧ ∃ raw', (finish w h plain val res).1.get h = some (.inl raw') := by
  cases res with
  | ub u => exact absurd rfl (hu u)
  | ok v hp r => obtain ⟨e, raw', e'⟩ := hi; subst e; subst e'; exact ⟨rfl, raw', World.get_put_self _ _ _ _⟩
  | err hp r => obtain ⟨e, raw', e'⟩ := hi; subst e; subst e'; exact ⟨rfl, raw', World.get_put_self _ _ _ _⟩
  | pidx hp r => obtain ⟨e, raw', e'⟩ := hi; subst e; subst e'; exact ⟨rfl, raw', World.get_put_self _ _ _ _⟩
  | pcb hp r => obtain ⟨e, raw', e'⟩ := hi; subst e; subst e'; exact ⟨rfl, raw', World.get_put_self _ _ _ _⟩

end LS
