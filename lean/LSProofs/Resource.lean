import LSProofs.TextSpec
import LSProofs.Props.C11
/-!
# Resource clauses: what does *not* touch the allocator
-/
namespace LS

theorem writeBytes_inl (hp hp1 : Heap) (raw : Bytes) (off : Nat) (s : Bytes) (r1 : Handle)
    (h : writeBytes hp (.inl raw) off s = .ok (hp1, r1)) : hp1 = hp ∧ ∃ raw', r1 = .inl raw' := by
  simp only [writeBytes] at h
  split at h
  · injection h with h; injection h with h1 h2; exact ⟨h1.symm, _, h2.symm⟩
  · cases h

theorem setLen_inl_shape (raw : Bytes) (n : Nat) (r' : Handle) (h : setLen (.inl raw) n = .ok r') : ∃ raw', r' = .inl raw' := by
  simp only [setLen] at h
  split at h
  · injection h with h; exact ⟨_, h.symm⟩
  · cases h

theorem writeThenSetLen_inl (hp hp' : Heap) (raw : Bytes) (off : Nat) (s : Bytes) (n : Nat) (r' : Handle)
    (h : writeThenSetLen hp (.inl raw) off s n = .ok () hp' r') : hp' = hp ∧ ∃ raw', r' = .inl raw' := by
  unfold writeThenSetLen at h
  cases hw : writeBytes hp (.inl raw) off s with
  | error u => rw [hw] at h; cases h
  | ok p =>
    obtain ⟨hp1, r1⟩ := p
    rw [hw] at h
    obtain ⟨e1, raw1, e2⟩ := writeBytes_inl hp hp1 raw off s r1 hw
    subst e1; subst e2
    simp only [] at h
    cases hs : setLen (.inl raw1) n with
    | error u => rw [hs] at h; cases h
    | ok r2 =>
      rw [hs] at h
      injection h with _ h1 h2
      subst h1; subst h2
      exact ⟨rfl, setLen_inl_shape raw1 n r2 hs⟩

theorem reserve_inl_small (rf : Refuse) (st : List Bytes) (hp : Heap) (raw : Bytes) (add : Nat)
    (h : inlLen raw + add ≤ 16) : reserve rf st hp (.inl raw) add = .ok () hp (.inl raw) :=
  C11.reserve_within_capacity rf st hp (.inl raw) add trivial (by simpa [capOf, Handle.len] using h)
    (by simp only [Handle.len]; omega)

/-- C09: editing an inline string so that it stays within 16 bytes never touches the heap (no
request, no event, nothing changes in any block) and the result is inline (`push`, `push_str`, `+=`;
the other mutators on inline strings are covered by the correspondence) -/
theorem pushStr_inline_no_heap (rf : Refuse) (st : List Bytes) (hp hp' : Heap) (raw : Bytes) (s : Bytes) (r' : Handle) (v : Unit)
    (hfit : inlLen raw + s.length ≤ 16) (h : pushStr rf st hp (.inl raw) s = .ok v hp' r') :
    hp' = hp ∧ ∃ raw', r' = .inl raw' := by
  unfold pushStr at h
  by_cases he : s.isEmpty = true
  · rw [if_pos he] at h; injection h with _ h1 h2; exact ⟨h1.symm, _, h2.symm⟩
  · rw [if_neg he] at h
    simp only [reserve_inl_small rf st hp raw s.length hfit] at h
    exact writeThenSetLen_inl _ _ _ _ _ _ _ h

/-- C11 (d) for `insert`/`insert_str`: within the reported capacity of an exclusively owned
string, no allocator traffic and the same block -/
theorem insert_within_capacity (rf : Refuse) (w : World) (h : Nat) (r : Handle) (t s : Bytes) (i : Nat) (hw : Wf w)
    (hg : w.get h = some r) (ht : w.text h = some t) (hs : Valid s) (hu : Unique w.heap r)
    (hc : t.length + s.length ≤ capOf w.heap r) (hb : isBoundary t i = true) :
    ∃ hp' r', insertStr rf w.statics w.heap r i s = .ok () hp' r' ∧ hp'.reqs = w.heap.reqs ∧ hp'.log = w.heap.log ∧
      (∀ a, onBlock a (some r') = onBlock a (some r)) ∧ capOf hp' r' = capOf w.heap r := by
  obtain ⟨r0, hg0, g⟩ := good_of_text hw ht
  rw [hg] at hg0; injection hg0 with hg0; subst hg0
  have hlen := good_len g
  have hML := Tie.maxLen_eq
  have hcapb : capOf w.heap r ≤ MAX_LEN := by
    cases r with
    | inl raw => simp [capOf]; omega
    | stat s' l => exact absurd hu (by simp [Unique])
    | heap a l => obtain ⟨b, hb', _⟩ := hu; simp only [capOf, hb']; exact (hw.blocks a b hb').2.2.1
  have hres : reserve rf w.statics w.heap r s.length = .ok () w.heap r := by
    have h16 := Tie.maxInline_eq
    have hca : checkedAdd r.len s.length = some (r.len + s.length) := by
      unfold checkedAdd USIZE; rw [if_pos (by omega)]
    unfold reserve
    simp only [hca]
    cases r with
    | stat s' l => exact absurd hu (by simp [Unique])
    | inl raw => simp only [capOf] at hc; simp only []; rw [if_neg (by omega)]
    | heap a l =>
      obtain ⟨b, hb', hrc⟩ := hu
      simp only [capOf, hb'] at hc
      simp only [hb', hrc, if_true]; rw [if_pos (by omega)]
  have hile : i ≤ t.length := by
    rcases Nat.lt_or_ge t.length i with h' | h'
    · rw [isBoundary_beyond t i h'] at hb; cases hb
    · exact h'
  obtain ⟨hv1, hv2⟩ := valid_take_drop g.valid i hb
  obtain ⟨hp2, r2, hwr, _, _, hcap2, hq, hlg, _, hsame⟩ := good_write g hu i (s ++ t.drop i) hile (by simp; omega)
    (valid_append hv1 (valid_append hs hv2))
  refine ⟨hp2, r2, ?_, hq, hlg, hsame, hcap2⟩
  have hca : checkedAdd t.length s.length = some (t.length + s.length) := by
    unfold checkedAdd USIZE; rw [if_pos (by omega)]
  have hl2 : t.length + s.length = i + (s ++ t.drop i).length := by simp; omega
  simp only [insertStr, g.text, hb, Bool.not_true, Bool.false_eq_true, if_false, hlen, hca, hres]
  rw [hl2]; exact hwr

end LS
