import LSProofs.OpSpecs
/-!
# Growth events: the capacity a growing `reserve` ends with, exactly
-/
namespace LS

theorem release_get?_other {hp hp' : Heap} {a a' : Nat} (h : hp.release a = .ok hp') (hne : a' ≠ a) :
    hp'.get? a' = hp.get? a' := by
  cases release_ok h with
  | freed b hb hrc hsz he =>
    subst he
    simp only [Heap.get?]
    rw [List.getElem?_set_ne (Ne.symm hne)]
  | dec b hb hrc he => subst he; exact get?_setBlock_other hne

theorem releaseRepr_get?_other {hp hp' : Heap} {r : Handle} {a' : Nat} (h : releaseRepr hp r = .ok hp')
    (hne : ∀ a l, r = .heap a l → a' ≠ a) : hp'.get? a' = hp.get? a' := by
  cases r with
  | inl raw => simp only [releaseRepr, Except.ok.injEq] at h; subst h; rfl
  | stat s l => simp only [releaseRepr, Except.ok.injEq] at h; subst h; rfl
  | heap a l => exact release_get?_other h (hne a l rfl)

/-- the copy-out of `moveTo`: the handle now reads the fresh block, whose capacity is what was asked for -/
theorem moveTo_fresh {rf : Refuse} {hp hp1 hp' : Heap} {r r' : Handle} {len a' c : Nat} {init : Bytes}
    (halloc : hp.allocate rf c init = (some a', hp1))
    (hold : ∀ a l, r = .heap a l → a < hp.slots.length)
    (h : moveTo hp r len (some a', hp1) = .ok () hp' r') : r' = .heap a' len ∧ capOf hp' r' = c := by
  obtain ⟨ha', hget, _⟩ := get?_allocate rf hp c init a' hp1 halloc
  simp only [moveTo] at h
  cases hr : releaseRepr hp1 r with
  | error u => rw [hr] at h; cases h
  | ok hp2 =>
    rw [hr] at h
    injection h with _ h1 h2
    subst h1; subst h2
    refine ⟨rfl, ?_⟩
    have : hp2.get? a' = hp1.get? a' := releaseRepr_get?_other hr (fun a l he => by have := hold a l he; omega)
    simp only [capOf, this, hget]

theorem heapWithAdditional_cases (rf : Refuse) (hp : Heap) (text : Bytes) (add : Nat) :
    heapWithAdditional rf hp text add = hp.allocate rf (Gen.amortizedGrowth text.length add) text ∨
    heapWithAdditional rf hp text add = (none, hp) := by
  unfold heapWithAdditional
  simp only []
  split
  · exact Or.inl rfl
  · exact Or.inr rfl

/-- **every growth event lands exactly on the amortised size**: when `reserve` succeeds on a request
that does not fit the inline buffer and the handle either does not own its storage exclusively
(shared block, static text) or its capacity is too small, the handle ends on a heap block of
capacity `amortized_growth(len, additional)` — the function translated from
`src/repr/heap_buffer.rs` — whatever the storage was before -/
theorem reserve_growth_exact {ocf base st hp r t} (g : Good ocf base st hp r t) (rf : Refuse) (add : Nat)
    (hp' : Heap) (r' : Handle) (h : reserve rf st hp r add = .ok () hp' r') (hbig : 16 < t.length + add)
    (hgrow : ¬ (Unique hp r ∧ t.length + add ≤ capOf hp r)) :
    ∃ a', r' = .heap a' t.length ∧ capOf hp' r' = Gen.amortizedGrowth t.length add := by
  have hlen := good_len g
  have h16 := Tie.maxInline_eq
  unfold reserve at h
  simp only [hlen] at h
  cases hca : checkedAdd t.length add with
  | none => rw [hca] at h; cases h
  | some needed =>
    have hneed : needed = t.length + add := by
      unfold checkedAdd at hca; split at hca
      · injection hca with hca; exact hca.symm
      · cases hca
    subst hneed
    rw [hca] at h
    cases r with
    | heap a l =>
      obtain ⟨b, hb, hlc, htk, htl, hdl, hrc, hcm⟩ := good_text_heap g
      simp only [hb] at h
      by_cases hu : b.rc = 1
      · simp only [hu, if_true] at h
        have hsmall : ¬ (b.cap ≥ t.length + add) := by
          intro hc; exact hgrow ⟨⟨b, hb, hu⟩, by simp only [capOf, hb]; exact hc⟩
        rw [if_neg hsmall] at h
        cases hre : hp.realloc rf a (Gen.amortizedGrowth t.length add) with
        | ub u => rw [hre] at h; cases h
        | refused hp2 => rw [hre] at h; cases h
        | moved hp2 a2 =>
          rw [hre] at h
          injection h with _ h1 h2
          subst h1; subst h2
          refine ⟨a2, by rw [htl], ?_⟩
          unfold Heap.realloc at hre
          simp only [hb, hu] at hre
          repeat' (split at hre <;> try (cases hre; done))
          injection hre with e1 e2
          subst e1; subst e2
          simp [capOf, Heap.get?]
      · simp only [hu, if_false] at h
        rw [if_pos hlc] at h
        have hl' : (b.data.take l).length = l := by rw [List.length_take]; omega
        rcases heapWithAdditional_cases rf hp (b.data.take l) add with he | he
        · rw [he, hl'] at h
          cases hal : hp.allocate rf (Gen.amortizedGrowth l add) (b.data.take l) with
          | mk oa hp1 =>
            rw [hal] at h
            cases oa with
            | none => simp [moveTo] at h
            | some a' =>
              obtain ⟨e1, e2⟩ := moveTo_fresh hal (fun a0 l0 he => by injection he with he1 _; subst he1; exact get?_lt hb) h
              exact ⟨a', by rw [e1, htl], by rw [e2, htl]⟩
        · rw [he] at h; simp [moveTo] at h
    | stat s l =>
      have ht := g.text
      simp only [ht] at h
      rw [if_neg (by omega)] at h
      have htl : t.length = l := by rw [← hlen]; rfl
      rcases heapWithAdditional_cases rf hp t add with he | he
      · rw [he] at h
        cases hal : hp.allocate rf (Gen.amortizedGrowth t.length add) t with
        | mk oa hp1 =>
          rw [hal] at h
          cases oa with
          | none => simp [moveTo] at h
          | some a' =>
            obtain ⟨e1, e2⟩ := moveTo_fresh hal (fun a0 l0 he => by cases he) h
            exact ⟨a', by rw [e1, htl], e2⟩
      · rw [he] at h; simp [moveTo] at h
    | inl raw =>
      simp only [] at h
      rw [if_pos (by omega)] at h
      have hk := g.ok
      have hrl : raw.length = 16 := by have := hk.1; omega
      have hll : inlLen raw = t.length := hlen
      have hle : t.length ≤ 16 := by rw [← hll]; unfold inlLen; omega
      have hl' : (raw.take t.length).length = t.length := by rw [List.length_take]; omega
      rcases heapWithAdditional_cases rf hp (raw.take t.length) add with he | he
      · rw [he, hl'] at h
        cases hal : hp.allocate rf (Gen.amortizedGrowth t.length add) (raw.take t.length) with
        | mk oa hp1 =>
          rw [hal] at h
          cases oa with
          | none => simp [moveTo] at h
          | some a' =>
            obtain ⟨e1, e2⟩ := moveTo_fresh hal (fun a0 l0 he => by cases he) h
            exact ⟨a', e1, e2⟩
      · rw [he] at h; simp [moveTo] at h

end LS
