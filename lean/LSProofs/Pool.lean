import LSProofs.HandleLemmas
/-! The pool of handles: `poolSet`/`get` lemmas. -/
namespace LS

def getH (p : List (Option Handle)) (h : Nat) : Option Handle :=
  match p[h]? with
  | some (some r) => some r
  | _ => none

theorem getH_pad (p : List (Option Handle)) (n h : Nat) : getH (poolPad p n) h = getH p h := by
  unfold getH poolPad
  rcases Nat.lt_or_ge h p.length with hlt | hge
  · rw [List.getElem?_append_left hlt]
  · rw [List.getElem?_append_right hge, List.getElem?_eq_none hge, List.getElem?_replicate]
    by_cases hc : h - p.length < n - p.length <;> simp [hc]

theorem length_pad (p : List (Option Handle)) (i : Nat) : i < (poolPad p (i + 1)).length := by
  unfold poolPad; simp; omega

theorem getH_poolSet_self (p : List (Option Handle)) (h : Nat) (v : Option Handle) : getH (poolSet p h v) h = v := by
  unfold getH poolSet
  rw [List.getElem?_set_self (length_pad p h)]
  cases v <;> rfl

theorem getH_poolSet_other (p : List (Option Handle)) (h h' : Nat) (v : Option Handle) (hne : h' ≠ h) :
    getH (poolSet p h v) h' = getH p h' := by
  rw [← getH_pad p (h + 1) h']
  unfold getH poolSet
  rw [List.getElem?_set_ne (Ne.symm hne)]

theorem countP_pad (P : Option Handle → Bool) (hn : P none = false) (p : List (Option Handle)) (n : Nat) :
    (poolPad p n).countP P = p.countP P := by
  unfold poolPad
  rw [List.countP_append, List.countP_replicate]; simp [hn]

theorem World.get_eq (w : World) (h : Nat) : w.get h = getH w.pool h := rfl

theorem World.get_put_self (w : World) (hp : Heap) (h : Nat) (v : Option Handle) : (w.put hp h v).get h = v := by
  rw [World.get_eq]; exact getH_poolSet_self w.pool h v

theorem World.get_put_other (w : World) (hp : Heap) (h h' : Nat) (v : Option Handle) (hne : h' ≠ h) :
    (w.put hp h v).get h' = w.get h' := by
  rw [World.get_eq, World.get_eq]; exact getH_poolSet_other w.pool h h' v hne

theorem World.get_some {w : World} {h : Nat} {r : Handle} (hg : w.get h = some r) : w.pool[h]? = some (some r) := by
  unfold World.get at hg
  split at hg
  · rename_i r' heq; injection hg with hg; subst hg; exact heq
  · cases hg

theorem poolSet_self (p : List (Option Handle)) (h : Nat) (r : Handle) (hr : p[h]? = some (some r)) :
    poolSet p h (some r) = p := by
  have hlt : h < p.length := by
    rcases Nat.lt_or_ge h p.length with h' | h'
    · exact h'
    · rw [List.getElem?_eq_none h'] at hr; cases hr
  have hpad : poolPad p (h + 1) = p := by
    unfold poolPad
    have : h + 1 - p.length = 0 := by omega
    rw [this]; simp
  unfold poolSet
  rw [hpad]
  apply List.ext_getElem?
  intro i
  rw [List.getElem?_set]
  split
  · rename_i he; subst he; simp [hlt]
    rw [List.getElem?_eq_getElem hlt] at hr; injection hr with hr; exact hr.symm
  · rfl

theorem put_self (w : World) (h : Nat) (r : Handle) (hg : w.get h = some r) : w.put w.heap h (some r) = w := by
  unfold World.put
  rw [poolSet_self w.pool h r (World.get_some hg)]

end LS
