import LSProofs.InlineLemmas
/-! Reading back what the constructors build. -/
namespace LS

theorem padTo_take (cap : Nat) (t : Bytes) : (padTo cap t).take t.length = t := by
  simp [padTo]

theorem padTo_length (cap : Nat) (t : Bytes) (h : t.length ≤ cap) : (padTo cap t).length = cap := by
  simp [padTo]; omega

theorem get?_allocate (rf : Refuse) (hp : Heap) (cap : Nat) (init : Bytes) (a : Nat) (hp' : Heap)
    (h : hp.allocate rf cap init = (some a, hp')) :
    a = hp.slots.length ∧ hp'.get? a = some { rc := 1, cap := cap, size := HEADER + cap, data := padTo cap init } ∧
    hp'.slots = hp.slots ++ [.live { rc := 1, cap := cap, size := HEADER + cap, data := padTo cap init }] := by
  simp only [Heap.allocate] at h
  split at h
  · simp at h
  · simp only [Prod.mk.injEq, Option.some.injEq] at h
    obtain ⟨rfl, rfl⟩ := h
    simp [Heap.get?]

/-- `from_str` reads back its argument -/
theorem fromStr_text (rf : Refuse) (hp hp' : Heap) (st : List Bytes) (t : Bytes) (r : Handle)
    (hv : Valid t) (h : fromStr rf hp t = (some r, hp')) : textOf hp' st r = .ok t := by
  have h16 := Tie.maxInline_eq
  unfold fromStr at h
  split at h
  · rename_i hle
    simp only [Prod.mk.injEq, Option.some.injEq] at h
    obtain ⟨rfl, rfl⟩ := h
    have hle : t.length ≤ 16 := by omega
    simp only [textOf, inlLen_inlNew t hv hle, take_inlNew t hle]
  · split at h
    · rename_i a hp1 hnew
      simp only [Prod.mk.injEq, Option.some.injEq] at h
      obtain ⟨rfl, rfl⟩ := h
      unfold heapNew at hnew
      split at hnew
      · obtain ⟨_, hg, _⟩ := get?_allocate rf hp t.length t a hp1 hnew
        simp [textOf, hg, padTo_take]
      · simp at hnew
    · simp at h

end LS
