import LSProofs.Boundary
/-! The model of std's UTF-8 validator (`LSModel/Decode.lean`) against core Lean's encoder: one
step is sound and complete, hence `validUtf8 b = true ↔ Valid b`; the chunker of `from_utf8_lossy`
and the UTF-16 decoder against their specifications. -/
namespace LS

theorem decodeStep_encNat (v : Nat) (hv : v < 0x110000) (hs : v < 0xD800 ∨ 0xDFFF < v) (rest : Bytes) :
    decodeStep (encNat v ++ rest) = some (.inl (encNat v).length) := by
  unfold encNat
  split
  · simp [decodeStep]; omega
  · split
    · simp only [decodeStep, List.cons_append, List.nil_append, u8_toNat_ofNat, List.length_cons, List.length_nil]
      rw [if_neg (by omega), if_neg (by omega), if_pos (by omega)]
      simp; omega
    · split
      · simp only [decodeStep, List.cons_append, List.nil_append, u8_toNat_ofNat, List.length_cons, List.length_nil]
        rw [if_neg (by omega), if_neg (by omega), if_neg (by omega), if_pos (by omega)]
        by_cases h1 : (v / 4096 % 16 + 224) % 256 = 224
        · simp [h1]; rw [if_pos (by omega), if_pos (by omega)]
        · by_cases h2 : (v / 4096 % 16 + 224) % 256 = 237
          · simp [h2]; rw [if_pos (by omega), if_pos (by omega)]
          · simp [h1, h2]; rw [if_pos (by omega), if_pos (by omega)]
      · simp only [decodeStep, List.cons_append, List.nil_append, u8_toNat_ofNat, List.length_cons, List.length_nil]
        rw [if_neg (by omega), if_neg (by omega), if_neg (by omega), if_neg (by omega), if_pos (by omega)]
        by_cases h1 : (v / 262144 % 8 + 240) % 256 = 240
        · simp [h1]; rw [if_pos (by omega), if_pos (by omega), if_pos (by omega)]
        · by_cases h2 : (v / 262144 % 8 + 240) % 256 = 244
          · simp [h2]; rw [if_pos (by omega), if_pos (by omega), if_pos (by omega)]
          · simp [h1, h2]; rw [if_pos (by omega), if_pos (by omega), if_pos (by omega)]

/-- the scalar value of a decoded sequence -/
def decodeVal (b : Bytes) (w : Nat) : Nat :=
  match w, b with
  | 1, b0 :: _ => b0.toNat
  | 2, b0 :: b1 :: _ => (b0.toNat - 0xC0) * 64 + (b1.toNat - 0x80)
  | 3, b0 :: b1 :: b2 :: _ => (b0.toNat - 0xE0) * 4096 + (b1.toNat - 0x80) * 64 + (b2.toNat - 0x80)
  | 4, b0 :: b1 :: b2 :: b3 :: _ => (b0.toNat - 0xF0) * 262144 + (b1.toNat - 0x80) * 4096 + (b2.toNat - 0x80) * 64 + (b3.toNat - 0x80)
  | _, _ => 0

theorem ofNat_eq_iff (n : Nat) (b : UInt8) : UInt8.ofNat n = b ↔ n % 256 = b.toNat := by
  constructor
  · intro h; rw [← h, u8_toNat_ofNat]
  · intro h; apply UInt8.toNat_inj.1; rw [u8_toNat_ofNat]; exact h

theorem enc3_of_bytes (b0 b1 b2 : UInt8) (h0 : 0xE0 ≤ b0.toNat ∧ b0.toNat < 0xF0)
    (h1 : 0x80 ≤ b1.toNat ∧ b1.toNat ≤ 0xBF) (h2 : 0x80 ≤ b2.toNat ∧ b2.toNat ≤ 0xBF)
    (hE0 : b0.toNat = 0xE0 → 0xA0 ≤ b1.toNat) (hED : b0.toNat = 0xED → b1.toNat ≤ 0x9F) :
    ∃ v, v < 0x110000 ∧ (v < 0xD800 ∨ 0xDFFF < v) ∧ [b0, b1, b2] = encNat v := by
  refine ⟨(b0.toNat - 0xE0) * 4096 + (b1.toNat - 0x80) * 64 + (b2.toNat - 0x80), by omega, by omega, ?_⟩
  unfold encNat; rw [if_neg (by omega), if_neg (by omega), if_pos (by omega)]
  simp only [List.cons.injEq, and_true]
  refine ⟨?_, ?_, ?_⟩ <;> (apply Eq.symm; rw [ofNat_eq_iff]; omega)

theorem enc4_of_bytes (b0 b1 b2 b3 : UInt8) (h0 : 0xF0 ≤ b0.toNat ∧ b0.toNat < 0xF5)
    (h1 : 0x80 ≤ b1.toNat ∧ b1.toNat ≤ 0xBF) (h2 : 0x80 ≤ b2.toNat ∧ b2.toNat ≤ 0xBF)
    (h3 : 0x80 ≤ b3.toNat ∧ b3.toNat ≤ 0xBF)
    (hF0 : b0.toNat = 0xF0 → 0x90 ≤ b1.toNat) (hF4 : b0.toNat = 0xF4 → b1.toNat ≤ 0x8F) :
    ∃ v, v < 0x110000 ∧ (v < 0xD800 ∨ 0xDFFF < v) ∧ [b0, b1, b2, b3] = encNat v := by
  refine ⟨(b0.toNat - 0xF0) * 262144 + (b1.toNat - 0x80) * 4096 + (b2.toNat - 0x80) * 64 + (b3.toNat - 0x80),
    by omega, by omega, ?_⟩
  unfold encNat; rw [if_neg (by omega), if_neg (by omega), if_neg (by omega)]
  simp only [List.cons.injEq, and_true]
  refine ⟨?_, ?_, ?_, ?_⟩ <;> (apply Eq.symm; rw [ofNat_eq_iff]; omega)

/-- soundness of one step: an accepted sequence is the encoding of a scalar value -/
theorem decodeStep_sound (b : Bytes) (w : Nat) (h : decodeStep b = some (.inl w)) :
    ∃ v, v < 0x110000 ∧ (v < 0xD800 ∨ 0xDFFF < v) ∧ b.take w = encNat v ∧ 1 ≤ w ∧ w ≤ b.length := by
  cases b with
  | nil => simp [decodeStep] at h
  | cons b0 rest =>
    have hb0 := b0.toNat_lt
    simp only [decodeStep] at h
    split at h
    · -- ASCII
      injection h with h; injection h with h; subst h
      refine ⟨b0.toNat, by omega, by omega, ?_, by omega, by simp⟩
      unfold encNat; rw [if_pos (by omega)]; simp
    · split at h
      · cases h
      · have hb1 : ∀ (y : UInt8) (lo hi : Nat), (decide (lo ≤ y.toNat) && decide (y.toNat ≤ hi)) = true → lo ≤ y.toNat ∧ y.toNat ≤ hi := by
          intro y lo hi hy; simpa using hy
        split at h
        · -- two bytes
          cases rest with
          | nil => cases h
          | cons b1 rest2 =>
            simp only at h
            split at h
            · rename_i hc
              have := hb1 _ _ _ hc
              injection h with h; injection h with h; subst h
              refine ⟨(b0.toNat - 0xC0) * 64 + (b1.toNat - 0x80), by omega, by omega, ?_, by omega, by simp⟩
              unfold encNat; rw [if_neg (by omega), if_pos (by omega)]
              simp only [List.take_succ_cons, List.take_zero, List.cons.injEq, and_true]
              refine ⟨?_, ?_⟩ <;> (apply Eq.symm; rw [ofNat_eq_iff]; omega)
            · cases h
        · split at h
          · -- three bytes
            rename_i hx1 hx2 hx3 hx4
            cases rest with
            | nil => simp at h
            | cons b1 rest2 =>
              cases rest2 with
              | nil => simp at h; (repeat' split at h) <;> simp at h
              | cons b2 rest3 =>
                have key : ∀ lo hi, (b0.toNat = 0xE0 → 0xA0 ≤ lo) → (b0.toNat = 0xED → hi ≤ 0x9F) → 0x80 ≤ lo → hi ≤ 0xBF →
                    (if lo ≤ b1.toNat ∧ b1.toNat ≤ hi then
                      if 128 ≤ b2.toNat ∧ b2.toNat ≤ 191 then some (Sum.inl 3) else some (Sum.inr 2)
                     else some (Sum.inr 1)) = some (Sum.inl w) →
                    ∃ v, v < 0x110000 ∧ (v < 0xD800 ∨ 0xDFFF < v) ∧ (b0 :: b1 :: b2 :: rest3).take w = encNat v ∧ 1 ≤ w ∧
                      w ≤ (b0 :: b1 :: b2 :: rest3).length := by
                  intro lo hi k1 k2 k3 k4 hh
                  split at hh
                  · split at hh
                    · injection hh with hh; injection hh with hh; subst hh
                      obtain ⟨v, v1, v2, v3⟩ := enc3_of_bytes b0 b1 b2 (by omega) (by omega) (by omega) (by omega) (by omega)
                      exact ⟨v, v1, v2, by simpa using v3, by omega, by simp⟩
                    · cases hh
                  · cases hh
                by_cases e0 : b0.toNat = 0xE0
                · simp [e0] at h
                  exact key 160 191 (by omega) (by omega) (by omega) (by omega) h
                · by_cases e1 : b0.toNat = 0xED
                  · simp [e1] at h
                    exact key 128 159 (by omega) (by omega) (by omega) (by omega) h
                  · simp [e0, e1] at h
                    exact key 128 191 (by omega) (by omega) (by omega) (by omega) h
          · split at h
            · -- four bytes
              rename_i hx1 hx2 hx3 hx4 hx5
              cases rest with
              | nil => simp at h
              | cons b1 rest2 =>
                cases rest2 with
                | nil => simp at h; (repeat' split at h) <;> simp at h
                | cons b2 rest3 =>
                  cases rest3 with
                  | nil => simp at h; (repeat' split at h) <;> simp at h
                  | cons b3 rest4 =>
                    have key : ∀ lo hi, (b0.toNat = 0xF0 → 0x90 ≤ lo) → (b0.toNat = 0xF4 → hi ≤ 0x8F) → 0x80 ≤ lo → hi ≤ 0xBF →
                        (if lo ≤ b1.toNat ∧ b1.toNat ≤ hi then
                          if 128 ≤ b2.toNat ∧ b2.toNat ≤ 191 then
                            if 128 ≤ b3.toNat ∧ b3.toNat ≤ 191 then some (Sum.inl 4) else some (Sum.inr 3)
                          else some (Sum.inr 2)
                         else some (Sum.inr 1)) = some (Sum.inl w) →
                        ∃ v, v < 0x110000 ∧ (v < 0xD800 ∨ 0xDFFF < v) ∧ (b0 :: b1 :: b2 :: b3 :: rest4).take w = encNat v ∧ 1 ≤ w ∧
                          w ≤ (b0 :: b1 :: b2 :: b3 :: rest4).length := by
                      intro lo hi k1 k2 k3 k4 hh
                      split at hh
                      · split at hh
                        · split at hh
                          · injection hh with hh; injection hh with hh; subst hh
                            obtain ⟨v, v1, v2, v3⟩ := enc4_of_bytes b0 b1 b2 b3 (by omega) (by omega) (by omega) (by omega) (by omega) (by omega)
                            exact ⟨v, v1, v2, by simpa using v3, by omega, by simp⟩
                          · cases hh
                        · cases hh
                      · cases hh
                    by_cases e0 : b0.toNat = 0xF0
                    · simp [e0] at h
                      exact key 144 191 (by omega) (by omega) (by omega) (by omega) h
                    · by_cases e1 : b0.toNat = 0xF4
                      · simp [e1] at h
                        exact key 128 143 (by omega) (by omega) (by omega) (by omega) h
                      · simp [e0, e1] at h
                        exact key 128 191 (by omega) (by omega) (by omega) (by omega) h
            · cases h

/-! ## The validator accepts exactly the encodings of `Char` lists -/

theorem char_scalar (c : Char) : c.val.toNat < 0xD800 ∨ 0xDFFF < c.val.toNat := by
  rcases c.valid with h | ⟨h, _⟩
  · left; exact h
  · right; exact h

theorem decodeStep_encChar (c : Char) (rest : Bytes) :
    decodeStep (String.utf8EncodeChar c ++ rest) = some (.inl (String.utf8EncodeChar c).length) := by
  rw [encChar_eq]; exact decodeStep_encNat _ (char_val_lt c) (char_scalar c) rest

theorem encNat_is_char (v : Nat) (hv : v < 0x110000) (hs : v < 0xD800 ∨ 0xDFFF < v) :
    ∃ c : Char, String.utf8EncodeChar c = encNat v := by
  have hvalid : (UInt32.ofNat v).isValidChar := by
    have : (UInt32.ofNat v).toNat = v := by simp [UInt32.toNat_ofNat']; omega
    unfold UInt32.isValidChar Nat.isValidChar
    rw [this]; omega
  refine ⟨⟨UInt32.ofNat v, hvalid⟩, ?_⟩
  rw [encChar_eq]
  congr 1
  simp [UInt32.toNat_ofNat']; omega

theorem decodeStep_none {b : Bytes} (h : decodeStep b = none) : b = [] := by
  cases b with
  | nil => rfl
  | cons b0 rest =>
    exfalso
    simp only [decodeStep] at h
    (repeat' split at h) <;> cases h

theorem validUtf8Fuel_sound : ∀ (fuel : Nat) (b : Bytes), b.length < fuel → validUtf8Fuel fuel b = true → Valid b := by
  intro fuel
  induction fuel with
  | zero => intro b h; omega
  | succ fuel ih =>
    intro b hlen h
    simp only [validUtf8Fuel] at h
    cases hd : decodeStep b with
    | none => rw [decodeStep_none hd]; exact valid_nil
    | some r =>
      rw [hd] at h
      cases r with
      | inr k => simp at h
      | inl w =>
        simp only at h
        obtain ⟨v, v1, v2, v3, w1, w2⟩ := decodeStep_sound b w hd
        obtain ⟨c, hc⟩ := encNat_is_char v v1 v2
        have hrest := ih (b.drop w) (by simp; omega) h
        have : b = b.take w ++ b.drop w := (List.take_append_drop w b).symm
        rw [this, v3, ← hc]
        exact valid_append ⟨[c], by simp [enc]⟩ hrest

theorem validUtf8Fuel_complete : ∀ (cs : List Char) (fuel : Nat), (enc cs).length < fuel → validUtf8Fuel fuel (enc cs) = true := by
  intro cs
  induction cs with
  | nil => intro fuel h; cases fuel with | zero => omega | succ f => simp [validUtf8Fuel, enc, decodeStep]
  | cons c cs ih =>
    intro fuel h
    cases fuel with
    | zero => omega
    | succ f =>
      rw [enc_cons] at h ⊢
      simp only [validUtf8Fuel, decodeStep_encChar, List.drop_left]
      have hne : (String.utf8EncodeChar c).length ≥ 1 := by
        have := String.utf8EncodeChar_ne_nil (c := c)
        cases hh : String.utf8EncodeChar c with
        | nil => exact absurd hh this
        | cons _ _ => simp
      exact ih f (by rw [List.length_append] at h; omega)

/-- **`from_utf8` accepts exactly the byte strings that are the UTF-8 encoding of a sequence of
Unicode scalar values** (core Lean's `String.utf8EncodeChar` as the definition of UTF-8) -/
theorem validUtf8_iff (b : Bytes) : validUtf8 b = true ↔ Valid b := by
  constructor
  · exact validUtf8Fuel_sound _ b (by omega)
  · rintro ⟨cs, rfl⟩; exact validUtf8Fuel_complete cs _ (by omega)


/-! ## The chunker of `from_utf8_lossy` -/


theorem valid_encChar (c : Char) : Valid (String.utf8EncodeChar c) := ⟨[c], by simp [enc]⟩

theorem valid_replacement : Valid replacement := by
  refine ⟨[⟨0xFFFD, by decide⟩], ?_⟩
  decide

/-- every valid part the chunker reports is valid UTF-8 -/
theorem utf8ChunksFuel_valid : ∀ (fuel : Nat) (b acc : Bytes), Valid acc →
    ∀ p ∈ utf8ChunksFuel fuel b acc, Valid p.1 := by
  intro fuel
  induction fuel with
  | zero =>
    intro b acc ha p hp
    simp only [utf8ChunksFuel] at hp
    split at hp
    · cases hp
    · simp at hp; subst hp; exact ha
  | succ fuel ih =>
    intro b acc ha p hp
    simp only [utf8ChunksFuel] at hp
    cases hd : decodeStep b with
    | none =>
      rw [hd] at hp; simp only at hp
      split at hp
      · cases hp
      · simp at hp; subst hp; exact ha
    | some r =>
      rw [hd] at hp
      cases r with
      | inl w =>
        simp only at hp
        obtain ⟨v, v1, v2, v3, _, _⟩ := decodeStep_sound b w hd
        obtain ⟨c, hc⟩ := encNat_is_char v v1 v2
        exact ih _ _ (valid_append ha (by rw [v3, ← hc]; exact valid_encChar c)) p hp
      | inr k =>
        simp only [List.mem_cons] at hp
        rcases hp with rfl | hp
        · exact ha
        · exact ih _ _ valid_nil p hp

theorem lossyPushes_valid (b : Bytes) : ∀ s, some s ∈ lossyPushes b → Valid s := by
  intro s hs
  unfold lossyPushes at hs
  simp only [List.mem_flatMap] at hs
  obtain ⟨⟨v, i⟩, hp, hs⟩ := hs
  have hv : Valid v := utf8ChunksFuel_valid _ b [] valid_nil (v, i) hp
  by_cases hi : i.isEmpty
  · simp [hi] at hs; subst hs; exact hv
  · simp [hi] at hs
    rcases hs with rfl | rfl
    · exact hv
    · exact valid_replacement



/-! ## `lossyText` -/

theorem encChar_length_pos (c : Char) : 1 ≤ (String.utf8EncodeChar c).length := by
  have := String.utf8EncodeChar_ne_nil (c := c)
  cases hh : String.utf8EncodeChar c with
  | nil => exact absurd hh this
  | cons _ _ => simp

/-- on valid input the chunker reports one chunk: the whole input, nothing invalid -/
theorem utf8ChunksFuel_enc : ∀ (cs : List Char) (fuel : Nat) (acc : Bytes), (enc cs).length < fuel →
    utf8ChunksFuel fuel (enc cs) acc = if (acc ++ enc cs).isEmpty then [] else [(acc ++ enc cs, [])] := by
  intro cs
  induction cs with
  | nil =>
    intro fuel acc h
    cases fuel with
    | zero => omega
    | succ f => simp [utf8ChunksFuel, enc, decodeStep]
  | cons c cs ih =>
    intro fuel acc h
    cases fuel with
    | zero => omega
    | succ f =>
      rw [enc_cons] at h ⊢
      have := encChar_length_pos c
      simp only [utf8ChunksFuel, decodeStep_encChar, List.drop_left, List.take_left]
      rw [ih f _ (by rw [List.length_append] at h; omega)]
      simp [List.append_assoc]

/-- **`from_utf8_lossy` is the identity on valid UTF-8** -/
theorem lossyText_valid_id (b : Bytes) (hv : Valid b) : lossyText b = b := by
  obtain ⟨cs, rfl⟩ := hv
  unfold lossyText utf8Chunks
  rw [utf8ChunksFuel_enc cs _ [] (by omega)]
  by_cases he : (enc cs).isEmpty
  · simp [he]; simpa using he
  · simp [he]

/-- **the text `from_utf8_lossy` produces is always valid UTF-8** -/
theorem lossyText_valid (b : Bytes) : Valid (lossyText b) := by
  unfold lossyText
  have hall := utf8ChunksFuel_valid (b.length + 1) b [] valid_nil
  unfold utf8Chunks
  generalize utf8ChunksFuel (b.length + 1) b [] = chunks at hall
  induction chunks with
  | nil => exact valid_nil
  | cons p ps ih =>
    obtain ⟨v, i⟩ := p
    simp only [List.flatMap_cons]
    refine valid_append ?_ (ih (fun q hq => hall q (List.mem_cons_of_mem _ hq)))
    have hv : Valid v := hall (v, i) (List.mem_cons_self ..)
    by_cases hi : i.isEmpty
    · simp [hi]; exact hv
    · simp [hi]; exact valid_append hv valid_replacement


/-! ## UTF-16 -/

theorem char_ofNat_val (c : Char) : Char.ofNat c.val.toNat = c := Char.ofNat_toNat c

theorem char_ofNat_toNat (v : Nat) (h : v.isValidChar) : (Char.ofNat v).val.toNat = v := by
  rw [Char.ofNat, dif_pos h]; rfl

theorem encodeUtf16_cons (c : Char) (cs : List Char) :
    encodeUtf16 (c :: cs) = utf16Units c.val.toNat ++ encodeUtf16 cs := by simp [encodeUtf16]

theorem decodeUtf16_bmp (u : Nat) (rest : List Nat) (h : u < 0xD800 ∨ 0xDFFF < u) :
    decodeUtf16 (u :: rest) = some (String.utf8EncodeChar (Char.ofNat u)) :: decodeUtf16 rest := by
  rw [decodeUtf16.eq_def]; simp [h]

theorem decodeUtf16_pair (u u2 : Nat) (rest2 : List Nat) (h1 : 0xD800 ≤ u ∧ u < 0xDC00) (h2 : 0xDC00 ≤ u2 ∧ u2 ≤ 0xDFFF) :
    decodeUtf16 (u :: u2 :: rest2) =
      some (String.utf8EncodeChar (Char.ofNat (0x10000 + (u - 0xD800) * 0x400 + (u2 - 0xDC00)))) :: decodeUtf16 rest2 := by
  rw [decodeUtf16.eq_def]; simp only []; rw [if_neg (by omega), if_neg (by omega)]; simp [h2]

/-- **decoding the UTF-16 encoding of a text yields its characters, none rejected** -/
theorem decodeUtf16_encode (cs : List Char) :
    decodeUtf16 (encodeUtf16 cs) = cs.map fun c => some (String.utf8EncodeChar c) := by
  induction cs with
  | nil => rfl
  | cons c cs ih =>
    rw [encodeUtf16_cons, List.map_cons]
    have hv := char_val_lt c
    have hs := char_scalar c
    unfold utf16Units
    split
    · simp only [List.cons_append, List.nil_append]
      rw [decodeUtf16_bmp _ _ hs, char_ofNat_val, ih]
    · simp only [List.cons_append, List.nil_append]
      rw [decodeUtf16_pair _ _ _ (by omega) (by omega), ih]
      have : 0x10000 + (0xD800 + (c.val.toNat - 0x10000) / 0x400 - 0xD800) * 0x400 +
          (0xDC00 + (c.val.toNat - 0x10000) % 0x400 - 0xDC00) = c.val.toNat := by omega
      rw [this, char_ofNat_val]

/-- **an input in which the decoder rejects nothing is the UTF-16 encoding of a text** -/
theorem decodeUtf16_accepts (u : List Nat) (hu : ∀ x ∈ u, x < 0x10000) (h : ∀ x ∈ decodeUtf16 u, x ≠ none) :
    ∃ cs, u = encodeUtf16 cs := by
  induction u using decodeUtf16.induct with
  | case1 => exact ⟨[], rfl⟩
  | case2 u rest hns ih =>
    rw [decodeUtf16_bmp _ _ hns] at h
    obtain ⟨cs, hcs⟩ := ih (fun x hx => hu x (List.mem_cons_of_mem _ hx)) (fun x hx => h x (List.mem_cons_of_mem _ hx))
    have hlt := hu u (List.mem_cons_self ..)
    have hvalid : u.isValidChar := by unfold Nat.isValidChar; omega
    refine ⟨Char.ofNat u :: cs, ?_⟩
    rw [encodeUtf16_cons, char_ofNat_toNat u hvalid, ← hcs]
    simp [utf16Units, hlt]
  | case3 u rest h1 h2 ih =>
    exfalso; apply h none _ rfl
    rw [decodeUtf16.eq_def]; simp only []; rw [if_neg h1, if_pos h2]; exact List.mem_cons_self ..
  | case4 u h1 h2 =>
    exfalso; apply h none _ rfl
    rw [decodeUtf16.eq_def]; simp only []; rw [if_neg h1, if_neg h2]; exact List.mem_cons_self ..
  | case5 u h1 h2 u2 rest2 h3 ih =>
    rw [decodeUtf16_pair _ _ _ (by omega) h3] at h
    obtain ⟨cs, hcs⟩ := ih (fun x hx => hu x (List.mem_cons_of_mem _ (List.mem_cons_of_mem _ hx)))
      (fun x hx => h x (List.mem_cons_of_mem _ hx))
    have hvalid : (0x10000 + (u - 0xD800) * 0x400 + (u2 - 0xDC00)).isValidChar := by unfold Nat.isValidChar; omega
    refine ⟨Char.ofNat (0x10000 + (u - 0xD800) * 0x400 + (u2 - 0xDC00)) :: cs, ?_⟩
    rw [encodeUtf16_cons, char_ofNat_toNat _ hvalid, ← hcs]
    simp only [utf16Units]
    rw [if_neg (by omega)]
    simp only [List.cons_append, List.nil_append, List.cons.injEq, and_true]
    omega
  | case6 u h1 h2 u2 rest2 h3 ih =>
    exfalso; apply h none _ rfl
    rw [decodeUtf16.eq_def]; simp only []; rw [if_neg h1, if_neg h2, if_neg h3]; exact List.mem_cons_self ..


end LS
