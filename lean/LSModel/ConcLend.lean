/-!
# C04, extended: the protocol with handles *lent by reference* to other threads (`&LeanString`)

Same micro-steps as `LS.Conc`, plus: the owner of a handle may `lend` it (it then performs no
operation on it until `reclaim`: Rust's borrow rules — no `&mut` while shared borrows exist);
while it is lent any other thread may `cloneBorrowed` (`fetch_add`, a new handle of its own) or
read through the borrowed reference (`readBorrowedStart/End`); `reclaim` requires that no borrowed
read is in progress (the borrow has ended: scoped threads / `Arc` hand-back synchronise).

Text is abstracted away (each thread's own results come from the sequential model); what remains
per block is `live` and the count. A thread owns handles (block ids, with multiplicity) and is in
one *phase*. Every public operation is a sequence of the micro-steps below, exactly the atomic
operations and buffer accesses `src/repr.rs` performs, in its order:

* `clone`      : `fetch_add(1, Relaxed)`; a new handle on the same block
* `drop`       : `fetch_sub(1, Release)`; the thread that saw 1: `fence(Acquire)`, `dealloc`
* make-unique (`reserve`, `ensure_modifiable`, hence push/insert/remove/retain/shrink/clear):
                 `load(Acquire)`; 1 → write / realloc in place; otherwise read the shared buffer
                 **while still holding the reference**, allocate, then release the old reference
* read         : `as_str()` through an owned handle (two steps, so that overlap is visible)

`legacy = true` adds the pre-repair make-unique (decrement first, read afterwards).
-/
namespace LS.ConcL

inductive Phase
  | idle
  | dying (a : Nat)      -- our decrement saw 1: fence + dealloc pending
  | unique (a : Nat)     -- the load saw 1: in-place write / realloc pending
  | copying (a : Nat)    -- the load saw > 1: reading the shared buffer, reference still held
  | copied (a : Nat)     -- copy done; the old reference still to be released
  | reading (a : Nat)    -- inside a read through an owned handle
  | legacyCopying (a : Nat)  -- pre-repair: reference already given up, buffer still to be read
  | lending (a : Nat)        -- our handle on `a` is lent by reference; we do not touch it
  | readingBorrowed (a : Nat)  -- reading through a `&LeanString` lent by another thread
  deriving DecidableEq, Repr

structure Thread where
  owned : List Nat := []
  phase : Phase := .idle
  deriving DecidableEq, Repr

structure Blk where
  live : Bool
  rc : Nat
  deriving DecidableEq, Repr

structure Cfg where
  blocks : List Blk
  threads : List Thread
  deriving DecidableEq, Repr

inductive Act
  | clone (a : Nat) | drop (a : Nat) | free | probe (a : Nat) | write | copyRead | copyFinish
  | readStart (a : Nat) | readEnd | legacyProbe (a : Nat) | legacyRead
  | lend (a : Nat) | reclaim | cloneBorrowed (a : Nat) | readBorrowedStart (a : Nat) | readBorrowedEnd
  deriving DecidableEq, Repr

def setRc (bs : List Blk) (a : Nat) (f : Nat → Nat) : List Blk :=
  match bs[a]? with
  | some b => bs.set a { b with rc := f b.rc }
  | none => bs

def rcOf (bs : List Blk) (a : Nat) : Nat := match bs[a]? with | some b => b.rc | none => 0
def liveOf (bs : List Blk) (a : Nat) : Bool := match bs[a]? with | some b => b.live | none => false

/-- one micro-step of thread `i`; `none` = not enabled -/
def step (legacy : Bool) (c : Cfg) (i : Nat) (act : Act) : Option Cfg :=
  match c.threads[i]? with
  | none => none
  | some t =>
    let put (t' : Thread) (bs : List Blk) : Option Cfg := some { blocks := bs, threads := c.threads.set i t' }
    match act, t.phase with
    | .clone a, .idle =>
      if a ∈ t.owned then put { t with owned := a :: t.owned } (setRc c.blocks a (· + 1)) else none
    | .drop a, .idle =>
      if a ∈ t.owned then
        put { owned := t.owned.erase a, phase := if rcOf c.blocks a = 1 then .dying a else .idle } (setRc c.blocks a (· - 1))
      else none
    | .free, .dying a =>
      match c.blocks[a]? with
      | some b => put { t with phase := .idle } (c.blocks.set a { b with live := false })
      | none => none
    | .probe a, .idle =>
      if a ∈ t.owned then put { t with phase := if rcOf c.blocks a = 1 then .unique a else .copying a } c.blocks else none
    | .write, .unique _ => put { t with phase := .idle } c.blocks
    | .copyRead, .copying a => put { t with phase := .copied a } c.blocks
    | .copyFinish, .copied a =>
      -- fresh block, then `replace_inner`: release the old reference
      let n := c.blocks.length
      put { owned := n :: t.owned.erase a, phase := if rcOf c.blocks a = 1 then .dying a else .idle }
          (setRc (c.blocks ++ [{ live := true, rc := 1 }]) a (· - 1))
    | .readStart a, .idle => if a ∈ t.owned then put { t with phase := .reading a } c.blocks else none
    | .readEnd, .reading _ => put { t with phase := .idle } c.blocks
    | .legacyProbe a, .idle =>
      if legacy && a ∈ t.owned then
        if rcOf c.blocks a = 1 then put { t with phase := .unique a } c.blocks   -- dec then inc: net zero
        else put { owned := t.owned.erase a, phase := .legacyCopying a } (setRc c.blocks a (· - 1))
      else none
    | .legacyRead, .legacyCopying _ =>
      if legacy then
        let n := c.blocks.length
        put { owned := n :: t.owned, phase := .idle } (c.blocks ++ [{ live := true, rc := 1 }])
      else none
    | .lend a, .idle => if a ∈ t.owned then put { t with phase := .lending a } c.blocks else none
    | .reclaim, .lending a =>
      if c.threads.all (fun u => u.phase != .readingBorrowed a) then put { t with phase := .idle } c.blocks else none
    | .cloneBorrowed a, .idle =>
      if c.threads.any (fun u => u.phase == .lending a) then put { t with owned := a :: t.owned } (setRc c.blocks a (· + 1)) else none
    | .readBorrowedStart a, .idle =>
      if c.threads.any (fun u => u.phase == .lending a) then put { t with phase := .readingBorrowed a } c.blocks else none
    | .readBorrowedEnd, .readingBorrowed _ => put { t with phase := .idle } c.blocks
    | _, _ => none

def run (legacy : Bool) (c : Cfg) : List (Nat × Act) → Option Cfg
  | [] => some c
  | (i, a) :: rest => match step legacy c i a with
    | some c' => run legacy c' rest
    | none => none

/-- the block a phase is working on -/
def Phase.block : Phase → Option Nat
  | .idle => none
  | .dying a | .unique a | .copying a | .copied a | .reading a | .legacyCopying a | .readingBorrowed a => some a
  | .lending _ => none

/-- does the phase access the buffer's bytes/header (anything but `idle`)? -/
def Phase.accesses (p : Phase) (a : Nat) : Bool := p.block == some a

/-- memory safety of a configuration: every buffer a thread is working on is live; a thread about
to write/realloc in place, or to free, is alone on that buffer -/
def Safe (c : Cfg) : Prop :=
  (∀ (i : Nat) (t : Thread), c.threads[i]? = some t → ∀ a, t.phase.block = some a → liveOf c.blocks a = true) ∧
  (∀ (i : Nat) (t : Thread), c.threads[i]? = some t → ∀ a, (t.phase = .unique a ∨ t.phase = .dying a) →
     ∀ (j : Nat) (u : Thread), j ≠ i → c.threads[j]? = some u → a ∉ u.owned ∧ u.phase.block ≠ some a)

end LS.ConcL
