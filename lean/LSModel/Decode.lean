import LSModel.Handle
/-!
# UTF-8 validation and the chunking of `from_utf8_lossy`

`utf8Chunks` is std's `<[u8]>::utf8_chunks` (maximal valid prefix, then the maximal invalid
subpart: 1–3 bytes as in the Unicode "substitution of maximal subparts" practice).
-/
namespace LS

/-- length of the valid character starting the list, or the number of bytes of the invalid
sequence to skip: `(.inl width)` valid, `(.inr skip)` invalid -/
def decodeStep (b : Bytes) : Option (Sum Nat Nat) :=
  match b with
  | [] => none
  | b0 :: rest =>
    let x := b0.toNat
    let cont (y : UInt8) (lo hi : Nat) : Bool := decide (lo ≤ y.toNat) && decide (y.toNat ≤ hi)
    if x < 0x80 then some (.inl 1)
    else if x < 0xC2 then some (.inr 1)
    else if x < 0xE0 then
      match rest with
      | b1 :: _ => if cont b1 0x80 0xBF then some (.inl 2) else some (.inr 1)
      | [] => some (.inr 1)
    else if x < 0xF0 then
      let (lo, hi) := if x == 0xE0 then (0xA0, 0xBF) else if x == 0xED then (0x80, 0x9F) else (0x80, 0xBF)
      match rest with
      | b1 :: rest2 =>
        if cont b1 lo hi then
          match rest2 with
          | b2 :: _ => if cont b2 0x80 0xBF then some (.inl 3) else some (.inr 2)
          | [] => some (.inr 2)
        else some (.inr 1)
      | [] => some (.inr 1)
    else if x < 0xF5 then
      let (lo, hi) := if x == 0xF0 then (0x90, 0xBF) else if x == 0xF4 then (0x80, 0x8F) else (0x80, 0xBF)
      match rest with
      | b1 :: rest2 =>
        if cont b1 lo hi then
          match rest2 with
          | b2 :: rest3 =>
            if cont b2 0x80 0xBF then
              match rest3 with
              | b3 :: _ => if cont b3 0x80 0xBF then some (.inl 4) else some (.inr 3)
              | [] => some (.inr 3)
            else some (.inr 2)
          | [] => some (.inr 2)
        else some (.inr 1)
      | [] => some (.inr 1)
    else some (.inr 1)

/-- `str::from_utf8(b).is_ok()` -/
def validUtf8Fuel : Nat → Bytes → Bool
  | 0, b => b.isEmpty
  | fuel + 1, b =>
    match decodeStep b with
    | none => true
    | some (.inl w) => validUtf8Fuel fuel (b.drop w)
    | some (.inr _) => false

def validUtf8 (b : Bytes) : Bool := validUtf8Fuel (b.length + 1) b

/-- `utf8_chunks`: list of (valid, invalid) -/
def utf8ChunksFuel : Nat → Bytes → Bytes → List (Bytes × Bytes)
  | 0, _, valid => if valid.isEmpty then [] else [(valid, [])]
  | fuel + 1, b, valid =>
    match decodeStep b with
    | none => if valid.isEmpty then [] else [(valid, [])]
    | some (.inl w) => utf8ChunksFuel fuel (b.drop w) (valid ++ b.take w)
    | some (.inr k) => (valid, b.take k) :: utf8ChunksFuel fuel (b.drop k) []

def utf8Chunks (b : Bytes) : List (Bytes × Bytes) := utf8ChunksFuel (b.length + 1) b []

def replacement : Bytes := [0xEF, 0xBF, 0xBD]

/-- the sequence of `push_str(valid)` / `push(U+FFFD)` calls `from_utf8_lossy` makes -/
def lossyPushes (b : Bytes) : List (Option Bytes) :=
  (utf8Chunks b).flatMap fun (v, i) => if i.isEmpty then [some v] else [some v, some replacement]

end LS

namespace LS

/-- `char::decode_utf16`: each item is the UTF-8 bytes of a decoded char, or `none` for an unpaired surrogate -/
def decodeUtf16 : List Nat → List (Option Bytes)
  | [] => []
  | u :: rest =>
    if u < 0xD800 ∨ 0xDFFF < u then some (String.utf8EncodeChar (Char.ofNat u)) :: decodeUtf16 rest
    else if u ≥ 0xDC00 then none :: decodeUtf16 rest
    else match rest with
      | [] => [none]
      | u2 :: rest2 =>
        if 0xDC00 ≤ u2 ∧ u2 ≤ 0xDFFF then
          some (String.utf8EncodeChar (Char.ofNat (0x10000 + (u - 0xD800) * 0x400 + (u2 - 0xDC00)))) :: decodeUtf16 rest2
        else none :: decodeUtf16 (u2 :: rest2)

end LS
