import LSModel.Basic
/-!
# `Handle` (the crate's `Repr`): the two-word handle, and every `Repr` method of `src/repr.rs`

Each function is written in the order of the Rust source (check, count, copy, write, free), over a
heap and *one* handle; the pool-level `step` (Api.lean) stores the resulting handle back.
-/
namespace LS

inductive Handle
  | inl  (raw : Bytes)          -- the 16 raw bytes; byte 15 is the tag, or text when len = 16
  | heap (addr len : Nat)       -- pointer to a block, handle-local length
  | stat (sid len : Nat)        -- pointer to the caller's 'static text, handle-local length
  deriving DecidableEq, Repr

/-! ## Inline buffer (`inline_buffer.rs`) and the length decoding of `Handle::len` -/

def inlLast (raw : Bytes) : Nat := (raw.getD 15 0).toNat

/-- `a.wrapping_sub(b)` on `usize` operands (`a, b < 2^64`), written without `%`: the kernel cannot
evaluate `Nat.mod` on symbolic arguments (it unfolds the well-founded recursion and does not come back),
which used to block every proof that runs an operation on a symbolic inline handle.
`wrappingSub_eq_mod` (LSProofs/InlineLemmas.lean) proves it equal to `(a + 2^64 - b) % 2^64`. -/
def wrappingSub (a b : Nat) : Nat := if b ≤ a then a - b else a + USIZE - b

/-- `(last_byte as usize).wrapping_sub(MASK_1100_0000).min(MAX_INLINE_SIZE)` -/
def inlLen (raw : Bytes) : Nat := min (wrappingSub (inlLast raw) Gen.mask1100) MAX_INLINE

def inlTag (len : Nat) : UInt8 := UInt8.ofNat ((len % 256) ||| Gen.mask1100)

/-- `InlineBuffer::new(text)`: zeroed buffer, tag in the last byte, then the text copied over -/
def inlNew (text : Bytes) : Bytes :=
  text ++ ((List.replicate (MAX_INLINE - 1) (0 : UInt8)) ++ [inlTag text.length]).drop text.length

def inlEmpty : Bytes := inlNew []

/-- `InlineBuffer::set_len` -/
def inlSetLen (raw : Bytes) (n : Nat) : Bytes :=
  if n < MAX_INLINE then raw.set (MAX_INLINE - 1) (inlTag n) else raw

/-! ## Reading a handle -/

def Handle.len : Handle → Nat
  | .inl raw => inlLen raw
  | .heap _ l => l
  | .stat _ l => l

/-- the last byte of the 16, which discriminates the storage kind (`last_byte.rs`) -/
def Handle.lastByte : Handle → Nat
  | .inl raw => inlLast raw
  | .heap _ l => (l ||| (Gen.heapMarker <<< 56)) >>> 56
  | .stat _ l => (l ||| (Gen.staticMarker <<< 56)) >>> 56

/-- `as_bytes()`: the text a handle reads -/
def textOf (hp : Heap) (st : List Bytes) : Handle → Except UB Bytes
  | .inl raw => .ok (raw.take (inlLen raw))
  | .heap a l =>
    match hp.get? a with
    | none => .error .useAfterFree
    | some b => if l ≤ b.cap then .ok (b.data.take l) else .error .oob
  | .stat s l =>
    match st[s]? with
    | none => .error .badStatic
    | some t => if l ≤ t.length then .ok (t.take l) else .error .oob

def Handle.capacity (hp : Heap) : Handle → Except UB Nat
  | .inl _ => .ok MAX_INLINE
  | .heap a _ => match hp.get? a with | some b => .ok b.cap | none => .error .useAfterFree
  | .stat _ l => .ok l

def Handle.isUnique (hp : Heap) : Handle → Except UB Bool
  | .heap a _ => match hp.get? a with | some b => .ok (b.rc == 1) | none => .error .useAfterFree
  | _ => .ok true

/-- the release half of `replace_inner` -/
def releaseRepr (hp : Heap) : Handle → Except UB Heap
  | .heap a _ => hp.release a
  | _ => .ok hp

/-! ## Results -/

inductive Res (α : Type)
  | ok (v : α) (hp : Heap) (r : Handle)
  | err (hp : Heap) (r : Handle)       -- `Err(ReserveError)`
  | pidx (hp : Heap) (r : Handle)      -- index assertion failed
  | pcb (hp : Heap) (r : Handle)       -- a user callback panicked
  | ub (u : UB)

/-! ## Constructors -/

/-- `Handle::from_str` -/
def fromStr (rf : Refuse) (hp : Heap) (text : Bytes) : Option Handle × Heap :=
  if text.length ≤ MAX_INLINE then (some (.inl (inlNew text)), hp)
  else match heapNew rf hp text with
    | (some a, hp') => (some (.heap a text.length), hp')
    | (none, hp') => (none, hp')

/-- `Handle::with_capacity` -/
def withCapacity (rf : Refuse) (hp : Heap) (cap : Nat) : Option Handle × Heap :=
  if cap ≤ MAX_INLINE then (some (.inl inlEmpty), hp)
  else match heapWithCapacity rf hp cap with
    | (some a, hp') => (some (.heap a 0), hp')
    | (none, hp') => (none, hp')

/-! ## `set_len`, raw writes -/

/-- `Handle::set_len` -/
def setLen (r : Handle) (n : Nat) : Except UB Handle :=
  match r with
  | .stat s _ => if n ≤ STATIC_MAX_LEN then .ok (.stat s n) else .error .lenOverflow
  | .heap a _ => if n ≤ MAX_LEN then .ok (.heap a n) else .error .lenOverflow
  | .inl raw => if n ≤ MAX_INLINE then .ok (.inl (inlSetLen raw n)) else .error .oob

/-- write `s` at `off` through `as_slice_mut()` (capacity-long slice of owned storage) -/
def writeBytes (hp : Heap) (r : Handle) (off : Nat) (s : Bytes) : Except UB (Heap × Handle) :=
  match r with
  | .stat _ _ => .error .writeStatic
  | .inl raw =>
    if off + s.length ≤ MAX_INLINE ∧ raw.length = MAX_INLINE then .ok (hp, .inl (writeAt raw off s))
    else .error .oob
  | .heap a l => match hp.write a off s with
    | .ok hp' => .ok (hp', .heap a l)
    | .error u => .error u

/-! ## `reserve`, `ensure_modifiable`, `shrink_to` -/

/-- move the text of a shared/static/inline handle to a fresh block from `alloc`, then release
the old reference (`replace_inner`): the copy happens while the reference is still held -/
def moveTo (hp : Heap) (r : Handle) (len : Nat) (res : Option Nat × Heap) : Res Unit :=
  match res with
  | (none, hp1) => .err hp1 r
  | (some a', hp1) =>
    match releaseRepr hp1 r with
    | .error u => .ub u
    | .ok hp2 => .ok () hp2 (.heap a' len)

/-- `Handle::reserve` -/
def reserve (rf : Refuse) (st : List Bytes) (hp : Heap) (r : Handle) (additional : Nat) : Res Unit :=
  let len := r.len
  match checkedAdd len additional with
  | none => .err hp r
  | some needed =>
    match r with
    | .heap a l =>
      match hp.get? a with
      | none => .ub .useAfterFree
      | some b =>
        if b.rc = 1 then
          if b.cap ≥ needed then .ok () hp r
          else match hp.realloc rf a (Gen.amortizedGrowth len additional) with
            | .moved hp' a' => .ok () hp' (.heap a' l)
            | .refused hp' => .err hp' r
            | .ub u => .ub u
        else
          if l ≤ b.cap then
            moveTo hp r l (heapWithAdditional rf hp (b.data.take l) additional)
          else .ub .oob
    | .stat _ l =>
      match textOf hp st r with
      | .error u => .ub u
      | .ok t =>
        if needed ≤ MAX_INLINE then .ok () hp (.inl (inlNew t))
        else moveTo hp r l (heapWithAdditional rf hp t additional)
    | .inl raw =>
      if needed > MAX_INLINE then
        moveTo hp r len (heapWithAdditional rf hp (raw.take len) additional)
      else .ok () hp r

/-- `Handle::ensure_modifiable` -/
def ensureModifiable (rf : Refuse) (st : List Bytes) (hp : Heap) (r : Handle) : Res Unit :=
  match r with
  | .heap a l =>
    match hp.get? a with
    | none => .ub .useAfterFree
    | some b =>
      if b.rc = 1 then .ok () hp r
      else if l ≤ b.cap then moveTo hp r l (heapNew rf hp (b.data.take l))
      else .ub .oob
  | .stat _ _ =>
    match textOf hp st r with
    | .error u => .ub u
    | .ok t =>
      match fromStr rf hp t with
      | (none, hp1) => .err hp1 r
      | (some r', hp1) => .ok () hp1 r'     -- `replace_inner` on a static handle releases nothing
  | .inl _ => .ok () hp r

/-- `Handle::shrink_to` -/
def shrinkTo (rf : Refuse) (hp : Heap) (r : Handle) (minCap : Nat) : Res Unit :=
  match r with
  | .heap a l =>
    match hp.get? a with
    | none => .ub .useAfterFree
    | some b =>
      let newCap := max l minCap
      if newCap ≤ MAX_INLINE then
        if l ≤ b.cap then
          match hp.release a with
          | .error u => .ub u
          | .ok hp' => .ok () hp' (.inl (inlNew (b.data.take l)))
        else .ub .oob
      else if newCap ≥ b.cap then .ok () hp r
      else if b.rc = 1 then
        match hp.realloc rf a newCap with
        | .moved hp' a' => .ok () hp' (.heap a' l)
        | .refused hp' => .err hp' r
        | .ub u => .ub u
      else
        if l ≤ b.cap then moveTo hp r l (heapWithCapacityFrom rf hp (b.data.take l) newCap)
        else .ub .oob
  | _ => .ok () hp r

/-! ## Mutators -/

/-- write then `set_len` -/
def writeThenSetLen (hp : Heap) (r : Handle) (off : Nat) (s : Bytes) (newLen : Nat) : Res Unit :=
  match writeBytes hp r off s with
  | .error u => .ub u
  | .ok (hp', r') =>
    match setLen r' newLen with
    | .error u => .ub u
    | .ok r'' => .ok () hp' r''

/-- `Handle::push_str` -/
def pushStr (rf : Refuse) (st : List Bytes) (hp : Heap) (r : Handle) (s : Bytes) : Res Unit :=
  if s.isEmpty then .ok () hp r
  else
    let len := r.len
    match reserve rf st hp r s.length with
    | .ok _ hp1 r1 => writeThenSetLen hp1 r1 len s (len + s.length)
    | other => other

/-- `Handle::truncate_unchecked` (64-bit: the length is handle-local) -/
def truncateUnchecked (r : Handle) (newLen : Nat) : Except UB Handle := setLen r newLen

/-- `Handle::pop`; the popped character is returned as its bytes -/
def pop (st : List Bytes) (hp : Heap) (r : Handle) : Res (Option Bytes) :=
  match textOf hp st r with
  | .error u => .ub u
  | .ok t =>
    if t.isEmpty then .ok none hp r
    else
      let newLen := t.length - (trailing t + 1)
      match truncateUnchecked r newLen with
      | .error u => .ub u
      | .ok r' => .ok (some (t.drop newLen)) hp r'

/-- `Handle::truncate` -/
def truncate (st : List Bytes) (hp : Heap) (r : Handle) (newLen : Nat) : Res Unit :=
  if newLen ≥ r.len then .ok () hp r
  else match textOf hp st r with
    | .error u => .ub u
    | .ok t =>
      if !isBoundary t newLen then .pidx hp r
      else match truncateUnchecked r newLen with
        | .error u => .ub u
        | .ok r' => .ok () hp r'

/-- `Handle::remove`; the removed character is returned as its bytes -/
def remove (rf : Refuse) (st : List Bytes) (hp : Heap) (r : Handle) (idx : Nat) : Res Bytes :=
  match textOf hp st r with
  | .error u => .ub u
  | .ok t =>
    if !isBoundary t idx then .pidx hp r
    else if !(idx < t.length) then .pidx hp r
    else match ensureModifiable rf st hp r with
      | .ok _ hp1 r1 =>
        match textOf hp1 st r1 with
        | .error u => .ub u
        | .ok t1 =>
          let w := charWidth (t1.getD idx 0)
          match writeThenSetLen hp1 r1 idx (t1.drop (idx + w)) (t1.length - w) with
          | .ok _ hp2 r2 => .ok ((t1.drop idx).take w) hp2 r2
          | .err hp2 r2 => .err hp2 r2
          | .pidx hp2 r2 => .pidx hp2 r2
          | .pcb hp2 r2 => .pcb hp2 r2
          | .ub u => .ub u
      | .err hp1 r1 => .err hp1 r1
      | .pidx hp1 r1 => .pidx hp1 r1
      | .pcb hp1 r1 => .pcb hp1 r1
      | .ub u => .ub u

/-- the scan of `retain`: `answers[k]` is the predicate's k-th answer (`none` = it panics; an
exhausted list answers `true`). Returns the kept bytes and whether the predicate panicked. -/
def retainScan : Nat → Bytes → List (Option Bool) → Bytes → Bytes × Bool
  | 0, _, _, acc => (acc, false)
  | fuel + 1, rest, answers, acc =>
    match rest with
    | [] => (acc, false)
    | b :: _ =>
      let w := charWidth b
      match answers.headD (some true) with
      | none => (acc, true)
      | some keep =>
        retainScan fuel (rest.drop w) answers.tail (if keep then acc ++ rest.take w else acc)

/-- `Handle::retain` -/
def retain (rf : Refuse) (st : List Bytes) (hp : Heap) (r : Handle) (answers : List (Option Bool)) : Res Unit :=
  match ensureModifiable rf st hp r with
  | .ok _ hp1 r1 =>
    match textOf hp1 st r1 with
    | .error u => .ub u
    | .ok t =>
      let (kept, panicked) := retainScan t.length t answers []
      match writeThenSetLen hp1 r1 0 kept kept.length with
      | .ok _ hp2 r2 => if panicked then .pcb hp2 r2 else .ok () hp2 r2
      | other => other
  | other => other

/-- `Handle::insert_str` -/
def insertStr (rf : Refuse) (st : List Bytes) (hp : Heap) (r : Handle) (idx : Nat) (s : Bytes) : Res Unit :=
  match textOf hp st r with
  | .error u => .ub u
  | .ok t =>
    if !isBoundary t idx then .pidx hp r
    else match checkedAdd r.len s.length with
      | none => .err hp r
      | some newLen =>
        match reserve rf st hp r s.length with
        | .ok _ hp1 r1 =>
          match textOf hp1 st r1 with
          | .error u => .ub u
          | .ok t1 => writeThenSetLen hp1 r1 idx (s ++ t1.drop idx) newLen
        | other => other

/-- `LeanString::clear` -/
def clear (hp : Heap) (r : Handle) : Res Unit :=
  match r.isUnique hp with
  | .error u => .ub u
  | .ok true => match setLen r 0 with
    | .error u => .ub u
    | .ok r' => .ok () hp r'
  | .ok false => match releaseRepr hp r with
    | .error u => .ub u
    | .ok hp' => .ok () hp' (.inl inlEmpty)

/-- `Handle::make_shallow_clone` -/
def shallowClone (hp : Heap) (r : Handle) : Except UB (Heap × Handle) :=
  match r with
  | .heap a _ => match hp.retain a with
    | .ok hp' => .ok (hp', r)
    | .error u => .error u
  | _ => .ok (hp, r)

end LS
