import LSModel.Basic
/-!
# Specification vocabulary: valid UTF-8 and `std::string::String` at byte level

`Valid b` is "`b` is the UTF-8 encoding of a list of `Char`s" with core Lean's own encoder
(`String.utf8EncodeChar`; Lean's `Char` = Unicode scalar value = Rust's `char`).
The `String` operations are given on byte lists with std's panic conditions.
-/
namespace LS

def enc (cs : List Char) : Bytes := cs.flatMap String.utf8EncodeChar

def Valid (b : Bytes) : Prop := ∃ cs : List Char, b = enc cs

/-- UTF-16 encoding of one scalar value (the definition of UTF-16) -/
def utf16Units (v : Nat) : List Nat :=
  if v < 0x10000 then [v] else [0xD800 + (v - 0x10000) / 0x400, 0xDC00 + (v - 0x10000) % 0x400]

def encodeUtf16 (cs : List Char) : List Nat := cs.flatMap fun c => utf16Units c.val.toNat

namespace Spec

/-- outcome of a `String` method -/
inductive R (α : Type)
  | ok (v : α) (s : Bytes)
  | panic
  deriving Repr

def push_str (s t : Bytes) : Bytes := s ++ t

def pop (s : Bytes) : Option Bytes × Bytes :=
  if s.isEmpty then (none, s)
  else
    let n := s.length - (trailing s + 1)
    (some (s.drop n), s.take n)

def truncate (s : Bytes) (n : Nat) : R Unit :=
  if n ≥ s.length then .ok () s
  else if isBoundary s n then .ok () (s.take n) else .panic

def remove (s : Bytes) (i : Nat) : R Bytes :=
  if isBoundary s i ∧ i < s.length then
    let w := charWidth (s.getD i 0)
    .ok ((s.drop i).take w) (s.take i ++ s.drop (i + w))
  else .panic

def insert_str (s : Bytes) (i : Nat) (t : Bytes) : R Unit :=
  if isBoundary s i then .ok () (s.take i ++ t ++ s.drop i) else .panic

/-- the characters of a valid text, as byte chunks -/
def chunks : Nat → Bytes → List Bytes
  | 0, _ => []
  | _ + 1, [] => []
  | fuel + 1, b :: rest => ((b :: rest).take (charWidth b)) :: chunks fuel ((b :: rest).drop (charWidth b))

/-- `String::retain` with the predicate's answers given as a list (`none` = it panics;
exhausted = `true`): the kept characters, and whether the predicate panicked. On a panic std's
guard keeps the characters kept so far (the unprocessed tail is dropped). -/
def retainChunks : List Bytes → List (Option Bool) → Bytes → Bytes × Bool
  | [], _, acc => (acc, false)
  | c :: cs, answers, acc =>
    match answers.headD (some true) with
    | none => (acc, true)
    | some keep => retainChunks cs answers.tail (if keep then acc ++ c else acc)

def retain (s : Bytes) (answers : List (Option Bool)) : Bytes × Bool :=
  retainChunks (chunks s.length s) answers []

end Spec
end LS
