import LSModel.Handle
/-!
# Integer formatting (`num_to_repr.rs`)

`digitCount` looks the value up in the *generated* table of its type; `writer` is the hand-unrolled
decimal writer (4 digits at a time through the generated look-up table, then the 2/1-digit tail,
then the sign), producing the bytes it writes from `curr = digit_count` downwards.
-/
namespace LS

def lookupRows : List (Int × Int × Nat) → Int → Option Nat
  | [], _ => none
  | (lo, hi, d) :: rest, v => if lo ≤ v ∧ v ≤ hi then some d else lookupRows rest v

def digitTable (ty : String) : Option (List (Int × Int × Nat)) :=
  let base := if ty.startsWith "nz_" then (ty.drop 3).toString else ty
  let base := if base == "usize" then Gen.digitDelegate_usize else if base == "isize" then Gen.digitDelegate_isize else base
  match base with
  | "u8" => some Gen.digitTable_u8 | "i8" => some Gen.digitTable_i8
  | "u16" => some Gen.digitTable_u16 | "i16" => some Gen.digitTable_i16
  | "u32" => some Gen.digitTable_u32 | "i32" => some Gen.digitTable_i32
  | "u64" => some Gen.digitTable_u64 | "i64" => some Gen.digitTable_i64
  | _ => none

/-- two bytes of the look-up table at `d << 1` -/
def lut2 (d : Nat) : Bytes := [Gen.decDigitsLut.getD (2 * d) 0, Gen.decDigitsLut.getD (2 * d + 1) 0]

/-- `while n >= 10000 { … curr -= 4 … }` : returns the remaining `n` and the bytes written so far -/
def writer4 : Nat → Nat → Bytes → Nat × Bytes
  | 0, n, acc => (n, acc)
  | fuel + 1, n, acc =>
    if n ≥ Gen.writer_loopBound then
      let rem := n % Gen.writer_loopMod
      writer4 fuel (n / Gen.writer_loopDiv) (lut2 (rem / Gen.writer_remDiv) ++ lut2 (rem % Gen.writer_remMod) ++ acc)
    else (n, acc)

/-- the 2/1-digit tail -/
def writerTail (n : Nat) (acc : Bytes) : Bytes :=
  let (n, acc) := if n ≥ Gen.writer_tailBound then (n / Gen.writer_tailDiv, lut2 (n % Gen.writer_tailMod) ++ acc) else (n, acc)
  if n < Gen.writer_lastBound then UInt8.ofNat (n + 48) :: acc else lut2 n ++ acc

/-- all bytes the writer stores, in buffer order; they end at offset `digit_count` -/
def writer (wide : Bool) (neg : Bool) (n : Nat) : Bytes :=
  let (n', acc) := if wide then writer4 20 n [] else (n, [])
  let acc := writerTail n' acc
  if neg then 0x2D :: acc else acc

/-- the reference: what `Display` prints -/
def decDigits : Nat → Nat → Bytes
  | 0, _ => []
  | fuel + 1, n => if n < 10 then [UInt8.ofNat (n + 48)] else decDigits fuel (n / 10) ++ [UInt8.ofNat (n % 10 + 48)]

def decimal (v : Int) : Bytes :=
  if v < 0 then 0x2D :: decDigits 40 v.natAbs else decDigits 40 v.natAbs

/-- the macro body of `impl_NumToRepr_for_integers!`: digit count from the table, `with_capacity`,
the writer from `curr = digit_count` downwards, `set_len`. `none` = a gap in the table or a
writer that would run below offset 0 (neither can happen: Props/C14) -/
def intoReprCore (rf : Refuse) (hp : Heap) (rows : List (Int × Int × Nat)) (wide : Bool) (v : Int) :
    Option (Option Handle × Heap) :=
  match lookupRows rows v with
  | none => none
  | some digits =>
    match withCapacity rf hp digits with
    | (none, hp1) => some (none, hp1)
    | (some r0, hp1) =>
      let bytes := writer wide (decide (v < 0)) v.natAbs
      if bytes.length > digits then none
      else
        match writeThenSetLen hp1 r0 (digits - bytes.length) bytes digits with
        | .ok _ hp2 r2 => some (some r2, hp2)
        | _ => none

/-- the integer types `to_lean_string` is specialised for (NonZero forms delegate to these) -/
inductive IntTy
  | u8 | i8 | u16 | i16 | u32 | i32 | u64 | i64 | u128 | i128 | usize | isize
  deriving DecidableEq, Repr

def IntTy.ofName : String → Option IntTy
  | "u8" => some .u8 | "i8" => some .i8 | "u16" => some .u16 | "i16" => some .i16
  | "u32" => some .u32 | "i32" => some .i32 | "u64" => some .u64 | "i64" => some .i64
  | "u128" => some .u128 | "i128" => some .i128 | "usize" => some .usize | "isize" => some .isize
  | _ => none

/-- value range of the Rust type (x86-64: `usize` = 64 bits) -/
def IntTy.lo : IntTy → Int
  | .i8 => -128 | .i16 => -32768 | .i32 => -2147483648 | .i64 | .isize => -9223372036854775808
  | .i128 => -170141183460469231731687303715884105728
  | _ => 0

def IntTy.hi : IntTy → Int
  | .u8 => 255 | .i8 => 127 | .u16 => 65535 | .i16 => 32767 | .u32 => 4294967295 | .i32 => 2147483647
  | .u64 | .usize => 18446744073709551615 | .i64 | .isize => 9223372036854775807
  | .u128 => 340282366920938463463374607431768211455 | .i128 => 170141183460469231731687303715884105727

/-- the `DigitCount` table of a type (`usize`/`isize` through the generated delegation); `none` for
the 128-bit types, which go through `itoa` -/
def IntTy.rows : IntTy → Option (List (Int × Int × Nat))
  | .u8 => some Gen.digitTable_u8 | .i8 => some Gen.digitTable_i8
  | .u16 => some Gen.digitTable_u16 | .i16 => some Gen.digitTable_i16
  | .u32 => some Gen.digitTable_u32 | .i32 => some Gen.digitTable_i32
  | .u64 => some Gen.digitTable_u64 | .i64 => some Gen.digitTable_i64
  | .usize => digitTable Gen.digitDelegate_usize
  | .isize => digitTable Gen.digitDelegate_isize
  | .u128 | .i128 => none

/-- `size_of::<$t>() >= 2` -/
def IntTy.wide : IntTy → Bool
  | .u8 | .i8 => false
  | _ => true

/-- `NumToRepr::into_repr`; the outer `none` = a gap in the table (cannot happen in range: Props/C14) -/
def intToReprTy (rf : Refuse) (hp : Heap) (ty : IntTy) (v : Int) : Option (Option Handle × Heap) :=
  match ty with
  | .u128 | .i128 =>
    -- `Repr::from_str(itoa::Buffer::new().format(self))`; itoa is assumed to print `decimal`
    some (fromStr rf hp (decimal v))
  | _ =>
    match ty.rows with
    | none => none
    | some rows => intoReprCore rf hp rows ty.wide v

/-- by type name as written in the scripts (`nz_` = the NonZero form, which delegates) -/
def intToRepr (rf : Refuse) (hp : Heap) (ty : String) (v : Int) : Option (Option Handle × Heap) :=
  let base := if ty.startsWith "nz_" then (ty.drop 3).toString else ty
  match IntTy.ofName base with
  | none => none
  | some t => intToReprTy rf hp t v

end LS
