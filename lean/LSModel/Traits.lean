import LSModel.Api
/-!
# The delegating trait impls of `lib.rs`, as a small delegation language

Every comparison / hash / format / borrow impl is translated (tools/extract.py → `Gen.traitBodies`)
and must be one of the bodies below, each of which is a function of the *texts* of its operands
only (`as_str()`), applied to std's `str` implementation (an opaque parameter, the same for `str`,
`String`, `Cow<str>` and for the crate).
-/
namespace LS

/-- std's `str` behaviour, opaque -/
structure StrOps where
  eq : Bytes → Bytes → Bool
  cmp : Bytes → Bytes → Ordering
  hash : Bytes → Nat → Nat          -- `<str as Hash>::hash` as a state transformer
  display : Bytes → Bytes
  debug : Bytes → Bytes

inductive Deleg
  | strEq        -- `str::eq(text self, text other)`
  | strCmp
  | someStrCmp   -- `Some(self.cmp(other))`
  | strHash
  | fmtDisplay
  | fmtDebug
  | asStr        -- the text itself (`Deref`, `AsRef<str>`, `Borrow<str>`, `AsRef<OsStr>`)
  | asBytes
  deriving DecidableEq, Repr

/-- accepted (normalised) bodies -/
def interp (body : String) : Option Deleg :=
  if body ∈ ["self.as_str().eq(other.as_str())", "self.as_str().eq(other)", "self.eq(other.as_str())",
             "self.as_str().eq(*other)", "(*self).eq(other.as_str())", "self.as_str().eq(other.as_ref())",
             "self.as_ref().eq(other.as_str())"] then some .strEq
  else if body == "self.as_str().cmp(other.as_str())" then some .strCmp
  else if body == "Some(self.cmp(other))" then some .someStrCmp
  else if body == "self.as_str().hash(state)" then some .strHash
  else if body == "fmt::Display::fmt(self.as_str(), f)" then some .fmtDisplay
  else if body == "fmt::Debug::fmt(self.as_str(), f)" then some .fmtDebug
  else if body ∈ ["self.as_str()", "OsStr::new(self.as_str())"] then some .asStr
  else if body == "self.as_bytes()" then some .asBytes
  else none

inductive TVal
  | bool (b : Bool) | ord (o : Ordering) | optOrd (o : Option Ordering) | nat (n : Nat) | bytes (b : Bytes)
  deriving DecidableEq

/-- semantics: only the operands' texts (and the hasher state) are inputs -/
def Deleg.eval (ops : StrOps) (d : Deleg) (self other : Bytes) (st : Nat) : TVal :=
  match d with
  | .strEq => .bool (ops.eq self other)
  | .strCmp => .ord (ops.cmp self other)
  | .someStrCmp => .optOrd (some (ops.cmp self other))
  | .strHash => .nat (ops.hash self st)
  | .fmtDisplay => .bytes (ops.display self)
  | .fmtDebug => .bytes (ops.debug self)
  | .asStr => .bytes self
  | .asBytes => .bytes self

/-- the impls C17 is about: (trait, Self type, method) -/
def requiredImpls : List (String × String × String) := [
  ("Deref", "LeanString", "deref"), ("fmt::Debug", "LeanString", "fmt"), ("fmt::Display", "LeanString", "fmt"),
  ("AsRef<str>", "LeanString", "as_ref"), ("AsRef<[u8]>", "LeanString", "as_ref"), ("Borrow<str>", "LeanString", "borrow"),
  ("PartialEq", "LeanString", "eq"), ("PartialEq<str>", "LeanString", "eq"), ("PartialEq<LeanString>", "str", "eq"),
  ("PartialEq<&str>", "LeanString", "eq"), ("PartialEq<LeanString>", "&str", "eq"),
  ("PartialEq<String>", "LeanString", "eq"), ("PartialEq<LeanString>", "String", "eq"),
  ("PartialEq<Cow<'_, str>>", "LeanString", "eq"), ("PartialEq<LeanString>", "Cow<'_, str>", "eq"),
  ("Ord", "LeanString", "cmp"), ("PartialOrd", "LeanString", "partial_cmp"), ("Hash", "LeanString", "hash")]

def expectedKind (m : String × String × String) : Deleg :=
  match m.1, m.2.2 with
  | "fmt::Debug", _ => .fmtDebug
  | "fmt::Display", _ => .fmtDisplay
  | "AsRef<[u8]>", _ => .asBytes
  | "Ord", _ => .strCmp
  | "PartialOrd", _ => .someStrCmp
  | "Hash", _ => .strHash
  | _, "eq" => .strEq
  | _, _ => .asStr

def lookupImpl (m : String × String × String) : Option String :=
  (Gen.traitBodies.find? fun r => r.1 == m.1 && r.2.1 == m.2.1 && r.2.2.1 == m.2.2).map (·.2.2.2)

end LS
