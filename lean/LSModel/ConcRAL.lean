import LSModel.Generated
/-!
# C04, third stage: release/acquire atomics **with handles lent by reference**

`ConcRA.lean` plus `&LeanString` shared between threads (`LeanString: Sync`). The owner of a handle may
`lend` it: it then performs no operation until `reclaim` (Rust's borrow rules: no `&mut` while shared
borrows exist) and does not publish its view to anybody. Getting hold of the reference synchronises
with the lender *as of the moment of lending* (`lentView`; spawn, scoped threads, channels, `Arc`);
through it a borrower may `cloneB` (the `fetch_add`; it then owns a handle of its own) or read the text
(`readBStart`/`readBEnd`). The end of a borrow synchronises with the lender's continuation: what a
borrower did is collected in the lender's `inbox`, which joins its view at `reclaim` — and only then;
`reclaim` needs that no borrowed read is still in progress. Everything else is as in `ConcRA.lean`:


`Conc.lean` interleaves the micro-steps under sequentially consistent atomics. Here the same
micro-steps run on a *view machine* for the C11 release/acquire fragment the crate uses:

* every step of every thread is an event with a fresh id; a thread's `view` is the set of events
  that **happen before** its current point (program order, plus what it acquired);
* the count of a block is a modification order of messages (`top` newest, then `older`); a message
  carries the view that an acquiring reader obtains. Every write to the count is a read-modify-write,
  so it reads the newest message and *continues the release sequence*: its message keeps the
  previous message's view, and adds the writer's own view when the operation is a release;
* `load` (the uniqueness test) may read **any** message that coherence still allows — one that is not
  older than a message the thread already knows about (`probe a k` reads the `k`-th newest) — so stale
  reads are part of the model; an acquire load joins the message's view, a relaxed one only remembers
  it in `pend`, which an acquire fence joins later;
* handing a handle to another thread (`send`) synchronises, as every safe Rust channel, spawn or
  join does; `sync` is any other synchronisation between two threads.

Accesses are checked the way a race detector does, at block granularity: a *shared* access (reading
the text, any atomic operation on the header) must happen after every *exclusive* access of the block
(initialisation, in-place write or `realloc`, `dealloc`); an exclusive access must happen after
**every** earlier access of the block; and every access needs the block live. A failed check sets
`bad`. The orderings are parameters (`Ords`), read from the source by the translator
(`Gen.atomicOrdCodes`).
-/
namespace LS.ConcRAL

/-- which of the four atomic sites are release / acquire -/
structure Ords where
  addRel : Bool
  addAcq : Bool
  subRel : Bool
  subAcq : Bool
  fenceAcq : Bool
  loadAcq : Bool
  deriving DecidableEq, Repr

/-- ordering codes of `Gen.atomicOrdCodes`: 0 Relaxed, 1 Acquire, 2 Release, 3 AcqRel, 4 SeqCst -/
def isAcq (o : Nat) : Bool := o == 1 || o == 3 || o == 4
def isRel (o : Nat) : Bool := o == 2 || o == 3 || o == 4

/-- the weakest ordering used at any site of each operation (0 fetch_add, 1 fetch_sub, 2 fence,
3 load); an operation with no site at all counts as relaxed / absent -/
def ordsOf (codes : List (Nat × Nat)) : Ords :=
  let sel (op : Nat) : List Nat := (codes.filter (fun p => p.1 == op)).map (fun p => p.2)
  let every (op : Nat) (p : Nat → Bool) : Bool := !(sel op).isEmpty && (sel op).all p
  { addRel := every 0 isRel, addAcq := every 0 isAcq, subRel := every 1 isRel, subAcq := every 1 isAcq,
    fenceAcq := every 2 isAcq, loadAcq := every 3 isAcq }

/-- the orderings of the source as translated on this run -/
def srcOrds : Ords := ordsOf Gen.atomicOrdCodes

inductive Phase
  | idle
  | dying (a : Nat)      -- our decrement read 1: fence + dealloc pending
  | unique (a : Nat)     -- the load read 1: in-place write / realloc pending
  | copying (a : Nat)    -- the load read > 1: reading the shared buffer, reference still held
  | copied (a : Nat)     -- copy done; the old reference still to be released
  | reading (a : Nat)    -- inside a read through an owned handle
  | lending (a : Nat)    -- our handle on `a` is lent by reference; we do nothing until `reclaim`
  | readingB (a l : Nat) -- reading through the `&LeanString` lent by thread `l`
  deriving DecidableEq, Repr

structure Msg where
  val : Nat
  view : List Nat
  id : Nat
  deriving DecidableEq, Repr

structure Blk where
  live : Bool
  top : Msg               -- newest message of the count's modification order
  older : List Msg        -- the rest, newest first
  evs : List Nat          -- every access of the block so far (event ids)
  xevs : List Nat         -- the exclusive ones among them
  deriving DecidableEq, Repr

structure Thread where
  owned : List Nat := []
  phase : Phase := .idle
  view : List Nat := []
  pend : List Nat := []   -- views of messages read without acquire, for a later acquire fence
  inbox : List Nat := []  -- while lending: what the borrowers did; joins `view` at `reclaim`
  lentView : List Nat := []  -- while lending: the view the borrowers synchronise with
  deriving DecidableEq, Repr

structure Cfg where
  blocks : List Blk
  threads : List Thread
  clock : Nat
  bad : Bool
  deriving DecidableEq, Repr

inductive Act
  | clone (a : Nat) | drop (a : Nat) | free | probe (a k : Nat) | write | copyRead | copyFinish
  | readStart (a : Nat) | readEnd | send (a j : Nat) | sync (j : Nat)
  | lend (a : Nat) | reclaim | cloneB (a l : Nat) | readBStart (a l : Nat) | readBEnd
  deriving DecidableEq, Repr

def mo (b : Blk) : List Msg := b.top :: b.older

/-- a shared access by a thread with view `v` is race-free -/
def sOk (b : Blk) (v : List Nat) : Bool := b.live && b.xevs.all (fun x => decide (x ∈ v))
/-- an exclusive access by a thread with view `v` is race-free -/
def xOk (b : Blk) (v : List Nat) : Bool := b.live && b.evs.all (fun x => decide (x ∈ v))

/-- record access `e` -/
def Blk.event (b : Blk) (e : Nat) (x : Bool) : Blk :=
  { b with evs := e :: b.evs, xevs := if x then e :: b.xevs else b.xevs }

/-- read-modify-write of the count by a thread whose view (own event included) is `v` -/
def Blk.rmw (b : Blk) (f : Nat → Nat) (rel : Bool) (v : List Nat) (e : Nat) : Blk :=
  { b with top := { val := f b.top.val, view := if rel then v ++ b.top.view else b.top.view, id := e },
           older := b.top :: b.older, evs := e :: b.evs }

def Cfg.upd (c : Cfg) (i : Nat) (t' : Thread) (a : Nat) (b' : Blk) (ok : Bool) : Cfg :=
  { blocks := c.blocks.set a b', threads := c.threads.set i t', clock := c.clock + 1, bad := c.bad || !ok }

/-- `fetch_sub(1, sub)` on block `a` through a handle that is given up -/
def release (o : Ords) (c : Cfg) (i : Nat) (t : Thread) (a : Nat) (b : Blk) : Cfg :=
  let e := c.clock
  let v1 := e :: t.view
  c.upd i { owned := t.owned.erase a, phase := if b.top.val = 1 then .dying a else .idle,
            view := if o.subAcq then v1 ++ b.top.view else v1, pend := b.top.view ++ t.pend }
    a (b.rmw (· - 1) o.subRel v1 e) (sOk b t.view)

/-- a fresh block with the only handle on it; its header is initialised by a plain store -/
def alloc (c : Cfg) (i : Nat) (t : Thread) : Cfg :=
  let e := c.clock
  { blocks := c.blocks ++ [{ live := true, top := { val := 1, view := [], id := e }, older := [], evs := [e], xevs := [e] }],
    threads := c.threads.set i { t with owned := c.blocks.length :: t.owned, view := e :: t.view },
    clock := c.clock + 1, bad := c.bad }

/-- the `k`-th newest message may be read by a thread with view `v`: it knows of no newer one -/
def coherent (b : Blk) (k : Nat) (v : List Nat) : Bool := ((mo b).take k).all (fun m => decide (m.id ∉ v))

/-- one micro-step of thread `i`; `none` = not enabled -/
def step (o : Ords) (c : Cfg) (i : Nat) (act : Act) : Option Cfg :=
  match c.threads[i]? with
  | none => none
  | some t =>
    let e := c.clock
    match act, t.phase with
    | .clone a, .idle =>
      match c.blocks[a]? with
      | some b =>
        if a ∈ t.owned then
          let v1 := e :: t.view
          some (c.upd i { owned := a :: t.owned, phase := .idle,
                          view := if o.addAcq then v1 ++ b.top.view else v1, pend := b.top.view ++ t.pend }
                  a (b.rmw (· + 1) o.addRel v1 e) (sOk b t.view))
        else none
      | none => none
    | .drop a, .idle =>
      match c.blocks[a]? with
      | some b => if a ∈ t.owned then some (release o c i t a b) else none
      | none => none
    | .free, .dying a =>
      match c.blocks[a]? with
      | some b =>
        let v1 := e :: (if o.fenceAcq then t.view ++ t.pend else t.view)
        some (c.upd i { t with phase := .idle, view := v1 } a { (b.event e true) with live := false } (xOk b v1))
      | none => none
    | .probe a k, .idle =>
      match c.blocks[a]? with
      | some b =>
        match (mo b)[k]? with
        | some m =>
          if a ∈ t.owned && coherent b k t.view then
            some (c.upd i { t with phase := if m.val = 1 then .unique a else .copying a,
                                   view := if o.loadAcq then e :: (t.view ++ m.view) else e :: t.view,
                                   pend := m.view ++ t.pend }
                    a (b.event e false) (sOk b t.view))
          else none
        | none => none
      | none => none
    | .write, .unique a =>
      match c.blocks[a]? with
      | some b => some (c.upd i { t with phase := .idle, view := e :: t.view } a (b.event e true) (xOk b t.view))
      | none => none
    | .copyRead, .copying a =>
      match c.blocks[a]? with
      | some b => some (c.upd i { t with phase := .copied a, view := e :: t.view } a (b.event e false) (sOk b t.view))
      | none => none
    | .copyFinish, .copied a =>
      match c.blocks[a]? with
      | some b =>
        let c1 := alloc c i t
        some (release o c1 i { t with owned := c.blocks.length :: t.owned, view := e :: t.view } a b)
      | none => none
    | .readStart a, .idle =>
      match c.blocks[a]? with
      | some b =>
        if a ∈ t.owned then
          some (c.upd i { t with phase := .reading a, view := e :: t.view } a (b.event e false) (sOk b t.view))
        else none
      | none => none
    | .readEnd, .reading a =>
      match c.blocks[a]? with
      | some b => some (c.upd i { t with phase := .idle, view := e :: t.view } a (b.event e false) (sOk b t.view))
      | none => none
    | .send a j, .idle =>
      match c.threads[j]? with
      | some u =>
        if a ∈ t.owned && j != i then
          some { c with threads := (c.threads.set i { t with owned := t.owned.erase a, view := e :: t.view }).set j
                                     { u with owned := a :: u.owned, view := u.view ++ (e :: t.view) },
                        clock := c.clock + 1 }
        else none
      | none => none
    | .sync j, ph =>
      match c.threads[j]? with
      | some u =>
        -- a lending thread does not publish its view (its `inbox` is not part of it yet anyway)
        if j != i && !(match ph with | .lending _ => true | _ => false) then
          some { c with threads := c.threads.set j { u with view := u.view ++ t.view }, clock := c.clock + 1 }
        else none
      | none => none
    | .lend a, .idle =>
      if a ∈ t.owned then
        some { c with threads := c.threads.set i { t with phase := .lending a, lentView := t.view } }
      else none
    | .reclaim, .lending a =>
      if c.threads.all (fun w => match w.phase with | .readingB a' l => !(a' == a && l == i) | _ => true) then
        some { c with threads := c.threads.set i { owned := t.owned, phase := .idle, view := t.view ++ t.inbox, pend := t.pend } }
      else none
    | .cloneB a l, .idle =>
      match c.threads[l]?, c.blocks[a]? with
      | some u, some b =>
        if l != i && u.phase == .lending a then
          let v0 := t.view ++ u.lentView
          let v1 := e :: v0
          some { blocks := c.blocks.set a (b.rmw (· + 1) o.addRel v1 e),
                 threads := (c.threads.set i { owned := a :: t.owned, phase := .idle,
                                               view := if o.addAcq then v1 ++ b.top.view else v1,
                                               pend := b.top.view ++ t.pend }).set l
                              { u with inbox := v1 ++ u.inbox },
                 clock := c.clock + 1, bad := c.bad || !(sOk b v0) }
        else none
      | _, _ => none
    | .readBStart a l, .idle =>
      match c.threads[l]?, c.blocks[a]? with
      | some u, some b =>
        if l != i && u.phase == .lending a then
          let v0 := t.view ++ u.lentView
          let v1 := e :: v0
          some { blocks := c.blocks.set a (b.event e false),
                 threads := (c.threads.set i { t with phase := .readingB a l, view := v1 }).set l
                              { u with inbox := v1 ++ u.inbox },
                 clock := c.clock + 1, bad := c.bad || !(sOk b v0) }
        else none
      | _, _ => none
    | .readBEnd, .readingB a l =>
      match c.threads[l]?, c.blocks[a]? with
      | some u, some b =>
        let v1 := e :: t.view
        some { blocks := c.blocks.set a (b.event e false),
               threads := (c.threads.set i { t with phase := .idle, view := v1 }).set l { u with inbox := v1 ++ u.inbox },
               clock := c.clock + 1, bad := c.bad || !(sOk b t.view) }
      | _, _ => none
    | _, _ => none

def run (o : Ords) (c : Cfg) : List (Nat × Act) → Option Cfg
  | [] => some c
  | (i, a) :: rest => match step o c i a with
    | some c' => run o c' rest
    | none => none

/-- one live block; thread `i` starts with `ks[i]` handles on it, all handed out after the block
was initialised (event 0) -/
def initCfg (ks : List Nat) : Cfg :=
  { blocks := [{ live := true, top := { val := ks.sum, view := [0], id := 0 }, older := [], evs := [0], xevs := [0] }],
    threads := ks.map (fun k => { owned := List.replicate k 0, view := [0] }),
    clock := 1, bad := false }

end LS.ConcRAL
