import LSModel.Api
import LSModel.Decode
/-!
# Glue modelled by hand and tied to the source through the translated bodies:
serde visitors, `arbitrary`, `to_lean_string` arms, decoding constructors.
-/
namespace LS

/-- `visit_str` / `visit_borrowed_str`: `Ok(LeanString::from(v))` -/
def visitStr (rf : Refuse) (hp : Heap) (v : Bytes) : Option Handle × Heap := fromStr rf hp v

/-- `visit_bytes` / `visit_borrowed_bytes`; `Except.error ()` = `Error::invalid_value` -/
def visitBytes (rf : Refuse) (hp : Heap) (v : Bytes) : Except Unit (Option Handle × Heap) :=
  if validUtf8 v then .ok (fromStr rf hp v) else .error ()

/-- `arbitrary(u)`: `<&str>::arbitrary(u).map(LeanString::from)`; the str generator is a parameter -/
def arbitraryFrom (rf : Refuse) (hp : Heap) (strArbitrary : List UInt8 → Option Bytes) (u : List UInt8) :
    Option (Option Handle × Heap) :=
  (strArbitrary u).map (fromStr rf hp)

/-- `from_utf8` -/
def fromUtf8 (rf : Refuse) (hp : Heap) (b : Bytes) : Except Unit (Option Handle × Heap) :=
  if validUtf8 b then .ok (fromStr rf hp b) else .error ()

/-- text produced by `from_utf8_lossy`, by definition of its loop -/
def lossyText (b : Bytes) : Bytes :=
  (utf8Chunks b).flatMap fun (v, i) => if i.isEmpty then v else v ++ replacement

/-- text produced by `from_utf16_lossy`, by definition of its pipeline -/
def lossy16Text (u : List Nat) : Bytes :=
  ((decodeUtf16 u).map fun o => o.getD replacement).flatten

end LS
