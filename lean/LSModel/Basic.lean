import LSModel.Generated
/-!
# Basic vocabulary of the model

Bytes, `usize` arithmetic with explicit overflow, the byte-level UTF-8 helpers the crate relies on
(`is_char_boundary`, width of a character from its lead byte, the backwards scan of `pop`),
and the heap of reference-counted blocks with an allocator that may refuse.

Everything here is import-free (core Lean only) and executable, so that the same definitions
serve the proofs, the `decide`-checked witnesses and the correspondence driver.
-/
namespace LS

abbrev Bytes := List UInt8

deriving instance DecidableEq for Except

def USIZE : Nat := 2 ^ 64
def MAX_INLINE : Nat := Gen.maxInlineSize
def MAX_LEN : Nat := Gen.heapMaxLen
def STATIC_MAX_LEN : Nat := Gen.staticMaxLen
def HEADER : Nat := Gen.headerSize
/-- value of bytes that were allocated but never written (the shadow heap fills blocks with it) -/
def JUNK : UInt8 := 0xA5

/-- `usize::checked_add` -/
def checkedAdd (a b : Nat) : Option Nat := if a + b < USIZE then some (a + b) else none

/-! ## UTF-8 at byte level -/

/-- `10xxxxxx` -/
def isCont (b : UInt8) : Bool := decide (0x80 ≤ b.toNat) && decide (b.toNat < 0xC0)

/-- `str::is_char_boundary` -/
def isBoundary (t : Bytes) (i : Nat) : Bool :=
  if i = 0 then true
  else match t[i]? with
    | none => i == t.length
    | some b => !isCont b

/-- width of a character, from its lead byte (valid UTF-8 assumed) -/
def charWidth (b : UInt8) : Nat :=
  if b.toNat < 0x80 then 1 else if b.toNat < 0xE0 then 2 else if b.toNat < 0xF0 then 3 else 4

/-- number of continuation bytes at the end of `t`: the last character is `trailing t + 1` bytes -/
def trailing (t : Bytes) : Nat := (t.reverse.takeWhile isCont).length

/-- `d` with `s` written at offset `off` (caller checks `off + s.length ≤ d.length`) -/
def writeAt (d : Bytes) (off : Nat) (s : Bytes) : Bytes :=
  d.take off ++ s ++ d.drop (off + s.length)

/-- `init` followed by never-written bytes up to `cap` -/
def padTo (cap : Nat) (init : Bytes) : Bytes := init ++ List.replicate (cap - init.length) JUNK

/-! ## Alarms: things the real code must never do -/

inductive UB
  | useAfterFree      -- header or data access through a released block
  | doubleFree
  | badLayout         -- free/realloc with a size different from the one allocated
  | oob               -- access outside the block / the 16 inline bytes
  | writeShared       -- in-place write to a block whose count is not 1
  | writeStatic       -- write through a borrowed static text
  | rcUnderflow
  | rcOverflow
  | lenOverflow       -- `set_len` beyond what the length field can hold
  | badStatic         -- static id unknown (script error, not reachable from the API)
  | arith             -- `usize` overflow / underflow / division by zero in the crate's own arithmetic
  | diverge           -- a translated `while` loop ran out of the fuel its caller supplied
  deriving DecidableEq, Repr, Inhabited

/-! ## Heap -/

structure Block where
  rc   : Nat      -- header.count
  cap  : Nat      -- header.capacity
  size : Nat      -- ghost: size the allocator was asked for
  data : Bytes    -- `cap` bytes
  deriving DecidableEq, Repr

inductive Slot
  | live (b : Block)
  | freed
  deriving DecidableEq, Repr

inductive Ev
  | alloc (size : Nat)
  | allocX (size : Nat)              -- refused
  | realloc (old new : Nat)
  | reallocX (old new : Nat)         -- refused
  | free (size : Nat)
  deriving DecidableEq, Repr

structure Heap where
  slots : List Slot := []     -- address = index; never reused; `realloc` always moves
  reqs  : Nat := 0            -- allocator requests so far (alloc + realloc, refused ones included)
  log   : List Ev := []       -- newest first
  deriving DecidableEq, Repr

/-- the allocator oracle: (request index, byte size) ↦ refused? -/
abbrev Refuse := Nat → Nat → Bool

def Heap.get? (hp : Heap) (a : Nat) : Option Block :=
  match hp.slots[a]? with
  | some (.live b) => some b
  | _ => none

def Heap.setBlock (hp : Heap) (a : Nat) (b : Block) : Heap :=
  { hp with slots := hp.slots.set a (.live b) }

/-- `Capacity::new` and `layout_from_capacity` both succeed -/
def capOk (c : Nat) : Bool := decide (c ≤ MAX_LEN) && decide (HEADER + c ≤ 2 ^ 63 - 8)

/-- `HeapBuffer::allocate_ptr` for an admissible capacity, followed by the copy of `init` -/
def Heap.allocate (rf : Refuse) (hp : Heap) (cap : Nat) (init : Bytes) : Option Nat × Heap :=
  let size := HEADER + cap
  if rf hp.reqs size then
    (none, { hp with reqs := hp.reqs + 1, log := .allocX size :: hp.log })
  else
    (some hp.slots.length,
     { slots := hp.slots ++ [.live { rc := 1, cap := cap, size := size, data := padTo cap init }],
       reqs := hp.reqs + 1, log := .alloc size :: hp.log })

/-- `HeapBuffer::new(text)` -/
def heapNew (rf : Refuse) (hp : Heap) (text : Bytes) : Option Nat × Heap :=
  if capOk text.length then hp.allocate rf text.length text else (none, hp)

/-- `HeapBuffer::with_capacity(cap)` -/
def heapWithCapacity (rf : Refuse) (hp : Heap) (cap : Nat) : Option Nat × Heap :=
  if capOk cap then hp.allocate rf cap [] else (none, hp)

/-- `HeapBuffer::with_additional(text, additional)` -/
def heapWithAdditional (rf : Refuse) (hp : Heap) (text : Bytes) (additional : Nat) : Option Nat × Heap :=
  let c := Gen.amortizedGrowth text.length additional
  if decide (text.length ≤ MAX_LEN) && capOk c then hp.allocate rf c text else (none, hp)

/-- `HeapBuffer::with_capacity_from(text, cap)` (exact capacity; `text.length ≤ cap`) -/
def heapWithCapacityFrom (rf : Refuse) (hp : Heap) (text : Bytes) (cap : Nat) : Option Nat × Heap :=
  if capOk cap then hp.allocate rf cap text else (none, hp)

/-- give up one reference to block `a` (`fetch_sub(1, Release)`; the one that sees 1 frees) -/
def Heap.release (hp : Heap) (a : Nat) : Except UB Heap :=
  match hp.slots[a]? with
  | some (.live b) =>
    if b.rc = 0 then .error .rcUnderflow
    else if b.rc = 1 then
      if b.size = HEADER + b.cap then
        .ok { hp with slots := hp.slots.set a .freed, log := .free b.size :: hp.log }
      else .error .badLayout
    else .ok (hp.setBlock a { b with rc := b.rc - 1 })
  | some .freed => .error .useAfterFree
  | none => .error .useAfterFree

/-- `fetch_add(1, Relaxed)` of `make_shallow_clone`. The count is an unbounded `Nat`: the
`ref_count_overflow` path (more than `isize::MAX` live clones) is outside the model. -/
def Heap.retain (hp : Heap) (a : Nat) : Except UB Heap :=
  match hp.get? a with
  | some b => .ok (hp.setBlock a { b with rc := b.rc + 1 })
  | none => .error .useAfterFree

inductive ReallocRes
  | moved (hp : Heap) (a : Nat)
  | refused (hp : Heap)
  | ub (u : UB)

/-- `HeapBuffer::realloc(new_cap)` on a unique block. The shim always moves. -/
def Heap.realloc (rf : Refuse) (hp : Heap) (a : Nat) (newCap : Nat) : ReallocRes :=
  match hp.get? a with
  | none => .ub .useAfterFree
  | some b =>
    if b.rc ≠ 1 then .ub .writeShared
    else if !capOk newCap then .refused hp
    else if b.size ≠ HEADER + b.cap then .ub .badLayout
    else
      let newSize := HEADER + newCap
      if rf hp.reqs newSize then
        .refused { hp with reqs := hp.reqs + 1, log := .reallocX b.size newSize :: hp.log }
      else
        let nb : Block := { rc := 1, cap := newCap, size := newSize,
                            data := padTo newCap (b.data.take (min b.cap newCap)) }
        .moved { slots := (hp.slots.set a .freed) ++ [.live nb], reqs := hp.reqs + 1,
                 log := .realloc b.size newSize :: hp.log } hp.slots.length

/-- in-place write of `s` at `off` into block `a` (requires uniqueness) -/
def Heap.write (hp : Heap) (a : Nat) (off : Nat) (s : Bytes) : Except UB Heap :=
  match hp.get? a with
  | none => .error .useAfterFree
  | some b =>
    if b.rc ≠ 1 then .error .writeShared
    else if off + s.length > b.cap then .error .oob
    else .ok (hp.setBlock a { b with data := writeAt b.data off s })

end LS
