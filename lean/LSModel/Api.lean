import LSModel.Handle
import LSModel.Num
import LSModel.Decode
/-!
# The pool of handles and the public operations (`src/lib.rs`)

`step rf w op` is one public call on the world `w` under the allocator oracle `rf`.
User code is data: a `retain` predicate is its list of answers, an iterator is its list of items
(`none` = it panics there) with a caller-chosen size hint, a `Display` impl is its list of pieces.
-/
namespace LS

structure World where
  heap    : Heap := {}
  statics : List Bytes := []
  pool    : List (Option Handle) := []
  deriving DecidableEq, Repr

inductive Val
  | unit
  | none
  | some (b : Bytes)     -- `Some(char)`, the char as its UTF-8 bytes
  | char (b : Bytes)
  deriving DecidableEq, Repr

inductive Out
  | ok (v : Val)
  | err                  -- `Err(ReserveError)`
  | errFmt | errUtf8 | errUtf16
  | panicIdx | panicAlloc | panicCb
  | ub (u : UB)          -- the model's own alarm
  | bad                  -- malformed script line (dead handle, occupied destination)
  deriving DecidableEq, Repr

inductive Piece
  | text (s : Bytes)
  | fail                 -- `Display::fmt` returns `Err`
  | panic
  deriving DecidableEq, Repr

inductive Op
  | new (d : Nat)
  | fromStr (d : Nat) (t : Bytes) (plain : Bool)
  | fromStatic (d sid : Nat)
  | withCapacity (d n : Nat) (plain : Bool)
  | fromChar (d : Nat) (c : Bytes)
  | clone (d s : Nat)
  | cloneFrom (d s : Nat)
  | drop (h : Nat)
  | pushStr (h : Nat) (s : Bytes) (plain : Bool)
  | pop (h : Nat) (plain : Bool)
  | remove (h i : Nat) (plain : Bool)
  | insertStr (h i : Nat) (s : Bytes) (plain : Bool)
  | truncate (h n : Nat) (plain : Bool)
  | clear (h : Nat)
  | retain (h : Nat) (answers : List (Option Bool)) (plain : Bool)
  | reserve (h n : Nat) (plain : Bool)
  | shrinkTo (h n : Nat) (plain : Bool)
  | extendChars (h hint : Nat) (items : List (Option Bytes))
  | extendStrs (h : Nat) (items : List (Option Bytes))
  | collectChars (d hint : Nat) (items : List (Option Bytes))
  | collectStrs (d : Nat) (items : List (Option Bytes))
  | display (d : Nat) (pieces : List Piece)
  | fromInt (d : Nat) (ty : IntTy) (v : Int)            -- `v.try_to_lean_string()` on an integer type
  | fromBool (d : Nat) (b : Bool)                        -- `b.to_lean_string()`
  | fromUtf8 (d : Nat) (b : Bytes)
  | fromUtf8Lossy (d : Nat) (b : Bytes)
  | fromUtf16 (d : Nat) (u : List Nat)                   -- code units as numbers `< 2^16`
  | fromUtf16Lossy (d : Nat) (u : List Nat)
  deriving DecidableEq, Repr

def World.get (w : World) (h : Nat) : Option Handle :=
  match w.pool[h]? with
  | some (some r) => some r
  | _ => none

/-- the pool padded with empty slots up to length `n` -/
def poolPad (p : List (Option Handle)) (n : Nat) : List (Option Handle) := p ++ List.replicate (n - p.length) none

def poolSet (p : List (Option Handle)) (i : Nat) (v : Option Handle) : List (Option Handle) :=
  (poolPad p (i + 1)).set i v

def World.put (w : World) (hp : Heap) (h : Nat) (v : Option Handle) : World :=
  { w with heap := hp, pool := poolSet w.pool h v }

def failOut (plain : Bool) : Out := if plain then .panicAlloc else .err

/-- store the outcome of a `Handle`-level call on handle `h` -/
def finish {α : Type} (w : World) (h : Nat) (plain : Bool) (val : α → Val) : Res α → World × Out
  | .ok v hp r => (w.put hp h (some r), .ok (val v))
  | .err hp r => (w.put hp h (some r), failOut plain)
  | .pidx hp r => (w.put hp h (some r), .panicIdx)
  | .pcb hp r => (w.put hp h (some r), .panicCb)
  | .ub u => (w, .ub u)

/-- `for item in iter { self.push_str(item) }`; `none` = the iterator panics there -/
def pushLoop (rf : Refuse) (st : List Bytes) : Heap → Handle → List (Option Bytes) → Res Unit
  | hp, r, [] => .ok () hp r
  | hp, r, none :: _ => .pcb hp r
  | hp, r, some s :: rest =>
    match pushStr rf st hp r s with
    | .ok _ hp1 r1 => pushLoop rf st hp1 r1 rest
    | other => other

/-- a temporary `LeanString` built by `build` is stored in `d` on success and dropped otherwise -/
def finishTemp (w : World) (d : Nat) (res : Res Unit) : World × Out :=
  match res with
  | .ok _ hp r => (w.put hp d (some r), .ok .unit)
  | .err hp r => match releaseRepr hp r with
    | .ok hp' => (w.put hp' d none, .panicAlloc)
    | .error u => (w, .ub u)
  | .pcb hp r => match releaseRepr hp r with
    | .ok hp' => (w.put hp' d none, .panicCb)
    | .error u => (w, .ub u)
  | .pidx hp r => match releaseRepr hp r with
    | .ok hp' => (w.put hp' d none, .panicIdx)
    | .error u => (w, .ub u)
  | .ub u => (w, .ub u)

/-- `write!(buf, "{}", x)` for a `Display` given as pieces -/
def displayLoop (rf : Refuse) (st : List Bytes) : Heap → Handle → List Piece → Res Bool
  | hp, r, [] => .ok true hp r
  | hp, r, .fail :: _ => .ok false hp r
  | hp, r, .panic :: _ => .pcb hp r
  | hp, r, .text s :: rest =>
    match pushStr rf st hp r s with
    | .ok _ hp1 r1 => displayLoop rf st hp1 r1 rest
    | .err hp1 r1 => .err hp1 r1
    | .pidx hp1 r1 => .pidx hp1 r1
    | .pcb hp1 r1 => .pcb hp1 r1
    | .ub u => .ub u

def boolText (b : Bool) : Bytes := if b then [0x74, 0x72, 0x75, 0x65] else [0x66, 0x61, 0x6c, 0x73, 0x65]

/-- the items `from_utf16_lossy` collects: every unpaired surrogate becomes U+FFFD -/
def lossy16 (u : List Nat) : List (Option Bytes) :=
  (decodeUtf16 u).map fun o => match o with | some c => some c | none => some replacement

/-- lower bound of `DecodeUtf16::size_hint` on a fresh decoder -/
def utf16Hint (u : List Nat) : Nat := (u.length + 1) / 2

/-- `from_utf16`: the loop stops at the first unpaired surrogate and drops the partial string -/
def finishUtf16 (w : World) (d : Nat) (res : Res Unit) : World × Out :=
  match res with
  | .pcb hp r => match releaseRepr hp r with
    | .ok hp' => (w.put hp' d none, .errUtf16)
    | .error e => (w, .ub e)
  | other => finishTemp w d other

def step (rf : Refuse) (w : World) : Op → World × Out
  | .new d =>
    if (w.get d).isSome then (w, .bad) else (w.put w.heap d (some (.inl inlEmpty)), .ok .unit)
  | .fromStr d t plain =>
    if (w.get d).isSome then (w, .bad) else
    match fromStr rf w.heap t with
    | (some r, hp) => (w.put hp d (some r), .ok .unit)
    | (none, hp) => ({ w with heap := hp }, failOut plain)
  | .fromStatic d sid =>
    if (w.get d).isSome then (w, .bad) else
    match w.statics[sid]? with
    | none => (w, .bad)
    | some t =>
      if t.length ≤ MAX_INLINE then (w.put w.heap d (some (.inl (inlNew t))), .ok .unit)
      else if t.length > STATIC_MAX_LEN then (w, .panicAlloc)
      else (w.put w.heap d (some (.stat sid t.length)), .ok .unit)
  | .withCapacity d n plain =>
    if (w.get d).isSome then (w, .bad) else
    match withCapacity rf w.heap n with
    | (some r, hp) => (w.put hp d (some r), .ok .unit)
    | (none, hp) => ({ w with heap := hp }, failOut plain)
  | .fromChar d c =>
    if (w.get d).isSome then (w, .bad) else (w.put w.heap d (some (.inl (inlNew c))), .ok .unit)
  | .clone d s =>
    if (w.get d).isSome then (w, .bad) else
    match w.get s with
    | none => (w, .bad)
    | some r => match shallowClone w.heap r with
      | .ok (hp, r') => (w.put hp d (some r'), .ok .unit)
      | .error u => (w, .ub u)
  | .cloneFrom d s =>
    if d = s then (w, .bad) else
    match w.get d, w.get s with
    | some old, some r => match shallowClone w.heap r with
      | .error u => (w, .ub u)
      | .ok (hp, r') => match releaseRepr hp old with
        | .error u => (w, .ub u)
        | .ok hp' => (w.put hp' d (some r'), .ok .unit)
    | _, _ => (w, .bad)
  | .drop h =>
    match w.get h with
    | none => (w, .bad)
    | some r => match releaseRepr w.heap r with
      | .ok hp => (w.put hp h none, .ok .unit)
      | .error u => (w, .ub u)
  | .pushStr h s plain =>
    match w.get h with
    | none => (w, .bad)
    | some r => finish w h plain (fun _ => .unit) (pushStr rf w.statics w.heap r s)
  | .pop h plain =>
    match w.get h with
    | none => (w, .bad)
    | some r => finish w h plain (fun o => match o with | none => Val.none | some c => Val.some c) (pop w.statics w.heap r)
  | .remove h i plain =>
    match w.get h with
    | none => (w, .bad)
    | some r => finish w h plain Val.char (remove rf w.statics w.heap r i)
  | .insertStr h i s plain =>
    match w.get h with
    | none => (w, .bad)
    | some r => finish w h plain (fun _ => .unit) (insertStr rf w.statics w.heap r i s)
  | .truncate h n plain =>
    match w.get h with
    | none => (w, .bad)
    | some r => finish w h plain (fun _ => .unit) (truncate w.statics w.heap r n)
  | .clear h =>
    match w.get h with
    | none => (w, .bad)
    | some r => finish w h true (fun _ => .unit) (clear w.heap r)
  | .retain h answers plain =>
    match w.get h with
    | none => (w, .bad)
    | some r => finish w h plain (fun _ => .unit) (retain rf w.statics w.heap r answers)
  | .reserve h n plain =>
    match w.get h with
    | none => (w, .bad)
    | some r => finish w h plain (fun _ => .unit) (reserve rf w.statics w.heap r n)
  | .shrinkTo h n plain =>
    match w.get h with
    | none => (w, .bad)
    | some r => finish w h plain (fun _ => .unit) (shrinkTo rf w.heap r n)
  | .extendChars h hint items =>
    match w.get h with
    | none => (w, .bad)
    | some r =>
      -- `let _ = self.try_reserve(lower_bound);`
      match reserve rf w.statics w.heap r hint with
      | .ub u => (w, .ub u)
      | .ok _ hp1 r1 | .err hp1 r1 | .pidx hp1 r1 | .pcb hp1 r1 =>
        finish w h true (fun _ => .unit) (pushLoop rf w.statics hp1 r1 items)
  | .extendStrs h items =>
    match w.get h with
    | none => (w, .bad)
    | some r => finish w h true (fun _ => .unit) (pushLoop rf w.statics w.heap r items)
  | .collectChars d hint items =>
    if (w.get d).isSome then (w, .bad) else
    let (r0, hp0) := match withCapacity rf w.heap hint with
      | (some r, hp) => (r, hp)
      | (none, hp) => (Handle.inl inlEmpty, hp)
    finishTemp w d (pushLoop rf w.statics hp0 r0 items)
  | .collectStrs d items =>
    if (w.get d).isSome then (w, .bad) else
    finishTemp w d (pushLoop rf w.statics w.heap (.inl inlEmpty) items)
  | .display d pieces =>
    if (w.get d).isSome then (w, .bad) else
    match displayLoop rf w.statics w.heap (.inl inlEmpty) pieces with
    | .ok true hp r => (w.put hp d (some r), .ok .unit)
    | .ok false hp r => match releaseRepr hp r with
      | .ok hp' => (w.put hp' d none, .errFmt)
      | .error u => (w, .ub u)
    | .err hp r => finishTemp w d (.err hp r)
    | .pcb hp r => finishTemp w d (.pcb hp r)
    | .pidx hp r => finishTemp w d (.pidx hp r)
    | .ub u => (w, .ub u)
  | .fromInt d ty v =>
    if (w.get d).isSome then (w, .bad) else
    match intToReprTy rf w.heap ty v with
    | none => (w, .bad)
    | some (some r, hp) => (w.put hp d (some r), .ok .unit)
    | some (none, hp) => ({ w with heap := hp }, .err)
  | .fromBool d b =>
    if (w.get d).isSome then (w, .bad) else (w.put w.heap d (some (.inl (inlNew (boolText b)))), .ok .unit)
  | .fromUtf8 d b =>
    if (w.get d).isSome then (w, .bad) else
    if validUtf8 b then
      -- `Ok(LeanString::from(str))`
      match fromStr rf w.heap b with
      | (some r, hp) => (w.put hp d (some r), .ok .unit)
      | (none, hp) => ({ w with heap := hp }, .panicAlloc)
    else (w, .errUtf8)
  | .fromUtf8Lossy d b =>
    if (w.get d).isSome then (w, .bad) else
    -- `with_capacity(buf.len())`, then `push_str(valid)` / `push(U+FFFD)` per chunk
    match withCapacity rf w.heap b.length with
    | (none, hp) => ({ w with heap := hp }, .panicAlloc)
    | (some r0, hp0) => finishTemp w d (pushLoop rf w.statics hp0 r0 (lossyPushes b))
  | .fromUtf16 d u =>
    if (w.get d).isSome then (w, .bad) else
    match withCapacity rf w.heap u.length with
    | (none, hp) => ({ w with heap := hp }, .panicAlloc)
    | (some r0, hp0) => finishUtf16 w d (pushLoop rf w.statics hp0 r0 (decodeUtf16 u))
  | .fromUtf16Lossy d u =>
    -- `decode_utf16(..).map(|c| c.unwrap_or(REPLACEMENT)).collect()`
    if (w.get d).isSome then (w, .bad) else
    let (r0, hp0) := match withCapacity rf w.heap (utf16Hint u) with
      | (some r, hp) => (r, hp)
      | (none, hp) => (Handle.inl inlEmpty, hp)
    finishTemp w d (pushLoop rf w.statics hp0 r0 (lossy16 u))

/-- a history -/
def run (rf : Refuse) (w : World) : List Op → World
  | [] => w
  | op :: ops => run rf (step rf w op).1 ops

end LS
